"""C37 — the C3 front-end computes the values C3 semantics prescribe.

Deciding method: tla/C3Src.tla (the C3 abstract machine: typed fixed-width arithmetic, common types, implicit
conversions, short-circuit conditions, loops, switch, calls, pointers to locals / globals / array elements) is refined
by tla/IR.tla on the IR that api.c3_to_ir emits for x86_64 and arm.  Python only generates abstract programs, renders
them as C3, drives ppci, projects the IR and moves TLC's C3Src observations into the IR run; TLC + the two
specifications decide.

  M   C3Src_MC.tla    laws of the typing / conversion / operator definitions, exhaustively over all type pairs and
                      boundary values, and hand-written micro programs with outcomes derived from the rules
  G   C3Src_Run.tla   TLC executes every (program, argument vector) under C3Src.tla and writes the observation
  T   C3Src_IR.tla    TLC executes ppci's IR (IR.tla) and checks DefinedStaysDefined / SrcSameReturn / SrcSameGlobals
                      against the C3Src observation whenever C3Src ended "ok"
  ref gcc -O0 -fwrapv on the C rendering (thorough tier, and on every disagreement in the quick tier): guard only
      (SPEC-SUSPECT), never changes the verdict otherwise

c28_traces(ctx) feeds the same generator's programs (and constraint-violating variants) to property C28.
"""
import contextlib
import io
import json
import logging
import os
import random
import shutil
import subprocess
import tempfile
from concurrent.futures import ThreadPoolExecutor

from harness import c3gen, project_ir
from harness.c3gen import (ADDR, ASG, B, BITS, BL, CALL, CAST, DECL, DECLARR, DEREF, FN, FOR, G, IDX, IF, L, PROG, RET,
                           SIZEOF, SWITCH, TYPES, U, V, WHILE, can_coerce, common_type, is_signed, lit_of, trange)
from harness.tlc import MachineryError

SRC_CFG = """INIT RInit
NEXT RNext
CHECK_DEADLOCK FALSE
INVARIANT TypeOK
INVARIANT NeverStuck
"""
IR_CFG = """INIT Init
NEXT Next
CHECK_DEADLOCK FALSE
INVARIANT DefinedStaysDefined
INVARIANT SrcSameReturn
INVARIANT SrcSameGlobals
"""
logging.getLogger().addHandler(logging.NullHandler())   # ppci reports through logging; keep the check's output clean
IR_INT = {"i8": 1, "u8": 1, "i16": 2, "u16": 2, "i32": 4, "u32": 4, "i64": 8, "u64": 8}
MARCHES = (("x86_64", 8), ("arm", 4))
MODULE = "main"
WORKERS = 8
QUICK_PROBES = 110            # sampled probes in the quick tier (plus the sentinels); thorough runs all of them
QUICK_PROBE_VECTORS = 4
QUICK_PROGRAMS = 16
THOROUGH_PROGRAMS = 200
THOROUGH_PROBE_VECTORS = 10
FAMILIES = ("bin:", "type-of:", "compound:", "compound-mem:", "cast:", "conv-", "index:", "unary:", "ptr:param:", "ptr:var:")
# probes that are always run: they decide which construct classes the random programs avoid
SENTINELS = {"constexpr:%:neg", "constexpr:/:inexact", "constexpr:+", "ginit:%:neg", "bin:>>:u8,u8", "bin:/:i32,i32",
             "compound:*=:lhs=u8,rhs=i32", "cast:i32->i8", "switch:default-middle", "ptr:local", "bin:<:u8,i32"}


# ------------------------------------------------------------------ systematic probes
def bvals(t, small=False):
    lo, hi = trange(t)
    s = [0, 1, 2, 7, hi, hi - 1, hi // 2 + 1, 100]
    if lo < 0:
        s += [-1, -2, -7, lo, lo + 1]
    if small == "tiny":
        s = [0, 1, 2, 3, 5]
    elif small:
        s = [0, 1, 3, BITS[t] - 1, 7, 31]
    return sorted({v for v in s if lo <= v <= hi})


def probes():
    """Systematic micro programs: every construct of the property over every admissible combination of types.
    Yields (construct key, program, small_second_operand)."""
    pairs = c3gen.ALL_PAIRS
    for op in c3gen.ARITH + c3gen.CMP:
        for ta, tb in pairs:
            ct = common_type(ta, tb)
            rt = "bool" if op in c3gen.CMP else ct
            yield ("bin:%s:%s,%s" % (op, ta, tb),
                   PROG([FN("f", rt, [("a", ta), ("b", tb)], [RET(B(op, V("a"), V("b")))])]), op in ("<<", ">>"))
    # the type of the result observed through a wider operation: (a op b) converted to 64 bits keeps the narrow wrap
    for op in ("+", "*", "-", "<<"):
        for ta, tb in pairs:
            ct = common_type(ta, tb)
            wt = "i64" if can_coerce(ct, "i64") else "u64"
            yield ("type-of:%s:%s,%s" % (op, ta, tb),
                   PROG([FN("f", wt, [("a", ta), ("b", tb)], [RET(B("+", B(op, V("a"), V("b")), CAST(wt, L(0))))])]), op == "<<")
    for op in c3gen.CASG:
        for tl in TYPES:
            for tr in TYPES:
                if not can_coerce(tr, tl):
                    continue
                yield ("compound:%s:lhs=%s,rhs=%s" % (op, tl, tr),
                       PROG([FN("f", tl, [("a", tl), ("b", tr)], [ASG(V("a"), V("b"), op), RET(V("a"))])]), False)
                yield ("compound-mem:%s:lhs=%s,rhs=%s" % (op, tl, tr),
                       PROG([FN("f", tl, [("a", tl), ("b", tr)],
                                [ASG(IDX("ga", L(1)), V("a")), ASG(IDX("ga", L(1)), V("b"), op), RET(IDX("ga", L(1)))])],
                            [G("ga", tl, ln=3)]), False)
    for ta in TYPES:
        for op in ("-", "+"):
            yield ("unary:%s:%s" % (op, ta), PROG([FN("f", ta, [("a", ta)], [RET(U(op, V("a")))])]), False)
        for tb in TYPES:
            yield ("cast:%s->%s" % (ta, tb), PROG([FN("f", tb, [("a", ta)], [RET(CAST(tb, V("a")))])]), False)
            if not can_coerce(ta, tb):
                continue
            yield ("conv-return:%s->%s" % (ta, tb), PROG([FN("f", tb, [("a", ta)], [RET(V("a"))])]), False)
            yield ("conv-init:%s->%s" % (ta, tb), PROG([FN("f", tb, [("a", ta)], [DECL("x", tb, V("a")), RET(V("x"))])]), False)
            yield ("conv-arg:%s->%s" % (ta, tb),
                   PROG([FN("g", tb, [("x", tb)], [RET(V("x"))]), FN("f", tb, [("a", ta)], [RET(CALL("g", V("a")))])]), False)
            yield ("conv-store:%s->%s" % (ta, tb),
                   PROG([FN("f", tb, [("a", ta)], [ASG(V("gs"), V("a")), RET(V("gs"))])], [G("gs", tb)]), False)
            yield ("conv-elem:%s->%s" % (ta, tb),
                   PROG([FN("f", tb, [("a", ta)], [DECLARR("la", tb, 2, [V("a"), V("a")]), RET(IDX("la", L(1)))])]), False)
    # array indexing: element type x index type (the index is converted to int)
    for te in TYPES:
        for ti in TYPES:
            if not can_coerce(ti, "i32"):
                continue
            yield ("index:elem=%s,index=%s" % (te, ti),
                   PROG([FN("f", te, [("i", ti)], [ASG(IDX("ga", V("i")), lit_of(te, 77) if te == "i32" else CAST(te, L(77))),
                                                   RET(IDX("ga", B("-", L(3), V("i"))))])],
                        [G("ga", te, [L(10), L(20), L(30), L(40)] if te in ("i32", "u8") else [], 4)]), True)
    # pointers: to a local, a global, an array element; through a parameter; reassigned
    for te in TYPES:
        inc = FN("inc", "void", [("p", te, True), ("d", te)], [ASG(DEREF(V("p")), V("d"), "+=")])
        yield ("ptr:param:%s" % te,
               PROG([inc, FN("f", te, [("a", te)], [DECL("l", te, V("a")), CALL("inc", ADDR(V("l")), V("a")),
                                                   CALL("inc", ADDR(V("gs")), V("l")), CALL("inc", ADDR(IDX("ga", L(2))), V("a")),
                                                   RET(B("+", B("+", V("l"), V("gs")), IDX("ga", L(2))))])],
                    [G("gs", te), G("ga", te, ln=3)]), False)
        yield ("ptr:var:%s" % te,
               PROG([FN("f", te, [("a", te)], [DECL("l", te, V("a")), DECL("q", te, ADDR(V("l")), ptr=True),
                                               ASG(DEREF(V("q")), B("+", DEREF(V("q")), V("a"))), ASG(V("q"), ADDR(IDX("ga", L(1)))),
                                               ASG(DEREF(V("q")), V("l")), ASG(V("gp"), V("q")),
                                               RET(B("^", DEREF(V("gp")), V("l")))])],
                    [G("ga", te, ln=2), G("gp", te, ptr=True)]), False)
    yield ("ptr:local", PROG([FN("f", "i32", [("a", "i32")], [DECL("l", "i32", V("a")), DECL("q", "i32", ADDR(V("l")), ptr=True),
                                                              ASG(DEREF(V("q")), L(5), "*="), RET(V("l"))])]), False)
    # constant expressions: const definitions, global initialisers, case labels (D9)
    for op, a, b, tag in (("+", 274, 7, ""), ("-", 3, 10, ""), ("*", 300, 7, ""), ("/", 42, 7, "exact"), ("/", 7, 2, "inexact"),
                          ("%", 47, 5, "pos")):
        k = ":" + tag if tag else ""
        yield ("constexpr:%s%s" % (op, k), PROG([FN("f", "i32", [("a", "i32")], [RET(B("+", V("K"), V("a")))])], [],
                                               [("K", "i32", B(op, L(a), L(b)))]), False)
        yield ("ginit:%s%s" % (op, k), PROG([FN("f", "i32", [("a", "i32")], [RET(B("+", V("g"), V("a")))])],
                                           [G("g", "i32", [B(op, L(a), L(b))])]), False)
    for op in ("/", "%"):
        yield ("constexpr:%s:neg" % op, PROG([FN("f", "i32", [("a", "i32")], [RET(B("+", V("K"), V("a")))])], [],
                                            [("K", "i32", B(op, B("-", L(0), L(7)), L(2)))]), False)
        yield ("ginit:%s:neg" % op, PROG([FN("f", "i32", [("a", "i32")], [RET(B("+", V("g"), V("a")))])],
                                        [G("g", "i32", [B(op, B("-", L(0), L(7)), L(2))])]), False)
    # / and % in every constant context over all sign combinations of dividend and divisor, exact and inexact quotients
    def neg(v):
        return L(v) if v >= 0 else B("-", L(0), L(-v))

    for op in ("/", "%"):
        for a in (7, -7, 8, -8):
            for b in (2, -2):
                tag = "%s:%s%s:%s" % (op, "n" if a < 0 else "p", "n" if b < 0 else "p", "exact" if abs(a) == 8 else "inexact")
                e = B(op, neg(a), neg(b))
                q = abs(a) // abs(b) * (-1 if (a < 0) != (b < 0) else 1)      # only to choose interesting argument vectors
                val = q if op == "/" else a - b * q
                vecs = [[v] for v in dict.fromkeys([val, -val, val + 1, 0, 13, 3, -3])]
                yield ("constexpr-sign:const:" + tag, PROG([FN("f", "i32", [("a", "i32")], [RET(B("+", V("K"), V("a")))])], [],
                                                           [("K", "i32", e)]), vecs[:4])
                yield ("constexpr-sign:const-byte:" + tag, PROG([FN("f", "i32", [("a", "i32")], [RET(B("+", B("*", V("K"), L(3)), V("a")))])], [],
                                                                [("K", "u8", B("+", e, L(100)))]), vecs[:3])
                yield ("constexpr-sign:ginit:" + tag, PROG([FN("f", "i32", [("a", "i32")], [RET(B("+", V("g"), V("a")))])],
                                                           [G("g", "i32", [e])]), vecs[:4])
                yield ("constexpr-sign:ginit-array:" + tag,
                       PROG([FN("f", "i32", [("a", "i32")], [RET(B("+", B("-", IDX("ga", L(1)), IDX("ga", L(0))), V("a")))])],
                            [G("ga", "i32", [L(5), e, B("*", e, L(2))], 3)]), vecs[:3])
                yield ("constexpr-sign:case:" + tag,
                       PROG([FN("f", "i32", [("a", "i32")], [DECL("r", "i32", L(1)),
                                                             SWITCH(V("a"), [(e, [ASG(V("r"), L(10), "+=")]), (None, [ASG(V("r"), L(100), "+=")])]),
                                                             RET(V("r"))])]), vecs[:6])
                if val >= 1:
                    yield ("constexpr-sign:array-size:" + tag,
                           PROG([FN("f", "i32", [("a", "i32")], [ASG(IDX("ga", L(val - 1)), V("a")),
                                                                 RET(B("+", IDX("ga", L(val - 1)), SIZEOF("u16", e)))])],
                                [G("ga", "i32", ln=val, lenx=e)]), vecs[:3])
    yield ("constexpr:byte", PROG([FN("f", "i32", [("a", "i32")], [RET(B("+", B("+", V("K"), V("K2")), V("a")))])], [],
                                  [("K", "u8", L(300)), ("K2", "i32", B("*", V("K"), L(3)))]), False)
    yield ("constexpr:cast", PROG([FN("f", "i32", [("a", "i32")], [RET(B("+", V("K"), V("a")))])], [],
                                  [("K", "i32", B("+", CAST("u8", L(511)), CAST("i32", L(9))))]), False)
    yield ("ginit:array", PROG([FN("f", "i32", [("a", "u8")], [RET(B("+", IDX("ga", B("&", V("a"), L(3))), IDX("gb", L(1))))])],
                               [G("ga", "i32", [L(1), B("-", L(0), L(2)), L(300), V("K")], 4), G("gb", "u8", [L(255), L(256 + 7)], 2)],
                               [("K", "i32", L(9))]), False)
    yield ("ginit:zero", PROG([FN("f", "i64", [("a", "i32")], [RET(B("+", B("+", V("g"), IDX("ga", L(1))), V("a")))])],
                              [G("g", "i64"), G("ga", "u16", ln=2), G("gb", "bool")]), False)
    # switch: default first / in the middle / last, case labels by constant
    for pos, name in ((0, "first"), (1, "middle"), (3, "last")):
        cases = [(L(1), [ASG(V("r"), L(10), "+=")]), (V("K"), [ASG(V("r"), L(1000), "+=")]), (L(255), [ASG(V("r"), L(5))])]
        cases.insert(pos, (None, [ASG(V("r"), L(100), "+=")]))
        yield ("switch:default-%s" % name,
               PROG([FN("f", "i32", [("a", "i32")], [DECL("r", "i32", L(1)), SWITCH(V("a"), cases), RET(V("r"))])], [],
                    [("K", "i32", B("+", L(2), L(5)))]), True)
    # loops and conditions
    yield ("loop:for", PROG([FN("f", "i32", [("n", "i32")], [DECL("s", "i32", L(0)), DECL("i", "i32", L(0)),
                                                             FOR(ASG(V("i"), L(1)), B("<=", V("i"), V("n")), ASG(V("i"), L(1), "+="),
                                                                 [ASG(V("s"), V("i"), "+=")]), RET(V("s"))])]), "tiny")
    yield ("loop:while-nested",
           PROG([FN("f", "i32", [("n", "u8")], [DECL("s", "i32", L(0)), DECL("i", "u8", L(0)),
                                                WHILE(B("<", V("i"), V("n")),
                                                      [DECL("j", "i32", L(0)),
                                                       WHILE(B("and", B("<", V("j"), L(3)), B("!=", V("j"), V("i"))),
                                                             [ASG(V("s"), B("+", V("s"), B("*", V("j"), V("i")))), ASG(V("j"), L(1), "+=")]),
                                                       ASG(V("i"), B("+", V("i"), L(1)))]),
                                                RET(V("s"))])]), "tiny")
    for op in ("and", "or"):
        yield ("shortcircuit:%s" % op,
               PROG([FN("g", "bool", [("x", "i32")], [ASG(V("gv"), V("x"), "+="), RET(B(">", V("x"), L(2)))]),
                     FN("f", "i32", [("a", "i32")], [IF(B(op, B("!=", V("a"), L(0)), B(op, B(">", B("/", L(100), V("a")), L(3)), CALL("g", V("a")))),
                                                        [ASG(V("gv"), L(100), "+=")], [ASG(V("gv"), L(1000), "+=")]),
                                                     RET(V("gv"))])], [G("gv", "i32", [L(1)])]), True)
    yield ("bool:values",
           PROG([FN("f", "bool", [("p", "bool"), ("a", "i32")], [DECL("q", "bool", U("not", V("p"))),
                                                                ASG(V("gb"), B("==", V("q"), B(">", V("a"), L(3)))),
                                                                IF(V("gb"), [ASG(V("q"), B("!=", V("q"), BL(True)))]),
                                                                RET(B("or", V("gb"), B("and", V("p"), U("not", V("q")))))])],
                [G("gb", "bool")]), True)
    yield ("call:nested",
           PROG([FN("h", "i32", [("x", "i32"), ("y", "u8")], [RET(B("-", V("x"), V("y")))]),
                 FN("p", "void", [("x", "i16")], [ASG(V("gv"), V("x")), RET()]),
                 FN("f", "i32", [("a", "i32")], [CALL("p", CAST("i16", V("a"))),
                                                 RET(B("+", B("+", CALL("h", CALL("h", V("a"), L(1)), L(300)), CALL("h", L(50), L(8))), V("gv")))])],
                [G("gv", "i32")]), False)
    yield ("locals:array", PROG([FN("f", "i32", [("a", "i32")],
                                    [DECLARR("la", "i16", 3, [CAST("i16", V("a")), CAST("u8", L(7)), CAST("i8", L(200))]),
                                     ASG(IDX("la", L(1)), IDX("la", L(0)), "+="), DECLARR("lb", "u8", 2), ASG(IDX("lb", L(0)), L(300)),
                                     RET(B("+", B("+", IDX("la", L(1)), IDX("la", L(2))), IDX("lb", L(0))))])]), False)


def probe_vectors(f, small_b, rng, n):
    ps = f["params"]
    if isinstance(small_b, list):          # explicit vectors
        return small_b
    cands = []

    def vals(p, small=False):
        return [0, 1] if p["ty"] == "bool" else bvals(p["ty"], small)

    if len(ps) == 1:
        cands = [[a] for a in vals(ps[0], small_b)]
        if small_b is True:
            cands += [[a] for a in (-1, 2, 200) if trange(ps[0]["ty"])[0] <= a <= trange(ps[0]["ty"])[1] and [a] not in cands]
    else:
        for a in vals(ps[0]):
            for b in vals(ps[1], small_b):
                cands.append([a, b])
    if n is None or len(cands) <= n:
        return cands
    return [cands[k] for k in sorted(rng.sample(range(len(cands)), n))]


def construct_class(key):
    """The construct class (see c3gen.Gen: avoid) that a failing probe key belongs to, or None."""
    parts = key.split(":")
    fam, op = parts[0], parts[1] if len(parts) > 1 else ""
    if fam == "constexpr-sign":
        return "constexpr-div"
    if fam in ("constexpr", "ginit"):
        return "constexpr-div" if op in ("/", "%") else "constexpr"
    if fam in ("compound", "compound-mem"):
        return "compound"
    if fam == "cast":
        return "cast"
    if fam == "switch":
        return "switch"
    if fam == "ptr":
        return "pointer"
    if fam in ("bin", "type-of"):
        if op in ("<<", ">>"):
            return "shift"
        if op in ("/", "%"):
            return "div"
    return None


# ------------------------------------------------------------------ items
def make_item(key, prog, vecs, kind):
    f = [x for x in prog["funcs"] if x["n"] == prog["main"]][0]
    return {"key": key, "prog": prog, "f": f, "vecs": vecs, "kind": kind, "src": c3gen.render_c3(prog, MODULE)}


def random_items(ctx, n, nvec, classes=()):
    out = []
    for _ in range(n):
        seed = ctx.rng.randrange(1 << 30)
        prng = random.Random(seed)
        prog = c3gen.Gen(prng, max_funcs=3, max_stmts=6, max_depth=3, avoid=classes).program()
        f, vecs = c3gen.arg_vectors(prog, prng, nvec)
        out.append(make_item("prog:c%d" % seed, prog, vecs, "random"))
    return out


# ------------------------------------------------------------------ ppci side
def c3_compile(src, march):
    """api.c3_to_ir on one module; the diagnostics that the front-end prints are swallowed."""
    from ppci import api

    with contextlib.redirect_stdout(io.StringIO()):
        return api.c3_to_ir([io.StringIO(src)], [], march)


def check_int_size(ctx):
    from ppci.arch import get_arch

    for march, pb in MARCHES:
        info = get_arch(march).info
        if info.get_size("int") != 4 or info.get_size("ptr") != pb:
            raise MachineryError("C3Src.tla assumes int = 4 bytes, pointers %d bytes on %s" % (pb, march))


def stub_module(it, pb, why):
    """Stand-in for the IR of a program that the front-end did not translate: its function cannot be executed
    (IR.tla ends 'outofmodel' with the recorded reason), so that TLC judges the recorded outcome of the front-end."""
    ptys = ["i32" if p["ty"] == "bool" else p["ty"] for p in it["f"]["params"]]
    fname = "%s_%s" % (MODULE, it["f"]["n"])
    fn = {"name": fname, "ret": "", "params": [{"id": k + 1, "ty": t} for k, t in enumerate(ptys)], "nvals": len(ptys), "entry": 1,
          "blocks": [{"name": "none", "ins": [{"k": "oom", "d": 0, "ty": "", "why": why}]}]}
    return {"name": "not-translated", "pb": pb, "globals": [{"k": "fn", "name": fname, "fi": 1, "binding": "global"}], "funcs": [fn]}


def compile_items(ctx, items):
    """Run the real front-end for both targets; attach the IR projections.  A rejection or an internal error on a
    generated (valid) program is recorded as the outcome of the translation (stub module) and judged by TLC like any
    other IR: the program is in the language, so C3 semantics prescribe values that no IR computes."""
    for it in items:
        it["pm"] = {}
        it["ir_argv"] = {}
        for march, pb in MARCHES:
            fname = "%s_%s" % (MODULE, it["f"]["n"])
            try:
                m = c3_compile(it["src"], march)
                pm = project_ir.project_module(m, pb)
                fi = [g for g in pm["funcs"] if g["name"] == fname]
                if not fi or len(fi[0]["params"]) != len(it["f"]["params"]) or any(p["ty"] not in IR_INT for p in fi[0]["params"]):
                    ctx.cov["no_ir_function"] = ctx.cov.get("no_ir_function", 0) + 1
                    pm = stub_module(it, pb, "front-end: no IR function %s with the declared integer parameters" % fname)
            except Exception as e:  # rejection (TaskError) or internal error of the front-end
                name = "frontend_rejected" if type(e).__name__ in ("TaskError", "CompilerError", "SemanticError") else "frontend_internal_error"
                ctx.cov[name] = ctx.cov.get(name, 0) + 1
                if len(ctx.cov.setdefault(name + "_samples", [])) < 5:
                    ctx.cov[name + "_samples"].append({"key": it["key"], "march": march, "exc": type(e).__name__, "msg": str(e)[:200]})
                pm = stub_module(it, pb, "front-end: %s: %s" % (type(e).__name__, str(e)[:80]))
            fi = [g for g in pm["funcs"] if g["name"] == fname]
            # argument words in the width of the IR parameter, value extended according to the C3 parameter type
            it["ir_argv"][march] = [[project_ir.limbs(int(v), IR_INT[q["ty"]]) for v, q in zip(vec, fi[0]["params"])]
                                    for vec in it["vecs"]]
            it["pm"][march] = pm
    return items


# ------------------------------------------------------------------ TLC: C3Src observations
def run_src(ctx, items, label):
    """TLC executes every (item, vector) under C3Src.tla; returns {(item index, vector index): observation}."""
    cases = [{"id": it["key"], "prog": c3gen.to_src(it["prog"]), "fn": it["f"]["n"],
              "argv": [c3gen.src_args(it["f"], v) for v in it["vecs"]], "fuel": 3000} for it in items]
    obsdir = tempfile.mkdtemp(prefix="obs_", dir=ctx.workdir)
    path = ctx.trace_file(cases, "src.json")
    res = ctx.tlc("C3Src_Run", SRC_CFG, label=label, env={"TRACE_FILE": path, "OBS_DIR": obsdir}, continue_=True,
                  workers=WORKERS, coverage=False)
    os.unlink(path)
    if res.errors:
        e = res.errors[0]
        i = e.last.get("i")
        raise MachineryError("C3Src.tla could not execute a generated program (%s): %s\n%s\n%s" % (
            e.name, {k: str(v)[:200] for k, v in e.last.items() if k in ("i", "av", "status", "why")}, e.text[:1500],
            items[i - 1]["src"][:3000] if isinstance(i, int) and 0 < i <= len(items) else ""))
    obs = {}
    for fn in os.listdir(obsdir):
        with open(os.path.join(obsdir, fn)) as fh:
            r = json.load(fh)
        obs[(r["i"] - 1, r["av"] - 1)] = r["obs"]
        for a in r["acts"]:
            ctx.cov["actions"]["C3Src." + a] = ctx.cov["actions"].get("C3Src." + a, 0) + 1
    shutil.rmtree(obsdir, ignore_errors=True)
    want = sum(len(it["vecs"]) for it in items)
    if len(obs) != want:
        raise MachineryError("C3Src_Run wrote %d observations, expected %d" % (len(obs), want))
    return obs


# ------------------------------------------------------------------ TLC: the judgement
def ir_obs(o):
    """The C3Src observation with the names the front-end gives to module globals."""
    return {"status": o["status"], "ret": o["ret"],
            "globals": [{"name": "%s_%s" % (MODULE, g["name"]), "off": g["off"], "bytes": g["bytes"]} for g in o["globals"]]}


def decode(bs, signed):
    v = sum(b << (8 * k) for k, b in enumerate(bs))
    if signed and bs and bs[-1] >= 128:
        v -= 1 << (8 * len(bs))
    return v


def describe(it, a, o, clause, st, march):
    sg = is_signed(it["f"]["ret"]) if it["f"]["ret"] in BITS else False
    return "%s(%s) on %s: C3 semantics (C3Src.tla) give ret=%s; ppci's IR gives status=%s%s ret=%s [%s]" % (
        it["f"]["n"], ", ".join(map(str, it["vecs"][a])), march, decode(o["ret"], sg), st.get("status"),
        (" (%s)" % st.get("why")) if st.get("why") else "",
        decode(st["ret"], sg) if isinstance(st.get("ret"), list) and st.get("ret") else st.get("ret"), clause)


# ------------------------------------------------------------------ gcc reference guard
def src_lines(it, o):
    """A C3Src observation in the format printed by c3gen.render_c_main."""
    prog, f = it["prog"], it["f"]
    out = ["RET void" if f["ret"] == "void" else "RET %d" % decode(o["ret"], f["ret"] != "bool" and is_signed(f["ret"]))]
    gl = {g["name"]: g for g in o["globals"]}
    for g in prog["globals"]:
        if g.get("ptr"):
            continue
        sg = g["ty"] != "bool" and is_signed(g["ty"])
        n = BITS[g["ty"]] // 8
        bs = gl[g["n"]]["bytes"]
        if g["len"]:
            for j in range(len(bs) // n):
                out.append("G %s[%d] %d" % (g["n"], j, decode(bs[j * n:(j + 1) * n], sg)))
        else:
            out.append("G %s %d" % (g["n"], decode(bs, sg)))
    return out


def gcc_outputs(it, wd, vec_idx=None):
    """Compile the C rendering natively (wrap-around arithmetic) and run it on the selected vectors."""
    d = tempfile.mkdtemp(dir=wd)
    try:
        c, exe = os.path.join(d, "p.c"), os.path.join(d, "p")
        with open(c, "w") as fh:
            fh.write(c3gen.render_c_main(it["prog"], it["f"], it["vecs"]))
        r = subprocess.run(["gcc", "-O0", "-w", "-fwrapv", "-o", exe, c], capture_output=True, text=True, timeout=120)
        if r.returncode:
            return None
        want = list(range(len(it["vecs"]))) if vec_idx is None else sorted(vec_idx)

        def run(ks):
            try:
                p = subprocess.run([exe] + [str(k) for k in ks], capture_output=True, text=True, timeout=10 + len(ks))
            except subprocess.TimeoutExpired:
                return -1, {}
            got, cur = {}, None
            for ln in p.stdout.splitlines():
                if ln.startswith("K "):
                    cur = int(ln[2:])
                    got[cur] = []
                elif cur is not None:
                    got[cur].append(ln)
            return p.returncode, got

        rc, got = run(want)                 # one process for all vectors; one per vector if that one did not end normally
        if rc == 0 and all(k in got for k in want):
            return {k: (0, got[k]) for k in want}
        outs = {}
        for k in want:
            rc, got = run([k])
            outs[k] = (rc, got.get(k, []))
        return outs
    except (OSError, subprocess.TimeoutExpired):
        return None
    finally:
        shutil.rmtree(d, ignore_errors=True)


def gcc_guard(ctx, items, obs, only=None):
    """Reference guard (DESIGN 3.10): {(k, a): 'agrees' | 'trap' | 'differs'} for C3Src-ok executions;
    only = None: every execution of every item (thorough tier), else {(k, a)}: just these executions."""
    if shutil.which("gcc") is None:
        return {}
    want = {}
    for k in range(len(items)):
        for a in range(len(items[k]["vecs"])):
            if obs[(k, a)]["status"] == "ok" and (only is None or (k, a) in only):
                want.setdefault(k, set()).add(a)
    sel = sorted(want)
    with ThreadPoolExecutor(max_workers=6) as ex:
        outs = list(ex.map(lambda k: gcc_outputs(items[k], ctx.workdir, want[k]), sel))
    verdict = {}
    for k, o in zip(sel, outs):
        if o is None:
            ctx.cov["gcc_failed"] = ctx.cov.get("gcc_failed", 0) + 1
            continue
        for a, (rc, lines) in o.items():
            verdict[(k, a)] = "trap" if rc != 0 else ("agrees" if lines == src_lines(items[k], obs[(k, a)]) else "differs")
    return verdict


# ------------------------------------------------------------------ M: the specification checked by itself
MC_CFG = """CONSTANT NV = %d
INIT MInit
NEXT MNext
CHECK_DEADLOCK FALSE
INVARIANT TypeOK
INVARIANT NeverStuck
INVARIANT LawTyping
INVARIANT LawExamples
INVARIANT LawCoerce
INVARIANT LawCast
INVARIANT LawCastInt
INVARIANT LawArithInt
INVARIANT LawNotAllowed
INVARIANT LawUnary
INVARIANT LawWidth
INVARIANT LawCmpWidth
INVARIANT Law64
INVARIANT ExpectMet
INVARIANT Deterministic
"""
SRC_ACTIONS = ["Decl", "DeclArr", "Assign", "CallStmt", "If", "While", "For", "LoopTest", "Switch", "Return", "BlockEnd",
               "OutOfFuel"]


def micro_programs():
    """Hand-written programs with the outcome that rules D1-D9 of C3Src.tla prescribe (derived by hand, confirmed with
    gcc -fwrapv on the C rendering): (name, program, [(args, status, return value, {global: value | [values]})], fuel)."""
    out = []

    def add(name, prog, runs, fuel=400):
        out.append((name, prog, runs, fuel))

    # D2: byte + byte stays byte (no promotion), also when the result is then widened
    add("byte-wrap", PROG([FN("f", "u8", [("a", "u8"), ("b", "u8")], [RET(B("+", V("a"), V("b")))])]),
        [([200, 100], "ok", 44), ([255, 1], "ok", 0), ([1, 2], "ok", 3)])
    add("byte-wrap-widened", PROG([FN("f", "i32", [("a", "u8"), ("b", "u8")], [RET(B("+", V("a"), V("b")))])]),
        [([200, 100], "ok", 44), ([255, 255], "ok", 254)])
    add("common-type", PROG([FN("f", "i32", [("a", "u8"), ("b", "i32")], [RET(B("+", V("a"), V("b")))])]),
        [([255, 1], "ok", 256), ([255, -256], "ok", -1)])
    add("common-type-16", PROG([FN("f", "i16", [("a", "i16"), ("b", "u8")], [RET(B("*", V("a"), V("b")))])]),
        [([300, 200], "ok", -5536), ([-1, 255], "ok", -255)])
    add("signed-wrap", PROG([FN("f", "i32", [("a", "i32")], [RET(B("+", V("a"), L(1)))])]),
        [([2147483647], "ok", -2147483648), ([-1], "ok", 0)])
    add("div-mod", PROG([FN("f", "i32", [("a", "i32"), ("b", "i32")], [RET(B("+", B("*", B("/", V("a"), V("b")), L(10)), B("%", V("a"), V("b"))))])]),
        [([-7, 2], "ok", -31), ([7, -2], "ok", -29), ([1, 0], "undefined", 0), ([-2147483648, -1], "undefined", 0), ([100, 7], "ok", 142)])
    add("shift-int", PROG([FN("f", "i32", [("a", "i32"), ("n", "i32")], [RET(B("<<", V("a"), V("n")))])]),
        [([1, 31], "ok", -2147483648), ([1, 32], "undefined", 0), ([1, -1], "undefined", 0), ([-3, 2], "ok", -12), ([3, 30], "ok", -1073741824)])
    add("shift-right", PROG([FN("f", "i32", [("a", "i32"), ("n", "i32")], [RET(B(">>", V("a"), V("n")))])]),
        [([-8, 1], "impldef", 0), ([8, 1], "ok", 4), ([2147483647, 30], "ok", 1), ([8, 32], "undefined", 0)])
    add("shift-byte", PROG([FN("f", "u8", [("a", "u8"), ("n", "u8")], [RET(B("<<", V("a"), V("n")))])]),
        [([255, 4], "ok", 240), ([1, 8], "undefined", 0), ([1, 7], "ok", 128)])
    add("shift-mixed", PROG([FN("f", "i32", [("a", "u8"), ("n", "i32")], [RET(B("<<", V("a"), V("n")))])]),
        [([255, 24], "ok", -16777216), ([1, 8], "ok", 256)])
    # D6: short circuit keeps the division from happening
    add("short-circuit", PROG([FN("f", "bool", [("a", "i32")], [RET(B("and", B("!=", V("a"), L(0)), B(">", B("/", L(100), V("a")), L(3))))])]),
        [([0], "ok", 0), ([5], "ok", 1), ([50], "ok", 0)])
    add("short-circuit-or", PROG([FN("f", "bool", [("a", "i32")], [RET(B("or", B("==", V("a"), L(0)), U("not", B("<", B("%", L(7), V("a")), L(1)))))])]),
        [([0], "ok", 1), ([7], "ok", 0), ([5], "ok", 1)])
    # D8: for = init; while (c) { body; step }
    add("for-sum", PROG([FN("f", "i32", [("n", "i32")], [DECL("s", "i32", L(0)), DECL("i", "i32"),
                                                        FOR(ASG(V("i"), L(0)), B("<", V("i"), V("n")), ASG(V("i"), L(1), "+="), [ASG(V("s"), V("i"), "+=")]),
                                                        RET(B("+", B("*", V("s"), L(100)), V("i")))])]),
        [([5], "ok", 1005), ([0], "ok", 0), ([-3], "ok", 0)])
    add("while-nested", PROG([FN("f", "i32", [("n", "u8")],
                                 [DECL("s", "i32", L(0)), DECL("i", "u8", L(0)),
                                  WHILE(B("<", V("i"), V("n")),
                                        [DECL("j", "i32", L(0)),
                                         WHILE(B("<", V("j"), V("i")), [ASG(V("s"), B("+", V("s"), L(1))), ASG(V("j"), L(1), "+=")]),
                                         ASG(V("i"), B("+", V("i"), L(1)))]),
                                  RET(V("s"))])]),
        [([4], "ok", 6), ([0], "ok", 0), ([1], "ok", 0)])
    # D8: switch - first matching case, default anywhere, no fall-through; labels are constant expressions
    add("switch", PROG([FN("f", "i32", [("a", "i32")],
                           [DECL("r", "i32", L(0)),
                            SWITCH(V("a"), [(L(1), [ASG(V("r"), L(10))]), (None, [ASG(V("r"), L(100))]), (V("K"), [ASG(V("r"), L(1000))])]),
                            RET(B("+", V("r"), L(1)))])], [], [("K", "i32", B("+", L(2), L(5)))]),
        [([1], "ok", 11), ([7], "ok", 1001), ([3], "ok", 101), ([-1], "ok", 101)])
    # calls, pointers to a local / a global / an array element, argument conversion int -> byte
    add("calls-and-pointers",
        PROG([FN("inc", "void", [("p", "i32", True), ("d", "u8")], [ASG(DEREF(V("p")), V("d"), "+=")]),
              FN("f", "i32", [("a", "i32")], [DECL("l", "i32", V("a")), CALL("inc", ADDR(V("l")), L(5)), CALL("inc", ADDR(V("g")), L(300)),
                                              CALL("inc", ADDR(IDX("arr", L(2))), L(1)),
                                              RET(B("+", B("+", V("l"), V("g")), IDX("arr", L(2))))])],
             [G("g", "i32", [L(1)]), G("arr", "i32", [L(10), L(20), L(30), L(40)], 4)]),
        [([2], "ok", 83, {"g": 45, "arr": [10, 20, 31, 40]}), ([-81], "ok", 0, {"g": 45})])
    GV = [G("gv", "i32", [L(1)])]
    g2 = FN("g2", "i32", [("x", "i32")], [ASG(V("gv"), B("+", V("gv"), V("x"))), RET(V("gv"))])
    add("calls-sequenced", PROG([g2, FN("f", "i32", [("a", "i32")], [DECL("t", "i32", CALL("g2", V("a"))), DECL("u", "i32", CALL("g2", B("+", V("a"), L(1)))),
                                                                      RET(B("+", B("*", V("t"), L(100)), V("u")))])], GV),
        [([2], "ok", 306, {"gv": 6})])
    add("calls-interfere", PROG([g2, FN("f", "i32", [("a", "i32")], [RET(B("+", CALL("g2", V("a")), CALL("g2", L(1))))])], GV),
        [([2], "unspec", 0)])
    add("calls-interfere-local",
        PROG([FN("w", "i32", [("p", "i32", True)], [ASG(DEREF(V("p")), L(9)), RET(L(1))]),
              FN("f", "i32", [("a", "i32")], [DECL("l", "i32", V("a")), RET(B("+", V("l"), CALL("w", ADDR(V("l")))))])]),
        [([2], "unspec", 0)])
    add("calls-nested", PROG([FN("h", "i32", [("x", "i32"), ("y", "u8")], [RET(B("-", V("x"), V("y")))]),
                              FN("f", "i32", [("a", "i32")], [RET(B("+", CALL("h", CALL("h", V("a"), L(1)), L(2)), CALL("h", L(50), L(8))))])]),
        [([10], "ok", 49), ([0], "ok", 39)])
    # D5: uninitialised local, out-of-bounds index, null pointer
    add("uninitialised", PROG([FN("f", "i32", [("a", "i32")], [DECL("x", "i32"), IF(B(">", V("a"), L(0)), [ASG(V("x"), L(1))]), RET(V("x"))])]),
        [([1], "ok", 1), ([0], "undefined", 0)])
    add("index", PROG([FN("f", "i32", [("k", "i32")], [RET(IDX("ga", V("k")))])], [G("ga", "i32", [L(4), L(5), L(6)], 3)]),
        [([3], "undefined", 0), ([-1], "undefined", 0), ([2], "ok", 6), ([0], "ok", 4)])
    add("index-byte", PROG([FN("f", "u8", [("k", "u8")], [ASG(IDX("ga", V("k")), L(300)), RET(IDX("ga", V("k")))])], [G("ga", "u8", ln=2)]),
        [([1], "ok", 44, {"ga": [0, 44]}), ([2], "undefined", 0)])
    add("null-pointer", PROG([FN("f", "i32", [("a", "i32")], [IF(B(">", V("a"), L(0)), [ASG(V("gp"), ADDR(V("g")))]), RET(DEREF(V("gp")))])],
                             [G("g", "i32", [L(5)]), G("gp", "i32", ptr=True)]),
        [([1], "ok", 5), ([0], "undefined", 0)])
    # D3 / D4: conversions
    add("conv-int-byte", PROG([FN("f", "u8", [("a", "i32")], [RET(V("a"))])]), [([300], "ok", 44), ([-1], "ok", 255)])
    add("conv-sign-extend", PROG([FN("f", "u64", [("a", "i8")], [RET(V("a"))])]), [([-1], "ok", (1 << 64) - 1), ([5], "ok", 5)])
    add("conv-zero-extend", PROG([FN("f", "i64", [("a", "u32")], [RET(V("a"))])]), [([4294967295], "ok", 4294967295)])
    add("cast-narrow", PROG([FN("f", "i8", [("a", "i32")], [RET(CAST("i8", V("a")))])]), [([200], "ok", -56), ([-129], "ok", 127), ([127], "ok", 127)])
    add("unary-minus-byte", PROG([FN("f", "i32", [("a", "u8")], [RET(U("-", V("a")))])]), [([1], "ok", 255), ([0], "ok", 0)])
    # compound assignment: the right side is converted to the type of the left side, the operation is done in it
    add("compound", PROG([FN("f", "u8", [("a", "u8"), ("b", "i32")], [ASG(V("a"), V("b"), "+="), ASG(V("a"), L(3), "*="), ASG(V("a"), L(240), "&="),
                                                                       ASG(V("a"), L(1), "|="), ASG(V("a"), L(2), "-="), RET(V("a"))])]),
        [([200, 100], "ok", 127), ([0, 0], "ok", 255)])
    # comparisons use the signedness of the common type
    add("compare-mixed", PROG([FN("f", "bool", [("a", "u8"), ("b", "i32")], [RET(B("<", V("a"), V("b")))])]),
        [([255, -1], "ok", 0), ([0, 1], "ok", 1)])
    add("compare-unsigned", PROG([FN("f", "bool", [("a", "u32"), ("b", "u32")], [RET(B("<", V("a"), V("b")))])]),
        [([4294967295, 1], "ok", 0), ([1, 4294967295], "ok", 1)])
    # bool values
    add("bool", PROG([FN("f", "bool", [("p", "bool"), ("a", "i32")], [DECL("q", "bool", U("not", V("p"))), ASG(V("gb"), B("==", V("q"), B(">", V("a"), L(3)))),
                                                                      RET(B("or", V("gb"), V("p")))])], [G("gb", "bool")]),
        [([0, 5], "ok", 1, {"gb": 1}), ([1, 5], "ok", 1, {"gb": 0}), ([0, 1], "ok", 0, {"gb": 0})])
    # D9: constant expressions
    add("constant-expressions",
        PROG([FN("f", "i32", [("a", "i32")], [RET(B("+", B("+", B("+", V("K1"), B("*", V("K2"), L(10))), B("*", V("K4"), L(100))), B("*", V("g"), L(1000))))])],
             [G("g", "i32", [B("/", B("-", L(0), L(7)), L(2))])],
             [("K1", "i32", B("%", B("-", L(0), L(7)), L(2))), ("K2", "i32", B("/", L(7), L(2))), ("K3", "u8", L(300)),
              ("K4", "i32", B("+", V("K3"), V("K1")))]),
        [([0], "ok", -1 + 30 + 4300 - 3000, {"g": -3})])
    # D9 with every sign combination; a constant array size; sizeof(T[n])
    def NEG(v):
        return B("-", L(0), L(v))

    add("constant-division-signs",
        PROG([FN("f", "i32", [("a", "i32")],
                 [ASG(IDX("ga", L(2)), L(5)),
                  SWITCH(V("a"), [(B("/", L(7), NEG(2)), [ASG(V("a"), L(1000000))]), (None, [ASG(V("a"), L(0))])]),
                  RET(B("+", B("+", B("+", B("+", B("+", V("K1"), B("*", V("K2"), L(10))), B("*", V("K3"), L(100))), B("*", V("K4"), L(1000))),
                             B("*", SIZEOF("u8", B("/", NEG(8), NEG(2))), L(10000))), V("a")))])],
             [G("ga", "i32", ln=3, lenx=B("/", NEG(7), NEG(2)))],
             [("K1", "i32", B("/", L(7), NEG(2))), ("K2", "i32", B("%", L(7), NEG(2))), ("K3", "i32", B("/", NEG(7), NEG(2))),
              ("K4", "i32", B("%", NEG(7), NEG(2)))]),
        [([0], "ok", -3 + 10 + 300 - 1000 + 40000, {"ga": [0, 0, 5]}), ([-3], "ok", -3 + 10 + 300 - 1000 + 40000 + 1000000), ([3], "ok", 39307)])
    # local arrays, DeclArr with and without initialiser
    add("local-arrays", PROG([FN("f", "i32", [("a", "i32")], [DECLARR("la", "i32", 3, [V("a"), B("+", V("a"), L(1)), L(7)]), ASG(IDX("la", L(1)), IDX("la", L(0)), "+="),
                                                               DECLARR("lb", "u8", 2), ASG(IDX("lb", L(0)), L(300)),
                                                               IF(B(">", V("a"), L(5)), [RET(IDX("lb", L(1)))]),
                                                               RET(B("+", IDX("la", L(1)), IDX("lb", L(0))))])]),
        [([2], "ok", 49), ([9], "undefined", 0)])
    # void function, implicit return at the end of its body; fuel
    add("void-main", PROG([FN("f", "void", [("a", "i32")], [ASG(V("g"), CAST("i16", V("a")))])], [G("g", "i16")]), [([70000], "ok", None, {"g": 4464})])
    add("fuel", PROG([FN("f", "i32", [("a", "i32")], [WHILE(BL(True), [ASG(V("a"), L(1), "+=")]), RET(V("a"))])]), [([0], "fuel", 0)], fuel=60)
    return out


def word(v, n):
    return c3gen.limbs(v, n)


def micro_cases():
    cases = []
    for name, prog, runs, fuel in micro_programs():
        f = [x for x in prog["funcs"] if x["n"] == prog["main"]][0]
        gty = {g["n"]: g for g in prog["globals"]}
        expect = []
        for run in runs:
            status, rv = run[1], run[2]
            gl = run[3] if len(run) > 3 else {}
            globs = []
            for gname, val in gl.items():
                n = BITS[gty[gname]["ty"]] // 8
                bs = sum((word(v, n) for v in val), []) if isinstance(val, list) else word(val, n)
                globs.append({"name": gname, "off": 0, "bytes": bs})
            expect.append({"status": status, "ret": word(rv, BITS[f["ret"]] // 8) if status == "ok" and f["ret"] != "void" else [],
                           "globals": globs})
        cases.append({"id": name, "prog": c3gen.to_src(prog), "fn": f["n"], "argv": [c3gen.src_args(f, r[0]) for r in runs],
                      "fuel": fuel, "expect": expect})
    return cases


def model_check(ctx):
    cases = micro_cases()
    path = ctx.trace_file(cases, "micro.json")
    obsdir = tempfile.mkdtemp(prefix="mcacts_", dir=ctx.workdir)
    nv = 13 if ctx.tier == "thorough" else 4
    res = ctx.tlc("C3Src_MC", MC_CFG % nv, label="C3Src_MC laws + micro programs", env={"TRACE_FILE": path, "OBS_DIR": obsdir},
                  continue_=True, workers=WORKERS, coverage=False)
    os.unlink(path)
    if res.errors:
        msgs = []
        for e in res.errors[:6]:
            st = e.last
            i = st.get("i")
            msgs.append("%s %s case=%s state=%s %s" % (
                e.kind, e.name, cases[i - 1]["id"] if isinstance(i, int) and 0 < i <= len(cases) else "-",
                {k: str(v)[:300] for k, v in st.items() if k in ("i", "av", "lw", "status", "why", "ret")},
                e.text[:600] if e.kind == "eval" else ""))
        raise MachineryError("C3Src.tla fails its own model check:\n" + "\n".join(msgs))
    seen = {}
    nruns = 0
    for fn in os.listdir(obsdir):
        with open(os.path.join(obsdir, fn)) as fh:
            r = json.load(fh)
        nruns += 1
        for a in r["acts"]:
            seen[a] = seen.get(a, 0) + 1
    shutil.rmtree(obsdir, ignore_errors=True)
    want = sum(len(c["argv"]) for c in cases)
    missing = [a for a in SRC_ACTIONS if a not in seen]
    if nruns != want or missing:
        raise MachineryError("C3Src_MC: %d of %d micro runs finished; actions never taken: %s" % (nruns, want, missing))
    ctx.cov["mc_actions_taken_by_micro_programs"] = seen
    ctx.cov["mc_micro_programs"] = len(cases)
    ctx.cov["mc_micro_runs"] = want
    ctx.cov["mc_law_instances"] = 64 * nv * nv


# ------------------------------------------------------------------ property C28: front-end inputs from this generator
def bad_variants(prog, rng):
    """Grammatical C3 modules that violate one constraint of the language (each needs a diagnostic)."""
    src = c3gen.render_c3(prog, MODULE)
    main = [f for f in prog["funcs"] if f["n"] == prog["main"]][0]
    head = "function %s %s(" % (c3gen.c3type(main["ret"]), main["n"])
    gs = [g["n"] for g in prog["globals"] if not g["len"] and not g.get("ptr") and g["ty"] in TYPES] or ["zz0"]
    ars = [g["n"] for g in prog["globals"] if g["len"]]
    ks = [c["n"] for c in prog.get("consts", [])]
    fs = [f for f in prog["funcs"][:-1]]
    stmts = [("undeclared", "zz9 = 1;"), ("undeclared_use", "var int q1 = zz8 + 1;"), ("type_mismatch_bool", "var int q2 = true;"),
             ("type_mismatch_cond", "if (%s) { }" % gs[0]), ("type_mismatch_narrow", "var int8_t q3 = %s + 100000;" % gs[0]),
             ("undef_call", "nofunc(1, 2);"), ("redecl", "var int q4 = 1; var int q4 = 2;"), ("deref_int", "*%s = 1;" % gs[0]),
             ("assign_literal", "5 = %s;" % gs[0]), ("call_var", "%s(3);" % gs[0]), ("addr_literal", "var int* q5 = &5;"),
             ("member_of_int", "%s.x = 1;" % gs[0]), ("bool_arith", "var bool q6 = true + 1;"), ("and_on_int", "if (1 and 2) { }"),
             ("switch_no_default", "switch (1) { case 1: { } }"), ("switch_on_bool", "switch (true) { default: { } }"),
             ("return_type", "return true;" if main["ret"] != "bool" else "return 1;"), ("cast_bool", "var bool q7 = cast<bool>(1);"),
             ("unknown_type", "var nosuchtype q8;"), ("index_scalar", "%s[1] = 2;" % gs[0])]
    if ars:
        stmts += [("assign_array", "%s = 1;" % ars[0]), ("index_bool", "%s[true] = 1;" % ars[0])]
    if ks:
        stmts += [("assign_constant", "%s = 1;" % ks[0]), ("addr_constant", "var int* q9 = &%s;" % ks[0])]
    if fs:
        stmts += [("wrong_arg_count", "var int q10 = 0; %s(%s);" % (fs[0]["n"], ", ".join(["1"] * (len(fs[0]["params"]) + 1)))),
                  ("assign_func", "%s = 1;" % fs[0]["n"])]
    out = []
    for name, stmt in stmts:
        k = src.find(head)
        k = src.find("{\n", k) + 2
        out.append((name, src[:k] + "  " + stmt + "\n" + src[k:]))
    tops = [("global_init_too_big", "var int zg1 = 4000000000;"), ("global_init_div", "var int zg2 = 7 / 2;"),
            ("global_init_count", "var int[3] zg3 = {1, 2};"), ("global_init_var", "var int zg6 = 1; var int zg7 = zg6;"),
            ("const_unop", "const int ZK1 = -3; function int zu1() { return ZK1; }"),
            ("const_loop", "const int ZK2 = ZK3; const int ZK3 = ZK2; function int zu2() { return ZK2; }"),
            ("const_sized", "const uint16_t ZK4 = 5; function int zu3() { return ZK4; }"),
            ("const_shift", "const int ZK5 = 1 << 3; function int zu4() { return ZK5; }"),
            ("const_div_zero", "const int ZK6 = 1 / 0; function int zu5() { return ZK6; }"),
            ("no_return", "function int zf1(int x) { if (x > 1) { return 1; } }"),
            ("dup_function", "function void %s() { }" % main["n"]), ("void_var", "var void zg4; function void zu6() { zg4 = 1; }"),
            ("recursive_type", "type struct { zt1 a; } zt1; var zt1 zg5;"), ("pointer_return_local", "function int* zf2() { var int x = 1; return &x; }"),
            ("array_param", "function int zf3(int[3] a) { return a[0]; }")]
    for name, text in tops:
        out.append((name, src.replace("\n\nfunction", "\n" + text + "\n\nfunction", 1)))
    return out


def c28_outcome(exc):
    """Stage outcome in the vocabulary of Toolchain.tla: api.c3_to_ir reports diagnostics by printing them and raising
    TaskError('Compile errors'); CompilerError (incl. SemanticError) is a diagnostic as well; anything else is internal."""
    from ppci.common import CompilerError

    if exc is None:
        return "ok"
    if isinstance(exc, CompilerError) or type(exc).__name__ == "TaskError":
        return "diag"
    return "error:" + type(exc).__name__


def c28_traces(ctx, nprog=None):
    """Toolchain.tla traces (format of engines/c28.py) for C3 inputs: generated valid programs for both targets and
    constraint-violating variants of them."""
    rng = ctx.rng
    q = ctx.tier == "quick"
    nprog = nprog if nprog is not None else (4 if q else 40)
    out = []

    def run(src, march, level="0"):
        from harness import pipeline

        try:
            m = c3_compile(src, march)
        except Exception as e:
            return [{"st": "frontend", "out": c28_outcome(e), "arg": str(e)[:120]}], "%s: %s" % (type(e).__name__, str(e)[:200])
        # accepted: the IR verifier and the optimiser at the given level must not crash on it (events of harness/pipeline.py)
        ev, _, msg = pipeline.run_pipeline(lambda: m, None, level)
        return ev, msg

    for _ in range(nprog):
        seed = rng.randrange(1 << 30)
        prog = c3gen.Gen(random.Random(seed), max_funcs=3, max_stmts=6, max_depth=3).program()
        src = c3gen.render_c3(prog, MODULE)
        for march, _pb in MARCHES:
            for lv in (("0", "2") if q else ("0", "1", "2", "s")):
                ev, msg = run(src, march, lv)
                out.append({"id": "C28:c3:valid:O%s:%s:c%d" % (lv, march, seed), "claim": "C28", "events": ev, "msg": msg, "src": src})
        for name, bad in bad_variants(prog, random.Random(seed)):
            for march, _pb in (MARCHES if not q else MARCHES[:1]):
                ev, msg = run(bad, march)
                out.append({"id": "C28:c3:invalid:%s:%s:c%d" % (name, march, seed), "claim": "C28", "events": ev, "msg": msg, "src": bad})
    return out


# ------------------------------------------------------------------ the engine
class Engine:
    LEVEL = "model_checking"

    def run(self, ctx):
        replay = ctx.only is not None and bool((ctx.only.get("case") or {}).get("item"))
        thorough = ((ctx.only or {}).get("tier") if replay else ctx.tier) == "thorough"
        ctx.rule("(a) systematic probes: one micro program per construct x admissible integer type combination (16 binary "
                 "operators and the type of their result, 5 compound assignments on locals and array elements, unary operators, "
                 "casts, implicit conversion on return / initialisation / argument / store / array initialiser, a[i] with every "
                 "element and index type, pointers to locals / globals / array elements as variables and parameters, constant "
                 "expressions in const definitions / global initialisers / case labels, switch with default anywhere, loops, "
                 "short circuit, bool values, nested calls, local arrays) on boundary-value argument vectors; (b) random programs "
                 "of harness/c3gen.py (1-3 functions, nested bounded loops, switch, arrays, pointers, calls, all operators and "
                 "types).  Each (program, vector) is executed by TLC under C3Src.tla; those ending 'ok' are compared by TLC with "
                 "the execution of the IR that api.c3_to_ir emits for x86_64 and arm under IR.tla.  distinct = distinct (program, "
                 "vector) pairs compared (C3Src status ok); undefined / implementation-defined / unspecified-order executions are "
                 "skipped and counted")
        ctx.assume("harness/c3gen.py render_c3 prints the abstract program faithfully as a C3 module; to_src re-encodes it for TLC without interpretation")
        ctx.assume("harness/project_ir.py reports the IR module faithfully; IR.tla is the meaning of ppci IR (as for C02)")
        ctx.assume("C3Src.tla is the meaning of C3 for this fragment: rules D1-D9 in its header, taken from docs/reference/lang/c3.rst, the "
                   "documentation strings of ppci/lang/c3 and, where they are silent, from C (cross-validated against gcc -fwrapv on the C rendering)")
        check_int_size(ctx)
        if not replay:
            model_check(ctx)

        # construct classes with a listed known finding: the random programs are generated without them, so that a
        # known defect does not hide everything else that such a program computes
        known_classes = {c for k in ctx.known for c in [construct_class(k["key"].split(":", 1)[1])] if c}

        # ---- systematic probes ------------------------------------------------------------------------
        allp = list(probes())
        if thorough:
            chosen = allp
        else:
            # quick: the sentinels and every probe outside the big operator x type families, + a seeded sample of those
            always = [p for p in allp if p[0] in SENTINELS or not p[0].startswith(FAMILIES)]
            rest = [p for p in allp if p[0] not in SENTINELS and p[0].startswith(FAMILIES)]
            chosen = always + [rest[k] for k in sorted(ctx.rng.sample(range(len(rest)), min(QUICK_PROBES, len(rest))))]
        items = []
        for key, prog, small in chosen:
            f = [x for x in prog["funcs"] if x["n"] == prog["main"]][0]
            n = (None if len(f["params"]) < 2 else THOROUGH_PROBE_VECTORS) if thorough else \
                (10 if key in SENTINELS else 6 if len(f["params"]) < 2 else QUICK_PROBE_VECTORS)
            items.append(make_item(key, prog, probe_vectors(f, small, ctx.rng, n), "probe"))
        ctx.cov["probes_total"] = len(allp)
        ctx.cov["probes_run"] = len(items)
        stat = {}
        if thorough:
            # two stages: the random programs also avoid the construct classes whose probes failed in this run
            failing = self.stage(ctx, items, "probes", stat, 900, False)
            classes = sorted(known_classes | {c for k in failing for c in [construct_class(k)] if c})
            rnd = random_items(ctx, THOROUGH_PROGRAMS, 8, classes)
            self.stage(ctx, rnd, "random", stat, 200, True)
        else:
            # one C3Src run and one IR run for probes and random programs together (TLC start-up dominates the quick tier)
            classes = sorted(known_classes)
            rnd = random_items(ctx, QUICK_PROGRAMS, 6, classes)
            self.stage(ctx, items + rnd, "probes+random", stat, 5000, False)
        ctx.cov["construct_classes_avoided_in_random_programs"] = classes
        ctx.cov["src_status"] = stat
        tot = sum(v for k, v in stat.items() if ":" not in k)
        ctx.cov["compared_ratio"] = round(stat.get("ok", 0) / max(1, tot), 3)
        rt = sum(v for k, v in stat.items() if k.startswith("random:"))
        ctx.cov["compared_ratio_random_programs"] = round(stat.get("random:ok", 0) / max(1, rt), 3)

    def stage(self, ctx, items, name, stat, batch_size, both):
        """Compile, execute under C3Src.tla, judge against the IR; returns the keys of the items with a violation."""
        if ctx.only is not None and (ctx.only.get("case") or {}).get("item"):
            want = ctx.only["case"]["item"]
            items = [it for it in items if it["key"] == want]
        ctx.cov["programs_generated"] = ctx.cov.get("programs_generated", 0) + len(items)
        items = compile_items(ctx, items)
        ctx.cov["programs_compiled"] = ctx.cov.get("programs_compiled", 0) + sum(
            1 for it in items if all(pm["name"] != "not-translated" for pm in it["pm"].values()))
        failing = set()
        for bi in range(0, len(items), batch_size):
            batch = items[bi:bi + batch_size]
            obs = run_src(ctx, batch, "C3Src executions (%s %d)" % (name, bi // batch_size))
            # random programs and the probes that involve pointers, arrays, calls or memory are judged on both targets;
            # the purely arithmetic probes (identical IR up to the pointer size of their parameter slots) on x86_64
            marches = [m for m, _ in MARCHES]
            arith = ("bin:", "type-of:", "compound:", "cast:", "unary:", "conv-return:", "conv-init:")
            per_item = [marches if both or it["kind"] == "random" or not it["key"].startswith(arith) else marches[:1] for it in batch]
            res, bad = self.judge_split(ctx, batch, obs, "C3Src vs IR (%s %d)" % (name, bi // batch_size), per_item)
            guard = {}
            if bad or ctx.tier == "thorough":
                guard = gcc_guard(ctx, batch, obs, None if ctx.tier == "thorough" else set(bad))
            failing |= self.account(ctx, batch, obs, bad, guard, stat)
        return failing

    def judge_split(self, ctx, batch, obs, label, per_item):
        """One TLC run over all (item, target) cases; returns (result, {(item, vector): [(clause, state, target)]})."""
        # only the executions that C3 semantics define are run on the IR (the others give no verdict)
        oks = [[a for a in range(len(it["vecs"])) if obs[(k, a)]["status"] == "ok"] for k, it in enumerate(batch)]
        where = [(k, march) for k in range(len(batch)) if oks[k] for march in per_item[k]]
        cases = []
        for k, march in where:
            it = batch[k]
            cases.append({"id": it["key"] + "@" + march, "mods": [it["pm"][march]], "fn": "%s_%s" % (MODULE, it["f"]["n"]),
                          "argv": [it["ir_argv"][march][a] for a in oks[k]], "ext": [], "fuel": 30000,
                          "obs": [ir_obs(obs[(k, a)]) for a in oks[k]]})
        bad = {}
        if not cases:
            return None, bad
        path = ctx.trace_file(cases, "ir.json")
        res = ctx.tlc("C3Src_IR", IR_CFG, label=label, env={"TRACE_FILE": path}, continue_=True, workers=WORKERS, heap="12g",
                      coverage=os.environ.get("C37_COVERAGE", "0") == "1")
        os.unlink(path)
        for e in res.errors:
            st = e.last
            i, av = st.get("i"), st.get("av")
            if e.kind != "invariant" or not isinstance(i, int) or i < 1 or i > len(cases) or not isinstance(av, int) \
                    or av < 1 or av > len(oks[where[i - 1][0]]):
                raise MachineryError("unexpected TLC error in the C3Src_IR run: %s\n%s" % (e, e.text[:1500]))
            k, march = where[i - 1]
            bad.setdefault((k, oks[k][av - 1]), []).append((e.name, st, march))
        return res, bad

    def account(self, ctx, batch, obs, bad, guard, stat):
        reported = set()
        failing = set()
        for k, it in enumerate(batch):
            for a in range(len(it["vecs"])):
                o = obs[(k, a)]
                st = o["status"]
                stat[st] = stat.get(st, 0) + 1
                kind = it["kind"] + ":" + st
                stat[kind] = stat.get(kind, 0) + 1
                if st != "ok":
                    ctx.count(None, n=1)
                    continue
                ctx.count("%s|%s" % (it["key"], it["vecs"][a]))
                ctx.cov["traces_validated_against_impl"] += 1
                g = guard.get((k, a))
                if g is not None:
                    ctx.cov["gcc_" + g] = ctx.cov.get("gcc_" + g, 0) + 1
                if g in ("trap", "differs") and (k, a) not in bad:
                    # the reference disagrees with the specification although ppci agrees with it
                    print("SPEC-SUSPECT property=C37 case=%s args=%s (gcc %s, ppci agrees with C3Src.tla)" % (it["key"], it["vecs"][a], g))
                    ctx.cov["spec_suspect"] = ctx.cov.get("spec_suspect", 0) + 1
                if (k, a) in bad:
                    clause, s, march = bad[(k, a)][0]
                    if g in ("trap", "differs"):
                        # gcc does not side with the specification on this execution: no verdict (DESIGN 3.10)
                        print("SPEC-SUSPECT property=C37 case=%s args=%s (gcc %s)" % (it["key"], it["vecs"][a], g))
                        ctx.cov["spec_suspect"] = ctx.cov.get("spec_suspect", 0) + 1
                        continue
                    failing.add(it["key"])
                    if it["key"] in reported:
                        continue
                    reported.add(it["key"])
                    ctx.violation("C37:" + it["key"], describe(it, a, o, clause, s, march),
                                  {"item": it["key"], "source": it["src"], "args": it["vecs"][a], "clause": clause, "march": march,
                                   "expected": {"ret": o["ret"], "globals": o["globals"]},
                                   "ir_state": {x: s.get(x) for x in ("status", "why", "ret")},
                                   "gcc": g})
        for it in batch[:2]:
            ctx.sample({"key": it["key"], "args": it["vecs"][:2], "source": it["src"][:400]}, limit=4)
        return failing
