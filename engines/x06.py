"""X06 — image container formats written by ppci vs. their format specifications (idioms M + E).

M: ImgFmt_MC — Crc32.tla (polynomial-division definition = bit-serial register = table-driven form, known
   answers, residue law), reference encoders of UBoot.tla / Hunk.tla / LayoutTxt.tla read back by the
   specifications' decoders, named damages rejected by the named clause.
E: ImgFmt_Eval — every artefact ppci wrote (U-Boot legacy images, Amiga hunk files, MZ/PE executables,
   layout texts, archives) is decoded by the format's TLA+ specification in TLC, clause by clause, together
   with what ppci's own readers made of the same bytes.  Python only drives ppci and encodes bytes."""
import contextlib
import hashlib
import io
import json
import os
import re

from harness import core, enc

CLAUSES = {
    "uboot": ["UbLength", "UbMagicOk", "UbSize", "UbLoad", "UbEntry", "UbTime", "UbPayloadOk", "UbDataCrc",
              "UbHeaderCrc", "UbOs", "UbArch", "UbType", "UbComp", "UbName"],
    "hunk": ["HkAligned", "HkHeader", "HkTable", "HkBlocksOk", "HkSizes", "HkEnd", "HkContent", "HkReadBack"],
    "exe": ["MzMagic", "MzHeaderSize", "MzNewHeader", "PeSignature", "PeMachine", "PeOptionalHeader",
            "PeCharacteristics", "PeAlignment", "PeSectionTable", "PeSizeOfHeaders", "PeSectionRaw",
            "PeSectionVirtual", "PeSizeOfImage", "PeText", "PeData", "PeEntry", "PeSizeOfCode", "PeDirectories",
            "PeImportsOk", "MzReadBack"],
    "layout": ["LtAccepts", "LtParsed", "LtPrinted", "LtRoundTrip", "LtDistinguishes"],
    "ar": ["ArSaved", "ArDocument", "ArLoaded", "ArCount", "ArMembers", "ArEqual", "ArStable"],
}
EVAL_CFG = "INIT Init\nNEXT Next\nCHECK_DEADLOCK FALSE\nINVARIANT Domain\nINVARIANT Written\n" + "".join(
    "INVARIANT %s\n" % c for f in ("uboot", "hunk", "exe", "layout", "ar") for c in CLAUSES[f])
MC_LAWS = ["LawCrcForms", "LawCrcKat", "LawCrcResidue", "LawCrcTable", "LawUbRoundTrip", "LawUbDamage",
           "LawHkRoundTrip", "LawHkDamage", "LawLtRoundTrip", "LawLtLexer", "LawLtReject", "LawPeKat", "LawBytes"]
MC_CFG = "CONSTANT MaxLen = %d\nCONSTANT MaxMems = %d\nINIT Init\nNEXT Next\nCHECK_DEADLOCK FALSE\n" + "".join(
    "INVARIANT %s\n" % l for l in MC_LAWS)
MC_ACTIONS = ("CrcCase", "UbCase", "HkCase", "LtCase", "LtTextCase", "PeCase", "BytesCase")

WHAT = {
    "Written": "the writer raised {exc}",
    "UbLength": "file length is not 64 + len(data)", "UbMagicOk": "magic is not 27 05 19 56",
    "UbSize": "ih_size is not the big-endian data length", "UbLoad": "ih_load is not the big-endian load address",
    "UbEntry": "ih_ep is not the big-endian entry point", "UbTime": "ih_time is not the big-endian time stamp",
    "UbPayloadOk": "the bytes after the header are not the data", "UbDataCrc": "ih_dcrc is not the CRC-32 of the data",
    "UbHeaderCrc": "ih_hcrc is not the CRC-32 of the header with ih_hcrc zeroed",
    "UbOs": "ih_os is not the IH_OS code of the requested operating system",
    "UbArch": "ih_arch is not the IH_ARCH code of the requested architecture",
    "UbType": "ih_type is not a defined image type", "UbComp": "ih_comp is not IH_COMP_NONE although the data is stored as is",
    "UbName": "ih_name is not the NUL-padded image name",
    "HkAligned": "file is not a whole number of longwords", "HkHeader": "file does not start with a readable HUNK_HEADER",
    "HkTable": "hunk table (table size / first / last / sizes) is inconsistent",
    "HkBlocksOk": "an announced hunk is missing, unreadable or not ended by HUNK_END",
    "HkSizes": "a hunk is larger than the size the header announces", "HkEnd": "bytes after the last HUNK_END",
    "HkContent": "the code hunk does not hold the written bytes (zero padded to a longword)",
    "HkReadBack": "ppci's hunk Reader did not read the written code back ({rb})",
    "MzMagic": "no MZ magic", "MzHeaderSize": "e_cparhdr does not describe the 64-byte header before e_lfanew",
    "MzNewHeader": "e_lfanew does not point at a PE header inside the file", "PeSignature": "no PE\\0\\0 signature at e_lfanew",
    "PeMachine": "COFF Machine is not the code of the object's architecture",
    "PeOptionalHeader": "optional header magic / SizeOfOptionalHeader / NumberOfRvaAndSizes are inconsistent",
    "PeCharacteristics": "COFF Characteristics do not say executable image",
    "PeAlignment": "FileAlignment / SectionAlignment / ImageBase break the format's rules",
    "PeSectionTable": "NumberOfSections section headers do not fit between the optional header and SizeOfHeaders",
    "PeSizeOfHeaders": "SizeOfHeaders is not the header size rounded up to FileAlignment",
    "PeSectionRaw": "a section's raw data is misaligned, outside the file, inside the headers or overlaps another",
    "PeSectionVirtual": "section virtual addresses are not aligned, ascending and adjacent",
    "PeSizeOfImage": "SizeOfImage is not the end of the last section rounded up to SectionAlignment",
    "PeText": ".text does not hold the code bytes (VirtualSize, contents, zero padding, flags)",
    "PeData": ".data does not hold the data bytes (VirtualSize, contents, zero padding, flags)",
    "PeEntry": "AddressOfEntryPoint / BaseOfCode do not denote the entry symbol / the code section",
    "PeSizeOfCode": "SizeOfCode is not between the virtual and the raw size of the code sections",
    "PeDirectories": "a data directory does not lie inside a section's raw data",
    "PeImportsOk": "the import directory does not decode to the declared imports",
    "MzReadBack": "ppci's header classes / read_exe do not read the written headers back ({rb})",
    "LtAccepts": "Layout.load rejected a text of the language ({exc})",
    "LtParsed": "Layout.load returned a different layout than the text denotes",
    "LtPrinted": "the loaded layout does not print like the layout built through the API",
    "LtRoundTrip": "the loaded layout is not equal (==) to the layout built through the API",
    "LtDistinguishes": "a layout that differs in one place compares equal to / prints like the loaded one",
    "ArSaved": "Archive.save raised {exc}", "ArDocument": "the saved text is not a JSON object holding one list of n members",
    "ArLoaded": "get_archive raised {exc}", "ArCount": "member count changed", "ArMembers": "a member object changed in the round trip",
    "ArEqual": "ppci's == says a reloaded member differs", "ArStable": "saving the reloaded archive gives a different text",
}


def _h(*parts):
    return hashlib.sha1(repr(parts).encode()).hexdigest()[:8]


def _exc(e):
    return type(e).__name__


def _codes(s):
    return [min(ord(c), 0x10FFFF) for c in s]


class _Clock:
    def __init__(self, t):
        self.t = t

    def time(self):
        return self.t


@contextlib.contextmanager
def _clock(module, t):
    """ppci stamps the files with time.time(): the module's `time` is replaced by a fixed clock (input)."""
    old = getattr(module, "time", None)
    module.time = _Clock(t)
    try:
        yield
    finally:
        module.time = old


# ---------------------------------------------------------------------------------------------- U-Boot
UB_ARCHS = ["INVALID", "ALPHA", "ARM", "I386", "IA64", "MIPS", "MIPS64", "PPC", "S390", "SH", "SPARC", "SPARC64",
            "M68K", "NIOS", "MICROBLAZE", "NIOS2", "BLACKFIN", "AVR32", "ST200", "SANDBOX", "NDS32", "OPENRISC",
            "ARM64", "ARC", "X86_64", "XTENSA"]
UB_OSES = ["INVALID", "OPENBSD", "NETBSD", "FREEBSD", "BSD4_4", "LINUX"]


def uboot_inputs(ctx):
    rng = ctx.rng
    thorough = ctx.tier == "thorough"
    out = []

    def data(n, fill=None):
        return bytes([fill] * n) if fill is not None else bytes(rng.getrandbits(8) for _ in range(n))

    addrs = [0, 0x100, 1, 0x7FFFFFFF, 0x80000000, 0xFFFFFFFF, 0x12345678, 0x00FF00FF]
    clocks = [0, 1, 1234, 0x7FFFFFFF, 0x80000000, 0xFFFFFFFF, 1700000000]
    names = ["", "a", "foobar", "x" * 31, "y" * 32, "Linux-6.1 kernel", "~!@ #"]
    k = 0
    # defaults of the signature
    out.append(dict(data=data(40), defaults=True, name="foobar", load=0x100, ep=0x100, os="INVALID", arch="OPENRISC",
                    clock=1600000000))
    sizes = [0, 1, 2, 3, 4, 7, 8, 63, 64, 65, 255, 256, 257, 1000, 4096] + ([65535, 65536, 70001] if thorough else [9000])
    for n in sizes:
        for fill in ([None, 0, 255] if n in (0, 1, 4, 64, 256) else [None]):
            out.append(dict(data=data(n, fill), name=names[k % len(names)], load=addrs[k % len(addrs)],
                            ep=addrs[(k + 3) % len(addrs)], os=UB_OSES[k % len(UB_OSES)],
                            arch=UB_ARCHS[(5 * k) % len(UB_ARCHS)], clock=clocks[k % len(clocks)]))
            k += 1
    for a in UB_ARCHS:           # every architecture and operating system code
        out.append(dict(data=data(16), name="img", load=0x100, ep=0x100, os="INVALID", arch=a, clock=1))
    for o in UB_OSES:
        out.append(dict(data=data(16), name="img", load=0x100, ep=0x100, os=o, arch="INVALID", clock=1))
    for nm in names:
        out.append(dict(data=data(5), name=nm, load=0, ep=0, os="INVALID", arch="INVALID", clock=2))
    for a in addrs:
        out.append(dict(data=data(9), name="n", load=a, ep=a ^ 0xFFFFFFFF, os="INVALID", arch="INVALID", clock=3))
    for c in clocks:
        out.append(dict(data=data(3), name="t", load=1, ep=2, os="INVALID", arch="INVALID", clock=c))
    for _ in range(300 if thorough else 40):
        n = rng.choice([rng.randrange(0, 40), rng.randrange(0, 700), rng.randrange(0, 3000)])
        nm = "".join(rng.choice("abcXYZ019_-. ") for _ in range(rng.randrange(0, 33)))
        out.append(dict(data=data(n), name=nm, load=rng.choice(addrs + [rng.getrandbits(32)]),
                        ep=rng.choice(addrs + [rng.getrandbits(32)]), os=rng.choice(UB_OSES), arch=rng.choice(UB_ARCHS),
                        clock=rng.choice(clocks + [rng.getrandbits(32)])))
    return out


def uboot_record(inp):
    key = "X06:uboot:{clause}:os=%s,arch=%s,n=%d,name=%s,load=%#x,ep=%#x,t=%s%s#%s" % (
        inp["os"], inp["arch"], len(inp["data"]), inp["name"].replace(" ", "_")[:34], inp["load"], inp["ep"], inp["clock"],
        ",defaults" if inp.get("defaults") else "", _h(inp["data"]))
    out = {"ok": False, "exc": "", "file": []}
    try:
        from ppci.format import uboot_image as U
        f = io.BytesIO()
        with _clock(U, inp["clock"]):
            if inp.get("defaults"):
                U.write_uboot_image(f, inp["data"])
            else:
                U.write_uboot_image(f, inp["data"], image_name=inp["name"], load_address=inp["load"],
                                    entry_point=inp["ep"], os=getattr(U.OperatingSystem, inp["os"]),
                                    arch=getattr(U.Architecture, inp["arch"]))
        out = {"ok": True, "exc": "", "file": list(f.getvalue())}
    except Exception as e:
        out["exc"] = _exc(e)
    c = {"data": list(inp["data"]), "name": _codes(inp["name"]), "load": enc.limbs(inp["load"], 4),
         "ep": enc.limbs(inp["ep"], 4), "time": enc.limbs(int(inp["clock"]), 4), "os": inp["os"], "arch": inp["arch"]}
    return {"key": key, "fmt": "uboot", "out": out, "c": c,
            "input": dict(inp, data=bytes(inp["data"]).hex())}


def uboot_from_input(inp):
    return dict(inp, data=bytes.fromhex(inp["data"]))


# ---------------------------------------------------------------------------------------------- hunk
def hunk_inputs(ctx):
    rng = ctx.rng
    thorough = ctx.tier == "thorough"
    out = []
    sizes = list(range(0, 10)) + [15, 16, 17, 255, 256, 257, 1023, 1024, 1025, 4097] + ([65535, 65536, 65537] if thorough else [])
    for n in sizes:
        out.append(dict(data=bytes(rng.getrandbits(8) for _ in range(n)), via="write_hunk"))
    for n in (0, 4, 8, 64, 1000):
        out.append(dict(data=bytes(rng.getrandbits(8) for _ in range(n)), via="Writer"))
    out.append(dict(data=bytes(12), via="write_hunk"))
    out.append(dict(data=bytes([255] * 7), via="write_hunk"))
    # bytes that look like hunk ids / string lengths
    out.append(dict(data=bytes.fromhex("000003f2000003f3000003e9"), via="write_hunk"))
    out.append(dict(data=bytes.fromhex("000003f2000003f3000003e900"), via="write_hunk"))
    for _ in range(200 if thorough else 30):
        n = rng.choice([rng.randrange(0, 30), rng.randrange(0, 600)])
        out.append(dict(data=bytes(rng.getrandbits(8) for _ in range(n)), via=rng.choice(["write_hunk", "write_hunk", "Writer"])))
    return [i for i in out if i["via"] == "write_hunk" or len(i["data"]) % 4 == 0]


def hunk_record(inp, workdir):
    data = inp["data"]
    key = "X06:hunk:{clause}:%s,n=%d#%s" % (inp["via"], len(data), _h(data))
    out = {"ok": False, "exc": "", "file": []}
    try:
        if inp["via"] == "write_hunk":
            from ppci.format.hunk import write_hunk
            path = os.path.join(workdir, "hunk_%s.bin" % _h(data, inp["via"]))
            write_hunk(path, bytes(data))
            with open(path, "rb") as f:
                raw = f.read()
            os.unlink(path)
        else:
            from ppci.format.hunk.writer import Writer
            f = io.BytesIO()
            Writer(f).write(bytes(data))
            raw = f.getvalue()
        out = {"ok": True, "exc": "", "file": list(raw)}
    except Exception as e:
        out["exc"] = _exc(e)
    rb = {"ok": False, "exc": "", "code": [], "pos": -1}
    if out["ok"]:
        try:
            from ppci.format.hunk.reader import Reader

            got = []

            class Recorder(Reader):      # records what the reader's own read_code / read_data return
                def read_code(self):
                    d = super().read_code()
                    got.append(list(d) if isinstance(d, (bytes, bytearray)) else [-1])
                    return d

                def read_data(self):
                    d = super().read_data()
                    got.append(list(d) if isinstance(d, (bytes, bytearray)) else [-1])
                    return d
            f = io.BytesIO(raw)
            Recorder().read(f)
            rb = {"ok": True, "exc": "", "code": got, "pos": f.tell()}
        except Exception as e:
            rb["exc"] = _exc(e)
    return {"key": key, "fmt": "hunk", "out": out, "c": {"data": list(data)}, "rb": rb,
            "input": dict(inp, data=bytes(data).hex())}


# ---------------------------------------------------------------------------------------------- MZ / PE
PE_IMPORTS = [("KERNEL32.dll", ["ExitProcess", "Sleep", "GetStdHandle", "WriteFile"])]


def exe_inputs(ctx):
    rng = ctx.rng
    thorough = ctx.tier == "thorough"
    out = []
    k = 0
    code_sizes = [1, 10, 511, 512, 513, 4095, 4096, 4097] + ([8192, 12289, 20000] if thorough else [])
    data_sizes = [1, 5, 512, 513, 4096, 4097] + ([9000] if thorough else [])
    for cs in code_sizes:
        for ds in (data_sizes if thorough or cs in (10, 512, 4096, 4097) else [data_sizes[k % len(data_sizes)]]):
            arch = ["x86_64", "riscv"][k % 2]
            out.append(dict(arch=arch, code=cs, data=ds, entry=[0, cs // 2, cs - 1][k % 3]))
            k += 1
    for _ in range(40 if thorough else 6):
        cs = rng.choice([rng.randrange(1, 100), rng.randrange(1, 5000), 512 * rng.randrange(1, 9)])
        ds = rng.choice([rng.randrange(1, 100), rng.randrange(1, 5000), 512 * rng.randrange(1, 9)])
        out.append(dict(arch=rng.choice(["x86_64", "riscv"]), code=cs, data=ds, entry=rng.randrange(cs)))
    for i in out:
        i["codebytes"] = bytes(rng.getrandbits(8) for _ in range(i["code"]))
        i["databytes"] = bytes(rng.getrandbits(8) for _ in range(i["data"]))
    return out


def _le(v, n):
    return enc.limbs(v, n) if isinstance(v, int) and not isinstance(v, bool) else [-1] * n


def exe_readback(raw):
    rb = {"ok": False, "exc": "", "accepted": False, "dos": {}, "coff": {}, "opt": {}, "secs": []}
    try:
        from ppci.format.pefile import headers as H
        from ppci.format import exefile
        f = io.BytesIO(raw)
        dos = H.DosHeader.deserialize(f)
        rb["dos"] = {"magic": _le(dos.e_magic, 2), "cparhdr": _le(dos.e_cparhdr, 2), "lfanew": _le(dos.e_lfanew, 4)}
        f.seek(dos.e_lfanew)
        f.read(4)
        coff = H.CoffHeader.read(f)
        rb["coff"] = {"machine": _le(coff.e_machine, 2), "nsec": _le(coff.e_number_of_sections, 2),
                      "optsize": _le(coff.e_size_of_optional_header, 2), "chars": _le(coff.e_characteristics, 2)}
        opt = H.PeOptionalHeader64.deserialize(f)
        rb["opt"] = {"magic": _le(opt.e_signature, 2), "entry": _le(opt.e_address_of_entry_point, 4),
                     "imagebase": _le(opt.e_image_base, 8), "salign": _le(opt.e_section_alignment, 4),
                     "falign": _le(opt.e_file_alignment, 4), "sizeofimage": _le(opt.e_size_of_image, 4),
                     "sizeofheaders": _le(opt.e_size_of_headers, 4), "nrva": _le(opt.e_number_of_rva_and_sizes, 4)}
        for _ in range(16):
            H.DataDirectoryHeader.deserialize(f)
        n = coff.e_number_of_sections
        for _ in range(n if isinstance(n, int) and 0 <= n <= 96 else 0):
            s = H.ImageSectionHeader.deserialize(f)
            rb["secs"].append({"name": list(s.e_name) if isinstance(s.e_name, (bytes, bytearray)) else [-1],
                               "vsize": _le(s.e_virtual_size, 4), "va": _le(s.e_virtual_address, 4),
                               "rawsize": _le(s.e_size_of_raw_data, 4), "rawptr": _le(s.e_pointer_to_raw_data, 4),
                               "chars": _le(s.e_characteristics, 4)})
        rb["ok"] = True
        with contextlib.redirect_stdout(io.StringIO()):
            exefile.read_exe(io.BytesIO(raw))
        rb["accepted"] = True
    except Exception as e:
        rb["exc"] = _exc(e)
    return rb


def exe_record(inp):
    key = "X06:exe:{clause}:%s,code=%d,data=%d,entry=%d#%s" % (
        inp["arch"], inp["code"], inp["data"], inp["entry"], _h(inp["codebytes"], inp["databytes"]))
    out = {"ok": False, "exc": "", "file": []}
    raw = b""
    try:
        from ppci.api import get_arch
        from ppci.binutils.objectfile import ObjectFile
        from ppci.format import exefile
        obj = ObjectFile(get_arch(inp["arch"]))
        obj.get_section("code", create=True).add_data(inp["codebytes"])
        obj.get_section("data", create=True).add_data(inp["databytes"])
        obj.add_symbol(0, "_main", "global", inp["entry"], "code", "func", 0)
        f = io.BytesIO()
        with _clock(exefile, 1600000000):
            exefile.ExeWriter().write(obj, f)
        raw = f.getvalue()
        out = {"ok": True, "exc": "", "file": list(raw)}
    except Exception as e:
        out["exc"] = _exc(e)
    c = {"arch": inp["arch"], "code": list(inp["codebytes"]), "data": list(inp["databytes"]), "entry_off": inp["entry"],
         "imports": [{"dll": _codes(d), "names": [_codes(n) for n in ns]} for d, ns in PE_IMPORTS]}
    return {"key": key, "fmt": "exe", "out": out, "c": c, "rb": exe_readback(raw) if out["ok"] else {"ok": False},
            "input": dict(inp, codebytes=inp["codebytes"].hex(), databytes=inp["databytes"].hex())}


# ---------------------------------------------------------------------------------------------- layout text
KINDS = {"Align": "align", "Section": "section", "SectionData": "sectiondata", "SymbolDefinition": "symbol"}
KW = {"align": "ALIGN", "section": "SECTION", "sectiondata": "SECTIONDATA", "symbol": "DEFINESYMBOL"}
IDS = ["code", "data", "flash", "ram", "_x", "a", "Z9_", "reset_vector", "memory", "Section", "x0x10", "ALIGNED",
       "entry", "size", "l" * 40]
NUMS = [0, 1, 4, 8, 9, 10, 15, 16, 255, 256, 4096, 0x1000, 0x3000, 0x08000000, 0x20000000, 0x7FFFFFFF, 0x80000000,
        0xFFFFFFFF, 0x100000000, 0xDEADBEEFCAFE, 0xFFFFFFFFFFFFFFFF, 123456789, 0xABCDEF]


def layout_inputs(ctx):
    rng = ctx.rng
    thorough = ctx.tier == "thorough"
    out = []

    def inp(kind, v):
        return {"k": kind, "name": v if kind != "align" else "", "num": v if kind == "align" else 0}

    def mem(name, loc, size, inputs):
        return {"name": name, "loc": loc, "size": size, "inputs": inputs}
    # every input kind, every number, every identifier, with / without entry
    for kind in KW:
        out.append(({"entry": None, "mems": [mem("flash", 0x1000, 0x3000, [inp(kind, 4 if kind == "align" else "code")])]}, 0))
    for j, n in enumerate(NUMS):
        out.append(({"entry": None, "mems": [mem("m", n, NUMS[-1 - j], [inp("align", n if n < (1 << 24) else 8), inp("section", "s")])]}, j % 4))
    for j, name in enumerate(IDS):
        out.append(({"entry": name if j % 2 else None,
                     "mems": [mem(name, 0, 16, [inp("section", name), inp("symbol", name), inp("sectiondata", name)])]}, j % 4))
    out.append(({"entry": "main", "mems": [mem("flash", 0x08000000, 0x3000, [inp("symbol", "codestart"), inp("section", "code"),
                                                                            inp("symbol", "codeend")]),
                                          mem("flash", 0x20000000, 0x3000, [inp("section", "data")])]}, 1))
    for _ in range(400 if thorough else 60):
        mems = []
        for _ in range(rng.choice([1, 1, 2, 3])):
            ins = []
            for _ in range(rng.randrange(1, 6)):
                kind = rng.choice(list(KW))
                ins.append(inp(kind, rng.choice([1, 2, 4, 8, 16, 256, 4096, rng.randrange(1 << 20)]) if kind == "align" else rng.choice(IDS)))
            mems.append(mem(rng.choice(IDS), rng.choice(NUMS + [rng.getrandbits(rng.randrange(1, 65))]),
                            rng.choice(NUMS + [rng.getrandbits(rng.randrange(1, 65))]), ins))
        out.append(({"entry": rng.choice([None, None, rng.choice(IDS)]), "mems": mems}, rng.randrange(4)))
    return out


def render_layout(lay, style, rng):
    """abstract layout -> one of the texts that denote it (numbers hex / decimal, white space varied)."""
    def num(n):
        if style == 0:
            return "0x%X" % n
        if style == 1:
            return str(n)
        if style == 2:
            return "0x%08x" % n
        return rng.choice(["0x%X" % n, "0x%x" % n, str(n), "0x0%X" % n, "00%d" % n])
    toks = []
    if lay["entry"] is not None:
        toks += ["ENTRY", "(", lay["entry"], ")"]
    for m in lay["mems"]:
        toks += ["MEMORY", m["name"], "LOCATION", "=", num(m["loc"]), "SIZE", "=", num(m["size"]), "{"]
        for i in m["inputs"]:
            toks += [KW[i["k"]], "(", num(i["num"]) if i["k"] == "align" else i["name"], ")"]
        toks.append("}")
    text = ""
    for j, t in enumerate(toks):
        if j:
            wordy = (text[-1].isalnum() or text[-1] == "_") and (t[0].isalnum() or t[0] == "_")
            if style == 0:
                text += "\n" if t in ("MEMORY", "ENTRY") or toks[j - 1] in ("{", ")") else " "
            elif style == 1:
                text += " " if wordy else ""
            elif style == 2:
                text += "\t"
            else:
                text += rng.choice(["  ", "\r\n", "\n\t", " ", ""] if not wordy else ["  ", "\r\n", "\n\t", " "])
        text += t
    return text + ("\n" if style in (0, 3) else "")


def abstract_json(lay):
    return {"entry": {"present": lay["entry"] is not None, "name": _codes(lay["entry"] or "")},
            "mems": [{"name": _codes(m["name"]), "loc": enc.limbs(m["loc"], 8), "size": enc.limbs(m["size"], 8),
                      "inputs": [{"k": i["k"], "name": _codes(i["name"]), "num": enc.limbs(i["num"], 8)} for i in m["inputs"]]}
                     for m in lay["mems"]]}


def project_layout(L):
    """ppci Layout object -> the abstract form, by data attributes."""
    def n8(v):
        return enc.limbs(v, 8) if isinstance(v, int) and not isinstance(v, bool) and 0 <= v < (1 << 64) else [-1] * 8
    mems = []
    for m in L.memories:
        ins = []
        for i in m.inputs:
            kind = KINDS.get(type(i).__name__, "unknown:" + type(i).__name__)
            if kind == "align":
                ins.append({"k": kind, "name": [], "num": n8(i.alignment)})
            else:
                nm = getattr(i, "section_name", None) if kind in ("section", "sectiondata") else getattr(i, "symbol_name", None)
                ins.append({"k": kind, "name": _codes(nm) if isinstance(nm, str) else [-1], "num": [0] * 8})
        mems.append({"name": _codes(m.name) if isinstance(m.name, str) else [-1], "loc": n8(m.location), "size": n8(m.size), "inputs": ins})
    ent = L.entry
    nm = getattr(ent, "symbol_name", None) if ent is not None else None
    return {"entry": {"present": ent is not None, "name": _codes(nm) if isinstance(nm, str) else []}, "mems": mems}


def build_layout(lay):
    from ppci.binutils import layout as LY
    L = LY.Layout()
    if lay["entry"] is not None:
        L.entry = LY.EntrySymbol(lay["entry"])
    for m in lay["mems"]:
        mm = LY.Memory(m["name"])
        mm.location = m["loc"]
        mm.size = m["size"]
        for i in m["inputs"]:
            cls = {"align": LY.Align, "section": LY.Section, "sectiondata": LY.SectionData, "symbol": LY.SymbolDefinition}[i["k"]]
            mm.add_input(cls(i["num"] if i["k"] == "align" else i["name"]))
        L.add_memory(mm)
    return L


HAND_TEXTS = [
    "MEMORY flash LOCATION=0x1000 SIZE=0x3000 {\n SECTION(code)\n ALIGN(4)\n DEFINESYMBOL(x)\n}\n",
    "\n   MEMORY flash LOCATION=0x08000000 SIZE=0x3000 {\n DEFINESYMBOL(codestart)\n SECTION(code)\n DEFINESYMBOL(codeend)\n }\n"
    "   MEMORY flash LOCATION=0x20000000 SIZE=0x3000 {\n SECTION(data)\n }\n",
    "ENTRY(reset)MEMORY rom LOCATION=0 SIZE=65536{SECTIONDATA(initdata)ALIGN(0x10)SECTION(a)SECTION(b)}",
]
BAD_TEXTS = ["", "MEMORY", "MEMORY flash LOCATION=0x1000 SIZE=0x3000 { }", "MEMORY flash LOCATION=0x1000 SIZE=0x3000 { SECTION(code)",
             "MEMORY SIZE LOCATION=1 SIZE=2 { SECTION(code) }", "ENTRY(1)", "MEMORY f LOCATION=1 SIZE=2 { ALIGN(x) }",
             "MEMORY f LOCATION=1 SIZE=2 { SECTION(code) } ?"]


def perturb(lay, pick):
    """the same layout with one place changed (which place: pick, an integer)"""
    import copy
    o = copy.deepcopy(lay)
    m = o["mems"][pick % len(o["mems"])]
    i = m["inputs"][(pick // 7) % len(m["inputs"])]
    how = pick % 6
    if how == 0:
        m["loc"] = (m["loc"] + 1) % (1 << 64)
    elif how == 1:
        m["size"] = (m["size"] + 1) % (1 << 64)
    elif how == 2:
        m["name"] += "x"
    elif how == 3 and len(m["inputs"]) > 1:
        m["inputs"].pop()
    elif i["k"] == "align":
        i["num"] += 1
    else:
        i["name"] += "x"
    return o


def layout_record(text, lay, tag, pick=0):
    got = {"ok": False, "exc": "", "layout": {}, "repr": [], "eq": False, "built_repr": [], "eq_other": False, "other_repr": []}
    try:
        from ppci.binutils.layout import Layout
        L = Layout.load(io.StringIO(text))
        got.update(ok=True, layout=project_layout(L), repr=_codes(repr(L)))
        if lay is not None:
            B = build_layout(lay)
            O = build_layout(perturb(lay, pick))
            got.update(eq=bool(B == L) and bool(L == B), built_repr=_codes(repr(B)),
                       eq_other=bool(O == L) or bool(L == O), other_repr=_codes(repr(O)))
        else:
            got.update(eq=True, built_repr=got["repr"], eq_other=False, other_repr=[])
    except Exception as e:
        got["exc"] = _exc(e)
    return {"key": "X06:layout:{clause}:%s:%s#%s" % (tag, " ".join(text.split())[:50], _h(text, pick)), "fmt": "layout",
            "text": _codes(text), "dom": lay is not None, "want": abstract_json(lay) if lay is not None else {},
            "got": got, "input": {"text": text, "lay": lay, "tag": tag, "pick": pick}}


# ---------------------------------------------------------------------------------------------- archives
def archive_inputs(ctx):
    from harness import objgen
    rng = ctx.rng
    thorough = ctx.tier == "thorough"
    out = [("x86_64", [])]
    for j in range(60 if thorough else 14):
        arch = ["x86_64", "arm", "msp430", "riscv"][j % 4]
        n = [1, 2, 3, 1, 5][j % 5]
        out.append((arch, [objgen.gen_object(rng, arch, k, ["code", "data", "bss", ".text", "rodata"], defs=["f%d_%d" % (j, k)],
                                             refs=["f%d_%d" % (j, (k + 1) % n)]) for k in range(n)]))
    return out


def archive_record(arch, absobjs):
    from harness import objgen, project_obj as P
    key = "X06:ar:{clause}:%s,n=%d#%s" % (arch, len(absobjs), _h(json.dumps(absobjs, sort_keys=True)))
    r = {"key": key, "fmt": "ar", "n": len(absobjs), "saved": {"ok": False, "exc": ""}, "doc": {"ok": False, "keys": [], "nobjects": -1},
         "loaded": {"ok": False, "exc": ""}, "before": [], "after": [], "eq": [], "text1": [], "text2": [],
         "input": {"arch": arch, "objs": absobjs}}
    try:
        from ppci.api import get_arch
        from ppci.binutils.archive import archive, get_archive
        a = get_arch(arch)
        objs = [objgen.mk_object(a, d) for d in absobjs]
        r["before"] = [P.project(o, wide=True, debug=False) for o in objs]
        lib = archive(objs)
        f = io.StringIO()
        lib.save(f)
        text = f.getvalue()
        r["saved"]["ok"] = True
        r["text1"] = text.split("\n")
    except Exception as e:
        r["saved"]["exc"] = _exc(e)
        return r
    try:
        d = json.loads(text)      # only the shape of the document is taken from here
        lists = [v for v in d.values() if isinstance(v, list)] if isinstance(d, dict) else []
        r["doc"] = {"ok": isinstance(d, dict), "keys": sorted(d) if isinstance(d, dict) else [],
                    "nobjects": len(lists[0]) if len(lists) == 1 else -1}
    except Exception:
        pass
    try:
        lib2 = get_archive(io.StringIO(text))
        objs2 = list(lib2)
        r["after"] = [P.project(o, wide=True, debug=False) for o in objs2]
        r["eq"] = [bool(x == y) for x, y in zip(objs, objs2)]
        f2 = io.StringIO()
        lib2.save(f2)
        r["text2"] = f2.getvalue().split("\n")
        r["loaded"]["ok"] = True
    except Exception as e:
        r["loaded"]["exc"] = _exc(e)
    return r


# ---------------------------------------------------------------------------------------------- engine
def build_records(ctx):
    recs = []
    if ctx.only is not None:
        inp = ctx.only["case"]["input"]
        fmt = ctx.only["case"]["fmt"]
        if fmt == "uboot":
            recs.append(uboot_record(uboot_from_input(inp)))
        elif fmt == "hunk":
            recs.append(hunk_record(dict(inp, data=bytes.fromhex(inp["data"])), ctx.workdir))
        elif fmt == "exe":
            recs.append(exe_record(dict(inp, codebytes=bytes.fromhex(inp["codebytes"]), databytes=bytes.fromhex(inp["databytes"]))))
        elif fmt == "layout":
            recs.append(layout_record(inp["text"], inp["lay"], inp["tag"], inp.get("pick", 0)))
        else:
            recs.append(archive_record(inp["arch"], inp["objs"]))
        return recs
    for inp in uboot_inputs(ctx):
        recs.append(uboot_record(inp))
    for inp in hunk_inputs(ctx):
        recs.append(hunk_record(inp, ctx.workdir))
    for inp in exe_inputs(ctx):
        recs.append(exe_record(inp))
    for lay, style in layout_inputs(ctx):
        recs.append(layout_record(render_layout(lay, style, ctx.rng), lay, "style%d" % style, ctx.rng.randrange(1 << 16)))
    for t in HAND_TEXTS:
        recs.append(layout_record(t, None, "hand"))
    for t in BAD_TEXTS:
        recs.append(layout_record(t, None, "outside"))
    for arch, objs in archive_inputs(ctx):
        recs.append(archive_record(arch, objs))
    seen = set()
    uniq = []
    for r in recs:
        if r["key"] not in seen:
            seen.add(r["key"])
            uniq.append(r)
    return uniq


class Engine:
    LEVEL = "model_checking"

    def run(self, ctx):
        thorough = ctx.tier == "thorough"
        ctx.rule("M: ImgFmt_MC - CRC-32 by polynomial division = bit-serial register = table form on every message of <= MaxLen "
                 "bytes over a boundary alphabet and all 256 one-byte messages, known answers, residue law; UBoot / Hunk / "
                 "LayoutTxt reference encoders read back by the decoders for all small contents, each named damage rejected by "
                 "its clause; a hand-assembled PE header.  E: every U-Boot image (sizes 0..4096+, every IH_OS / IH_ARCH code, "
                 "boundary addresses / clocks / names, seeded random), Amiga hunk file (every length mod 4, hunk-id look-alike "
                 "bytes, both entry points), PE executable (code / data sizes around FileAlignment and SectionAlignment, two "
                 "machines), layout text (every input kind / number form / identifier, 4 white-space styles, seeded random "
                 "layouts, texts of the repository's tests) and archive (0..5 generated objects of 4 architectures) written by "
                 "ppci, decoded by the format's TLA+ specification in TLC; distinct = distinct (format, content)")
        ctx.assume("the JSON byte list is the file ppci wrote; the projections of Layout / ObjectFile objects copy data attributes "
                   "(engines/x06.py project_layout, harness/project_obj.py)")
        ctx.assume("ppci's time stamps come from time.time(), replaced by a fixed clock that is part of the input")
        ctx.assume("the shape of the saved archive document (top-level keys, member count) is read with Python's json module")
        if ctx.only is None:
            res = ctx.tlc("ImgFmt_MC", MC_CFG % ((3, 2) if thorough else (2, 1)), label="laws of the format specifications", workers=8, coverage=False)
            for e in res.errors:
                raise core.tlcmod.MachineryError("a law fails in the specification itself: %s\n%s" % (e, e.text[:1500]))
            for a in MC_ACTIONS:      # every action of the model is taken (TLC's -coverage is too costly on these expressions)
                n = len(re.findall(r'<<"ACT", "%s">>' % a, res.raw))
                if not n:
                    raise core.tlcmod.MachineryError("ImgFmt_MC: action %s never taken" % a)
                ctx.cov["actions"]["ImgFmt_MC." + a] = n
        recs = build_records(ctx)
        per = {}
        for r in recs:
            ctx.count(r["key"])
            per[r["fmt"]] = per.get(r["fmt"], 0) + 1
        ctx.cov["artefacts_per_format"] = per
        ctx.cov["bytes_decoded"] = sum(len(r["out"]["file"]) for r in recs if "out" in r)
        for f in ("uboot", "hunk", "exe", "layout", "ar"):
            for r in recs:
                if r["fmt"] == f:
                    ctx.sample({"key": r["key"].replace("{clause}", "*"),
                                "head": bytes(r["out"]["file"][:16]).hex() if "out" in r else r.get("input", {}).get("text", "")[:60]}, limit=5)
                    break
        slim = [{k: v for k, v in r.items() if k != "input"} for r in recs]
        path = ctx.trace_file(slim)
        res = ctx.tlc("ImgFmt_Eval", EVAL_CFG, label="artefacts written by ppci", env={"TRACE_FILE": path}, continue_=True, workers=8, coverage=False)
        os.unlink(path)
        ctx.cov["traces_validated_against_impl"] += len(recs)
        seen = set()
        inv_of = {(c[:-2] if c.endswith("Ok") else c): c for f in CLAUSES for c in CLAUSES[f]}
        inv_of.update(Written="Written", Domain="Domain")
        for e in res.errors:
            idx = e.last.get("vIdx")
            if e.kind != "invariant" or not isinstance(idx, int) or not 1 <= idx <= len(recs):
                raise core.tlcmod.MachineryError("TLC error without record index: %s\n%s" % (e, e.text[:2000]))
            r = recs[idx - 1]
            # TLC reports one violated invariant per state: the state's vBad names every failing clause
            bad = e.last.get("vBad")
            names = sorted(bad[1]) if isinstance(bad, tuple) and len(bad) == 2 and bad[0] == "set" else []
            if not names or not all(isinstance(n, str) and n in inv_of for n in names):
                raise core.tlcmod.MachineryError("TLC error state without the failing clauses: %s\n%s" % (e, e.text[:2000]))
            if "Domain" in names:
                raise core.tlcmod.MachineryError("harness produced a case the specification reads differently: %s" % r["key"])
            for clause in names:
                key = r["key"].replace("{clause}", clause)
                if key in seen:
                    continue
                seen.add(key)
                exc = (r.get("out") or r.get("got") or {}).get("exc", "") or r.get("saved", {}).get("exc", "") or r.get("loaded", {}).get("exc", "")
                rb = r.get("rb", {})
                what = WHAT.get(inv_of[clause], clause).format(exc=exc, rb=rb.get("exc") or "ok=%s" % rb.get("ok"))
                ctx.violation(key, "%s [clause %s]" % (what, clause), {"fmt": r["fmt"], "clause": clause, "input": r["input"],
                                                                     "failing": names})
