"""C07 — instruction read/write annotations match machine semantics (RV32.tla Exec, X64.tla Reads / Writes; idioms M + G + E)."""
import os

from harness import asmgen, core
from harness import armgen
from harness import x64gen
from harness import mipsgen
from harness import m68kgen
from engines.c08 import report, restrict


class Engine:
    LEVEL = "model_checking"

    def run(self, ctx):
        thorough = (ctx.only.get("tier", ctx.tier) if ctx.only else ctx.tier) == "thorough"
        parts = [
            ("arm", lambda c: armgen.c07_part(c, thorough)),      # thumb / arm (tla/Thumb.tla, tla/Arm32.tla)
            ("x86_64", lambda c: x64gen.c07_part(c, thorough)),   # tla/X64.tla
            ("mips", lambda c: mipsgen.c07_part(c, thorough)),    # tla/Mips.tla
            ("m68k", lambda c: m68kgen.c07_part(c, thorough)),    # tla/M68k.tla
            ("riscv", lambda c: self.riscv_part(c, thorough)),    # tla/RV32.tla (Exec)
        ]
        if ctx.only is not None:
            for _, fn in parts:
                if fn(ctx):
                    return
            return
        core.run_parts(ctx, parts, jobs=int(os.environ.get("VERIF_JOBS", "8")))

    def riscv_part(self, ctx, thorough):
        ctx.rule("every instruction class and macro-instruction class of ppci.arch.riscv (isa, rvcisa) x {register "
                 "sweeps (quick: x0 x1 x2 x8 x10 x15 x31), diagonal, in-range boundary immediates / "
                 "displacements from TLC}; ppci supplies the bytes and used_registers / defined_registers / clobbers; "
                 "TLC runs RV32.Exec from state pairs of RV32!PairPlan (quick: 2 of 12 per instance, rotating over the instances of a class) that agree on the "
                 "declared reads (+ pc, memory, x2 where the compressed instruction names it implicitly) and checks "
                 "the four clauses; distinct = distinct (class, printed text, symbol)")
        ctx.assume("declared registers are read by their printed name x<n>; CSR instructions, ebreak, mret are judged "
                   "on the static register sets only (Exec does not model traps / CSRs)")
        if ctx.only is None:
            table = asmgen.laws_and_table(ctx, ["exe", "mul"], thorough)
        else:
            table = asmgen.gen_table(ctx)
        recs = []
        for which in ("riscv", "rvc"):
            r, skipped = asmgen.rw_records("C07", which, table, ctx.rng, thorough)
            recs += r
            for s, n in sorted(skipped.items()):
                ctx.note("%s:%s: %d instance(s) without bytes, not judged" % (which, s, n))
        recs = restrict(ctx, recs)
        for r in recs:
            ctx.count(r["key"])
        for r in recs[:: max(1, len(recs) // 4)]:
            ctx.sample({k: r[k] for k in ("key", "seq", "uses", "defs", "clob")})
        verdicts = asmgen.judge(ctx, recs, ["NoUndeclaredChange", "OutputsDependOnDeclaredReads", "StaticWrites",
                                            "StaticReads", "Decodable"], "E: C07 records")

        def what(rec, clause):
            d = "declared reads %s writes %s clobbers %s" % (rec["uses"], rec["defs"], rec["clob"])
            if clause in ("NoUndeclaredChange", "StaticWrites"):
                return "'%s' (%s) changes a register it does not declare as written; %s" % (
                    rec["text"], [bytes(b).hex() for b in rec["seq"]], d)
            return "'%s' (%s): an output depends on a register it does not declare as read; %s" % (
                rec["text"], [bytes(b).hex() for b in rec["seq"]], d)

        report(ctx, "C07", verdicts, what)
