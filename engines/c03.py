"""C03 — optimisation passes keep IR well-formed (IRWF.tla, idiom E over optimiser traces)."""
from harness import core, optcorpus
from harness.tlc import MachineryError
from engines import c02

WF_CFG = """INIT Init
NEXT Next
CHECK_DEADLOCK FALSE
INVARIANT NoInternalError
INVARIANT Terminators
INVARIANT EntryOK
INVARIANT AllReachable
INVARIANT UniqueDefs
INVARIANT DefDominatesUse
INVARIANT PhiComplete
INVARIANT TypesAgree
"""
DUMMY_FN = {"name": "", "ret": "", "params": [], "nvals": 0, "entry": 1, "blocks": []}


def wf_records(ctx, corpus):
    recs = []
    for p in corpus:
        for t in p["traces"]:
            sig0 = optcorpus.sigs_of(t.snaps[0])
            for f in t.snaps[0]["funcs"]:
                recs.append({"id": t.id, "prog": p["key"], "role": "input", "pass": "", "step": 0, "outcome": "ok",
                             "fn": f, "sigs": sig0, "src": p["src"]})
            prev = optcorpus.mod_hash(t.snaps[0])
            si = 0
            for k, name in enumerate(t.passes):
                if t.outcomes[k] != "ok":
                    recs.append({"id": t.id, "prog": p["key"], "role": "after", "pass": name, "step": k + 1,
                                 "outcome": t.outcomes[k], "fn": DUMMY_FN, "sigs": [], "src": p["src"]})
                    break
                si += 1
                snap = t.snaps[si]
                h = optcorpus.mod_hash(snap)
                if h == prev:
                    continue  # "either leaves the module unchanged ..."
                prev = h
                sg = optcorpus.sigs_of(snap)
                for f in snap["funcs"]:
                    recs.append({"id": t.id, "prog": p["key"], "role": "after", "pass": name, "step": k + 1,
                                 "outcome": "ok", "fn": f, "sigs": sg, "src": p["src"]})
            if t.error and all(o == "ok" for o in t.outcomes):
                # exception outside a pass (ppci's own verifier inside optimize())
                recs.append({"id": t.id, "prog": p["key"], "role": "after", "pass": "optimize", "step": len(t.passes) + 1,
                             "outcome": "error:" + t.error.split(":")[0], "fn": DUMMY_FN, "sigs": [], "src": p["src"]})
    return recs


def judge_wf(ctx, recs, prop="C03", batch=6000):
    import os

    bad_inputs = set()
    errs = []
    res = None
    # several bounded TLC runs instead of one huge one (a single run over a thorough corpus can exceed the timeout)
    for b0 in range(0, len(recs), batch):
        part = recs[b0:b0 + batch]
        slim = [{"outcome": r["outcome"], "fn": r["fn"], "sigs": r["sigs"]} for r in part]
        path = ctx.trace_file(slim)
        res = ctx.tlc("IRWF", WF_CFG, label="IRWF", env={"TRACE_FILE": path}, continue_=True, timeout=3600)
        os.unlink(path)
        for e in res.errors:
            i = e.last.get("i")
            if e.kind != "invariant" or not isinstance(i, int) or i < 1:
                raise MachineryError("unexpected TLC error in IRWF run: %s\n%s" % (e, e.text[:1500]))
            r = part[i - 1]
            if r["role"] == "input":
                bad_inputs.add(r["id"])
            else:
                errs.append((r, e))
    ctx.cov["skipped_malformed_input_traces"] = len(bad_inputs)
    seen = set()
    for r, e in errs:
        if r["id"] in bad_inputs:
            continue
        key = "%s:%s@%d:%s:%s" % (prop, r["id"], r["step"], r["pass"], e.name)
        if key in seen:
            continue
        seen.add(key)
        what = ("pass %s ended with %s" % (r["pass"], r["outcome"]) if e.name == "NoInternalError"
                else "function %s is not well-formed after pass %s: clause %s fails" % (r["fn"].get("name"), r["pass"], e.name))
        ctx.violation(key, what, {"trace": r["id"], "pass": r["pass"], "step": r["step"], "clause": e.name,
                                  "function": r["fn"].get("name"), "source": r["src"]})
    return res


class Engine:
    LEVEL = "model_checking"

    def run(self, ctx):
        nprog = 15 if ctx.tier == "quick" else 100
        ctx.rule("optimiser traces of generated C programs (every single pass, optimize() levels with a snapshot after "
                 "every pass, random pass sequences of length 2-6); every function of every snapshot that differs from "
                 "its predecessor is judged by IRWF.tla (Terminators, AllReachable, DefDominatesUse with path-based "
                 "dominance, PhiComplete, TypesAgree, NoInternalError); distinct = distinct (trace, pass step, function)")
        ctx.assume("the IR projection (harness/project_ir.py) reports the module faithfully")
        levels = ("2",) if ctx.tier == "quick" else ("1", "2", "s")
        if ctx.tier == "quick":
            rounds = [dict(nprog=nprog, seqs=2, npat=500)]
        else:
            # built and judged in rounds (memory; one bounded TLC run per batch of records)
            nr = 8
            rounds = [dict(nprog=nprog // nr, seqs=3, npat=100000, pat_slice=(k, nr)) for k in range(nr)]
        ctx.cov["programs"] = 0
        skipped = 0
        for k, kw in enumerate(rounds):
            corpus = c02.build_traces(ctx, levels=levels, **kw)
            recs = wf_records(ctx, corpus)
            for r in recs:
                if r["role"] == "after":
                    ctx.count("%s@%d:%s" % (r["id"], r["step"], r["fn"].get("name")))
            if k == 0:
                for r in [x for x in recs if x["role"] == "after"][:3]:
                    ctx.sample({"trace": r["id"], "pass": r["pass"], "function": r["fn"].get("name"),
                                "blocks": len(r["fn"]["blocks"])})
            ctx.cov["programs"] += len(corpus)
            ctx.cov["traces_validated_against_impl"] += len([1 for p in corpus for t in p["traces"]])
            del corpus
            judge_wf(ctx, recs)
            skipped += ctx.cov.get("skipped_malformed_input_traces", 0)
            del recs
        ctx.cov["skipped_malformed_input_traces"] = skipped
