"""C24 — IR -> Python back-end executes IR semantics exactly.

M: PyRt_MC.tla  (integer-level design of the lowering refines the word-level IR semantics; laws of the
                 recorded-value decoding and of truncation)
T: IRPy.tla     (IR.tla small-step semantics + PyCompletes / PyReturnExact / PyGlobalsExact / PyCallsExact on
                 observations of the generated Python, executed by harness/c24_runner.py in a subprocess)
E: IRPy_Eval.tla (float -> int casts truncate toward zero, exact dyadic inputs)
"""
import io
import json
import os
import random
import subprocess
import sys

from harness import absprog, core, irgen, optcorpus, project_ir
from harness.tlc import MachineryError
from harness.watchdog import CallTimeout, limited

MC_CFG = """CONSTANT Full = %s
INIT Init
NEXT Next
CHECK_DEADLOCK FALSE
INVARIANT LawBinop
INVARIANT LawUnop
INVARIANT LawCast
INVARIANT LawCond
INVARIANT LawDivDiffers
INVARIANT LawCanonical
INVARIANT LawVal
INVARIANT LawRat
"""
T_CFG = """INIT PyInit
NEXT PyNext
CHECK_DEADLOCK FALSE
INVARIANT PyCompletes
INVARIANT PyReturnExact
INVARIANT PyGlobalsExact
INVARIANT PyCallsExact
INVARIANT NeverStuck
INVARIANT TypeOK
"""
E_CFG = """INIT Init
NEXT Next
CHECK_DEADLOCK FALSE
INVARIANT TruncatesTowardZero
"""
BITS = {"i8": 8, "u8": 8, "i16": 16, "u16": 16, "i32": 32, "u32": 32, "i64": 64, "u64": 64}
INT_TYPES = list(BITS)
OPS = ["+", "-", "*", "/", "%", "|", "&", "^", "<<", ">>", "rol", "ror"]
OPNAME = {"+": "add", "-": "sub", "*": "mul", "/": "div", "%": "rem", "|": "or", "&": "and", "^": "xor",
          "<<": "shl", ">>": "shr", "rol": "rol", "ror": "ror"}
CONDS = {"==": "eq", "!=": "ne", "<": "lt", ">": "gt", "<=": "le", ">=": "ge"}
FUEL = {"quick": 500, "thorough": 4000}
PTR_BYTES = 4   # ir2py stores pointers with struct format "i"
RUNNER = os.path.join(os.path.dirname(os.path.dirname(os.path.abspath(__file__))), "harness", "c24_runner.py")


def trange(t):
    b = BITS[t]
    return (-(1 << (b - 1)), (1 << (b - 1)) - 1) if t[0] == "i" else (0, (1 << b) - 1)


def canon(v, t):
    """The Python int by which a word of type t is handed to generated code (encoding only)."""
    b = BITS[t]
    v &= (1 << b) - 1
    if t[0] == "i" and v >> (b - 1):
        v -= 1 << b
    return v


def tyvals(t, rng, extra):
    lo, hi = trange(t)
    b = BITS[t]
    s = {x for x in (0, 1, 2, 7, -1, -2, -7, lo, lo + 1, hi, hi - 1, hi // 2 + 1, 100, -100, 127, 128, 255, 256,
                     32767, 32768, 65535, 65536, 0x7FFFFFFF, 0x80000000, 0xFFFFFFFF, -0x80000000) if lo <= x <= hi}
    for _ in range(extra):
        s.add(rng.randrange(lo, hi + 1))
    return sorted(s)


# ---------------------------------------------------------------------------------------------
# corpus 1: one tiny module per (type, instruction form)
# ---------------------------------------------------------------------------------------------
def _mod(name):
    from ppci import ir
    from ppci.binutils.debuginfo import DebugDb

    return ir.Module(name, debug_db=DebugDb())


def _fn(m, name, rty, ptys):
    from ppci import ir

    f = ir.Function(name, ir.Binding.GLOBAL, getattr(ir, rty)) if rty else ir.Procedure(name, ir.Binding.GLOBAL)
    m.add_function(f)
    ps = []
    for k, t in enumerate(ptys):
        p = ir.Parameter("p%d" % k, getattr(ir, t))
        f.add_parameter(p)
        ps.append(p)
    e = ir.Block(name + "_entry")
    f.add_block(e)
    f.entry = e
    return f, e, ps


def build_form(form, t, arg=None):
    """-> (module, main function name, parameter types, externals [(name, ret type | None)])."""
    from ppci import ir

    T = getattr(ir, t)
    m = _mod("m")
    ext = []
    if form == "binop":
        f, e, (a, b) = _fn(m, "f", t, [t, t])
        v = ir.Binop(a, arg, b, "v", T)
        e.add_instruction(v)
        e.add_instruction(ir.Return(v))
        return m, "f", [t, t], ext
    if form == "unop":
        f, e, (a,) = _fn(m, "f", t, [t])
        v = ir.Unop(arg, a, "v", T)
        e.add_instruction(v)
        e.add_instruction(ir.Return(v))
        return m, "f", [t], ext
    if form == "cast":
        f, e, (a,) = _fn(m, "f", arg, [t])
        v = ir.Cast(a, "v", getattr(ir, arg))
        e.add_instruction(v)
        e.add_instruction(ir.Return(v))
        return m, "f", [t], ext
    if form == "cond":
        f, e, (a, b) = _fn(m, "f", "i32", [t, t])
        yes, no, join = ir.Block("f_yes"), ir.Block("f_no"), ir.Block("f_join")
        for blk in (yes, no, join):
            f.add_block(blk)
        e.add_instruction(ir.CJump(a, arg, b, yes, no))
        one = ir.Const(1, "one", ir.i32)
        yes.add_instruction(one)
        yes.add_instruction(ir.Jump(join))
        zero = ir.Const(0, "zero", ir.i32)
        no.add_instruction(zero)
        no.add_instruction(ir.Jump(join))
        phi = ir.Phi("r", ir.i32)
        join.add_instruction(phi)
        phi.set_incoming(yes, one)
        phi.set_incoming(no, zero)
        join.add_instruction(ir.Return(phi))
        return m, "f", [t, t], ext
    size = BITS[t] // 8
    if form == "mem":
        # store/load through an alloca and a two-element initialised global
        g = ir.Variable("g", ir.Binding.GLOBAL, 2 * size, size, value=bytes([0xA5, 0x5A] * size))
        m.add_variable(g)
        f, e, (a,) = _fn(m, "f", t, [t])
        al = ir.Alloc("al", size, size)
        e.add_instruction(al)
        p = ir.AddressOf(al, "p")
        e.add_instruction(p)
        e.add_instruction(ir.Store(a, p))
        x = ir.Load(p, "x", T)
        e.add_instruction(x)
        off = ir.Const(size, "off", ir.ptr)
        e.add_instruction(off)
        q = ir.Binop(g, "+", off, "q", ir.ptr)
        e.add_instruction(q)
        old = ir.Load(g, "old", T)
        e.add_instruction(old)
        e.add_instruction(ir.Store(x, q))
        y = ir.Load(q, "y", T)
        e.add_instruction(y)
        r = ir.Binop(y, "^", old, "r", T)
        e.add_instruction(r)
        e.add_instruction(ir.Return(r))
        return m, "f", [t], ext
    if form == "call":
        xf = ir.ExternalFunction("ext_f", [T, T], T)
        xp = ir.ExternalProcedure("ext_p", [T])
        m.add_external(xf)
        m.add_external(xp)
        ext = [("ext_f", t), ("ext_p", None)]
        h, he, (ha, hb) = _fn(m, "h", t, [t, t])
        hv = ir.Binop(ha, "-", hb, "hv", T)
        he.add_instruction(hv)
        he.add_instruction(ir.ProcedureCall(xp, [hv]))
        he.add_instruction(ir.Return(hv))
        f, e, (a, b) = _fn(m, "f", t, [t, t])
        c1 = ir.FunctionCall(xf, [a, b], "c1", T)
        e.add_instruction(c1)
        c2 = ir.FunctionCall(h, [c1, b], "c2", T)
        e.add_instruction(c2)
        c3 = ir.FunctionCall(xf, [c2, c1], "c3", T)
        e.add_instruction(c3)
        r = ir.Binop(c3, "+", c2, "r", T)
        e.add_instruction(r)
        e.add_instruction(ir.Return(r))
        return m, "f", [t, t], ext
    if form == "literal":
        f, e, (a,) = _fn(m, "f", t, [t])
        lit = ir.LiteralData(bytes(arg), "lit")
        e.add_instruction(lit)
        la = ir.AddressOf(lit, "la")
        e.add_instruction(la)
        x = ir.Load(la, "x", T)
        e.add_instruction(x)
        r = ir.Binop(x, "+", a, "r", T)
        e.add_instruction(r)
        e.add_instruction(ir.Return(r))
        return m, "f", [t], ext
    if form == "copyblob":
        g = ir.Variable("g", ir.Binding.GLOBAL, size, size, value=bytes(range(0x11, 0x11 + size)))
        g2 = ir.Variable("g2", ir.Binding.GLOBAL, size, size)
        m.add_variable(g)
        m.add_variable(g2)
        f, e, (a,) = _fn(m, "f", t, [t])
        al = ir.Alloc("al", size, size)
        e.add_instruction(al)
        p = ir.AddressOf(al, "p")
        e.add_instruction(p)
        e.add_instruction(ir.CopyBlob(p, g, size))
        x = ir.Load(p, "x", T)
        e.add_instruction(x)
        r = ir.Binop(x, "+", a, "r", T)
        e.add_instruction(r)
        e.add_instruction(ir.Store(r, p))
        e.add_instruction(ir.CopyBlob(g2, p, size))
        e.add_instruction(ir.Return(r))
        return m, "f", [t], ext
    if form == "loop":
        # do { acc = acc + a; n = n + 1 } while (n < 3); return previous acc  (the exit uses the loop's phi)
        f, e, (a,) = _fn(m, "f", t, [t])
        body, done = ir.Block("f_body"), ir.Block("f_done")
        f.add_block(body)
        f.add_block(done)
        zero = ir.Const(0, "zero", T)
        one = ir.Const(1, "one", T)
        lim = ir.Const(3, "lim", T)
        for c in (zero, one, lim):
            e.add_instruction(c)
        e.add_instruction(ir.Jump(body))
        n = ir.Phi("n", T)
        acc = ir.Phi("acc", T)
        body.add_instruction(n)
        body.add_instruction(acc)
        n2 = ir.Binop(n, "+", one, "n2", T)
        acc2 = ir.Binop(acc, "+", a, "acc2", T)
        body.add_instruction(n2)
        body.add_instruction(acc2)
        body.add_instruction(ir.CJump(n2, "<", lim, body, done))
        n.set_incoming(e, zero)
        n.set_incoming(body, n2)
        acc.set_incoming(e, a)
        acc.set_incoming(body, acc2)
        r = ir.Binop(acc, "^", n, "r", T)
        done.add_instruction(r)
        done.add_instruction(ir.Return(r))
        return m, "f", [t], ext
    if form == "swap":
        # two phis exchanging their values on the back edge (parallel-copy semantics)
        f, e, (a, b) = _fn(m, "f", t, [t, t])
        head, body, done = ir.Block("f_head"), ir.Block("f_body"), ir.Block("f_done")
        for blk in (head, body, done):
            f.add_block(blk)
        zero = ir.Const(0, "zero", ir.i32)
        one = ir.Const(1, "one", ir.i32)
        lim = ir.Const(3, "lim", ir.i32)
        for c in (zero, one, lim):
            e.add_instruction(c)
        e.add_instruction(ir.Jump(head))
        x = ir.Phi("x", T)
        y = ir.Phi("y", T)
        n = ir.Phi("n", ir.i32)
        for ph in (x, y, n):
            head.add_instruction(ph)
        head.add_instruction(ir.CJump(n, "<", lim, body, done))
        n2 = ir.Binop(n, "+", one, "n2", ir.i32)
        body.add_instruction(n2)
        body.add_instruction(ir.Jump(head))
        x.set_incoming(e, a)
        x.set_incoming(body, y)
        y.set_incoming(e, b)
        y.set_incoming(body, x)
        n.set_incoming(e, zero)
        n.set_incoming(body, n2)
        r = ir.Binop(x, "-", y, "r", T)
        done.add_instruction(r)
        done.add_instruction(ir.Return(r))
        return m, "f", [t, t], ext
    if form == "allocbranch":
        # an alloca in a block that only one path executes; the caller keeps its own alloca across the call
        g, ge, (ga,) = _fn(m, "g", t, [t])
        work, join = ir.Block("g_work"), ir.Block("g_join")
        g.add_block(work)
        g.add_block(join)
        zero = ir.Const(0, "zero", T)
        ge.add_instruction(zero)
        ge.add_instruction(ir.CJump(ga, "==", zero, join, work))
        al = ir.Alloc("al", 2 * size, size)
        work.add_instruction(al)
        p = ir.AddressOf(al, "p")
        work.add_instruction(p)
        work.add_instruction(ir.Store(ga, p))
        y = ir.Load(p, "y", T)
        work.add_instruction(y)
        work.add_instruction(ir.Jump(join))
        r = ir.Phi("r", T)
        join.add_instruction(r)
        r.set_incoming(ge, ga)
        r.set_incoming(work, y)
        join.add_instruction(ir.Return(r))
        f, e, (a, b) = _fn(m, "f", t, [t, t])
        al0 = ir.Alloc("al0", size, size)
        e.add_instruction(al0)
        q0 = ir.AddressOf(al0, "q0")
        e.add_instruction(q0)
        e.add_instruction(ir.Store(a, q0))
        c1 = ir.FunctionCall(g, [b], "c1", T)
        e.add_instruction(c1)
        c2 = ir.FunctionCall(g, [a], "c2", T)
        e.add_instruction(c2)
        x = ir.Load(q0, "x", T)
        e.add_instruction(x)
        s1 = ir.Binop(x, "+", c1, "s1", T)
        e.add_instruction(s1)
        s2 = ir.Binop(s1, "^", c2, "s2", T)
        e.add_instruction(s2)
        e.add_instruction(ir.Return(s2))
        return m, "f", [t, t], ext
    if form == "fnptr":
        # call through a pointer that a phi selects among two functions
        h1, e1, (x1,) = _fn(m, "h1", t, [t])
        v1 = ir.Unop("-", x1, "v1", T)
        e1.add_instruction(v1)
        e1.add_instruction(ir.Return(v1))
        h2, e2, (x2,) = _fn(m, "h2", t, [t])
        v2 = ir.Unop("~", x2, "v2", T)
        e2.add_instruction(v2)
        e2.add_instruction(ir.Return(v2))
        f, e, (a, b) = _fn(m, "f", t, [t, t])
        yes, no, join = ir.Block("f_yes"), ir.Block("f_no"), ir.Block("f_join")
        for blk in (yes, no, join):
            f.add_block(blk)
        e.add_instruction(ir.CJump(a, "<", b, yes, no))
        yes.add_instruction(ir.Jump(join))
        no.add_instruction(ir.Jump(join))
        fp = ir.Phi("fp", ir.ptr)
        join.add_instruction(fp)
        fp.set_incoming(yes, h1)
        fp.set_incoming(no, h2)
        c = ir.FunctionCall(fp, [a], "c", T)
        join.add_instruction(c)
        join.add_instruction(ir.Return(c))
        return m, "f", [t, t], ext
    raise ValueError(form)


def rot_pairs(vals, bs, per):
    """Every first operand with `per` second operands, rotating through bs so that all of bs is used."""
    return [[a, bs[(per * k + j) % len(bs)]] for k, a in enumerate(vals) for j in range(per)]


def sub_rng(ctx, what):
    """Independent deterministic stream per corpus / case, so that a replay of one case draws the same values."""
    return random.Random("%d:%s" % (ctx.seed, what))


def forms_corpus(ctx, only=None):
    rng = sub_rng(ctx, "forms")
    thorough = ctx.tier == "thorough"
    cases = []
    for t in INT_TYPES:
        vals = tyvals(t, rng, 6 if thorough else 1)
        few = [v for v in vals if v in (0, 1, 2, -1, -7, 100)] + [trange(t)[0], trange(t)[1]]
        few = sorted(set(few))
        if not thorough:   # quick: every boundary value as first operand, a handful as second
            vals = sorted(set(few + [v for v in vals if v in (trange(t)[0] + 1, trange(t)[1] - 1, 127, 128, 255, 256, 65535,
                                                              65536, 0x7FFFFFFF, 0x80000000)] + [rng.choice(vals)]))
            few = sorted(set([0, 1, trange(t)[0], trange(t)[1], -1 if t[0] == "i" else 2, rng.choice(few)]))
        bits = BITS[t]
        shifts = sorted({0, 1, 2, 3, bits // 2, bits - 1, bits, rng.randrange(bits)})
        todo = []
        for op in OPS:
            if op in ("<<", ">>", "rol", "ror"):
                bs = shifts
            elif op in ("/", "%") and not thorough:
                lo_, hi_ = trange(t)
                bs = sorted({x for x in (0, 1, 2, -2, 3, -3, 7, -7, -1, lo_, hi_) if lo_ <= x <= hi_})
            elif thorough:
                bs = vals
            else:
                bs = sorted(set(few[:5] + [rng.choice(vals)]))
            todo.append(("binop", op, OPNAME[op], rot_pairs(vals, bs, 6 if thorough else 2)))
        todo.append(("unop", "-", "neg", [[a] for a in vals]))
        todo.append(("unop", "~", "not", [[a] for a in vals]))
        for t2 in INT_TYPES:
            todo.append(("cast", t2, t2, [[a] for a in vals]))
        for c, cn in CONDS.items():
            todo.append(("cond", c, cn, [[a, a] for a in vals] + (rot_pairs(vals, vals, 4) if thorough else
                                                                  rot_pairs(vals, few, 1))))
        todo.append(("mem", None, "x", [[a] for a in vals]))
        todo.append(("call", None, "x", [[a, b] for a in few for b in few]))
        todo.append(("literal", [rng.randrange(256) for _ in range(bits // 8)], "x", [[a] for a in few]))
        todo.append(("copyblob", None, "x", [[a] for a in few]))
        pairs = [[a, b] for a in few[:4] for b in few[:4]]
        if not thorough:
            pairs = [pairs[k] for k in (1, 4, 11) if k < len(pairs)]
        todo.append(("loop", None, "x", [[a] for a in (few if thorough else few[:2])]))
        todo.append(("swap", None, "x", pairs))
        todo.append(("allocbranch", None, "x", pairs))
        todo.append(("fnptr", None, "x", pairs))
        for form, arg, argname, vecs in todo:
            cid = "form.%s.%s.%s" % (form, t, argname)
            if only and only != cid:
                continue
            try:
                m, fn, ptys, ext = build_form(form, t, arg)
            except Exception as e:  # ppci.ir refused to build it: not this property's business
                ctx.cov["forms_not_built"] = ctx.cov.get("forms_not_built", 0) + 1
                continue
            srng = sub_rng(ctx, cid)
            stubs = [{"name": n, "rets": [project_ir.limbs(srng.randrange(-5, 1 << 20), 4) for _ in range(4)]}
                     for n, r in ext if r]
            stubs += [{"name": n, "rets": []} for n, r in ext if not r]
            cases.append({"id": cid, "module": m, "fn": fn, "vecs": vecs, "ext": stubs,
                          "src": "engines/c24.py build_form(%r, %r, %r)" % (form, t, arg)})
    return cases


# ---------------------------------------------------------------------------------------------
# corpus 2: random IR (harness/irgen.py);  corpus 3: generated C programs, unoptimised and optimised
# ---------------------------------------------------------------------------------------------
def restrict(m):
    """Copy-free restriction of an irgen module to the instruction set ir2py handled at the pinned commit:
    rol/ror become xor, CopyBlob is dropped.  Returns the list of features removed."""
    from ppci import ir

    removed = set()
    for f in m.functions:
        for b in f.blocks:
            for ins in list(b.instructions):
                if isinstance(ins, ir.Binop) and ins.operation in ("rol", "ror"):
                    removed.add(ins.operation)
                    ins.operation = "^"
                elif isinstance(ins, ir.CopyBlob):
                    removed.add("copyblob")
                    b.remove_instruction(ins)
    return sorted(removed)


def features(m):
    from ppci import ir

    s = set()
    for f in m.functions:
        for b in f.blocks:
            for ins in b.instructions:
                if isinstance(ins, ir.Binop) and ins.operation in ("rol", "ror"):
                    s.add(ins.operation)
                elif isinstance(ins, ir.CopyBlob):
                    s.add("copyblob")
    return sorted(s)


def irgen_corpus(ctx, n, only=None):
    rng = sub_rng(ctx, "irgen")
    nvec = 6 if ctx.tier == "quick" else 10
    cases = []
    from engines.c02 import int_vectors

    for _ in range(n):
        seed = rng.randrange(1 << 30)
        for variant in ("core", "full"):
            cid = "irgen.%d.%s" % (seed, variant)
            if only and only != cid:
                continue
            try:
                m, info = irgen.gen_module(random.Random(seed))
            except Exception:
                ctx.cov["irgen_failed"] = ctx.cov.get("irgen_failed", 0) + 1
                break
            feats = features(m)
            if variant == "core":
                restrict(m)
            elif not feats:
                continue   # identical to the core variant
            else:
                cid += "(" + "+".join(feats) + ")"
            prng = random.Random(seed ^ 0x5EED)
            vecs = int_vectors(info["params"], prng, nvec)
            ext = [{"name": x, "rets": [project_ir.limbs(prng.randrange(-5, 40), 4) for _ in range(6)]}
                   for x in info["externs"]]
            cases.append({"id": cid, "module": m, "fn": info["main"], "vecs": vecs, "ext": ext,
                          "src": "harness/irgen.py gen_module(random.Random(%d))%s" % (
                              seed, " with rol/ror -> xor and CopyBlob removed" if variant == "core" else "")})
    return cases


def c_corpus(ctx, n, only=None):
    import logging

    from ppci import api

    if not logging.getLogger().handlers:   # ppci's front-end warnings would go to stderr via logging.lastResort
        logging.getLogger().addHandler(logging.NullHandler())

    rng = sub_rng(ctx, "c")
    nvec = 6 if ctx.tier == "quick" else 10
    cases = []
    for _ in range(n):
        seed = rng.randrange(1 << 30)
        prng = random.Random(seed)
        prog = absprog.Gen(prng, max_funcs=3, max_stmts=6, max_depth=3).program()
        src = absprog.render_c(prog)
        f, vecs = absprog.arg_vectors(prog, prng, nvec)
        ext = optcorpus.ext_stubs(prog, prng)
        for level in ("0", "2"):
            cid = "c.%d.O%s" % (seed, level)
            if only and only != cid:
                continue
            try:
                m = optcorpus.compile_c(src, "arm")
                if level != "0":
                    api.optimize(m, level=level)
            except Exception:  # front-end / optimiser problem: other properties' business
                ctx.cov["c_rejected"] = ctx.cov.get("c_rejected", 0) + 1
                continue
            cases.append({"id": cid, "module": m, "fn": f["n"], "vecs": vecs, "ext": ext,
                          "src": "optimize level %s of c_to_ir(arm) of:\n%s" % (level, src)})
    return cases


# ---------------------------------------------------------------------------------------------
# generation (ppci, in this process) and execution (generated code, in a subprocess)
# ---------------------------------------------------------------------------------------------
def generate(m):
    from ppci import api

    f = io.StringIO()
    api.ir_to_python([m], f)
    return f.getvalue()


def prepare(ctx, cases):
    """Project every module, generate its Python text, build the runner job."""
    jobs = []
    out = []
    for c in cases:
        try:
            pm = project_ir.project_module(c["module"], PTR_BYTES)
        except Exception as e:
            raise MachineryError("projection failed for %s: %r" % (c["id"], e))
        fi = [f for f in pm["funcs"] if f["name"] == c["fn"]]
        if not fi:
            ctx.cov["skipped_no_main"] = ctx.cov.get("skipped_no_main", 0) + 1
            continue
        ptys = [p["ty"] for p in fi[0]["params"]]
        xrets = {g["name"]: g["ret"] for g in pm["globals"] if g["k"] == "xfn"}
        if any(t not in BITS for t in ptys) or any(r not in BITS and r != "" for r in xrets.values()) \
                or (fi[0]["ret"] not in BITS and fi[0]["ret"] != ""):
            ctx.cov["skipped_non_integer_signature"] = ctx.cov.get("skipped_non_integer_signature", 0) + 1
            continue
        vecs = [v for v in c["vecs"] if len(v) == len(ptys)]
        if not vecs:
            continue
        c["pm"] = pm
        c["argv"] = [[project_ir.limbs(v, BITS[t] // 8) for v, t in zip(vec, ptys)] for vec in vecs]
        c["vecs"] = vecs
        # stub table: the k-th call of `name` returns the word ext.rets[k] resized to the declared return type
        stub = {}
        stubs_by_name = {e["name"]: e["rets"] for e in c["ext"]}
        for name, rty in xrets.items():
            rets = stubs_by_name.get(name, [])
            if rty == "":
                stub[name] = []
            else:
                n = BITS[rty] // 8
                stub[name] = [canon(int.from_bytes(bytes((w + [0] * 8)[:n]), "little"), rty) for w in rets]
        gl = [[g["name"], g["size"]] for g in pm["globals"] if g["k"] == "var"]
        try:
            src = limited(lambda: generate(c["module"]), 10.0, "ir_to_python")
            c["generr"] = None
        except CallTimeout:
            src, c["generr"] = None, "error:gen:Timeout"
        except Exception as e:
            src, c["generr"] = None, "error:gen:" + type(e).__name__
        c["pysrc"] = src
        if src is not None:
            jobs.append({"id": c["id"], "src": src,
                         "runs": [{"fn": c["fn"], "args": [canon(v, t) for v, t in zip(vec, ptys)], "ext": stub,
                                   "globals": gl} for vec in vecs]})
        out.append(c)
    return out, jobs


def run_jobs(ctx, jobs, batch=80):
    """Execute the generated modules: one subprocess per batch, never in this process."""
    results = {}
    env = dict(os.environ)
    env["PYTHONHASHSEED"] = "0"
    for k in range(0, len(jobs), batch):
        part = jobs[k:k + batch]
        jp = os.path.join(ctx.workdir, "c24_job_%d.json" % k)
        rp = os.path.join(ctx.workdir, "c24_res_%d.json" % k)
        with open(jp, "w") as f:
            json.dump({"timeout": 1.0, "modules": part}, f)
        try:
            p = subprocess.run([sys.executable, "-S", "-E", RUNNER, jp, rp], env=env, capture_output=True, text=True,
                               timeout=600)
            ok = p.returncode == 0 and os.path.exists(rp)
        except subprocess.TimeoutExpired:
            ok = False
        if ok:
            with open(rp) as f:
                for r in json.load(f):
                    results[r["id"]] = r["runs"]
        else:
            # the generated code killed the interpreter (or the batch hung): rerun module by module so that
            # the culprit is recorded as such and the others are still judged
            for j in part:
                with open(jp, "w") as f:
                    json.dump({"timeout": 1.0, "modules": [j]}, f)
                if os.path.exists(rp):
                    os.unlink(rp)
                try:
                    p = subprocess.run([sys.executable, "-S", "-E", RUNNER, jp, rp], env=env, capture_output=True,
                                       text=True, timeout=120)
                    good = p.returncode == 0 and os.path.exists(rp)
                except subprocess.TimeoutExpired:
                    good = False
                if good:
                    with open(rp) as f:
                        results[j["id"]] = json.load(f)[0]["runs"]
                else:
                    results[j["id"]] = [{"outcome": "error:ProcessDied", "ret": NONE_PV, "globals": [], "calls": []}
                                        for _ in j["runs"]]
        for pth in (jp, rp):
            if os.path.exists(pth):
                os.unlink(pth)
    return results


NONE_PV = {"kind": "none", "neg": False, "mag": []}


def attach(cases, results):
    for c in cases:
        if c["generr"]:
            c["py"] = [{"outcome": c["generr"], "ret": NONE_PV, "globals": [], "calls": []} for _ in c["vecs"]]
        else:
            c["py"] = results[c["id"]]
        if all(o["outcome"].startswith(("error:load", "error:gen")) for o in c["py"]):
            # the module never got to run: the observation is the same for every argument vector,
            # so one of them is handed to TLC (an error trace per vector would only cost time)
            for k in ("py", "vecs", "argv"):
                c[k] = c[k][:1]


def show_pv(v):
    if v.get("kind") != "int":
        return v.get("kind")
    m = int.from_bytes(bytes(v["mag"]), "little")
    return str(-m if v["neg"] else m)


def show_word(w):
    if not isinstance(w, (list, tuple)):
        return str(w)
    return "0x%0*x" % (2 * len(w), int.from_bytes(bytes(w), "little")) if w else "<none>"


def judge(ctx, cases, label):
    if not cases:
        return
    slim = [{"id": c["id"], "mods": [c["pm"]], "fn": c["fn"], "argv": c["argv"], "ext": c["ext"], "fuel": FUEL[ctx.tier],
             "py": c["py"]} for c in cases]
    path = ctx.trace_file(slim)
    nruns = sum(len(c["argv"]) for c in cases)
    res = ctx.tlc("IRPy", T_CFG, label=label, env={"TRACE_FILE": path}, continue_=True, heap="12g", workers=8)
    os.unlink(path)
    ctx.cov["traces_validated_against_impl"] += nruns
    seen = set()
    for e in res.errors:
        st = e.last
        i, av = st.get("i"), st.get("av")
        if e.kind != "invariant" or not isinstance(i, int) or i < 1 or not isinstance(av, int):
            raise MachineryError("unexpected TLC error in IRPy run: %s\n%s" % (e, e.text[:1500]))
        c = cases[i - 1]
        if e.name in ("NeverStuck", "TypeOK"):
            raise MachineryError("IR.tla cannot execute %s %s: %s (%s)" % (c["id"], c["vecs"][av - 1], st.get("status"),
                                                                          st.get("why")))
        py = c["py"][av - 1]
        sig = py["outcome"] if e.name == "PyCompletes" else "value"
        key = "C24:%s:%s:%s" % (c["id"], e.name, sig)
        if key in seen:
            continue
        seen.add(key)
        what = "%s(%s) compiled by ir_to_python: outcome=%s returned %s, externals called %s; IR semantics: returns %s, calls %s" % (
            c["fn"], ", ".join(map(str, c["vecs"][av - 1])), py["outcome"], show_pv(py["ret"]),
            [(k["name"], [show_pv(a) for a in k["args"]]) for k in py["calls"]][:6],
            show_word(st.get("ret")), str(st.get("calls"))[:200])
        if e.name == "PyGlobalsExact":
            what += "; final globals in Python: %s" % [(g["name"], bytes(g["bytes"]).hex()) for g in py["globals"]]
        ctx.violation(key, what + " [clause %s]" % e.name,
                      {"id": c["id"], "source": c["src"], "fn": c["fn"], "args": c["vecs"][av - 1], "clause": e.name,
                       "python": (c["pysrc"] or "")[-6000:]})
    return res


# ---------------------------------------------------------------------------------------------
# float -> int clause
# ---------------------------------------------------------------------------------------------
def fcast_records(ctx, only=None):
    from ppci import ir

    rng = sub_rng(ctx, "fcast")
    thorough = ctx.tier == "thorough"
    qs = set()
    for den in (1, 2, 4, 8):
        for num in range(-3 * den, 3 * den + 1):
            qs.add((num, den))
    for base in (127, 128, 255, 256, 32767, 32768, 65535, 100000):
        for den in (2, 4):
            for d in (-3, -1, 1, 3):
                qs.add((base * den + d, den))
                qs.add((-(base * den) + d, den))
    for _ in range(100 if thorough else 40):
        den = rng.choice([2, 4, 8, 16, 256])
        qs.add((rng.randrange(-(1 << 19), 1 << 19), den))
    qs = sorted(qs)
    core_qs = [(11, 4), (-11, 4), (3, 2), (-3, 2), (1, 2), (5, 2), (-1, 2), (7, 8), (-7, 8), (2, 1), (-2, 1), (9, 4), (0, 1)]
    jobs, recs = [], []
    for src in ("f64", "f32"):
        for t in INT_TYPES:
            for mode in ("param", "const"):
                cid = "fcast.%s.%s.%s" % (src, t, mode)
                if thorough:
                    myqs = qs if mode == "param" else qs[:: max(1, len(qs) // 12)]
                elif mode == "param":
                    myqs = sorted(set(rng.sample(core_qs, 7) + rng.sample(qs, 4)))
                else:
                    myqs = [core_qs[0], core_qs[1], rng.choice(qs)]
                if mode == "param":
                    m = _mod("m")
                    f, e, (a,) = _fn(m, "f", t, [src])
                    v = ir.Cast(a, "v", getattr(ir, t))
                    e.add_instruction(v)
                    e.add_instruction(ir.Return(v))
                    mods = [(m, myqs)]
                else:
                    mods = []
                    for q in myqs:
                        m = _mod("m")
                        f, e, _ = _fn(m, "f", t, [])
                        cst = ir.Const(q[0] / q[1], "c", getattr(ir, src))
                        e.add_instruction(cst)
                        v = ir.Cast(cst, "v", getattr(ir, t))
                        e.add_instruction(v)
                        e.add_instruction(ir.Return(v))
                        mods.append((m, [q]))
                for k, (m, mq) in enumerate(mods):
                    jid = "%s#%d" % (cid, k)
                    try:
                        text = limited(lambda: generate(m), 10.0, "ir_to_python")
                        generr = None
                    except CallTimeout:
                        text, generr = None, "error:gen:Timeout"
                    except Exception as ex:
                        text, generr = None, "error:gen:" + type(ex).__name__
                    if text is not None:
                        jobs.append({"id": jid, "src": text,
                                     "runs": [{"fn": "f", "args": [{"f": list(q)}] if mode == "param" else [], "ext": {},
                                               "globals": []} for q in mq]})
                    for q in mq:
                        frac = abs(q[0]) % q[1]
                        tag = "integral" if frac == 0 else "frac<1/2" if 2 * frac < q[1] else "frac>=1/2"
                        key = "C24:%s:%s:%d/%d" % (cid, tag, q[0], q[1])
                        if only and only != key:
                            continue
                        recs.append({"key": key, "ty": t, "src": src, "q": list(q), "jid": jid, "generr": generr,
                                     "k": mq.index(q)})
    if only:
        keep = {r["jid"] for r in recs}
        jobs = [j for j in jobs if j["id"] in keep]
    results = run_jobs(ctx, jobs, batch=400)
    for r in recs:
        if r["generr"]:
            r["obs"] = {"outcome": r["generr"], "ret": NONE_PV}
        else:
            o = results[r["jid"]][r["k"]]
            r["obs"] = {"outcome": o["outcome"], "ret": o["ret"]}
    return recs


class Engine:
    LEVEL = "model_checking"

    def run(self, ctx):
        if ctx.only and ctx.only.get("tier") in ("quick", "thorough"):
            ctx.tier = ctx.only["tier"]      # the corpus depends on the tier the case was found in
        thorough = ctx.tier == "thorough"
        ctx.rule("T: every generated module is projected (harness/project_ir.py), compiled by api.ir_to_python, and the "
                 "generated text is executed in a subprocess once per argument vector (fresh run-time, external "
                 "functions = callbacks answering from the case's stub table); TLC executes the same call on the "
                 "projected module with IR.tla and, when that execution is fully defined, checks the four invariants of "
                 "IRPy.tla on the recorded observation.  Corpus: (1) one module per (integer type, instruction form): "
                 "12 binary operators, 2 unary, casts to all 8 types, 6 comparisons through cjmp+phi, load/store through "
                 "alloca and initialised global, internal+external calls, LiteralData, CopyBlob, loop whose exit uses a "
                 "phi, phi swap - on boundary x boundary operands; (2) random IR of harness/irgen.py (as generated, and "
                 "with rol/ror/CopyBlob replaced); (3) generated C programs through c_to_ir, unoptimised and -O2.  "
                 "E: cast f32/f64 -> every integer type on exact dyadic inputs (parameter and constant operand) judged by "
                 "IRPy_Eval.tla.  M: PyRt_MC.tla.  distinct = distinct (module, argument vector) executions; the number "
                 "of executions the IR semantics fully defines is reported as actions.DoneDefined")
        ctx.assume("harness/project_ir.py reports the module faithfully; IR.tla is the meaning of IR (shared with C02/C03)")
        ctx.assume("external functions return values in the range of their declared return type (the callbacks do)")
        ctx.assume("harness/c24_runner.py writes the observed Python values down unchanged (sign + magnitude bytes)")
        ctx.assume("programs do not observe addresses (no ptr->int casts, no pointers stored in globals): memory layout of "
                   "the generated run-time (heap at 0x10000000, stack from 0) differs from IR.tla's")
        only_key = ctx.only["key"] if ctx.only else None
        only_id = only_key.split(":")[1] if only_key else None
        if ctx.only is None:
            res = ctx.tlc("PyRt_MC", MC_CFG % ("TRUE" if thorough else "FALSE"), label="lowering design refines IROps",
                          workers=8)
            for e in res.errors:
                raise MachineryError("law fails in the specification itself: %s\n%s" % (e, e.text[:1500]))
        # ---- T ----
        if only_id is None or not only_id.startswith("fcast"):
            cases = []
            if only_id is None or only_id.startswith("form."):
                cases += forms_corpus(ctx, only_id)
            if only_id is None or only_id.startswith("irgen."):
                cases += irgen_corpus(ctx, 80 if thorough else 16, only_id.split("(")[0] if only_id else None)
            if only_id is None or only_id.startswith("c."):
                cases += c_corpus(ctx, 50 if thorough else 8, only_id)
            cases, jobs = prepare(ctx, cases)
            results = run_jobs(ctx, jobs)
            attach(cases, results)
            for c in cases:
                for vec in c["vecs"]:
                    ctx.count("%s(%s)" % (c["id"], ",".join(map(str, vec))))
            for c in [c for c in cases if c["id"].startswith("form.binop")][:1] + \
                    [c for c in cases if c["id"].startswith("irgen")][:1] + [c for c in cases if c["id"].startswith("c.")][:1]:
                ctx.sample({"id": c["id"], "fn": c["fn"], "args": c["vecs"][:3],
                            "python_observation": [{"outcome": o["outcome"], "ret": show_pv(o["ret"])} for o in c["py"][:3]]})
            ctx.cov["modules"] = len(cases)
            kinds = {}
            for c in cases:
                for f in c["pm"]["funcs"]:
                    for b in f["blocks"]:
                        for ins in b["ins"]:
                            kk = ins["k"] + (":" + ins["op"] if ins["k"] in ("binop", "unop") else "")
                            kinds[kk] = kinds.get(kk, 0) + 1
            ctx.cov["ir_instructions_in_corpus"] = dict(sorted(kinds.items()))
            chunk = 400
            for k in range(0, len(cases), chunk):
                judge(ctx, cases[k:k + chunk], "generated Python vs IR.tla (%d)" % (k // chunk))
            acts = ctx.cov["actions"]
            ctx.cov["ir_executions"] = {k: acts.get("IRPy.Done" + k, 0)
                                        for k in ("Defined", "Undefined", "OutOfModel", "Fuel", "Stuck")}
        # ---- E ----
        if only_id is None or only_id.startswith("fcast"):
            recs = fcast_records(ctx, only_key if only_id else None)
            for r in recs:
                ctx.count(r["key"])
            for r in recs[:: max(1, len(recs) // 2)][:2]:
                ctx.sample({"key": r["key"], "returned": show_pv(r["obs"]["ret"]), "outcome": r["obs"]["outcome"]})
            slim = [{"key": r["key"], "ty": r["ty"], "q": r["q"], "obs": r["obs"]} for r in recs]
            core.eval_records(ctx, "IRPy_Eval", E_CFG, slim, keyfn=lambda r: r["key"],
                              whatfn=lambda r, e: "cast %s of %d/%d = %s compiled by ir_to_python returned %s (outcome %s); "
                              "truncation toward zero is required" % (
                                  r["key"].split(":")[1], r["q"][0], r["q"][1], r["q"][0] / r["q"][1],
                                  show_pv(r["obs"]["ret"]), r["obs"]["outcome"]), workers=4)
