"""X12 -- 6502 and STM8 instruction encodings agree with the architecture reference
(Mos6502.tla, Stm8.tla; idioms M + G + E).

Python only enumerates instances of the instruction classes of ppci.arch.mcs6500 and ppci.arch.stm8, records what
encode() (+ the instruction's own relocations) and the assembler produced for them, and tokenises the printed text.
Whether the bytes are the printed instruction is decided by TLC: Decode (written from the MOS 6502 opcode matrix and
from ST's PM0044) applied to the bytes must give what Asm reads from the printed line."""
import os

from harness import core
from harness import mos6502gen as gen


class Engine:
    LEVEL = "model_checking"

    def run(self, ctx):
        thorough = (ctx.only.get("tier", ctx.tier) if ctx.only else ctx.tier) == "thorough"
        ctx.rule(
            "every concrete instruction class of get_arch('mcs6500').isa (54 classes) and get_arch('stm8').isa (337 "
            "classes) x {every combination of addressing-mode constructors in every operand slot, nested constructors "
            "(absolute / label below absolute,X) included; in every integer slot every boundary value of the range the slot "
            "takes (8-bit pattern -128..255, 16-bit pattern -32768..65535, bit number 0..7) enumerated by TLC "
            "(Mos6502_MC.Table / Stm8_MC.Table, idiom G), the other slots at a default; label slots: absolute labels "
            "placed at the boundary addresses, relative labels at every boundary distance from two places}; bytes = "
            "encode() + the instruction's own relocations applied, and (label-free lines; quick: the default instance and "
            "every fourth record, thorough: all) the assembler on the printed text; thorough adds 12 seeded random "
            "operand vectors per constructor combination; TLC: Decode(bytes) = Asm(printed text) (operation, addressing "
            "mode, registers, operand values as field patterns); distinct = distinct (class, path, printed text, label "
            "addresses)")
        ctx.assume("lexical tokenisation of the printed text (harness/mos6502gen.py: tokenize): words in lower case, numbers "
                   "as written, label tokens carry the address the harness chose")
        ctx.assume("a bare integer operand of a relative branch (6502 bcc 5, STM8 jra 5 / callr 5 / the third operand of "
                   "btjt / btjf) is read as the displacement byte itself, which is how ppci's own tests use it "
                   "(test_6500asm: 'bcs $44' -> b044); a label operand is the address branched to")
        ctx.assume("ppci's spelling 'zeropage N' is read as the zero-page address N and a bare number as an absolute address; "
                   "STM8: 'add sp,#n' / 'addw sp,#n' and 'sub sp,#n' / 'subw sp,#n' name the same operations; a printed "
                   "address is the same operand in its short and its long encoding")
        ctx.assume("operand values outside the field they are packed into (accepted or not) are C10's question and are only "
                   "counted here")
        parts = [(isa, (lambda c, isa=isa: gen.part(c, isa, thorough))) for isa in ("mcs6500", "stm8")]
        if ctx.only is not None:
            for _, fn in parts:
                if fn(ctx):
                    return
            return
        # the two instruction sets are independent: two forked parts side by side (4 TLC workers each)
        core.run_parts(ctx, parts, jobs=int(os.environ.get("VERIF_JOBS", "2")))
