"""C27 — C integer constant expressions are evaluated as C prescribes (CConst.tla; idioms M, E, G).

The driver only (a) generates expression trees and renders them as C, (b) gives them to ppci's front-end
(api.c_to_ir) and records what came out (bytes of ir.Variable.value, Variable.amount, the IR of probe
functions, or the class of the exception), (c) hands the records to TLC.  Every verdict is TLC's:
CConst_Eval (value / conversion / internal error / rejection) and CConst_IR (case labels, bit-field widths:
the IR ppci produced is executed by IR.tla on the probe words CConst_Eval wrote, against the results it wrote).
"""
import io
import json
import logging
import os
import shutil
import subprocess
import tempfile

from harness import core, enc, watchdog
from harness.tlc import MachineryError

MC_CFG = """CONSTANT Dense = %s
INIT Init
NEXT Next
CHECK_DEADLOCK FALSE
""" + "".join("INVARIANT Law%s\n" % n for n in (
    "Types", "Arith", "DivRem", "Bitwise", "Rel", "Logical", "Shift", "Unary", "Cond", "Cast", "Literal", "Sizeof",
    "Enum", "Init", "Bound", "Case", "Width", "BfInit"))
EVAL_CFG = """INIT Init
NEXT Next
CHECK_DEADLOCK FALSE
INVARIANT TypeOK
"""
IR_CFG = """INIT Init
NEXT Next
CHECK_DEADLOCK FALSE
INVARIANT ObsMatchesImpl
INVARIANT ProbeDefined
"""

TYPES = ["char", "schar", "uchar", "short", "ushort", "int", "uint", "long", "ulong", "llong", "ullong"]
CT = {"char": "char", "schar": "signed char", "uchar": "unsigned char", "short": "short", "ushort": "unsigned short",
      "int": "int", "uint": "unsigned int", "long": "long", "ulong": "unsigned long", "llong": "long long",
      "ullong": "unsigned long long"}
SUF = {"int": "", "uint": "u", "long": "l", "ulong": "ul", "llong": "ll", "ullong": "ull"}
BIN = {"add": "+", "sub": "-", "mul": "*", "div": "/", "mod": "%", "shl": "<<", "shr": ">>", "and": "&", "or": "|",
       "xor": "^", "lt": "<", "le": "<=", "gt": ">", "ge": ">=", "eq": "==", "ne": "!=", "land": "&&", "lor": "||"}
UN = {"pos": "+", "neg": "-", "inv": "~", "not": "!"}
ARCHS = {"x86_64": "x86_64", "arm": "arm", "msp430": "msp430", "or1k": "or1k"}


# ---- data model: sizes are read from ppci's architecture description (input of the specification) --------
def data_model(march):
    from ppci import api
    from ppci.arch.arch_info import Endianness

    info = api.get_arch(march).info
    ib = info.get_size("int")
    lb = max(ib, info.get_size("long"))
    return {"sb": 2, "ib": ib, "lb": lb, "llb": max(ib, 8), "pb": info.get_size("ptr"), "cs": True,
            "be": info.endianness != Endianness.LITTLE}


def size_of(t, dm):
    return {"char": 1, "schar": 1, "uchar": 1, "short": dm["sb"], "ushort": dm["sb"], "int": dm["ib"], "uint": dm["ib"],
            "long": dm["lb"], "ulong": dm["lb"], "llong": dm["llb"], "ullong": dm["llb"]}[t]


def is_signed(t):
    return t in ("char", "schar", "short", "int", "long", "llong")


# ---- expression trees ----------------------------------------------------------------------------------------
def lit(v, base=10, suf=""):
    assert 0 <= v < 1 << 64
    return {"k": "lit", "base": base, "suf": suf, "mag": enc.limbs(v, 8)}


def un(op, a):
    return {"k": "un", "op": op, "a": a}


def bn(op, a, b):
    return {"k": "bin", "op": op, "a": a, "b": b}


def cond(c, a, b):
    return {"k": "cond", "c": c, "a": a, "b": b}


def cast(t, a):
    return {"k": "cast", "t": t, "a": a}


def lit_value(e):
    return sum(b << (8 * i) for i, b in enumerate(e["mag"]))


def render(e):
    k = e["k"]
    if k == "lit":
        v = lit_value(e)
        txt = {10: "%d", 16: "0x%x", 8: "0%o"}[e["base"]] % v
        return txt + (e["suf"].upper() if e.get("up") else e["suf"])
    if k == "chr":
        return "'%s'" % chr(e["c"])
    if k == "enum":
        return e["name"]
    if k == "un":
        return "(%s%s)" % (UN[e["op"]], render(e["a"]))
    if k == "bin":
        return "(%s %s %s)" % (render(e["a"]), BIN[e["op"]], render(e["b"]))
    if k == "cond":
        return "(%s ? %s : %s)" % (render(e["c"]), render(e["a"]), render(e["b"]))
    if k == "cast":
        return "((%s)%s)" % (CT[e["t"]], render(e["a"]))
    if k == "sizeof":
        return "sizeof(%s)" % CT[e["t"]]
    if k == "sizeofe":
        return "sizeof(%s)" % render(e["a"])
    raise ValueError(k)


def ops_of(e, acc=None):
    """Syntactic description of the input: the operators / node kinds that occur in the tree."""
    acc = set() if acc is None else acc
    k = e["k"]
    if k in ("un", "bin"):
        acc.add(e["op"])
    elif k in ("cond", "cast", "sizeof", "sizeofe", "enum", "chr"):
        acc.add(k)
    for f in ("a", "b", "c"):
        if f in e and isinstance(e[f], dict):
            ops_of(e[f], acc)
    return acc


def typed(t, v, dm, base=10):
    """An expression of type t (given the data model) with value v, when v is representable in t."""
    if t in SUF:
        e = lit(abs(v), base, SUF[t])
        return un("neg", e) if v < 0 else e
    e = lit(abs(v), base)
    return cast(t, un("neg", e) if v < 0 else e)


def tmin(t, dm):
    return -(1 << (8 * size_of(t, dm) - 1)) if is_signed(t) else 0


def tmax(t, dm):
    n = 8 * size_of(t, dm)
    return (1 << (n - 1)) - 1 if is_signed(t) else (1 << n) - 1


def minimum(t, dm):
    """MIN of a signed type as C writes it: (-MAX - 1)."""
    if t in SUF:
        return bn("sub", un("neg", lit(tmax(t, dm), 10, SUF[t])), lit(1, 10, SUF[t]))
    return cast(t, bn("sub", un("neg", lit(tmax(t, dm))), lit(1)))


def boundary_operands(t, dm):
    hi = tmax(t, dm)
    vals = [0, 1, 2, 7, hi, hi - 1, hi // 2 + 1, 100]
    if is_signed(t):
        vals += [-1, -2, -7, -hi, -100]
    else:
        vals += [(hi + 1) // 2, (hi + 1) // 2 - 1, (hi + 1) // 2 + 1]
    out = [typed(t, v, dm) for v in vals]
    if is_signed(t):
        out.append(minimum(t, dm))
    out.append(typed(t, hi, dm, 16))
    return out


class Gen:
    def __init__(self, rng, dm):
        self.rng = rng
        self.dm = dm
        self.pool = {t: boundary_operands(t, dm) for t in TYPES}
        self.flat = [e for t in TYPES for e in self.pool[t]]

    def operand(self, t=None):
        return self.rng.choice(self.pool[t] if t else self.flat)

    def small(self, lo=0, hi=20):
        t = self.rng.choice(["int", "int", "int", "uint", "long", "ulong", "llong", "ullong", "char", "uchar", "short", "ushort"])
        v = self.rng.randint(lo, hi)
        return typed(t, v, self.dm, self.rng.choice([10, 10, 16, 8]))

    def count(self):
        v = self.rng.choice([0, 1, 2, 3, 4, 7, 8, 15, 16, 24, 31, 32, 33, 40, 63, 64])
        return typed(self.rng.choice(["int", "int", "uint", "long", "ulong", "llong", "uchar", "short"]), v, self.dm)

    def leaf(self):
        r = self.rng.random()
        if r < 0.45:
            return self.small(0, 40)
        if r < 0.8:
            return self.operand()
        if r < 0.86:
            return {"k": "chr", "c": self.rng.choice([48, 65, 97, 122, 32, 126, 57])}
        if r < 0.93:
            return {"k": "sizeof", "t": self.rng.choice(TYPES)}
        return un("neg", self.small(1, 9))

    def tree(self, depth):
        rng = self.rng
        if depth <= 0 or rng.random() < 0.12:
            return self.leaf()
        r = rng.random()
        if r < 0.62:
            op = rng.choice(list(BIN))
            a = self.tree(depth - 1)
            if op in ("shl", "shr"):
                return bn(op, a, self.count() if rng.random() < 0.85 else self.tree(depth - 1))
            b = self.tree(depth - 1)
            if op in ("div", "mod") and rng.random() < 0.7:
                b = rng.choice([self.small(1, 9), un("neg", self.small(1, 9)), self.operand()])
            return bn(op, a, b)
        if r < 0.76:
            return un(rng.choice(list(UN)), self.tree(depth - 1))
        if r < 0.9:
            return cast(rng.choice(TYPES), self.tree(depth - 1))
        if r < 0.97:
            return cond(self.tree(depth - 1), self.tree(depth - 1), self.tree(depth - 1))
        return {"k": "sizeofe", "a": self.tree(depth - 1)}


# ---- the case space -----------------------------------------------------------------------------------------------
CORE = [  # (site, dest, expr)  — the inputs named in the property's "why tests can't" and DESIGN appendix D
    ("init", "int", lambda: bn("div", un("neg", lit(7)), lit(2))),
    ("init", "int", lambda: bn("mod", un("neg", lit(7)), lit(2))),
    ("init", "int", lambda: bn("div", lit(7), un("neg", lit(2)))),
    ("init", "int", lambda: bn("mod", lit(7), un("neg", lit(2)))),
    ("init", "int", lambda: bn("lt", lit(1), lit(2))),
    ("init", "int", lambda: bn("ge", lit(2), lit(2))),
    ("init", "int", lambda: bn("ne", lit(2), lit(3))),
    ("init", "int", lambda: bn("eq", lit(2), lit(2))),
    ("init", "int", lambda: bn("lor", lit(0), lit(7))),
    ("init", "int", lambda: bn("land", bn("gt", lit(3), lit(2)), lit(1))),
    ("init", "int", lambda: cond(lit(1), lit(2), lit(3))),
    ("init", "int", lambda: un("not", lit(5))),
    ("init", "int", lambda: un("inv", lit(0))),
    ("init", "int", lambda: bn("shr", un("neg", lit(16)), lit(2))),
    ("init", "uchar", lambda: lit(300)),
    ("init", "schar", lambda: lit(200)),
    ("init", "short", lambda: lit(70000)),
    ("init", "uint", lambda: un("neg", lit(1))),
    ("init", "int", lambda: cast("char", lit(300))),
    ("init", "int", lambda: cast("uchar", un("neg", lit(1)))),
    ("init", "llong", lambda: bn("shl", lit(1, 10, "ll"), lit(40))),
    ("init", "ullong", lambda: lit((1 << 64) - 1, 10, "ull")),
    ("init", "schar", lambda: un("neg", lit(128))),
    ("init", "int", lambda: bn("mul", {"k": "sizeof", "t": "int"}, lit(2))),
    ("init", "llong", lambda: un("neg", lit(2147483648))),
    ("init", "int", lambda: bn("lt", un("neg", lit(1)), lit(1, 10, "u"))),
    ("init", "int", lambda: bn("lt", cast("schar", un("neg", lit(1))), cast("uchar", lit(1)))),
    ("array", "int", lambda: bn("mod", lit(5), lit(3))),
    ("array", "char", lambda: bn("add", lit(2), lit(1))),
    ("array", "char", lambda: bn("div", lit(7), lit(2))),
    ("case", "int", lambda: bn("div", lit(7), lit(2))),
    ("case", "int", lambda: bn("div", un("neg", lit(7)), lit(2))),
    ("case", "int", lambda: cast("char", lit(1))),
    ("case", "uint", lambda: un("neg", lit(1))),
    ("bitfield", "uint", lambda: bn("sub", lit(5), lit(3))),
    ("bitfield", "uint", lambda: bn("mod", lit(7), lit(4))),
]


def make_items(ctx, arch, dm, scale):
    """The list of inputs for one target: systematic product samples + seeded random trees."""
    rng = ctx.rng
    g = Gen(rng, dm)
    items = []

    def add(site, dest, e, enums=None, fam="", members=None):
        items.append({"arch": arch, "site": site, "dest": dest, "e": e, "enums": enums or [], "fam": fam,
                      "members": members or []})

    def dest_any():
        return rng.choice(TYPES)

    def wide_dest():
        return rng.choice(["llong", "ullong", "llong", "ullong", "long", "int", "uint"])

    for site, dest, mk in CORE:
        add(site, dest, mk(), fam="core")
    # F1: binary operators x operand classes (boundary values of every type) x destination
    for op in BIN:
        for _ in range(int(22 * scale)):
            if op in ("shl", "shr"):
                a, b = g.operand(), g.count()
            elif op in ("div", "mod") and rng.random() < 0.5:
                a = rng.choice([g.operand(), un("neg", g.small(1, 40)), g.small(1, 40)])
                b = rng.choice([g.small(1, 9), un("neg", g.small(1, 9)), g.operand()])
            else:
                a, b = g.operand(), g.operand()
            add("init", dest_any() if rng.random() < 0.5 else wide_dest(), bn(op, a, b), fam="bin")
        # small operands with unary minus: the classic sign cases
        for _ in range(int(4 * scale)):
            a = rng.choice([un("neg", g.small(1, 30)), g.small(0, 30)])
            b = rng.choice([un("neg", g.small(1, 9)), g.small(1, 9)])
            add("init", rng.choice(["int", "llong", "schar", "short", "long"]), bn(op, a, b), fam="bin-small")
    # F2: unary operators
    for op in UN:
        for _ in range(int(14 * scale)):
            add("init", wide_dest() if rng.random() < 0.6 else dest_any(), un(op, g.operand()), fam="un")
    # F3: casts to every integer type
    for t in TYPES:
        for _ in range(int(7 * scale)):
            add("init", wide_dest(), cast(t, rng.choice([g.operand(), un("neg", g.small(1, 300)), g.small(0, 70000)])), fam="cast")
    # F4: conversion to the destination type (every destination x values of every type, in and out of range)
    for dest in TYPES:
        for _ in range(int(12 * scale)):
            e = rng.choice([g.operand(), g.operand(), un("neg", g.operand()), g.small(0, 70000), un("neg", g.small(1, 70000))])
            add(rng.choice(["init", "init", "static", "lstatic", "element", "member"]), dest, e, fam="dest")
    # F5: typing of integer constants (decimal / octal / hexadecimal, every suffix) made visible through the
    # value in a wide destination, through sizeof and through arithmetic that depends on the type
    bounds = sorted({tmax(t, dm) for t in ("int", "uint", "long", "ulong", "llong", "ullong")} |
                    {tmax(t, dm) + 1 for t in ("int", "uint", "long", "llong") if tmax(t, dm) + 1 < 1 << 64} | {0, 1, 255, 65535, 65536})
    for _ in range(int(60 * scale)):
        v = rng.choice(bounds)
        e = lit(v, rng.choice([10, 10, 16, 8]), rng.choice(["", "", "u", "l", "ul", "ll", "ull"]))
        if rng.random() < 0.3:
            e["up"] = True
        r = rng.random()
        if r < 0.3:
            add("init", wide_dest(), e, fam="lit")
        elif r < 0.5:
            add("init", "int", {"k": "sizeofe", "a": e}, fam="lit")
        elif r < 0.75:
            add("init", wide_dest(), un("neg", e), fam="lit")
        else:
            add("init", wide_dest(), bn(rng.choice(["shr", "div", "lt", "gt"]), un(rng.choice(["neg", "inv"]), e), g.small(1, 3)), fam="lit")
    # F6: conditional operator, sizeof, character constants
    for _ in range(int(30 * scale)):
        add("init", dest_any(), cond(rng.choice([g.small(0, 1), g.operand()]), g.operand(), g.operand()), fam="cond")
    for t in TYPES:
        add("init", rng.choice(["int", "ulong", "llong"]), {"k": "sizeof", "t": t}, fam="sizeof")
    for _ in range(int(16 * scale)):
        add("init", rng.choice(["int", "llong"]), {"k": "sizeofe", "a": g.tree(2)}, fam="sizeof")
        add("init", wide_dest(), bn(rng.choice(["sub", "lt", "div", "shr"]), un("neg", {"k": "sizeof", "t": rng.choice(TYPES)}), g.small(1, 5)), fam="sizeof")
    for c in (48, 65, 97, 126):
        add("init", dest_any(), bn(rng.choice(["add", "sub", "xor"]), {"k": "chr", "c": c}, g.small(0, 9)), fam="chr")
    # F7: seeded random trees, depth <= 4, every initialiser site
    for _ in range(int(170 * scale)):
        add(rng.choice(["init", "init", "init", "static", "lstatic", "element", "member"]), dest_any(), g.tree(rng.randint(2, 4)), fam="tree")
    # F8: array bounds (bounded to 1..64 by construction in most cases)
    for _ in range(int(40 * scale)):
        r = rng.random()
        if r < 0.5:
            e = bn("add", bn("and", g.tree(2), g.small(1, 63)), lit(1))
        elif r < 0.8:
            e = bn(rng.choice(list(BIN)), g.small(1, 40), g.small(1, 9))
        else:
            e = g.tree(2)
        add("array", rng.choice(["char", "char", "short", "int", "llong"]), e, fam="array")
    # F9: enumerators: enum { A = e1, B, C = B op k } used through an initialiser
    for _ in range(int(40 * scale)):
        r = rng.random()
        e1 = g.tree(2) if r < 0.5 else bn(rng.choice(list(BIN)), rng.choice([g.small(0, 40), un("neg", g.small(1, 40))]), g.small(1, 9))
        nm = "N%d_" % len(items)
        refb = {"k": "enum", "idx": 2, "name": nm + "B"}
        e3 = bn(rng.choice(["or", "add", "shl", "mul", "sub", "div", "mod", "lt", "xor"]), refb, g.small(1, 5))
        enums = [{"has": True, "e": e1, "name": nm + "A"}, {"has": False, "e": {"k": "none"}, "name": nm + "B"},
                 {"has": True, "e": e3, "name": nm + "C"}]
        which = rng.randint(1, 3)
        add("enum", rng.choice(["int", "int", "llong", "uchar", "short", "uint"]),
            {"k": "enum", "idx": which, "name": nm + "ABC"[which - 1]}, enums, fam="enum")
    # F10: case labels and bit-field widths (behaviour of the produced IR)
    for _ in range(int(20 * scale)):
        sel = rng.choice(["int", "int", "uint", "long", "ulong", "llong", "ullong"])
        e = rng.choice([g.tree(2), bn(rng.choice(list(BIN)), rng.choice([g.operand(sel), un("neg", g.small(1, 40))]), g.small(1, 9)),
                        g.operand(), cast(rng.choice(TYPES), g.operand())])
        add("case", sel, e, fam="case")
    for _ in range(int(10 * scale)):
        r = rng.random()
        e = bn("add", bn("and", g.tree(2), g.small(1, 31)), lit(1)) if r < 0.5 else bn(rng.choice(list(BIN)), g.small(1, 40), g.small(1, 9))
        add("bitfield", "uint", e, fam="bitfield")
    # F11: initialisers of bit-field members: struct with 2-4 bit-fields (signed and unsigned, widths 1..8*int-1, one
    # storage unit) followed by an int member, each initialised with a constant expression - in range, too big, negative
    maxw = 8 * dm["ib"] - 1
    for _ in range(int(24 * scale)):
        members, room = [], 8 * dm["ib"]
        for j in range(rng.randint(2, 4)):
            if room < 1:
                break
            w = min(rng.choice([1, 2, 3, 4, 5, 7, 8, 9, 12, 15, 16, 17, 24, 31, rng.randint(1, maxw)]), maxw, room)
            room -= w
            sg = rng.random() < 0.45
            r = rng.random()
            if r < 0.3:      # in range (for a signed member: negative in-range values as well)
                v = rng.randint(-(1 << (w - 1)), (1 << (w - 1)) - 1) if sg else rng.randint(0, (1 << w) - 1)
                e = typed("llong" if v < 0 else rng.choice(["ullong", "llong", "ulong"]), v, dm)
            elif r < 0.5:    # just outside
                v = rng.choice([1 << w, (1 << w) + 1, (1 << w) + rng.randint(0, 40), -1, -rng.randint(1, 1 << w), (1 << (w - 1))])
                e = typed("llong", v, dm)
            elif r < 0.75:   # operator expressions with small / negative results
                e = bn(rng.choice(["div", "mod", "sub", "add", "mul", "shl", "or", "xor", "lt"]),
                       rng.choice([un("neg", g.small(1, 40)), g.small(0, 40)]), g.small(1, 9))
            elif r < 0.9:
                e = g.tree(2)
            else:
                e = g.operand()
            members.append({"w": w, "s": sg, "e": e})
        add("bfinit", "int", lit(0), fam="bfinit", members=members)
    for ms in ([(3, False, lit(2)), (5, False, bn("add", lit(30), lit(3))), (4, False, lit(0))],
               [(4, False, bn("mul", lit(4), lit(4))), (4, False, lit(2))],
               [(3, True, un("neg", lit(1))), (5, False, lit(17))],
               [(3, True, bn("div", un("neg", lit(7)), lit(2))), (4, True, un("neg", lit(8))), (9, False, lit(511))]):
        add("bfinit", "int", lit(0), fam="core", members=[{"w": w, "s": sg, "e": e} for w, sg, e in ms])
    return items


# ---- rendering of one input at its site ---------------------------------------------------------------------------
def render_item(it, n):
    """C text of item number n (names are unique per n) -> (source text, observed object name)."""
    e = render(it["e"])
    t = CT[it["dest"]]
    site = it["site"]
    if site == "init":
        return "%s g%d = %s;\n" % (t, n, e), "g%d" % n
    if site == "static":
        return "static %s g%d = %s;\n" % (t, n, e), "g%d" % n
    if site == "lstatic":
        return "void f%d(void) { static %s g%dq = %s; }\n" % (n, t, n, e), "g%dq" % n
    if site == "element":
        return "%s g%d[3] = {1, %s, 2};\n" % (t, n, e), "g%d" % n
    if site == "member":
        return "struct S%d { char c; %s m; } g%d = {1, %s};\n" % (n, t, n, e), "g%d" % n
    if site == "enum":
        body = ", ".join(d["name"] + (" = " + render(d["e"]) if d["has"] else "") for d in it["enums"])
        return "enum E%d { %s };\n%s g%d = %s;\n" % (n, body, t, n, e), "g%d" % n
    if site == "array":
        return "%s g%d[%s];\n" % (t, n, e), "g%d" % n
    if site == "case":
        return "int f%d(%s x) { switch (x) { case %s: return 1; } return 0; }\n" % (n, t, e), "f%d" % n
    if site == "bitfield":
        return ("struct B%d { %s a : %s; %s pad; } b%d;\n%s f%d(%s x) { b%d.a = x; return b%d.a; }\n" % (n, t, e, t, n, t, n, t, n, n)), "f%d" % n
    if site == "bfinit":
        ms = it["members"]
        decl = " ".join("%s m%d : %d;" % ("int" if m["s"] else "unsigned int", j, m["w"]) for j, m in enumerate(ms, 1))
        init = ", ".join(render(m["e"]) for m in ms)
        readers = "".join("%s f%d_%d(void) { return g%d.m%d; }\n" % ("int" if m["s"] else "unsigned int", n, j, n, j)
                          for j, m in enumerate(ms, 1))
        return "struct F%d { %s int tail; } g%d = { %s, 77 };\n%s" % (n, decl, n, init, readers), "f%d" % n
    raise ValueError(site)


def c_text(it):
    return render_item(it, 0)[0].strip().replace("\n", " ")


# ---- observation of ppci --------------------------------------------------------------------------------------------
def compile_c(src, march):
    """-> ("ok", module) | ("diag", message) | ("exc", class name)."""
    from ppci import api
    from ppci.common import CompilerError

    try:
        return "ok", watchdog.limited(lambda: api.c_to_ir(io.StringIO(src), march), 20.0, "c_to_ir")
    except CompilerError as e:
        return "diag", str(getattr(e, "msg", e))[:200]
    except Exception as e:  # an internal error is an outcome the specification judges
        return "exc", type(e).__name__


def out_rec(ok=False, diag=False, exc="", bytes_=(), amount=0):
    return {"ok": ok, "diag": diag, "exc": exc, "bytes": list(bytes_), "amount": amount}


def observe_data(it, name, module, dm):
    try:
        return _observe_data(it, name, module, dm)
    except Exception as e:  # a changed tree may hand back odd objects: an observation, not a harness crash
        return out_rec(exc="observation:" + type(e).__name__)


def _observe_data(it, name, module, dm):
    """What the front-end put into the IR for the object `name` (no interpretation beyond locating it)."""
    vs = [v for v in module.variables if v.name == name or (it["site"] == "lstatic" and v.name.startswith(name))]
    if len(vs) != 1:
        return out_rec(exc="object-not-found")
    v = vs[0]
    if it["site"] == "array":
        return out_rec(ok=True, amount=int(v.amount))
    if v.value is None:
        return out_rec(exc="no-initial-value")
    parts = list(v.value)
    if not all(isinstance(p, (bytes, bytearray)) for p in parts):
        return out_rec(exc="non-constant-image")
    img = b"".join(bytes(p) for p in parts)
    sz = size_of(it["dest"], dm)
    if it["site"] == "element":
        img = img[sz:2 * sz] if len(img) == 3 * sz else b""
    elif it["site"] == "member":
        img = img[-sz:] if len(img) > sz else b""
    return out_rec(ok=True, bytes_=img, amount=int(v.amount))


BEHAVIOUR = ("case", "bitfield", "bfinit")   # sites observed through the behaviour of the produced IR


def observe(ctx, items, arch, dm, batch=20):
    """Compile the inputs (data sites in batches, isolating the members of a failing batch) and record outcomes."""
    from harness import project_ir

    data = [k for k, it in enumerate(items) if it["site"] not in BEHAVIOUR]
    for grp in core.chunks(data, batch):
        texts = {k: render_item(items[k], k) for k in grp}
        st, m = compile_c("".join(texts[k][0] for k in grp), arch)
        if st == "ok":
            for k in grp:
                items[k]["out"] = observe_data(items[k], texts[k][1], m, dm)
            continue
        for k in grp:  # isolate: every failing expression is identified
            st1, m1 = compile_c(texts[k][0], arch)
            if st1 == "ok":
                items[k]["out"] = observe_data(items[k], texts[k][1], m1, dm)
            else:
                items[k]["out"] = out_rec(diag=st1 == "diag", exc=m1 if st1 == "exc" else "CompilerError")
                items[k]["msg"] = m1
    for k, it in enumerate(items):
        if it["site"] not in BEHAVIOUR:
            continue
        src, fn = render_item(it, k)
        st, m = compile_c(src, arch)
        if st != "ok":
            it["out"] = out_rec(diag=st == "diag", exc=m if st == "exc" else "CompilerError")
            it["msg"] = m
            continue
        try:
            it["pm"] = project_ir.project_module(m, dm["pb"])
            it["fn"] = fn
            it["out"] = out_rec(ok=True)
        except Exception as e:
            it["out"] = out_rec(exc="projection:" + type(e).__name__)


# ---- judgement ---------------------------------------------------------------------------------------------------------
def ident(it):
    return "%s:%s:%s:%s" % (it["arch"], it["site"], it["dest"], it["ctext"])


def portable(it):
    """The input itself (for replay files)."""
    return {k: it.get(k, []) for k in ("arch", "site", "dest", "e", "enums", "fam", "members")}


def strip_names(e):
    if isinstance(e, dict):
        return {k: strip_names(v) for k, v in e.items() if k not in ("name", "up")}
    if isinstance(e, list):
        return [strip_names(x) for x in e]
    return e


def vkey(it, outcome, flags):
    ops = ops_of(it["e"])
    for d in it["enums"] + it.get("members", []):
        ops_of(d["e"], ops)
    return "C27:%s:%s:%s:%s:ops=,%s,:sem=,%s,:%s" % (
        it["arch"], it["site"], it["dest"], outcome, ",".join(sorted(ops)), ",".join(flags), it["ctext"])


def judge(ctx, items):
    recs = [{"key": ident(it), "site": it["site"], "dm": it["dm"], "dest": it["dest"], "e": strip_names(it["e"]),
             "enums": [{"has": d["has"], "e": strip_names(d["e"])} for d in it["enums"]],
             "members": [{"w": m["w"], "s": m["s"], "e": strip_names(m["e"])} for m in it.get("members", [])],
             "out": it["out"]} for it in items]
    path = ctx.trace_file(recs)
    obs_dir = tempfile.mkdtemp(prefix="c27probes_", dir=ctx.workdir)
    res = ctx.tlc("CConst_Eval", EVAL_CFG, label="constant expressions", env={"TRACE_FILE": path, "OBS_DIR": obs_dir},
                  continue_=True, workers=8, coverage=False)
    os.unlink(path)
    if res.errors:
        raise MachineryError("unexpected TLC error in CConst_Eval: %s\n%s" % (res.errors[0], res.errors[0].text[:1500]))
    ctx.cov["traces_validated_against_impl"] += len(recs)
    bad = set()
    verdicts = []
    for k, it in enumerate(items):
        p = os.path.join(obs_dir, "%d.json" % (k + 1))
        try:
            with open(p) as f:
                v = json.load(f)
        except (OSError, ValueError) as e:
            raise MachineryError("TLC wrote no judgement for record %d (%s): %s" % (k + 1, it["ctext"], e))
        verdicts.append(v)
        field = {"ok": "compared", "undefined": "skipped_undefined", "skip": "skipped_not_valid"}.get(v.get("st"))
        if field is None:
            raise MachineryError("unexpected status in TLC's judgement of record %d: %r" % (k + 1, v))
        ctx.cov[field] = ctx.cov.get(field, 0) + 1
        ctx.count(ident(it) if v["st"] == "ok" else None)  # distinct_nontrivial counts compared inputs only
        if v["st"] != "ok":
            rs = ctx.cov.setdefault("skip_reasons", {})
            rs[v["why"]] = rs.get(v["why"], 0) + 1
        for note in v["fl"]:
            ns = ctx.cov.setdefault("rules_exercised", {})
            ns[note] = ns.get(note, 0) + 1
        o = it["out"]
        for clause in v["viol"]:
            bad.add(k)
            if clause == "NoInternalError":
                outcome, what = "exc=" + o["exc"], "the front-end stopped with the internal exception %s" % o["exc"]
            elif clause == "Accepted":
                outcome, what = "diag", "the front-end rejected a valid constant expression: %s" % it.get("msg", "")
            elif it["site"] == "array":
                outcome, what = "wrong", "object size %d, required %s" % (o["amount"], v.get("amount"))
            else:
                outcome, what = "wrong", "bytes %s, required %s" % (bytes(o["bytes"]).hex(), _hex(v.get("bytes")))
            ctx.violation(vkey(it, outcome, sorted(v["fl"])), "%s  [%s]: %s" % (it["ctext"], it["arch"], what),
                          {"id": ident(it), "item": portable(it), "source": render_item(it, 0)[0], "observed": o,
                           "required": {x: v[x] for x in ("st", "bytes", "amount", "fl")}, "clause": clause})
    # behavioural sites: run the IR ppci produced on the probe words written by TLC
    cases, owners = [], []
    for k, it in enumerate(items):
        if it["site"] not in BEHAVIOUR or not it["out"]["ok"]:
            continue
        pr = verdicts[k]
        if pr["st"] != "ok":
            continue  # the specification gives the expression no value (undefined / constraint): nothing to run
        for j, probe in enumerate(pr["probes"]):
            if it["site"] == "bfinit":   # one reader function per member, no argument
                fn, argv = "%s_%d" % (it["fn"], probe["x"][0]), [[]]
            else:
                fn, argv = it["fn"], [[probe["x"]]]
            cases.append({"id": "%s#%d" % (ident(it), j), "mods": [it["pm"]], "fn": fn, "argv": argv, "ext": [],
                          "fuel": 2000, "obs": {"outcome": "ok", "ret": probe["r"], "globals": [], "hascalls": False, "calls": []}})
            owners.append((k, probe, pr.get("fl", [])))
    shutil.rmtree(obs_dir, ignore_errors=True)
    if cases:
        path = ctx.trace_file(cases)
        res2 = ctx.tlc("CConst_IR", IR_CFG, label="case labels / bit-field widths under IR.tla", env={"TRACE_FILE": path},
                       continue_=True, workers=8)
        os.unlink(path)
        ctx.cov["traces_validated_against_impl"] += len(cases)
        ctx.cov["probe_runs"] = ctx.cov.get("probe_runs", 0) + len(cases)
        seen = set()
        for e in res2.errors:
            st = e.last
            idx = st.get("i")
            if e.kind != "invariant" or not isinstance(idx, int) or not 1 <= idx <= len(cases):
                raise MachineryError("unexpected TLC error in CConst_IR: %s\n%s" % (e, e.text[:1500]))
            k, probe, fl = owners[idx - 1]
            if k in seen:
                continue
            seen.add(k)
            it = items[k]
            bad.add(k)
            outcome = "wrong" if e.name == "ObsMatchesImpl" else "probe-" + str(st.get("status"))
            ctx.violation(vkey(it, outcome, sorted(fl)),
                          "%s  [%s]: probe %s returned %s (status %s %s), required %s" % (
                              it["ctext"], it["arch"], _hex(probe["x"]), _hex(st.get("ret")), st.get("status"), st.get("why"), _hex(probe["r"])),
                          {"id": ident(it), "item": portable(it), "source": render_item(it, 0)[0], "probe": probe, "clause": e.name})
    return bad


def _hex(b):
    try:
        return bytes(b).hex()
    except Exception:
        return str(b)


# ---- gcc as a development reference for CConst.tla (never part of a verdict) -------------------------------------------
def gcc_outcomes(items, dm):
    """Observe gcc instead of ppci on the 'init' items (x86_64: -m64, ILP32 models: -m32).  Development aid:
    VERIF_C27_REF=gcc ./check C27 judges gcc's images with CConst.tla; a disagreement is a specification bug."""
    flag = "-m64" if dm["lb"] == 8 else "-m32"
    d = tempfile.mkdtemp(prefix="c27gcc_")
    try:
        def run(ks):
            src = "".join("%s g%d = %s;\n" % (CT[items[k]["dest"]], k, render(items[k]["e"])) for k in ks)
            with open(os.path.join(d, "t.c"), "w") as f:
                f.write(src)
            r = subprocess.run(["gcc", flag, "-std=gnu11", "-w", "-fno-zero-initialized-in-bss", "-fno-common", "-c", "t.c", "-o", "t.o"],
                               cwd=d, capture_output=True, text=True)
            if r.returncode != 0:
                return None
            subprocess.run(["objcopy", "-O", "binary", "-j", ".data", "t.o", "t.bin"], cwd=d, check=True)
            with open(os.path.join(d, "t.bin"), "rb") as f:
                blob = f.read()
            out = {}
            for ln in subprocess.run(["nm", "-S", "t.o"], cwd=d, capture_output=True, text=True).stdout.splitlines():
                p = ln.split()
                if len(p) == 4 and p[3].startswith("g"):
                    a, s = int(p[0], 16), int(p[1], 16)
                    out[int(p[3][1:])] = blob[a:a + s]
            return out

        ks = [k for k, it in enumerate(items) if it["site"] == "init" and not it["enums"]]
        for grp in core.chunks(ks, 8):
            got = run(grp)
            for k in grp:
                g1 = got if got is not None else run([k])
                if g1 is None or k not in g1:
                    items[k]["out"] = out_rec(diag=True, exc="gcc-rejected")
                else:
                    items[k]["out"] = out_rec(ok=True, bytes_=g1[k])
        for k, it in enumerate(items):
            if "out" not in it:
                it["out"] = out_rec(diag=True, exc="not-run")
    finally:
        shutil.rmtree(d, ignore_errors=True)


class Engine:
    LEVEL = "model_checking"

    def run(self, ctx):
        logging.disable(logging.WARNING)
        thorough = ctx.tier == "thorough"
        ref = os.environ.get("VERIF_C27_REF", "")
        ctx.rule("M: CConst.tla against the standard's rules over the integers on toy data models (every type pair, operator, cast "
                 "target, use site). E/G: per target (data model read from ppci's arch description) the product operator x operand "
                 "classes (boundary values of all 11 integer types, negatives through unary minus) x destination type, casts, integer "
                 "constant typing, ?:, sizeof, enumerators, array bounds, case labels, bit-field widths, plus seeded random trees of "
                 "depth <= 4; each compiled by api.c_to_ir (20 objects per compile, members of a failing batch recompiled alone); "
                 "TLC compares the Variable.value image / Variable.amount with CConst.tla and runs the IR of probe functions under "
                 "IR.tla on the probe words CConst.tla wrote; distinct = distinct (target, site, destination, expression); "
                 "undefined / constraint-violating expressions are skipped (skipped_undefined, skipped_not_valid)")
        ctx.assume("the sizes of int/long/pointer and the byte order are read from ppci's architecture description (api.get_arch(..).info); "
                   "plain char is signed (ppci's documented choice) and size_t is the unsigned type as wide as a pointer")
        ctx.assume("conversion of an out-of-range value to a signed type and >> of a negative value are implementation-defined in C; "
                   "the specification requires the two's complement wrap / arithmetic shift that gcc documents and that ppci's own "
                   "run-time code implements (such cases carry the notes castS / destS / impl-shr-negative)")
        ctx.assume("harness/project_ir.py reports the IR of the probe functions faithfully; IR.tla is the semantics of ppci IR")
        if ctx.only is None and not ref:
            res = ctx.tlc("CConst_MC", MC_CFG % ("TRUE" if thorough else "FALSE"), label="laws of the evaluator", workers=8,
                          coverage=False, timeout=3000)
            if res.errors:
                raise MachineryError("a law of CConst.tla fails in the specification itself: %s" % res.errors[:3])
            ctx.cov["law_families_checked"] = 18
        if ctx.only is not None:
            thorough = True  # all targets are candidates for the recorded input
        targets = [("x86_64", 0.6), ("arm", 0.25)] if not thorough else [("x86_64", 6.0), ("arm", 2.5), ("msp430", 1.5), ("or1k", 1.5)]
        items = []
        for arch, scale in targets:
            dm = data_model(arch)
            if ctx.only is not None:  # replay: exactly the recorded input
                saved = (ctx.only.get("case") or {}).get("item") or {}
                its = [dict(saved)] if saved.get("arch") == arch else []
            else:
                its = make_items(ctx, arch, dm, scale)
            for it in its:
                it["dm"] = dm
                it["ctext"] = c_text(it)
            seen = set()
            its = [it for it in its if not (ident(it) in seen or seen.add(ident(it)))]
            if ref == "gcc":
                its = [it for it in its if it["site"] == "init" and not it["enums"] and arch in ("x86_64", "arm")]
                gcc_outcomes(its, dm)
            else:
                observe(ctx, its, arch, dm)
            items += its
        for it in items[:: max(1, len(items) // 5)][:5]:
            ctx.sample({"input": it["ctext"], "target": it["arch"], "observed": {k: v for k, v in it["out"].items() if v not in ("", [], 0, False)}})
        fam = {}
        for it in items:
            fam[it["site"]] = fam.get(it["site"], 0) + 1
        ctx.cov["inputs_per_site"] = fam
        for grp in core.chunks(items, 6000):
            if grp:
                judge(ctx, grp)
