"""C34 — build runner (ppci/build/tasks.py) vs. Tasks.tla (idioms M + T).

M  Tasks_MC      the declarative specification on every graph of the configured size: clauses,
                 implementability (no deadlock, termination), laws of the graph definitions
   Tasks_Algo    DFS with on-path set + post-order walk refines the declarative specification
   Tasks_AsBuilt transcription of the code as found: which facts hold of it, and the
                 counter-examples TLC exhibits (documentation of the two genuine defects; the real
                 code is judged by T only)
T  Tasks_Trace   histories of the real TaskRunner.run (stub tasks logging their target), produced
                 in subprocesses under several PYTHONHASHSEEDs by harness/c34_driver.py, validated
                 by TLC: every event must be an enabled action of Tasks.tla.
"""
import itertools
import json
import os
import subprocess
import sys
from concurrent.futures import ThreadPoolExecutor

from harness import core

tlcmod = core.tlcmod
DRIVER = os.path.join(core.VERIF, "harness", "c34_driver.py")
ALL = "ABCDE"

CLAUSES = """INVARIANT TypeOK
INVARIANT ExactlyOnce
INVARIANT OnlyNeeded
INVARIANT DepsFirst
INVARIANT LoopIff
INVARIANT Completed
"""
LAWS = """INVARIANT LawReach
INVARIANT LawCycle
INVARIANT LawTopo
"""
ALGO_INV = """INVARIANT ATypeOK
INVARIANT EndsWithOutcome
INVARIANT StackIsPath
INVARIANT NoRepeatOnPath
INVARIANT CheckSets
INVARIANT VisitedClosed
INVARIANT OrderOnlyAcyclic
INVARIANT OrderIsTopological
INVARIANT OrderComplete
PROPERTY Refines
"""
ASBUILT_HOLDS = """INVARIANT TypeOK
INVARIANT ExactlyOnce
INVARIANT OnlyNeeded
INVARIANT Completed
INVARIANT NeverMissesLoop
INVARIANT SpuriousLoopExplained
INVARIANT MultiPathRejected
INVARIANT WrongOrderExplained
"""
TRACE_CFG = """CONSTANT Target = {1, 2, 3, 4, 5}
INIT TInit
NEXT TNext
CHECK_DEADLOCK FALSE
INVARIANT Follows
INVARIANT DiagnosisSound
INVARIANT EndsProperly
INVARIANT ExactlyOnce
INVARIANT OnlyNeeded
INVARIANT DepsFirst
INVARIANT LoopIff
INVARIANT Completed
"""

MC_ACTIONS = ["PickGraph", "PickRequest", "RunStart", "RunLoop", "RunFinish", "RunEnded"]
ALGO_ACTIONS = ["PickGraph", "PickRequest", "CheckBegin", "ReportLoop", "CheckSkip", "CheckDescend", "CheckReturn",
                "CheckDone", "OrderBegin", "OrderSkip", "OrderDescend", "OrderReturn", "OrderDone", "RunTarget",
                "RunEnd", "Ended"]
ASBUILT_ACTIONS = ["PickGraph", "PickRequest", "BCheckBegin", "BReportLoop", "BDescend", "BReturn", "BCheckDone",
                   "BCollect", "BSort", "BRunTarget", "BRunEnd", "Ended"]
TRACE_CHUNK = 20    # = ChunkSize of tla/Tasks_Trace.tla
TRACE_ACTIONS = ["PickChunk", "PickGraph", "PickRun", "TraceStart", "TraceLoop", "TraceDone"]


def targets_cfg(n, strings=False):
    names = ALL[:n]
    return "{%s}" % ", ".join('"%s"' % c if strings else c for c in names)


def staged_cfg(n, selfdeps, body, sym=True, deadlock=True):
    return ("CONSTANT Target = %s\nCONSTANT SelfDeps = %s\n%sINIT SInit\nNEXT SNext\nCHECK_DEADLOCK %s\n%s" % (
        targets_cfg(n), "TRUE" if selfdeps else "FALSE", "SYMMETRY Sym\n" if sym else "",
        "TRUE" if deadlock else "FALSE", body))


# ---------------------------------------------------------------------------------------------
# M: model checking of the specifications themselves
# ---------------------------------------------------------------------------------------------
def m_jobs(tier):
    """(label, module, cfg, expected actions, kind); kind = 'holds' | 'exhibit'."""
    jobs = []
    # declarative spec through Tasks!Init itself, with fairness: termination (no symmetry with liveness)
    jobs.append(("spec n=3 self-deps, liveness", "Tasks_MC",
                 "CONSTANT Target = %s\nCONSTANT SelfDeps = TRUE\nSPECIFICATION MCSpec\nCHECK_DEADLOCK TRUE\n%s%s"
                 "INVARIANT LawMultiPath\nPROPERTY Terminates\n" % (targets_cfg(3, True), CLAUSES, LAWS),
                 MC_ACTIONS[2:], "holds"))
    thorough = tier == "thorough"
    jobs.append(("spec n=4%s" % (" self-deps" if thorough else ""), "Tasks_MC",
                 staged_cfg(4, thorough, CLAUSES + LAWS), MC_ACTIONS, "holds"))
    jobs.append(("algo refines spec n=3 self-deps", "Tasks_Algo", staged_cfg(3, True, CLAUSES + ALGO_INV, sym=False),
                 ALGO_ACTIONS, "holds"))
    jobs.append(("as-built facts n=3 self-deps", "Tasks_AsBuilt", staged_cfg(3, True, ASBUILT_HOLDS, sym=False),
                 ASBUILT_ACTIONS, "holds"))
    if thorough:
        jobs.insert(0, ("algo refines spec n=4 self-deps", "Tasks_Algo", staged_cfg(4, True, CLAUSES + ALGO_INV),
                        ALGO_ACTIONS, "holds"))
        jobs.insert(1, ("as-built facts n=4 self-deps", "Tasks_AsBuilt", staged_cfg(4, True, ASBUILT_HOLDS),
                        ASBUILT_ACTIONS, "holds"))
        jobs.append(("as-built counter-example: spurious loop", "Tasks_AsBuilt",
                     staged_cfg(3, False, "INVARIANT NoSpuriousLoop\n", sym=False, deadlock=False), [], "exhibit"))
        jobs.append(("as-built counter-example: order", "Tasks_AsBuilt",
                     staged_cfg(3, False, "INVARIANT SortedIsDependencyOrder\n", sym=False, deadlock=False), [],
                     "exhibit"))
    else:
        jobs.append(("as-built counter-example: does not refine the spec", "Tasks_AsBuilt",
                     staged_cfg(3, False, "PROPERTY Refines\n", sym=False, deadlock=False), [], "exhibit"))
    return jobs


def start_m(ctx):
    """Start the M runs in background threads (they are independent of the implementation and of
    each other); returns the function that waits for them and does the accounting."""
    jobs = m_jobs(ctx.tier)

    def one(k):
        label, module, cfg, acts, kind = jobs[k]
        wd = os.path.join(ctx.workdir, "m_%d" % k)
        os.makedirs(wd, exist_ok=True)
        return tlcmod.run(module, cfg, wd, workers=4, coverage=True, heap="3g")

    pool = ThreadPoolExecutor(max_workers=2)
    futures = [pool.submit(one, k) for k in range(len(jobs))]

    def finish():
        try:
            results = [f.result() for f in futures]
        finally:
            pool.shutdown(wait=True)
        account_m(ctx, jobs, results)

    return finish


def account_m(ctx, jobs, results):
    for k, (label, module, cfg, acts, kind) in enumerate(jobs):
        res = results[k]
        cov = tlcmod.action_coverage(res)
        run = {"module": module, "label": label, "distinct_states": res.distinct, "states_generated": res.generated,
               "depth": res.depth, "wall_s": round(res.wall, 2), "errors": len(res.errors)}
        ctx.cov["tlc_runs"].append(run)
        if kind == "holds":
            ctx.cov["states"] += res.distinct
            ctx.cov["transitions"] += res.generated
            for a, v in cov.items():
                ctx.cov["actions"]["%s.%s" % (module, a.split(".")[-1])] = \
                    ctx.cov["actions"].get("%s.%s" % (module, a.split(".")[-1]), 0) + v
            if res.errors:
                e = res.errors[0]
                raise tlcmod.MachineryError("the specification itself is inconsistent (%s, %s): %s %s\n%s" % (
                    module, label, e.kind, e.name, json.dumps(e.last, default=str)[:1500]))
            missing = [a for a in acts if not any(k2.split(".")[-1] == a and v > 0 for k2, v in cov.items())]
            if missing:
                raise tlcmod.MachineryError("actions never taken in %s (%s): %s" % (module, label, missing))
        else:
            # documentation only: the transcription of the code as found violates the clause
            if res.errors:
                st = res.errors[0].last
                run["exhibits"] = {"clause": res.errors[0].name,
                                   "deps": st.get("deps"), "requested": st.get("requested"),
                                   "executed": st.get("executed"), "lst": st.get("lst"), "result": st.get("result")}
            else:
                ctx.note("Tasks_AsBuilt no longer violates its clause in '%s'" % label)


# ---------------------------------------------------------------------------------------------
# work lists
# ---------------------------------------------------------------------------------------------
def graph_from_mask(n, pairs, mask):
    deps = [[] for _ in range(n)]
    for k, (a, b) in enumerate(pairs):
        if mask >> k & 1:
            deps[a].append(ALL[b])
    return ["".join(d) for d in deps]


def all_graphs(n, selfdeps):
    pairs = [(a, b) for a in range(n) for b in range(n) if selfdeps or a != b]
    for mask in range(1 << len(pairs)):
        yield graph_from_mask(n, pairs, mask)


def request_sets(n):
    names = ALL[:n]
    for r in range(1, n + 1):
        for c in itertools.combinations(names, r):
            yield "".join(c)


def iso_classes5():
    """One representative (edge mask) of every digraph on 5 nodes without self-dependencies up to
    isomorphism (9608 classes), by orbit marking."""
    n = 5
    pairs = [(a, b) for a in range(n) for b in range(n) if a != b]
    index = {p: k for k, p in enumerate(pairs)}
    tables = []
    for perm in itertools.permutations(range(n)):
        bitmap = [index[(perm[a], perm[b])] for (a, b) in pairs]
        lo = [0] * 1024
        hi = [0] * 1024
        for x in range(1024):
            v = w = 0
            for k in range(10):
                if x >> k & 1:
                    v |= 1 << bitmap[k]
                    w |= 1 << bitmap[10 + k]
            lo[x] = v
            hi[x] = w
        tables.append((lo, hi))
    seen = bytearray(1 << 20)
    reps = []
    for mask in range(1 << 20):
        if seen[mask]:
            continue
        reps.append(mask)
        a, b = mask & 1023, mask >> 10
        for lo, hi in tables:
            seen[lo[a] | hi[b]] = 1
    return pairs, reps


def relabel(deps, perm):
    """Rename target k to perm[k]."""
    n = len(deps)
    out = [""] * n
    for k in range(n):
        out[perm[k]] = "".join(sorted(ALL[perm[ALL.index(c)]] for c in deps[k]))
    return out


def work_list(ctx):
    """[(names, deps, request, via)] -- deterministic given ctx.seed."""
    rng = ctx.rng
    thorough = ctx.tier == "thorough"
    cases = []
    # every graph on 1..3 targets incl. self-dependencies x every non-empty request set, through every entry
    for n in (1, 2, 3):
        for deps in all_graphs(n, True):
            for req in request_sets(n):
                cases.append((ALL[:n], deps, req, "run"))
                if len(req) > 1:
                    cases.append((ALL[:n], deps, req[::-1], "run"))       # other order of the request list
                    cases.append((ALL[:n], deps, req, "recipe"))
                else:
                    cases.append((ALL[:n], deps, req, "default"))
                    cases.append((ALL[:n], deps, req, "recipe"))
                    cases.append((ALL[:n], deps, req, "recipe-default"))
    # every graph on 4 targets without self-dependencies x all 15 request sets
    for deps in all_graphs(4, False):
        for req in request_sets(4):
            cases.append(("ABCD", deps, req, "run"))
    # seeded samples: 4 and 5 targets with self-dependencies, 5 targets without
    pairs4 = [(a, b) for a in range(4) for b in range(4)]
    pairs5s = [(a, b) for a in range(5) for b in range(5)]
    pairs5 = [(a, b) for a in range(5) for b in range(5) if a != b]
    reqs4, reqs5 = list(request_sets(4)), list(request_sets(5))

    def sparse_mask(nbits):
        # mixture of densities: dense graphs are almost always cyclic
        p = rng.choice((0.1, 0.2, 0.3, 0.5))
        m = 0
        for k in range(nbits):
            if rng.random() < p:
                m |= 1 << k
        return m

    for _ in range(20000 if thorough else 1500):
        cases.append(("ABCD", graph_from_mask(4, pairs4, sparse_mask(16)), rng.choice(reqs4), "run"))
    for _ in range(20000 if thorough else 1500):
        cases.append(("ABCDE", graph_from_mask(5, pairs5s, sparse_mask(25)), rng.choice(reqs5), "run"))
    if thorough:
        # 5 targets without self-dependencies, every graph up to isomorphism (seeded random labelling
        # of each class) x all 31 request sets
        pairs, reps = iso_classes5()
        for mask in reps:
            perm = list(range(5))
            rng.shuffle(perm)
            deps = relabel(graph_from_mask(5, pairs, mask), perm)
            for req in reqs5:
                cases.append(("ABCDE", deps, req, "run"))
    else:
        for _ in range(3000):
            m = sparse_mask(20)
            deps = graph_from_mask(5, pairs5, m)
            req = rng.choice(reqs5)
            cases.append(("ABCDE", deps, req, "run"))
            if len(req) > 1:
                r2 = list(req)
                rng.shuffle(r2)
                cases.append(("ABCDE", deps, "".join(r2), "run"))
    return cases


def graph_text(names, deps):
    edges = ["%s>%s" % (n, d) for n, ds in zip(names, deps) for d in sorted(ds)]
    return ",".join(edges) if edges else "-"


def case_key(names, deps, req):
    return "n=%d:graph=%s:req=%s" % (len(names), graph_text(names, deps), ",".join(sorted(req)))


# ---------------------------------------------------------------------------------------------
# driving the implementation
# ---------------------------------------------------------------------------------------------
def drive(cases, hashseed, nproc=4):
    """Run the driver on `cases` under PYTHONHASHSEED=hashseed in nproc subprocesses."""
    env = dict(os.environ)
    env["PYTHONHASHSEED"] = str(hashseed)
    env["PYTHONDONTWRITEBYTECODE"] = "1"
    size = max(1, (len(cases) + nproc - 1) // nproc)
    parts = [cases[k:k + size] for k in range(0, len(cases), size)]

    def one(part):
        p = subprocess.run([sys.executable, DRIVER], input=json.dumps(part), env=env, capture_output=True,
                           text=True, timeout=1500)
        if p.returncode != 0:
            return None, p.stderr[-1500:]
        try:
            out = json.loads(p.stdout)
        except ValueError:
            return None, "unparsable driver output: " + p.stdout[-300:]
        if len(out) != len(part):
            return None, "driver returned %d results for %d cases" % (len(out), len(part))
        return out, ""

    with ThreadPoolExecutor(max_workers=nproc) as ex:
        res = list(ex.map(one, parts))
    return parts, res


WHAT = {
    "UnknownTarget": "a target that is not in the project was run",
    "OnlyNeeded": "a target that is neither requested nor a transitive dependency of a requested target was run",
    "ExactlyOnce": "a target was run a second time",
    "DepsFirst/weak-order": "a target was run before one of its dependencies",
    "DepsFirst/partial-order": "a target was run before one of its dependencies (dependency relation of the needed "
                               "targets is a partial, not a strict weak order)",
    "LoopIff/spurious-loop/multipath": "a dependency loop was reported although no cycle is reachable from the request "
                                       "(a target is reachable along two paths)",
    "LoopIff/spurious-loop/tree": "a dependency loop was reported although no cycle is reachable from the request",
    "LoopIff/loop-not-reported": "run() returned normally although a cycle is reachable from the request",
    "Completed": "run() returned normally before every needed target was run",
    "Outcome/exception": "run() raised an exception that is not a dependency-loop report",
}


class Engine:
    LEVEL = "model_checking"

    def run(self, ctx):
        thorough = ctx.tier == "thorough"
        ctx.rule("M: TLC enumerates every dependency graph (deps in [Target -> SUBSET Target]) on 3 targets with "
                 "self-dependencies and on 4 targets (with self-dependencies in the thorough tier) x every non-empty "
                 "request set: clauses of the declarative spec Tasks.tla, no deadlock, termination, laws; refinement "
                 "Tasks_Algo => Tasks; facts and counter-examples of the as-built transcription. "
                 "T: the real TaskRunner.run is driven (harness/c34_driver.py, stub tasks logging their target) on "
                 "every graph on <=3 targets incl. self-dependencies x every request set through 4 entry points, all "
                 "4096 graphs on 4 targets x 15 request sets, seeded samples of 4/5-target graphs"
                 + (", all 9608 isomorphism classes of graphs on 5 targets (seeded labelling) x 31 request sets"
                    if thorough else "")
                 + ", each under %d PYTHONHASHSEED values; every distinct history is validated by TLC against "
                   "Tasks.tla (each event an enabled Start/Loop/Finish). distinct = distinct (graph, request set)"
                 % (3 if thorough else 2))
        ctx.assume("the stub task (appends its target's name to a list) observes exactly when a target's tasks run")
        ctx.assume("a TaskError whose message mentions a loop/cycle is the report of a dependency loop; any other "
                   "exception is outcome 'error'")
        ctx.assume("harness/c34_driver.py builds the Project/Target objects (or the build.xml text) that the case "
                   "describes")

        finish_m = None
        if ctx.only is None:
            finish_m = start_m(ctx)
        try:
            self.conformance(ctx, thorough)
        finally:
            if finish_m:
                finish_m()

    def conformance(self, ctx, thorough):

        # ---- T: drive the implementation --------------------------------------------------
        if ctx.only is not None:
            c = ctx.only["case"]
            cases = [(c["names"], c["deps"], r["req"], r["via"]) for r in c["runs"]]
            hashseeds = sorted({r["hashseed"] for r in c["runs"]})
        else:
            cases = work_list(ctx)
            hashseeds = [0, 1 + ctx.seed % 9973] + ([2 + ctx.seed % 7919] if thorough else [])
        records = {}   # (names, deps, reqset, events, outcome) -> record
        order = []
        for hs in hashseeds:
            parts, res = drive(cases, hs, nproc=4 if len(cases) > 2000 else 1)
            for part, (out, err) in zip(parts, res):
                if out is None:
                    raise tlcmod.MachineryError("C34 driver failed (PYTHONHASHSEED=%s): %s" % (hs, err))
                for (names, deps, req, via), (events, outcome, detail) in zip(part, out):
                    ck = case_key(names, deps, req)
                    ctx.count(ck)
                    rk = (names, tuple(deps), "".join(sorted(req)), events, outcome)
                    rec = records.get(rk)
                    if rec is None:
                        rec = records[rk] = {"names": names, "deps": list(deps), "req": "".join(sorted(req)),
                                             "events": events, "outcome": outcome, "detail": detail, "runs": [],
                                             "case": ck}
                        order.append(rk)
                    if len(rec["runs"]) < 12:
                        rec["runs"].append({"req": req, "via": via, "hashseed": hs})
        recs = [records[k] for k in order]
        for r in recs[:: max(1, len(recs) // 5)]:
            ctx.sample({"case": r["case"], "events": r["events"], "outcome": r["outcome"]})
        ctx.cov["histories_by_outcome"] = {o: sum(1 for r in recs if r["outcome"] == o) for o in ("done", "loop", "error")}

        # ---- T: validate with TLC ---------------------------------------------------------
        batch = 150000
        for lo in range(0, len(recs), batch):
            self.validate(ctx, recs[lo:lo + batch])

    def validate(self, ctx, recs):
        """Encode the histories for Tasks_Trace (targets numbered 1..5, grouped by project), run TLC, map every
        violated invariant back to the history it points to (state variables g, i)."""
        num = {c: k + 1 for k, c in enumerate(ALL)}
        # negative controls (anti-vacuity, checked in every run): corrupted copies of a recorded history that the
        # specification must refuse -- last event deleted, an event duplicated, outcome flipped
        controls = []
        if ctx.only is None:
            base = next((r for r in recs if r["outcome"] == "done" and len(r["events"]) >= 2), None)
            if base:
                controls.append(dict(base, events=base["events"][:-1], control="last event deleted"))
                controls.append(dict(base, events=base["events"] + base["events"][-1], control="event duplicated"))
                controls.append(dict(base, outcome="loop", control="outcome flipped to loop"))
                controls.append(dict(base, outcome="error", control="outcome replaced by an exception"))
            base = next((r for r in recs if r["outcome"] == "loop"), None)
            if base:
                controls.append(dict(base, outcome="done", control="outcome flipped to done"))
        refused_controls = set()
        groups, index = [], {}
        for r in list(recs) + controls:
            gk = (r["names"], tuple(r["deps"]), bool(r.get("control")))
            if gk not in index:
                index[gk] = len(groups)
                groups.append({"deps": [[num[c] for c in d] for d in r["deps"]], "runs": [], "recs": []})
            grp = groups[index[gk]]
            grp["runs"].append([[num[c] for c in r["req"]], [num.get(c, 0) for c in r["events"]], r["outcome"]])
            grp["recs"].append(r)
        path = ctx.trace_file([{"deps": grp["deps"], "runs": grp["runs"]} for grp in groups])
        # (-coverage only in the thorough tier: it costs a quarter of the run; that every history was really walked
        #  through is checked below from TLC's state count)
        res = ctx.tlc("Tasks_Trace", TRACE_CFG, label="trace validation (%d histories of %d projects)" % (
            len(recs) + len(controls), len(groups)), env={"TRACE_FILE": path}, continue_=True, coverage=ctx.tier == "thorough", workers=8)
        os.unlink(path)
        ctx.cov["traces_validated_against_impl"] += len(recs)
        if ctx.tier == "thorough" and ctx.only is None and len(recs) > 1000:
            cov = tlcmod.action_coverage(res)
            taken = {a: sum(v for k, v in cov.items() if k.split(".")[-1] == a) for a in TRACE_ACTIONS}
            # TLC 1.8 attributes the successors of the three event disjuncts (TraceStart / TraceLoop / TraceDone, also
            # used under ENABLED in Reject) to one of them in its -coverage table, so the self-check is on their sum:
            # every history takes at least one event step
            if sum(taken.values()) < len(recs):
                raise tlcmod.MachineryError("trace actions taken %s for %d histories" % (taken, len(recs)))
            if any(v == 0 for v in taken.values()):
                ctx.note("per-action coverage of the trace specification as TLC reports it: %s" % taken)
        refused_at = {}
        seen = set()
        for e in res.errors:
            st = e.last
            gi, ri = st.get("g"), st.get("i")
            if e.kind != "invariant" or e.name == "DiagnosisSound" or not isinstance(gi, int) \
                    or not isinstance(ri, int) or not (1 <= gi <= len(groups)) \
                    or not (1 <= ri <= len(groups[gi - 1]["recs"])):
                raise tlcmod.MachineryError("unexpected TLC error in Tasks_Trace: %s %s\n%s\n%s" % (
                    e.kind, e.name, st, e.text[:2000]))
            if e.name == "Follows":
                why = st.get("why")
                if not why:
                    raise tlcmod.MachineryError("refused event without diagnosis in Tasks_Trace: %s" % st)
            else:
                why = e.name
            if e.name == "Follows" and isinstance(st.get("l"), int):
                refused_at[(gi, ri)] = st["l"]
            if groups[gi - 1]["recs"][ri - 1].get("control"):
                if e.name == "Follows":
                    refused_controls.add(groups[gi - 1]["recs"][ri - 1]["control"])
                continue
            if (gi, ri, why) in seen:
                continue
            seen.add((gi, ri, why))
            r = groups[gi - 1]["recs"][ri - 1]
            pos = st.get("l")
            what = "%s: graph %s, request {%s}: observed history [%s] then %s%s; refused at %s" % (
                WHAT.get(why, why), graph_text(r["names"], r["deps"]), ",".join(r["req"]),
                ",".join(r["events"]), r["outcome"], " (%s)" % r["detail"] if r["detail"] else "",
                ("event %d (start:%s)" % (pos, r["events"][pos - 1])) if isinstance(pos, int) and 1 <= pos <= len(r["events"])
                else "the outcome")
            ctx.violation("C34:%s:%s" % (why, r["case"]), what + " [clause %s]" % why.split("/")[0],
                          {"names": r["names"], "deps": r["deps"], "req": r["req"], "events": r["events"],
                           "outcome": r["outcome"], "detail": r["detail"], "runs": r["runs"], "clause": why,
                           "position": pos})
        for r in controls:
            if r["control"] not in refused_controls:
                raise tlcmod.MachineryError("negative control '%s' was not refused by Tasks_Trace (history [%s] %s of "
                                            "graph %s)" % (r["control"], ",".join(r["events"]), r["outcome"],
                                                           graph_text(r["names"], r["deps"])))
        ctx.cov["negative_controls_refused"] = ctx.cov.get("negative_controls_refused", 0) + len(controls)
        # anti-vacuity: one state per position of every history (g, i, l are part of the state): the initial state,
        # the chunks, the projects, then l = 1 .. Len(events)+2 for a history followed to its end and 1 .. l for one
        # refused at position l.  Any other count means the trace specification did not walk the histories.
        chunks = (len(groups) + TRACE_CHUNK - 1) // TRACE_CHUNK
        expected = 1 + chunks + len(groups)
        for gi, grp in enumerate(groups, 1):
            for ri, r in enumerate(grp["recs"], 1):
                expected += refused_at.get((gi, ri), len(r["events"]) + 2)
        if res.distinct != expected:
            raise tlcmod.MachineryError("Tasks_Trace explored %d states, %d expected for these histories" % (
                res.distinct, expected))
        ctx.cov["trace_states_checked"] = ctx.cov.get("trace_states_checked", 0) + expected
