"""C25 — dominator / post-dominator / reachability analyses vs. Dom.tla (idioms M + E).

Python only builds graphs, drives ppci's graph code and records what it answered; whether the
answers are right is decided by TLC against the path-based definitions of tla/Dom.tla.
"""
import itertools
import os
import sys

from harness import core

tlcmod = core.tlcmod

EVAL_CFG = """INIT Init
NEXT Next
CHECK_DEADLOCK FALSE
ALIAS Shown
INVARIANT KnownClause
INVARIANT IdomOK
INVARIANT QueriesOK
INVARIANT IntervalsOK
INVARIANT TreeOK
INVARIANT DFOK
INVARIANT CfgInfoOK
INVARIANT FpDomOK
INVARIANT PDomOK
INVARIANT IPDomOK
INVARIANT ReachOK
"""

MC_INVARIANTS = """INVARIANT TypeOK
INVARIANT LawFast
INVARIANT LawPaths
INVARIANT LawPostPaths
INVARIANT LawPartialOrder
INVARIANT LawTree
INVARIANT LawDataFlow
INVARIANT LawImmediateFromSets
INVARIANT LawDFCytron
INVARIANT LawReach
INVARIANT FPSound
INVARIANT FPComplete
INVARIANT NumParenthesis
INVARIANT NumComplete
INVARIANT DFStep
INVARIANT DFComplete
INVARIANT ReachSound
INVARIANT ReachComplete
INVARIANT LTSemi
INVARIANT LTComplete
"""
MC_CFG = """CONSTANT N = %d
CONSTANT Machines = %s
CONSTANT SelfLoops = %s
CONSTANT RefineRoot = FALSE
INIT Init
NEXT Next
CHECK_DEADLOCK FALSE
""" + MC_INVARIANTS

MC_CFG_REFINEROOT = """CONSTANT N = 3
CONSTANT Machines = TRUE
CONSTANT SelfLoops = FALSE
CONSTANT RefineRoot = TRUE
INIT Init
NEXT Next
CHECK_DEADLOCK FALSE
INVARIANT FPSound
INVARIANT FPComplete
"""

# every action of Dom_MC must be taken in the committed configuration
MC_ACTIONS = ["PickFirst", "PickRest", "FPStart", "FPRefine", "FPDone", "NumStart", "NumDiscover",
              "NumFinish", "NumDone", "DFStart", "DFVisit", "DFDone", "ReachStart", "ReachRefine",
              "ReachDone", "LTStart", "LTVisit", "LTSkip", "LTDfsDone", "LTStep", "LTFinal"]


PK = 1000  # a pair <<a, b>> travels to TLC as the number PK * a + b (Dom_Eval.Pairs)


class NonTermination(Exception):
    """Raised by the guards below when a ppci call does not come to an end."""


# Second guard besides the iteration budget of Driver.Guarded: a budget of executed jumps and
# branches inside ppci code per graph, counted with sys.monitoring (Python >= 3.12).  It is a
# count, not a clock: machine load cannot trip it.  The analyses of a graph with n nodes take
# a few thousand jumps; the budget is 2 000 000 + 20 000 * n * n.
_GUARD = {"left": 0, "armed": False, "trips": 0, "now": False, "installed": False}


def _install_guard():
    mon = getattr(sys, "monitoring", None)
    if mon is None or _GUARD["installed"]:
        return
    tool = mon.PROFILER_ID
    try:
        mon.use_tool_id(tool, "c25-guard")
    except ValueError:
        return  # somebody else profiles this process: run without the second guard
    sep = os.sep

    def on_jump(code, offset, dest):
        if (sep + "ppci" + sep) not in code.co_filename:
            return mon.DISABLE
        _GUARD["left"] -= 1
        if _GUARD["left"] < 0 and _GUARD["armed"]:
            _GUARD["now"] = True
            raise NonTermination()

    mon.register_callback(tool, mon.events.JUMP, on_jump)
    mon.register_callback(tool, mon.events.BRANCH, on_jump)
    mon.set_events(tool, mon.events.JUMP | mon.events.BRANCH)
    _GUARD["installed"] = True


def _arm(n):
    """Start the budget for one graph.  Once it is used up every further jump inside ppci raises,
    so each later ppci call on the same graph is cut short too.  After two graphs have tripped
    it in this process (violations are certain by then) the budget is a tenth."""
    _GUARD["now"] = False
    _GUARD["left"] = (2000000 + 20000 * n * n) // (1 if _GUARD["trips"] < 2 else 10)
    _GUARD["armed"] = True


def _disarm():
    _GUARD["armed"] = False
    if _GUARD["now"]:
        _GUARD["trips"] += 1


# ---------------------------------------------------------------------------
# driving ppci
# ---------------------------------------------------------------------------
class Driver:
    """Builds ppci graphs with deterministic node hashing and records the API answers."""

    def __init__(self):
        from ppci.graph import cfg, lt, digraph
        from ppci.graph.algorithm import fixed_point_dominator as fp
        from ppci.utils.collections import OrderedSet

        self.cfg, self.lt, self.fp, self.digraph = cfg, lt, fp, digraph

        class HNode(cfg.ControlFlowNode):
            # hash = node number: successor/predecessor sets iterate in an order fixed by the
            # work list (ppci's default is the object address, which changes from run to run)
            def __init__(self, graph, idx):
                self.idx = idx
                super().__init__(graph, name="n%d" % idx)

            def __hash__(self):
                return self.idx

        class HDiNode(digraph.DiNode):
            def __init__(self, graph, idx):
                self.idx = idx
                super().__init__(graph)

            def __hash__(self):
                return self.idx

        class Guarded(OrderedSet):
            """g.nodes with an iteration budget.  The fixed-point analyses sweep over all nodes
            until nothing changes; a monotone iteration needs at most n*n+1 sweeps, so a budget
            of 60*n*n+200 sweeps is never hit by a terminating implementation."""

            def __init__(self, it, budget):
                super().__init__(it)
                self.budget = budget

            def __iter__(self):
                self.budget -= 1
                if self.budget < 0:
                    raise NonTermination()
                return super().__iter__()

        self.HNode, self.HDiNode, self.Guarded = HNode, HDiNode, Guarded

    def build(self, n, edges, entry, exit_):
        g = self.cfg.ControlFlowGraph()
        nodes = [None] + [self.HNode(g, k) for k in range(1, n + 1)]
        for a, b in edges:
            g.add_edge(nodes[a], nodes[b])
        g.entry_node = nodes[entry]
        g.exit_node = nodes[exit_]
        g.nodes = self.Guarded(g.nodes, 60 * n * n + 200)
        return g, nodes


def attempt(fn):
    try:
        return fn()
    except Exception as e:  # the outcome class is part of the observation
        return {"ok": False, "exc": type(e).__name__}


def _pairs(fn, nodes, n):
    """Answers of a binary query on all ordered pairs: true pairs and raising pairs."""
    t, x = [], []
    for d in range(1, n + 1):
        for m in range(1, n + 1):
            try:
                if fn(nodes[d], nodes[m]):
                    t.append(PK * d + m)
            except NonTermination:
                raise
            except Exception:
                x.append(PK * d + m)
    return {"ok": True, "t": t, "x": x}


def _idx(idxmap, obj):
    if obj is None:
        return 0
    try:
        return idxmap.get(obj, -1)
    except TypeError:
        return -1


def _list(idxmap, d, nodes, n):
    """dict node -> node as list v[k] (0 = absent / None)."""
    return {"ok": True, "v": [_idx(idxmap, d.get(nodes[k])) for k in range(1, n + 1)]}


def _sets(idxmap, d, nodes, n):
    """dict node -> collection of nodes as list of sorted lists ([0] = key absent)."""
    out = []
    for k in range(1, n + 1):
        if nodes[k] in d:
            out.append(sorted(_idx(idxmap, y) for y in d[nodes[k]]))
        else:
            out.append([0])
    return {"ok": True, "v": out}


def observe_cfg(drv, g, nodes, n, what):
    """Observations on one ControlFlowGraph (entry/exit set) -> list of clause observations."""
    idxmap = {nodes[k]: k for k in range(1, n + 1)}
    obs = []
    if "dom" in what or "dom-" in what:
        obs.append({"cl": "idom", "impl": "cfg", "idom": attempt(lambda: {"ok": True, "v": [
            _idx(idxmap, g.get_immediate_dominator(nodes[k])) for k in range(1, n + 1)]})})
        obs.append({"cl": "queries", "dom": attempt(lambda: _pairs(g.dominates, nodes, n)),
                    "sdom": attempt(lambda: _pairs(g.strictly_dominates, nodes, n))})

        def ivs():
            out = []
            for k in range(1, n + 1):
                iv = g.tree_map[nodes[k]].interval
                out.append([-1, -1] if iv is None else [int(iv[0]), int(iv[1])])
            return {"ok": True, "v": out}

    if "dom" in what:
        obs.append({"cl": "intervals", "iv": attempt(ivs)})
        obs.append({"cl": "tree",
                    "kids": attempt(lambda: {"ok": True, "v": [
                        [_idx(idxmap, c.node) for c in g.tree_map[nodes[k]].children] for k in range(1, n + 1)]}),
                    "bu": attempt(lambda: {"ok": True, "v": [_idx(idxmap, x) for x in g.bottom_up(g.root_tree)]})})
    if "df" in what:
        def df():
            g.calculate_dominance_frontier()
            return _sets(idxmap, g.df, nodes, n)

        obs.append({"cl": "df", "df": attempt(df)})
    if "reach" in what:
        obs.append({"cl": "reach", "reach": attempt(lambda: _pairs(g.can_reach, nodes, n))})
    return obs


def observe_pdom(drv, g, nodes, n, exit_):
    idxmap = {nodes[k]: k for k in range(1, n + 1)}
    pd = attempt(lambda: _pairs(g.post_dominates, nodes, n))

    def ip():
        out = []
        for k in range(1, n + 1):
            try:
                out.append(_idx(idxmap, g.get_immediate_post_dominator(nodes[k])))
            except NonTermination:
                raise
            except Exception:
                out.append(-1)
        return {"ok": True, "v": out}

    return [{"cl": "pdom", "exit": exit_, "pd": pd}, {"cl": "ipdom", "exit": exit_, "ipdom": attempt(ip)}]


def observe_direct(drv, n, edges, entry, what):
    """lt.calculate_idom on a plain DiGraph and the fixed-point functions called directly."""
    obs = []

    def lt_direct():
        g = drv.digraph.DiGraph()
        nodes = [None] + [drv.HDiNode(g, k) for k in range(1, n + 1)]
        for a, b in edges:
            g.add_edge(nodes[a], nodes[b])
        idxmap = {nodes[k]: k for k in range(1, n + 1)}
        return _list(idxmap, drv.lt.calculate_idom(g, nodes[entry]), nodes, n)

    if "lt" in what:
        obs.append({"cl": "idom", "impl": "lt", "idom": attempt(lt_direct)})
    if "fp" not in what:
        return obs
    g, nodes = drv.build(n, edges, entry, entry)
    idxmap = {nodes[k]: k for k in range(1, n + 1)}
    box = {}

    def fpdom():
        box["dom"] = drv.fp.calculate_dominators(g.nodes, nodes[entry])
        return _sets(idxmap, box["dom"], nodes, n)

    obs.append({"cl": "fpdom", "sets": attempt(fpdom)})

    def fpidom():
        dom = box["dom"]
        sdom = {k: set(v) - {k} for k, v in dom.items()}
        return _list(idxmap, drv.fp.calculate_immediate_dominators(g.nodes, dom, sdom), nodes, n)

    if "dom" in box:
        obs.append({"cl": "idom", "impl": "fixedpoint", "idom": attempt(fpidom)})
    return obs


def graph_name(n, edges, entry):
    return "n=%d:e=%s:entry=%d" % (n, ",".join("%d>%d" % e for e in edges), entry)


ALL = ("dom", "df", "reach", "lt", "fp")


def record(drv, n, edges, entry, exits, what=ALL, name=None):
    """One graph record: the graph and every observation made on it."""
    edges = [tuple(e) for e in edges]
    name = name or graph_name(n, edges, entry)
    obs = []
    _arm(n)
    try:
        try:
            if set(what) & {"dom", "dom-", "df", "reach"}:
                g, nodes = drv.build(n, edges, entry, exits[0] if exits else entry)
                obs += observe_cfg(drv, g, nodes, n, what)
            if set(what) & {"lt", "fp"}:
                obs += observe_direct(drv, n, edges, entry, what)
            for x in exits:
                g, nodes = drv.build(n, edges, entry, x)
                obs += observe_pdom(drv, g, nodes, n, x)
        except NonTermination:
            # the jump budget ran out outside attempt(): judged as a raised computation
            obs.append({"cl": "idom", "impl": "harness-timeout", "idom": {"ok": False, "exc": "NonTermination"}})
    finally:
        _disarm()
    return finish_record(n, edges, entry, exits, obs, name)


def finish_record(n, edges, entry, exits, obs, name):
    entrypred = int(any(b == entry for a, b in edges))
    if _GUARD["now"]:
        # the jump budget ran out: what was asked after that point was not really computed
        for k, o in enumerate(obs):
            if any(isinstance(v, dict) and v.get("exc") == "NonTermination" for v in o.values()):
                obs = obs[:k + 1]
                break
    for o in obs:
        o["key"] = obs_key(o, name, entrypred, edges)
    return {"n": n, "edges": [PK * a + b for a, b in edges], "entry": entry, "exits": list(exits),
            "obs": obs, "name": name}


_DRV = None


def _worker_init():
    """Pool worker: bound the address space so that a runaway ppci call ends in MemoryError
    (recorded as the outcome) instead of the worker being killed."""
    import resource

    resource.setrlimit(resource.RLIMIT_AS, (3 << 30, 3 << 30))


def _record_chunk(specs):
    global _DRV
    if _DRV is None:
        _DRV = Driver()
        _install_guard()
    return [record(_DRV, *sp) for sp in specs]


def _pool_map(fn, items, procs=8):
    """map over worker processes; a worker that dies is a machinery failure, not a hang."""
    import multiprocessing
    from concurrent.futures import ProcessPoolExecutor
    from concurrent.futures.process import BrokenProcessPool

    try:
        with ProcessPoolExecutor(procs, mp_context=multiprocessing.get_context("fork"),
                                 initializer=_worker_init) as pool:
            return list(pool.map(fn, items))
    except BrokenProcessPool:
        raise tlcmod.MachineryError("C25: a recording worker process died")


def record_many(specs, procs=8):
    """Record a work list; big lists are split over worker processes in fixed chunks (the
    result does not depend on the number of processes)."""
    if len(specs) < 8000:
        return _record_chunk(specs)
    chunks = [specs[k:k + 500] for k in range(0, len(specs), 500)]
    return [r for ch in _pool_map(_record_chunk, chunks, procs) for r in ch]


def obs_key(o, name, entrypred, edges):
    cl = o["cl"]
    if cl == "idom":
        tag = o["impl"] + (":entrypred=%d" % entrypred if o["impl"] == "fixedpoint" else "")
    elif cl == "fpdom":
        tag = "entrypred=%d" % entrypred
    elif cl in ("pdom", "ipdom"):
        tag = "exitsucc=%d" % int(any(a == o["exit"] for a, b in edges))
    else:
        tag = ""
    return "C25:%s:%s%s%s" % (cl, tag + ":" if tag else "", name,
                              ":exit=%d" % o["exit"] if "exit" in o and cl != "cfginfo" else "")


# ---------------------------------------------------------------------------
# work lists (inputs only; nothing here says what the right answer is)
# ---------------------------------------------------------------------------
def reachable_all(n, succ, entry=1):
    seen = {entry}
    st = [entry]
    while st:
        a = st.pop()
        for b in succ[a]:
            if b not in seen:
                seen.add(b)
                st.append(b)
    return len(seen) == n


def all_rooted_digraphs(n, selfloops=True):
    """Every labelled digraph on 1..n whose nodes are all reachable from node 1 (the property's
    domain), as (edges without self loops, self-loop node list)."""
    pairs = [(a, b) for a in range(1, n + 1) for b in range(1, n + 1) if a != b]
    for mask in range(1 << len(pairs)):
        edges = [p for i, p in enumerate(pairs) if mask >> i & 1]
        succ = {k: [] for k in range(1, n + 1)}
        for a, b in edges:
            succ[a].append(b)
        if not reachable_all(n, succ):
            continue
        if not selfloops:
            yield edges, []
            continue
        for lm in range(1 << n):
            yield edges, [k + 1 for k in range(n) if lm >> k & 1]


def canonical_rooted_digraphs(n, lo=0, hi=None):
    """Loop-free digraphs on 1..n with all nodes reachable from 1, one per isomorphism class
    of relabellings that fix node 1 (the least edge mask of the class)."""
    pairs = [(a, b) for a in range(1, n + 1) for b in range(1, n + 1) if a != b]
    index = {p: i for i, p in enumerate(pairs)}
    nb = len(pairs)
    half = nb // 2
    tables = []
    for perm in itertools.permutations(range(2, n + 1)):
        m = {1: 1}
        m.update({k + 2: perm[k] for k in range(n - 1)})
        if all(m[k] == k for k in m):
            continue
        img = [index[(m[a], m[b])] for a, b in pairs]
        tl = [sum(1 << img[i] for i in range(half) if x >> i & 1) for x in range(1 << half)]
        th = [sum(1 << img[half + i] for i in range(nb - half) if x >> i & 1) for x in range(1 << (nb - half))]
        tables.append((tl, th))
    lowmask = (1 << half) - 1
    out = []
    for mask in range(lo, (1 << nb) if hi is None else hi):
        l, h = mask & lowmask, mask >> half
        if any(tl[l] | th[h] < mask for tl, th in tables):
            continue
        edges = [p for i, p in enumerate(pairs) if mask >> i & 1]
        succ = {k: [] for k in range(1, n + 1)}
        for a, b in edges:
            succ[a].append(b)
        if reachable_all(n, succ):
            out.append(edges)
    return out


def _canon_chunk(args):
    return canonical_rooted_digraphs(*args)


def random_cfg(rng, n):
    """Seeded random CFG: random spanning arborescence from node 1 plus random extra edges
    (back edges, cross edges, self loops), most nodes with out-degree <= 2 like real CFGs."""
    order = list(range(2, n + 1))
    rng.shuffle(order)
    edges = set()
    placed = [1]
    for k in order:
        edges.add((rng.choice(placed), k))
        placed.append(k)
    for _ in range(rng.randrange(0, 2 * n)):
        a = rng.randrange(1, n + 1)
        b = rng.randrange(1, n + 1)
        if rng.random() < 0.5 and sum(1 for e in edges if e[0] == a) >= 2:
            continue
        edges.add((a, b))
    return sorted(edges)


def with_exit_node(n, edges):
    """The shape ir_function_to_graph builds: an extra exit node fed by every sink."""
    x = n + 1
    srcs = {a for a, b in edges if a != b}
    return n + 1, sorted(set(edges) | {(k, x) for k in range(1, n + 1) if k not in srcs}), x


def small_specs(ctx, full):
    """All graphs on <= 4 nodes (entry 1).  idom/queries/df on every one.  Tree intervals, tree
    children/bottom_up, can_reach and lt.calculate_idom on every one (full) or on the loop-free
    ones plus one seeded self-loop variant each ("dom-" = idom and queries only).  Post-dominators with exit n -- up to renaming every (graph, entry,
    exit) with exit # entry -- on every graph whose node n is a sink, and on a seeded 1/96 sample
    of the others (exit with successors, together with exit = entry); the fixed-point dominators
    on every graph whose entry has no predecessor and on the same sample of the others."""
    specs = []
    for n in range(1, 5):
        pick = None
        for edges, loops in all_rooted_digraphs(n):
            if not loops:
                pick = ctx.rng.randrange(1, 1 << n)
                pick = [k + 1 for k in range(n) if pick >> k & 1]
            e = sorted(edges + [(k, k) for k in loops])
            sample = ctx.rng.random() < 1 / 96
            rich = full or n <= 3 or not loops or loops == pick
            what = ["dom", "df"] if rich else ["dom-", "df"]
            if rich:
                what += ["reach", "lt"]
            if n <= 3:
                what.append("fp")
                exits = sorted({1, n})
            else:
                if sample or not any(b == 1 for a, b in e):
                    what.append("fp")
                exits = [n] if not any(a == n for a, b in e) else ([n, 1] if sample else [])
            specs.append((n, e, 1, exits, tuple(what)))
    return specs


def _exits_for(rng, n, edges, p):
    """A sink as exit when there is one (the shape ppci's own CFGs have), else -- with
    probability p -- any node."""
    sinks = [k for k in range(1, n + 1) if not any(a == k for a, b in edges)]
    if sinks:
        return [rng.choice(sinks)]
    return [rng.randrange(1, n + 1)] if rng.random() < p else []


def _what_for(rng, edges, p):
    return ALL if (not any(b == 1 for a, b in edges) or rng.random() < p) else ("dom", "df", "reach", "lt")


def random_specs(ctx, count, lo, hi):
    specs = []
    for k in range(count):
        n = ctx.rng.randrange(lo, hi + 1)
        e = random_cfg(ctx.rng, n)
        if k % 2 == 0:
            n2, e2, x = with_exit_node(n, e)
            if not any(b == x for a, b in e2):
                # no sink at all: ppci's CFG then has an unreachable exit node; make one
                # random node return as well so that post-dominance is exercised
                e2 = sorted(set(e2) | {(ctx.rng.randrange(1, n + 1), x)})
            specs.append((n2, e2, 1, [x], _what_for(ctx.rng, e2, 0.1)))
        else:
            specs.append((n, e, 1, _exits_for(ctx.rng, n, e, 0.1), _what_for(ctx.rng, e, 0.1)))
    return specs


# Lengauer-Tarjan stress: link-eval only goes wrong when ancestor_with_lowest_semi compresses
# the same path more than once and the depth-first order is the unlucky one, which needs >= 6
# nodes.  Three seeded families, each graph under several relabellings (node numbers decide the
# iteration order of ppci's successor sets, hence the depth-first order; the edge insertion order
# is shuffled too).  Only lt.calculate_idom is recorded for them (one cheap observation each).
LT_WITNESS = [(1, 3), (1, 4), (3, 5), (3, 6), (6, 2), (6, 4), (4, 2), (2, 5)]  # idom(5) = 1


def chain_cfg(rng, n):
    """A long depth-first chain 1 -> 2 -> ... -> m, side nodes hanging off earlier nodes, and
    several arbitrary extra edges (forward, cross and back edges into the chain)."""
    m = rng.randrange(max(3, n // 2), n + 1)
    edges = {(k, k + 1) for k in range(1, m)}
    for k in range(m + 1, n + 1):
        edges.add((rng.randrange(1, k), k))
    for _ in range(rng.randrange(2, n + 2)):
        edges.add((rng.randrange(1, n + 1), rng.randrange(1, n + 1)))
    return sorted(edges)


def witness_cfg(rng):
    """The smallest graph on which a best[] entry must survive a second compression, varied by
    subdividing edges and adding arbitrary edges."""
    n = 6
    e = list(LT_WITNESS)
    for _ in range(rng.randrange(0, 4)):
        if rng.random() < 0.5:
            a, b = rng.choice(e)
            n += 1
            e.remove((a, b))
            e += [(a, n), (n, b)]
        else:
            e.append((rng.randrange(1, n + 1), rng.randrange(1, n + 1)))
    return n, sorted(set(e))


def relabelled(rng, n, edges, entry):
    perm = list(range(1, n + 1))
    rng.shuffle(perm)
    e = [(perm[a - 1], perm[b - 1]) for a, b in edges]
    rng.shuffle(e)
    return e, perm[entry - 1]


def lt_stress_specs(ctx, scale=1):
    rng = ctx.rng
    specs = []

    def add(n, e, labelings):
        specs.append((n, e, 1, [], ("lt",)))
        for _ in range(labelings):
            e2, ent = relabelled(rng, n, e, 1)
            specs.append((n, e2, ent, [], ("lt",)))

    add(6, sorted(LT_WITNESS), 24 * scale)
    for _ in range(150 * scale):
        n, e = witness_cfg(rng)
        add(n, e, 3)
    for _ in range(1500 * scale):
        n = rng.randrange(6, 13)
        add(n, chain_cfg(rng, n), 1)
    for _ in range(1500 * scale):
        n = rng.randrange(6, 13)
        add(n, random_cfg(rng, n), 1)
    return specs


def five_node_specs(ctx):
    nb = 20
    step = 1 << 14
    parts = _pool_map(_canon_chunk, [(5, lo, lo + step) for lo in range(0, 1 << nb, step)])
    specs = []
    for edges in (e for part in parts for e in part):
        lm = ctx.rng.randrange(0, 32) if ctx.rng.random() < 0.5 else 0
        e = sorted(edges + [(k + 1, k + 1) for k in range(5) if lm >> k & 1])
        specs.append((5, e, 1, _exits_for(ctx.rng, 5, e, 0.02), _what_for(ctx.rng, e, 0.02)))
    return specs


# ---------------------------------------------------------------------------
# CFGs of real IR functions (built the way ppci builds them)
# ---------------------------------------------------------------------------
C_SNIPPETS = {
    "loops": """
int f(int n, int *a) { int s = 0; for (int i = 0; i < n; i++) { if (a[i] < 0) continue;
  if (a[i] == 7) break; for (int j = 0; j < i; j++) { s += a[j]; if (s > 100) goto out; } } out: return s; }
int g(int x) { while (1) { x++; } return x; }
int h(int x) { do { if (x & 1) x = 3 * x + 1; else x /= 2; } while (x != 1); return x; }
void spin(int *p) { for (;;) { if (*p) *p = *p + 1; } }
""",
    "switch": """
int f(int x, int y) { switch (x) { case 1: y++; case 2: y += 2; break; case 3: return y;
  default: if (y) { y--; } else { while (x--) y += x; } } return y ? x : y; }
int g(int a, int b, int c) { if (a && b || c) { if (a) return 1; else if (b) return 2; } return a ? b : c; }
""",
    "early": """
void k(int *p, int n) { if (!p) return; for (;;) { if (n-- == 0) return; if (*p++) { continue; } else { if (n == 3) break; } } *p = 0; }
int m(int a) { int r = 0; if (a > 0) { if (a > 10) r = 1; else r = 2; } else { if (a < -10) r = 3; } return r; }
""",
    "nest": """
int f(int n) { int s = 0; for (int i = 0; i < n; i++) for (int j = 0; j < n; j++) { if (i == j) continue;
  for (int k = 0; k < n; k++) { if (k == i) break; s += k; } if (s > 1000) return s; } return s; }
int g(int x) { l1: if (x > 5) { x--; goto l2; } x++; l2: if (x < 100) goto l1; return x; }
""",
}


def ir_records(drv, names):
    import io
    import logging
    from ppci.api import c_to_ir
    from ppci.graph.domtree import CfgInfo

    logging.getLogger().addHandler(logging.NullHandler())  # front-end warnings are not our business
    recs = []
    for sn in names:
        try:
            module = c_to_ir(io.StringIO(C_SNIPPETS[sn]), "x86_64")
            functions = list(module.functions)
        except Exception as e:  # front-end trouble is not this property's business
            print("NOTE: C25 could not compile snippet %s (%s); skipped" % (sn, type(e).__name__))
            continue
        for f in functions:
            name = "fn=%s.%s" % (sn, f.name)
            g, block_map = drv.cfg.ir_function_to_graph(f)
            nodes = [None] + list(g.nodes)
            n = len(nodes) - 1
            idxmap = {nodes[k]: k for k in range(1, n + 1)}
            edges = sorted((a, idxmap[m]) for a in range(1, n + 1) for m in g.successors(nodes[a]))
            entry, exit_ = idxmap[g.entry_node], idxmap[g.exit_node]
            g.nodes = drv.Guarded(g.nodes, 60 * n * n + 200)
            _arm(n)
            try:
                try:
                    obs = observe_cfg(drv, g, nodes, n, ALL) + observe_pdom(drv, g, nodes, n, exit_)

                    def cfginfo():
                        info = CfgInfo(f)
                        imap = {nd: k for k, nd in enumerate([None] + list(info.cfg.nodes)) if k}
                        # CfgInfo builds its own graph of the same function: nodes are matched
                        # through the blocks they stand for
                        blk = {b: idxmap[block_map[b]] for b in block_map}
                        out = [[0]] * n
                        out = [list(x) for x in out]
                        for b, k in blk.items():
                            if b in info.df:
                                out[k - 1] = sorted(blk.get(y, -1) for y in info.df[b])
                        out[exit_ - 1] = []
                        return {"ok": True, "v": out}

                    obs.append({"cl": "cfginfo", "exit": exit_, "df": attempt(cfginfo)})
                except NonTermination:
                    obs = [{"cl": "idom", "impl": "harness-timeout", "idom": {"ok": False, "exc": "NonTermination"}}]
            finally:
                _disarm()
            recs.append(finish_record(n, edges, entry, [exit_], obs, name))
    return recs


# ---------------------------------------------------------------------------
# judging
# ---------------------------------------------------------------------------
def judge(ctx, recs, label):
    """Run Dom_Eval over the records and map every TLC error to (record, observation)."""
    if not recs:
        return None
    slim = [{"n": r["n"], "edges": r["edges"], "entry": r["entry"], "exits": r["exits"],
             "obs": [{k: v for k, v in o.items() if k != "key"} for o in r["obs"]]} for r in recs]
    prefix = os.path.join(ctx.workdir, "c25_%d_" % len(ctx.cov["tlc_runs"]))
    for ch in range(NCHUNKS):  # record g (0-based) is number g // NCHUNKS + 1 of chunk g % NCHUNKS + 1
        tlcmod.write_json("%s%d.json" % (prefix, ch + 1), slim[ch::NCHUNKS])
    res = ctx.tlc("Dom_Eval", EVAL_CFG, label=label, env={"TRACE_FILE": prefix}, continue_=True, workers=WORKERS,
                  coverage=False, heap="4g")
    for ch in range(NCHUNKS):
        os.unlink("%s%d.json" % (prefix, ch + 1))
    for r in recs:
        for o in r["obs"]:
            ctx.count(o["key"])
    ctx.cov["traces_validated_against_impl"] += sum(len(r["obs"]) for r in recs)
    seen = set()
    for e in res.errors:
        st = e.last
        k, ch, c = st.get("i"), st.get("chunk"), st.get("c")
        i = (k - 1) * NCHUNKS + ch if isinstance(k, int) and isinstance(ch, int) else None
        if not (isinstance(i, int) and isinstance(c, int) and 1 <= i <= len(recs) and 1 <= c <= len(recs[i - 1]["obs"])):
            raise tlcmod.MachineryError("TLC error without record index in Dom_Eval: %s\n%s" % (e, e.text[:2000]))
        if (i, c) in seen:
            continue
        seen.add((i, c))
        rec = recs[i - 1]
        o = rec["obs"][c - 1]
        ctx.violation(o["key"], "ppci's answer for clause '%s' on graph %s differs from the path-based definition "
                      "[clause %s]: %s" % (o["cl"], rec["name"], e.name, _show(o)),
                      {"graph": {k: rec[k] for k in ("n", "edges", "entry", "exits", "name")}, "observation": o,
                       "clause": e.name})
    return res


def _show(o):
    return ", ".join("%s=%s" % (k, v) for k, v in o.items() if k not in ("cl", "key"))[:300]


def judge_all(ctx, recs, label, batch=60000):
    for k in range(0, len(recs), batch):
        judge(ctx, recs[k:k + batch], "%s[%d]" % (label, k // batch) if len(recs) > batch else label)


WORKERS = 8
STOP_AFTER = 100  # unknown violations after which later (bigger) stages are skipped
NCHUNKS = 64  # = Dom_Eval.NChunks


class Engine:
    LEVEL = "model_checking"

    def run(self, ctx):
        thorough = ctx.tier == "thorough"
        _install_guard()
        drv = Driver()
        ctx.rule("M: Dom_MC enumerates every digraph on <=3 nodes (thorough: also 4 nodes; machines without self loops, laws "
                 "with) with all nodes reachable from the root and checks the laws of Dom.tla plus the algorithm machines (fixed point, "
                 "tree numbering, DF, reach, Lengauer-Tarjan) in every iteration order; E: for every graph of the work "
                 "list ppci's answers are recorded per clause (idom via cfg/lt/fixed point, dominates+strictly_dominates "
                 "on all pairs, tree intervals, tree children + bottom_up, df, calculate_dominators, post_dominates on all "
                 "pairs, immediate post-dominators, can_reach on all pairs) and judged by TLC against the path-based "
                 "definitions. Work list quick: all 39178 labelled digraphs on <=4 nodes (self loops included) for "
                 "idom/queries/intervals/tree/df, the loop-free ones plus one seeded self-loop variant each for the other "
                 "clauses (exits {1,n}), 300 seeded CFGs of 5-10 nodes, CFGs of compiled C functions, and ~6700 Lengauer-Tarjan stress "
                 "graphs of 6-12 nodes (witness family of the smallest double-compression graph, long-chain CFGs, random "
                 "CFGs; each under seeded relabellings) judged on lt.calculate_idom; thorough: can_reach/lt/"
                 "intervals/tree on all of them too, all loop-free 5-node graphs up to isomorphism fixing the entry (seeded "
                 "self loops), 8000 seeded 6-8 node and 1000 seeded 9-14 node graphs. Post-dominators: exit = node n "
                 "whenever it is a sink (exhaustive up to renaming), exits with successors and entries with predecessors "
                 "(fixed-point functions) exhaustive <=3 nodes and sampled above. distinct = distinct (clause, implementation, graph, exit)")
        ctx.assume("the harness' projection of ppci node objects to numbers 1..n and of answers to JSON is faithful")
        ctx.assume("nodes unreachable from the entry / unable to reach the exit, and can_reach(a,a) off a cycle, are "
                   "outside what the property defines and are not judged")
        if ctx.only is not None:
            return self.replay(ctx, drv)
        # ---- M ----
        runs = [(3, "TRUE", "TRUE")] + ([(4, "TRUE", "FALSE"), (4, "FALSE", "TRUE")] if thorough else [])
        for n, mach, loops in runs:
            res = ctx.tlc("Dom_MC", MC_CFG % (n, mach, loops), label="%s N=%d selfloops=%s" % ("laws+machines" if mach == "TRUE" else "laws only", n, loops),
                          workers=WORKERS, heap="4g")
            for e in res.errors:
                raise tlcmod.MachineryError("Dom_MC: the specification violates its own law %s: %s" % (e.name, e.text[:1500]))
            acts = tlcmod.action_coverage(res)
            missing = [a for a in MC_ACTIONS if not acts.get("Dom_MC." + a)] if mach == "TRUE" else []
            if missing:
                raise tlcmod.MachineryError("Dom_MC actions never taken: %s" % missing)
        if thorough:
            # the fixed-point iteration as fixed_point_dominator.py has it (the root is re-evaluated
            # like any other node) is not sound: the model shows the defect listed in known.d/C25.json
            res = ctx.tlc("Dom_MC", MC_CFG_REFINEROOT, label="fixed point with re-evaluated root (expected to fail)",
                          workers=WORKERS, heap="4g", coverage=False)
            bad = [e for e in res.errors if e.kind == "invariant" and e.name in ("FPSound", "FPComplete")]
            if not bad:
                raise tlcmod.MachineryError("Dom_MC with RefineRoot=TRUE was expected to violate FPSound")
            st = bad[0].last
            ctx.cov["tlc_runs"][-1]["errors"] = 0
            ctx.cov["tlc_runs"][-1]["expected_counterexample"] = bad[0].name
            ctx.note("model: re-evaluating the root in the fixed-point iteration violates %s, e.g. edges %s, root %s, "
                     "direction %s" % (bad[0].name, st.get("edges"), st.get("rt"), st.get("dir")))
        # ---- E ----  staged, smallest graphs first; a grossly wrong implementation is reported
        # from the first stages instead of producing hundreds of thousands of error traces
        small = small_specs(ctx, thorough)
        stages = [("<=3 nodes, seeded CFGs 5-10, compiled C",
                   lambda: record_many([sp for sp in small if sp[0] <= 3] + random_specs(ctx, 300, 5, 10))
                   + ir_records(drv, sorted(C_SNIPPETS) if thorough else ["loops", "switch"]))]
        four = [sp for sp in small if sp[0] == 4]
        stages.append(("4 nodes + Lengauer-Tarjan stress (6-12 nodes, relabelled)",
                       lambda: record_many(four) + record_many(lt_stress_specs(ctx, 4 if thorough else 1))))
        if thorough:
            stages.append(("5 nodes up to isomorphism", lambda: record_many(five_node_specs(ctx))))
            stages.append(("seeded 6-8 nodes", lambda: record_many(random_specs(ctx, 8000, 6, 8))))
            stages.append(("seeded 9-14 nodes", lambda: record_many(random_specs(ctx, 1000, 9, 14))))
        for label, make in stages:
            if len(ctx.violations) >= STOP_AFTER:
                ctx.note("more than %d violations so far: the remaining stages (from '%s') were not run" % (STOP_AFTER, label))
                break
            recs = make()
            if recs:
                r = recs[len(recs) // 2]
                ctx.sample({"graph": r["name"], "observation": {k: v for k, v in r["obs"][0].items() if k != "key"}})
            judge_all(ctx, recs, label)

    def replay(self, ctx, drv):
        case = ctx.only["case"]
        g = case["graph"]
        o = case["observation"]
        edges = [(e // PK, e % PK) for e in g["edges"]]
        exits = [o["exit"]] if "exit" in o else g.get("exits", [])
        name = None if g["name"].startswith("n=") else g["name"]
        rec = record(drv, g["n"], edges, g["entry"], exits, ALL, name)
        rec["obs"] = [x for x in rec["obs"] if x["key"] == ctx.only["key"]] or rec["obs"]
        judge(ctx, [rec], "replay")
