"""C11 — linked references resolve exactly to their symbols.

Deciding method: TLA+ specifications tla/Reloc.tla (meaning of each relocation type, from the ISA
manuals) and tla/Linker.tla (where symbols and fields end up) + TLC.
  M  Reloc_MC      the definitions of Reloc.tla checked against each other: every pattern a field can
                   hold decodes to a representable address (exhaustive for fields <= 8 (13) bits,
                   boundary patterns for the wide ones), no neighbouring displacement is accepted for
                   the same bytes, |Representable range| = number of field patterns, %hi/%lo pairs
  T  Linker_Trace  CheckValues = TRUE: links of objects made by the real assembler (one primary
                   relocation per job, its displacement steered to range boundaries / misalignment by
                   filler or by the layout's addresses; data relocations; two-object variants) are
                   validated phase by phase; at every _do_relocation the patched field must designate
                   S + A with S, P recomputed by Linker.tla, untouched bits must be preserved,
                   control-transfer instructions must still decode to a branch to the symbol, and a
                   value that does not fit must end in a failure
  T  Relax_Trace   riscv:rvc links in which do_relaxations shrinks an earlier section by 2, 4 or 6 bytes:
                   references (lui/addi %hi/%lo, auipc/addi pc-relative, data words, jal / beq) to symbols
                   in the later, moved sections and behind the shrink point must designate the symbol's
                   address in the FINAL layout (S, P recomputed by Relax.tla's RelaxWith + Linker.tla)
  E  Reloc_Eval    the same judgement for layouts whose addresses exceed TLC's integers (32-bit field
                   boundaries of x86-64 and of 32-bit absolute words), S and P recomputed with 64-bit
                   word arithmetic from the projected section addresses
"""
import random

from harness import core, objgen
from harness import project_obj as PO
from harness import tlc as tlcmod
from engines import c12

P = "C11"
ARCHS = ("x86_64", "riscv", "arm", "arm:thumb")
MC_CFG = """CONSTANTS
 MaxBits = %d
 Window = 4
INIT Init
NEXT Next
CHECK_DEADLOCK FALSE
INVARIANT DecodeFits
INVARIANT OnlyOne
INVARIANT RangeCount
INVARIANT SplitPair
"""
EVAL_CFG = """INIT Init
NEXT Next
CHECK_DEADLOCK FALSE
INVARIANT Conforms
INVARIANT NoSpuriousFailure
INVARIANT Domain
"""


def dclass(d):
    """sign and magnitude class of the displacement the generator aimed at (part of the violation key)"""
    return ("+" if d >= 0 else "-") + str(abs(d).bit_length())


def arch_tag(a):
    return "thumb" if a == "arm:thumb" else a


def gen_jobs(ctx, per_arch):
    jobs = []
    for arch in ARCHS:
        k = 0
        tries = 0
        while k < per_arch and tries < per_arch * 20:
            tries += 1
            rng = random.Random("%s:c11:%s:%d" % (ctx.seed, arch, tries))
            job = objgen.gen_reloc_job(rng, arch)
            if job is None:
                continue
            job["id"] = "%s-%d" % (arch_tag(arch), tries)
            jobs.append(job)
            k += 1
    return jobs


# ---------------------------------------------------------------------------
# wide addresses
W64 = (1 << 64) - 1


def limbs(v):
    return [((v & W64) >> (8 * i)) & 255 for i in range(8)]


WIDE_CASES = {
    # (arch, template line, type, ctl): how the value is chosen
    "x86_64": [("jmp {L}", "rel32", True), ("call {L}", "rel32", True), ("jz {L}", "rel32", True),
               ("mov rax, [{L}]", "abs32", False), ("lea rcx, [{L}]", "abs32", False), ("dcd ={L}", "absaddr32", False),
               ("mov rsi, {L}", "abs64", False), ("dq ={L}", "absaddr64", False)],
    "riscv": [("lui x5, {L}", "abs32_imm20", False), ("addi x5, x5, {L}", "abs32_imm12", False),
              ("dcd ={L}", "absaddr32", False), ("auipc x5, %pcrel_hi({L})", "rel_imm20", False),
              ("addi x5, {L}", "rel_imm12", False)],
    "arm": [("dcd ={L}", "absaddr32", False)],
}


def gen_wide_job(rng, arch):
    line, rtype, ctl = rng.choice(WIDE_CASES[arch])
    B31, B32 = 1 << 31, 1 << 32
    if rtype == "rel32":
        d = rng.choice([B31 - 1, B31 - 5, B31, B31 + 4, -B31, -B31 - 1, -B31 + 3, B32 - 1, B32, -B32, -B32 + 7,
                        3 * B31 + 8, rng.randrange(-B32, B32)])
        code = max(0, -d) + rng.choice([0x1000, 0x400000, B31, 0x7f0000000000])
        code &= ~0xf
        S = code + 1 + d + 4  # field at offset 1 (2 for jcc: corrected below by the real offset)
    else:
        top = {"abs32": [B31 - 8, B31 - 4, B31, B31 + 4, B32 - 4, B32, B32 + 4, 0xffffffff80000000, 0xffffffff7ffffffc,
                         0xfffffffffffffffc, 1 << 40],
               "absaddr32": [B31 - 4, B31, B32 - 4, B32, B32 + 8, 1 << 40, 0xfffffffc],
               "abs64": [B31, B32, 1 << 40, (1 << 63) - 8, 1 << 63, W64 - 7],
               "absaddr64": [B31, B32, 1 << 40, (1 << 63) - 8, 1 << 63, W64 - 7],
               "abs32_imm20": [0x7ffff7fc, 0x7ffff800, B31, 0xfffff7fc, 0xfffff800, 0xfffffffc, 0x80000800],
               "abs32_imm12": [0x7ffff7fc, 0x7ffff800, B31, 0xfffff7fc, 0xfffff800, 0xfffffffc, 0x80000800],
               "rel_imm20": [B31 + 0x1000, 0xfffff800, 0x80000800, 0x7ffff800],
               "rel_imm12": [B31 + 0x1000, 0xfffff800, 0x80000800, 0x7ffff800]}[rtype]
        S = rng.choice(top + [rng.randrange(B31, B32) & ~3])
        code = rng.choice([0x1000, B31 + 0x2000, 0xf0000000]) if arch != "x86_64" else rng.choice([0x1000, 0x400000])
    q = S % 4
    T = S - q
    src = ["section code", line.format(L="tgt"), "ds 4", "section t"] + (["ds %d" % q] if q else []) + [
        "tgt: dd 0x11223344"]
    try:
        obj = objgen._asm("\n".join(src) + "\n", arch)
    except Exception:
        return None
    if rtype == "rel32":
        roff = obj.relocations[0].offset
        S = code + roff + d + 4
        q = S % 4
        T = S - q
        if T < 0:
            return None
        src = ["section code", line.format(L="tgt"), "ds 4", "section t"] + (["ds %d" % q] if q else []) + [
            "tgt: dd 0x11223344"]
        obj = objgen._asm("\n".join(src) + "\n", arch)
    if T < 0 or T + 0x100 > (1 << 64) or abs(T - code) < 0x200:
        return None
    mems = [{"name": "mc", "loc": code, "size": 0x100, "ins": [{"k": "section", "name": "code", "al": 0}]},
            {"name": "mt", "loc": T, "size": 0x100, "ins": [{"k": "section", "name": "t", "al": 0}]}]
    return {"arch": arch, "objects": [obj], "lay": {"on": True, "entry": "", "mems": mems},
            "opt": {"partial": False, "entry": "", "extra": []}, "ctl": ctl,
            "aim": {"type": rtype, "d": d if rtype == "rel32" else S, "line": line}}


def wide_records(job, jid):
    """link with full-width addresses under the recorder; one record per relocation event"""
    events = []
    layout = objgen.mk_layout(job["lay"])
    objgen.run_link(job["objects"], layout, job["opt"], events)
    state = None
    recs = []
    nrel = 0
    for ev in events:
        if ev["ev"] == "relax":
            state = ev["state"]
        if state is None:
            continue
        if ev["ev"] == "reloc" or (ev["ev"] == "fail" and ev["phase"] == "reloc"):
            nrel += 1
            r = ev["r"] if ev["ev"] == "reloc" else nrel
            if not 1 <= r <= len(state["relocations"]):
                continue
            rel = state["relocations"][r - 1]
            syms = [y for y in state["symbols"] if y["id"] == rel["sym"]]
            secs = {s["name"]: s for s in state["sections"]}
            if not syms or rel["sec"] not in secs or not syms[0]["def"]:
                continue
            y = syms[0]
            size = c12.REL_SIZES.get(rel["type"], 0)
            sec = secs[rel["sec"]]
            before = (ev["before"] if ev["ev"] == "reloc" else sec["data"])
            after = ev["after"] if ev["ev"] == "reloc" else before
            recs.append({
                "key": "%s#%d" % (jid, r), "arch": job["arch"], "type": rel["type"],
                "ctl": bool(job["ctl"]) and rel["sec"] == "code",
                "symsec": limbs(secs[y["sec"]]["address"] if y["sec"] in secs else 0), "symval": limbs(y["value"]),
                "relsec": limbs(sec["address"]), "off": rel["off"], "add": limbs(rel["add"]),
                "before": before[rel["off"]:rel["off"] + size], "after": after[rel["off"]:rel["off"] + size],
                "sec": after, "ok": ev["ev"] == "reloc", "exc": ev.get("exc", ""), "aim": job["aim"]})
    return recs, events


# ---------------------------------------------------------------------------
# riscv:rvc: references across a relaxation (the resolved value is the symbol's address after every
# size-changing step)
def gen_rvc_job(rng, jid):
    from engines import c13
    from harness import rvlink

    nshrink = rng.choice([1, 2, 2, 3])              # 2, 4, 6 bytes freed in section code
    secs = ["code", "data"] + (["rodata"] if rng.random() < 0.4 else [])
    code = ["global start", "global mid", "global tbl", "global rtab", "section code", "start:"]
    refs_code = ["lui x5, tbl", "addi x5, x5, tbl", "la x7, tbl", "la x6, mid", "lui x8, mid", "addi x8, x8, mid",
                 "jal x5, mid", "beq x5, x6, mid", "la x9, dloc", "lui x5, start", "addi x5, x5, start"]
    if "rodata" in secs:
        refs_code += ["la x7, rtab", "lui x5, rtab", "addi x5, x5, rtab"]
    if rng.random() < 0.4:                          # references in front of the shrink point as well
        code += rng.sample(refs_code, rng.choice([1, 2]))
    for k in range(nshrink):
        kind = rng.choice(["cb", "cb", "cbl"])
        code.append(rvlink.cb("n%d" % k) if kind == "cb" else rvlink.cbl(1, "n%d" % k))
        if rng.random() < 0.5:
            code.append("addi x10, x10, %d" % (k + 1))
        code.append("n%d:" % k)
        code.append("addi x11, x11, 1")
    code.append("mid:")                             # behind the shrink point, in the shrunk section
    code += rng.sample(refs_code, rng.choice([2, 3, 4, 5]))
    code += ["jalr x0, x1, 0", "pool:"]
    if nshrink % 2 == 0:     # a literal pool stays word aligned only if a multiple of 4 bytes is freed in front of it
        code += ["dcd =tbl", "dcd =mid", "dcd =pool"] + (["dcd =dloc"] if rng.random() < 0.5 else [])
    else:
        code.append("addi x12, x12, 0")
    data = ["section data"] + (["dd 0x11223344"] if rng.random() < 0.6 else []) + ["tbl:", "dcd =tbl", "dcd =start",
                                                                                    "dcd =mid", "dloc:", "dcd =dloc", "dcd =pool"]
    if "rodata" in secs:
        data += ["section rodata", "rtab:", "dcd =rtab", "dcd =tbl", "dcd =mid"]
    two = rng.random() < 0.3
    if two:   # the later sections come from a second object
        scripts = [code, ["global start", "global mid", "global tbl", "global rtab", "global dloc", "global pool"] + data]
        scripts[0] = ["global dloc", "global pool"] + scripts[0]
    else:
        scripts = [code + data]
    try:
        objects = [rvlink.build_object(c13.MARCH, sc) for sc in scripts]
    except Exception:
        return None
    base = rng.choice([0x1000, 0x400, 0x20000])
    mode = rng.choice(["flat", "flat", "flat", "split", "none"])
    if mode == "flat":
        mems = [c13.mem("flash", base, 0x1000, secs)]
    elif mode == "split":
        mems = [c13.mem("flash", base, 0x800, secs[:1]), c13.mem("ram", base + 0x4000, 0x800, secs[1:])]
    lay = {"on": True, "entry": "", "mems": mems} if mode != "none" else objgen.NO_LAYOUT
    return {"id": jid, "arch": c13.MARCH, "objects": objects, "lay": lay,
            "opt": {"partial": False, "entry": "", "extra": []}, "via_text": False, "ctl": set(),
            "aim": {"type": "relaxed", "d": 2 * nshrink, "line": mode},
            "src": "\n".join("; object %d\n" % i + "\n".join(x if isinstance(x, str) else "<%s>" % x.__qualname__ for x in sc)
                              for i, sc in enumerate(scripts))}


def judge_relaxed(ctx, jobs, traces):
    """Relax_Trace over the traces; only what concerns resolved references is C11's (the relaxation step itself is
    judged by C13)"""
    from engines import c13

    path = ctx.trace_file(traces)
    res = ctx.tlc("Relax_Trace", c13.trace_cfg(), label="T: references across relaxation", env={"TRACE_FILE": path},
                  continue_=True, workers=8, timeout=3000, coverage=False)
    ctx.cov["traces_validated_against_impl"] += len(traces)
    byid = {j["id"]: j for j in jobs}
    seen = set()
    other = []
    for e in res.errors:
        st = e.last
        idx = st.get("job")
        if not isinstance(idx, int) or not 1 <= idx <= len(traces):
            raise tlcmod.MachineryError("TLC error without trace index in Relax_Trace: %s\n%s" % (e, e.text[:2000]))
        rec = traces[idx - 1]
        if e.name == "DomainR":
            raise tlcmod.MachineryError("trace %s is outside the domain of Relax_Trace (harness fault)" % rec["id"])
        if (idx, e.name) in seen or e.name == "I_AsTranscribed":
            continue
        seen.add((idx, e.name))
        why = st.get("why") or ""
        if e.name == "NotRejected" and st.get("ph") == "relocate" and why.startswith("relocation "):
            job = byid[rec["id"]]
            rtype = why.split()[1].rstrip(":")
            cls = ("unfit-linked" if "not representable" in why else "failed-though-fits" if "although its value fits" in why
                   else "wrong-field")
            if cls == "failed-though-fits":
                other.append(rec["id"])
                continue
            ctx.violation("C11:riscv-rvc:%s:%s:relaxed=%d:%s:%s" % (rtype, cls, job["aim"]["d"], job["aim"]["line"], rec["id"]),
                          "link %s (relaxation frees %d bytes of section code, layout %s): at event %s %s - the "
                          "reference is not resolved to the symbol's address in the final layout" % (
                              rec["id"], job["aim"]["d"], job["aim"]["line"], st.get("l"), why),
                          {"id": rec["id"], "clause": e.name, "why": why, "event": st.get("l"), "lay": rec["lay"],
                           "source": job["src"][:6000], "sections_after_relaxation_name_addr_align_size": st.get("secs")})
        else:
            other.append(rec["id"])       # the relaxation step / placement: property C13's verdict
    return res, other


class Engine:
    LEVEL = "model_checking"

    def run(self, ctx):
        import logging

        logging.disable(logging.CRITICAL)
        thorough = ctx.tier == "thorough"
        ctx.rule("M: Reloc.tla's Designates / Representable / FieldOK checked against each other on every field "
                 "pattern (fields <= 8 bits quick, <= 13 thorough; boundary patterns otherwise).  T: for each of "
                 "x86_64, riscv, arm, thumb: link jobs assembled by ppci.api.asm from one instruction or data "
                 "directive per relocation type (21 types) whose displacement is steered to the type's range "
                 "boundaries, just outside, the unsigned range, misaligned targets and random values, by filler "
                 "or by the layout's memory addresses; one or two objects; an extra data relocation; each link "
                 "validated phase by phase by Linker_Trace with the C11 clause on every relocation event.  E: "
                 "relocations of links with addresses >= 2^31 judged by Reloc_Eval.  distinct = distinct jobs")
        ctx.assume("field layouts and pc biases of Reloc.tla follow the ISA manuals (x86-64 SDM, RISC-V unprivileged "
                   "ISA, ARM ARM A32/T32); ppci's rel_imm12 is taken as the %pcrel_lo of the instruction that "
                   "follows its auipc")
        ctx.assume("a link that fails although the value fits its field is not a violation of C11 (counted as "
                   "spurious failure)")
        only = ctx.only["case"]["id"] if ctx.only is not None else None
        if ctx.only is None:
            res = ctx.tlc("Reloc_MC", MC_CFG % (13 if thorough else 8), label="M: Reloc laws", workers=4,
                          coverage=False, timeout=3000)
            for e in res.errors:
                raise tlcmod.MachineryError("Reloc.tla: law %s fails: %s" % (e.name, e.text[:1500]))
        # ---- T
        jobs = gen_jobs(ctx, 220 if thorough else 32)
        if only is not None:
            jobs = [j for j in jobs if j["id"] == only]
        traces = []
        aims = {}
        outcomes = {}
        for job in jobs:
            tr, out, objs = objgen.run_job(job, lambda t: c12.REL_SIZES.get(t, 0), job["id"])
            traces.append(tr)
            aims[job["id"]] = job["aim"]
            c = "%s:%s:%s" % (arch_tag(job["arch"]), job["aim"]["type"], c12.classify(tr).split(":")[0])
            outcomes[c] = outcomes.get(c, 0) + 1
            ctx.count(job["id"])
        # directly generated x86_64 objects (several sections per object, merged at offsets, rel32 with
        # addends other than -4, relocations against local / global / other-object symbols)
        for job in c12.gen_jobs(ctx, 160 if thorough else 30, seed_tag="c11gen"):
            if only is not None and job["id"] != only:
                continue
            tr, out, objs = objgen.run_job(job, lambda t: c12.REL_SIZES.get(t, 0), job["id"])
            traces.append(tr)
            aims[job["id"]] = {"type": "generated", "d": 0, "line": ""}
            ctx.count(job["id"])
        ctx.cov["outcomes_by_type"] = dict(sorted(outcomes.items()))
        for tr in traces[:: max(1, len(traces) // 3)]:
            ctx.sample({"id": tr["id"], "aim": aims[tr["id"]], "outcome": c12.classify(tr)})

        def key(rec, e):
            a = aims[rec["id"]]
            why = e.last.get("why") or ""
            cls = ("unfit-linked" if "not representable" in why else "wrong-field" if "does not designate" in why
                   else c12.slug(why) or e.name)
            return "C11:%s:%s:%s:d=%s:%s" % (arch_tag(rec["arch"]), a["type"], cls, dclass(a["d"]), rec["id"])

        spurious = []
        for part in core.chunks(traces, 600):
            _, sp = c12.judge_traces(ctx, part, True, P, "T: assembled links", key)
            spurious += sp
        # ---- T: references across relaxation (riscv:rvc)
        rjobs = []
        tries = 0
        while len(rjobs) < (150 if thorough else 24) and tries < 2000:
            tries += 1
            jid = "rvc-%d" % tries
            job = gen_rvc_job(random.Random("%s:c11rvc:%d" % (ctx.seed, tries)), jid)
            if job is not None and (only is None or jid == only):
                rjobs.append(job)
            elif job is not None and only is not None and jid != only:
                continue
        if rjobs:
            from engines import c13

            rtraces = []
            moved = 0
            for job in rjobs:
                tr, out = c13.run_trace(job)
                tr["aim"] = job["aim"]
                rtraces.append(tr)
                ctx.count(job["id"])
                moved += 1 if c13.relaxed_count(tr) > 0 else 0
            ctx.cov["rvc_links_with_shrunk_jumps"] = moved
            _, other = judge_relaxed(ctx, rjobs, rtraces)
            ctx.cov["rvc_links_refused_for_relaxation_itself_C13"] = len(other)
            if other:
                ctx.note("%d riscv:rvc links refused at the relaxation step or failing though the value fits (property "
                         "C13's verdict), e.g. %s" % (len(other), other[:3]))
        # ---- E
        recs = []
        n_wide = 240 if thorough else 45
        for arch in WIDE_CASES:
            k = 0
            tries = 0
            while k < n_wide // 3 and tries < n_wide * 10:
                tries += 1
                rng = random.Random("%s:c11w:%s:%d" % (ctx.seed, arch, tries))
                job = gen_wide_job(rng, arch)
                if job is None:
                    continue
                jid = "w-%s-%d" % (arch_tag(arch), tries)
                if only is not None and jid != only:
                    k += 1
                    continue
                rs, _ = wide_records(job, jid)
                for r in rs:
                    r["id"] = jid
                recs += rs
                ctx.count(jid)
                k += 1
        if recs:
            path = ctx.trace_file(recs)
            res = ctx.tlc("Reloc_Eval", EVAL_CFG, label="E: wide addresses", env={"TRACE_FILE": path},
                          continue_=True, workers=4, coverage=False)
            ctx.cov["traces_validated_against_impl"] += len(recs)
            seen = set()
            for e in res.errors:
                idx = e.last.get("i")
                if not isinstance(idx, int) or not 1 <= idx <= len(recs):
                    raise tlcmod.MachineryError("Reloc_Eval error without record index: %s\n%s" % (e, e.text[:1500]))
                if (idx, e.name) in seen:
                    continue
                seen.add((idx, e.name))
                r = recs[idx - 1]
                if e.name == "Domain":
                    raise tlcmod.MachineryError("record %s outside the domain of Reloc_Eval" % r["key"])
                if e.name == "NoSpuriousFailure":
                    spurious.append(r["key"])
                    continue
                ctx.violation("C11:%s:%s:wide:d=%s:%s" % (arch_tag(r["arch"]), r["type"], dclass(r["aim"]["d"]), r["id"]),
                              "relocation %s of link %s (%s, value %#x): output was produced but the field does not "
                              "designate S + A, or the value does not fit the field" % (
                                  r["type"], r["id"], r["aim"]["line"], r["aim"]["d"]),
                              {"id": r["id"], "record": {k: v for k, v in r.items() if k != "sec"}})
        ctx.cov["spurious_failures_tolerated"] = len(spurious)
        if spurious:
            ctx.note("%d links failed although the value fits its field (tolerated by C11), e.g. %s" % (
                len(spurious), spurious[:4]))
