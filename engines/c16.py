"""C16 — IR JSON serialisation round-trips (tla/IRRoundTrip*.tla + tla/IR.tla; idioms M + E + T(B)).

For every corpus module m:  m2 = from_json(to_json(m)) with the real DictWriter / DictReader.  TLC decides
(1) every structural clause of IRRoundTrip on project(m), project(m2): externals, variables and their initial
    contents, signatures, block lists, instructions (types, operators, exact constants), volatility, names,
(2) ObsPreserved of IR.tla on [m, m2] over argument vectors.
A writer/reader exception is an outcome the specification has no action for (clause ReadBack)."""
from harness import irrt


class Engine:
    LEVEL = "model_checking"

    def run(self, ctx):
        irrt.run(ctx, "C16", "json")
