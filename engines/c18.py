"""C18 — Intel HEX files written by ppci vs. IHex.tla (idioms M + T/E).

M: IHex_MC — region algebra, reference encoder, streaming reader and declarative decoder of the
   specification model-checked on a scaled-down address space, plus known-answer files with the
   real constants.
T/E: IHex_Trace — every file HexFile.save wrote is read back by the specification's reader, one
   record per state; ppci's own HexFile.load of the same text is compared with the canonical
   regions / start address computed by the specification."""
import hashlib
import io

from harness import core, recfmt

MC_CFG = """CONSTANT LoMod = %d
CONSTANT HiMod = %d
CONSTANT MaxRegs = %d
CONSTANT MaxLen = %d
CONSTANT Chunk = %d
INIT Init
NEXT Next
CHECK_DEADLOCK FALSE
INVARIANT LawMerge
INVARIANT LawCover
INVARIANT LawWellFormed
INVARIANT LawAccept
INVARIANT LawRoundTrip
INVARIANT LawCorrupt
INVARIANT LawAgree
"""
KAT_CFG = """CONSTANT LoMod = 65536
CONSTANT HiMod = 65536
CONSTANT MaxRegs = 0
CONSTANT MaxLen = 0
CONSTANT Chunk = 16
INIT InitKat
NEXT Next
CHECK_DEADLOCK FALSE
INVARIANT LawKat
INVARIANT LawCover
INVARIANT LawMerge
"""
TRACE_CFG = """CONSTANT LoMod = 65536
CONSTANT HiMod = 65536
INIT Init
NEXT Next
CHECK_DEADLOCK FALSE
INVARIANT Domain
INVARIANT Saved
INVARIANT RecordWellFormed
INVARIANT DataIsSaved
INVARIANT EachByteOnce
INVARIANT NothingAfterEof
INVARIANT EofPresent
INVARIANT AllCovered
INVARIANT StartCarried
INVARIANT DecodesToRegions
INVARIANT RoundTripRegions
INVARIANT RoundTripStart
"""
LINE_CLAUSES = {"RecordWellFormed", "DataIsSaved", "EachByteOnce", "NothingAfterEof"}
SMALL = 1500  # bytes: files up to this size are also decoded declaratively (cell sets)
STARTS = [0, 0x1234, 0, 1, 0xFFFF, 0x10000, 0x7FFFFFFF, 0x80000000, 0xFFFFFFFF, 0xABCD0000]
TOP = 1 << 32


def gap_fill(regions):
    """Input class: some region is added when data already ends at its first and begins after its
    last byte (it closes a gap exactly)."""
    for k, (a, d) in enumerate(regions):
        before = regions[:k]
        if any(b + len(e) == a for b, e in before) and any(b == a + len(d) for b, e in before):
            return True
    return False


def describe(regions, start):
    txt = ",".join("%#x+%d" % (a, len(d)) for a, d in regions)
    if len(txt) > 60:
        h = hashlib.sha1(repr([(a, bytes(d)) for a, d in regions]).encode()).hexdigest()[:8]
        txt = "%#x+%d..%d regions#%s" % (regions[0][0], len(regions[0][1]), len(regions), h)
    return "r=%s;s=%#x" % (txt, start)


def inputs(ctx):
    rng = ctx.rng
    thorough = ctx.tier == "thorough"
    out = []

    def data(n):
        return bytes(rng.getrandbits(8) for _ in range(n))

    def add(regions, start):
        regions = [(a, d) for a, d in regions]
        assert all(len(d) > 0 and 0 <= a and a + len(d) <= TOP for a, d in regions)
        out.append((regions, start))

    k = 0
    add([], 0)
    add([], 0x4000)
    # A: one region around every kind of 64 KiB boundary
    for hi in [0, 1, 2, 0x7FFF, 0x8000, 0xFFFE, 0xFFFF]:
        for lo, n in [(0, 1), (0, 30), (0, 31), (1, 61), (0xFFFF, 1), (0xFFFF, 2), (0xFFE2, 30), (0xFFE2, 31),
                      (0xFFE3, 30), (0xFFF8, 40), (0xFFF0, 16), (0xFFF0, 17), (0xFFC4, 60), (0xFFC4, 61), (0xFF00, 600)]:
            a = (hi << 16) + lo
            if a + n > TOP:
                continue
            add([(a, data(n))], STARTS[k % len(STARTS)])
            k += 1
    # B: adjacency, order of insertion, separation
    for base in [0xFFF0, 0x1FFE0, 0x7FFFFFE0, 0xFFFEFFD8]:
        sizes = [20, 30, 25]
        regs = []
        a = base
        for n in sizes:
            regs.append((a, data(n)))
            a += n
        for perm in [(0, 1, 2), (0, 2, 1), (1, 0, 2), (1, 2, 0), (2, 0, 1), (2, 1, 0)]:
            add([regs[j] for j in perm], STARTS[k % len(STARTS)])
            k += 1
        add([regs[0], regs[2]], 0)                      # a gap of 30 bytes
        add([regs[2], regs[0]], 0x100)
        add([(base, data(16)), (base + 17, data(16))], 0)   # a gap of one byte
    five = []
    a = 0x2FFA0
    for n in (31, 30, 29, 64, 7):
        five.append((a, data(n)))
        a += n
    add([five[0], five[2], five[4], five[1], five[3]], 0)
    add([five[4], five[3], five[2], five[1], five[0]], 0x2FFA0)
    add([five[0], five[4], five[2]], 0)
    add([(0x10, data(5)), (0x20010, data(33)), (0x80000010, data(64)), (0xFFFF0010, data(3))], 0x80000010)
    add([(0xFFFF0010, data(3)), (0x80000010, data(64)), (0x20010, data(33)), (0x10, data(5))], 0)
    add([(TOP - 64, data(64)), (0, data(64))], 0)       # last and first bytes of the address space
    # E: gaps that are exact multiples of 64 KiB (the 16-bit record address continues where the previous
    #    region's ended, only the extended linear address differs), regions ending exactly on a boundary
    for a0, n0 in [(0x1000, 32), (0xFFE0, 32), (0x2FFF0, 20), (0x7FFEFFFF, 1), (0x10, 61)]:
        for mult in (1, 2, 0x7FFF):
            b0 = a0 + n0 + mult * 65536
            if b0 + 40 > TOP:
                continue
            add([(a0, data(n0)), (b0, data(40))], STARTS[k % len(STARTS)])
            add([(b0, data(7)), (a0, data(n0))], 0)
            k += 1
    add([(0x1FFE0, data(32)), (0x20010, data(16))], 0)      # ends on a boundary, next starts inside that segment
    add([(0x1FFE0, data(32)), (0x30000, data(16)), (0x30020, data(1))], 0)
    # C: a region across two boundaries
    add([(0x2FFF0, data(70000))], 0x2FFF0)
    if thorough:
        add([(0x7FFF8000, data(65536))], 0)
        add([(TOP - 70000, data(70000))], 0xFFFFFFFE)
    # D: seeded random sets around random boundaries
    for _ in range(1500 if thorough else 150):
        nreg = rng.randrange(1, 6)
        hi = rng.choice([0, 1, 0x7FFF, 0x8000, 0xFFFF, rng.randrange(1 << 16), rng.randrange(1 << 16)])
        a = max(0, (hi << 16) - rng.choice([0, 1, 15, 29, 30, 31, 45, 61, 100, 300]))
        regs = []
        for _ in range(nreg):
            a += rng.choice([0, 0, 0, 1, 2, 29, 30, 65536 - 40, 65536, 131072, 65536 * rng.randrange(1, 9), rng.randrange(100), rng.randrange(1 << 18)])
            n = rng.choice([1, 2, 16, 29, 30, 31, 60, 61, rng.randrange(1, 120), rng.randrange(1, 120)])
            if a + n > TOP:
                break
            regs.append((a, data(n)))
            a += n
        if not regs:
            continue
        rng.shuffle(regs)
        add(regs, rng.choice(STARTS + [rng.getrandbits(32)]))
    return out


def drive(regions, start):
    """Build, save and reload with ppci; everything observable becomes part of the record."""
    from ppci.format.hexfile import HexFile

    text = ""
    saved = {"ok": True, "exc": ""}
    try:
        hf = HexFile()
        for a, d in regions:
            hf.add_region(a, d)
        hf.start_address = start
        f = io.StringIO()
        hf.save(f)
        text = f.getvalue()
    except Exception as e:  # the outcome is judged by the specification
        saved = {"ok": False, "exc": recfmt.exc_name(e)}
        text = ""
    loaded = {"ok": False, "exc": "", "regions": [], "start": recfmt.pair(None)}
    if saved["ok"]:
        try:
            g = HexFile.load(io.StringIO(text))
            regs = []
            for r in g.regions:
                p = recfmt.pair(r.address)
                regs.append({"hi": p["hi"], "lo": p["lo"], "data": recfmt.byte_list(r.data)})
            loaded = {"ok": True, "exc": "", "regions": regs, "start": recfmt.pair(g.start_address)}
        except Exception as e:
            loaded["exc"] = recfmt.exc_name(e)
    return text, saved, loaded


def what(f, clause, info):
    msg = {
        "Saved": "add_region/save raised %s" % f["saved"]["exc"],
        "RecordWellFormed": "record is not a well-formed Intel HEX record (syntax, byte count, checksum, type rules)",
        "DataIsSaved": "data record carries bytes that are not the saved regions' bytes at the addresses it denotes",
        "EachByteOnce": "data record writes an address that an earlier record already wrote",
        "NothingAfterEof": "record after the end-of-file record",
        "EofPresent": "no end-of-file record",
        "AllCovered": "the set of addresses written by the file is not the set of addresses of the saved regions",
        "StartCarried": "the start address %#x is not carried by a start-linear-address record" % f["input"]["start"],
        "DecodesToRegions": "the decoded memory map differs from the saved regions",
        "RoundTripRegions": "HexFile.load of the saved text does not return the merged regions (%s)" % (
            f["loaded"]["exc"] or "%d regions" % len(f["loaded"]["regions"])),
        "RoundTripStart": "HexFile.load of the saved text returns start address %s, saved %#x" % (
            f["loaded"]["start"], f["input"]["start"]),
    }.get(clause, clause)
    return "%s: %s" % (f["input"]["desc"], msg)


class Engine:
    LEVEL = "model_checking"

    def run(self, ctx):
        thorough = ctx.tier == "thorough"
        ctx.rule("M: every sequence of <= MaxRegs disjoint regions (any insertion order) over a toy address space of "
                 "HiMod segments of LoMod bytes, with/without start address, 4 encoder styles: reference encoder -> "
                 "streaming reader -> laws (round trip, well-formedness, corruption detected, streaming = declarative "
                 "decoder on the file and on all one-record deletions/duplications); known-answer files with the real "
                 "constants.  T/E: each HEX file saved by ppci.format.hexfile.HexFile (regions at every kind of 64 KiB "
                 "boundary, crossing boundaries, adjacent/separated, all insertion orders, addresses >= 2^31, up to 2^32, "
                 "start addresses, seeded random sets) read record by record by IHex.tla in TLC; distinct = distinct "
                 "(regions in insertion order, start address)")
        ctx.assume("line splitting at newlines and the encoding of characters as codes / addresses as 16-bit halves "
                   "(harness/recfmt.py) are correct")
        ctx.assume("the projection of HexFile.load's result reads region.address, region.data and start_address")
        if ctx.only is None:
            # (LoMod, HiMod, MaxRegs, MaxLen, Chunk)
            models = [(8, 2, 2, 8, 3), (4, 2, 3, 4, 3)] if thorough else [(4, 2, 2, 4, 3)]
            runs = [("laws %d segments of %d bytes, <= %d regions" % (m[1], m[0], m[2]), MC_CFG % m) for m in models]
            for label, cfg in runs + [("known-answer files", KAT_CFG)]:
                res = ctx.tlc("IHex_MC", cfg, label=label)
                for e in res.errors:
                    raise core.tlcmod.MachineryError("IHex law fails in the specification itself: %s\n%s" % (e, e.text[:1500]))
        files = []
        seen = set()
        if ctx.only is not None:   # replay: the recorded input itself, independent of tier and seed
            inp = ctx.only["case"]["input"]
            cases = [([(a, bytes.fromhex(h)) for a, h in inp["regions"]], inp["start"])]
        else:
            cases = inputs(ctx)
        for regions, start in cases:
            desc = describe(regions, start)
            key = "C18:%s:%s:{clause}:%s" % ("st" if start else "s0", "gap" if gap_fill(regions) else "seq", desc)
            if key in seen:
                continue
            seen.add(key)
            text, saved, loaded = drive(regions, start)
            lines = recfmt.split_lines(text)
            nbytes = sum(len(d) for _, d in regions)
            files.append({
                "key": key,
                "lines": [recfmt.codes(x) for x in lines],
                "regions": [dict(recfmt.pair(a), data=recfmt.byte_list(d)) for a, d in regions],
                "start": recfmt.pair(start),
                "saved": saved,
                "loaded": loaded,
                "small": nbytes <= SMALL,
                "text": lines,
                "input": {"desc": desc, "start": start,
                          "regions": [[a, bytes(d).hex()] for a, d in regions]},
            })
            ctx.count(key)
        ctx.cov["records_validated"] = sum(len(f["lines"]) for f in files)
        for f in files[:: max(1, len(files) // 4)]:
            ctx.sample({"input": f["input"]["desc"], "first_records": f["text"][:3], "records": len(f["text"])})
        recfmt.run_trace(ctx, "IHex_Trace", TRACE_CFG, files, LINE_CLAUSES, what, "files written by ppci")
