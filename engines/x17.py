"""X17 - debugger session state machine (Debugger + GdbDebugDriver / DummyDebugDriver) vs DbgSession.tla.

M: DbgSession_MC - the protocol the property describes (flags = {}) explored exhaustively, every clause an
   invariant; G: TLC -simulate behaviours of the as-built machine replayed into the real objects;
   T: directed probes and seeded random scripts; every recorded session is validated by TLC
   (DbgSession_Trace: conformance NotRejected + the clauses of the property along the session).
Python only drives the real code and records; TLC decides."""
import itertools
import logging
import os
import re

from harness import core, tlaval
from harness import tlc as tlcmod
from harness import dbg_replay as D

P = "X17"
FLAGS = ("RunAnyway", "EagerStopped", "StaleRegCache")
CLAUSES = ("ViewMatchesTarget", "CacheCoherent", "BpConsistent", "RefusedWhileRunning", "Alternation",
           "OneStopPerRun", "EventsOnce")
CONSTS = dict(nregs=3, pcs=(0, 4, 8), membase=16, memlen=2, pcres=0)


def tla_set(xs):
    return "{" + ", ".join('"%s"' % x if isinstance(x, str) else str(x) for x in xs) + "}"


def mc_cfg(flags=(), drv=("gdb",), nregs=2, pcs="PCs2", bps=(0, 4), memlen=1, maxintr=1, maxstops=1, invariants=True,
           depth=1000, constraint=False):
    out = ["CONSTANTS", " NRegs = %d" % nregs, " PCs <- %s" % pcs, " MemBase = 16", " MemLen = %d" % memlen,
           " PcRes = 0", " MaxIntr = %d" % maxintr, " MaxStops = %d" % maxstops, " MCFlags = %s" % tla_set(flags),
           ' MCDrvs = %s' % tla_set(drv), " BpAddrs = %s" % tla_set(bps), " MCBytes = {0, 1}", " MaxDepth = %d" % depth,
           "INIT Init", "NEXT Next", "CHECK_DEADLOCK FALSE"]
    if constraint:
        out.append("CONSTRAINT Bounded")
    if invariants:
        out += ["INVARIANT TypeOK"] + ["INVARIANT %s" % c for c in CLAUSES] + ["INVARIANT SyncSound", "INVARIANT AlwaysInSync"]
    return "\n".join(out) + "\n"


TRACE_CFG = "\n".join(
    ["CONSTANTS", " NRegs = 3", " PCs <- TracePCs", " MemBase = 16", " MemLen = 2", " PcRes = 0", " MaxIntr = 1000000",
     " MaxStops = 1000000", "INIT TInit", "NEXT TNext", "CHECK_DEADLOCK FALSE", "ALIAS Shown", "INVARIANT NotRejected"]
    + ["INVARIANT T_%s" % c for c in CLAUSES]) + "\n"
PROBE_CFG = "\n".join(TRACE_CFG.splitlines()[:13]) + "\n"

# directed probes: the shortest scripts on which a deviation shows
PROBES = {
    "RunAnyway": [{"a": "run"}],
    "EagerStopped": [{"a": "stop"}],
    "StaleRegCache": [{"a": "stop"}, {"a": "tintr"}, {"a": "stopthr"}, {"a": "setpc", "v": 4},
                      {"a": "wregs", "w": [8, 4, 0]}],
}
_HALT = [{"a": "stop"}, {"a": "tintr"}, {"a": "stopthr"}]
SHOW = {
    "RunAnyway": [[{"a": "run"}]],
    "EagerStopped": [[{"a": "stop"}, {"a": "tintr"}, {"a": "stopthr"}]],
    "StaleRegCache": [_HALT + [{"a": "setpc", "v": 4}, {"a": "getpc"}],
                      _HALT + [{"a": "wregs", "w": [8, 4, 0]}, {"a": "getpc"}]],
}
FLAG_WHAT = {
    "RunAnyway": "GdbDebugDriver.run() while the status is RUNNING only logs a warning: it still sends `c` and fires on_start",
    "EagerStopped": "GdbDebugDriver.stop() sets status = STOPPED when it sends 0x03, before the stop reply is consumed",
    "StaleRegCache": "register writes (P / G) leave _register_value_cache untouched: get_pc() after set_pc() / "
                     "set_registers() returns the old value",
}

# scripts written by hand: the life cycle of a session, each defect's consequences, refusals
DIRECTED = [
    [{"a": "getpc"}, {"a": "rregs"}, {"a": "rmem", "x": 16, "n": 2}, {"a": "wmem", "x": 16, "d": [7]},
     {"a": "setbp", "x": 4}, {"a": "clrbp", "x": 4}, {"a": "step"}, {"a": "restart"}, {"a": "wregs", "w": [4, 4, 4]},
     {"a": "setpc", "v": 4}],
    [{"a": "stop"}, {"a": "tintr"}, {"a": "stopthr"}, {"a": "getpc"}, {"a": "setbp", "x": 4}, {"a": "setbp", "x": 8},
     {"a": "run"}, {"a": "tbreak", "x": 4, "form": "T"}, {"a": "stopthr"}, {"a": "getpc"}, {"a": "clrbp", "x": 4},
     {"a": "step"}, {"a": "tstep", "form": "S"}, {"a": "stopthr"}, {"a": "rregs"}, {"a": "run"},
     {"a": "tbreak", "x": 8, "form": "S"}, {"a": "stopthr"}, {"a": "getpc"}, {"a": "restart"}, {"a": "stop"},
     {"a": "tintr"}, {"a": "stopthr"}, {"a": "getpc"}],
    [{"a": "stop"}, {"a": "tintr"}, {"a": "stopthr"}, {"a": "wmem", "x": 16, "d": [1, 255]}, {"a": "rmem", "x": 16, "n": 2},
     {"a": "wmem", "x": 17, "d": [9]}, {"a": "rmem", "x": 17, "n": 1}, {"a": "rmem", "x": 16, "n": 0},
     {"a": "wregs", "w": [8, 4, 8]}, {"a": "rregs"}, {"a": "getpc"}, {"a": "setpc", "v": 0}, {"a": "rregs"},
     {"a": "getpc"}, {"a": "step"}, {"a": "getpc"}, {"a": "rmem", "x": 16, "n": 1}, {"a": "tstep", "form": "T"},
     {"a": "stopthr"}, {"a": "getpc"}],
    [{"a": "stop"}, {"a": "rmem", "x": 16, "n": 1}, {"a": "step"}, {"a": "stopthr"}, {"a": "tstep", "form": "S"},
     {"a": "stopthr"}, {"a": "getpc"}],
    [{"a": "stop"}, {"a": "tintr"}, {"a": "stopthr"}, {"a": "setbp", "x": 4}, {"a": "run"},
     {"a": "tbreak", "x": 4, "form": "T"}, {"a": "run"}, {"a": "stopthr"}, {"a": "getpc"}, {"a": "stop"},
     {"a": "tintr"}, {"a": "stopthr"}],
    [{"a": "stop"}, {"a": "stop"}, {"a": "tintr"}, {"a": "stopthr"}, {"a": "stop"}, {"a": "run"}, {"a": "stop"},
     {"a": "stop"}, {"a": "run"}, {"a": "tintr"}, {"a": "stopthr"}],
]
DUMMY_ACTS = [{"a": "run"}, {"a": "stop"}, {"a": "step"}, {"a": "restart"}, {"a": "getpc"}, {"a": "rregs"},
              {"a": "rmem0", "n": 0}, {"a": "rmem0", "n": 1}, {"a": "rmem0", "n": 2}]


def record(kind, acts, flags, tid, strict=False, adaptive=False):
    try:
        evs = D.run_session(kind, acts, CONSTS, adaptive)
        if adaptive:
            acts = [{k: e[k] for k in e if k not in ("tx", "ret", "evs", "view", "tgt")} for e in evs]
    except tlcmod.MachineryError:
        raise
    except BaseException as e:  # e.g. the constructor of a changed driver raises
        evs = [dict(acts[0] if acts else {"a": "run"}, tx=[], ret={"t": "exc:session:" + type(e).__name__, "v": []},
                    evs=[], view={"status": "?", "cache": [], "reason": 0, "pcstop": 0, "q": 0},
                    tgt={"st": "?", "regs": [], "mem": [], "bps": [], "intr": 0})]
    return {"id": tid, "drv": kind, "flags": sorted(flags), "events": evs, "script": acts, "strict": strict}


def random_script(rng, n):
    """Seeded random script; the next step is chosen looking at the real objects (which target
    reactions are possible), never at an expected result."""
    s = D.Session("gdb", **CONSTS)
    acts = []
    evs = []
    pcs = CONSTS["pcs"]
    try:
        for _ in range(n):
            st = s.stub
            opts = []
            if s.stopq.items:
                opts += [{"a": "stopthr"}] * 6
            if st.intr:
                opts += [{"a": "tintr"}] * 3
            if st.st == "running":
                for b in sorted(st.bps):
                    opts += [{"a": "tbreak", "x": b, "form": rng.choice("ST")}] * 2
            if st.st == "stepping":
                opts += [{"a": "tstep", "form": rng.choice("ST")}] * 4
            a = rng.randrange(MEMLO, MEMHI)
            ln = rng.randrange(0, MEMHI - a + 1)
            opts += [{"a": "run"}, {"a": "stop"}, {"a": "stop"}, {"a": "step"}, {"a": "restart"}, {"a": "getpc"},
                     {"a": "getpc"}, {"a": "rregs"},
                     {"a": "setbp", "x": rng.choice(pcs)}, {"a": "clrbp", "x": rng.choice(pcs)},
                     {"a": "rmem", "x": a, "n": ln},
                     {"a": "wmem", "x": a, "d": [rng.randrange(256) for _ in range(max(1, ln))][: MEMHI - a]},
                     {"a": "wregs", "w": [rng.choice(pcs) for _ in range(CONSTS["nregs"])]},
                     {"a": "setpc", "v": rng.choice(pcs)}]
            act = rng.choice(opts)
            acts.append(act)
            evs.append(s.step(act))
    finally:
        s.close()
    return acts, evs


MEMLO = CONSTS["membase"]
MEMHI = CONSTS["membase"] + CONSTS["memlen"]

_STATE_SPLIT = re.compile(r"^(?:STATE_\d+ ==|State \d+:)\s*$", re.M)


def parse_states(text):
    out = []
    for p in _STATE_SPLIT.split(text)[1:]:
        p = p.split("\n=====")[0]
        blk = "\n".join(x for x in p.strip().splitlines() if not x.startswith("\\*")).strip()
        out.append(tlaval.parse_state(blk))
    return out


def simulate_scripts(ctx, flags, num, depth):
    """TLC generates behaviours of the as-built machine; returns their action scripts."""
    base = os.path.join(ctx.workdir, "sim")
    cfg = mc_cfg(flags, ("gdb",), nregs=3, pcs="PCs3", bps=(4, 8), memlen=2, maxintr=2, maxstops=2, invariants=False)
    ctx.tlc("DbgSession_MC", cfg, label="G generator (as built %s)" % ",".join(flags),
            simulate="file=%s,num=%d" % (base, num), depth=depth, seed=ctx.seed, workers=4, coverage=False)
    d = os.path.dirname(base)
    scripts = []
    for fn in sorted(f for f in os.listdir(d) if f.startswith("sim_")):
        with open(os.path.join(d, fn)) as f:
            states = parse_states(f.read())
        os.unlink(os.path.join(d, fn))
        acts = [dict(s["act"]) for s in states[1:] if isinstance(s.get("act"), dict)]
        if acts:
            scripts.append(acts)
    return scripts


def validate(ctx, traces, cfg, label):
    path = ctx.trace_file([{k: t[k] for k in ("id", "drv", "flags", "events", "strict")} for t in traces])
    res = ctx.tlc("DbgSession_Trace", cfg, label=label, env={"TRACE_FILE": path}, continue_=True, workers=4,
                  coverage=False)
    os.unlink(path)
    for e in res.errors:
        if e.kind != "invariant":
            raise tlcmod.MachineryError("DbgSession_Trace: %s\n%s" % (e, e.text[:3000]))
    ctx.cov["traces_validated_against_impl"] += len(traces)
    return res


def report(ctx, traces, res):
    seen = set()
    found = {}
    for e in res.errors:
        st = e.last
        idx, l = st.get("i"), st.get("l")
        if not isinstance(idx, int) or not 1 <= idx <= len(traces):
            raise tlcmod.MachineryError("TLC error without trace index: %s\n%s" % (e, e.text[:2000]))
        tr = traces[idx - 1]
        if e.name == "NotRejected":
            ev = tr["events"][l - 1] if 1 <= l <= len(tr["events"]) else {}
            pre = (st.get("status"), st.get("tstate"))
            key = "%s:reject:%s:%s@%s/%s:%s" % (P, tr["drv"], ev.get("a"), pre[0], pre[1],
                                                core.case_hash([tr["flags"], tr["script"][:l]])[:8])
            what = ("the real %s driver leaves the specification (flags %s) at step %d `%s`: observed tx=%s ret=%s "
                    "evs=%s view=%s target=%s; model state before: %s" % (
                        tr["drv"], tr["flags"], l, _act(ev), ev.get("tx"), ev.get("ret"), ev.get("evs"),
                        ev.get("view"), ev.get("tgt"),
                        {k: st.get(k) for k in ("status", "cache", "tstate", "tregs", "tbps", "intr", "stops")}))
        else:
            clause = e.name[2:] if e.name.startswith("T_") else e.name
            out = st.get("out") or {}
            a = (st.get("act") or {}).get("a")
            key = "%s:%s:%s@%s" % (P, clause, a, out.get("st0"))
            what = "clause %s fails after `%s` issued in status %s (step %d of %s): status=%s target=%s stops=%s " \
                   "cache=%s tregs=%s last step tx=%s evs=%s" % (
                       clause, _act(st.get("act") or {}), out.get("st0"), (l or 1) - 1, tr["id"], st.get("status"),
                       st.get("tstate"), st.get("stops"), st.get("cache"), st.get("tregs"), out.get("tx"), out.get("evs"))
        if (idx, e.name, l) in seen:
            continue
        seen.add((idx, e.name, l))
        if key in found:
            found[key][2] += 1
        else:
            found[key] = [what, {"kind": "session", "drv": tr["drv"], "flags": tr["flags"],
                                 "script": tr["script"][: (l or len(tr["script"]))], "clause": e.name}, 1]
    for key, (what, case, n) in sorted(found.items()):
        ctx.violation(key, what + (" [%d sessions]" % n if n > 1 else ""), case)


def _act(ev):
    return " ".join("%s=%s" % (k, ev[k]) for k in ("a", "x", "n", "d", "v", "w", "form") if k in ev)


def detect_flags(ctx):
    """Which as-built deviations does this tree show?  Each probe is validated by TLC under every
    subset of the flags; the tree is the subset under which every probe is accepted."""
    subsets = [tuple(f for f, b in zip(FLAGS, bits) if b) for bits in itertools.product((0, 1), repeat=len(FLAGS))]
    traces = []
    for name, acts in sorted(PROBES.items()):
        base = record("gdb", acts, (), "probe:" + name)
        for s in subsets:
            t = dict(base)
            t["flags"] = sorted(s)
            t["probe"] = name
            t["strict"] = False
            traces.append(t)
    res = validate(ctx, traces, PROBE_CFG, "T probes x flag subsets")
    rejected = {e.last.get("i") for e in res.errors}
    ok = [s for s in subsets
          if all((k + 1) not in rejected for k, t in enumerate(traces) if tuple(t["flags"]) == tuple(sorted(s)))]
    for t in traces[:: len(subsets)]:
        ctx.count("probe:" + t["probe"])
    if len(ok) == 1:
        return tuple(ok[0]), None
    # no variant of the machine explains the probes: validate under the ideal protocol, which reports them
    return (), [t for t in traces if not t["flags"]]


class Engine:
    LEVEL = "model_checking"

    def run(self, ctx):
        logging.disable(logging.CRITICAL)
        th = ctx.tier == "thorough"
        ctx.rule("M: DbgSession.tla with flags={} (the protocol of the property) explored exhaustively by TLC for "
                 "2 registers, 2 (thorough 3) code addresses, 2 breakpoint addresses, 1 memory byte, <=1 (2) interrupt "
                 "and stop reply in flight, all clauses + InSync as invariants, every action covered; the dummy driver "
                 "machine likewise.  G: TLC -simulate behaviours of the machine with the detected as-built flags, "
                 "replayed step by step into the real Debugger + GdbDebugDriver + RspHandler against the scripted stub; "
                 "T: directed probes/scripts and seeded random scripts.  Every recorded session (packets received by "
                 "the stub, return value, events, projected client and target state after every step) is validated by "
                 "TLC against DbgSession_Trace (conformance + the clauses along the session).  distinct = distinct "
                 "(driver, script).")
        ctx.assume("harness/dbg_replay.py: the scripted stub and the in-memory transport are faithful (the stub's "
                   "own projected state is validated against the model's target in every step)")
        ctx.assume("granularity: a request with a direct reply and its acknowledgement are one atomic exchange; "
                   "interleavings inside one exchange (two threads waiting on _msg_queue at once) are not explored; "
                   "the byte/ack level is C35's")
        ctx.assume("the session starts attached to a running target (the driver's initial status is RUNNING); "
                   "connect()/disconnect(), nstep, swbrkpt=True and signals other than 2 and 5 are outside the model")
        if ctx.only is not None:
            c = ctx.only.get("case") or {}
            tr = record(c.get("drv", "gdb"), c.get("script", []), c.get("flags", ()), "replay")
            report(ctx, [tr], validate(ctx, [tr], TRACE_CFG, "replay"))
            return
        # ---- M -----------------------------------------------------------------
        cfgs = [("ideal protocol, gdb + dummy", mc_cfg((), ("gdb", "dummy"), 2, "PCs3" if th else "PCs2",
                                                       (4, 8) if th else (0, 4), 1, 1, 2 if th else 1))]
        for label, cfg in cfgs:
            res = ctx.tlc("DbgSession_MC", cfg, label="M " + label, workers=8)
            for e in res.errors:
                raise tlcmod.MachineryError("the specification itself violates %s (%s): %s" % (e.name, label, e.text[:2000]))
        # ---- probes -> as-built flags ---------------------------------------------
        flags, unexplained = detect_flags(ctx)
        ctx.cov["as_built_flags"] = list(flags)
        traces = []
        if unexplained:
            traces += unexplained
        # every detected deviation is shown against the protocol of the property (flags = {}):
        # its probe, recorded from the real code, is accepted by the as-built machine and breaks a clause
        for f in flags:
            for k, acts in enumerate(SHOW[f]):
                traces.append(record("gdb", acts, flags, "show:%s:%d" % (f, k), strict=True, adaptive=True))
        for k, acts in enumerate(DIRECTED):
            traces.append(record("gdb", acts, flags, "directed:%d" % k, adaptive=True))
        # ---- G -------------------------------------------------------------------
        scripts = simulate_scripts(ctx, flags, 400 if th else 80, 40 if th else 25)
        for k, acts in enumerate(scripts):
            traces.append(record("gdb", acts, flags, "G:%d" % k))
        ctx.cov["behaviours_replayed"] = len(scripts)
        # ---- T -------------------------------------------------------------------
        for k in range(800 if th else 150):
            acts, evs = random_script(ctx.rng, ctx.rng.randrange(8, 60 if th else 40))
            traces.append({"id": "T:%d" % k, "drv": "gdb", "flags": sorted(flags), "events": evs, "script": acts,
                           "strict": False})
        for k in range(60 if th else 20):
            acts = [dict(ctx.rng.choice(DUMMY_ACTS)) for _ in range(ctx.rng.randrange(1, 12))]
            traces.append(record("dummy", acts, (), "T:dummy:%d" % k))
        for t in traces:
            ctx.count("%s:%s" % (t["drv"], core.case_hash(t["script"])))
        ctx.cov["steps_replayed"] = sum(len(t["events"]) for t in traces)
        for t in traces[:: max(1, len(traces) // 3)][:3]:
            ctx.sample({"id": t["id"], "drv": t["drv"], "flags": t["flags"],
                        "script": [_act(a) for a in t["script"][:12]],
                        "last": {k: t["events"][-1].get(k) for k in ("a", "tx", "ret", "evs", "view")} if t["events"] else None})
        report(ctx, traces, validate(ctx, traces, TRACE_CFG, "T/G sessions"))
