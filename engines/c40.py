"""C40 — ppci's x86-64 code interoperates with the System V ABI.

M: X64Abi_MC    the psABI assignment machine over every signature of 0..12 parameters over {INTEGER, SSE} (8191
                states): agreement with the closed form, register order, memory slots, alignment, determinism.
E: X64Abi_Eval  every recorded call of X86_64Arch.determine_arg_locations (all 8191 class signatures, each with
                concrete types drawn per position) and determine_rv_location (every scalar type): LocationsConform /
                ReturnLocationConforms.
T: X64Abi_Eval  native calls across the compiler boundary, both directions, for generated signatures
                (char/short/int/long/pointer/float/double, 0..12 parameters, every return type):
                  callee: gcc-compiled caller -> ppci-compiled callee (stores what it received, returns a value)
                  caller: ppci-compiled caller -> assembly "spy" callee that snapshots %rdi..%r9, %xmm0-7, the stack
                          above the return address and %rsp, and returns sentinels in %rax and %xmm0
                each call goes through an assembly trampoline that fills %rbx %rbp %r12-%r15 with sentinels and records
                them and %rsp before and after.  CallCompletes / ArgsArrive / ArgsPlaced / StackAligned / ReturnArrives /
                CalleeSavedPreserved.
"""
import io
import itertools
import logging
import random
import struct

from harness import core, native
from harness.tlc import MachineryError

logging.getLogger().addHandler(logging.NullHandler())

MC_CFG = """CONSTANT MaxParams = %d
INIT MInit
NEXT MNext
CHECK_DEADLOCK FALSE
INVARIANT TypeOK
INVARIANT MachineIsClosedForm
INVARIANT CountersAgree
INVARIANT Injective
INVARIANT RegistersInOrder
INVARIANT MemoryOnlyWhenExhausted
INVARIANT MemoryContiguous
INVARIANT ArgAreaAligned
INVARIANT Deterministic
INVARIANT ReturnRule
"""
EVAL_CFG = """INIT Init
NEXT Next
CHECK_DEADLOCK FALSE
INVARIANT LocationsConform
INVARIANT ReturnLocationConforms
INVARIANT CallCompletes
INVARIANT ArgsArrive
INVARIANT ArgsPlaced
INVARIANT StackAligned
INVARIANT ReturnArrives
INVARIANT CalleeSavedPreserved
INVARIANT LiveValuesSurvive
"""
INT_T = ["i8", "u8", "i16", "u16", "i32", "u32", "i64", "u64", "ptr"]
SSE_T = ["f32", "f64"]
CT = {"i8": "signed char", "u8": "unsigned char", "i16": "short", "u16": "unsigned short", "i32": "int",
      "u32": "unsigned int", "i64": "long", "u64": "unsigned long", "ptr": "char *", "f32": "float", "f64": "double"}
SIZE = {"i8": 1, "u8": 1, "i16": 2, "u16": 2, "i32": 4, "u32": 4, "i64": 8, "u64": 8, "ptr": 8, "f32": 4, "f64": 8}
SENT = [0x1111111111111101, 0x2222222222222202, 0x3333333333333303, 0x4444444444444404, 0x5555555555555505,
        0x6666666666666606]           # %rbx %rbp %r12 %r13 %r14 %r15 during the call
NSTACK = 12


# ---------------------------------------------------------------------------------------------------
# E: determine_arg_locations / determine_rv_location
# ---------------------------------------------------------------------------------------------------
def project_loc(loc):
    """A ppci location as data (attributes only)."""
    from ppci.arch.registers import Register
    from ppci.arch.stack import StackLocation

    if isinstance(loc, Register):
        return {"k": "reg", "name": str(loc.name), "bits": int(loc.bitsize), "off": 0, "size": 0}
    if isinstance(loc, StackLocation):
        return {"k": "mem", "name": "", "bits": 0, "off": int(loc.offset), "size": int(loc.size)}
    return {"k": "other", "name": type(loc).__name__, "bits": 0, "off": 0, "size": 0}


def loc_records(ctx, thorough):
    from ppci import ir
    from ppci.api import get_arch

    arch = get_arch("x86_64")
    rng = random.Random("%d:c40:locs" % ctx.seed)
    recs = []
    maxp = 12

    def call(tys):
        try:
            locs = arch.determine_arg_locations([getattr(ir, t) for t in tys])
            return {"ok": True, "locs": [project_loc(x) for x in locs]}
        except Exception as e:
            return {"ok": False, "locs": [], "exc": type(e).__name__}

    for n in range(0, maxp + 1):
        for classes in itertools.product("IS", repeat=n):
            # quick: every class signature of up to 8 parameters, a seeded sample of the longer ones
            if not thorough and n > 8 and rng.random() > 0.08:
                continue
            for rep in range(3 if thorough else 1):
                tys = [rng.choice(INT_T if c == "I" else SSE_T) for c in classes]
                recs.append({"kind": "locs", "key": "C40:locs:%s" % ",".join(tys), "tys": tys, "out": call(tys),
                             "memtys": []})
    # homogeneous signatures of every type (each type in every register and in memory)
    for t in INT_T + SSE_T:
        for n in (1, 6, 7, 8, 9, 10, 12):
            tys = [t] * n
            recs.append({"kind": "locs", "key": "C40:locs:%s" % ",".join(tys), "tys": tys, "out": call(tys), "memtys": []})
    for r in recs:
        # label: types of the parameters the implementation puts in memory (only used to name violation keys)
        r["memtys"] = sorted({t for t, l in zip(r["tys"], r["out"]["locs"]) if l["k"] == "mem"})
        r["key"] = "C40:locs:mem=%s:sig=%s" % ("+".join(r["memtys"]) or "-", ",".join(r["tys"]) or "void")
    for t in INT_T + SSE_T:
        try:
            out = {"ok": True, "loc": project_loc(arch.determine_rv_location(getattr(ir, t)))}
        except Exception as e:
            out = {"ok": False, "loc": project_loc(None), "exc": type(e).__name__}
        recs.append({"kind": "rv", "key": "C40:rv:%s" % t, "ty": t, "out": out})
    return recs


# ---------------------------------------------------------------------------------------------------
# T: native calls across the compiler boundary
# ---------------------------------------------------------------------------------------------------
def value_for(t, rng):
    """(C initialiser text for gcc, little-endian bytes)."""
    if t == "f64":
        v = rng.choice([1.5, -2.25, 1024.0, 0.5, -0.125, 3.0, 65536.5, -7.0]) * rng.choice([1, 2, 4, 0.5])
        return repr(v), list(struct.pack("<d", v))
    if t == "f32":
        v = rng.choice([1.5, -2.25, 1024.0, 0.5, -0.125, 3.0, 4097.0, -7.0]) * rng.choice([1, 2, 4, 0.5])
        return repr(v) + "f", list(struct.pack("<f", v))
    n = SIZE[t]
    v = rng.getrandbits(8 * n) if rng.random() < 0.7 else rng.choice([0, 1, (1 << (8 * n)) - 1, 1 << (8 * n - 1), 0x7F, 0x80])
    v &= (1 << (8 * n)) - 1
    if t == "ptr":
        return "(char *)0x%xUL" % v, list(v.to_bytes(n, "little"))
    if t[0] == "i" and v >> (8 * n - 1):
        sv = v - (1 << (8 * n))
        txt = "(-%d%s - 1)" % (-(sv + 1), "L" if n == 8 else "")
    else:
        txt = "%d%s" % (v, {"i64": "L", "u64": "UL", "u32": "U"}.get(t, ""))
    return txt, list(v.to_bytes(n, "little"))


def gen_signatures(ctx, n):
    rng = random.Random("%d:c40:sigs" % ctx.seed)
    rtys = INT_T + SSE_T + [""]
    sigs = []
    # directed: every type as 1st, 6th/7th integer (last register / first memory eightbyte), 8th/9th SSE argument
    for t in INT_T:
        sigs.append(([t], t))
        sigs.append((["i64"] * 5 + [t], "i32"))
        sigs.append((["i32"] * 6 + [t], "i64"))
        sigs.append((["i64"] * 6 + [t, "i64"], t))
    for t in SSE_T:
        sigs.append(([t], t))
        sigs.append(([t] * 8, t))
        sigs.append((["f64"] * 8 + [t], "f64"))
        sigs.append((["f64"] * 8 + [t, "i32", t], t))
    sigs.append(([], ""))
    sigs.append(([], "i32"))
    sigs.append((["i32", "f64", "i64", "f32", "ptr", "f64", "i8", "f32", "u16", "f64"], "f64"))
    sigs.append((["i64"] * 12, "i64"))
    sigs.append((["i32"] * 12, "i32"))
    sigs.append((["f64"] * 12, "f64"))
    sigs.append((["i64", "f64"] * 6, "i64"))
    while len(sigs) < n:
        k = rng.choice([0, 1, 2, 3, 4, 5, 6, 7, 8, 9, 10, 11, 12, 7, 8, 9, 10, 12])
        mix = rng.random()
        pool = (INT_T if mix < 0.25 else SSE_T if mix < 0.35 else INT_T + SSE_T + ["f64", "i32", "i64"])
        sigs.append(([rng.choice(pool) for _ in range(k)], rng.choice(rtys)))
    out = []
    for k, (tys, rty) in enumerate(sigs[:n]):
        vals = [value_for(t, rng) for t in tys]
        ret = value_for(rty, rng) if rty else None
        out.append({"k": k, "tys": tys, "rty": rty, "vals": vals, "ret": ret})
    return out


def ppci_sources(s):
    """C sources compiled by ppci: the callee (stores its parameters) and the caller (passes globals to the spy)."""
    k = s["k"]
    R = CT[s["rty"]] if s["rty"] else "void"
    ps = ", ".join("%s a%d" % (CT[t], j) for j, t in enumerate(s["tys"])) or "void"
    callee = []
    for j, t in enumerate(s["tys"]):
        callee.append("%s seen_%d_%d;" % (CT[t], k, j))
    if s["rty"]:
        callee.append("extern %s retsrc_%d;" % (R, k))
    callee.append("%s callee_%d(%s) {" % (R, k, ps))
    for j, t in enumerate(s["tys"]):
        callee.append("  seen_%d_%d = a%d;" % (k, j, j))
    if s["rty"]:
        callee.append("  return retsrc_%d;" % k)
    callee.append("}")
    caller = []
    for j, t in enumerate(s["tys"]):
        caller.append("extern %s in_%d_%d;" % (CT[t], k, j))
    caller.append("extern %s spy_%d(%s);" % (R, k, ", ".join(CT[t] for t in s["tys"]) or "void"))
    if s["rty"]:
        caller.append("%s gotc_%d;" % (R, k))
    caller.append("void caller_%d(void) {" % k)
    args = ", ".join("in_%d_%d" % (k, j) for j in range(len(s["tys"])))
    caller.append("  %sspy_%d(%s);" % ("gotc_%d = " % k if s["rty"] else "", k, args))
    caller.append("}")
    # caller through a pointer: the callee's address sits in initialised data of a unit that also calls it directly
    # (relocation of the data slot), the call is indirect, and copies of the arguments are live across it
    cp = []
    for j, t in enumerate(s["tys"]):
        cp.append("extern %s in_%d_%d;" % (CT[t], k, j))
        cp.append("%s keep_%d_%d;" % (CT[t], k, j))
    pt = ", ".join(CT[t] for t in s["tys"]) or "void"
    cp.append("extern %s spy_%d(%s);" % (R, k, pt))
    cp.append("%s (*stab_%d[1])(%s) = { spy_%d };" % (R, k, pt, k))
    if s["rty"]:
        cp.append("%s gotp_%d;" % (R, k))
    cp.append("void direct_%d(void) { spy_%d(%s); }" % (k, k, args))
    cp.append("void callerp_%d(void) {" % k)
    for j, t in enumerate(s["tys"]):
        cp.append("  %s l%d = in_%d_%d;" % (CT[t], j, k, j))
    cp.append("  %sstab_%d[0](%s);" % ("gotp_%d = " % k if s["rty"] else "", k, ", ".join("l%d" % j for j in range(len(s["tys"])))))
    for j, t in enumerate(s["tys"]):
        cp.append("  keep_%d_%d = l%d;" % (k, j, j))
    cp.append("}")
    return "\n".join(callee) + "\n", "\n".join(caller) + "\n", "\n".join(cp) + "\n"


ASM = r"""
#include <stdio.h>
#include <stdlib.h>
#include <string.h>
#include <unistd.h>
#include <sys/wait.h>
#include <sys/resource.h>
unsigned long snap_gpr[6], snap_xmm[8], snap_stack[%(nstack)d], snap_rsp, spy_rax, spy_xmm0;
unsigned long sv_before[7], sv_after[7];
__asm__(
".text\n"
".globl spy_common\n"
"spy_common:\n"
"  movq %%rdi, snap_gpr+0(%%rip)\n  movq %%rsi, snap_gpr+8(%%rip)\n  movq %%rdx, snap_gpr+16(%%rip)\n"
"  movq %%rcx, snap_gpr+24(%%rip)\n  movq %%r8, snap_gpr+32(%%rip)\n  movq %%r9, snap_gpr+40(%%rip)\n"
"  movq %%xmm0, snap_xmm+0(%%rip)\n  movq %%xmm1, snap_xmm+8(%%rip)\n  movq %%xmm2, snap_xmm+16(%%rip)\n"
"  movq %%xmm3, snap_xmm+24(%%rip)\n  movq %%xmm4, snap_xmm+32(%%rip)\n  movq %%xmm5, snap_xmm+40(%%rip)\n"
"  movq %%xmm6, snap_xmm+48(%%rip)\n  movq %%xmm7, snap_xmm+56(%%rip)\n"
"  movq %%rsp, snap_rsp(%%rip)\n"
%(stackcopy)s
/* a conforming callee may destroy every caller-saved register: do so */
"  movabsq $0x7e7e7e7e7e7e7e7e, %%r10\n  movq %%r10, %%r11\n  movq %%r10, %%rcx\n  movq %%r10, %%rdx\n"
"  movq %%r10, %%rsi\n  movq %%r10, %%rdi\n  movq %%r10, %%r8\n  movq %%r10, %%r9\n"
"  movq %%r10, %%xmm1\n  movq %%r10, %%xmm2\n  movq %%r10, %%xmm3\n  movq %%r10, %%xmm4\n  movq %%r10, %%xmm5\n"
"  movq %%r10, %%xmm6\n  movq %%r10, %%xmm7\n  movq %%r10, %%xmm8\n  movq %%r10, %%xmm9\n  movq %%r10, %%xmm10\n"
"  movq %%r10, %%xmm11\n  movq %%r10, %%xmm12\n  movq %%r10, %%xmm13\n  movq %%r10, %%xmm14\n  movq %%r10, %%xmm15\n"
"  movq spy_rax(%%rip), %%rax\n"
"  movq spy_xmm0(%%rip), %%xmm0\n"
"  ret\n"
".globl probe_call\n"
"probe_call:\n"
"  pushq %%rbx\n  pushq %%rbp\n  pushq %%r12\n  pushq %%r13\n  pushq %%r14\n  pushq %%r15\n"
"  subq $8, %%rsp\n"
"  movabsq $%(s0)d, %%rbx\n  movabsq $%(s1)d, %%rbp\n  movabsq $%(s2)d, %%r12\n"
"  movabsq $%(s3)d, %%r13\n  movabsq $%(s4)d, %%r14\n  movabsq $%(s5)d, %%r15\n"
"  movq %%rbx, sv_before+0(%%rip)\n  movq %%rbp, sv_before+8(%%rip)\n  movq %%r12, sv_before+16(%%rip)\n"
"  movq %%r13, sv_before+24(%%rip)\n  movq %%r14, sv_before+32(%%rip)\n  movq %%r15, sv_before+40(%%rip)\n"
"  movq %%rsp, sv_before+48(%%rip)\n"
"  call *%%rdi\n"
"  movq %%rbx, sv_after+0(%%rip)\n  movq %%rbp, sv_after+8(%%rip)\n  movq %%r12, sv_after+16(%%rip)\n"
"  movq %%r13, sv_after+24(%%rip)\n  movq %%r14, sv_after+32(%%rip)\n  movq %%r15, sv_after+40(%%rip)\n"
"  movq %%rsp, sv_after+48(%%rip)\n"
"  movq sv_before+48(%%rip), %%rsp\n"
"  addq $8, %%rsp\n"
"  popq %%r15\n  popq %%r14\n  popq %%r13\n  popq %%r12\n  popq %%rbp\n  popq %%rbx\n"
"  ret\n"
%(aliases)s
);
extern void probe_call(void (*fn)(void));
static void dump(const char *name, const void *p, int n) {
  const unsigned char *b = (const unsigned char *)p; int i;
  printf("D %%s ", name); for (i = 0; i < n; i++) printf("%%02x", b[i]); printf("\n");
}
"""

MAIN = r"""
struct test_t { void (*run)(void); void *present; int id; };
static struct test_t tests[] = {
%(table)s
  {0, 0, 0}
};
int main(void) {
  int t;
  for (t = 0; tests[t].run; t++) {
    if (!tests[t].present) continue;
    printf("@B %%d 0\n", tests[t].id); fflush(stdout);
    pid_t p = fork();
    if (p == 0) {
      struct rlimit rl; rl.rlim_cur = %(cpu)d; rl.rlim_max = %(cpu)d + 1; setrlimit(RLIMIT_CPU, &rl);
      rl.rlim_cur = rl.rlim_max = 0; setrlimit(RLIMIT_CORE, &rl);
      alarm(%(wall)d);
      tests[t].run(); fflush(stdout);
      _exit(0);
    }
    int ws = 0; waitpid(p, &ws, 0);
    if (WIFEXITED(ws)) printf("\n@E %%d 0 exit %%d\n", tests[t].id, WEXITSTATUS(ws));
    else printf("\n@E %%d 0 sig %%d\n", tests[t].id, WTERMSIG(ws));
    fflush(stdout);
  }
  return 0;
}
"""


def driver_texts(sigs):
    """(thunks C text - compiled with the callee-saved registers fixed, main C text)."""
    th = ["#define WEAKSYM __attribute__((weak))"]
    mn = []
    rows = []
    aliases = []
    for s in sigs:
        k = s["k"]
        R = CT[s["rty"]] if s["rty"] else "void"
        pt = ", ".join(CT[t] for t in s["tys"]) or "void"
        for j, t in enumerate(s["tys"]):
            th.append("%s in_%d_%d = %s;" % (CT[t], k, j, s["vals"][j][0]))
            th.append("extern %s seen_%d_%d WEAKSYM;" % (CT[t], k, j))
        if s["rty"]:
            th.append("%s retsrc_%d = %s;" % (R, k, s["ret"][0]))
            th.append("%s got_%d;" % (R, k))
            th.append("extern %s gotc_%d WEAKSYM;" % (R, k))
        th.append("extern %s callee_%d(%s) WEAKSYM;" % (R, k, pt))
        th.append("extern void caller_%d(void) WEAKSYM;" % k)
        th.append("extern void callerp_%d(void) WEAKSYM;" % k)
        args = ", ".join("in_%d_%d" % (k, j) for j in range(len(s["tys"])))
        th.append("void thunk_%d(void) { %scallee_%d(%s); }" % (k, "got_%d = " % k if s["rty"] else "", k, args))
        aliases.append('".globl spy_%d\\n.set spy_%d, spy_common\\n"' % (k, k))
        # main-side test functions
        for j, t in enumerate(s["tys"]):
            mn.append("extern %s seen_%d_%d WEAKSYM;" % (CT[t], k, j))
        if s["rty"]:
            mn.append("extern %s got_%d; extern %s gotc_%d WEAKSYM;" % (R, k, R, k))
        mn.append("extern void thunk_%d(void); extern void caller_%d(void) WEAKSYM; extern %s callee_%d(%s) WEAKSYM;" % (
            k, k, R, k, pt))
        mn.append("extern void callerp_%d(void) WEAKSYM;" % k)
        for j, t in enumerate(s["tys"]):
            mn.append("extern %s keep_%d_%d WEAKSYM;" % (CT[t], k, j))
        if s["rty"]:
            mn.append("extern %s gotp_%d WEAKSYM;" % (R, k))
        body = ["static void test_callee_%d(void) {" % k, "  probe_call(thunk_%d);" % k]
        for j, t in enumerate(s["tys"]):
            body.append('  dump("seen%d", &seen_%d_%d, %d);' % (j, k, j, SIZE[t]))
        if s["rty"]:
            body.append('  dump("got", &got_%d, %d);' % (k, SIZE[s["rty"]]))
        body.append('  dump("before", sv_before, 56); dump("after", sv_after, 56);')
        body.append("}")
        body.append("static void test_caller_%d(void) {" % k)
        body.append("  spy_rax = 0x%xUL; spy_xmm0 = 0x%xUL;" % (s["spy"][0], s["spy"][1]))
        body.append("  probe_call(caller_%d);" % k)
        body.append('  dump("gpr", snap_gpr, 48); dump("xmm", snap_xmm, 64); dump("stack", snap_stack, %d); dump("rsp", &snap_rsp, 8);' % (8 * NSTACK))
        if s["rty"]:
            body.append('  dump("got", &gotc_%d, %d);' % (k, SIZE[s["rty"]]))
        body.append('  dump("before", sv_before, 56); dump("after", sv_after, 56);')
        body.append("}")
        body.append("static void test_callerp_%d(void) {" % k)
        body.append("  spy_rax = 0x%xUL; spy_xmm0 = 0x%xUL;" % (s["spy"][0], s["spy"][1]))
        body.append("  probe_call(callerp_%d);" % k)
        body.append('  dump("gpr", snap_gpr, 48); dump("xmm", snap_xmm, 64); dump("stack", snap_stack, %d); dump("rsp", &snap_rsp, 8);' % (8 * NSTACK))
        if s["rty"]:
            body.append('  dump("got", &gotp_%d, %d);' % (k, SIZE[s["rty"]]))
        for j, t in enumerate(s["tys"]):
            body.append('  dump("keep%d", &keep_%d_%d, %d);' % (j, k, j, SIZE[t]))
        body.append('  dump("before", sv_before, 56); dump("after", sv_after, 56);')
        body.append("}")
        mn += body
        rows.append("  {test_callee_%d, (void *)callee_%d, %d}," % (k, k, 3 * k))
        rows.append("  {test_caller_%d, (void *)caller_%d, %d}," % (k, k, 3 * k + 1))
        rows.append("  {test_callerp_%d, (void *)callerp_%d, %d}," % (k, k, 3 * k + 2))
    stackcopy = "".join('"  movq %d(%%rsp), %%rax\\n  movq %%rax, snap_stack+%d(%%rip)\\n"\n' % (8 + 8 * j, 8 * j)
                        for j in range(NSTACK))
    head = ASM % dict({"s%d" % j: v for j, v in enumerate(SENT)}, nstack=NSTACK, stackcopy=stackcopy,
                      aliases="\n".join(aliases))
    main = "#define WEAKSYM __attribute__((weak))\n" + head + "\n".join(mn) + \
        MAIN % {"table": "\n".join(rows), "cpu": native.CHILD_CPU_S, "wall": native.CHILD_WALL_S}
    return "\n".join(th) + "\n", main


def compile_c(src, level=0):
    """ppci: C -> relocatable ELF bytes, or the exception class name."""
    from ppci import api

    try:
        obj = native.limited(lambda: api.cc(io.StringIO(src), "x86_64", opt_level=level), native.COMPILE_LIMIT_S, "x86_64 cc")
    except Exception as e:
        return None, "error:codegen:" + type(e).__name__
    try:
        return native.elf_bytes(obj), None
    except Exception as e:
        return None, "error:elf-writer:" + type(e).__name__


FIXED = ["-O1", "-fomit-frame-pointer", "-ffixed-rbx", "-ffixed-rbp", "-ffixed-r12", "-ffixed-r13", "-ffixed-r14", "-ffixed-r15"]


def parse_dump(lines):
    d = {}
    for ln in lines:
        p = ln.split(" ")
        if len(p) == 3 and p[0] == "D":
            d[p[1]] = [int(p[2][j:j + 2], 16) for j in range(0, len(p[2]), 2)]
    return d


def words8(b):
    return [b[j:j + 8] for j in range(0, len(b), 8)]


def run_native(ctx, sigs):
    """Build and run; -> records of kind callee / caller."""
    import os
    import re
    from concurrent.futures import ThreadPoolExecutor

    rng = random.Random("%d:c40:spy" % ctx.seed)
    for s in sigs:
        s["spy"] = (rng.getrandbits(64) | 0x0101010101010101, int.from_bytes(struct.pack("<d", 2.5 * rng.randrange(1, 100)), "little")
                    if s["rty"] != "f32" else int.from_bytes(struct.pack("<f", 0.5 * rng.randrange(1, 100)), "little") | (0x7A7A7A7A << 32))
    built = {}
    for s in sigs:
        ce, cr, cp = ppci_sources(s)
        lv = 2 if s["k"] % 2 else 0          # odd signatures at -O2, even ones at -O0
        built[(s["k"], "callee")] = compile_c(ce, lv) + (ce,)
        built[(s["k"], "caller")] = compile_c(cr, lv) + (cr,)
        # always optimised: the copies of the arguments must live in registers across the indirect call
        built[(s["k"], "callerp")] = compile_c(cp, 2) + (cp,)
    recs = []
    with native.Workdir() as wd:
        pool = ThreadPoolExecutor(native.THREADS)
        jobs = []
        B = 40
        for b0 in range(0, len(sigs), B):
            jobs.append(pool.submit(_run_batch, wd, sigs[b0:b0 + B], built))
        outs = {}
        for j in jobs:
            outs.update(j.result())
        pool.shutdown()
    for s in sigs:
        for d, kind in ((0, "callee"), (1, "caller"), (2, "callerp")):
            elf, err, src = built[(s["k"], kind)]
            lines, how, code = outs.get(3 * s["k"] + d, ([], "none", 0))
            dd = parse_dump(lines)
            if elf is None:
                outcome = err
            elif how == "sig":
                outcome = "error:" + native._SIGNAMES.get(code, "SIG%d" % code)
            elif how == "none":
                outcome = "error:no-report"
            elif how == "link":
                outcome = "error:link"
            elif code != 0 or "before" not in dd or "after" not in dd:
                outcome = "error:exit-%d" % code
            else:
                outcome = "ok"
            passed = [v[1] for v in s["vals"]]
            r = {"kind": "caller" if kind == "callerp" else kind, "via": "pointer" if kind == "callerp" else "direct",
                 "sig": s, "tys": s["tys"], "rty": s["rty"], "outcome": outcome, "passed": passed,
                 "before": words8(dd.get("before", [])), "after": words8(dd.get("after", [])),
                 "got": dd.get("got", []), "src": src}
            if kind == "callee":
                r["seen"] = [dd.get("seen%d" % j, []) for j in range(len(s["tys"]))]
                r["retv"] = s["ret"][1] if s["rty"] else []   # a value of the return type: compared at that width
            else:
                rsp = int.from_bytes(bytes(dd.get("rsp", [0] * 8)), "little")
                r["snap"] = {"gpr": words8(dd.get("gpr", [])), "xmm": words8(dd.get("xmm", [])),
                             "stack": words8(dd.get("stack", [])), "rsp16": (rsp + 8) % 16 if "rsp" in dd else -1}
                r["retv"] = list(s["spy"][1 if s["rty"] in SSE_T else 0].to_bytes(8, "little")) if s["rty"] else []
                if kind == "callerp":
                    r["kept"] = [dd.get("keep%d" % j, []) for j in range(len(s["tys"]))]
            recs.append(r)
    return recs


def _run_batch(wd, sigs, built):
    import os

    thunks, main = driver_texts(sigs)
    try:
        o1 = native.gcc_compile(wd, thunks, flags=FIXED)
        o2 = native.gcc_compile(wd, main, flags=("-O0",))
    except native.HarnessError as e:
        raise MachineryError(str(e))
    members = []
    for s in sigs:
        for d, kind in ((0, "callee"), (1, "caller"), (2, "callerp")):
            elf = built[(s["k"], kind)][0]
            if elf is not None:
                members.append((3 * s["k"] + d, elf))
    return _link_run(wd, [o1, o2], members)


def _link_run(wd, base, members):
    import os

    paths = []
    for tid, elf in members:
        p = wd.file(".o")
        with open(p, "wb") as f:
            f.write(elf)
        paths.append(p)
    exe, err = native.gcc_link(wd, base + paths)
    if exe is None:
        alone, err0 = native.gcc_link(wd, base)     # must link without any ppci object (weak references)
        if alone is None:
            raise MachineryError("gcc cannot link the driver by itself: %s" % err0[:1500])
        os.unlink(alone)
        if len(members) <= 1:
            return {tid: ([], "link", 0) for tid, _ in members}
        h = len(members) // 2
        out = _link_run(wd, base, members[:h])
        out.update(_link_run(wd, base, members[h:]))
        return out
    rc, out, _ = native.run_cmd([exe], timeout=max(120, 3 * len(members)))
    res = {}
    cur, lines = None, []
    for ln in out.decode("latin-1").split("\n"):
        if ln.startswith("@B "):
            cur, lines = int(ln.split()[1]), []
        elif ln.startswith("@E ") and cur is not None:
            p = ln.split()
            res[cur] = (lines, p[3], int(p[4]))
            cur = None
        elif cur is not None:
            lines.append(ln)
    for tid, _ in members:
        res.setdefault(tid, ([], "none", 0))
    return res


def call_key(r):
    s = r["sig"]
    # label: parameter types for which the implementation's own location is a stack slot (names the key only)
    return "C40:call:%s:mem=%s:sig=%s:ret=%s" % (r["kind"] + ("-via-pointer" if r.get("via") == "pointer" else ""), "+".join(r.get("memtys", [])) or "-", ",".join(s["tys"]) or "void",
                                                s["rty"] or "void")


def mem_label(tys):
    from ppci import ir
    from ppci.api import get_arch
    from ppci.arch.stack import StackLocation

    try:
        locs = get_arch("x86_64").determine_arg_locations([getattr(ir, t) for t in tys])
        return sorted({t for t, l in zip(tys, locs) if isinstance(l, StackLocation)})
    except Exception:
        return ["?"]


class Engine:
    LEVEL = "model_checking"

    def run(self, ctx):
        thorough = ctx.tier == "thorough"
        ctx.rule("M: X64Abi assignment machine over all 8191 signatures of 0..12 parameters over {INTEGER, SSE}.  E: "
                 "determine_arg_locations on each of those class signatures with concrete types drawn per position (1 draw "
                 "quick, 3 thorough) + homogeneous signatures of every type + determine_rv_location of every type.  T: native "
                 "calls gcc->ppci and ppci->spy for directed + seeded random signatures (0..12 parameters of char/short/int/"
                 "long/pointer/float/double, every return type), one record per (signature, direction); distinct = distinct "
                 "records")
        ctx.assume("gcc 12 is a System V ABI conforming compiler; the assembly spy / trampoline in engines/c40.py record "
                   "registers faithfully; float values are exactly representable and compared as bit patterns")
        only = (ctx.only or {}).get("key")
        if ctx.only is not None:
            thorough = ctx.only.get("tier", ctx.tier) == "thorough"      # rebuild the corpus of the tier that found it
        if ctx.only is None:
            maxp = 12 if thorough else 10
            res = ctx.tlc("X64Abi_MC", MC_CFG % maxp, label="psABI assignment machine, all signatures <= %d" % maxp, workers=4)
            for e in res.errors:
                raise MachineryError("X64Abi law fails in the specification itself: %s\n%s" % (e, e.text[:1500]))
            if res.distinct != 2 ** (maxp + 1) - 1:
                raise MachineryError("X64Abi_MC explored %d signatures, expected %d" % (res.distinct, 2 ** (maxp + 1) - 1))
        import time
        t0 = time.time()
        recs = loc_records(ctx, thorough)
        sigs = gen_signatures(ctx, 400 if thorough else 80)
        t1 = time.time()
        calls = run_native(ctx, sigs)
        ctx.cov["wall_locs_s"] = round(t1 - t0, 1)
        ctx.cov["wall_native_s"] = round(time.time() - t1, 1)
        for r in calls:
            r["memtys"] = mem_label(r["tys"])
            r["key"] = call_key(r)
        ctx.cov["native_outcomes"] = {}
        for r in calls:
            ctx.cov["native_outcomes"][r["outcome"]] = ctx.cov["native_outcomes"].get(r["outcome"], 0) + 1
        allrecs = recs + [{k: v for k, v in r.items() if k not in ("sig", "src", "via")} for r in calls]
        meta = recs + calls
        if only:
            keep = [j for j, r in enumerate(meta) if r["key"] == only]
            allrecs = [allrecs[j] for j in keep]
            meta = [meta[j] for j in keep]
        for r in meta:
            ctx.count(r["key"])
        for r in calls[:: max(1, len(calls) // 3)][:3]:
            ctx.sample({"key": r["key"], "outcome": r["outcome"], "passed": r["passed"][:3]})
        ctx.cov["signatures_called_natively"] = len(sigs)
        ctx.cov["location_records"] = len(recs)

        def what(rec, e):
            hx = lambda ws: [bytes(reversed(w)).hex() for w in ws] if isinstance(ws, list) else ws
            if rec["kind"] == "locs":
                return "determine_arg_locations(%s) = %s" % (",".join(rec["tys"]), [
                    (l["name"] if l["k"] == "reg" else "%s[rbp+%d,%d bytes]" % (l["k"], l["off"], l["size"])) for l in rec["out"]["locs"]]
                    if rec["out"]["ok"] else rec["out"].get("exc"))
            if rec["kind"] == "rv":
                return "determine_rv_location(%s) = %s" % (rec["ty"], rec["out"])
            if rec["outcome"] != "ok":
                return "%s call with signature (%s) -> %s: %s" % (rec["kind"], ",".join(rec["tys"]), rec["rty"] or "void", rec["outcome"])
            return "%s call (%s) -> %s: passed=%s seen=%s got=%s returned=%s callee-saved before=%s after=%s%s" % (
                rec["kind"], ",".join(rec["tys"]), rec["rty"] or "void", hx(rec["passed"]), hx(rec.get("seen", [])),
                bytes(reversed(rec["got"])).hex(), bytes(reversed(rec["retv"])).hex(), hx(rec["before"]), hx(rec["after"]),
                (" snapshot gpr=%s xmm=%s stack=%s (rsp+8)%%16=%s" % (hx(rec["snap"]["gpr"]), hx(rec["snap"]["xmm"]),
                                                                     hx(rec["snap"]["stack"]), rec["snap"]["rsp16"])) if "snap" in rec else "")

        core.eval_records(ctx, "X64Abi_Eval", EVAL_CFG, allrecs, keyfn=lambda r: r["key"], whatfn=what, workers=4)
        import gc

        gc.collect()
        gc.freeze()
