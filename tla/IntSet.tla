------------------------------ MODULE IntSet ------------------------------
(* Sets of integers stored as lists of closed ranges <<lo, hi>> (property   *)
(* C33; implementation: ppci/utils/integer_set.py, class IntegerSet).       *)
(*                                                                          *)
(* Part 1  denotation: a range list denotes the set of integers it covers;  *)
(*         union, intersection, difference, symmetric difference,           *)
(*         membership, iteration and cardinality are the operations of      *)
(*         ordinary set theory on the denoted sets; the canonical form of a *)
(*         set is its list of maximal runs (sorted, disjoint, non-adjacent).*)
(* Part 2  the same judgement for integers too large / ranges too long to   *)
(*         enumerate: two range lists denote the same set iff they agree on *)
(*         the critical points (range ends and their neighbours).  Generic  *)
(*         in the order (Le, Succ, Pred), instantiated for TLC integers     *)
(*         (IntSet_MC proves it equivalent to Part 1 on a small universe)   *)
(*         and for unbounded integers (sign + limbs in base Base).          *)
(* Part 3  Allowed(r): the judgement of one recorded call.                  *)
EXTENDS Integers, Sequences, FiniteSets, SequencesExt, FiniteSetsExt
CONSTANT Base            \* radix of unbounded integers (Part 2)

(* ======================= Part 1: denotation ============================== *)
Lo(r) == r[1]
Hi(r) == r[2]
IsRangeList(R) == /\ DOMAIN R = 1..Len(R)
                  /\ \A k \in 1..Len(R) : DOMAIN R[k] = 1..2
DenR(r) == Lo(r)..Hi(r)                                  \* empty when lo > hi
Den(R)  == UNION {DenR(R[k]) : k \in 1..Len(R)}

\* canonical form: non-empty ranges, ascending, neither overlapping nor adjacent
IsCanonical(R) ==
    /\ \A k \in 1..Len(R) : Lo(R[k]) <= Hi(R[k])
    /\ \A k \in 1..(Len(R) - 1) : Hi(R[k]) + 1 < Lo(R[k + 1])

\* the canonical range list of a finite set: its maximal runs in ascending order
RunStarts(S) == {x \in S : x - 1 \notin S}
RunEnd(S, a) == Min({y \in S : y >= a /\ y + 1 \notin S /\ (\A z \in a..y : z \in S)})
Canon(S) == LET st == SetToSortSeq(RunStarts(S), LAMBDA x, y : x < y)
            IN [k \in 1..Len(st) |-> <<st[k], RunEnd(S, st[k])>>]

BinOps == {"union", "intersection", "difference", "symmetric_difference"}
OpSet(op, X, Y) ==
    CASE op = "union"                -> X \cup Y
      [] op = "intersection"         -> X \cap Y
      [] op = "difference"           -> X \ Y
      [] op = "symmetric_difference" -> (X \ Y) \cup (Y \ X)

\* cardinality and iteration read off a range list
RECURSIVE CardR(_)
CardR(R) == IF R = <<>> THEN 0
            ELSE (IF Lo(R[1]) <= Hi(R[1]) THEN Hi(R[1]) - Lo(R[1]) + 1 ELSE 0) + CardR(Tail(R))
\* a sequence enumerates S: every element exactly once (order is not prescribed)
Enumerates(it, S) == Len(it) = Cardinality(S) /\ {it[k] : k \in 1..Len(it)} = S

(* ================= Part 2: judgement by critical points ================== *)
(* Membership in a range list is piecewise constant: it can only change     *)
(* between hi and hi+1 or between lo-1 and lo of one of its ranges.         *)
MemG(Le(_, _), x, R) == \E k \in 1..Len(R) : Le(Lo(R[k]), x) /\ Le(x, Hi(R[k]))
CritG(Le(_, _), S(_), P(_), R) ==
    UNION {{Lo(R[k]), P(Lo(R[k])), Hi(R[k]), S(Hi(R[k]))} : k \in {j \in 1..Len(R) : Le(Lo(R[j]), Hi(R[j]))}}
CanonG(Le(_, _), S(_), R) ==
    /\ \A k \in 1..Len(R) : Le(Lo(R[k]), Hi(R[k]))
    /\ \A k \in 1..(Len(R) - 1) : ~Le(Lo(R[k + 1]), S(Hi(R[k])))       \* hi + 1 < next lo
OpBool(op, p, q) ==
    CASE op = "union"                -> p \/ q
      [] op = "intersection"         -> p /\ q
      [] op = "difference"           -> p /\ ~q
      [] op = "symmetric_difference" -> p # q
      [] op = "same"                 -> p                     \* unary: R denotes what A denotes
\* R denotes  Den(A) op Den(B)
AgreeG(Le(_, _), S(_), P(_), op, A, B, R) ==
    \A x \in CritG(Le, S, P, A) \cup CritG(Le, S, P, B) \cup CritG(Le, S, P, R) :
        MemG(Le, x, R) <=> OpBool(op, MemG(Le, x, A), MemG(Le, x, B))

\* ---- instance: TLC integers ------------------------------------------------
NLe(a, b) == a <= b
NSucc(a)  == a + 1
NPred(a)  == a - 1
AgreeN(op, A, B, R) == AgreeG(NLe, NSucc, NPred, op, A, B, R)

\* ---- instance: unbounded integers ----------------------------------------------
\* TLC integers are 32 bit.  An unbounded integer ("LInt") is [neg, limbs]: sign and
\* magnitude in base Base, least significant limb first, no leading zero limb; zero
\* is [neg |-> FALSE, limbs |-> <<>>].  The operators are generic in Base (2^24 when
\* judging recorded calls; IntSet_MC checks them against TLC integers with Base = 4,
\* where small numbers already have many limbs and long carry chains) and iterative.
IsLInt(z) == /\ z.neg \in BOOLEAN /\ DOMAIN z.limbs = 1..Len(z.limbs)
             /\ \A i \in 1..Len(z.limbs) : z.limbs[i] \in 0..(Base - 1)
             /\ (z.limbs # <<>> => z.limbs[Len(z.limbs)] # 0)
             /\ (z.limbs = <<>> => ~z.neg)
NonZero(l) == l # 0
NotMax(l)  == l # Base - 1
MNorm(m)   == SubSeq(m, 1, SelectLastInSeq(m, NonZero))
Limb(m, i) == IF i <= Len(m) THEN m[i] ELSE 0
Indices(w) == [i \in 1..w |-> i]
MagLt(x, y) ==
    \/ Len(x) < Len(y)
    \/ /\ Len(x) = Len(y)                       \* smaller at the highest differing limb
       /\ \E i \in 1..Len(x) : x[i] < y[i] /\ \A j \in (i + 1)..Len(x) : x[j] = y[j]
MagInc(m) == LET z == SelectInSeq(m, NotMax) IN            \* lowest limb that absorbs the carry
             IF z = 0 THEN [i \in 1..(Len(m) + 1) |-> IF i <= Len(m) THEN 0 ELSE 1]
             ELSE [i \in 1..Len(m) |-> IF i < z THEN 0 ELSE IF i = z THEN m[i] + 1 ELSE m[i]]
MagDec(m) == LET o == SelectInSeq(m, NonZero) IN           \* m # 0: lowest limb that pays the borrow
             MNorm([i \in 1..Len(m) |-> IF i < o THEN Base - 1 ELSE IF i = o THEN m[i] - 1 ELSE m[i]])
MagAdd(x, y) == LET w == (IF Len(x) > Len(y) THEN Len(x) ELSE Len(y)) + 1
                IN MNorm(FoldLeft(LAMBDA acc, i : LET t == Limb(x, i) + Limb(y, i) + acc[2]
                                                  IN <<Append(acc[1], t % Base), t \div Base>>,
                                  <<<<>>, 0>>, Indices(w))[1])
MagSub(x, y) ==                                            \* x >= y
    MNorm(FoldLeft(LAMBDA acc, i : LET d == x[i] - Limb(y, i) - acc[2]
                                   IN <<Append(acc[1], d % Base), IF d < 0 THEN 1 ELSE 0>>,
                   <<<<>>, 0>>, Indices(Len(x)))[1])
ZMk(neg, limbs) == [neg |-> neg /\ limbs # <<>>, limbs |-> limbs]
ZLt(a, b) == CASE a.neg /\ ~b.neg  -> TRUE
               [] ~a.neg /\ b.neg  -> FALSE
               [] ~a.neg /\ ~b.neg -> MagLt(a.limbs, b.limbs)
               [] OTHER            -> MagLt(b.limbs, a.limbs)
ZLe(a, b)  == a = b \/ ZLt(a, b)
ZSucc(z)   == IF z.neg THEN ZMk(TRUE, MagDec(z.limbs)) ELSE ZMk(FALSE, MagInc(z.limbs))
ZPred(z)   == IF z.neg THEN ZMk(TRUE, MagInc(z.limbs))
              ELSE IF z.limbs = <<>> THEN ZMk(TRUE, <<1>>) ELSE ZMk(FALSE, MagDec(z.limbs))
\* number of integers in lo..hi (lo <= hi), as a magnitude
SpanMag(lo, hi) ==
    MagInc(CASE ~lo.neg /\ ~hi.neg -> MagSub(hi.limbs, lo.limbs)
             [] lo.neg /\ hi.neg   -> MagSub(lo.limbs, hi.limbs)
             [] OTHER              -> MagAdd(hi.limbs, lo.limbs))          \* lo < 0 <= hi
\* cardinality of a list of pairwise disjoint ranges
CardZ(R) == ZMk(FALSE, FoldLeft(LAMBDA acc, rg : IF ZLe(Lo(rg), Hi(rg)) THEN MagAdd(acc, SpanMag(Lo(rg), Hi(rg))) ELSE acc,
                                <<>>, R))
\* a TLC integer as an LInt
RECURSIVE LimbsOf(_)
LimbsOf(n) == IF n = 0 THEN <<>> ELSE <<n % Base>> \o LimbsOf(n \div Base)
ZOfInt(n)  == IF n >= 0 THEN ZMk(FALSE, LimbsOf(n)) ELSE ZMk(TRUE, LimbsOf(-n))
AgreeZ(op, A, B, R) == AgreeG(ZLe, ZSucc, ZPred, op, A, B, R)
MemZ(x, R)   == MemG(ZLe, x, R)
CanonZ(R)    == CanonG(ZLe, ZSucc, R)

(* ================= Part 3: judging recorded calls ======================== *)
(* r.f      operation                                                       *)
(* r.big    FALSE: endpoints are TLC integers, judged by denotation         *)
(*          TRUE : endpoints are LInt records, judged by critical points    *)
(* r.a, r.b the range lists the operand sets were constructed from          *)
(*          (arbitrary: unsorted, overlapping, adjacent, empty lo > hi)     *)
(* r.x      probe of a membership test                                      *)
(* r.out    observed outcome: [ok |-> TRUE, ranges |-> the result's range   *)
(*          list] / [ok |-> TRUE, t |-> BOOLEAN] / [ok |-> TRUE, n |-> Nat  *)
(*          or LInt] / [ok |-> TRUE, seq |-> iteration] /                   *)
(*          [ok |-> FALSE, exc |-> class name]                              *)
(* r.out2   the same observation through the second spelling of the         *)
(*          operation (operator | & - ^, `in`, len(), empty())              *)
OkRanges(o) == o.ok /\ "ranges" \in DOMAIN o
OkT(o, t)   == o = [ok |-> TRUE, t |-> t]
OkN(o, n)   == o = [ok |-> TRUE, n |-> n]

\* a result object: canonical form and the right denotation
ResultOk(r, o, op, A, B) ==
    /\ OkRanges(o)
    /\ IF r.big THEN CanonZ(o.ranges) /\ AgreeZ(op, A, B, o.ranges)
       ELSE IsCanonical(o.ranges) /\ Den(o.ranges) = (IF op = "same" THEN Den(A) ELSE OpSet(op, Den(A), Den(B)))

SameSet(r) == IF r.big THEN AgreeZ("same", r.a, <<>>, r.b) ELSE Den(r.a) = Den(r.b)

Allowed(r) ==
    CASE r.f \in BinOps      -> ResultOk(r, r.out, r.f, r.a, r.b) /\ ResultOk(r, r.out2, r.f, r.a, r.b)
      [] r.f = "construct"   -> ResultOk(r, r.out, "same", r.a, <<>>)
      \* merge_overlapping_intervals on the sorted non-empty ranges r.a
      [] r.f = "merge"       -> ResultOk(r, r.out, "same", r.a, <<>>)
      [] r.f = "contains"    -> LET t == IF r.big THEN MemZ(r.x, r.a) ELSE r.x \in Den(r.a)
                                IN OkT(r.out, t) /\ OkT(r.out2, t)
      [] r.f = "cardinality" -> \* r.ranges: the set's own canonical list (judged by its construct record)
                                IF r.big
                                THEN (CanonZ(r.ranges) /\ AgreeZ("same", r.a, <<>>, r.ranges)) => OkN(r.out, CardZ(r.ranges))
                                ELSE OkN(r.out, Cardinality(Den(r.a))) /\ OkN(r.out2, Cardinality(Den(r.a)))
      [] r.f = "bool"        -> LET e == IF r.big THEN \A k \in 1..Len(r.a) : ~ZLe(Lo(r.a[k]), Hi(r.a[k]))
                                         ELSE Den(r.a) = {}
                                IN OkT(r.out, ~e) /\ OkT(r.out2, e)
      [] r.f = "iter"        -> /\ r.out.ok /\ "seq" \in DOMAIN r.out
                                /\ IF r.big
                                   THEN LET it == r.out.seq IN
                                        /\ \A k \in 1..Len(it) : MemZ(it[k], r.a)
                                        /\ \A j, k \in 1..Len(it) : j # k => it[j] # it[k]
                                        /\ (CanonZ(r.ranges) /\ AgreeZ("same", r.a, <<>>, r.ranges))
                                              => ZOfInt(Len(it)) = CardZ(r.ranges)
                                   ELSE Enumerates(r.out.seq, Den(r.a))
      \* equal sets compare equal (and hash equal), different sets compare different
      [] r.f = "eq"          -> /\ OkT(r.out, SameSet(r)) /\ OkT(r.out2, ~SameSet(r))
                                /\ SameSet(r) => OkT(r.hasheq, TRUE)
=============================================================================
