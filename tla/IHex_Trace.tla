----------------------------- MODULE IHex_Trace -----------------------------
(* Idiom T/E: every HEX file ppci saved is read back by the specification's *)
(* streaming reader, one record per state.  The harness only splits the     *)
(* text into lines (sequences of character codes).  Files[i] =              *)
(*   [key, lines, regions (as added, any order), start [hi, lo],            *)
(*    saved [ok, exc], loaded [ok, exc, regions, start] (projection of      *)
(*    ppci's own HexFile.load of the same text), small (BOOLEAN)]           *)
(* Each clause of the property is an invariant of its own; the verdicts on  *)
(* the whole file are taken in separate judgement states (ph = 1..6) so     *)
(* that every violated clause is reported.                                  *)
EXTENDS IHex, Json, IOUtils
Files == JsonDeserialize(IOEnv.TRACE_FILE)
NChunks == 16
NJudge == 6
Merged == [k \in 1..Len(Files) |-> Merge(Files[k].regions, LoMod)]
VARIABLES chunk, i, l, ph, cur, rd
vars == <<chunk, i, l, ph, cur, rd>>

Init == chunk = 0 /\ i = 0 /\ l = 0 /\ ph = 0 /\ cur = NoParse /\ rd = RdInit
PickChunk == chunk = 0 /\ chunk' \in 1..NChunks /\ UNCHANGED <<i, l, ph, cur, rd>>
PickFile == /\ chunk > 0 /\ i = 0
            /\ i' \in {k \in 1..Len(Files) : k % NChunks = chunk - 1}
            /\ cur' = (IF Len(Files[i'].lines) > 0 THEN Parse(Files[i'].lines[1]) ELSE NoParse)
            /\ UNCHANGED <<chunk, l, ph, rd>>
Lines == Files[i].lines
Reading == i > 0 /\ ph = 0 /\ l < Len(Lines)
Adv(nrd) == /\ rd' = nrd /\ l' = l + 1
            /\ cur' = (IF l + 2 <= Len(Lines) THEN Parse(Lines[l + 2]) ELSE NoParse)
            /\ UNCHANGED <<chunk, i, ph>>
ReadAfterEof == Reading /\ rd.eof /\ Adv(RdAfterEof(rd))
ReadBad      == Reading /\ ~rd.eof /\ ~WellFormed(cur) /\ Adv(RdBad(rd))
Good(t)      == Reading /\ ~rd.eof /\ WellFormed(cur) /\ cur.typ = t
ReadData     == Good(DATA) /\ Adv(RdData(rd, cur, Merged[i]))
ReadEof      == Good(EOFR) /\ Adv(RdEof(rd))
ReadExtLin   == Good(EXTLIN) /\ Adv(RdExtLin(rd, cur))
ReadExtSeg   == Good(EXTSEG) /\ Adv(RdExtSeg(rd, cur))
ReadStartLin == Good(STARTLIN) /\ Adv(RdStartLin(rd, cur))
ReadStartSeg == Good(STARTSEG) /\ Adv(RdStartSeg(rd, cur))
Judge == /\ i > 0 /\ l = Len(Lines) /\ ph < NJudge
         /\ ph' = ph + 1 /\ rd' = [rd EXCEPT !.ev = "judge"]
         /\ UNCHANGED <<chunk, i, l, cur>>
Next == \/ PickChunk \/ PickFile \/ Judge
        \/ ReadAfterEof \/ ReadBad \/ ReadData \/ ReadEof \/ ReadExtLin \/ ReadExtSeg \/ ReadStartLin \/ ReadStartSeg

AtStart == i > 0 /\ l = 0 /\ ph = 0
\* the harness handed over a case of the property's domain (a failure is a harness fault)
Domain == AtStart => InDomain(Files[i].regions, LoMod, HiMod)
\* HexFile.add_region / save completed
Saved == AtStart => Files[i].saved.ok
\* per record
RecordWellFormed == rd.ev # "bad"          \* syntax, length, checksum, record type rules
DataIsSaved      == rd.ev # "foreign"      \* its bytes are the bytes of the saved regions at the denoted addresses
EachByteOnce     == rd.ev # "dup"          \* no address written twice
NothingAfterEof  == rd.ev # "after"
\* per file
Final(k) == i > 0 /\ ph = k /\ Files[i].saved.ok
EofPresent   == Final(1) => rd.eof
AllCovered   == Final(2) => CoveredExactly(rd, Merged[i])
StartCarried == Final(3) => StartIs(rd.start, Files[i].start)
\* second opinion: a file the streaming reader found to be an exact image of the regions
\* must decode to them with the declarative decoder as well (cell sets; small files only)
DecodesToRegions == (Final(4) /\ Files[i].small /\ Clean(rd) /\ CoveredExactly(rd, Merged[i])) =>
                        LET P == Parsed(Lines)
                        IN DecodesExactly(P, Files[i].regions) /\ DecodedRegions(P) = Merged[i]
RoundTripRegions == Final(5) => Files[i].loaded.ok /\ Files[i].loaded.regions = Merged[i]
RoundTripStart   == Final(6) => Files[i].loaded.ok /\ Files[i].loaded.start = Files[i].start
=============================================================================
