------------------------------ MODULE CConst_IR ------------------------------
(* Behavioural sites of C27 (case labels, bit-field widths).  A case is the   *)
(* IR module ppci produced for one probe function, one probe word as the      *)
(* argument vector, and  obs = the result CConst.tla requires for that word   *)
(* (written by CConst_Eval).  IR.tla executes the function;                   *)
(*   ObsMatchesImpl  (from IR.tla): the returned word is the required one;    *)
(*   ProbeDefined : the probe functions are straight-line C without any       *)
(*                  undefined operation, so their IR must run to completion.  *)
EXTENDS IR
ProbeDefined == (Finished /\ ph = 1) => status = "ok"
=============================================================================
