---------------------------- MODULE M68kExec_MC ----------------------------
(* Idiom M for M68kExec.tla: laws of the instruction semantics, checked        *)
(* exhaustively on boundary values before the model judges ppci's code.       *)
(*  "add" "sub" "neg"  X N Z V C of ADD / SUB (CMP) / NEG against integer      *)
(*        arithmetic for byte, word and long operands (long operands as a     *)
(*        pair of 16-bit halves, so that every number fits TLC's integers)    *)
(*  "logic"  MOVE / AND / OR / EOR / NOT / CLR / TST: N Z by the result, V C   *)
(*        cleared, X kept                                                     *)
(*  "cond"  the sixteen conditions: odd ones negate even ones; after          *)
(*        CMP src, dst they state the signed / unsigned order of dst and src *)
(*  "shift"  ASL ASR LSL LSR ROL ROR against integer arithmetic; C X V        *)
(*  "ea"   address-register side effects of (An)+ and -(An) per size (A7      *)
(*        keeps word alignment), none for the other modes; the address       *)
(*  "muldiv" MULS MULU DIVS DIVU against integer arithmetic                   *)
(*  "rw"   every defined instruction (operation word samples x effective      *)
(*        address samples) executed on a machine state: only registers in    *)
(*        MK!Writes change, and the outcome is the same when every register   *)
(*        outside MK!Reads (and outside a partially written destination)     *)
(*        holds other values: ties the static sets judged by C07 to the      *)
(*        dynamic semantics                                                   *)
EXTENDS M68kExec, TLC
CONSTANT Deep

VARIABLES fam, pick
vars == <<fam, pick>>
None == [k |-> "none"]
Fams == {"add", "logic", "cond", "shift", "ea", "muldiv", "rw"}

P16 == 65536
\* boundary values of an n-byte quantity, as <<high half, low half>> of unsigned 16-bit numbers (byte / word: high = 0)
Halves(n) ==
    CASE n = 1 -> {<<0, v>> : v \in {0, 1, 2, 127, 128, 129, 254, 255, 85}}
      [] n = 2 -> {<<0, v>> : v \in {0, 1, 2, 255, 256, 32767, 32768, 32769, 65534, 65535, 21845}}
      [] OTHER -> {<<h, l>> : h \in {0, 1, 32767, 32768, 65535}, l \in {0, 1, 32768, 65535}}
Bound(n) == IF n = 1 THEN 256 ELSE P16              \* modulus of the low half
ToW(p, n) == IF n = 4 THEN <<p[2] % 256, p[2] \div 256, p[1] % 256, p[1] \div 256>>
             ELSE IF n = 2 THEN <<p[2] % 256, p[2] \div 256>> ELSE <<p[2]>>
SignedHi(p, n) == IF n = 4 THEN (IF p[1] >= 32768 THEN p[1] - P16 ELSE p[1])       \* the value divided by the low modulus, floor
                  ELSE 0
SignedLo(p, n) == IF n = 4 THEN p[2] ELSE IF p[2] >= Bound(n) \div 2 THEN p[2] - Bound(n) ELSE p[2]
\* reference results as integers: the exact sum / difference in (high, low) form
RefAdd(x, y, n) ==
    LET lo == x[2] + y[2]  cl == lo \div Bound(n)  hi == x[1] + y[1] + cl
        shi == SignedHi(x, n) + SignedHi(y, n) + cl                           \* signed sum, high part (long)
        slo == SignedLo(x, n) + SignedLo(y, n) IN                             \* signed sum (byte / word)
    [res |-> <<IF n = 4 THEN hi % P16 ELSE 0, lo % Bound(n)>>,
     c |-> IF n = 4 THEN hi \div P16 ELSE cl,
     v |-> IF n = 4 THEN B01(shi < -32768 \/ shi > 32767) ELSE B01(slo < -(Bound(n) \div 2) \/ slo >= Bound(n) \div 2)]
RefSub(x, y, n) ==                                                            \* x - y
    LET lo == x[2] - y[2]  bl == IF lo < 0 THEN 1 ELSE 0  hi == x[1] - y[1] - bl
        shi == SignedHi(x, n) - SignedHi(y, n) - bl
        slo == SignedLo(x, n) - SignedLo(y, n) IN
    [res |-> <<IF n = 4 THEN (hi + 2 * P16) % P16 ELSE 0, (lo + Bound(n)) % Bound(n)>>,
     c |-> IF n = 4 THEN B01(hi < 0) ELSE bl,
     v |-> IF n = 4 THEN B01(shi < -32768 \/ shi > 32767) ELSE B01(slo < -(Bound(n) \div 2) \/ slo >= Bound(n) \div 2)]
IsNeg(p, n) == IF n = 4 THEN p[1] >= 32768 ELSE p[2] >= Bound(n) \div 2
IsZero(p) == p[1] = 0 /\ p[2] = 0
\* order of the operands as numbers
LtU(x, y) == x[1] < y[1] \/ (x[1] = y[1] /\ x[2] < y[2])
LtS(x, y, n) == IF n = 4 THEN SignedHi(x, n) < SignedHi(y, n) \/ (SignedHi(x, n) = SignedHi(y, n) /\ x[2] < y[2])
                ELSE SignedLo(x, n) < SignedLo(y, n)
AllFlags == {[x |-> x, n |-> nn, z |-> zz, v |-> v, c |-> c] : x \in {0, 1}, nn \in {0, 1}, zz \in {0, 1}, v \in {0, 1}, c \in {0, 1}}

\* a machine state for the "rw" family: address registers point to distinct even addresses of a scratch area
RegJunk(r, salt) == <<(r * 37 + 11 + salt) % 256, (165 + salt) % 256, (r * 5 + 3 + 3 * salt) % 256, (90 + salt) % 128>>
State(salt, rd) ==                                       \* registers in rd keep the salt-0 values
    [pc |-> W4(4096),
     d |-> Mk([k \in 1..8 |-> IF (k - 1) \in rd THEN RegJunk(k, 0) ELSE RegJunk(k, salt)]),
     a |-> Mk([k \in 1..8 |-> IF (k + 7) \in rd \/ salt = 0 THEN W4(8192 + 512 * k) ELSE W4(16384 + 256 * k + 2 * salt)]),
     ccr |-> [x |-> 1, n |-> 0, z |-> 0, v |-> 1, c |-> 0],
     mem |-> [salt |-> 5, ov |-> <<>>]]
ExtVec == <<4100, 2, 18, 260>>
EaSamples == {0, 2, 9, 16, 18, 25, 27, 32, 34, 41, 42, 49, 56, 57, 58, 59, 60}
Tops == IF Deep THEN 0..1023 ELSE {t \in 0..1023 : t % 3 = 0 \/ t \in 256..319}
WordsOf(op) == <<op>> \o ExtVec
DecodeAt(ws) == LET n == MK!DecWords(ws).len \div 2 IN MK!Decode(MK!WordBytes(SubSeq(ws, 1, n), 1))
\* a destination data register written only in part (byte / word): its old value shows in the new one
PartialDst(i) == IF i.dst.k = "dn" /\ (i.sz \in {"b", "w"} \/ i.mn \in MK!SccNames) /\ i.mn \notin {"ext", "mulu", "muls", "divu", "divs"}
                 THEN {i.dst.r} ELSE {}

Init == fam = "none" /\ pick = None
PickFam == fam = "none" /\ fam' \in Fams /\ pick' = None
PickArith == fam = "add" /\ pick = None /\ UNCHANGED fam
             /\ \E n \in {1, 2, 4} : \E x \in Halves(n), y \in Halves(n) : pick' = [k |-> "add", n |-> n, x |-> x, y |-> y]
PickLogic == fam = "logic" /\ pick = None /\ UNCHANGED fam
             /\ \E n \in {1, 2, 4} : \E x \in Halves(n), f \in {g \in AllFlags : g.n = g.z} : pick' = [k |-> "logic", n |-> n, x |-> x, f |-> f]
PickCond == fam = "cond" /\ pick = None /\ UNCHANGED fam /\ \E f \in AllFlags : pick' = [k |-> "cond", f |-> f]
PickCmp == fam = "cond" /\ pick = None /\ UNCHANGED fam
           /\ \E n \in {1, 2, 4} : \E x \in Halves(n), y \in Halves(n) : pick' = [k |-> "cmp", n |-> n, x |-> x, y |-> y]
PickShift == fam = "shift" /\ pick = None /\ UNCHANGED fam
             /\ \E n \in {1, 2} : \E x \in Halves(n), cnt \in {0, 1, 2, 7, 8, 9, 15, 16, 17, 33}, kind \in Shifts :
                   pick' = [k |-> "shift", n |-> n, x |-> x, cnt |-> cnt, kind |-> kind]
PickEa == fam = "ea" /\ pick = None /\ UNCHANGED fam
          /\ \E kind \in {"ind", "post", "pre", "d16", "absw", "dn", "an", "imm"}, r \in {0, 3, 7}, n \in {1, 2, 4} :
                pick' = [k |-> "ea", o |-> MK!Op(kind, r, 0, IF kind \in {"d16", "absw", "imm"} THEN -6 ELSE 0), n |-> n]
PickMulDiv == fam = "muldiv" /\ pick = None /\ UNCHANGED fam
              /\ \E a \in {0, 1, 2, 255, 256, 32767, 32768, 65535, 12345}, b \in {0, 1, 3, 255, 32767, 32768, 65535, 100},
                    hi \in {0, 1, 3, 32767} : pick' = [k |-> "muldiv", a |-> a, b |-> b, hi |-> hi]
PickRwTop == fam = "rw" /\ pick = None /\ UNCHANGED fam /\ \E t \in Tops : pick' = [k |-> "rw-", t |-> t]
PickRw == fam = "rw" /\ pick.k = "rw-" /\ UNCHANGED fam /\ \E ea \in EaSamples : pick' = [k |-> "rw", ws |-> WordsOf(64 * pick.t + ea)]
Next == PickFam \/ PickArith \/ PickLogic \/ PickCond \/ PickCmp \/ PickShift \/ PickEa \/ PickMulDiv \/ PickRwTop \/ PickRw

-----------------------------------------------------------------------------
Old == [x |-> 1, n |-> 1, z |-> 1, v |-> 1, c |-> 1]
LawAddFlags == pick.k = "add" =>
    LET n == pick.n  r == RefAdd(pick.x, pick.y, n)  f == AddCC(Old, ToW(pick.x, n), ToW(pick.y, n)) IN
    /\ WAdd(ToW(pick.x, n), ToW(pick.y, n)) = ToW(r.res, n)
    /\ f = [x |-> r.c, n |-> B01(IsNeg(r.res, n)), z |-> B01(IsZero(r.res)), v |-> r.v, c |-> r.c]
LawSubFlags == pick.k = "add" =>
    LET n == pick.n  r == RefSub(pick.x, pick.y, n)  f == SubCC(Old, ToW(pick.x, n), ToW(pick.y, n), TRUE)
        g == SubCC([Old EXCEPT !.x = 0], ToW(pick.x, n), ToW(pick.y, n), FALSE) IN
    /\ WSub(ToW(pick.x, n), ToW(pick.y, n)) = ToW(r.res, n)
    /\ f = [x |-> r.c, n |-> B01(IsNeg(r.res, n)), z |-> B01(IsZero(r.res)), v |-> r.v, c |-> r.c]
    /\ g = [f EXCEPT !.x = 0]                                                  \* CMP: X not affected
\* NEG: 0 - destination; C = X = the result is not zero, V = the operand is the most negative number
LawNegFlags == pick.k = "add" =>
    LET n == pick.n  f == SubCC(Old, WZero(n), ToW(pick.x, n), TRUE)  zero == <<0, 0>> IN
    /\ f.c = B01(~IsZero(pick.x)) /\ f.x = f.c
    /\ f.v = B01(pick.x = (IF n = 4 THEN <<32768, 0>> ELSE <<0, Bound(n) \div 2>>))
    /\ f.z = B01(IsZero(pick.x))
    /\ f.n = B01(IsNeg(RefSub(zero, pick.x, n).res, n))
LawLogicFlags == pick.k = "logic" =>
    LET f == LogicCC(pick.f, ToW(pick.x, pick.n)) IN
    f = [x |-> pick.f.x, n |-> B01(IsNeg(pick.x, pick.n)), z |-> B01(IsZero(pick.x)), v |-> 0, c |-> 0]
LawConditions ==
    /\ pick.k = "cond" => /\ \A k \in {0, 2, 4, 6, 8, 10, 12, 14} : CondHolds(k + 1, pick.f) = ~CondHolds(k, pick.f)
                          /\ CondHolds(0, pick.f)
                          /\ (CondHolds(14, pick.f) <=> CondHolds(12, pick.f) /\ CondHolds(6, pick.f))      \* GT = GE and NE
                          /\ (CondHolds(2, pick.f) <=> CondHolds(4, pick.f) /\ CondHolds(6, pick.f))        \* HI = CC and NE
    /\ pick.k = "cmp" => LET n == pick.n  f == SubCC(Old, ToW(pick.x, n), ToW(pick.y, n), FALSE) IN      \* CMP y, x
                         /\ (CondHolds(7, f) <=> pick.x = pick.y)                                          \* EQ
                         /\ (CondHolds(13, f) <=> LtS(pick.x, pick.y, n))                                   \* LT
                         /\ (CondHolds(12, f) <=> ~LtS(pick.x, pick.y, n))                                  \* GE
                         /\ (CondHolds(14, f) <=> LtS(pick.y, pick.x, n))                                   \* GT
                         /\ (CondHolds(15, f) <=> ~LtS(pick.y, pick.x, n))                                  \* LE
                         /\ (CondHolds(5, f) <=> LtU(pick.x, pick.y))                                       \* CS (LO)
                         /\ (CondHolds(4, f) <=> ~LtU(pick.x, pick.y))                                      \* CC (HS)
                         /\ (CondHolds(2, f) <=> LtU(pick.y, pick.x))                                       \* HI
                         /\ (CondHolds(3, f) <=> ~LtU(pick.y, pick.x))                                      \* LS
                         /\ (CondHolds(11, f) <=> IsNeg(RefSub(pick.x, pick.y, n).res, n))                  \* MI
Pow2(k) == 2 ^ k
LawShift == pick.k = "shift" =>
    LET n == pick.n  bits == 8 * n  v == pick.x[2]  c == pick.cnt  kind == pick.kind  m == Pow2(bits)
        w == ToW(pick.x, n)
        res == ShiftRes(kind, w, c)  f == ShiftCC(Old, kind, w, c)
        sv == IF v >= m \div 2 THEN v - m ELSE v
        val == IF n = 1 THEN res[1] ELSE res[1] + 256 * res[2]
        cc == IF c > bits THEN bits + 1 ELSE c                                  \* shifting further changes nothing
        BitOf(x, k) == IF k < 0 \/ k >= bits THEN 0 ELSE (x \div Pow2(k)) % 2 IN
    /\ (kind \in {"lsl", "asl"} => val = (IF c >= bits THEN 0 ELSE (v * Pow2(c)) % m))
    /\ (kind = "lsr" => val = (IF c >= bits THEN 0 ELSE v \div Pow2(c)))
    /\ (kind = "asr" => val = (IF sv >= 0 THEN (IF c >= bits THEN 0 ELSE v \div Pow2(c))
                               ELSE m - 1 - (IF c >= bits THEN 0 ELSE (m - 1 - v) \div Pow2(c))))
    /\ (kind \in {"rol", "ror"} => ShiftRes(IF kind = "rol" THEN "ror" ELSE "rol", res, c) = w)
    /\ (c = 0 => f.c = 0 /\ f.x = Old.x /\ res = w)
    /\ (c > 0 /\ kind \in {"lsl", "asl"} => f.c = BitOf(v, bits - c) /\ f.x = f.c)
    /\ (c > 0 /\ kind = "lsr" => f.c = BitOf(v, c - 1) /\ f.x = f.c)
    /\ (c > 0 /\ kind = "asr" => f.c = (IF c > bits THEN BitOf(v, bits - 1) ELSE BitOf(v, c - 1)) /\ f.x = f.c)
    /\ (kind \in {"rol", "ror"} => f.x = Old.x /\ f.v = 0)
    /\ (c > 0 /\ kind = "rol" => f.c = val % 2)
    /\ (c > 0 /\ kind = "ror" => f.c = val \div (m \div 2))
    /\ (kind # "asl" => f.v = 0)
    \* ASL: V = the value does not survive the shift as a signed number
    /\ (kind = "asl" /\ c < bits => f.v = B01(sv * Pow2(c) < -(m \div 2) \/ sv * Pow2(c) >= m \div 2))
    /\ f.n = val \div (m \div 2) /\ f.z = B01(val = 0)
LawEASideEffect == pick.k = "ea" =>
    LET s == State(0, {})  o == pick.o  n == pick.n  loc == Res(s, o, n, W4(4098))
        step == IF n = 1 /\ o.r = 7 THEN 2 ELSE n  an == 8192 + 512 * (o.r + 1) IN
    /\ \A r \in 0..7 : r # o.r => loc.a2[r + 1] = s.a[r + 1]
    /\ (o.k = "post" => loc.addr = W4(an) /\ loc.a2[o.r + 1] = W4(an + step))
    /\ (o.k = "pre" => loc.addr = W4(an - step) /\ loc.a2[o.r + 1] = W4(an - step))
    /\ (o.k \notin {"post", "pre"} => loc.a2 = s.a)
    /\ (o.k = "ind" => loc.addr = W4(an)) /\ (o.k = "d16" => loc.addr = W4(an - 6)) /\ (o.k = "absw" => loc.addr = W4(-6))
    /\ (o.k \in {"dn", "an", "imm"} => loc.k \in {"d", "a", "i"})
    \* big-endian memory: a stored long reads back, and its first byte is the most significant one
    /\ LET mem == StoreBE(s.mem, W4(an), <<4, 3, 2, 1>>) IN LoadBE(mem, W4(an), 4) = <<4, 3, 2, 1>> /\ MemByte(mem, W4(an)) = 1
                                                            /\ LoadBE(mem, W4(an + 2), 2) = <<4, 3>>
LawMulDiv == pick.k = "muldiv" =>
    LET a == pick.a  b == pick.b  sa == IF a >= 32768 THEN a - P16 ELSE a  sb == IF b >= 32768 THEN b - P16 ELSE b
        wa == <<a % 256, a \div 256>>  wb == <<b % 256, b \div 256>>
        ps == WMul(WResize(wa, 4, TRUE), WResize(wb, 4, TRUE))
        pu == WMul(WResize(wa, 4, FALSE), WResize(wb, 4, FALSE))
        dd == pick.hi * P16 + a                                               \* dividend < 2^31
        ddw == W4(dd) IN
    /\ ps = W4(sa * sb)
    /\ (~(a = 65535 /\ b = 65535) => pu = W4(a * b))
    /\ (a = 65535 /\ b = 65535 => pu = <<1, 0, 254, 255>>)
    /\ (b # 0 => LET q == WDiv(ddw, WResize(wb, 4, FALSE), FALSE)  r == WRem(ddw, WResize(wb, 4, FALSE), FALSE) IN
                 q = W4(dd \div b) /\ r = W4(dd % b))
    /\ (sb # 0 => LET q == WDiv(ddw, WResize(wb, 4, TRUE), TRUE)  r == WRem(ddw, WResize(wb, 4, TRUE), TRUE)
                      aq == dd \div (IF sb < 0 THEN -sb ELSE sb) IN
                  q = W4(IF sb < 0 THEN -aq ELSE aq) /\ r = W4(dd - (IF sb < 0 THEN -aq ELSE aq) * sb))
\* only registers the static set names change
LawWritesOnly == pick.k = "rw" =>
    LET i == DecodeAt(pick.ws)  s == State(0, {})  t == Exec(s, i) IN
    (MK!Valid(i) /\ t.st = "ok") => Changed(s, t.s) \subseteq MK!Writes(i)
\* the outcome does not depend on registers outside the static read set (a partially written data register aside)
LawReadsOnly == pick.k = "rw" =>
    LET i == DecodeAt(pick.ws)  rd == MK!Reads(i) \cup PartialDst(i)
        s == State(0, {})  s2 == State(9, rd)  t == Exec(s, i)  u == Exec(s2, i) IN
    (MK!Valid(i) /\ t.st = "ok") =>
        /\ u.st = "ok"
        /\ t.s.pc = u.s.pc /\ t.s.ccr = u.s.ccr /\ t.s.mem = u.s.mem
        /\ \A r \in MK!Writes(i) : AnyReg(t.s, r) = AnyReg(u.s, r)
\* (not a law: its violations count the "rw" picks that are executed; development aid)
RwNotExecuted == pick.k = "rw" => ~(MK!Valid(DecodeAt(pick.ws)) /\ Exec(State(0, {}), DecodeAt(pick.ws)).st = "ok")
=============================================================================
