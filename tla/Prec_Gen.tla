------------------------------ MODULE Prec_Gen ------------------------------
(* Idiom G: TLC enumerates the replay domain (well-typed trees over the template's *)
(* identifiers) and writes each tree with its minimal and its fully parenthesised  *)
(* token string; engines/x09.py feeds the strings to ppci's parser and printer.    *)
EXTENDS Prec, Json, IOUtils, SequencesExt
CONSTANTS NTyped, GenFull
TypedTrees == TypedTreesN(NTyped, GenFull)
Feature(x) == [t |-> x, min |-> PrintMin(x), full |-> PrintFull(x)]
Out == SetToSeq({Feature(x) : x \in TypedTrees})
VARIABLE done
GInit == done = FALSE
GNext == ~done /\ done' = TRUE /\ JsonSerialize(IOEnv.OUT_FILE, Out)
=============================================================================
