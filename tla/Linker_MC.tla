----------------------------- MODULE Linker_MC -----------------------------
(* Idiom M: exhaustive exploration of the linker design of Linker.tla on the *)
(* universes of link jobs of LinkerJobs_MC (the engine supplies a LinkerJobs *)
(* module with Jobs == MCJobs).  A job is chosen in Init; the phases run.    *)
(* Free = TRUE additionally explores every *legal* padding / output          *)
(* alignment (not only ppci's choice), showing that the invariants do not    *)
(* depend on those choices.                                                  *)
EXTENDS Linker, TLC

CONSTANT Free

MCInit == /\ job \in 1..Len(Jobs)
          /\ ph = "start" /\ nxt = 0 /\ sub = NoSub /\ dst = StartDst /\ placed = <<>> /\ cur = NoCur /\ fail = ""

(* every legal choice of the free parameters, within one alignment unit of slack *)
PadChoices(o)   == {p \in [1..Len(inp[o].secs) -> 0..8] :
                      \A k \in 1..Len(inp[o].secs) : p[k] \in {DesignPads(o)[k], DesignPads(o)[k] + inp[o].secs[k].align}}
AlignOptions(o) == {a \in [1..Len(inp[o].secs) -> {1, 2, 4, 8}] :
                      \A k \in 1..Len(inp[o].secs) :
                          LET i == SecIdx(dst.secs, inp[o].secs[k].name) IN
                          LegalAlign(IF i = 0 THEN 0 ELSE dst.secs[i].align, inp[o].secs[k].align, a[k])}
FreeInject(o) == \E p \in PadChoices(o), a \in AlignOptions(o) : InjectSections(o, MkT(p), MkT(a))

\* (the object / relocation index is the state's nxt: no quantifier, so that TLC reports the
\* coverage of each action separately)
RelocateFits     == nxt \in 1..Len(dst.rels) /\ dst.rels[nxt].type # "nofit" /\ Relocate(nxt)
RelocateDoesNotFit == nxt \in 1..Len(dst.rels) /\ dst.rels[nxt].type = "nofit" /\ RelocateFails(nxt)
InjectSecs == IF Free THEN FreeInject(nxt) ELSE InjectSections(nxt, DesignPads(nxt), DesignAligns(nxt))
Obj == ph = "inject" /\ nxt \in 1..Len(inp)

DoInjectSections  == Obj /\ InjectSecs
DoInjectNew       == Obj /\ InjectNew(nxt)
DoMergeGlobal     == Obj /\ MergeGlobal(nxt)
DoDuplicateGlobal == Obj /\ DuplicateGlobal(nxt)
DoInjectRelocs    == Obj /\ InjectRelocs(nxt)
DoDuplicateEntry  == Obj /\ DuplicateEntry(nxt)

MCWork ==
    \/ Start
    \/ DoInjectSections \/ DoInjectNew \/ DoMergeGlobal \/ DoDuplicateGlobal \/ DoInjectRelocs \/ DoDuplicateEntry
    \/ (\E al \in (IF Free THEN {1, 2, 4} ELSE {DefaultAlign}) : PlaceSection(al))
    \/ PlaceSectionData(1) \/ DefineSymbol(1) \/ DefineSymbolTwice
    \/ AlignTo \/ CloseMemory \/ MemoryOverflow \/ EmptyLayout
    \/ CheckUndefined \/ UndefinedFound \/ RelaxNone
    \/ RelocateFits \/ RelocateDoesNotFit
MCNext == MCWork \/ Terminated

\* every job ends: a state without successor other than the final stutter is finished
NoStuck == Finished \/ ENABLED MCWork
=============================================================================
