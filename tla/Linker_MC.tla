----------------------------- MODULE Linker_MC -----------------------------
(* Idiom M: exhaustive exploration of the linker design of Linker.tla on the *)
(* universes of link jobs of LinkerJobs_MC (the engine supplies a LinkerJobs *)
(* module with Jobs == MCJobs).  A job is chosen in Init; the phases run.    *)
(* Free = TRUE additionally explores every *legal* padding / output          *)
(* alignment (not only ppci's choice), showing that the invariants do not    *)
(* depend on those choices.                                                  *)
EXTENDS Linker, TLC

CONSTANTS Free, Announce

MCInit == /\ job \in 1..Len(Jobs)
          /\ ph = "start" /\ nxt = 0 /\ sub = NoSub /\ dst = StartDst /\ placed = <<>> /\ cur = NoCur /\ fail = ""

(* every legal choice of the free parameters, within one alignment unit of slack *)
PadChoices(o)   == {p \in [1..Len(inp[o].secs) -> 0..8] :
                      \A k \in 1..Len(inp[o].secs) : p[k] \in {DesignPads(o)[k], DesignPads(o)[k] + inp[o].secs[k].align}}
AlignOptions(o) == {a \in [1..Len(inp[o].secs) -> {1, 2, 4, 8}] :
                      \A k \in 1..Len(inp[o].secs) :
                          LET i == SecIdx(dst.secs, inp[o].secs[k].name) IN
                          LegalAlign(IF i = 0 THEN 0 ELSE dst.secs[i].align, inp[o].secs[k].align, a[k])}
FreeInject(o) == \E p \in PadChoices(o), a \in AlignOptions(o) : InjectSections(o, MkT(p), MkT(a))

\* Action coverage.  TLC's -coverage slows this specification down by a factor of five, so each
\* action announces itself instead (Announce = TRUE in a small universe that reaches all of them);
\* the engine collects the names from TLC's output.
Say(n) == ~Announce \/ PrintT(<<"act", n>>)
Obj == ph = "inject" /\ nxt \in 1..Len(inp)
InjectSecs == IF Free THEN FreeInject(nxt) ELSE InjectSections(nxt, DesignPads(nxt), DesignAligns(nxt))

DoStart            == Start /\ Say("Start")
DoInjectSections   == Obj /\ InjectSecs /\ Say("InjectSections")
DoInjectNew        == Obj /\ InjectNew(nxt) /\ Say("InjectNew")
DoMergeGlobal      == Obj /\ MergeGlobal(nxt) /\ Say("MergeGlobal")
DoDuplicateGlobal  == Obj /\ DuplicateGlobal(nxt) /\ Say("DuplicateGlobal")
DoInjectRelocs     == Obj /\ InjectRelocs(nxt) /\ Say("InjectRelocs")
DoDuplicateEntry   == Obj /\ DuplicateEntry(nxt) /\ Say("DuplicateEntry")
DoPlaceSection     == (\E al \in (IF Free THEN {1, 2, 4} ELSE {DefaultAlign}) : PlaceSection(al)) /\ Say("PlaceSection")
DoPlaceSectionData == PlaceSectionData(1) /\ Say("PlaceSectionData")
DoDefineSymbol     == DefineSymbol(1) /\ Say("DefineSymbol")
DoDefineSymbolTwice == DefineSymbolTwice /\ Say("DefineSymbolTwice")
DoAlignTo          == AlignTo /\ Say("AlignTo")
DoCloseMemory      == CloseMemory /\ Say("CloseMemory")
DoMemoryOverflow   == MemoryOverflow /\ Say("MemoryOverflow")
DoEmptyLayout      == EmptyLayout /\ Say("EmptyLayout")
DoCheckUndefined   == CheckUndefined /\ Say("CheckUndefined")
DoUndefinedFound   == UndefinedFound /\ Say("UndefinedFound")
DoRelaxNone        == RelaxNone /\ Say("RelaxNone")
\* "nofit" stands for a relocation whose value does not fit its field (decided by Reloc.tla in traces)
DoRelocate         == nxt \in 1..Len(dst.rels) /\ dst.rels[nxt].type # "nofit" /\ Relocate(nxt) /\ Say("Relocate")
DoRelocateFails    == nxt \in 1..Len(dst.rels) /\ dst.rels[nxt].type = "nofit" /\ RelocateFails(nxt)
                      /\ Say("RelocateFails")

MCWork ==
    \/ DoStart
    \/ DoInjectSections \/ DoInjectNew \/ DoMergeGlobal \/ DoDuplicateGlobal \/ DoInjectRelocs \/ DoDuplicateEntry
    \/ DoPlaceSection \/ DoPlaceSectionData \/ DoDefineSymbol \/ DoDefineSymbolTwice
    \/ DoAlignTo \/ DoCloseMemory \/ DoMemoryOverflow \/ DoEmptyLayout
    \/ DoCheckUndefined \/ DoUndefinedFound \/ DoRelaxNone
    \/ DoRelocate \/ DoRelocateFails
MCNext == MCWork \/ Terminated

\* every job ends: a state without successor other than the final stutter is finished
NoStuck == Finished \/ ENABLED MCWork
=============================================================================
