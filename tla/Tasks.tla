------------------------------- MODULE Tasks -------------------------------
(* Property C34: the build runner of ppci (ppci/build/tasks.py).            *)
(*                                                                          *)
(* A project is a dependency graph  deps : Target -> SUBSET Target  and a   *)
(* run is asked for a non-empty set of requested targets.  This module is   *)
(* the DECLARATIVE specification: it says which histories                   *)
(*     start:t1, start:t2, ... , (done | loop)                              *)
(* a build runner may produce, and nothing about how it finds them:         *)
(*   - Start(t)  : the tasks of target t are run.  Allowed only for a       *)
(*                 requested target or a transitive dependency of one, that *)
(*                 has not run yet and whose dependencies have all run;     *)
(*   - Loop      : "dependency loop" is reported.  Allowed only if the part *)
(*                 of the graph reachable from the requested targets has a  *)
(*                 cycle;                                                   *)
(*   - Finish    : the run returns normally.  Allowed only when every       *)
(*                 needed target has run.                                   *)
(* The property text does not say whether targets outside a cycle may run   *)
(* before the loop is reported, so Loop is allowed in any running state.    *)
(*                                                                          *)
(* Refinements:  Tasks_Algo.tla   (DFS with an on-path set + post-order     *)
(*                                 walk; TLC checks  ASpec => Spec)         *)
(*               Tasks_AsBuilt.tla (transcription of the code as found;     *)
(*                                 TLC exhibits the counter-examples)       *)
(* Conformance:  Tasks_Trace.tla   (histories of the real TaskRunner.run)   *)
EXTENDS Naturals, Sequences, FiniteSets

CONSTANT Target                \* the names of the project's targets

VARIABLES deps,                \* deps[t] = set of targets t directly depends on
          requested,           \* the requested targets (non-empty)
          executed,            \* the targets whose tasks have run, in order
          result               \* "running" | "done" | "loop"

vars == <<deps, requested, executed, result>>

Range(s) == {s[k] : k \in DOMAIN s}

----------------------------------------------------------------------------
(* Graph vocabulary (d is a dependency function, S a set of targets)        *)

Succ(d, S) == UNION {d[t] : t \in S}

RECURSIVE Closure(_, _)        \* least superset of S closed under d
Closure(d, S) == LET S2 == S \cup Succ(d, S)
                 IN  IF S2 = S THEN S ELSE Closure(d, S2)

Reach(d, req) == Closure(d, req)         \* req and all transitive dependencies
Below(d, t)   == Closure(d, d[t])        \* transitive dependencies of t (>= 1 step)
HasCycle(d, S) == \E t \in S : t \in Below(d, t)

Needed == Reach(deps, requested)         \* what this run has to execute
Cyclic == HasCycle(deps, Needed)         \* a cycle is reachable from the request

----------------------------------------------------------------------------
(* The state machine                                                        *)

TypeOK == /\ deps \in [Target -> SUBSET Target]
          /\ requested \in (SUBSET Target) \ {{}}
          /\ executed \in Seq(Target)
          /\ result \in {"running", "done", "loop"}

Init == /\ deps \in [Target -> SUBSET Target]
        /\ requested \in (SUBSET Target) \ {{}}
        /\ executed = <<>>
        /\ result = "running"

Start(t) == /\ result = "running"
            /\ t \in Needed                          \* only what was asked for
            /\ t \notin Range(executed)              \* exactly once
            /\ deps[t] \subseteq Range(executed)     \* only after its dependencies
            /\ executed' = Append(executed, t)
            /\ UNCHANGED <<deps, requested, result>>

Loop == /\ result = "running"
        /\ Cyclic                                    \* only if there is a loop
        /\ result' = "loop"
        /\ UNCHANGED <<deps, requested, executed>>

Finish == /\ result = "running"
          /\ Range(executed) = Needed                \* nothing left out
          /\ result' = "done"
          /\ UNCHANGED <<deps, requested, executed>>

Next == (\E t \in Target : Start(t)) \/ Loop \/ Finish

Spec == Init /\ [][Next]_vars
FairSpec == Spec /\ WF_vars(Next)

----------------------------------------------------------------------------
(* The clauses of property C34 as invariants of the state machine           *)

\* each target at most once ...
ExactlyOnce == \A j, k \in DOMAIN executed : executed[j] = executed[k] => j = k
\* ... and nothing but requested targets and their transitive dependencies
OnlyNeeded  == Range(executed) \subseteq Needed
\* each only after all of its dependencies
DepsFirst   == \A k \in DOMAIN executed :
                  deps[executed[k]] \subseteq {executed[j] : j \in 1..(k - 1)}
\* a loop is reported iff the reachable part of the graph has a cycle
LoopIff     == result # "running" => (result = "loop" <=> Cyclic)
\* a normal return means every needed target has been executed
Completed   == result = "done" => Range(executed) = Needed

Terminates  == <>(result # "running")

----------------------------------------------------------------------------
(* Vocabulary used to classify rejected histories (Tasks_Trace) and proved  *)
(* about the as-built algorithm in Tasks_AsBuilt.                           *)

\* number of dependency edges into t from the targets of S
InDegree(d, S, t) == Cardinality({s \in S : t \in d[s]})
\* the graph reachable from r is not a tree rooted at r: some target is
\* reached along two different paths (or r lies on a cycle)
MultiPath(d, r) == LET S == Reach(d, {r})
                   IN  \/ InDegree(d, S, r) > 0
                       \/ \E t \in S : InDegree(d, S, t) > 1
\* "a is a transitive dependency of b" as an ordering relation
DepLess(d, a, b) == a \in Below(d, b)
Incomparable(d, a, b) == ~DepLess(d, a, b) /\ ~DepLess(d, b, a)
\* DepLess is a strict weak order on S (incomparability is transitive); only
\* then does a comparison sort with DepLess yield a dependency order
StrictWeak(d, S) == /\ \A a \in S : ~DepLess(d, a, a)
                    /\ \A a, b, c \in S :
                          Incomparable(d, a, b) /\ Incomparable(d, b, c)
                             => Incomparable(d, a, c)
=============================================================================
