------------------------------ MODULE ImgFmt_MC ------------------------------
(* Idiom M for X06: the format specifications model-checked on themselves.    *)
(* Every action picks one case of one family; the laws are invariants that    *)
(* speak about the picked case.                                               *)
(*   CrcCase     every message of <= MaxLen bytes over a boundary alphabet,   *)
(*               every one-byte message, the known-answer messages            *)
(*   UbCase      U-Boot images made by the reference encoder UbEncode         *)
(*   HkCase      hunk files made by HkEncode; a hand-written two-hunk file    *)
(*   LtCase      abstract layouts (<= MaxMems memories) printed by LtText     *)
(*   LtTextCase  hand-written texts inside / outside the language             *)
(*   PeCase      PE32+ images assembled by PeBuild below                      *)
(*   BytesCase   the number readers of FmtBytes                               *)
EXTENDS UBoot, Hunk, MzExe, LayoutTxt, TLC
CONSTANTS MaxLen, MaxMems
VARIABLES vFam, vCase
vars == <<vFam, vCase>>

SeqsUpTo(S, n) == UNION {[1..m -> S] : m \in 0..n}
Flip(F, p) == [F EXCEPT ![p] = IF F[p] % 2 = 0 THEN F[p] + 1 ELSE F[p] - 1]
Put(F, p, b) == [F EXCEPT ![p] = b]

\* ---------------------------------------------------------------- CRC-32 --
CrcAlphabet == {0, 1, 85, 128, 255}
Kats == << [m |-> <<49, 50, 51, 52, 53, 54, 55, 56, 57>>, c |-> <<38, 57, 244, 203>>],
          [m |-> <<>>, c |-> <<0, 0, 0, 0>>],
          [m |-> <<97>>, c |-> <<67, 190, 183, 232>>],
          [m |-> <<97, 98, 99>>, c |-> <<194, 65, 36, 53>>],
          [m |-> Mk([k \in 1..32 |-> 0]), c |-> <<173, 85, 10, 25>>],
          [m |-> Mk([k \in 1..32 |-> 255]), c |-> <<11, 171, 108, 255>>],
          [m |-> <<84, 104, 101, 32, 113, 117, 105, 99, 107, 32, 98, 114, 111, 119, 110, 32, 102, 111, 120, 32, 106, 117, 109, 112, 115, 32, 111, 118, 101, 114, 32, 116, 104, 101, 32, 108, 97, 122, 121, 32, 100, 111, 103>>, c |-> <<57, 163, 79, 65>>] >>
CrcMsgs == SeqsUpTo(CrcAlphabet, MaxLen) \cup {<<b>> : b \in 0..255} \cup {Kats[k].m : k \in 1..Len(Kats)}
CrcCase == vFam = "init" /\ PrintT(<<"ACT", "CrcCase">>) /\ vFam' = "crc" /\ vCase' \in CrcMsgs
\* definition (polynomial division) = bit-serial register = table form
LawCrcForms == vFam = "crc" => LET c == Crc(vCase) IN c = CrcBits(vCase) /\ c = CrcPoly(vCase)
LawCrcKat == vFam = "crc" => \A k \in 1..Len(Kats) : vCase = Kats[k].m => Crc(vCase) = Kats[k].c
\* a message followed by its own check value (least significant byte first) leaves the residue 2144DF1C
LawCrcResidue == vFam = "crc" => Crc(vCase \o Crc(vCase)) = <<28, 223, 68, 33>>
LawCrcTable == vFam = "crc" => /\ CrcTab[1] = <<0, 0, 0, 0>> /\ CrcTab[2] = <<150, 48, 7, 119>>
                               /\ CrcTab[129] = <<32, 131, 184, 237>> /\ CrcTab[256] = <<141, 239, 2, 45>>
                               /\ CrcOfRange(<<9, 9>> \o vCase \o <<7>>, 3, 2 + Len(vCase)) = Crc(vCase)

\* ---------------------------------------------------------------- U-Boot --
UbNames == {<<97>>, Mk([k \in 1..32 |-> 122])}
UbWords == IF MaxLen > 2 THEN {<<0, 1, 0, 0>>, <<120, 86, 52, 255>>} ELSE {<<120, 86, 52, 255>>}
UbCases == [data : SeqsUpTo({0, 255}, MaxLen), name : UbNames, load : UbWords, ep : {<<1, 0, 0, 128>>},
            time : {<<0, 0, 0, 0>>, <<255, 255, 255, 127>>}, os : {"INVALID", "LINUX"}, arch : IF MaxLen > 2 THEN {"INVALID", "XTENSA"} ELSE {"XTENSA"}]
UbCase == vFam = "init" /\ PrintT(<<"ACT", "UbCase">>) /\ vFam' = "ub" /\ vCase' \in UbCases
UbImage(c) == UbEncode(c.data, c.name, c.load, c.ep, c.time, UbOsCode[c.os], UbArchCode[c.arch], UbTypeKernel, UbCompNone)
LawUbRoundTrip == vFam = "ub" => LET F == UbImage(vCase) IN
    /\ UbFailures(F, vCase) = {} /\ UbAccepts(F) /\ Len(F) = 64 + Len(vCase.data)
    /\ UbFailures(SubSeq(F, 1, Len(F) - 1), vCase) # {} /\ UbFailures(F \o <<0>>, vCase) # {}
\* the clause that speaks about the byte at position p
UbClauseAt(p) == IF p <= 4 THEN "UbMagic" ELSE IF p <= 8 THEN "UbHeaderCrc" ELSE IF p <= 12 THEN "UbTime"
                 ELSE IF p <= 16 THEN "UbSize" ELSE IF p <= 20 THEN "UbLoad" ELSE IF p <= 24 THEN "UbEntry"
                 ELSE IF p <= 28 THEN "UbDataCrc" ELSE IF p = 29 THEN "UbOs" ELSE IF p = 30 THEN "UbArch"
                 ELSE IF p = 31 THEN "UbHeaderCrc" ELSE IF p = 32 THEN "UbComp" ELSE IF p <= 64 THEN "UbName"
                 ELSE "UbPayload"
\* every single damaged byte is noticed by U-Boot's own checks and by the clause about that byte
LawUbDamage == vFam = "ub" => LET F == UbImage(vCase) IN
    \A p \in 1..Len(F) : LET G == Flip(F, p) IN ~UbAccepts(G) /\ UbClauseAt(p) \in UbFailures(G, vCase)
                                                  /\ (p > 8 /\ p <= 64 => "UbHeaderCrc" \in UbFailures(G, vCase))
                                                  /\ (p > 64 => "UbDataCrc" \in UbFailures(G, vCase))

\* ------------------------------------------------------------------ hunk --
HkDatas == SeqsUpTo({0, 3, 255}, MaxLen + 3)
\* resident library "ab", 2 hunks: code (2 longs, reloc32 of one offset to hunk 1, symbol "x" = 4), bss 3 longs
HkTwo == HkBE4(HUNK_HEADER) \o HkBE4(1) \o <<97, 98, 0, 0>> \o HkBE4(0) \o HkBE4(2) \o HkBE4(0) \o HkBE4(1)
         \o HkBE4(2) \o <<64, 0, 0, 3>>
         \o HkBE4(HUNK_CODE) \o HkBE4(2) \o <<1, 2, 3, 4, 5, 6, 7, 8>>
         \o HkBE4(HUNK_RELOC32) \o HkBE4(1) \o HkBE4(1) \o HkBE4(4) \o HkBE4(0)
         \o HkBE4(HUNK_SYMBOL) \o HkBE4(1) \o <<120, 0, 0, 0>> \o HkBE4(4) \o HkBE4(0) \o HkBE4(HUNK_END)
         \o HkBE4(HUNK_BSS) \o HkBE4(3) \o HkBE4(HUNK_END)
HkCase == vFam = "init" /\ PrintT(<<"ACT", "HkCase">>) /\ vFam' = "hk" /\ vCase' \in HkDatas
HkGoodRb(F, data) == [ok |-> TRUE, exc |-> "", code |-> <<HkPadded(data)>>, pos |-> Len(F)]
LawHkRoundTrip == vFam = "hk" => LET F == HkEncode(vCase) R == HkRead(F) IN
    /\ HkFailures(F, vCase, HkGoodRb(F, vCase)) = {}
    /\ Len(F) = 36 + Len(HkPadded(vCase)) /\ R.tabsize = 1 /\ R.sizes = <<Len(HkPadded(vCase)) \div 4>>
    /\ LET T == HkRead(HkTwo) IN /\ HkWF(HkTwo, T) = {} /\ T.libs = 1 /\ T.sizes = <<2, 3>> /\ Len(T.hunks) = 2
                                 /\ T.hunks[1][1].bytes = <<1, 2, 3, 4, 5, 6, 7, 8>> /\ T.hunks[2][1].id = HUNK_BSS
LawHkDamage == vFam = "hk" => LET F == HkEncode(vCase) rb == HkGoodRb(F, vCase) n == Len(F) IN
    /\ "HkBlocks" \in HkFailures(SubSeq(F, 1, n - 4), vCase, rb)                 \* HUNK_END missing
    /\ "HkEnd" \in HkFailures(F \o HkBE4(0), vCase, rb)                          \* something after the end
    /\ "HkAligned" \in HkFailures(F \o <<0>>, vCase, rb)
    /\ "HkHeader" \in HkFailures(Put(F, 4, 244), vCase, rb)
    /\ "HkTable" \in HkFailures(Put(F, 12, 2), vCase, rb)                        \* table size 2, last hunk 0
    /\ "HkTable" \in HkFailures(Put(F, 16, 1), vCase, rb)                        \* first hunk after the last
    /\ (Len(vCase) > 0 => "HkSizes" \in HkFailures(Put(F, 24, F[24] - 1), vCase, rb))      \* announced too small
    /\ (Len(vCase) > 0 => "HkContent" \in HkFailures(Flip(F, 33), vCase, rb))
    /\ "HkContent" \in HkFailures(Put(F, 28, 234), vCase, rb)                    \* a data hunk instead of code
    /\ "HkReadBack" \in HkFailures(F, vCase, [rb EXCEPT !.pos = n - 4])
    /\ "HkReadBack" \in HkFailures(F, vCase, [rb EXCEPT !.code = <<>>])
    /\ "HkReadBack" \in HkFailures(F, vCase, [rb EXCEPT !.ok = FALSE])

\* ---------------------------------------------------------------- layout --
LtNames == {<<97>>, <<66, 95, 49>>}
LtNums == {WZero(8), <<16, 0, 0, 0, 0, 0, 0, 0>>, <<5, 0, 0, 0, 1, 0, 0, 0>>, <<255, 255, 255, 255, 255, 255, 255, 255>>}
LtInputsSet == {[k |-> "align", name |-> <<>>, num |-> <<4, 0, 0, 0, 0, 0, 0, 0>>],
                [k |-> "align", name |-> <<>>, num |-> <<0, 16, 0, 0, 0, 0, 0, 0>>],
                [k |-> "section", name |-> <<97>>, num |-> WZero(8)],
                [k |-> "sectiondata", name |-> <<97>>, num |-> WZero(8)],
                [k |-> "symbol", name |-> <<66, 95, 49>>, num |-> WZero(8)]}
LtMems == [name : LtNames, loc : LtNums, size : {<<0, 48, 0, 0, 0, 0, 0, 0>>}, inputs : {<<x>> : x \in LtInputsSet}]
          \cup [name : {<<97>>}, loc : {WZero(8)}, size : {<<0, 48, 0, 0, 0, 0, 0, 0>>},
                inputs : {<<x, y>> : x \in LtInputsSet, y \in LtInputsSet}]
LtLayouts == [entry : {LtNoEntry, [present |-> TRUE, name |-> <<66, 95, 49>>]},
              mems : UNION {[1..m -> LtMems] : m \in 1..MaxMems}]
LtCase == vFam = "init" /\ PrintT(<<"ACT", "LtCase">>) /\ vFam' = "lt" /\ vCase' \in LtLayouts
LawLtRoundTrip == vFam = "lt" => LET P == LtParse(LtText(vCase)) IN
    /\ P.ok /\ P.entry = vCase.entry /\ P.mems = vCase.mems
    /\ LtPrintable(vCase) /\ Len(LtRepr(vCase)) > 2
    /\ ~LtParse(SubSeq(LtText(vCase), 1, Len(LtText(vCase)) - 2)).ok            \* the closing brace cut off

TestText == <<77, 69, 77, 79, 82, 89, 32, 102, 108, 97, 115, 104, 32, 76, 79, 67, 65, 84, 73, 79, 78, 61, 48, 120, 49, 48, 48, 48, 32, 83, 73, 90, 69, 61, 48, 120, 51, 48, 48, 48, 32, 123, 32, 83, 69, 67, 84, 73, 79, 78, 40, 99, 111, 100, 101, 41, 32, 65, 76, 73, 71, 78, 40, 52, 41, 32, 68, 69, 70, 73, 78, 69, 83, 89, 77, 66, 79, 76, 40, 120, 41, 32, 125>>
TestRepr == <<91, 77, 69, 77, 32, 102, 108, 97, 115, 104, 32, 108, 111, 99, 61, 48, 48, 48, 48, 49, 48, 48, 48, 32, 115, 105, 122, 101, 61, 48, 48, 48, 48, 51, 48, 48, 48, 91, 83, 101, 99, 116, 105, 111, 110, 40, 99, 111, 100, 101, 41, 44, 32, 65, 108, 105, 103, 110, 40, 52, 41, 44, 32, 83, 121, 109, 98, 111, 108, 32, 100, 101, 102, 105, 110, 101, 58, 32, 120, 93, 93>>
\* [t = text, ok, kinds = token kinds]
LtTexts == {
    [t |-> TestText, ok |-> TRUE, kinds |-> <<"kw", "id", "kw", "punct", "num", "kw", "punct", "num", "punct", "kw", "punct", "id",
              "punct", "kw", "punct", "num", "punct", "kw", "punct", "id", "punct", "punct">>],
    [t |-> <<49, 50, 97, 98, 32, 48, 120, 32, 48, 120, 49, 71, 32, 83, 69, 67, 84, 73, 79, 78, 68, 65, 84, 65, 32, 83, 69, 67, 84, 73, 79, 78, 32, 115, 101, 99, 116, 105, 111, 110, 32, 95, 57, 32, 58, 61, 32, 60, 61, 32, 60, 62, 32, 60, 32, 39, 113, 39, 32, 52, 50, 57, 52, 57, 54, 55, 50, 57, 54>>, ok |-> FALSE,
     kinds |-> <<"num", "id", "num", "id", "num", "id", "kw", "kw", "id", "id", "punct", "punct", "punct", "punct", "string", "num">>],
    [t |-> <<>>, ok |-> FALSE, kinds |-> <<>>],
    [t |-> <<69, 78, 84, 82, 89, 40, 109, 97, 105, 110, 41>>, ok |-> TRUE, kinds |-> <<"kw", "punct", "id", "punct">>],
    [t |-> <<77, 69, 77, 79, 82, 89, 32, 109, 32, 76, 79, 67, 65, 84, 73, 79, 78, 61, 49, 32, 83, 73, 90, 69, 61, 50, 32, 123, 32, 125>>, ok |-> FALSE, kinds |-> <<"kw", "id", "kw", "punct", "num", "kw", "punct", "num", "punct", "punct">>],
    [t |-> <<77, 69, 77, 79, 82, 89, 32, 83, 73, 90, 69, 32, 76, 79, 67, 65, 84, 73, 79, 78, 61, 49, 32, 83, 73, 90, 69, 61, 50, 32, 123, 32, 83, 69, 67, 84, 73, 79, 78, 40, 97, 41, 32, 125>>, ok |-> FALSE,
     kinds |-> <<"kw", "kw", "kw", "punct", "num", "kw", "punct", "num", "punct", "kw", "punct", "id", "punct", "punct">>],
    [t |-> <<77, 69, 77, 79, 82, 89, 32, 109, 32, 76, 79, 67, 65, 84, 73, 79, 78, 61, 49, 32, 83, 73, 90, 69, 61, 50, 32, 123, 32, 65, 76, 73, 71, 78, 40, 97, 41, 32, 125>>, ok |-> FALSE,
     kinds |-> <<"kw", "id", "kw", "punct", "num", "kw", "punct", "num", "punct", "kw", "punct", "id", "punct", "punct">>],
    [t |-> <<77, 69, 77, 79, 82, 89, 32, 109, 32, 76, 79, 67, 65, 84, 73, 79, 78, 61, 49, 32, 83, 73, 90, 69, 61, 50, 32, 123, 32, 83, 69, 67, 84, 73, 79, 78, 40, 97, 41, 32, 125, 32, 36>>, ok |-> FALSE,
     kinds |-> <<"kw", "id", "kw", "punct", "num", "kw", "punct", "num", "punct", "kw", "punct", "id", "punct", "punct", "bad">>] }
LtTextCase == vFam = "init" /\ PrintT(<<"ACT", "LtTextCase">>) /\ vFam' = "lttext" /\ vCase' \in LtTexts
LawLtLexer == vFam = "lttext" => LET K == LtLex(vCase.t, 1, <<>>) IN
    /\ Len(K) = Len(vCase.kinds) /\ \A q \in 1..Len(K) : K[q].k = vCase.kinds[q]
    /\ (Len(K) = 16 => /\ K[1].v = <<12, 0, 0, 0, 0, 0, 0, 0>> /\ K[3].v = WZero(8) /\ K[5].v = <<1, 0, 0, 0, 0, 0, 0, 0>>
                       /\ K[16].v = <<0, 0, 0, 0, 1, 0, 0, 0>> /\ K[15].s = <<113>>)
LawLtReject == vFam = "lttext" => /\ LtParse(vCase.t).ok = vCase.ok
                                  /\ (vCase.t = TestText => LtRepr(LtParse(vCase.t)) = TestRepr)

\* -------------------------------------------------------------------- PE --
LE2(num) == <<num % 256, (num \div 256) % 256>>
LE4(num) == <<num % 256, (num \div 256) % 256, (num \div 65536) % 256, 0>>
Zs(cnt) == Mk([k \in 1..cnt |-> 0])
PadTo(D, mult) == D \o Zs(FRoundUp(Len(D), mult) - Len(D))
PeSecHdr(nm, vsize, va, rawsize, rawptr, chars) == nm \o LE4(vsize) \o LE4(va) \o LE4(rawsize) \o LE4(rawptr) \o Zs(12) \o chars
\* c = [code, data (non-empty byte sequences), entry_off, lfanew (>= 64, multiple of 8)]
PeBuild(c) ==
    LET lf == c.lfanew
        hdrend == lf + 4 + 20 + 112 + 128 + 80
        hs == FRoundUp(hdrend, 512)
        craw == FRoundUp(Len(c.code), 512)
        draw == FRoundUp(Len(c.data), 512)
        dva == 4096 + FRoundUp(Len(c.code), 4096)
        dos == <<77, 90>> \o Zs(6) \o LE2(4) \o Zs(50) \o LE4(lf) \o Zs(lf - 64)
        coff == LE2(34404) \o LE2(2) \o Zs(12) \o LE2(240) \o LE2(34)
        opt == LE2(523) \o <<1, 2>> \o LE4(Len(c.code)) \o LE4(Len(c.data)) \o LE4(0) \o LE4(4096 + c.entry_off) \o LE4(4096)
               \o <<0, 0, 64, 0, 0, 0, 0, 0>> \o LE4(4096) \o LE4(512) \o Zs(16)
               \o LE4(FRoundUp(dva + Len(c.data), 4096)) \o LE4(hs) \o LE4(0) \o LE2(3) \o LE2(0) \o Zs(32) \o LE4(0) \o LE4(16)
        secs == PeSecHdr(NmText, Len(c.code), 4096, craw, hs, <<32, 0, 0, 96>>)
                \o PeSecHdr(NmData, Len(c.data), dva, draw, hs + craw, <<64, 0, 0, 192>>)
    IN PadTo(dos \o PeSig \o coff \o opt \o Zs(128) \o secs, 512) \o PadTo(c.code, 512) \o PadTo(c.data, 512)
PeCases == [code : {<<144>>, <<1, 2, 3>>, Mk([k \in 1..513 |-> k % 251])}, data : {<<7>>, <<1, 0>>}, entry_off : {0},
            lfanew : {64, 136}]
PeCase == vFam = "init" /\ PrintT(<<"ACT", "PeCase">>) /\ vFam' = "pe" /\ vCase' \in PeCases
PeContent(c) == [arch |-> "x86_64", code |-> c.code, data |-> c.data, entry_off |-> c.entry_off, imports |-> <<>>]
LawPeKat == vFam = "pe" => LET F == PeBuild(vCase) c == PeContent(vCase) lf == vCase.lfanew IN
    /\ MzFailures(F, c) = {}
    /\ MzFailures(Put(F, 1, 78), c) = {"MzMagic"}
    /\ "PeSignature" \in MzFailures(Put(F, 61, lf + 8), c)                                 \* e_lfanew elsewhere
    /\ "MzNewHeader" \in MzFailures(Put(Put(F, 61, 255), 63, 255), c)                      \* outside the file
    /\ "MzHeaderSize" \in MzFailures(Put(F, 9, 3), c)
    /\ MzFailures(Put(F, lf + 5, 77), c) = {"PeMachine"}
    /\ "PeSectionVirtual" \in MzFailures(Put(F, lf + 7, 3), c)                             \* three sections announced, third is padding
    /\ "PeSectionTable" \in MzFailures(Put(F, lf + 7, 9), c)                               \* nine do not fit into the headers
    /\ "PeOptionalHeader" \in MzFailures(Put(F, lf + 26, 1), c)                            \* PE32 magic
    /\ "PeCharacteristics" \in MzFailures(Put(F, lf + 23, 32), c)
    /\ "PeAlignment" \in MzFailures(Put(F, lf + 24 + 37, 1), c)                            \* FileAlignment 256
    /\ "PeSizeOfHeaders" \in MzFailures(Put(F, lf + 24 + 61, 4), c)                        \* SizeOfHeaders 1024 (second byte)
    /\ MzFailures(Put(F, lf + 24 + 58, 1), c) = {"PeSizeOfImage"}
    /\ "PeEntry" \in MzFailures(Put(F, lf + 24 + 17, 1), c)
    /\ "PeSizeOfCode" \in MzFailures(Put(F, lf + 24 + 7, 1), c)                            \* 64 K of code
    /\ "PeDirectories" \in MzFailures(Put(Put(F, lf + 24 + 112 + 9, 1), lf + 24 + 112 + 13, 8), c)    \* import directory in no section
    /\ "PeImports" \in MzFailures(F, [c EXCEPT !.imports = <<[dll |-> <<97>>, names |-> <<>>]>>])
    /\ "PeSectionVirtual" \in MzFailures(Put(F, lf + 264 + 12 + 1, 8), c)                  \* .text at RVA 0x1008
    /\ "PeSectionRaw" \in MzFailures(Put(F, lf + 264 + 20 + 1, 4), c)                      \* raw pointer misaligned
    /\ "PeText" \in MzFailures(Flip(F, FRoundUp(lf + 344, 512) + 1), c)                    \* first code byte
    /\ "PeText" \in MzFailures(Put(F, FRoundUp(lf + 344, 512) + Len(vCase.code) + 1, 9), c)      \* padding not zero
    /\ "PeData" \in MzFailures(Put(F, lf + 304 + 8 + 1, 99), c)                            \* VirtualSize of .data
    /\ "PeText" \in MzFailures(Put(F, lf + 264 + 39 + 1, 64), c)                           \* .text not executable

\* ----------------------------------------------------------------- bytes --
BytesCase == vFam = "init" /\ PrintT(<<"ACT", "BytesCase">>) /\ vFam' = "bytes" /\ vCase' \in (0..600) \cup {4095, 4096, 4097, 65535, 65536, 16777215}
LawBytes == vFam = "bytes" => LET n == vCase IN
    /\ FNumLE(LE4(n), 0, 4) = n /\ FNumBE(HkBE4(n), 0, 4) = n /\ FNum(WFromNat(n, 8)) = n
    /\ FNumLE(<<0, 0, 0, 1>>, 0, 4) = FCap /\ FNumLE(<<1, 2>>, 1, 2) = FCap /\ ~FIn(<<1, 2>>, 1, 2) /\ FIn(<<1, 2>>, 2, 0)
    /\ \A m \in {1, 2, 4, 512, 4096} : LET r == FRoundUp(n, m) IN r % m = 0 /\ r >= n /\ r < n + m
    /\ FIsPow2(n) = (\E e \in 0..23 : n = P2(e))
    /\ FCStr(<<n % 256, 65, 0, 66>>, 1, 8) = [ok |-> TRUE, s |-> <<65>>] /\ ~FCStr(<<65, 66>>, 0, 8).ok
    /\ LtDecDigits(n) = LtDecDigits(n) /\ LtParse(KwMemory \o <<32, 109, 32>> \o KwLocation \o <<61>> \o LtDecDigits(n) \o <<32>>
                \o KwSize \o <<61, 48, 120>> \o LtHex08(WFromNat(n, 8)) \o <<123>> \o KwAlign \o <<40>> \o LtDecDigits(n) \o <<41, 125>>).mems
         = <<[name |-> <<109>>, loc |-> WFromNat(n, 8), size |-> WFromNat(n, 8),
              inputs |-> <<[k |-> "align", name |-> <<>>, num |-> WFromNat(n, 8)]>>]>>

Init == vFam = "init" /\ vCase = <<>>
Next == CrcCase \/ UbCase \/ HkCase \/ LtCase \/ LtTextCase \/ PeCase \/ BytesCase
=============================================================================
