-------------------------------- MODULE Or1k --------------------------------
(* The ORBIS32 basic instruction set of the OpenRISC 1000 architecture       *)
(* (OpenRISC 1000 Architecture Manual, chapter 5 "Instruction set": every    *)
(* instruction page gives the 32-bit layout: opcode in bits 31:26 and the    *)
(* sub-opcode fields), transcribed from the manual independently of ppci.    *)
(* Floating point (ORFPX, opcode 0x32), vector (ORVDX, 0x0A) and the custom  *)
(* opcodes are "unsupported".  Big-endian instruction words.                 *)
(*                                                                           *)
(*   Matches(w)   the layout classes a word belongs to (exactly one)         *)
(*   DecodeW(w) / Decode(b)    word / big-endian bytes -> record             *)
(*   EncodeW(i) / Encode(i)    the reference encoder                         *)
(*   Asm(mn, ops, sym, pc)     meaning of a printed line "l.add rD,rA,rB",   *)
(*                "l.lwz rD,I(rA)", "l.sw I(rA),rB", "l.j N", hi() / lo()    *)
(*   WF(i), Reads(i), Writes(i)                                              *)
EXTENDS RiscCommon

NoReg == 32
LinkReg == 9
(*  rd ra rb  register fields D (25:21), A (20:16), B (15:11)                 *)
(*  imm  I sign-extended / K zero-extended 16-bit immediate, L shift amount, *)
(*       byte displacement from the instruction's own address (4 * N)        *)
I0 == [mn |-> "", rd |-> NoReg, ra |-> NoReg, rb |-> NoReg, imm |-> 0, fmt |-> "", len |-> 4]
NotInsn == {"reserved", "unsupported", "none"}
Bad(k) == [I0 EXCEPT !.mn = k]
Valid(i) == i.mn \notin NotInsn
Core(i) == [i EXCEPT !.fmt = ""]
NoAsm == [I0 EXCEPT !.mn = "none", !.len = 0]
Ins(mn, f) == [I0 EXCEPT !.mn = mn, !.fmt = f]

-----------------------------------------------------------------------------
(* major opcodes, bits 31:26                                                 *)
JumpOp == {<<0, "l.j">>, <<1, "l.jal">>, <<3, "l.bnf">>, <<4, "l.bf">>}
LoadOp == {<<27, "l.lwa">>, <<33, "l.lwz">>, <<34, "l.lws">>, <<35, "l.lbz">>, <<36, "l.lbs">>, <<37, "l.lhz">>, <<38, "l.lhs">>}
ImmSOp == {<<39, "l.addi">>, <<40, "l.addic">>, <<43, "l.xori">>, <<44, "l.muli">>}     \* sign-extended I
ImmUOp == {<<41, "l.andi">>, <<42, "l.ori">>}                                             \* zero-extended K
StoreOp == {<<51, "l.swa">>, <<53, "l.sw">>, <<54, "l.sb">>, <<55, "l.sh">>}
ShiftImm == <<"l.slli", "l.srli", "l.srai", "l.rori">>                                    \* opcode 0x2E, bits 7:6
SfCond == {<<0, "eq">>, <<1, "ne">>, <<2, "gtu">>, <<3, "geu">>, <<4, "ltu">>, <<5, "leu">>,
           <<10, "gts">>, <<11, "ges">>, <<12, "lts">>, <<13, "les">>}                   \* bits 25:21 of 0x2F / 0x39
(* opcode 0x38: <<bits 9:8, bits 7:6 (-1: reserved, must be 0), bits 3:0, mnemonic, operands>> *)
AluTab == {<<0, -1, 0, "l.add", 3>>, <<0, -1, 1, "l.addc", 3>>, <<0, -1, 2, "l.sub", 3>>, <<0, -1, 3, "l.and", 3>>,
           <<0, -1, 4, "l.or", 3>>, <<0, -1, 5, "l.xor", 3>>, <<3, -1, 6, "l.mul", 3>>,
           <<0, 0, 8, "l.sll", 3>>, <<0, 1, 8, "l.srl", 3>>, <<0, 2, 8, "l.sra", 3>>, <<0, 3, 8, "l.ror", 3>>,
           <<3, -1, 9, "l.div", 3>>, <<3, -1, 10, "l.divu", 3>>, <<3, -1, 11, "l.mulu", 3>>,
           <<0, 0, 12, "l.exths", 2>>, <<0, 1, 12, "l.extbs", 2>>, <<0, 2, 12, "l.exthz", 2>>, <<0, 3, 12, "l.extbz", 2>>,
           <<0, 0, 13, "l.extws", 2>>, <<0, 1, 13, "l.extwz", 2>>, <<0, -1, 14, "l.cmov", 3>>,
           <<0, -1, 15, "l.ff1", 2>>, <<1, -1, 15, "l.fl1", 2>>}
Names(S) == {p[2] : p \in S}
OpOf(S, m) == (CHOOSE p \in S : p[2] = m)[1]
NameOf(S, op) == (CHOOSE p \in S : p[1] = op)[2]
Ops(S) == {p[1] : p \in S}
JumpMn == Names(JumpOp)
LoadMn == Names(LoadOp)
ImmSMn == Names(ImmSOp)
ImmUMn == Names(ImmUOp)
StoreMn == Names(StoreOp)
Alu3 == {t[4] : t \in {x \in AluTab : x[5] = 3}}
Alu2 == {t[4] : t \in {x \in AluTab : x[5] = 2}}
SfR == {"l.sf" \o p[2] : p \in SfCond}
SfI == {"l.sf" \o p[2] \o "i" : p \in SfCond}
ShI == {ShiftImm[k] : k \in 1..4}

Fmt == {"J", "NOP", "HI", "SYS", "RFE", "JR", "LD", "IMM", "SPR", "SHI", "SFI", "MAC", "ST", "ALU", "SF", "EXT", "RSV"}
ExtOps == {10, 50, 28, 29, 30, 31, 60, 61, 62, 63, 32, 52}          \* lv.*, lf.*, l.cust1-8, l.ld / l.sd (64-bit implementations)
Match(f, w) ==
    LET op == Op6(w) IN
    CASE f = "J" -> op \in Ops(JumpOp)
      [] f = "NOP" -> op = 5
      [] f = "HI" -> op = 6
      [] f = "SYS" -> op = 8
      [] f = "RFE" -> op = 9
      [] f = "JR" -> op \in {17, 18}
      [] f = "LD" -> op \in Ops(LoadOp)
      [] f = "IMM" -> op \in Ops(ImmSOp) \cup Ops(ImmUOp)
      [] f = "SPR" -> op \in {45, 48}
      [] f = "SHI" -> op = 46
      [] f = "SFI" -> op = 47
      [] f = "MAC" -> op \in {19, 49}
      [] f = "ST" -> op \in Ops(StoreOp)
      [] f = "ALU" -> op = 56
      [] f = "SF" -> op = 57
      [] f = "EXT" -> op \in ExtOps
      [] f = "RSV" -> op \in {2, 7, 11, 12, 13, 14, 15, 16, 20, 21, 22, 23, 24, 25, 26, 58, 59}
Matches(w) == {f \in Fmt : Match(f, w)}

DecAlu(w) ==
    LET hi2 == Bits(w[2], 8, 2)  sh == Bits(w[2], 6, 2)  lo4 == Bits(w[2], 0, 4)
        rows == {t \in AluTab : t[1] = hi2 /\ t[3] = lo4 /\ (t[2] = -1 \/ t[2] = sh)} IN
    IF rows = {} \/ Bit(w[2], 10) = 1 \/ Bits(w[2], 4, 2) # 0 THEN Bad("reserved")
    ELSE LET t == CHOOSE x \in rows : TRUE IN
         IF t[2] = -1 /\ sh # 0 THEN Bad("reserved")
         ELSE IF t[5] = 3 THEN [Ins(t[4], "ALU") EXCEPT !.rd = F25(w), !.ra = F20(w), !.rb = F15(w)]
         ELSE IF F15(w) # 0 THEN Bad("reserved")
         ELSE [Ins(t[4], "ALU") EXCEPT !.rd = F25(w), !.ra = F20(w)]
Dec(f, w) ==
    LET op == Op6(w) IN
    CASE f = "J" -> [Ins(NameOf(JumpOp, op), f) EXCEPT !.imm = 4 * SignExt(Lo26(w), 26)]
      [] f = "NOP" -> IF Bits(w[1], 0, 10) # 256 THEN Bad("reserved")                 \* 000101 01 -------- K
                      ELSE [Ins("l.nop", f) EXCEPT !.imm = Lo16(w)]
      [] f = "HI" -> IF Bits(w[1], 1, 4) # 0 THEN Bad("reserved")
                     ELSE IF Bit(w[1], 0) = 0 THEN [Ins("l.movhi", f) EXCEPT !.rd = F25(w), !.imm = Lo16(w)]
                     ELSE IF Lo16(w) # 0 THEN Bad("reserved") ELSE [Ins("l.macrc", f) EXCEPT !.rd = F25(w)]
      [] f = "SYS" -> LET sub == Bits(w[1], 0, 10) IN
                      CASE sub = 0 -> [Ins("l.sys", f) EXCEPT !.imm = Lo16(w)]
                        [] sub = 256 -> [Ins("l.trap", f) EXCEPT !.imm = Lo16(w)]
                        [] sub = 512 /\ Lo16(w) = 0 -> Ins("l.msync", f)
                        [] sub = 640 /\ Lo16(w) = 0 -> Ins("l.psync", f)
                        [] sub = 768 /\ Lo16(w) = 0 -> Ins("l.csync", f)
                        [] OTHER -> Bad("reserved")
      [] f = "RFE" -> IF Bits(w[1], 0, 10) = 0 /\ Lo16(w) = 0 THEN Ins("l.rfe", f) ELSE Bad("reserved")
      [] f = "JR" -> IF Bits(w[1], 0, 10) # 0 \/ Lo11(w) # 0 THEN Bad("reserved")
                     ELSE [Ins(IF op = 17 THEN "l.jr" ELSE "l.jalr", f) EXCEPT !.rb = F15(w)]
      [] f = "LD" -> [Ins(NameOf(LoadOp, op), f) EXCEPT !.rd = F25(w), !.ra = F20(w), !.imm = SignExt(Lo16(w), 16)]
      [] f = "IMM" -> IF op \in Ops(ImmSOp)
                      THEN [Ins(NameOf(ImmSOp, op), f) EXCEPT !.rd = F25(w), !.ra = F20(w), !.imm = SignExt(Lo16(w), 16)]
                      ELSE [Ins(NameOf(ImmUOp, op), f) EXCEPT !.rd = F25(w), !.ra = F20(w), !.imm = Lo16(w)]
      [] f = "SPR" -> IF op = 45 THEN [Ins("l.mfspr", f) EXCEPT !.rd = F25(w), !.ra = F20(w), !.imm = Lo16(w)]
                      ELSE [Ins("l.mtspr", f) EXCEPT !.ra = F20(w), !.rb = F15(w), !.imm = F25(w) * 2048 + Lo11(w)]
      [] f = "SHI" -> IF Bits(w[2], 8, 8) # 0 THEN Bad("reserved")
                      ELSE [Ins(ShiftImm[Bits(w[2], 6, 2) + 1], f) EXCEPT !.rd = F25(w), !.ra = F20(w), !.imm = Bits(w[2], 0, 6)]
      [] f = "SFI" -> IF F25(w) \notin Ops(SfCond) THEN Bad("reserved")
                      ELSE [Ins("l.sf" \o NameOf(SfCond, F25(w)) \o "i", f) EXCEPT !.ra = F20(w), !.imm = SignExt(Lo16(w), 16)]
      [] f = "MAC" -> IF F25(w) # 0 THEN Bad("reserved")
                      ELSE IF op = 19 THEN [Ins("l.maci", f) EXCEPT !.ra = F20(w), !.imm = SignExt(Lo16(w), 16)]
                      ELSE IF Bits(w[2], 4, 7) # 0 \/ Bits(w[2], 0, 4) \notin 1..4 THEN Bad("reserved")
                      ELSE [Ins(<<"l.mac", "l.msb", "l.macu", "l.msbu">>[Bits(w[2], 0, 4)], f) EXCEPT !.ra = F20(w), !.rb = F15(w)]
      [] f = "ST" -> [Ins(NameOf(StoreOp, op), f) EXCEPT !.ra = F20(w), !.rb = F15(w),
                                                         !.imm = SignExt(F25(w) * 2048 + Lo11(w), 16)]   \* I = bits 25:21 : bits 10:0
      [] f = "ALU" -> DecAlu(w)
      [] f = "SF" -> IF F25(w) \notin Ops(SfCond) \/ Lo11(w) # 0 THEN Bad("reserved")
                     ELSE [Ins("l.sf" \o NameOf(SfCond, F25(w)), f) EXCEPT !.ra = F20(w), !.rb = F15(w)]
      [] f = "EXT" -> Bad("unsupported")
      [] f = "RSV" -> Bad("reserved")
DecodeW(w) == LET m == Matches(w) IN IF m = {} THEN Bad("reserved") ELSE Dec(CHOOSE f \in m : TRUE, w)
Decode(b) == IF Len(b) = 4 THEN DecodeW(WordBE(b)) ELSE [Bad("reserved") EXCEPT !.len = Len(b)]

-----------------------------------------------------------------------------
(* The reference encoder                                                     *)
CondOf(m, suffix) == (CHOOSE p \in SfCond : m = "l.sf" \o p[2] \o suffix)[1]
EncodeW(i) ==
    LET m == i.mn IN
    CASE m \in JumpMn -> MkJ(OpOf(JumpOp, m), Pattern(i.imm \div 4, 26))
      [] m = "l.nop" -> <<5 * 1024 + 256, i.imm>>
      [] m = "l.movhi" -> MkW(6, i.rd, 0, i.imm)
      [] m = "l.macrc" -> MkW(6, i.rd, 1, 0)
      [] m = "l.sys" -> <<8 * 1024, i.imm>>
      [] m = "l.trap" -> <<8 * 1024 + 256, i.imm>>
      [] m = "l.msync" -> <<8 * 1024 + 512, 0>>
      [] m = "l.psync" -> <<8 * 1024 + 640, 0>>
      [] m = "l.csync" -> <<8 * 1024 + 768, 0>>
      [] m = "l.rfe" -> <<9 * 1024, 0>>
      [] m \in {"l.jr", "l.jalr"} -> MkW(IF m = "l.jr" THEN 17 ELSE 18, 0, 0, i.rb * 2048)
      [] m \in LoadMn -> MkW(OpOf(LoadOp, m), i.rd, i.ra, Pattern(i.imm, 16))
      [] m \in ImmSMn -> MkW(OpOf(ImmSOp, m), i.rd, i.ra, Pattern(i.imm, 16))
      [] m \in ImmUMn -> MkW(OpOf(ImmUOp, m), i.rd, i.ra, i.imm)
      [] m = "l.mfspr" -> MkW(45, i.rd, i.ra, i.imm)
      [] m = "l.mtspr" -> MkW(48, i.imm \div 2048, i.ra, i.rb * 2048 + (i.imm % 2048))
      [] m \in ShI -> MkW(46, i.rd, i.ra, ((CHOOSE k \in 1..4 : ShiftImm[k] = m) - 1) * 64 + i.imm)
      [] m \in SfI -> MkW(47, CondOf(m, "i"), i.ra, Pattern(i.imm, 16))
      [] m = "l.maci" -> MkW(19, 0, i.ra, Pattern(i.imm, 16))
      [] m \in {"l.mac", "l.msb", "l.macu", "l.msbu"} ->
            MkW(49, 0, i.ra, i.rb * 2048 + (CHOOSE k \in 1..4 : <<"l.mac", "l.msb", "l.macu", "l.msbu">>[k] = m))
      [] m \in StoreMn -> LET v == Pattern(i.imm, 16) IN MkW(OpOf(StoreOp, m), v \div 2048, i.ra, i.rb * 2048 + (v % 2048))
      [] m \in Alu3 \cup Alu2 ->
            LET t == CHOOSE x \in AluTab : x[4] = m IN
            MkW(56, i.rd, i.ra, (IF t[5] = 3 THEN i.rb ELSE 0) * 2048 + t[1] * 256 + (IF t[2] = -1 THEN 0 ELSE t[2]) * 64 + t[3])
      [] m \in SfR -> MkW(57, CondOf(m, ""), i.ra, i.rb * 2048)
Encode(i) == BytesBE(EncodeW(i))

Reg(r) == r \in 0..31
S16(v) == -32768 <= v /\ v <= 32767
Has(i, rd, ra, rb) == /\ (IF rd THEN Reg(i.rd) ELSE i.rd = NoReg) /\ (IF ra THEN Reg(i.ra) ELSE i.ra = NoReg)
                      /\ (IF rb THEN Reg(i.rb) ELSE i.rb = NoReg)
WF(i) ==
    LET m == i.mn IN
    /\ i.len = 4
    /\ CASE m \in JumpMn -> Has(i, FALSE, FALSE, FALSE) /\ -134217728 <= i.imm /\ i.imm <= 134217724 /\ i.imm % 4 = 0
         [] m \in {"l.nop", "l.sys", "l.trap"} -> Has(i, FALSE, FALSE, FALSE) /\ i.imm \in Half
         [] m = "l.movhi" -> Has(i, TRUE, FALSE, FALSE) /\ i.imm \in Half
         [] m = "l.macrc" -> Has(i, TRUE, FALSE, FALSE) /\ i.imm = 0
         [] m \in {"l.msync", "l.psync", "l.csync", "l.rfe"} -> Has(i, FALSE, FALSE, FALSE) /\ i.imm = 0
         [] m \in {"l.jr", "l.jalr"} -> Has(i, FALSE, FALSE, TRUE) /\ i.imm = 0
         [] m \in LoadMn \cup ImmSMn -> Has(i, TRUE, TRUE, FALSE) /\ S16(i.imm)
         [] m \in ImmUMn \cup {"l.mfspr"} -> Has(i, TRUE, TRUE, FALSE) /\ i.imm \in Half
         [] m = "l.mtspr" -> Has(i, FALSE, TRUE, TRUE) /\ i.imm \in Half
         [] m \in ShI -> Has(i, TRUE, TRUE, FALSE) /\ i.imm \in 0..63
         [] m \in SfI \cup {"l.maci"} -> Has(i, FALSE, TRUE, FALSE) /\ S16(i.imm)
         [] m \in {"l.mac", "l.msb", "l.macu", "l.msbu"} \cup SfR -> Has(i, FALSE, TRUE, TRUE) /\ i.imm = 0
         [] m \in StoreMn -> Has(i, FALSE, TRUE, TRUE) /\ S16(i.imm)
         [] m \in Alu3 -> Has(i, TRUE, TRUE, TRUE) /\ i.imm = 0
         [] m \in Alu2 -> Has(i, TRUE, TRUE, FALSE) /\ i.imm = 0
         [] OTHER -> FALSE
ImmWF(i) == WF(i)

-----------------------------------------------------------------------------
(* Meaning of a printed line.  hi(label) = bits 31:16 of the address,        *)
(* lo(label) = bits 15:0, read as the instruction reads its immediate field  *)
(* (sign-extended by l.addi .., zero-extended by l.ori / l.andi / l.movhi).  *)
HiOf(sym) == (sym \div 65536) % 65536
LoOf(sym) == sym % 65536
AsImm(mn, v16) == IF mn \in ImmUMn \cup {"l.movhi"} THEN v16 ELSE SignExt(v16, 16)
Asm(mn, ops, sym, pc) ==
    LET p == Pat(ops)  R1 == Num(ops, 1)  R2 == Num(ops, 2)  R3 == Num(ops, 3) IN
    CASE mn \in Alu3 /\ p = "rrr" -> [Ins(mn, "") EXCEPT !.rd = R1, !.ra = R2, !.rb = R3]
      [] mn \in Alu2 /\ p = "rr" -> [Ins(mn, "") EXCEPT !.rd = R1, !.ra = R2]
      [] mn \in ImmSMn \cup ImmUMn \cup ShI \cup {"l.mfspr"} /\ p = "rri" ->
            [Ins(mn, "") EXCEPT !.rd = R1, !.ra = R2, !.imm = R3]
      [] mn \in ImmSMn \cup ImmUMn /\ p = "rrw(l)" /\ Txt(ops, 3) \in {"hi", "lo"} ->
            [Ins(mn, "") EXCEPT !.rd = R1, !.ra = R2, !.imm = AsImm(mn, IF Txt(ops, 3) = "hi" THEN HiOf(sym) ELSE LoOf(sym))]
      [] mn = "l.movhi" /\ p = "ri" -> [Ins(mn, "") EXCEPT !.rd = R1, !.imm = R2]
      [] mn = "l.movhi" /\ p = "rw(l)" /\ Txt(ops, 2) \in {"hi", "lo"} ->
            [Ins(mn, "") EXCEPT !.rd = R1, !.imm = IF Txt(ops, 2) = "hi" THEN HiOf(sym) ELSE LoOf(sym)]
      [] mn = "l.macrc" /\ p = "r" -> [Ins(mn, "") EXCEPT !.rd = R1]
      [] mn \in LoadMn /\ p = "ri(r)" -> [Ins(mn, "") EXCEPT !.rd = R1, !.imm = R2, !.ra = Num(ops, 4)]
      [] mn \in StoreMn /\ p = "i(r)r" -> [Ins(mn, "") EXCEPT !.imm = R1, !.ra = R3, !.rb = Num(ops, 5)]
      [] mn \in SfR /\ p = "rr" -> [Ins(mn, "") EXCEPT !.ra = R1, !.rb = R2]
      [] mn \in SfI \cup {"l.maci"} /\ p = "ri" -> [Ins(mn, "") EXCEPT !.ra = R1, !.imm = R2]
      [] mn \in {"l.mac", "l.msb", "l.macu", "l.msbu"} /\ p = "rr" -> [Ins(mn, "") EXCEPT !.ra = R1, !.rb = R2]
      [] mn = "l.mtspr" /\ p = "rri" -> [Ins(mn, "") EXCEPT !.ra = R1, !.rb = R2, !.imm = R3]
      [] mn \in {"l.jr", "l.jalr"} /\ p = "r" -> [Ins(mn, "") EXCEPT !.rb = R1]
      [] mn \in JumpMn /\ p = "l" -> [Ins(mn, "") EXCEPT !.imm = sym - pc]
      [] mn \in {"l.nop", "l.sys", "l.trap"} /\ p = "i" -> [Ins(mn, "") EXCEPT !.imm = R1]
      [] mn = "l.nop" /\ p = "" -> Ins(mn, "")
      [] mn \in {"l.msync", "l.psync", "l.csync", "l.rfe"} /\ p = "" -> Ins(mn, "")
      [] OTHER -> NoAsm

-----------------------------------------------------------------------------
(* General-purpose registers read / written (the flag, carry, MAC and SPRs   *)
(* are not GPRs; r0 is an ordinary register by the architecture).  l.cmov    *)
(* reads both sources; l.jal / l.jalr write the link register r9.            *)
Reads(i) == {i.ra, i.rb} \ {NoReg}
LinkW(i) == IF i.mn \in {"l.jal", "l.jalr"} THEN {LinkReg} ELSE {}
Writes(i) == ({i.rd} \ {NoReg}) \cup LinkW(i)

(* Operand ranges of the printed forms: <<mnemonics, pattern, lo, hi, alignment>> *)
Ranges == {
    <<ImmSMn, "rri", -32768, 32767, 1>>, <<ImmUMn, "rri", 0, 65535, 1>>, <<{"l.movhi"}, "ri", 0, 65535, 1>>,
    <<LoadMn, "ri(r)", -32768, 32767, 1>>, <<StoreMn, "i(r)r", -32768, 32767, 1>>, <<ShI, "rri", 0, 63, 1>>,
    <<{"l.nop", "l.sys", "l.trap"}, "i", 0, 65535, 1>>, <<JumpMn, "l", -134217728, 134217724, 4>>,
    <<SfI, "ri", -32768, 32767, 1>> }
\* label addresses for the hi() / lo() forms: every 16-bit half at its boundaries
HiLoSyms == {0, 4, 32764, 32768, 65532, 65536, 305419896, 305432168, 2147450880, 2147483644, 2147418112, 16777216, 8421504}
=============================================================================
