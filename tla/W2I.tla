-------------------------------- MODULE W2I --------------------------------
(* X03: the IR module produced by ppci.wasm.wasm_to_ir behaves as the         *)
(* WebAssembly module it was made from.                                       *)
(*                                                                            *)
(* The IR side is IR.tla (EXTENDS: every instruction action of IR.tla is      *)
(* reused unchanged) embedded in the *runtime contract* under which ppci runs *)
(* translated code (ppci/wasm/execution/_instantiate.py, _base_instance.py,   *)
(* _native_instance.py, runtime.py), written down here as actions:            *)
(*   Instantiate  lay out the IR globals, invoke `_run_init`                  *)
(*   LoadState    load_tables (table record {data pointer, size} + data area, *)
(*                active element segments copied from the elem_<n> variable), *)
(*                load_memory (linear memory created, its base address put    *)
(*                into the IR variable wasm_mem0_address, data segments       *)
(*                written), then the start function                           *)
(*   NextCall     invoke the IR function of the next exported wasm function   *)
(*                (function_names[export index] of the translator's info)     *)
(*   RtCall       calls of the external functions wasm_rt_*: unreachable      *)
(*                (the runtime raises: the execution ends as a trap),         *)
(*                memory_size / memory_grow (grow *relocates* the memory and  *)
(*                rewrites wasm_mem0_address, as the native runtime does),    *)
(*                clz / ctz / popcnt / rotl / rotr / extendN_s with the       *)
(*                numerics of Wasm.tla (W!UnVal, W!ExtVal, W!BinVal)          *)
(*   LinLoad / LinStore   an IR load / store whose address lies in the window *)
(*                [linbase, linbase + pages * 64Ki) accesses the linear       *)
(*                memory `lin` (offset = address - linbase); every other      *)
(*                address is IR.tla's own memory (globals, allocas, tables)   *)
(* The wasm side is Wasm.tla: the case carries, per call index, the           *)
(* observation Wasm.tla made of the source module (C.wobs, printed by         *)
(* Wasm_Run.NextEmit in a first TLC run) and the invariants X* compare        *)
(* the two observations call by call.                                         *)
(*                                                                            *)
(* What is judged (ppci's contract for traps, read from wasm2ppci.py): the    *)
(* translator emits no bounds checks, no check of the divisor and no          *)
(* signature check of call_indirect; the only trap it implements is           *)
(* `unreachable` (call of wasm_rt_unreachable).  So a call is judged iff      *)
(* Wasm.tla says "ok" or "trap: unreachable"; every other wasm outcome        *)
(* (other traps, out of model, fuel) is skipped, and the call sequence of the *)
(* instance ends with the first call that is not "ok".                        *)
EXTENDS IR, W2IMap

W == INSTANCE Wasm WITH chunk <- 0, i <- 0, ph <- 0, ci <- 0, stack <- <<>>, mem <- <<>>, pages <- 0, glob <- <<>>,
                        tab <- <<>>, calls <- <<>>, status <- "", why <- "", ret <- <<>>, steps <- 0, olog <- <<>>

VARIABLES ci,        \* -1: `_run_init` running; 0: instantiation state loaded, start function; k: calls[k]
          lin,       \* linear memory: offset -> byte on the touched cells (others 0), as Wasm.tla's mem
          linbase,   \* address the runtime gave the linear memory (0: none)
          pages,     \* its size in pages (-1: none)
          statsz,    \* Len(mem) after instantiation: what every call starts from
          grows      \* number of relocations so far

xvars == <<ci, lin, linbase, pages, statsz, grows>>
allvars == <<vars, xvars>>

R == C.rt           \* the translator's map (ir module._wasm_info): wasm index spaces -> IR globals
WM == C.wmod        \* the wasm module (the parts the runtime reads at instantiation)

CellsOf(mm, a, n) == Mk([j \in 1..n |-> mm[a + j - 1]])
Pad(mm, upto) == mm \o Mk([j \in 1..(upto - Len(mm)) |-> Unmapped])

(* ---- instantiation: what the runtime does --------------------------------------------------- *)
IsFn(m, g) == g > 0 /\ g <= Len(m.globals) /\ m.globals[g].k = "fn"
IsVar(m, g) == g > 0 /\ g <= Len(m.globals) /\ m.globals[g].k = "var"

\* create_table + set_table_ptr: record {pointer to the data area, size : i32} and the zeroed data area are
\* appended to the memory; the IR variable table_<n> receives the address of the record
RECURSIVE LoadTablesR(_, _, _, _)
LoadTablesR(m, ga, mm, t) ==
    IF t > Len(WM.tables) THEN mm
    ELSE LET pb == m.pb
             tm == AlignUp(Len(mm) + 1, 8)
             td == AlignUp(tm + pb + 4, 8)
             n == WM.tables[t].min
             m1 == Pad(mm, tm - 1) \o WFromNat(td, pb) \o WFromNat(n, 4)
             m2 == Pad(m1, td - 1) \o Mk([j \in 1..(n * pb) |-> 0])
         IN LoadTablesR(m, ga, WriteCells(m2, ga[R.tables[t]], WFromNat(tm, pb)), t + 1)

TableData(m, ga, mm, t) == WToNat(CellsOf(mm, WToNat(CellsOf(mm, ga[R.tables[t]], m.pb)), m.pb))

\* load_tables, second half: active element segments are copied from the elem_<n> variable (filled by
\* `_run_init`) into the table
RECURSIVE LoadElemsR(_, _, _, _)
LoadElemsR(m, ga, acc, e) ==       \* acc = <<memory, fits>>
    IF e > Len(WM.elems) \/ ~acc[2] THEN acc
    ELSE LET E == WM.elems[e] IN
         IF E.mode # "active" THEN LoadElemsR(m, ga, acc, e + 1)
         ELSE LET mm == acc[1]  t == E.table + 1  ow == W!ConstVal(E.offset)  n == Len(E.refs) IN
              IF t < 1 \/ t > Len(WM.tables) \/ ~WFitsNat(ow) \/ WToNat(ow) + n > WM.tables[t].min \/ ~IsVar(m, R.elems[e])
              THEN <<mm, FALSE>>
              ELSE LET td == TableData(m, ga, mm, t) IN
                   LoadElemsR(m, ga, <<WriteCells(mm, td + WToNat(ow) * m.pb, CellsOf(mm, ga[R.elems[e]], n * m.pb)), TRUE>>,
                              e + 1)

HasMem == Len(WM.mems) >= 1

Instantiate ==
    /\ chunk > 0 /\ i = 0
    /\ i' \in {k \in 1..Len(Cases) : k % NChunks = chunk - 1}
    /\ av' = 1 /\ ph' = 1 /\ obs0' = <<>>
    /\ LET c == Cases[i']
           m == c.mods[1]
           lay == LayoutR(m.globals, 1, GlobalBase, <<>>)
           g == c.rt.init
       IN /\ gaddr' = lay[1]
          /\ mem' = InitMem(m.globals, lay[1], m.pb)
          /\ IF ~IsFn(m, g) \/ Len(m.funcs[m.globals[g].fi].params) # 0
             THEN status' = "stuck" /\ why' = "no _run_init procedure" /\ stack' = <<>>
             ELSE status' = "run" /\ why' = "" /\ stack' = <<NewFrame(m, m.globals[g].fi, <<>>, 0, 0)>>
    /\ calls' = <<>> /\ ret' = Poison /\ steps' = 0
    /\ ci' = -1 /\ lin' = <<>> /\ linbase' = 0 /\ pages' = -1 /\ statsz' = 0 /\ grows' = 0
    /\ UNCHANGED chunk

MapComplete ==       \* every wasm table / element segment / memory has its IR variable
    /\ Len(R.tables) = Len(WM.tables) /\ \A t \in 1..Len(R.tables) : IsVar(M, R.tables[t])
    /\ Len(R.elems) = Len(WM.elems)
    /\ HasMem => IsVar(M, R.mem0)

LoadState ==
    /\ i > 0 /\ ci = -1 /\ status = "ok"
    /\ IF ~MapComplete
       THEN /\ status' = "stuck" /\ why' = "a table / element / memory variable is missing" /\ stack' = <<>>
            /\ UNCHANGED <<mem, lin, pages, linbase, statsz>>
       ELSE LET m1 == LoadTablesR(M, gaddr, mem, 1)
                er == LoadElemsR(M, gaddr, <<m1, TRUE>>, 1)
                pg == IF HasMem THEN WM.mems[1].min ELSE -1
                dr == W!InitMem(WM, 1, pg, <<<<>>, TRUE>>)
                m2 == IF HasMem THEN WriteCells(er[1], gaddr[R.mem0], WFromNat(LinBase0, PB)) ELSE er[1]
            IN /\ mem' = m2 /\ statsz' = Len(m2)
               /\ lin' = dr[1] /\ pages' = pg /\ linbase' = IF HasMem THEN LinBase0 ELSE 0
               /\ IF ~er[2] \/ ~dr[2]
                  THEN status' = "nocontract" /\ why' = "a segment does not fit" /\ stack' = <<>>
                  ELSE IF R.start = 0 THEN status' = "ok" /\ why' = "" /\ stack' = <<>>
                  ELSE IF ~IsFn(M, R.start) \/ Len(M.funcs[M.globals[R.start].fi].params) # 0
                  THEN status' = "stuck" /\ why' = "no start procedure" /\ stack' = <<>>
                  ELSE status' = "run" /\ why' = "" /\ stack' = <<NewFrame(M, M.globals[R.start].fi, <<>>, 0, Len(m2))>>
    /\ ci' = 0 /\ calls' = <<>> /\ ret' = Poison /\ steps' = 0 /\ grows' = 0
    /\ UNCHANGED <<chunk, i, av, ph, obs0, gaddr>>

(* ---- the wasm side's observation of the current call ------------------------------------------------- *)
K == IF ci < 0 THEN 0 ELSE ci
WObs == C.wobs[K + 1]
WJudged(o) == o.status = "ok" \/ (o.status = "trap" /\ o.why = "unreachable")

\* a translated wasm instruction costs a bounded number of IR instructions
Budget == IF ci < 0 THEN 100000 ELSE 60 * WObs.steps + 2000
XOutOfFuel == Running /\ steps >= Budget
(* ---- runtime functions ------------------------------------------------------------------------- *)
RtUn == {<<t, o>> : t \in {"i32", "i64"}, o \in {"clz", "ctz", "popcnt", "extend8_s", "extend16_s"}}
            \cup {<<"i64", "extend32_s">>}
RtBin == {<<t, o>> : t \in {"i32", "i64"}, o \in {"rotl", "rotr"}}
RtName(p) == "wasm_rt_" \o p[1] \o "_" \o p[2]
RtNames == {"wasm_rt_unreachable", "wasm_rt_memory_size", "wasm_rt_memory_grow"}
               \cup {RtName(p) : p \in RtUn \cup RtBin}
RtWidth(t) == IF t = "i32" THEN 4 ELSE 8

Callee == CalleeGlobal(I.c)
IsRt == /\ Running /\ ~XOutOfFuel /\ HasIns /\ I.k \in {"call", "pcall"}
        /\ Callee # 0 /\ M.globals[Callee].k = "xfn" /\ M.globals[Callee].name \in RtNames

\* value of a pure runtime function; <<>> when it is called against its signature
RtVal(nm, args) ==
    LET U == {p \in RtUn : RtName(p) = nm}  B == {p \in RtBin : RtName(p) = nm} IN
    IF U # {} THEN LET p == CHOOSE q \in U : TRUE IN
                   IF Len(args) # 1 \/ Len(args[1]) # RtWidth(p[1]) THEN <<>>
                   ELSE IF p[2] \in W!UnNames THEN W!UnVal(p[2], args[1]) ELSE W!ExtVal(p[2], args[1])
    ELSE IF B # {} THEN LET p == CHOOSE q \in B : TRUE IN
                        IF Len(args) # 2 \/ Len(args[1]) # RtWidth(p[1]) \/ Len(args[2]) # RtWidth(p[1]) THEN <<>>
                        ELSE W!BinVal(p[2], args[1], args[2])
    ELSE <<>>

XKeep == UNCHANGED <<chunk, i, av, ph, obs0>>

RtCall ==
    /\ IsRt
    /\ LET nm == M.globals[Callee].name
           args == Mk([j \in 1..Len(I.args) |-> Opv(I.args[j])])
       IN IF \E j \in 1..Len(args) : args[j] = Poison
          THEN Halt("undefined", "poison argument of a runtime call") /\ UNCHANGED xvars
          ELSE IF nm = "wasm_rt_unreachable"
          THEN Halt("trap", "unreachable") /\ UNCHANGED xvars
          ELSE IF nm = "wasm_rt_memory_size"
          THEN /\ IF I.k # "call" \/ Len(args) # 1 \/ args[1] # WZero(4) \/ pages < 0 \/ Sz(I.ty) # 4
                  THEN Halt("stuck", "memory.size against the runtime's signature")
                  ELSE Advance(I.d, W!I32(pages)) /\ UNCHANGED <<mem, calls>>
               /\ UNCHANGED xvars
          ELSE IF nm = "wasm_rt_memory_grow"
          THEN IF I.k # "call" \/ Len(args) # 2 \/ args[1] # WZero(4) \/ Len(args[2]) # 4 \/ pages < 0 \/ Sz(I.ty) # 4
               THEN Halt("stuck", "memory.grow against the runtime's signature") /\ UNCHANGED xvars
               ELSE LET lim == IF WM.mems[1].max >= 0 THEN WM.mems[1].max ELSE W!HardMaxPages
                        d == args[2] IN
                    IF ~WFitsNat(d) \/ WToNat(d) > W!HardMaxPages \/ pages + WToNat(d) > lim
                    THEN Advance(I.d, W!I32(-1)) /\ UNCHANGED <<mem, calls>> /\ UNCHANGED xvars
                    ELSE IF pages + WToNat(d) > W!ModelMaxPages
                    THEN Halt("outofmodel", "memory larger than the model follows") /\ UNCHANGED xvars
                    ELSE \* success: the memory moves; the runtime rewrites the base pointer
                         /\ pages' = pages + WToNat(d)
                         /\ grows' = grows + 1
                         /\ linbase' = BaseAfterGrow(grows + 1)
                         /\ mem' = WriteCells(mem, gaddr[R.mem0], WFromNat(BaseAfterGrow(grows + 1), PB))
                         /\ Advance(I.d, W!I32(pages)) /\ UNCHANGED calls
                         /\ UNCHANGED <<ci, lin, statsz>>
          ELSE LET v == RtVal(nm, args) IN
               /\ IF v = <<>> \/ I.k # "call" \/ Len(v) # Sz(I.ty)
                  THEN Halt("stuck", "runtime function called against its signature")
                  ELSE Advance(I.d, v) /\ UNCHANGED <<mem, calls>>
               /\ UNCHANGED xvars
    /\ XKeep

(* ---- accesses of the linear memory ---------------------------------------------------------------- *)
AccTy == IF I.k = "load" THEN I.ty ELSE I.bty
IsLinAcc == /\ Running /\ ~XOutOfFuel /\ HasIns /\ I.k \in {"load", "store"}
            /\ AddrOK(Opv(I.a)) /\ InLin(WToNat(Opv(I.a)), Sz(AccTy), linbase, pages)

LinLoad ==
    /\ IsLinAcc /\ I.k = "load"
    /\ IF IsFloatTy(I.ty) THEN Halt("outofmodel", "float")
       ELSE Advance(I.d, W!ReadMem(lin, LinOff(WToNat(Opv(I.a)), linbase), Sz(I.ty))) /\ UNCHANGED <<mem, calls>>
    /\ UNCHANGED xvars /\ XKeep

LinStore ==
    /\ IsLinAcc /\ I.k = "store"
    /\ LET v == Opv(I.b) IN
       IF IsFloatTy(I.bty) THEN Halt("outofmodel", "float") /\ UNCHANGED lin
       ELSE IF v = Poison THEN Halt("undefined", "poison stored to the linear memory") /\ UNCHANGED lin
       ELSE IF Len(v) # Sz(I.bty) THEN Halt("stuck", "ill-typed store") /\ UNCHANGED lin
       ELSE /\ lin' = W!WriteMem(lin, LinOff(WToNat(Opv(I.a)), linbase), v)
            /\ Advance(0, Poison) /\ UNCHANGED <<mem, calls>>
    /\ UNCHANGED <<ci, linbase, pages, statsz, grows>> /\ XKeep

\* every other instruction: IR.tla
Plain == ~XOutOfFuel /\ ~IsRt /\ ~IsLinAcc /\ Step /\ UNCHANGED xvars

XStep == RtCall \/ LinLoad \/ LinStore \/ Plain
XExhaust == /\ XOutOfFuel
            /\ status' = "fuel" /\ why' = "step budget"
            /\ UNCHANGED <<chunk, i, av, ph, obs0, stack, mem, calls, ret, steps, gaddr>> /\ UNCHANGED xvars

(* ---- comparison ------------------------------------------------------------------------------------------ *)
AtEnd == i > 0 /\ status \notin {"run", "idle"} /\ ~(ci = -1 /\ status = "ok")
ModelLimit == status = "fuel" /\ why \in {"call depth", "memory"}     \* limits of IR.tla, not of the code
Judged == AtEnd /\ WJudged(WObs) /\ ~ModelLimit /\ status # "outofmodel"
Same == Judged /\ status = WObs.status

ImpName(n) == LET S == {k \in 1..Len(R.imports) : R.imports[k].w = n} IN
              IF S = {} THEN "?" ELSE R.imports[CHOOSE k \in S : TRUE].x

OutcomeOK == status = WObs.status
ResultOK == status = "ok" => ret = (IF Len(WObs.ret) = 0 THEN Poison ELSE WObs.ret[1])
GlobalsOK == /\ Len(R.globals) = Len(WObs.glob)
             /\ \A k \in 1..Len(WObs.glob) :
                    /\ IsVar(M, R.globals[k]) /\ M.globals[R.globals[k]].size = Len(WObs.glob[k])
                    /\ CellsOf(mem, gaddr[R.globals[k]], Len(WObs.glob[k])) = WObs.glob[k]
MemoryOK == /\ pages = WObs.pages
            /\ W!NonZero(lin) = {<<WObs.mem[k][1], WObs.mem[k][2]>> : k \in 1..Len(WObs.mem)}
CallsOK == /\ Len(calls) = Len(WObs.calls)
           /\ \A k \in 1..Len(calls) : calls[k].name = ImpName(WObs.calls[k].name) /\ calls[k].args = WObs.calls[k].args
Agrees == OutcomeOK /\ ResultOK /\ GlobalsOK /\ MemoryOK /\ CallsOK

\* one invariant per clause of the property
XOutcome == Judged => OutcomeOK
XResult  == Same => ResultOK
XGlobals == Same => GlobalsOK
XMemory  == Same => MemoryOK
XCalls   == Same => CallsOK
\* the mapping itself: the base pointer the translated code reads is the one the runtime maintains, and the
\* linear memory holds bytes inside its size only
XMapping == (i > 0 /\ ci >= 0 /\ pages >= 0) =>
                /\ CellsOf(mem, gaddr[R.mem0], PB) = WFromNat(linbase, PB)
                /\ linbase = BaseAfterGrow(grows)
                /\ AtEnd => \A a \in DOMAIN lin : a >= 0 /\ a < pages * PageSize /\ lin[a] \in Byte
XTypeOK == /\ status \in {"run", "ok", "undefined", "outofmodel", "fuel", "stuck", "idle", "trap", "nocontract"}
           /\ (status = "run" => Len(stack) >= 1)
           /\ ci >= -1 /\ (ci >= 0 => statsz <= Len(mem))

(* ---- next call on the same instance -------------------------------------------------------------------------- *)
NextCall ==
    \* the instance is used further as long as its state is the one Wasm.tla has (a wrong result or an undefined
    \* execution of this call has been reported by the invariants; a wrong state would only repeat itself)
    /\ AtEnd /\ ci >= 0 /\ WObs.status = "ok" /\ GlobalsOK /\ MemoryOK
    /\ ci < Len(C.calls) /\ ci + 2 <= Len(C.wobs) /\ WJudged(C.wobs[ci + 2])
    /\ LET cl == C.calls[ci + 1]
           S == {k \in 1..Len(R.exports) : R.exports[k].name = cl.fn}
       IN IF S = {} THEN status' = "stuck" /\ why' = "no such export" /\ stack' = <<>>
          ELSE LET g == R.exports[CHOOSE k \in S : TRUE].g IN
               IF ~IsFn(M, g) THEN status' = "stuck" /\ why' = "export is not an IR function" /\ stack' = <<>>
               ELSE LET F0 == M.funcs[M.globals[g].fi] IN
                    IF \/ Len(F0.params) # Len(cl.args)
                       \/ \E p \in 1..Len(cl.args) : Sz(F0.params[p].ty) # Len(cl.args[p])
                    THEN status' = "stuck" /\ why' = "signature of the IR function" /\ stack' = <<>>
                    ELSE status' = "run" /\ why' = "" /\ stack' = <<NewFrame(M, M.globals[g].fi, cl.args, 0, statsz)>>
    /\ ci' = ci + 1 /\ calls' = <<>> /\ ret' = Poison /\ steps' = 0
    /\ mem' = SubSeq(mem, 1, statsz)
    /\ UNCHANGED <<chunk, i, av, ph, obs0, gaddr, lin, linbase, pages, statsz, grows>>

(* ---- batch driver ------------------------------------------------------------------------------------------------ *)
XInit == Init /\ ci = -1 /\ lin = <<>> /\ linbase = 0 /\ pages = -1 /\ statsz = 0 /\ grows = 0
XPickChunk == PickChunk /\ UNCHANGED xvars
XNext == XPickChunk \/ Instantiate \/ LoadState \/ XStep \/ XExhaust \/ NextCall
=============================================================================
