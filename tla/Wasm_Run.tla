------------------------------ MODULE Wasm_Run ------------------------------
(* Batch driver of Wasm.tla: the cases come from TRACE_FILE (JSON array).     *)
(*   cfg:  CONSTANT Cases <- JsonCases,  NEXT Next      (judging)             *)
(*                                       NEXT NextEmit  (also print every     *)
(*         observation as  <<"OBS", case, module, call, Obs>>  for engines    *)
(*         that hand the observation to another specification, e.g. IR.tla)   *)
EXTENDS Wasm, Json, IOUtils

JsonCases == JsonDeserialize(IOEnv.TRACE_FILE)

\* never enabled; evaluated once per finished state, printing the observation on the way
EmitObs == Finished /\ PrintT(<<"OBS", i, ph, ci, Obs, why, steps>>) /\ FALSE /\ UNCHANGED vars
NextEmit == Next \/ EmitObs
=============================================================================
