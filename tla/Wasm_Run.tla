------------------------------ MODULE Wasm_Run ------------------------------
(* Batch driver of Wasm.tla: the cases come from TRACE_FILE (JSON array).     *)
(*   NEXT Next      judging (Impl* / ObsPreserved invariants)                 *)
(*   NEXT NextEmit  also prints every observation as                          *)
(*                  <<"OBS", case, module, call, Obs, why, steps>>            *)
(*                  for engines that hand the observation of the wasm module  *)
(*                  to another specification (IR.tla in C23).                 *)
(* (Cases is bound by INSTANCE ... WITH: a cfg override  Cases <- JsonCases   *)
(*  makes TLC re-read the file on every reference.)                           *)
EXTENDS Json, IOUtils, TLC

JsonCases == JsonDeserialize(IOEnv.TRACE_FILE)
VARIABLES chunk, i, ph, ci, stack, mem, pages, glob, tab, calls, status, why, ret, steps, olog
INSTANCE Wasm WITH Cases <- JsonCases

\* never enabled; evaluated once per finished state, printing the observation on the way
EmitObs == Finished /\ PrintT(<<"OBS", i, ph, ci, Obs, why, steps>>) /\ FALSE /\ UNCHANGED vars
NextEmit == Next \/ EmitObs
=============================================================================
