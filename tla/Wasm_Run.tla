------------------------------ MODULE Wasm_Run ------------------------------
(* Batch driver of Wasm.tla: the cases come from TRACE_FILE (JSON array).     *)
(*   NEXT Next      judging (Impl* / ObsPreserved invariants)                 *)
(*   NEXT NextEmit  also prints every observation as                          *)
(*                  <<"OBS", case, module, call, Obs, why, steps>>            *)
(*                  for engines that hand the observation of the wasm module  *)
(*                  to another specification (IR.tla in C23).                 *)
EXTENDS Wasm

\* never enabled; evaluated once per finished state, printing the observation on the way
EmitObs == Finished /\ PrintT(<<"OBS", i, ph, ci, Obs, why, steps>>) /\ FALSE /\ UNCHANGED vars
NextEmit == Next \/ EmitObs
=============================================================================
