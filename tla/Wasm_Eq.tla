------------------------------- MODULE Wasm_Eq -------------------------------
(* Round-trip laws of WebAssembly modules over the abstract module state of   *)
(* Wasm.tla (idiom E: one state per recorded round trip).                     *)
(*                                                                            *)
(* A record is  [key, law, ok, a, b]:                                         *)
(*   law = "module": a, b are projected modules (harness/project_wasm.py);    *)
(*         the law is  Equivalent(a, b): equal component by component, type   *)
(*         references compared through the type they denote (a round trip may *)
(*         renumber or merge entries of the type section, nothing else);      *)
(*   law = "bytes":  a, b are byte sequences; the law is a = b                *)
(*         (write(read(bytes)) = bytes, ppci's binary = the reference         *)
(*         assembler's binary);                                               *)
(*   ok = FALSE: the round trip raised an exception instead of producing b.   *)
(* There is no TLA+ model of the binary or text grammar: the laws are stated  *)
(* over the state the grammar denotes.                                        *)
EXTENDS Naturals, Sequences, Json, IOUtils, TLC

Recs == JsonDeserialize(IOEnv.TRACE_FILE)
NChunks == 64
VARIABLES chunk, i
vars == <<chunk, i>>
Init == chunk = 0 /\ i = 0
PickChunk == chunk = 0 /\ chunk' \in 1..NChunks /\ i' = 0
PickRec == chunk > 0 /\ i = 0 /\ chunk' = chunk
           /\ i' \in {k \in 1..Len(Recs) : k % NChunks = chunk - 1}
Next == PickChunk \/ PickRec

R == Recs[i]
IsMod == i > 0 /\ R.law = "module" /\ R.ok
A == R.a
B == R.b

SameLen(x, y) == Len(x) = Len(y)
TypeOf(m, x) == IF x >= 0 /\ x < Len(m.types) THEN m.types[x + 1] ELSE [params |-> <<"?">>, results |-> <<"?">>]

\* instructions: equal, except that type indices are compared through the types they denote
BtEq(x, y) == IF x.k = "idx" /\ y.k = "idx" THEN TypeOf(A, x.x) = TypeOf(B, y.x) ELSE x = y
InsEq(x, y) ==
    IF x.op # y.op THEN FALSE
    ELSE IF x.op = "call_indirect" THEN TypeOf(A, x.type) = TypeOf(B, y.type) /\ x.table = y.table
    ELSE IF x.op \in {"block", "loop", "if"} THEN BtEq(x.bt, y.bt)
    ELSE x = y
ExprEq(x, y) == SameLen(x, y) /\ \A k \in 1..Len(x) : InsEq(x[k], y[k])

\* every signature of a stays available in b (b may have merged duplicates or added entries)
TypesEq == \A k \in 1..Len(A.types) : \E j \in 1..Len(B.types) : B.types[j] = A.types[k]
ImportsEq == SameLen(A.imports, B.imports) /\ \A k \in 1..Len(A.imports) :
                LET x == A.imports[k]  y == B.imports[k] IN
                /\ x.mod = y.mod /\ x.name = y.name /\ x.kind = y.kind
                /\ IF x.kind = "func" THEN TypeOf(A, x.type) = TypeOf(B, y.type) ELSE x = y
FuncsEq == SameLen(A.funcs, B.funcs) /\ \A k \in 1..Len(A.funcs) :
                LET x == A.funcs[k]  y == B.funcs[k] IN
                /\ TypeOf(A, x.type) = TypeOf(B, y.type)
                /\ x.locals = y.locals
                /\ ExprEq(x.body, y.body)
TablesEq == A.tables = B.tables
MemsEq == A.mems = B.mems
GlobalsEq == SameLen(A.globals, B.globals) /\ \A k \in 1..Len(A.globals) :
                /\ A.globals[k].ty = B.globals[k].ty /\ A.globals[k].mut = B.globals[k].mut
                /\ ExprEq(A.globals[k].init, B.globals[k].init)
ExportsEq == A.exports = B.exports
StartEq == A.start = B.start
ElemsEq == SameLen(A.elems, B.elems) /\ \A k \in 1..Len(A.elems) :
                LET x == A.elems[k]  y == B.elems[k] IN
                x.mode = y.mode /\ x.table = y.table /\ x.refs = y.refs /\ ExprEq(x.offset, y.offset)
DatasEq == SameLen(A.datas, B.datas) /\ \A k \in 1..Len(A.datas) :
                LET x == A.datas[k]  y == B.datas[k] IN
                x.mode = y.mode /\ x.mem = y.mem /\ x.bytes = y.bytes /\ ExprEq(x.offset, y.offset)

Equivalent == /\ TypesEq /\ ImportsEq /\ FuncsEq /\ TablesEq /\ MemsEq /\ GlobalsEq /\ ExportsEq /\ StartEq
              /\ ElemsEq /\ DatasEq
\* calibration records (written in TLA+ by Wasm_MCGen.tla) carry the expected verdict
Calibrated == (IsMod /\ "expect" \in DOMAIN R) => (Equivalent <=> R.expect)

\* one invariant per component, so that a failing round trip names what was lost
Completes == i > 0 => R.ok
SameTypes == IsMod => TypesEq
SameImports == IsMod => ImportsEq
SameFuncs == IsMod => FuncsEq
SameTablesMems == IsMod => (TablesEq /\ MemsEq)
SameGlobals == IsMod => GlobalsEq
SameExportsStart == IsMod => (ExportsEq /\ StartEq)
SameElems == IsMod => ElemsEq
SameDatas == IsMod => DatasEq
SameBytes == (i > 0 /\ R.law = "bytes" /\ R.ok) => R.a = R.b
=============================================================================
