-------------------------------- MODULE Stm8 --------------------------------
(* The STM8 CPU instruction set (ST programming manual PM0044 "STM8 CPU       *)
(* programming manual": chapter 6 "STM8 addressing modes", chapter 7           *)
(* "STM8 instruction set": the per-instruction encoding tables with their     *)
(* pre-code column (72 / 90 / 91 / 92), and the opcode map), transcribed from *)
(* the manual independently of ppci.  The map is regular and is written down  *)
(* the way the manual lays it out: the high nibble of the opcode (with the     *)
(* pre-code) selects the addressing mode, the low nibble the operation;       *)
(* the irregular cells are listed one by one.  Multi-byte operands are        *)
(* big-endian (MS byte first).                                                *)
(*                                                                           *)
(*   Form(pre, op)   the meaning of an opcode byte on a pre-code page          *)
(*   Decode(b)       instruction bytes -> record                              *)
(*   Encode(i)       the reference encoder (inverse; laws in Stm8_MC)         *)
(*   Asm(mn, ops, pc)  meaning of a printed line                              *)
(*   Agrees(d, a)    a decoded instruction is what a printed line means       *)
(*   Reads(i) / Writes(i)   architectural register sets A X Y SP CC PC        *)
(*   MRanges         operand ranges per printed form (boundary generation)    *)
EXTENDS Integers, Sequences, FiniteSets, TLC

P2(n) == 2 ^ n
Bits(x, lo, n) == (x \div P2(lo)) % P2(n)
SignExt(v, n) == IF v >= P2(n - 1) THEN v - P2(n) ELSE v
Pattern(v, n) == IF v < 0 THEN v + P2(n) ELSE v
WN(v, n) == ((v % P2(n)) + P2(n)) % P2(n)                   \* value -> n-bit pattern
InRange(v, lo, hi) == lo <= v /\ v <= hi

PreCodes == {\h72, \h90, \h91, \h92}
Pages == {0} \cup PreCodes

(* An operand.                                                               *)
(*  k   reg  register r (A X Y XL XH YL YH SP CC)                             *)
(*      imm  #value; sz = bytes (1 byte, 2 word; 0: a bit number carried in   *)
(*           the opcode)                                                      *)
(*      mem  memory at v (sz = 1 shortmem, 2 longmem, 3 extmem), indexed by   *)
(*           x = X / Y / SP when x # "" (sz = 0: "(X)" without offset)        *)
(*      ptr  memory through the pointer at v (sz = 1 shortptr, 2 longptr),    *)
(*           r = w: the pointer is a word, e: an extended (24-bit) address;   *)
(*           x as above                                                       *)
(*      rel  signed displacement v from the address of the next instruction   *)
Opd(k, r, x, sz, v) == [k |-> k, r |-> r, x |-> x, sz |-> sz, v |-> v]
R(r) == Opd("reg", r, "", 0, 0)
I(n) == Opd("imm", "", "", n, 0)
BitNo(n) == Opd("imm", "", "", 0, n)
M(n, x) == Opd("mem", "", x, n, 0)
P(n, x) == Opd("ptr", "w", x, n, 0)
PE(x) == Opd("ptr", "e", x, 2, 0)
Rel == Opd("rel", "", "", 1, 0)
\* bytes an operand occupies
OpBytes(o) == IF o.k \in {"imm", "mem", "ptr", "rel"} THEN o.sz ELSE 0

(* A form: mnemonic, operands in the order of the assembly text, and the      *)
(* order in which the operands' bytes follow the opcode (lay).                *)
NoF == [mn |-> "", o |-> <<>>, lay |-> <<>>]
F0(mn) == [mn |-> mn, o |-> <<>>, lay |-> <<>>]
F1(mn, a) == [mn |-> mn, o |-> <<a>>, lay |-> <<1>>]
F2(mn, a, b) == [mn |-> mn, o |-> <<a, b>>, lay |-> <<1, 2>>]
F2r(mn, a, b) == [mn |-> mn, o |-> <<a, b>>, lay |-> <<2, 1>>]       \* mov: source bytes first
F3(mn, a, b, c) == [mn |-> mn, o |-> <<a, b, c>>, lay |-> <<1, 2, 3>>]

-----------------------------------------------------------------------------
(* Rows A..F and 1 of the map: low nibble = operation                        *)
\*        0      1     2      3      4      5      6     7     8      9      A     B      C     D       E      F
ColMn == <<"sub", "cp", "sbc", "cpw", "and", "bcp", "ld", "ld", "xor", "adc", "or", "add", "jp", "call", "ldw", "ldw">>
Indexed(m) == m.x \in {"X", "Y"}
TwoOp(col, m, pre) ==
    LET yside == pre \in {\h90, \h91}
        base == IF yside THEN "Y" ELSE "X"
        other == IF yside THEN "X" ELSE "Y" IN
    CASE col \in {0, 1, 2, 4, 5, 8, 9, 10, 11} -> F2(ColMn[col + 1], R("A"), m)
      [] col = 6 -> F2("ld", R("A"), m)
      [] col = 7 -> F2("ld", m, R("A"))
      [] col = 12 -> F1("jp", m)
      [] col = 13 -> F1("call", m)
      [] col = 3 -> F2("cpw", R(IF Indexed(m) THEN other ELSE base), m)     \* cpw X,(..,Y) / cpw Y,(..,X)
      [] col = 14 -> F2("ldw", R(base), m)
      [] col = 15 -> F2("ldw", m, R(IF Indexed(m) THEN other ELSE base))    \* ldw (..,X),Y / ldw (..,Y),X
WordCols == {3, 14, 15}

(* Rows 0, 3, 4, 5, 6, 7: low nibble = one-operand operation                 *)
OneMn(col) == CASE col = 0 -> "neg" [] col = 3 -> "cpl" [] col = 4 -> "srl" [] col = 6 -> "rrc" [] col = 7 -> "sra"
                [] col = 8 -> "sll" [] col = 9 -> "rlc" [] col = 10 -> "dec" [] col = 12 -> "inc" [] col = 13 -> "tnz"
                [] col = 14 -> "swap" [] col = 15 -> "clr" [] OTHER -> ""
OneOp(col, m, word) == IF OneMn(col) = "" THEN NoF ELSE F1(OneMn(col) \o (IF word THEN "w" ELSE ""), m)

\* row 2: the conditional relative jumps (jrt = jra, jrult = jrc, jruge = jrnc are second names)
JrMn == <<"jra", "jrf", "jrugt", "jrule", "jrnc", "jrc", "jrne", "jreq", "jrnv", "jrv", "jrpl", "jrmi", "jrsgt", "jrsle", "jrsge", "jrslt">>
Jr90 == [c \in {8, 9, 12, 13, 14, 15} |->
            CASE c = 8 -> "jrnh" [] c = 9 -> "jrh" [] c = 12 -> "jrnm" [] c = 13 -> "jrm" [] c = 14 -> "jril" [] c = 15 -> "jrih"]

Page0(op) ==
    LET row == op \div 16  col == op % 16 IN
    CASE row = 0 -> (CASE col = 1 -> F2("rrwa", R("X"), R("A")) [] col = 2 -> F2("rlwa", R("X"), R("A"))
                       [] OTHER -> OneOp(col, M(1, "SP"), FALSE))
      [] row = 1 -> (CASE col \in {0, 1, 2, 3, 4, 5, 8, 9, 10, 11} -> TwoOp(col, M(1, "SP"), 0)
                       [] col = 6 -> F2("ldw", R("Y"), M(1, "SP")) [] col = 7 -> F2("ldw", M(1, "SP"), R("Y"))
                       [] col = 12 -> F2("addw", R("X"), I(2)) [] col = 13 -> F2("subw", R("X"), I(2))
                       [] col = 14 -> F2("ldw", R("X"), M(1, "SP")) [] col = 15 -> F2("ldw", M(1, "SP"), R("X")))
      [] row = 2 -> F1(JrMn[col + 1], Rel)
      [] row = 3 -> (CASE col = 1 -> F2("exg", R("A"), M(2, "")) [] col = 2 -> F1("pop", M(2, ""))
                       [] col = 5 -> F2r("mov", M(2, ""), I(1)) [] col = 11 -> F1("push", M(2, ""))
                       [] OTHER -> OneOp(col, M(1, ""), FALSE))
      [] row = 4 -> (CASE col = 1 -> F2("exg", R("A"), R("XL")) [] col = 2 -> F2("mul", R("X"), R("A"))
                       [] col = 5 -> F2r("mov", M(1, ""), M(1, "")) [] col = 11 -> F1("push", I(1))
                       [] OTHER -> OneOp(col, R("A"), FALSE))
      [] row = 5 -> (CASE col = 1 -> F2("exgw", R("X"), R("Y")) [] col = 2 -> F2("subw", R("SP"), I(1))
                       [] col = 5 -> F2r("mov", M(2, ""), M(2, "")) [] col = 11 -> F2("addw", R("SP"), I(1))
                       [] OTHER -> OneOp(col, R("X"), TRUE))
      [] row = 6 -> (CASE col = 1 -> F2("exg", R("A"), R("YL")) [] col = 2 -> F2("div", R("X"), R("A"))
                       [] col = 5 -> F2("divw", R("X"), R("Y")) [] col = 11 -> F2("ld", M(1, "SP"), R("A"))
                       [] OTHER -> OneOp(col, M(1, "X"), FALSE))
      [] row = 7 -> (CASE col = 11 -> F2("ld", R("A"), M(1, "SP")) [] col \in {1, 2, 5} -> NoF    \* 72 is a pre-code
                       [] OTHER -> OneOp(col, M(0, "X"), FALSE))
      [] row = 8 -> (CASE col = 0 -> F0("iret") [] col = 1 -> F0("ret") [] col = 2 -> F1("int", M(3, "")) [] col = 3 -> F0("trap")
                       [] col = 4 -> F1("pop", R("A")) [] col = 5 -> F1("popw", R("X")) [] col = 6 -> F1("pop", R("CC"))
                       [] col = 7 -> F0("retf") [] col = 8 -> F1("push", R("A")) [] col = 9 -> F1("pushw", R("X"))
                       [] col = 10 -> F1("push", R("CC")) [] col = 11 -> F0("break") [] col = 12 -> F0("ccf")
                       [] col = 13 -> F1("callf", M(3, "")) [] col = 14 -> F0("halt") [] col = 15 -> F0("wfi"))
      [] row = 9 -> (CASE col \in {0, 1, 2} -> NoF                                                \* pre-codes 90 91 92
                       [] col = 3 -> F2("ldw", R("X"), R("Y")) [] col = 4 -> F2("ldw", R("SP"), R("X"))
                       [] col = 5 -> F2("ld", R("XH"), R("A")) [] col = 6 -> F2("ldw", R("X"), R("SP"))
                       [] col = 7 -> F2("ld", R("XL"), R("A")) [] col = 8 -> F0("rcf") [] col = 9 -> F0("scf")
                       [] col = 10 -> F0("rim") [] col = 11 -> F0("sim") [] col = 12 -> F0("rvf") [] col = 13 -> F0("nop")
                       [] col = 14 -> F2("ld", R("A"), R("XH")) [] col = 15 -> F2("ld", R("A"), R("XL")))
      [] row = 10 -> (CASE col = 7 -> F2("ldf", M(3, "X"), R("A")) [] col = 12 -> F1("jpf", M(3, ""))
                        [] col = 13 -> F1("callr", Rel) [] col = 15 -> F2("ldf", R("A"), M(3, "X"))
                        [] OTHER -> TwoOp(col, I(IF col \in WordCols THEN 2 ELSE 1), 0))
      [] row = 11 -> (CASE col = 12 -> F2("ldf", R("A"), M(3, "")) [] col = 13 -> F2("ldf", M(3, ""), R("A"))
                        [] OTHER -> TwoOp(col, M(1, ""), 0))
      [] row = 12 -> TwoOp(col, M(2, ""), 0)
      [] row = 13 -> TwoOp(col, M(2, "X"), 0)
      [] row = 14 -> TwoOp(col, M(1, "X"), 0)
      [] row = 15 -> TwoOp(col, M(0, "X"), 0)

Page90(op) ==
    LET row == op \div 16  col == op % 16 IN
    CASE row = 0 -> (CASE col = 1 -> F2("rrwa", R("Y"), R("A")) [] col = 2 -> F2("rlwa", R("Y"), R("A")) [] OTHER -> NoF)
      [] row = 1 -> F2(IF col % 2 = 0 THEN "bcpl" ELSE "bccm", M(2, ""), BitNo(col \div 2))
      [] row = 2 -> IF col \in DOMAIN Jr90 THEN F1(Jr90[col], Rel) ELSE NoF
      [] row = 4 -> (CASE col = 2 -> F2("mul", R("Y"), R("A")) [] OTHER -> OneOp(col, M(2, "Y"), FALSE))
      [] row = 5 -> OneOp(col, R("Y"), TRUE)
      [] row = 6 -> (CASE col = 2 -> F2("div", R("Y"), R("A")) [] OTHER -> OneOp(col, M(1, "Y"), FALSE))
      [] row = 7 -> OneOp(col, M(0, "Y"), FALSE)
      [] row = 8 -> (CASE col = 5 -> F1("popw", R("Y")) [] col = 9 -> F1("pushw", R("Y")) [] OTHER -> NoF)
      [] row = 9 -> (CASE col = 3 -> F2("ldw", R("Y"), R("X")) [] col = 4 -> F2("ldw", R("SP"), R("Y"))
                       [] col = 5 -> F2("ld", R("YH"), R("A")) [] col = 6 -> F2("ldw", R("Y"), R("SP"))
                       [] col = 7 -> F2("ld", R("YL"), R("A")) [] col = 14 -> F2("ld", R("A"), R("YH"))
                       [] col = 15 -> F2("ld", R("A"), R("YL")) [] OTHER -> NoF)
      [] row = 10 -> (CASE col = 3 -> F2("cpw", R("Y"), I(2)) [] col = 14 -> F2("ldw", R("Y"), I(2))
                        [] col = 7 -> F2("ldf", M(3, "Y"), R("A")) [] col = 15 -> F2("ldf", R("A"), M(3, "Y")) [] OTHER -> NoF)
      [] row = 11 -> IF col \in WordCols THEN TwoOp(col, M(1, ""), \h90) ELSE NoF
      [] row = 12 -> IF col \in WordCols THEN TwoOp(col, M(2, ""), \h90) ELSE NoF
      [] row = 13 -> TwoOp(col, M(2, "Y"), \h90)
      [] row = 14 -> TwoOp(col, M(1, "Y"), \h90)
      [] row = 15 -> TwoOp(col, M(0, "Y"), \h90)
      [] OTHER -> NoF

Page72(op) ==
    LET row == op \div 16  col == op % 16 IN
    CASE row = 0 -> F3(IF col % 2 = 0 THEN "btjt" ELSE "btjf", M(2, ""), BitNo(col \div 2), Rel)
      [] row = 1 -> F2(IF col % 2 = 0 THEN "bset" ELSE "bres", M(2, ""), BitNo(col \div 2))
      [] row = 3 -> OneOp(col, P(2, ""), FALSE)
      [] row = 4 -> OneOp(col, M(2, "X"), FALSE)
      [] row = 5 -> OneOp(col, M(2, ""), FALSE)
      [] row = 6 -> OneOp(col, P(2, "X"), FALSE)
      [] op = \h8F -> F0("wfe")
      [] op = \hA2 -> F2("subw", R("Y"), I(2)) [] op = \hA9 -> F2("addw", R("Y"), I(2))
      [] op = \hB0 -> F2("subw", R("X"), M(2, "")) [] op = \hB2 -> F2("subw", R("Y"), M(2, ""))
      [] op = \hB9 -> F2("addw", R("Y"), M(2, "")) [] op = \hBB -> F2("addw", R("X"), M(2, ""))
      [] op = \hF0 -> F2("subw", R("X"), M(1, "SP")) [] op = \hF2 -> F2("subw", R("Y"), M(1, "SP"))
      [] op = \hF9 -> F2("addw", R("Y"), M(1, "SP")) [] op = \hFB -> F2("addw", R("X"), M(1, "SP"))
      [] row = 12 -> TwoOp(col, P(2, ""), \h72)
      [] row = 13 -> TwoOp(col, P(2, "X"), \h72)
      [] OTHER -> NoF

Page92(op) ==
    LET row == op \div 16  col == op % 16 IN
    CASE row = 3 -> OneOp(col, P(1, ""), FALSE)
      [] row = 6 -> OneOp(col, P(1, "X"), FALSE)
      [] op = \h8D -> F1("callf", PE("")) [] op = \hAC -> F1("jpf", PE(""))
      [] op = \hA7 -> F2("ldf", PE("X"), R("A")) [] op = \hAF -> F2("ldf", R("A"), PE("X"))
      [] op = \hBC -> F2("ldf", R("A"), PE("")) [] op = \hBD -> F2("ldf", PE(""), R("A"))
      [] row = 12 -> TwoOp(col, P(1, ""), \h92)
      [] row = 13 -> TwoOp(col, P(1, "X"), \h92)
      [] OTHER -> NoF

Page91(op) ==
    LET row == op \div 16  col == op % 16 IN
    CASE row = 6 -> OneOp(col, P(1, "Y"), FALSE)
      [] op = \hA7 -> F2("ldf", PE("Y"), R("A")) [] op = \hAF -> F2("ldf", R("A"), PE("Y"))
      [] row = 12 -> IF col \in WordCols THEN TwoOp(col, P(1, ""), \h91) ELSE NoF
      [] row = 13 -> TwoOp(col, P(1, "Y"), \h91)
      [] OTHER -> NoF

Form(pre, op) == CASE pre = 0 -> Page0(op) [] pre = \h72 -> Page72(op) [] pre = \h90 -> Page90(op)
                   [] pre = \h91 -> Page91(op) [] pre = \h92 -> Page92(op)
Defined(pre, op) == Form(pre, op).mn # ""

-----------------------------------------------------------------------------
(* The decoded instruction: mn, operands o (values filled in), len           *)
I0 == [mn |-> "", o |-> <<>>, len |-> 0]
NotInsn == {"undefined", "truncated", "toolong", "none", "range"}
Bad(k, len) == [I0 EXCEPT !.mn = k, !.len = len]
Valid(i) == i.mn \notin NotInsn
NoAsm == Bad("none", 0)

RECURSIVE BE(_, _, _)
BE(b, at, n) == IF n = 0 THEN 0 ELSE b[at] * P2(8 * (n - 1)) + BE(b, at + 1, n - 1)     \* big-endian field
FormBytes(f) == LET S[k \in 0..Len(f.lay)] == IF k = 0 THEN 0 ELSE S[k - 1] + OpBytes(f.o[f.lay[k]]) IN S[Len(f.lay)]
\* offset (from the first operand byte) of the bytes of operand number j
OffsetOf(f, j) == LET pos == CHOOSE k \in 1..Len(f.lay) : f.lay[k] = j
                      T[k \in 0..Len(f.lay)] == IF k = 0 THEN 0 ELSE T[k - 1] + (IF k < pos THEN OpBytes(f.o[f.lay[k]]) ELSE 0) IN
                  T[Len(f.lay)]
Decode(b) ==
    IF Len(b) = 0 THEN Bad("undefined", 0)
    ELSE LET pre == IF b[1] \in PreCodes THEN b[1] ELSE 0  np == IF pre = 0 THEN 0 ELSE 1 IN
         IF Len(b) < np + 1 THEN Bad("truncated", Len(b))
         ELSE LET f == Form(pre, b[np + 1])  n == np + 1 + FormBytes(f) IN
              IF f.mn = "" THEN Bad("undefined", Len(b))
              ELSE IF Len(b) < n THEN Bad("truncated", Len(b))
              ELSE IF Len(b) > n THEN Bad("toolong", Len(b))
              ELSE [mn |-> f.mn, len |-> n,
                    o |-> [j \in 1..Len(f.o) |->
                             LET t == f.o[j]  nb == OpBytes(t) IN
                             IF nb = 0 THEN t
                             ELSE LET raw == BE(b, np + 2 + OffsetOf(f, j), nb) IN
                                  [t EXCEPT !.v = IF t.k = "rel" THEN SignExt(raw, 8) ELSE raw]]]
LengthOf(pre, op) == IF ~Defined(pre, op) THEN 0 ELSE (IF pre = 0 THEN 1 ELSE 2) + FormBytes(Form(pre, op))

\* the form of a decoded instruction: its operands with the values blanked
Blank(o) == IF o.k = "imm" /\ o.sz = 0 THEN o ELSE [o EXCEPT !.v = 0]
Shape(i) == [mn |-> i.mn, o |-> [j \in 1..Len(i.o) |-> Blank(i.o[j])]]
ShapeOf(f) == [mn |-> f.mn, o |-> f.o]
\* the map as a table: <<page, opcode, form>> of every defined cell
CellTable == {<<c[1], c[2], ShapeOf(Form(c[1], c[2]))>> : c \in {x \in Pages \X (0..255) : Form(x[1], x[2]).mn # ""}}
Cells(sh) == {<<t[1], t[2]>> : t \in {u \in CellTable : u[3] = sh}}
OpdWF(o) == CASE o.k = "rel" -> o.v \in -128..127
              [] o.k = "imm" /\ o.sz = 0 -> o.v \in 0..7
              [] o.k = "reg" -> o.v = 0
              [] o.sz = 0 -> o.v = 0
              [] OTHER -> o.v \in 0..(P2(8 * o.sz) - 1)
WF(i) == Cells(Shape(i)) # {} /\ (\A j \in 1..Len(i.o) : OpdWF(i.o[j]))
         /\ LET c == CHOOSE x \in Cells(Shape(i)) : TRUE IN i.len = LengthOf(c[1], c[2])
RECURSIVE BEBytes(_, _)
BEBytes(v, n) == IF n = 0 THEN <<>> ELSE <<(v \div P2(8 * (n - 1))) % 256>> \o BEBytes(v, n - 1)
Encode(i) ==
    LET c == CHOOSE x \in Cells(Shape(i)) : TRUE  f == Form(c[1], c[2])
        OB[k \in 0..Len(f.lay)] == IF k = 0 THEN <<>>
                                   ELSE LET o == i.o[f.lay[k]] IN OB[k - 1] \o BEBytes(IF o.k = "rel" THEN Pattern(o.v, 8) ELSE o.v, OpBytes(o)) IN
    (IF c[1] = 0 THEN <<>> ELSE <<c[1]>>) \o <<c[2]>> \o OB[Len(f.lay)]

-----------------------------------------------------------------------------
(* Architectural register sets.  XL / XH are halves of X, YL / YH of Y.      *)
Regs == {"A", "X", "Y", "SP", "CC", "PC"}
Whole(r) == CASE r \in {"XL", "XH"} -> "X" [] r \in {"YL", "YH"} -> "Y" [] OTHER -> r
IdxOf(o) == IF o.k \in {"mem", "ptr"} /\ o.x # "" THEN {o.x} ELSE {}
RegOf(o) == IF o.k = "reg" THEN {Whole(o.r)} ELSE {}
AllIdx(i) == UNION {IdxOf(i.o[j]) : j \in 1..Len(i.o)}
AluA == {"sub", "sbc", "and", "xor", "adc", "or", "add"}
Rmw == {"neg", "cpl", "srl", "rrc", "sra", "sll", "rlc", "dec", "inc", "swap",
        "negw", "cplw", "srlw", "rrcw", "sraw", "sllw", "rlcw", "decw", "incw", "swapw"}
Jr == {JrMn[k] : k \in 1..16} \cup {Jr90[c] : c \in DOMAIN Jr90}
Reads(i) ==
    AllIdx(i) \cup
    (CASE i.mn \in AluA \cup {"addw", "subw"} -> RegOf(i.o[1]) \cup RegOf(i.o[2]) \cup (IF i.mn \in {"adc", "sbc"} THEN {"CC"} ELSE {})
       [] i.mn \in {"cp", "bcp", "cpw"} -> RegOf(i.o[1]) \cup RegOf(i.o[2])
       [] i.mn \in {"ld", "ldw", "ldf"} -> RegOf(i.o[2])
       [] i.mn \in Rmw -> RegOf(i.o[1]) \cup (IF i.mn \in {"rrc", "rlc", "rrcw", "rlcw"} THEN {"CC"} ELSE {})
       [] i.mn \in {"tnz", "tnzw"} -> RegOf(i.o[1])
       [] i.mn \in {"mul", "div", "divw", "exg", "exgw", "rlwa", "rrwa"} -> RegOf(i.o[1]) \cup RegOf(i.o[2])
       [] i.mn \in {"push", "pushw"} -> RegOf(i.o[1]) \cup {"SP"}
       [] i.mn \in {"pop", "popw", "ret", "retf", "iret"} -> {"SP"}
       [] i.mn \in {"call", "callr", "callf", "trap", "int"} -> {"SP", "PC"}
       [] i.mn \in Jr \ {"jra", "jrf"} -> {"CC", "PC"}
       [] i.mn \in {"jra", "btjt", "btjf"} -> {"PC"}
       [] i.mn \in {"ccf", "bccm"} -> {"CC"}
       [] OTHER -> {})
Writes(i) ==
    CASE i.mn \in AluA \cup {"addw", "subw"} -> RegOf(i.o[1]) \cup (IF i.o[1].r = "SP" THEN {} ELSE {"CC"})
      [] i.mn \in {"cp", "bcp", "cpw", "tnz", "tnzw", "rcf", "scf", "ccf", "rim", "sim", "rvf", "btjt", "btjf", "halt", "wfi"} -> {"CC"} \cup (IF i.mn \in {"btjt", "btjf"} THEN {"PC"} ELSE {})
      [] i.mn \in {"ld", "ldw", "ldf"} -> RegOf(i.o[1]) \cup (IF i.o[1].k = "reg" /\ i.o[2].k = "reg" THEN {} ELSE {"CC"})
      [] i.mn \in Rmw \cup {"clr", "clrw"} -> RegOf(i.o[1]) \cup {"CC"}
      [] i.mn \in {"mul", "div", "divw", "rlwa", "rrwa"} -> RegOf(i.o[1]) \cup RegOf(i.o[2]) \cup {"CC"}
      [] i.mn \in {"exg", "exgw"} -> RegOf(i.o[1]) \cup RegOf(i.o[2])
      [] i.mn \in {"push", "pushw"} -> {"SP"}
      [] i.mn \in {"pop", "popw"} -> RegOf(i.o[1]) \cup {"SP"}
      [] i.mn \in {"call", "callr", "callf", "ret", "retf"} -> {"SP", "PC"}
      [] i.mn \in {"trap", "int"} -> {"SP", "PC", "CC"}
      [] i.mn = "iret" -> {"SP", "PC", "CC", "A", "X", "Y"}
      [] i.mn \in Jr \cup {"jp", "jpf"} -> {"PC"}
      [] OTHER -> {}                          \* mov bset bres bcpl bccm nop break wfe: memory / nothing

-----------------------------------------------------------------------------
(* Operand tokens of a printed line: <<kind, number, text>>, kind in          *)
(*  i integer  l label (number = its address)  w word (text in lower case)    *)
(*  # ( ) [ ] , .  x unknown glyph                                            *)
RECURSIVE PatR(_, _)
PatR(ops, k) == IF k > Len(ops) THEN ""
                ELSE (IF ops[k][1] = "w" THEN "<" \o ops[k][3] \o ">" ELSE ops[k][1]) \o PatR(ops, k + 1)
Pat(ops) == PatR(ops, 1)
Num(ops, k) == ops[k][2]
\* the operands of a line: split at the commas outside brackets
RECURSIVE SplitR(_, _, _, _, _)
SplitR(ops, k, depth, cur, acc) ==
    IF k > Len(ops) THEN Append(acc, cur)
    ELSE LET t == ops[k][1] IN
         IF t = "," /\ depth = 0 THEN SplitR(ops, k + 1, 0, <<>>, Append(acc, cur))
         ELSE SplitR(ops, k + 1, depth + (IF t = "(" THEN 1 ELSE IF t = ")" THEN -1 ELSE 0), Append(cur, ops[k]), acc)
Split(ops) == IF ops = <<>> THEN <<>> ELSE SplitR(ops, 1, 0, <<>>, <<>>)

RegNames == [a |-> "A", x |-> "X", y |-> "Y", xl |-> "XL", xh |-> "XH", yl |-> "YL", yh |-> "YH", sp |-> "SP", cc |-> "CC"]
IdxNames == [x |-> "X", y |-> "Y", sp |-> "SP"]
\* an operand as written (sz = 0: the text does not say how wide the field is); relslot: a jump displacement
BadOp == Opd("bad", "", "", 0, 0)
OperandText(t, relslot, pc, ilen) ==
    LET p == Pat(t)
        Ix(k) == IF t[k][1] = "w" /\ t[k][3] \in DOMAIN IdxNames THEN IdxNames[t[k][3]] ELSE "?" IN
    CASE Len(t) = 1 /\ t[1][1] = "w" -> IF t[1][3] \in DOMAIN RegNames THEN R(RegNames[t[1][3]]) ELSE BadOp
      [] p = "#i" -> Opd("imm", "", "", 0, Num(t, 2))
      [] p \in {"i", "l"} ->
            (IF relslot
             \* a label is the address jumped to; a bare integer is the displacement byte itself (ppci's spelling)
             THEN (IF t[1][1] = "l" THEN Opd("rel", "", "", 1, Num(t, 1) - (pc + ilen))
                   ELSE IF InRange(Num(t, 1), -128, 255) THEN Opd("rel", "", "", 1, SignExt(WN(Num(t, 1), 8), 8)) ELSE Opd("rel", "", "", 1, 9999))
             ELSE Opd("mem", "", "", 0, Num(t, 1)))
      [] Len(t) = 3 /\ t[1][1] = "(" /\ t[3][1] = ")" /\ t[2][1] = "w" ->
            IF Ix(2) \in {"X", "Y"} THEN Opd("mem", "", Ix(2), 0, 0) ELSE BadOp
      [] Len(t) = 5 /\ p = "(" \o t[2][1] \o ",<" \o t[4][3] \o ">)" /\ t[2][1] \in {"i", "l"} /\ t[4][1] = "w" ->
            IF Ix(4) # "?" THEN Opd("mem", "", Ix(4), 0, Num(t, 2)) ELSE BadOp
      [] p \in {"[i]", "[l]", "[i.<w>]"} -> Opd("ptr", "w", "", 0, Num(t, 2))
      [] p = "[i.<e>]" -> Opd("ptr", "e", "", 0, Num(t, 2))
      [] Len(t) = 7 /\ t[1][1] = "(" /\ t[2][1] = "[" /\ t[3][1] \in {"i", "l"} /\ t[4][1] = "]" /\ t[5][1] = "," /\ t[6][1] = "w" /\ t[7][1] = ")" ->
            IF Ix(6) \in {"X", "Y"} THEN Opd("ptr", "w", Ix(6), 0, Num(t, 3)) ELSE BadOp
      [] OTHER -> BadOp

\* second names of the manual
Canon(mn) == CASE mn = "jrt" -> "jra" [] mn = "jrult" -> "jrc" [] mn = "jruge" -> "jrnc"
               [] mn = "sla" -> "sll" [] mn = "slaw" -> "sllw" [] OTHER -> mn
AllMn == {Form(c[1], c[2]).mn : c \in Pages \X (0..255)} \ {""}
RelMn == Jr \cup {"callr", "btjt", "btjf"}
\* length of the instructions that take a displacement (for label operands)
RelLen(mn) == CASE mn \in {"btjt", "btjf"} -> 5 [] mn \in {Jr90[c] : c \in DOMAIN Jr90} -> 3 [] OTHER -> 2
Asm(mn0, ops, pc) ==
    LET mn1 == Canon(mn0) IN
    IF mn1 \notin AllMn THEN NoAsm
    ELSE LET parts == Split(ops)
             n == Len(parts)
             o == [j \in 1..n |-> OperandText(parts[j], mn1 \in RelMn /\ j = n, pc, RelLen(mn1))]
             \* "add sp,#n" / "sub sp,#n" are the word operations on the stack pointer
             mn == IF n = 2 /\ mn1 \in {"add", "sub"} /\ o[1] = R("SP") THEN mn1 \o "w" ELSE mn1 IN
         IF \E j \in 1..n : o[j].k = "bad" THEN NoAsm
         ELSE [mn |-> mn, o |-> o, len |-> 0]

\* a decoded operand is the operand a text names: same kind, registers, index; the value fits the field and has its pattern
SameOpd(d, a) ==
    /\ d.k = a.k /\ d.r = a.r /\ d.x = a.x
    /\ CASE d.k = "rel" -> d.v = a.v
         [] d.k = "reg" -> TRUE
         [] d.sz = 0 -> d.v = a.v
         [] OTHER -> InRange(a.v, -P2(8 * d.sz - 1), P2(8 * d.sz) - 1) /\ WN(a.v, 8 * d.sz) = d.v
Agrees(d, a) == /\ Valid(d) /\ d.mn = a.mn /\ Len(d.o) = Len(a.o)
                /\ \A j \in 1..Len(d.o) : SameOpd(d.o[j], a.o[j])

-----------------------------------------------------------------------------
(* Operand ranges of the printed forms: <<what, lo, hi, alignment>>          *)
MRanges == {<<"b8", -128, 255, 1>>, <<"w16", -32768, 65535, 1>>, <<"rel", -128, 127, 1>>, <<"bit", 0, 7, 1>>}
=============================================================================
