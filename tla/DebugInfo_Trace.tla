---------------------------- MODULE DebugInfo_Trace ----------------------------
(* Idiom T: real compiles and links (harness/dbginfo_rec.py) validated against    *)
(* DebugInfo.tla.  TRACE_FILE is a JSON array of link jobs                        *)
(*   {"key": str, "objs": [object], "layout": {"has", "mems"}, "crash": str,      *)
(*    "steps": [{"ph": "merge"|"layout"|"relax"|"final", "k": n, "holes": [...],  *)
(*               "snap": {"syms", "secs", "dbg": {"locs","funcs","vars"}}}],      *)
(*    "rt": [{"ok","before","after","stable"}]}                                   *)
(* The specification takes the action each recorded step names, on the recorded   *)
(* inputs (objects, layout, hole map); after every step the real linker's symbol  *)
(* table, sections and debug tables must be the ones the specification computed   *)
(* (FollowsSyms etc.), and every clause of DebugInfo must hold (they speak about the *)
(* specification's state, which those invariants tie to the real one, and about the *)
(* ground-truth instruction extents recorded at emission).                        *)
EXTENDS DebugInfo, Json, IOUtils, TLC

Cases == JsonDeserialize(IOEnv.TRACE_FILE)
NChunks == 16
VARIABLES chunk, i, pos, bad
vars == <<ph, k, syms, secs, images, dbg, ins, vext, err, rule, chunk, i, pos, bad>>

Init == chunk = 0 /\ i = 0 /\ pos = 0 /\ bad = FALSE /\ LInit("right")

PickChunk == /\ chunk = 0 /\ chunk' \in 1..NChunks /\ UNCHANGED <<i, pos, bad>> /\ UNCHANGED lvars
PickCase  == /\ chunk > 0 /\ i = 0 /\ i' \in {c \in 1..Len(Cases) : c % NChunks = chunk - 1}
             /\ UNCHANGED <<chunk, pos, bad>> /\ UNCHANGED lvars

Job  == Cases[i]
More == i > 0 /\ ~bad /\ pos < Len(Job.steps)
St   == Job.steps[pos + 1]
Adv  == pos' = pos + 1 /\ UNCHANGED <<chunk, i, bad>>

TMerge  == More /\ St.ph = "merge" /\ St.k = k + 1 /\ St.k <= Len(Job.objs) /\ Merge(Job.objs[St.k]) /\ Adv
TLayout == More /\ St.ph = "layout" /\ k = Len(Job.objs) /\ Layout(Job.layout) /\ Adv
TRelax  == More /\ St.ph = "relax" /\ k = Len(Job.objs) /\ (Job.layout.has => ph = "placed") /\ Relax(St.holes) /\ Adv
TFinal  == More /\ St.ph = "final" /\ k = Len(Job.objs) /\ (Job.layout.has => ph \in {"placed", "relaxed"}) /\ Finish /\ Adv
TStep   == TMerge \/ TLayout \/ TRelax \/ TFinal
\* a recorded step the specification cannot take: phases out of order, a phase after a link error
Reject  == More /\ ~ENABLED TStep /\ bad' = TRUE /\ UNCHANGED <<chunk, i, pos>> /\ UNCHANGED lvars

Next == PickChunk \/ PickCase \/ TMerge \/ TLayout \/ TRelax \/ TFinal \/ Reject

-----------------------------------------------------------------------------
NotRejected == ~bad
Snap == Job.steps[pos].snap
At == i > 0 /\ pos > 0 /\ ~bad

\* the real linker's tables are the specification's.  A snapshot marked "same" is, field for field, the
\* one of the step before (the recorder does not repeat it): the table it stands for is found by going back
RECURSIVE SymsAt(_)
SymsAt(p) == IF p > 1 /\ Job.steps[p].snap.symsame THEN SymsAt(p - 1) ELSE Job.steps[p].snap.syms
RECURSIVE DbgAt(_)
DbgAt(p) == IF p > 1 /\ Job.steps[p].snap.dbgsame THEN DbgAt(p - 1) ELSE Job.steps[p].snap.dbg
FollowsSyms == At => (Snap.ids /\ SymsAt(pos) = syms)
FollowsSecs == At => Snap.secs = secs
FollowsDbg  == At =>
    /\ ~DbgAt(pos).none
    /\ DbgAt(pos).locs  = [n \in 1..Len(dbg.locs) |-> <<dbg.locs[n][1], dbg.locs[n][2]>>]
    /\ DbgAt(pos).funcs = [n \in 1..Len(dbg.funcs) |-> <<dbg.funcs[n][1], dbg.funcs[n][3], dbg.funcs[n][4], dbg.funcs[n][7]>>]
    /\ DbgAt(pos).vars  = [n \in 1..Len(dbg.vars) |-> <<dbg.vars[n][1], dbg.vars[n][3]>>]

\* the link ran to its end: no exception, last recorded step is the returned object
Completes == (i > 0 /\ pos = 0) =>
    /\ Job.crash = ""
    /\ Len(Job.steps) > 0 /\ Job.steps[Len(Job.steps)].ph = "final"
    /\ \A o \in 1..Len(Job.objs) : Job.objs[o].ids

\* debug info survives object save / load unchanged (judged once per job, in its first state)
SaveLoadOK == (i > 0 /\ pos = 0) => \A r \in 1..Len(Job.rt) :
    /\ Job.rt[r].ok /\ Job.rt[r].stable
    /\ Job.rt[r].before.dbg = Job.rt[r].after.dbg
    /\ Job.rt[r].before.syms = Job.rt[r].after.syms
    /\ Job.rt[r].before.types = Job.rt[r].after.types

\* RISC-V only: the low two bits of the first byte of every instruction item of the specification's final
\* table say its length (11 = 4 bytes, else 2) in the real output section: the ground truth is on the bytes
LengthBitsOK == (At /\ ph = "done" /\ Job.lenbits.has) =>
    \A n \in 1..Len(ins) :
        (ins[n][5] = 1 /\ ins[n][1] = Job.lenbits.sec) =>
            /\ ins[n][2] + 1 <= Len(Job.lenbits.lo)
            /\ IF Job.lenbits.lo[ins[n][2] + 1] = 3 THEN ins[n][3] = 4 ELSE ins[n][3] = 2

ShownT == [i |-> i, pos |-> pos, ph |-> ph, k |-> k, err |-> err, bad |-> bad,
           nsyms |-> Len(syms), secs |-> secs]
=============================================================================
