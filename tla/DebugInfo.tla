------------------------------- MODULE DebugInfo -------------------------------
(* X23 -- debug information describes the linked program.                         *)
(*                                                                                *)
(* The linker phases that touch debug information (ppci/binutils/linker.py), as   *)
(* actions over the destination object:                                           *)
(*   Merge(obj)    Linker.inject_object: sections are appended behind alignment   *)
(*                 padding, symbols enter shifted by their section's offset,      *)
(*                 global names are merged, the object's debug tables are          *)
(*                 replicated with every DebugAddress symbol id mapped             *)
(*                 (debuginfo.SymbolIdAdjustingReplicator)                         *)
(*   Layout(lay)   Linker.layout_sections: sections get addresses, DEFINESYMBOL   *)
(*                 makes a section and a symbol                                    *)
(*   Relax(holes)  Linker._apply_relaxation_holes: bytes are cut out of sections,  *)
(*                 everything behind a hole moves down                             *)
(* Next to the linker's own tables (syms, secs, dbg) the model moves the GROUND    *)
(* TRUTH along: the extent of every emitted instruction (ins: which bytes of the   *)
(* section belong to which function) and of every variable's storage.  The ground  *)
(* truth moves by what happens to the bytes (section offset; byte-precise hole      *)
(* arithmetic), the linker's tables move by the linker's rule (variable `rule`:     *)
(* "right" or one of the deliberately wrong rules of DebugInfo_MC).  The clauses    *)
(* of the property are invariants relating the two.                                 *)
(*                                                                                *)
(* Tuples (see harness/dbginfo_rec.py):                                            *)
(*   symbol   <<name, binding, section | "", value | -1, defined>>                  *)
(*   section  <<name, size, alignment, address>>                                   *)
(*   item     <<section, offset, size, function, 1 = instruction / 0 = data>>       *)
(*   address  <<kind, a, b>>   "fixed": a = symbol id; "fprel": a = offset, b = size *)
(*   location <<address, line, function, block, front-end rank>>                    *)
(*   function <<debug name, symbol name, begin, end, frame size, fp at top, locals>> *)
(*   variable <<debug name, symbol name, address, <<section, offset, size>>>>       *)
EXTENDS Integers, Sequences, FiniteSets

VARIABLES ph,      \* "init" | "merging" | "placed" | "relaxed" | "done"
          k,       \* number of objects merged
          syms, secs, images, dbg,   \* the linker's destination object
          ins, vext,                 \* ground truth: instruction items, variable storage per dbg.vars entry
          err,     \* "" or why the link cannot go on (a CompilerError / crash of the real linker)
          rule     \* the adjustment rule in force
lvars == <<ph, k, syms, secs, images, dbg, ins, vext, err, rule>>

Rules == {"right", "identity_ids", "no_section_offset", "unaligned_offset", "relax_skips_local"}

Mk(fn) == fn \o <<>>                \* force a concrete tuple
MaxOf(a, b) == IF a > b THEN a ELSE b
MinOf(a, b) == IF a < b THEN a ELSE b
AlignUp(x, a) == IF a <= 1 THEN x ELSE ((x + a - 1) \div a) * a

\* first position whose first component is `name`, 0 if none
Idx(seq, name) == LET S == {n \in 1..Len(seq) : seq[n][1] = name}
                  IN IF S = {} THEN 0 ELSE CHOOSE n \in S : \A m \in S : n <= m
IdxGlobal(sy, name) == LET S == {n \in 1..Len(sy) : sy[n][1] = name /\ sy[n][2] = "global"}
                       IN IF S = {} THEN 0 ELSE CHOOSE n \in S : \A m \in S : n <= m

EmptyDbg == [locs |-> <<>>, funcs |-> <<>>, vars |-> <<>>]

LInit(r) == /\ ph = "init" /\ k = 0 /\ syms = <<>> /\ secs = <<>> /\ images = <<>>
            /\ dbg = EmptyDbg /\ ins = <<>> /\ vext = <<>> /\ err = "" /\ rule = r

-----------------------------------------------------------------------------
(* Merge *)

\* where the bytes of input section `isec` (<<name, size, align>>) land in the output section
ByteOffset(ss, isec) == LET j == Idx(ss, isec[1]) IN IF j = 0 THEN 0 ELSE AlignUp(ss[j][2], isec[3])
ByteOffsetOf(ss, isecs, name) == LET n == Idx(isecs, name) IN IF n = 0 THEN 0 ELSE ByteOffset(ss, isecs[n])
\* ... and where the linker's rule says they land
RuleOffsetOf(r, ss, isecs, name) ==
    IF r = "no_section_offset" THEN 0
    ELSE IF r = "unaligned_offset" THEN (LET j == Idx(ss, name) IN IF j = 0 THEN 0 ELSE ss[j][2])
    ELSE ByteOffsetOf(ss, isecs, name)

MergeSecs(ss, isecs) ==
    LET upd == [j \in 1..Len(ss) |->
                   LET n == Idx(isecs, ss[j][1])
                   IN IF n = 0 THEN ss[j]
                      ELSE <<ss[j][1], AlignUp(ss[j][2], isecs[n][3]) + isecs[n][2],
                             MaxOf(ss[j][3], isecs[n][3]), ss[j][4]>>]
        new == SelectSeq(isecs, LAMBDA s : Idx(ss, s[1]) = 0)
    IN Mk(upd) \o Mk([n \in 1..Len(new) |-> <<new[n][1], new[n][2], MaxOf(4, new[n][3]), 0>>])

\* position in the destination of the symbol an input symbol is merged into (0: it becomes a new symbol)
Existing(sy, s) == IF s[2] = "global" THEN IdxGlobal(sy, s[1]) ELSE 0

Entering(r, ss, isecs, s) ==
    IF s[5] THEN <<s[1], s[2], s[3], s[4] + RuleOffsetOf(r, ss, isecs, s[3]), TRUE>>
    ELSE <<s[1], s[2], "", -1, FALSE>>

MergeSyms(r, sy, ss, isecs, isyms) ==
    LET upd == [j \in 1..Len(sy) |->
                   IF sy[j][2] = "global" /\ ~sy[j][5]
                   THEN LET D == {n \in 1..Len(isyms) : isyms[n][1] = sy[j][1] /\ isyms[n][2] = "global" /\ isyms[n][5]}
                        IN IF D = {} THEN sy[j] ELSE Entering(r, ss, isecs, isyms[CHOOSE n \in D : TRUE])
                   ELSE sy[j]]
        new == SelectSeq(isyms, LAMBDA s : Existing(sy, s) = 0)
    IN Mk(upd) \o Mk([n \in 1..Len(new) |-> Entering(r, ss, isecs, new[n])])

\* id (0-based) in the destination of every input symbol, by position
IdMap(sy, isyms) ==
    LET ex == Mk([n \in 1..Len(isyms) |-> Existing(sy, isyms[n])])
    IN Mk([n \in 1..Len(isyms) |->
              IF ex[n] > 0 THEN ex[n] - 1
              ELSE Len(sy) + Cardinality({m \in 1..n : ex[m] = 0}) - 1])

DefinedTwice(sy, isyms) ==
    \E n \in 1..Len(isyms) : /\ isyms[n][2] = "global" /\ isyms[n][5]
                             /\ Existing(sy, isyms[n]) > 0 /\ sy[Existing(sy, isyms[n])][5]

\* debuginfo.SymbolIdAdjustingReplicator.do_address
MapAddr(r, map, a) ==
    IF a[1] # "fixed" \/ r = "identity_ids" THEN a
    ELSE IF a[2] \in 0..(Len(map) - 1) THEN <<"fixed", map[a[2] + 1], 0>>
    ELSE <<"unmapped", a[2], 0>>

BadIds(obj) ==
    LET bad(a) == a[1] = "fixed" /\ a[2] \notin 0..(Len(obj.syms) - 1)
    IN \/ \E n \in 1..Len(obj.locs) : bad(obj.locs[n][1])
       \/ \E n \in 1..Len(obj.funcs) : bad(obj.funcs[n][3]) \/ bad(obj.funcs[n][4])
       \/ \E n \in 1..Len(obj.vars) : bad(obj.vars[n][3])

Merge(obj) ==
    /\ ph \in {"init", "merging"} /\ err = ""
    /\ LET map == IdMap(syms, obj.syms)
           fb  == Len(dbg.funcs)
           gfn(f) == IF f > 0 THEN f + fb ELSE 0
       IN /\ secs' = MergeSecs(secs, obj.secs)
          /\ syms' = MergeSyms(rule, syms, secs, obj.secs, obj.syms)
          /\ ins'  = ins \o Mk([n \in 1..Len(obj.ins) |->
                         <<obj.ins[n][1], obj.ins[n][2] + ByteOffsetOf(secs, obj.secs, obj.ins[n][1]),
                           obj.ins[n][3], gfn(obj.ins[n][4]), obj.ins[n][5]>>])
          /\ vext' = vext \o Mk([n \in 1..Len(obj.vars) |->
                         LET e == obj.vars[n][4]
                         IN IF e[2] < 0 THEN e ELSE <<e[1], e[2] + ByteOffsetOf(secs, obj.secs, e[1]), e[3]>>])
          /\ dbg' = [locs  |-> dbg.locs \o Mk([n \in 1..Len(obj.locs) |->
                                   LET l == obj.locs[n] IN <<MapAddr(rule, map, l[1]), l[2], gfn(l[3]), l[4], l[5]>>]),
                     funcs |-> dbg.funcs \o Mk([n \in 1..Len(obj.funcs) |->
                                   LET f == obj.funcs[n]
                                   IN <<f[1], f[2], MapAddr(rule, map, f[3]), MapAddr(rule, map, f[4]), f[5], f[6],
                                        Mk([m \in 1..Len(f[7]) |-> <<f[7][m][1], MapAddr(rule, map, f[7][m][2])>>])>>]),
                     vars  |-> dbg.vars \o Mk([n \in 1..Len(obj.vars) |->
                                   LET v == obj.vars[n] IN <<v[1], v[2], MapAddr(rule, map, v[3]), v[4]>>])]
    /\ err' = IF DefinedTwice(syms, obj.syms) THEN "multiple definition"
              ELSE IF BadIds(obj) THEN "debug address without symbol" ELSE ""
    /\ ph' = "merging" /\ k' = k + 1 /\ UNCHANGED <<images, rule>>

-----------------------------------------------------------------------------
(* Layout: lay = [has |-> BOOLEAN, mems |-> <<  <<location, << <<kind, name, n>> ... >> >> ... >>]   *)

SymSection(name) == "_$" \o name \o "_"

RECURSIVE Place(_, _, _, _, _, _, _)
\* -> <<sections, symbols, image (section names), error>>
Place(inputs, n, cur, ss, sy, img, e) ==
    IF n > Len(inputs) THEN <<ss, sy, img, e>>
    ELSE LET x == inputs[n] IN
      IF x[1] = "sec" THEN
          LET ss1 == IF Idx(ss, x[2]) = 0 THEN Append(ss, <<x[2], 0, 4, 0>>) ELSE ss
              j   == Idx(ss1, x[2])
              a   == AlignUp(cur, ss1[j][3])
          IN Place(inputs, n + 1, a + ss1[j][2], [ss1 EXCEPT ![j] = <<@[1], @[2], @[3], a>>], sy, Append(img, x[2]), e)
      ELSE IF x[1] = "align" THEN Place(inputs, n + 1, AlignUp(cur, x[3]), ss, sy, img, e)
      ELSE IF x[1] = "sym" THEN
          LET sn  == SymSection(x[2])
              g   == IdxGlobal(sy, x[2])
              def == <<x[2], "global", sn, 0, TRUE>>
              sy1 == IF g = 0 THEN Append(sy, def) ELSE IF ~sy[g][5] THEN [sy EXCEPT ![g] = def] ELSE sy
              e1  == IF g > 0 /\ sy[g][5] THEN "multiple definition" ELSE e
          IN Place(inputs, n + 1, cur, Append(ss, <<sn, 0, 1, cur>>), sy1, Append(img, sn), e1)
      ELSE Place(inputs, n + 1, cur, ss, sy, img, "layout input outside the model")

RECURSIVE PlaceMems(_, _, _, _, _, _)
PlaceMems(mems, n, ss, sy, imgs, e) ==
    IF n > Len(mems) THEN <<ss, sy, imgs, e>>
    ELSE LET r == Place(mems[n][2], 1, mems[n][1], ss, sy, <<>>, e)
         IN PlaceMems(mems, n + 1, r[1], r[2], Append(imgs, r[3]), r[4])

Layout(lay) ==
    /\ ph = "merging" /\ err = "" /\ lay.has
    /\ \E r \in {PlaceMems(lay.mems, 1, secs, syms, <<>>, "")} :
          secs' = r[1] /\ syms' = r[2] /\ images' = r[3] /\ err' = r[4]
    /\ ph' = "placed" /\ UNCHANGED <<k, dbg, ins, vext, rule>>

-----------------------------------------------------------------------------
(* Relax: holes = << <<section, << <<offset, size>> ... >> >> ... >>, offsets ascending            *)

HolesOf(holes, sec) == LET n == Idx(holes, sec) IN IF n = 0 THEN <<>> ELSE holes[n][2]

RECURSIVE CutBelow(_, _, _)
\* number of cut-out bytes among hs[n..] that lie below offset x
CutBelow(hs, n, x) ==
    IF n > Len(hs) \/ x <= hs[n][1] THEN 0
    ELSE MinOf(x - hs[n][1], hs[n][2]) + CutBelow(hs, n + 1, x)
NewOff(hs, x) == x - CutBelow(hs, 1, x)
RECURSIVE TotalCut(_, _)
TotalCut(hs, n) == IF n > Len(hs) THEN 0 ELSE hs[n][2] + TotalCut(hs, n + 1)
InsideHole(hs, x) == \E n \in 1..Len(hs) : hs[n][1] < x /\ x < hs[n][1] + hs[n][2]

HolesSorted(holes) == \A h \in 1..Len(holes) : \A n \in 1..(Len(holes[h][2]) - 1) :
                          holes[h][2][n][1] + holes[h][2][n][2] <= holes[h][2][n + 1][1]
\* every hole is the tail of one instruction item: it starts inside the item and ends where the item ends
HolesAreInstructionTails(holes) ==
    \A h \in 1..Len(holes) : \A n \in 1..Len(holes[h][2]) :
        LET o == holes[h][2][n][1]  z == holes[h][2][n][2]
        IN z > 0 /\ \E m \in 1..Len(ins) : /\ ins[m][1] = holes[h][1] /\ ins[m][5] = 1
                                           /\ ins[m][2] < o /\ ins[m][2] + ins[m][3] = o + z

RECURSIVE MoveImage(_, _, _, _, _)
\* Linker._apply_relaxation_holes, last loop: a section moves down by the largest multiple of its
\* alignment that fits into the space freed in front of it
MoveImage(names, n, delta, ss, holes) ==
    IF n > Len(names) THEN ss
    ELSE LET j == Idx(ss, names[n])
             move == delta - (delta % MaxOf(ss[j][3], 1))
         IN MoveImage(names, n + 1, move + TotalCut(HolesOf(holes, names[n]), 1),
                      [ss EXCEPT ![j] = <<@[1], @[2], @[3], @[4] - move>>], holes)
RECURSIVE MoveImages(_, _, _, _)
MoveImages(imgs, n, ss, holes) ==
    IF n > Len(imgs) THEN ss ELSE MoveImages(imgs, n + 1, MoveImage(imgs[n], 1, 0, ss, holes), holes)

RelaxSym(r, holes, s) ==
    IF ~s[5] \/ s[3] = "" \/ (r = "relax_skips_local" /\ s[2] = "local") THEN s
    ELSE <<s[1], s[2], s[3], NewOff(HolesOf(holes, s[3]), s[4]), TRUE>>

Relax(holes) ==
    /\ ph \in {"merging", "placed"} /\ err = "" /\ Len(holes) > 0
    /\ syms' = Mk([n \in 1..Len(syms) |-> RelaxSym(rule, holes, syms[n])])
    /\ ins'  = Mk([n \in 1..Len(ins) |->
                   LET x == ins[n]  hs == HolesOf(holes, x[1])
                   IN <<x[1], NewOff(hs, x[2]), NewOff(hs, x[2] + x[3]) - NewOff(hs, x[2]), x[4], x[5]>>])
    /\ vext' = Mk([n \in 1..Len(vext) |->
                   LET e == vext[n]  hs == HolesOf(holes, e[1])
                   IN IF e[2] < 0 THEN e ELSE <<e[1], NewOff(hs, e[2]), NewOff(hs, e[2] + e[3]) - NewOff(hs, e[2])>>])
    /\ LET sized == Mk([n \in 1..Len(secs) |->
                        <<secs[n][1], secs[n][2] - TotalCut(HolesOf(holes, secs[n][1]), 1), secs[n][3], secs[n][4]>>])
       IN secs' = MoveImages(images, 1, sized, holes)
    /\ err' = IF ~HolesSorted(holes) THEN "holes not in ascending order"
              ELSE IF ~HolesAreInstructionTails(holes) THEN "hole is not the tail of an instruction"
              ELSE IF \E n \in 1..Len(syms) : syms[n][5] /\ syms[n][3] # "" /\ InsideHole(HolesOf(holes, syms[n][3]), syms[n][4])
                   THEN "symbol inside a hole"
              ELSE ""
    /\ ph' = "relaxed" /\ UNCHANGED <<k, images, dbg, rule>>

Finish == /\ ph \in {"merging", "placed", "relaxed"}
          /\ ph' = "done" /\ UNCHANGED <<k, syms, secs, images, dbg, ins, vext, err, rule>>

-----------------------------------------------------------------------------
(* The clauses.  They hold after every phase, not only at the end: a debug address is a symbol,  *)
(* and a symbol is a (section, offset) pair that every phase must keep on its instruction.       *)

Phase == ph # "init"
ValidId(a) == a[1] = "fixed" /\ a[2] \in 0..(Len(syms) - 1)
SymOf(a) == syms[a[2] + 1]
Resolves(a) == ValidId(a) /\ SymOf(a)[5] /\ SymOf(a)[3] # ""

\* functions: begin is the function's own symbol and [begin, end) is the extent of its instructions
FuncSymbolOK == Phase => \A g \in 1..Len(dbg.funcs) :
    LET f == dbg.funcs[g] IN Resolves(f[3]) /\ Resolves(f[4]) /\ SymOf(f[3])[1] = f[2] /\ SymOf(f[3])[3] = SymOf(f[4])[3]

Items(g, sec) == {n \in 1..Len(ins) : ins[n][4] = g /\ ins[n][1] = sec}

FuncRangeOK == Phase => \A g \in 1..Len(dbg.funcs) :
    LET f == dbg.funcs[g] IN
    (Resolves(f[3]) /\ Resolves(f[4])) =>
        LET sec == SymOf(f[3])[3]  b == SymOf(f[3])[4]  e == SymOf(f[4])[4]  I == Items(g, sec)
        IN /\ I # {}
           /\ \A n \in I : b <= ins[n][2] /\ ins[n][2] + ins[n][3] <= e
           /\ \E n \in I : ins[n][2] = b
           /\ \E n \in I : ins[n][2] + ins[n][3] = e
           \* the items tile the range: each one ends where the range ends or where another one starts
           /\ \A n \in I : ins[n][2] + ins[n][3] = e \/ \E m \in I : ins[m][2] = ins[n][2] + ins[n][3]
           \* and no other function's bytes lie inside
           /\ \A n \in 1..Len(ins) : (ins[n][1] = sec /\ ins[n][4] # g) => ~(b <= ins[n][2] /\ ins[n][2] < e)

\* locations: the address is the start of an instruction of the function the location was emitted for
LocationOK == Phase => \A n \in 1..Len(dbg.locs) :
    LET l == dbg.locs[n] IN
    /\ Resolves(l[1]) /\ l[3] > 0
    /\ \E m \in 1..Len(ins) : ins[m][4] = l[3] /\ ins[m][1] = SymOf(l[1])[3] /\ ins[m][2] = SymOf(l[1])[4] /\ ins[m][3] > 0

\* emission order is address order (within a function), before and after linking
OrderOK == Phase => \A n \in 1..(Len(dbg.locs) - 1) :
    LET a == dbg.locs[n]  b == dbg.locs[n + 1] IN
    (a[3] = b[3] /\ Resolves(a[1]) /\ Resolves(b[1])) => SymOf(a[1])[4] <= SymOf(b[1])[4]

\* lines do not decrease with the address inside a basic block whose lines the front-end emitted in
\* non-decreasing order
LineTab == Mk([n \in 1..Len(dbg.locs) |->
              LET a == dbg.locs[n] IN <<a[3], a[4], a[2], IF Resolves(a[1]) THEN SymOf(a[1])[4] ELSE -1, a[5]>>])
LinesOK == Phase =>
    LET T == LineTab  N == Len(dbg.locs) IN
    \A x \in 1..N : \A y \in (x + 1)..N :
        (/\ T[x][1] = T[y][1] /\ T[x][2] = T[y][2] /\ T[x][2] > 0 /\ T[x][4] >= 0 /\ T[y][4] >= 0
         /\ \/ (T[x][4] < T[y][4] /\ T[x][3] > T[y][3])
            \/ (T[y][4] < T[x][4] /\ T[y][3] > T[x][3]))
        \* ... then the front-end itself emitted this block's lines out of order
        => \E u, v \in 1..N : /\ T[u][1] = T[x][1] /\ T[v][1] = T[x][1] /\ T[u][2] = T[x][2] /\ T[v][2] = T[x][2]
                               /\ T[u][5] < T[v][5] /\ T[u][3] > T[v][3]

\* global variables: the address is the variable's own symbol, which sits on the variable's storage
VariableOK == Phase => \A n \in 1..Len(dbg.vars) :
    LET v == dbg.vars[n] IN
    /\ Resolves(v[3]) /\ SymOf(v[3])[1] = v[2]
    /\ vext[n][2] >= 0 => (vext[n][1] = SymOf(v[3])[3] /\ vext[n][2] = SymOf(v[3])[4])
    /\ LET j == Idx(secs, SymOf(v[3])[3]) IN j > 0 /\ SymOf(v[3])[4] + MaxOf(vext[n][3], 0) <= secs[j][2]

\* locals: frame offsets inside the frame
LocalsOK == Phase => \A g \in 1..Len(dbg.funcs) :
    LET f == dbg.funcs[g] IN \A m \in 1..Len(f[7]) :
        LET a == f[7][m][2] IN
        /\ a[1] = "fprel" /\ a[3] > 0 /\ f[5] >= 0
        /\ IF f[6] THEN -f[5] <= a[2] /\ a[2] + a[3] <= 0 ELSE 0 <= a[2] /\ a[2] + a[3] <= f[5]

\* sections of an image keep their alignment and their order without overlap
PlacedOK == (ph \in {"placed", "relaxed", "done"}) => \A g \in 1..Len(images) :
    /\ \A n \in 1..Len(images[g]) : LET j == Idx(secs, images[g][n]) IN j > 0 /\ secs[j][4] % MaxOf(secs[j][3], 1) = 0
    /\ \A n \in 1..(Len(images[g]) - 1) :
          LET a == secs[Idx(secs, images[g][n])]  b == secs[Idx(secs, images[g][n + 1])]
          IN a[4] + a[2] <= b[4]

NoLinkError == err = ""

TypeOK == /\ ph \in {"init", "merging", "placed", "relaxed", "done"} /\ k \in Nat /\ rule \in Rules
          /\ \A n \in 1..Len(syms) : Len(syms[n]) = 5 /\ (syms[n][5] \in BOOLEAN)
          /\ \A n \in 1..Len(secs) : Len(secs[n]) = 4 /\ secs[n][2] >= 0
          /\ \A n \in 1..Len(ins) : Len(ins[n]) = 5 /\ ins[n][2] >= 0 /\ ins[n][3] >= 0
          /\ Len(vext) = Len(dbg.vars)
=============================================================================
