----------------------------- MODULE Graphs2_MC -----------------------------
(* Idiom M for extension property X14: the specification checks itself.     *)
(*                                                                           *)
(* (a) Laws.  TLC enumerates every digraph on 1..NN (self loops included)   *)
(*     and checks that the definitions of Graphs2.tla are the notions they  *)
(*     claim to be: SCCs partition the nodes, are strongly connected and    *)
(*     maximal and agree with Warshall's closure of the CommunityModules    *)
(*     Graphs module; a topological order exists iff the graph is acyclic   *)
(*     (= Graphs!IsDag); natural loops agree with literal path enumeration, *)
(*     are dominated by their header, lie inside the header's SCC, and      *)
(*     loops of different headers are nested or disjoint; the cyclomatic    *)
(*     number obeys its edge-by-edge characterisation; successor and        *)
(*     predecessor maps are each other's converse.                          *)
(* (b) TS*: graph.topological_sort (depth-first search with temporary       *)
(*     marks, written with an explicit stack) as a machine over every graph *)
(*     and every visiting order: it ends with a topological order on        *)
(*     acyclic graphs and fails ("DAG has cycles") exactly on cyclic ones.  *)
(* (c) The DiGraph / MaskableGraph state machines of Graphs2_SM explored    *)
(*     exhaustively from the empty graph: every history of mutations keeps  *)
(*     the bookkeeping invariants.  With -simulate the same machine is the  *)
(*     generator of the mutation histories replayed into the real objects   *)
(*     (variable act = the action just taken).                              *)
(* pc says which part a behaviour belongs to, so the state space is the sum *)
(* of the parts.                                                            *)
EXTENDS Graphs2_SM, TLC

CONSTANTS Parts,        \* subset of {"laws", "topo", "sm"}
          Kinds,        \* subset of {"di", "mask"}: machines explored in part "sm"
          NoTriggers,   \* subset of BOOLEAN, the values `avoid` may take.  avoid = TRUE
                        \* (generator only): leave out the calls that hit the listed
                        \* defects of the unchanged tree, so that long histories get
                        \* validated to their end; exhaustive runs use {FALSE}
          AsBuiltLoops  \* BOOLEAN: also state the loop formula of cfg.calculate_loops as a
                        \* law (expected to be refuted: known finding)

CG == INSTANCE Graphs

VARIABLES pc, g, dm, act, avoid,
          unmarked, tmp, out, stk      \* TS machine
tsv  == <<unmarked, tmp, out, stk>>
vars == <<pc, g, dm, act, avoid, tsv, gv>>
MCView == <<pc, g, dm, avoid, tsv, gv>>      \* exhaustive runs: the last action is not part of the state

root == 1
Empty == [x \in {} |-> 0]
NoAct == [op |-> "none", a |-> 0, b |-> 0]
TsIdle == unmarked = {} /\ tmp = {} /\ out = <<>> /\ stk = <<>>

Init == pc = "start" /\ g = {} /\ dm = Empty /\ act = NoAct /\ avoid = FALSE /\ TsIdle /\ GInit("di")

\* ---- choosing the graph (two steps, so that the workers share the graphs) ----
PickFirst == /\ pc = "start" /\ Parts \cap {"laws", "topo"} # {} /\ pc' = "pick"
             /\ g' \in SUBSET ((Node \cap {1, 2}) \X Node)
             /\ UNCHANGED <<dm, act, avoid, tsv, gv>>
PickRest == /\ pc = "pick" /\ pc' = "graph"
            /\ \E rest \in SUBSET ((Node \ {1, 2}) \X Node) :
                  /\ g' = g \cup rest
                  /\ dm' = DomMapF(g', root)
            /\ UNCHANGED <<act, avoid, tsv, gv>>

\* ---- (a) laws, evaluated in the states with pc = "graph" -------------------
AtGraph == pc = "graph" /\ "laws" \in Parts
GR == [node |-> Node, edge |-> g]
Induced(S) == {e \in g : e[1] \in S /\ e[2] \in S}
StronglyConn(S) == \A a \in S : \A b \in S : b \in Reach(Induced(S), a)

LawSCCPartition == AtGraph => IsPartitionOf(SCCs(Node, g), Node)
LawSCCWarshall == AtGraph =>
    LET C == CG!ConnectionsIn(GR)
    IN \A a \in Node : \A b \in Node : MutualReach(g, a, b) <=> (C[a, b] /\ C[b, a])
LawSCCMaximal == AtGraph =>
    /\ \A S \in SCCs(Node, g) : StronglyConn(S)
    /\ \A T \in SUBSET Node : (T # {} /\ StronglyConn(T)) => \E S \in SCCs(Node, g) : T \subseteq S
LawClasses == AtGraph =>
    \* the classes derived from the "reach by >= 1 edge" relation, with or without the
    \* reflexive pairs, are the SCCs
    LET T == {p \in Node \X Node : CanReach(g, p[1], p[2])}
    IN /\ ClassesOf(Node, T) = SCCs(Node, g)
       /\ ClassesOf(Node, T \cup {<<a, a>> : a \in Node}) = SCCs(Node, g)
LawDag == AtGraph => (Acyclic(Node, g) <=> CG!IsDag(GR))
Perms(S) == {s \in [1..Cardinality(S) -> S] : \A a \in DOMAIN s : \A b \in DOMAIN s : s[a] = s[b] => a = b}
LawTopoExists == AtGraph =>
    (Acyclic(Node, g) <=> \E s \in Perms(Node) : IsTopoOrder(Node, g, s))
LawLoopPaths == AtGraph =>
    LET SP == AllSimplePaths(g, Node) IN
    \A e \in BackEdges(g, dm) :
       \A x \in DOMAIN dm :
          x \in NatLoop(g, dm, e) <=>
             (x = e[2] \/ \E p \in PathsBetween(SP, x, e[1]) : ~OnPath(p, e[2]))
LawLoopShape == AtGraph =>
    \A e \in BackEdges(g, dm) :
       LET L == NatLoop(g, dm, e) IN
       /\ e[1] \in L /\ e[2] \in L
       /\ L \subseteq dm[e[2]]                         \* the header dominates its loop
       /\ L \subseteq SCCOf(Node, g, e[2])             \* a loop is strongly connected
       /\ StronglyConn(L)
       \* the header is the only way in
       /\ \A f \in g : (f[1] \in DOMAIN dm /\ f[1] \notin L /\ f[2] \in L) => f[2] = e[2]
LawLoopsNest == AtGraph =>
    \A h1 \in Headers(g, dm) : \A h2 \in Headers(g, dm) :
       LET A == MergedLoop(g, dm, h1)
           B == MergedLoop(g, dm, h2)
       IN h1 # h2 => (A \cap B = {} \/ A \subseteq B \/ B \subseteq A)
\* what cfg.calculate_loops computes instead of the natural loop (known finding)
AsBuiltLoop(E, DM, h) == {h} \cup {x \in DM[h] : x \in ReachPlus(E, h) /\ CanReach(E, x, h)}
LawAsBuiltLoops == (AtGraph /\ AsBuiltLoops) =>
    \A h \in Headers(g, dm) : AsBuiltLoop(g, dm, h) = MergedLoop(g, dm, h)
LawCyclo == AtGraph =>
    /\ Cyclo(Node, {}) = NN
    /\ \A e \in g :
         LET less == g \ {e}
             joined == e[2] \in ReachSet(Sym(less), {e[1]})
         IN Cyclo(Node, g) = Cyclo(Node, less) + (IF joined THEN 1 ELSE -1)
    /\ LET C == CG!ConnectionsIn([node |-> Node, edge |-> Sym(g)])
       IN WeakComps(Node, g) = {{b \in Node : C[a, b]} : a \in Node}
LawMaps == AtGraph =>
    /\ \A a \in Node : \A b \in Node :
         /\ b \in SuccMap(Node, g)[a] <=> a \in PredMap(Node, g)[b]
         /\ b \in AdjMap(Node, g)[a] <=> a \in AdjMap(Node, g)[b]
         /\ b \in SuccMap(Node, g)[a] <=> <<a, b>> \in g
    /\ CallEdges([f \in 1..NN |-> CG!SetToSeq(Succs(g, f))]) = g

\* ---- (b) graph.topological_sort as a machine ---------------------------------
\* stk = stack of frames [n |-> node, todo |-> children still to visit]; the
\* Python recursion visit(n) -> for m in n.children: visit(m)
Top == stk[Len(stk)]
TsStart == /\ pc = "graph" /\ "topo" \in Parts /\ pc' = "ts"
           /\ unmarked' = Node /\ tmp' = {} /\ out' = <<>> /\ stk' = <<>>
           /\ UNCHANGED <<g, dm, act, avoid, gv>>
\* while unmarked: n = next(iter(unmarked)); visit(n)
TsRoot == /\ pc = "ts" /\ stk = <<>> /\ unmarked # {}
          /\ \E v \in unmarked :
               /\ tmp' = tmp \cup {v}
               /\ stk' = <<[n |-> v, todo |-> Succs(g, v)]>>
          /\ UNCHANGED <<pc, g, dm, act, avoid, unmarked, out, gv>>
\* visit(m) for the next child m of the frame on top
TsChild == /\ pc = "ts" /\ stk # <<>> /\ Top.todo # {}
           /\ \E m \in Top.todo :
                LET rest == [stk EXCEPT ![Len(stk)].todo = @ \ {m}] IN
                IF m \in tmp
                THEN pc' = "tsfail" /\ UNCHANGED <<unmarked, tmp, out, stk>>    \* assert
                ELSE /\ pc' = pc
                     /\ IF m \in unmarked
                        THEN tmp' = tmp \cup {m} /\ stk' = Append(rest, [n |-> m, todo |-> Succs(g, m)])
                        ELSE tmp' = tmp /\ stk' = rest                       \* already placed
                     /\ UNCHANGED <<unmarked, out>>
           /\ UNCHANGED <<g, dm, act, avoid, gv>>
\* children done: the node is placed in front of everything placed so far
TsReturn == /\ pc = "ts" /\ stk # <<>> /\ Top.todo = {}
            /\ tmp' = tmp \ {Top.n} /\ unmarked' = unmarked \ {Top.n}
            /\ out' = <<Top.n>> \o out
            /\ stk' = SubSeq(stk, 1, Len(stk) - 1)
            /\ UNCHANGED <<pc, g, dm, act, avoid, gv>>
TsDone == /\ pc = "ts" /\ stk = <<>> /\ unmarked = {} /\ pc' = "tsdone"
          /\ UNCHANGED <<g, dm, act, avoid, tsv, gv>>
TsSound    == pc = "tsdone" => (Acyclic(Node, g) /\ IsTopoOrder(Node, g, out))
TsFailsOnlyOnCycles == pc = "tsfail" => ~Acyclic(Node, g)
\* nodes with a temporary mark are exactly the nodes on the recursion stack, and what is
\* placed so far is a topological order of the nodes placed
TsInv == pc = "ts" =>
    /\ tmp = {stk[j].n : j \in 1..Len(stk)}
    /\ Rng2(out) = Node \ unmarked /\ NoDup2(out)
    /\ \A e \in g : (e[1] \in Rng2(out) /\ e[2] \in Rng2(out) /\ e[1] # e[2])
                       => PosIn(out, e[1]) < PosIn(out, e[2])

\* ---- (c) the mutable graph objects -------------------------------------------
Act(o, x, y) == [op |-> o, a |-> x, b |-> y]
SmStart == /\ pc = "start" /\ "sm" \in Parts /\ pc' = "sm"
           /\ kind' \in Kinds /\ avoid' \in NoTriggers
           /\ UNCHANGED <<g, dm, act, tsv, nodes, masked, edges, suc, pre, adj, madj>>
Sm == pc = "sm" /\ UNCHANGED <<pc, g, dm, avoid, tsv>>
A_DiAddNode == \E v \in Node : Sm /\ DiAddNode(v) /\ act' = Act("AddNode", v, 0)
A_DiAddEdge == \E v \in Node : \E w \in Node : Sm /\ DiAddEdge(v, w) /\ act' = Act("AddEdge", v, w)
A_DiDelEdge == \E v \in Node : \E w \in Node :
                  /\ avoid => <<w, v>> \notin edges
                  /\ Sm /\ DiDelEdge(v, w) /\ act' = Act("DelEdge", v, w)
A_DiDelSelf == \E v \in Node : ~avoid /\ Sm /\ DiDelSelf(v) /\ act' = Act("DelEdge", v, v)
A_DiDelSelfRefused == \E v \in Node : ~avoid /\ Sm /\ DiDelSelfRefused(v) /\ act' = Act("DelEdge", v, v)
A_DiDelNode == \E v \in Node :
                  /\ avoid => <<v, v>> \notin edges
                  /\ Sm /\ DiDelNode(v) /\ act' = Act("DelNode", v, 0)
A_MkAddNode == \E v \in Node : Sm /\ MkAddNode(v) /\ act' = Act("AddNode", v, 0)
A_MkAddEdge == \E v \in Node : \E w \in Node : Sm /\ MkAddEdge(v, w) /\ act' = Act("AddEdge", v, w)
A_MkDelEdge == \E v \in Node : \E w \in Node : Sm /\ MkDelEdge(v, w) /\ act' = Act("DelEdge", v, w)
A_MkDelNode == \E v \in Node :
                  /\ avoid => madj[v] = {}
                  /\ Sm /\ MkDelNode(v) /\ act' = Act("DelNode", v, 0)
A_MkMask    == \E v \in Node : Sm /\ MkMask(v) /\ act' = Act("Mask", v, 0)
A_MkUnmask  == \E v \in Node : Sm /\ MkUnmask(v) /\ act' = Act("Unmask", v, 0)

Next == \/ PickFirst \/ PickRest
        \/ TsStart \/ TsRoot \/ TsChild \/ TsReturn \/ TsDone
        \/ SmStart
        \/ A_DiAddNode \/ A_DiAddEdge \/ A_DiDelEdge \/ A_DiDelSelf \/ A_DiDelSelfRefused \/ A_DiDelNode
        \/ A_MkAddNode \/ A_MkAddEdge \/ A_MkDelEdge \/ A_MkDelNode \/ A_MkMask \/ A_MkUnmask

\* the invariants of Graphs2_SM, plus: masking and unmasking never touches the graph
\* the object stands for ("edge information is retained")
MaskKeepsGraph == [][(masked' # masked) => edges' = edges]_vars
=============================================================================
