-------------------------------- MODULE Dis --------------------------------
(* X18 -- disassembly inverts encoding.                                      *)
(*                                                                           *)
(* A decoder that is derived from the same pattern table as the encoder.     *)
(* The table has one row per instruction class:                              *)
(*   len   number of bytes of the encoding                                   *)
(*   pats  the patterns in the order the encoder applies them; a pattern is  *)
(*         [fix, pos, val, op, tr]: pos = the bit positions of the field in  *)
(*         the encoded byte string (bit k of byte n is position BB*n+k+1;    *)
(*         the field's least significant bit first), fix = TRUE: the field   *)
(*         always holds val (bits, LSB first); fix = FALSE: the field holds  *)
(*         the number of operand op (0: none of the syntax operands),        *)
(*         after the transform tr ("none", "inv" = a transform that can be   *)
(*         undone, "noinv" = one that cannot)                                *)
(*   ops   the operands of the assembly syntax: [kind, nums]; kind "reg"     *)
(*         (nums = the numbers of the registers of its class), "int", or     *)
(*         anything else (label, nested operand constructor, ...)            *)
(*   custom / opaque / flat  the class has an encoder of its own beside the  *)
(*         table / a pattern of it is not a plain bit field / all its        *)
(*         operands are registers and integers                               *)
(* A word is the bit string of an encoding.  Numbers are bit strings, LSB    *)
(* first, of any length (two's complement; reading beyond the end gives 0    *)
(* -- every number the harness records has 64 bits).                         *)
EXTENDS Integers, Sequences, FiniteSets

CONSTANT BB          \* bits per byte (8; the model-checking configuration uses 2)

BitAt(v, k) == IF k <= Len(v) THEN v[k] ELSE 0
Low(v, n) == [k \in 1..n |-> BitAt(v, k)]
Congruent(v1, v2, n) == Low(v1, n) = Low(v2, n)
ZeroWord(n) == [k \in 1..n |-> 0]
RECURSIVE NatOf(_)
NatOf(v) == IF Len(v) = 0 THEN 0 ELSE v[1] + 2 * NatOf(Tail(v))

\* ---- the encoder: every pattern writes its field, in table order -----------------------------
IndexIn(pos, k) == CHOOSE j \in 1..Len(pos) : pos[j] = k
Put(w, pos, v) == [k \in 1..Len(w) |-> IF \E j \in 1..Len(pos) : pos[j] = k THEN BitAt(v, IndexIn(pos, k)) ELSE w[k]]
Get(w, pos) == [j \in 1..Len(pos) |-> w[pos[j]]]
PatValue(p, fvk) == IF p.fix THEN p.val ELSE fvk
RECURSIVE EncFrom(_, _, _, _)
EncFrom(row, fv, k, w) ==
    IF k > Len(row.pats) THEN w
    ELSE EncFrom(row, fv, k + 1, Put(w, row.pats[k].pos, PatValue(row.pats[k], fv[k])))
\* fv[k] = the number the k-th pattern puts into its field (ignored for fixed patterns)
EncodeT(row, fv) == EncFrom(row, fv, 1, ZeroWord(BB * row.len))

\* ---- the decoder ----------------------------------------------------------------------------
PosInside(row, n) == \A k \in 1..Len(row.pats) : \A j \in 1..Len(row.pats[k].pos) : row.pats[k].pos[j] \in 1..n
\* a row matches a word when the word has the row's length and every fixed field holds its value
FixedMatch(row, w) ==
    /\ Len(w) = BB * row.len
    /\ PosInside(row, Len(w))
    /\ \A k \in 1..Len(row.pats) : row.pats[k].fix => Get(w, row.pats[k].pos) = Low(row.pats[k].val, Len(row.pats[k].pos))
DecodeT(row, w) == [k \in 1..Len(row.pats) |-> Get(w, row.pats[k].pos)]
CatchAll(row) == \A k \in 1..Len(row.pats) : ~row.pats[k].fix     \* data directive: matches every word of its length

\* ---- which classes a table-derived decoder can invert at all ---------------------------------
Bound(row, o) == \E k \in 1..Len(row.pats) : ~row.pats[k].fix /\ row.pats[k].op = o
Complete(row) ==
    /\ row.flat /\ ~row.custom /\ ~row.opaque
    /\ \A o \in 1..Len(row.ops) : Bound(row, o)
    /\ \A k \in 1..Len(row.pats) : row.pats[k].tr # "noinv" /\ (~row.pats[k].fix => row.pats[k].op > 0)
\* every register field of the word holds the number of a register of the operand's class
RegFieldsOK(row, w) ==
    \A k \in 1..Len(row.pats) :
        (~row.pats[k].fix /\ row.pats[k].op > 0 /\ row.pats[k].tr = "none" /\ row.ops[row.pats[k].op].kind = "reg")
            => \E n \in {NatOf(Get(w, row.pats[k].pos))} : \E j \in 1..Len(row.ops[row.pats[k].op].nums) :
                   row.ops[row.pats[k].op].nums[j] = n
\* the pattern (index) that carries operand o untransformed, 0 if none
PlainPatOf(row, o) ==
    IF \E k \in 1..Len(row.pats) : ~row.pats[k].fix /\ row.pats[k].op = o /\ row.pats[k].tr = "none"
    THEN CHOOSE k \in 1..Len(row.pats) : ~row.pats[k].fix /\ row.pats[k].op = o /\ row.pats[k].tr = "none"
    ELSE 0
\* an operand carried by exactly one pattern, untransformed: its printed number is the field content
SinglePlain(row, o) == PlainPatOf(row, o) > 0 /\ Cardinality({k \in 1..Len(row.pats) : ~row.pats[k].fix /\ row.pats[k].op = o}) = 1

\* ---- stream splitting -----------------------------------------------------------------------
Slice(s, from, n) == [k \in 1..n |-> s[from + k - 1]]
\* rows of table T (a sequence of rows) that match the stream s at bit offset off (0-based)
Matching(T, s, off) == {c \in 1..Len(T) : off + BB * T[c].len <= Len(s) /\ FixedMatch(T[c], Slice(s, off + 1, BB * T[c].len))}
\* priority: an instruction pattern beats a catch-all (data) pattern
Best(T, s, off) ==
    LET m == Matching(T, s, off) IN
    IF \E c \in m : ~CatchAll(T[c]) THEN {c \in m : ~CatchAll(T[c])} ELSE m
\* no instruction word has a proper prefix that is an instruction word (of a shorter row)
Values(n) == [1..n -> {0, 1}]
FieldSpace(row) == [k \in 1..Len(row.pats) |-> Values(Len(row.pats[k].pos))]
AllFV(row) == {f \in [1..Len(row.pats) -> UNION {Values(Len(row.pats[k].pos)) : k \in 1..Len(row.pats)}] :
                  \A k \in 1..Len(row.pats) : Len(f[k]) = Len(row.pats[k].pos)}
Words(row) == {EncodeT(row, fv) : fv \in AllFV(row)}
PrefixFree(T) ==
    \A c1 \in 1..Len(T), c2 \in 1..Len(T) :
        (~CatchAll(T[c1]) /\ ~CatchAll(T[c2]) /\ T[c1].len < T[c2].len)
            => \A w \in Words(T[c2]) : ~FixedMatch(T[c1], Slice(w, 1, BB * T[c1].len))
=============================================================================
