----------------------------- MODULE Risc3_Eval -----------------------------
(* Idiom E for the mips / or1k / microblaze parts of C08 and the mips part   *)
(* of C07: one state per record observed on the real ppci code               *)
(* (harness/riscgen.py), one invariant per clause; the clauses themselves    *)
(* are Mips_Eval / Or1k_Eval / MicroBlaze_Eval, selected by the record's     *)
(* "isa" field.                                                              *)
EXTENDS Integers, Sequences, TLC, Json, IOUtils
Recs == JsonDeserialize(IOEnv.TRACE_FILE)
Mi == INSTANCE Mips_Eval
Or == INSTANCE Or1k_Eval
Mb == INSTANCE MicroBlaze_Eval
ChunkLen == 16
NChunks == (Len(Recs) + ChunkLen - 1) \div ChunkLen
VARIABLES chunk, idx
vars == <<chunk, idx>>
Init == chunk = 0 /\ idx = 0
PickChunk == chunk = 0 /\ chunk' \in 1..NChunks /\ idx' = 0
PickRec == chunk > 0 /\ idx = 0 /\ chunk' = chunk
           /\ idx' \in ((chunk - 1) * ChunkLen + 1)..(IF chunk * ChunkLen < Len(Recs) THEN chunk * ChunkLen ELSE Len(Recs))
Next == PickChunk \/ PickRec

Sel(r, m, o, b) == CASE r.isa = "mips" -> m [] r.isa = "or1k" -> o [] r.isa = "microblaze" -> b
IsEnc == idx > 0 /\ Recs[idx].t = "enc"
IsRef == idx > 0 /\ Recs[idx].t = "ref"
IsRw == idx > 0 /\ Recs[idx].t = "rw"
Rec == Recs[idx]
\* ---- C08
SyntaxKnown == IsEnc => Sel(Rec, Mi!SyntaxKnownR(Rec), Or!SyntaxKnownR(Rec), Mb!SyntaxKnownR(Rec))
InRange == IsEnc => Sel(Rec, Mi!InRangeR(Rec), Or!InRangeR(Rec), Mb!InRangeR(Rec))
EncodingAgrees == IsEnc => Sel(Rec, Mi!AgreesR(Rec), Or!AgreesR(Rec), Mb!AgreesR(Rec))
Encodes == (IsEnc /\ Rec.path = "enc") => Sel(Rec, Mi!EncodesR(Rec), Or!EncodesR(Rec), Mb!EncodesR(Rec))
\* ---- spec validation against a reference disassembler (never a verdict about ppci)
RefSyntaxKnown == (IsRef /\ Rec.mn # "invalid") => Sel(Rec, Mi!SyntaxKnownR(Rec), Or!SyntaxKnownR(Rec), Mb!SyntaxKnownR(Rec))
RefInvalid == (IsRef /\ Rec.mn = "invalid") => Sel(Rec, Mi!RefInvalidR(Rec), Or!RefInvalidR(Rec), Mb!RefInvalidR(Rec))
RefAgrees == (IsRef /\ Rec.mn # "invalid") => Sel(Rec, Mi!RefAgreesR(Rec), Or!RefAgreesR(Rec), Mb!RefAgreesR(Rec))
\* ---- C07
Decodable == IsRw => Sel(Rec, Mi!DecodableR(Rec), Or!DecodableR(Rec), Mb!DecodableR(Rec))
StaticWrites == IsRw => Sel(Rec, Mi!StaticWritesR(Rec), Or!StaticWritesR(Rec), Mb!StaticWritesR(Rec))
LinkWrite == IsRw => Sel(Rec, Mi!LinkWriteR(Rec), Or!LinkWriteR(Rec), Mb!LinkWriteR(Rec))
StaticReads == IsRw => Sel(Rec, Mi!StaticReadsR(Rec), Or!StaticReadsR(Rec), Mb!StaticReadsR(Rec))
=============================================================================
