---------------------------- MODULE Xtensa_Eval ----------------------------
(* Idiom E for the xtensa part of C08: one state per record observed on the  *)
(* real ppci code (harness/xtensagen.py); one invariant per clause.          *)
(*                                                                           *)
(* t = "enc": one instruction instance of ppci.arch.xtensa: mn, ops = the    *)
(*     text ppci printed, tokenised; sym, pc = address of the label operand  *)
(*     / of the instruction; out = [ok, exc, bytes]: what encode() (+ the    *)
(*     instruction's own relocation) or the assembler and linker produced    *)
(* t = "mac": a macro instruction: ops / mn as above; seq = the byte strings *)
(*     of the instructions it is rendered to; exp = the tokenised lines of   *)
(*     the expansion the macro stands for                                    *)
EXTENDS Xtensa, Json, IOUtils
Recs == JsonDeserialize(IOEnv.TRACE_FILE)
ChunkLen == 16
NChunks == (Len(Recs) + ChunkLen - 1) \div ChunkLen
VARIABLES chunk, idx
vars == <<chunk, idx>>
Init == chunk = 0 /\ idx = 0
PickChunk == chunk = 0 /\ chunk' \in 1..NChunks /\ idx' = 0
PickRec == chunk > 0 /\ idx = 0 /\ chunk' = chunk
           /\ idx' \in ((chunk - 1) * ChunkLen + 1)..(IF chunk * ChunkLen < Len(Recs) THEN chunk * ChunkLen ELSE Len(Recs))
Next == PickChunk \/ PickRec

AsmOf(r) == Asm(r.mn, r.ops, r.sym, r.pc)
IsEnc == idx > 0 /\ Recs[idx].t = "enc"
\* not a verdict (a note): the printed line is outside the modelled assembly syntax
SyntaxKnown == IsEnc => AsmOf(Recs[idx]) # NoAsm
\* not a verdict (a note; C10's question): ppci accepted an operand outside the instruction's range
InDomain == (IsEnc /\ Recs[idx].out.ok) => \E a \in {AsmOf(Recs[idx])} : a # NoAsm => WF([a EXCEPT !.rf = Row(a.mn)[2]])
\* whatever ppci accepts and emits decodes to the operation and operands it prints
EncodingAgrees == (IsEnc /\ Recs[idx].out.ok) =>
    \E a \in {AsmOf(Recs[idx])} : \E d \in {Decode(Recs[idx].out.bytes)} :
        (a # NoAsm /\ WF([a EXCEPT !.rf = Row(a.mn)[2]])) => Core(d) = Core(a)

\* a macro instruction is rendered to the instructions its documentation names, operand for operand
\* (mov ar, as = or ar, as, as; push / pop through the stack pointer a1)
IsMac == idx > 0 /\ Recs[idx].t = "mac"
MacroMeans(mn, ops) ==
    CASE mn = "mov" /\ Pat(ops) = "aa" -> <<[X("or") EXCEPT !.r = ops[1][2], !.s = ops[2][2], !.t = ops[2][2]]>>
      [] mn = "push" /\ Pat(ops) = "a" -> <<[X("addi") EXCEPT !.t = 1, !.s = 1, !.imm = -4], [X("s32i") EXCEPT !.t = ops[1][2], !.s = 1]>>
      [] mn = "pop" /\ Pat(ops) = "a" -> <<[X("l32i") EXCEPT !.t = ops[1][2], !.s = 1], [X("addi") EXCEPT !.t = 1, !.s = 1, !.imm = 4]>>
      [] OTHER -> <<>>
MacroKnown == IsMac => MacroMeans(Recs[idx].mn, Recs[idx].ops) # <<>>
MacroAgrees == (IsMac /\ Recs[idx].ok) =>
    \E want \in {MacroMeans(Recs[idx].mn, Recs[idx].ops)} :
        want # <<>> => /\ Len(Recs[idx].seq) = Len(want)
                       /\ \A k \in 1..Len(want) : Decode(Recs[idx].seq[k]) = want[k]
=============================================================================
