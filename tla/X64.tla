-------------------------------- MODULE X64 --------------------------------
(* The x86-64 instruction format (64-bit mode) for the opcode subset ppci    *)
(* can emit, transcribed from the Intel SDM vol. 2 (ch. 2 "Instruction       *)
(* Format", appendix A opcode maps, the per-instruction pages) and the AMD   *)
(* APM vol. 3 -- independently of ppci.                                      *)
(*                                                                           *)
(*   Decode(bytes)  legacy prefixes (66 F2 F3), REX (W R X B), one- and      *)
(*                  two-byte (0F) opcodes, ModRM (mod/reg/rm), SIB           *)
(*                  (scale/index/base; index 100b = none unless REX.X; base  *)
(*                  101b with mod 00 = no base + disp32), disp8 / disp32,    *)
(*                  RIP-relative (mod 00 rm 101), imm8/16/32/64, rel8/rel32  *)
(*   EncodeWith     the reference encoder (shortest displacement form); the  *)
(*                  law Decode(EncodeWith(e, ins)) = ins is checked in X64_MC    *)
(*   Reads / Writes architectural register sets per decoded instruction      *)
(*                  (al/ax/eax/rax are one register; xmm n is 16 + n)        *)
(*   Agrees         the decoded instruction is the one a printed assembly    *)
(*                  line (Intel operand order, ppci's memory syntax          *)
(*                  [base, index, disp]) designates                          *)
(*                                                                           *)
(* Bytes are sequences over 0..255.  Displacements and branch offsets are    *)
(* TLC integers (signed 32 bit).  Immediates are byte-limb words (Words.tla) *)
(* of the width the instruction operates on, after sign extension.  Printed  *)
(* integers arrive as 16-limb two's-complement words.                        *)
(*                                                                           *)
(* (Bound variables of the constant definitions are named ins, cc, ... and   *)
(* not i, c: a module that extends this one and declares VARIABLE i or c     *)
(* would turn Table etc. into state-level expressions that TLC re-evaluates  *)
(* on every use instead of once.)                                            *)
EXTENDS Words, FiniteSets

None == -1                 \* no base / no index / no opcode extension
RIP == 16                  \* pseudo base register of a RIP-relative operand
XmmBase == 16              \* register family of xmm n is 16 + n

\* ------------------------------------------------------------------ bytes and integers
S8(x) == IF x >= 128 THEN x - 256 ELSE x
Has(b, p, n) == n = 0 \/ (p >= 1 /\ p + n - 1 <= Len(b))
S32At(b, p) == b[p] + 256 * b[p + 1] + 65536 * b[p + 2] + 16777216 * S8(b[p + 3])
P256(k) == CASE k = 0 -> 1 [] k = 1 -> 256 [] k = 2 -> 65536 [] OTHER -> 16777216
\* signed 32-bit integer -> n little-endian two's-complement bytes (\div is floor division)
IntBytes(v, n) == Mk([j \in 1..n |-> IF j <= 4 THEN (v \div P256(j - 1)) % 256 ELSE IF v < 0 THEN 255 ELSE 0])
SignExtend(w, n) == Mk([j \in 1..n |-> IF j <= Len(w) THEN w[j] ELSE IF w[Len(w)] >= 128 THEN 255 ELSE 0])
Slice(b, p, n) == Mk([j \in 1..n |-> b[p + j - 1]])

\* ------------------------------------------------------------------ operands
Reg(n, sz) == [k |-> "reg", n |-> n, sz |-> sz, hi |-> FALSE]
RegHi(n)   == [k |-> "reg", n |-> n, sz |-> 8, hi |-> TRUE]        \* ah ch dh bh = high byte of register 0..3
Xmm(n)     == [k |-> "xmm", n |-> n]
Mem(base, idx, sc, disp, sz) == [k |-> "mem", base |-> base, idx |-> idx, sc |-> sc, disp |-> disp, sz |-> sz]
Imm(w)     == [k |-> "imm", w |-> w]
Rel(d)     == [k |-> "rel", d |-> d]
One        == [k |-> "one"]                                        \* the implicit count 1 of D0 / D1
\* 8-bit register numbers: without any REX prefix 4..7 are ah ch dh bh, with one spl bpl sil dil
GReg(n, sz, rexp) == IF sz = 8 /\ ~rexp /\ n \in 4..7 THEN RegHi(n - 4) ELSE Reg(n, sz)

GprName64 == <<"rax", "rcx", "rdx", "rbx", "rsp", "rbp", "rsi", "rdi", "r8", "r9", "r10", "r11", "r12", "r13", "r14", "r15">>
GprName32 == <<"eax", "ecx", "edx", "ebx", "esp", "ebp", "esi", "edi", "r8d", "r9d", "r10d", "r11d", "r12d", "r13d", "r14d", "r15d">>
GprName16 == <<"ax", "cx", "dx", "bx", "sp", "bp", "si", "di", "r8w", "r9w", "r10w", "r11w", "r12w", "r13w", "r14w", "r15w">>
GprName8  == <<"al", "cl", "dl", "bl", "spl", "bpl", "sil", "dil", "r8b", "r9b", "r10b", "r11b", "r12b", "r13b", "r14b", "r15b">>
HiName8   == <<"ah", "ch", "dh", "bh">>
XmmName   == <<"xmm0", "xmm1", "xmm2", "xmm3", "xmm4", "xmm5", "xmm6", "xmm7", "xmm8", "xmm9", "xmm10", "xmm11", "xmm12",
               "xmm13", "xmm14", "xmm15">>
RegTable == {<<GprName64[n], Reg(n - 1, 64)>> : n \in 1..16} \cup {<<GprName32[n], Reg(n - 1, 32)>> : n \in 1..16}
            \cup {<<GprName16[n], Reg(n - 1, 16)>> : n \in 1..16} \cup {<<GprName8[n], Reg(n - 1, 8)>> : n \in 1..16}
            \cup {<<HiName8[n], RegHi(n - 1)>> : n \in 1..4} \cup {<<XmmName[n], Xmm(n - 1)>> : n \in 1..16}
NoReg == [k |-> "none"]
RegByName(s) == LET m == {p \in RegTable : p[1] = s} IN IF m = {} THEN NoReg ELSE (CHOOSE p \in m : TRUE)[2]

\* ------------------------------------------------------------------ prefixes, REX, ModRM, SIB
OtherPfx == {38, 46, 54, 62, 100, 101, 103, 240}     \* segment overrides, address size, lock: outside the subset
NoPfx == [p66 |-> FALSE, rep |-> 0, other |-> FALSE, pos |-> 1]
RECURSIVE Prefixes(_, _, _)
Prefixes(b, p, acc) ==
    LET x == IF p <= Len(b) THEN b[p] ELSE -1 IN
    IF x = 102 THEN Prefixes(b, p + 1, [acc EXCEPT !.p66 = TRUE])
    ELSE IF x \in {242, 243} THEN Prefixes(b, p + 1, [acc EXCEPT !.rep = x])
    ELSE IF x \in OtherPfx THEN Prefixes(b, p + 1, [acc EXCEPT !.other = TRUE])
    ELSE [acc EXCEPT !.pos = p]

NoRex == [present |-> FALSE, w |-> 0, r |-> 0, x |-> 0, b |-> 0]
RexBits(v) == [present |-> TRUE, w |-> (v \div 8) % 2, r |-> (v \div 4) % 2, x |-> (v \div 2) % 2, b |-> v % 2]
RexByte(w, r, x, b) == 64 + 8 * w + 4 * r + 2 * x + b

ModRMFields(m) == [mod |-> m \div 64, reg |-> (m \div 8) % 8, rm |-> m % 8]
ModRMByte(mod, reg, rm) == 64 * mod + 8 * reg + rm
SibFields(s) == [ss |-> s \div 64, index |-> (s \div 8) % 8, base |-> s % 8]
SibByte(ss, index, base) == 64 * ss + 8 * index + base

NoRM == [ok |-> FALSE, reg |-> 0, isreg |-> FALSE, rmn |-> 0, base |-> None, idx |-> None, sc |-> 1, disp |-> 0, next |-> 0]
DispAt(b, q, dlen) == IF dlen = 1 THEN S8(b[q]) ELSE IF dlen = 4 THEN S32At(b, q) ELSE 0
\* the r/m operand starting at the ModRM byte b[p]
ParseRM(b, p, rex) ==
    IF ~Has(b, p, 1) THEN NoRM
    ELSE LET f == ModRMFields(b[p]) IN
    IF f.mod = 3 THEN [NoRM EXCEPT !.ok = TRUE, !.reg = f.reg, !.isreg = TRUE, !.rmn = f.rm + 8 * rex.b, !.next = p + 1]
    ELSE IF f.rm = 4 THEN                                   \* SIB byte follows
        IF ~Has(b, p + 1, 1) THEN NoRM
        ELSE LET s == SibFields(b[p + 1])
                 ix == s.index + 8 * rex.x                  \* 0100b = no index; REX.X = 1 makes it r12
                 nobase == s.base = 5 /\ f.mod = 0          \* [scaled index] + disp32
                 dlen == IF f.mod = 1 THEN 1 ELSE IF f.mod = 2 \/ nobase THEN 4 ELSE 0
                 q == p + 2
             IN IF ~Has(b, q, dlen) THEN NoRM
                ELSE [NoRM EXCEPT !.ok = TRUE, !.reg = f.reg,
                                  !.base = IF nobase THEN None ELSE s.base + 8 * rex.b,
                                  !.idx = IF ix = 4 THEN None ELSE ix,
                                  !.sc = IF ix = 4 THEN 1 ELSE P2(s.ss),
                                  !.disp = DispAt(b, q, dlen), !.next = q + dlen]
    ELSE IF f.mod = 0 /\ f.rm = 5 THEN                      \* RIP-relative (REX.B is ignored)
        IF ~Has(b, p + 1, 4) THEN NoRM
        ELSE [NoRM EXCEPT !.ok = TRUE, !.reg = f.reg, !.base = RIP, !.disp = S32At(b, p + 1), !.next = p + 5]
    ELSE LET dlen == IF f.mod = 1 THEN 1 ELSE IF f.mod = 2 THEN 4 ELSE 0 IN
         IF ~Has(b, p + 1, dlen) THEN NoRM
         ELSE [NoRM EXCEPT !.ok = TRUE, !.reg = f.reg, !.base = f.rm + 8 * rex.b, !.disp = DispAt(b, p + 1, dlen),
                           !.next = p + 1 + dlen]

\* ------------------------------------------------------------------ the opcode table
(* map   1 = one-byte opcode, 2 = 0F xx                                        *)
(* plus  the low three opcode bits are a register number (+rb/+rd)             *)
(* ext   /digit in ModRM.reg (None: reg names a register)                      *)
(* sse   66 / F3 / F2 select the instruction (pfx) instead of modifying it     *)
(* enc   MR: r/m, reg   RM: reg, r/m   M: r/m   MI: r/m, imm   M1: r/m, 1      *)
(*       MC: r/m, cl   RMI: reg, r/m, imm   O: reg in opcode   OI: + imm       *)
(*       AI: accumulator, imm   I: imm   D: rel   ZO: none                     *)
(* w8    byte operation   d64: operand size defaults to 64 (stack, branches)   *)
(* imm   ibs imm8 sign-extended to the operand size   ibu imm8 as is           *)
(*       iz imm16/32 sign-extended   iv full operand size   iw imm16           *)
(* ssz   size of the r/m source when it differs from the operand size          *)
(* regk / rmk  register file of the reg / r/m operand   msz: memory size       *)
E0 == [map |-> 1, op |-> 0, plus |-> FALSE, ext |-> None, sse |-> FALSE, pfx |-> 0, mn |-> "", enc |-> "ZO", w8 |-> FALSE,
       imm |-> "", d64 |-> FALSE, ssz |-> 0, regk |-> "gpr", rmk |-> "gpr", msz |-> 0, memonly |-> FALSE]
Ent(op, mn, enc)  == [E0 EXCEPT !.op = op, !.mn = mn, !.enc = enc]
Ent2(op, mn, enc) == [E0 EXCEPT !.map = 2, !.op = op, !.mn = mn, !.enc = enc]
Byte8(e)    == [e EXCEPT !.w8 = TRUE]
WithImm(e, k)  == [e EXCEPT !.imm = k]
WithExt(e, d)  == [e EXCEPT !.ext = d]
Def64(e)   == [e EXCEPT !.d64 = TRUE]
PlusReg(e)  == [e EXCEPT !.plus = TRUE]
SrcSz(e, n) == [e EXCEPT !.ssz = n]
Sse(op, pfx, mn, enc, regk, rmk, msz) ==
    [E0 EXCEPT !.map = 2, !.op = op, !.sse = TRUE, !.pfx = pfx, !.mn = mn, !.enc = enc, !.regk = regk, !.rmk = rmk, !.msz = msz]

AluMn  == <<"add", "or", "adc", "sbb", "and", "sub", "xor", "cmp">>
ShMn   == <<"rol", "ror", "rcl", "rcr", "shl", "shr", "shl", "sar">>          \* /6 is the AMD-documented alias of /4
JccMn  == <<"jo", "jno", "jb", "jae", "je", "jne", "jbe", "ja", "js", "jns", "jp", "jnp", "jl", "jge", "jle", "jg">>
SetMn  == <<"seto", "setno", "setb", "setae", "sete", "setne", "setbe", "seta", "sets", "setns", "setp", "setnp", "setl",
            "setge", "setle", "setg">>
CmovMn == <<"cmovo", "cmovno", "cmovb", "cmovae", "cmove", "cmovne", "cmovbe", "cmova", "cmovs", "cmovns", "cmovp", "cmovnp",
            "cmovl", "cmovge", "cmovle", "cmovg">>
\* scalar / packed arithmetic 0F 51..5F: <<opcode, ss, sd, ps, pd>>
SseArith == {<<81, "sqrtss", "sqrtsd", "sqrtps", "sqrtpd">>, <<88, "addss", "addsd", "addps", "addpd">>,
             <<89, "mulss", "mulsd", "mulps", "mulpd">>, <<92, "subss", "subsd", "subps", "subpd">>,
             <<93, "minss", "minsd", "minps", "minpd">>, <<94, "divss", "divsd", "divps", "divpd">>,
             <<95, "maxss", "maxsd", "maxps", "maxpd">>}

Table ==
    UNION {{Byte8(Ent(8 * k, AluMn[k + 1], "MR")), Ent(8 * k + 1, AluMn[k + 1], "MR"),
            Byte8(Ent(8 * k + 2, AluMn[k + 1], "RM")), Ent(8 * k + 3, AluMn[k + 1], "RM"),
            WithImm(Byte8(Ent(8 * k + 4, AluMn[k + 1], "AI")), "ibs"), WithImm(Ent(8 * k + 5, AluMn[k + 1], "AI"), "iz"),
            WithExt(WithImm(Byte8(Ent(128, AluMn[k + 1], "MI")), "ibs"), k), WithExt(WithImm(Ent(129, AluMn[k + 1], "MI"), "iz"), k),
            WithExt(WithImm(Ent(131, AluMn[k + 1], "MI"), "ibs"), k),
            WithExt(WithImm(Byte8(Ent(192, ShMn[k + 1], "MI")), "ibu"), k), WithExt(WithImm(Ent(193, ShMn[k + 1], "MI"), "ibu"), k),
            WithExt(Byte8(Ent(208, ShMn[k + 1], "M1")), k), WithExt(Ent(209, ShMn[k + 1], "M1"), k),
            WithExt(Byte8(Ent(210, ShMn[k + 1], "MC")), k), WithExt(Ent(211, ShMn[k + 1], "MC"), k)} : k \in 0..7}
    \cup UNION {{WithImm(Ent(112 + cc, JccMn[cc + 1], "D"), "rel8"), WithImm(Ent2(128 + cc, JccMn[cc + 1], "D"), "rel32"),
                 Ent2(64 + cc, CmovMn[cc + 1], "RM"), Byte8(Ent2(144 + cc, SetMn[cc + 1], "M"))} : cc \in 0..15}
    \cup {PlusReg(Def64(Ent(80, "push", "O"))), PlusReg(Def64(Ent(88, "pop", "O"))),
          SrcSz(Ent(99, "movsxd", "RM"), 32),
          WithImm(Def64(Ent(104, "push", "I")), "iz"), WithImm(Def64(Ent(106, "push", "I")), "ibs"),
          WithImm(Ent(105, "imul", "RMI"), "iz"), WithImm(Ent(107, "imul", "RMI"), "ibs"),
          Byte8(Ent(132, "test", "MR")), Ent(133, "test", "MR"), Byte8(Ent(134, "xchg", "MR")), Ent(135, "xchg", "MR"),
          Byte8(Ent(136, "mov", "MR")), Ent(137, "mov", "MR"), Byte8(Ent(138, "mov", "RM")), Ent(139, "mov", "RM"),
          [Ent(141, "lea", "RM") EXCEPT !.memonly = TRUE], WithExt(Def64(Ent(143, "pop", "M")), 0),
          Ent(144, "nop", "ZO"), Ent(152, "@98", "ZO"), Ent(153, "@99", "ZO"),
          Byte8(Ent(164, "movsb", "ZO")), Byte8(Ent(170, "stosb", "ZO")),
          WithImm(Byte8(Ent(168, "test", "AI")), "ibs"), WithImm(Ent(169, "test", "AI"), "iz"),
          PlusReg(WithImm(Byte8(Ent(176, "mov", "OI")), "ibs")), PlusReg(WithImm(Ent(184, "mov", "OI"), "iv")),
          WithImm(Def64(Ent(194, "ret", "I")), "iw"), Def64(Ent(195, "ret", "ZO")),
          WithExt(WithImm(Byte8(Ent(198, "mov", "MI")), "ibs"), 0), WithExt(WithImm(Ent(199, "mov", "MI"), "iz"), 0),
          Def64(Ent(201, "leave", "ZO")), Ent(204, "int3", "ZO"), WithImm(Ent(205, "int", "I"), "ibu"),
          WithImm(Def64(Ent(232, "call", "D")), "rel32"), WithImm(Def64(Ent(233, "jmp", "D")), "rel32"), WithImm(Def64(Ent(235, "jmp", "D")), "rel8"),
          Ent(244, "hlt", "ZO"),
          WithExt(WithImm(Byte8(Ent(246, "test", "MI")), "ibs"), 0), WithExt(Byte8(Ent(246, "not", "M")), 2), WithExt(Byte8(Ent(246, "neg", "M")), 3),
          WithExt(Byte8(Ent(246, "mul", "M")), 4), WithExt(Byte8(Ent(246, "imul", "M")), 5), WithExt(Byte8(Ent(246, "div", "M")), 6), WithExt(Byte8(Ent(246, "idiv", "M")), 7),
          WithExt(WithImm(Ent(247, "test", "MI"), "iz"), 0), WithExt(Ent(247, "not", "M"), 2), WithExt(Ent(247, "neg", "M"), 3),
          WithExt(Ent(247, "mul", "M"), 4), WithExt(Ent(247, "imul", "M"), 5), WithExt(Ent(247, "div", "M"), 6), WithExt(Ent(247, "idiv", "M"), 7),
          WithExt(Byte8(Ent(254, "inc", "M")), 0), WithExt(Byte8(Ent(254, "dec", "M")), 1),
          WithExt(Ent(255, "inc", "M"), 0), WithExt(Ent(255, "dec", "M"), 1), WithExt(Def64(Ent(255, "call", "M")), 2), WithExt(Def64(Ent(255, "jmp", "M")), 4),
          WithExt(Def64(Ent(255, "push", "M")), 6),
          Ent2(5, "syscall", "ZO"), Ent2(11, "ud2", "ZO"), WithExt(Ent2(31, "nop", "M"), 0), Ent2(162, "cpuid", "ZO"),
          Ent2(175, "imul", "RM"),
          SrcSz(Ent2(182, "movzx", "RM"), 8), SrcSz(Ent2(183, "movzx", "RM"), 16),
          SrcSz(Ent2(190, "movsx", "RM"), 8), SrcSz(Ent2(191, "movsx", "RM"), 16)}
    \* SSE / SSE2 (scalar moves, arithmetic, conversions, compares; the packed siblings that share the opcodes)
    \cup {Sse(16, 243, "movss", "RM", "xmm", "xmm", 32), Sse(16, 242, "movsd", "RM", "xmm", "xmm", 64),
          Sse(16, 0, "movups", "RM", "xmm", "xmm", 128), Sse(16, 102, "movupd", "RM", "xmm", "xmm", 128),
          Sse(17, 243, "movss", "MR", "xmm", "xmm", 32), Sse(17, 242, "movsd", "MR", "xmm", "xmm", 64),
          Sse(17, 0, "movups", "MR", "xmm", "xmm", 128), Sse(17, 102, "movupd", "MR", "xmm", "xmm", 128),
          Sse(40, 0, "movaps", "RM", "xmm", "xmm", 128), Sse(40, 102, "movapd", "RM", "xmm", "xmm", 128),
          Sse(41, 0, "movaps", "MR", "xmm", "xmm", 128), Sse(41, 102, "movapd", "MR", "xmm", "xmm", 128),
          Sse(42, 243, "cvtsi2ss", "RM", "xmm", "gpr", 0), Sse(42, 242, "cvtsi2sd", "RM", "xmm", "gpr", 0),
          Sse(44, 243, "cvttss2si", "RM", "gpr", "xmm", 32), Sse(44, 242, "cvttsd2si", "RM", "gpr", "xmm", 64),
          Sse(45, 243, "cvtss2si", "RM", "gpr", "xmm", 32), Sse(45, 242, "cvtsd2si", "RM", "gpr", "xmm", 64),
          Sse(46, 0, "ucomiss", "RM", "xmm", "xmm", 32), Sse(46, 102, "ucomisd", "RM", "xmm", "xmm", 64),
          Sse(47, 0, "comiss", "RM", "xmm", "xmm", 32), Sse(47, 102, "comisd", "RM", "xmm", "xmm", 64),
          Sse(87, 0, "xorps", "RM", "xmm", "xmm", 128), Sse(87, 102, "xorpd", "RM", "xmm", "xmm", 128),
          Sse(90, 243, "cvtss2sd", "RM", "xmm", "xmm", 32), Sse(90, 242, "cvtsd2ss", "RM", "xmm", "xmm", 64),
          Sse(90, 0, "cvtps2pd", "RM", "xmm", "xmm", 64), Sse(90, 102, "cvtpd2ps", "RM", "xmm", "xmm", 128),
          Sse(110, 102, "@movd", "RM", "xmm", "gpr", 0), Sse(126, 102, "@movd", "MR", "xmm", "gpr", 0),
          Sse(239, 102, "pxor", "RM", "xmm", "xmm", 128)}
    \cup UNION {{Sse(t[1], 243, t[2], "RM", "xmm", "xmm", 32), Sse(t[1], 242, t[3], "RM", "xmm", "xmm", 64),
                 Sse(t[1], 0, t[4], "RM", "xmm", "xmm", 128), Sse(t[1], 102, t[5], "RM", "xmm", "xmm", 128)} : t \in SseArith}

\* one-byte opcodes that are invalid in 64-bit mode (SDM appendix A, superscript i64)
Invalid64 == {6, 7, 14, 22, 23, 30, 31, 39, 47, 55, 63, 96, 97, 130, 154, 206, 212, 213, 214, 234}

HasModRM(e) == e.enc \in {"MR", "RM", "M", "MI", "M1", "MC", "RMI"}
OSize(e, p66, rexw) ==
    IF e.w8 THEN 8
    ELSE IF e.sse THEN (IF rexw = 1 THEN 64 ELSE 32)
    ELSE IF rexw = 1 THEN 64 ELSE IF p66 THEN 16 ELSE IF e.d64 THEN 64 ELSE 32
MnOf(e, osz) ==
    IF e.mn = "@98" THEN (IF osz = 16 THEN "cbw" ELSE IF osz = 32 THEN "cwde" ELSE "cdqe")
    ELSE IF e.mn = "@99" THEN (IF osz = 16 THEN "cwd" ELSE IF osz = 32 THEN "cdq" ELSE "cqo")
    ELSE IF e.mn = "@movd" THEN (IF osz = 64 THEN "movq" ELSE "movd")
    ELSE e.mn
RmSize(e, osz) == IF e.ssz # 0 THEN e.ssz ELSE osz
MemSize(e, osz) == IF e.mn = "lea" THEN 0 ELSE IF e.msz # 0 THEN e.msz ELSE RmSize(e, osz)
RegOperand(e, n, osz, rexp) == IF e.regk = "xmm" THEN Xmm(n) ELSE GReg(n, osz, rexp)
RmOperand(e, rm, osz, rexp) ==
    IF rm.isreg THEN (IF e.rmk = "xmm" THEN Xmm(rm.rmn) ELSE GReg(rm.rmn, RmSize(e, osz), rexp))
    ELSE Mem(rm.base, rm.idx, rm.sc, rm.disp, MemSize(e, osz))

ImmLen(kind, osz) ==
    CASE kind \in {"ibs", "ibu", "rel8"} -> 1
      [] kind = "iw" -> 2
      [] kind = "iz" -> IF osz = 16 THEN 2 ELSE 4
      [] kind = "rel32" -> 4
      [] kind = "iv" -> osz \div 8
      [] OTHER -> 0
\* the immediate / relative operand at b[p]
ImmOperand(b, p, kind, osz) ==
    LET raw == Slice(b, p, ImmLen(kind, osz)) IN
    CASE kind = "rel8" -> Rel(S8(b[p]))
      [] kind = "rel32" -> Rel(S32At(b, p))
      [] kind \in {"ibu", "iw"} -> Imm(raw)
      [] OTHER -> Imm(SignExtend(raw, osz \div 8))

Bad(st) == [st |-> st, mn |-> "", osz |-> 0, ops |-> <<>>, len |-> 0, rep |-> 0]
Fin(e, pf, osz, ops, next) ==
    [st |-> "ok", mn |-> MnOf(e, osz), osz |-> osz, ops |-> ops, len |-> next - 1, rep |-> IF e.sse THEN 0 ELSE pf.rep]

\* operands of entry e; p = first byte after the opcode
D5(b, pf, rex, e, opc, p, osz, rm) ==
    LET ilen == ImmLen(e.imm, osz)
        rexp == rex.present
        reg == RegOperand(e, rm.reg + 8 * rex.r, osz, rexp)
        rmo == RmOperand(e, rm, osz, rexp)
        ip == IF HasModRM(e) THEN rm.next ELSE p
        opr == GReg((opc % 8) + 8 * rex.b, osz, rexp)
    IN
    IF HasModRM(e) /\ ~rm.ok THEN Bad("short")
    ELSE IF HasModRM(e) /\ rm.isreg /\ e.memonly THEN Bad("ud")
    ELSE IF ~Has(b, ip, ilen) THEN Bad("short")
    ELSE LET im == IF ilen > 0 THEN ImmOperand(b, ip, e.imm, osz) ELSE One IN
         CASE e.enc = "MR" -> Fin(e, pf, osz, <<rmo, reg>>, ip)
           [] e.enc = "RM" -> Fin(e, pf, osz, <<reg, rmo>>, ip)
           [] e.enc = "M" -> Fin(e, pf, osz, <<rmo>>, ip)
           [] e.enc = "MI" -> Fin(e, pf, osz, <<rmo, im>>, ip + ilen)
           [] e.enc = "M1" -> Fin(e, pf, osz, <<rmo, One>>, ip)
           [] e.enc = "MC" -> Fin(e, pf, osz, <<rmo, Reg(1, 8)>>, ip)
           [] e.enc = "RMI" -> Fin(e, pf, osz, <<reg, rmo, im>>, ip + ilen)
           [] e.enc = "O" -> Fin(e, pf, osz, <<opr>>, ip)
           [] e.enc = "OI" -> Fin(e, pf, osz, <<opr, im>>, ip + ilen)
           [] e.enc = "AI" -> Fin(e, pf, osz, <<Reg(0, osz), im>>, ip + ilen)
           [] e.enc = "I" -> Fin(e, pf, osz, <<im>>, ip + ilen)
           [] e.enc = "D" -> Fin(e, pf, osz, <<im>>, ip + ilen)
           [] OTHER -> Fin(e, pf, osz, <<>>, ip)
D4(b, pf, rex, e, opc, p) ==
    IF (e.enc = "D" \/ e.mn \in {"call", "jmp", "ret"}) /\ pf.p66 THEN Bad("unsupported")   \* 16-bit near branches: vendor specific
    ELSE IF e.mn = "nop" /\ e.enc = "ZO" /\ rex.b = 1 THEN Bad("unsupported")    \* 41 90 is xchg r8, rax
    ELSE D5(b, pf, rex, e, opc, p, OSize(e, pf.p66, rex.w), IF HasModRM(e) THEN ParseRM(b, p, rex) ELSE NoRM)
OpMatches(e, map, opc) == e.map = map /\ (IF e.plus THEN opc \div 8 = e.op \div 8 ELSE opc = e.op)
\* the table indexed by (map, opcode), computed once
TableIndex == Mk([j \in 1..512 |-> {e \in Table : OpMatches(e, ((j - 1) \div 256) + 1, (j - 1) % 256)}])
Candidates(map, opc) == TableIndex[(map - 1) * 256 + opc + 1]
MandPfx(pf) == IF pf.rep # 0 THEN pf.rep ELSE IF pf.p66 THEN 102 ELSE 0
D3(b, pf, rex, map, opc, p) ==
    LET c1 == Candidates(map, opc)
        needext == \E e \in c1 : e.ext # None
        ext == IF needext /\ Has(b, p, 1) THEN (b[p] \div 8) % 8 ELSE None
        c2 == {e \in c1 : (e.ext = None \/ e.ext = ext) /\ (e.sse => e.pfx = MandPfx(pf))}
    IN IF c1 = {} THEN (IF map = 1 /\ opc \in Invalid64 THEN Bad("ud") ELSE Bad("unsupported"))
       ELSE IF needext /\ ext = None THEN Bad("short")
       ELSE IF c2 = {} THEN Bad("unsupported")
       ELSE D4(b, pf, rex, CHOOSE e \in c2 : TRUE, opc, p)
D2(b, pf, rex, p) ==
    IF ~Has(b, p, 1) THEN Bad("short")
    ELSE IF b[p] \in {102, 242, 243} \cup OtherPfx \cup 64..79 THEN Bad("unsupported")   \* REX not next to the opcode
    ELSE IF b[p] = 15 THEN (IF ~Has(b, p + 1, 1) THEN Bad("short")
                            ELSE IF b[p + 1] \in {56, 58} THEN Bad("unsupported")     \* three-byte maps
                            ELSE D3(b, pf, rex, 2, b[p + 1], p + 2))
    ELSE D3(b, pf, rex, 1, b[p], p + 1)
D1(b, pf) ==
    IF pf.other THEN Bad("unsupported")
    ELSE IF pf.pos > Len(b) THEN
        \* prefixes only: a lone F3 / F2 is what an assembler emits for a line "rep" / "repne"
        (IF Len(b) = 1 /\ pf.rep # 0 THEN [Bad("ok") EXCEPT !.mn = IF pf.rep = 243 THEN "rep" ELSE "repne", !.len = 1, !.rep = pf.rep]
         ELSE Bad("short"))
    ELSE IF b[pf.pos] \in 64..79 THEN D2(b, pf, RexBits(b[pf.pos]), pf.pos + 1)
    ELSE D2(b, pf, NoRex, pf.pos)
Decode(b) == D1(b, Prefixes(b, 1, NoPfx))

\* ------------------------------------------------------------------ reference encoder
\* ins = the abstract instruction (what Decode yields); e = the table entry to encode it with
IsMemOp(o) == o.k = "mem"
RegNum(o) == IF o.k = "reg" /\ o.hi THEN o.n + 4 ELSE o.n
EncOps(e, ins) ==     \* [reg, rm, imm]: the operands in their encoding roles (One = absent)
    CASE e.enc = "MR" -> [reg |-> ins.ops[2], rm |-> ins.ops[1], imm |-> One]
      [] e.enc = "RM" -> [reg |-> ins.ops[1], rm |-> ins.ops[2], imm |-> One]
      [] e.enc \in {"M", "M1", "MC"} -> [reg |-> One, rm |-> ins.ops[1], imm |-> One]
      [] e.enc = "MI" -> [reg |-> One, rm |-> ins.ops[1], imm |-> ins.ops[2]]
      [] e.enc = "RMI" -> [reg |-> ins.ops[1], rm |-> ins.ops[2], imm |-> ins.ops[3]]
      [] e.enc = "O" -> [reg |-> One, rm |-> ins.ops[1], imm |-> One]
      [] e.enc = "OI" -> [reg |-> One, rm |-> ins.ops[1], imm |-> ins.ops[2]]
      [] e.enc = "AI" -> [reg |-> One, rm |-> One, imm |-> ins.ops[2]]
      [] e.enc \in {"I", "D"} -> [reg |-> One, rm |-> One, imm |-> ins.ops[1]]
      [] OTHER -> [reg |-> One, rm |-> One, imm |-> One]
RegOps(o) == {x \in {o.reg, o.rm} : x.k = "reg"}
HiBit(n) == IF n = None \/ n = RIP THEN 0 ELSE n \div 8
Low3(n) == n % 8
DispFits8(d) == d >= -128 /\ d <= 127
\* ModRM (+ SIB + displacement) bytes for the r/m operand, reg field given
RMBytes(rm, regfield) ==
    IF rm.k # "mem" THEN <<ModRMByte(3, regfield, Low3(RegNum(rm)))>>
    ELSE IF rm.base = RIP THEN <<ModRMByte(0, regfield, 5)>> \o IntBytes(rm.disp, 4)
    ELSE IF rm.idx = None /\ rm.base = None THEN <<ModRMByte(0, regfield, 4), SibByte(0, 4, 5)>> \o IntBytes(rm.disp, 4)
    ELSE IF rm.base = None THEN
        <<ModRMByte(0, regfield, 4), SibByte(CHOOSE s \in 0..3 : P2(s) = rm.sc, Low3(rm.idx), 5)>> \o IntBytes(rm.disp, 4)
    ELSE LET mod == IF rm.disp = 0 /\ Low3(rm.base) # 5 THEN 0 ELSE IF DispFits8(rm.disp) THEN 1 ELSE 2
             dsp == IF mod = 0 THEN <<>> ELSE IF mod = 1 THEN IntBytes(rm.disp, 1) ELSE IntBytes(rm.disp, 4)
         IN IF rm.idx = None /\ Low3(rm.base) # 4 THEN <<ModRMByte(mod, regfield, Low3(rm.base))>> \o dsp
            ELSE <<ModRMByte(mod, regfield, 4),
                   SibByte(IF rm.idx = None THEN 0 ELSE CHOOSE s \in 0..3 : P2(s) = rm.sc,
                           IF rm.idx = None THEN 4 ELSE Low3(rm.idx), Low3(rm.base))>> \o dsp
ImmBytes(e, im, osz) ==
    IF im.k = "rel" THEN IntBytes(im.d, ImmLen(e.imm, osz))
    ELSE IF im.k = "imm" THEN Slice(im.w, 1, ImmLen(e.imm, osz))
    ELSE <<>>
RexFor(e, ins, o) ==
    LET w == IF ins.osz = 64 /\ ~e.w8 /\ ~e.d64 THEN 1 ELSE 0
        r == IF o.reg.k \in {"reg", "xmm"} THEN RegNum(o.reg) \div 8 ELSE 0
        x == IF o.rm.k = "mem" THEN HiBit(o.rm.idx) ELSE 0
        bb == IF o.rm.k = "mem" THEN HiBit(o.rm.base) ELSE IF o.rm.k \in {"reg", "xmm"} THEN RegNum(o.rm) \div 8 ELSE 0
        low8 == \E q \in RegOps(o) : q.sz = 8 /\ ~q.hi /\ q.n \in 4..7
    IN [need |-> w + r + x + bb > 0 \/ low8, byte |-> RexByte(w, r, x, bb)]
Encodable(e, ins) ==
    LET o == EncOps(e, ins) IN
    /\ ~((\E q \in RegOps(o) : q.hi) /\ RexFor(e, ins, o).need)       \* ah..bh cannot be named with a REX prefix
    /\ (o.rm.k = "mem" => o.rm.idx # 4)                              \* rsp cannot be an index
    /\ (e.memonly => o.rm.k = "mem")
EncodeWith(e, ins) ==
    LET o == EncOps(e, ins)
        rex == RexFor(e, ins, o)
        regfield == IF e.ext # None THEN e.ext ELSE IF o.reg.k \in {"reg", "xmm"} THEN Low3(RegNum(o.reg)) ELSE 0
    IN (IF ~e.sse /\ ins.rep # 0 THEN <<ins.rep>> ELSE <<>>)
       \o (IF ~e.sse /\ ~e.w8 /\ ins.osz = 16 THEN <<102>> ELSE <<>>)
       \o (IF e.sse /\ e.pfx # 0 THEN <<e.pfx>> ELSE <<>>)
       \o (IF rex.need THEN <<rex.byte>> ELSE <<>>)
       \o (IF e.map = 2 THEN <<15>> ELSE <<>>)
       \o <<IF e.plus THEN e.op + Low3(RegNum(o.rm)) ELSE e.op>>
       \o (IF HasModRM(e) THEN RMBytes(o.rm, regfield) ELSE <<>>)
       \o ImmBytes(e, o.imm, ins.osz)

\* ------------------------------------------------------------------ architectural register sets
\* register families: 0..15 general purpose (al/ah/ax/eax/rax = 0), 16 + n = xmm n; flags and rip are not registers here
Fam(o) == IF o.k = "reg" THEN {o.n} ELSE IF o.k = "xmm" THEN {XmmBase + o.n} ELSE {}
Addr(o) == IF o.k = "mem" THEN {o.base, o.idx} \ {None, RIP} ELSE {}
SrcR(o) == Fam(o) \cup Addr(o)          \* a source operand: the register, or the address registers of the memory operand
DstW(o) == Fam(o)                       \* a destination: the register (a memory destination writes no register)
Op(ins, n) == IF n <= Len(ins.ops) THEN ins.ops[n] ELSE One

MnRW2 == {"add", "or", "adc", "sbb", "and", "sub", "xor", "xorps", "xorpd", "pxor"}
         \cup {t[j] : t \in {u \in SseArith : u[1] # 81}, j \in 2..5} \cup {CmovMn[cc] : cc \in 1..16}
MnR2  == {"cmp", "test", "comiss", "comisd", "ucomiss", "ucomisd"}
MnW1R2 == {"mov", "movzx", "movsx", "movsxd", "lea", "movss", "movsd", "movups", "movupd", "movaps", "movapd", "cvtsi2ss",
           "cvtsi2sd", "cvttss2si", "cvttsd2si", "cvtss2si", "cvtsd2si", "cvtss2sd", "cvtsd2ss", "cvtps2pd", "cvtpd2ps", "movd",
           "movq", "sqrtss", "sqrtsd", "sqrtps", "sqrtpd"}
MnRW1 == {"not", "neg", "inc", "dec"}
MnShift == {"rol", "ror", "rcl", "rcr", "shl", "shr", "sar"}
MnMulDiv == {"mul", "div", "idiv"}
MnStack == {"push", "pop", "call", "ret", "leave"}
MnNoRegs == {JccMn[cc] : cc \in 1..16} \cup {"nop", "int", "int3", "hlt", "ud2", "rep", "repne", "syscall", "cpuid", "movsb", "stosb",
             "cbw", "cwde", "cdqe", "cwd", "cdq", "cqo", "ret", "leave"}
OneOpImul(ins) == ins.mn = "imul" /\ Len(ins.ops) = 1
Modelled(ins) == ins.st = "ok" /\ (ins.mn \in MnRW2 \cup MnR2 \cup MnW1R2 \cup MnRW1 \cup MnShift \cup MnMulDiv \cup MnStack \cup MnNoRegs
                                       \cup {"imul", "xchg", "jmp"} \cup {SetMn[cc] : cc \in 1..16})

\* registers named by the operands that the instruction reads / writes
ExplReads(ins) ==
    LET a == Op(ins, 1)  b == Op(ins, 2)  cc == Op(ins, 3) IN
    CASE ins.mn \in MnRW2 \cup MnR2 \cup {"xchg"} -> SrcR(a) \cup SrcR(b)
      [] ins.mn \in MnW1R2 -> Addr(a) \cup SrcR(b)
      [] ins.mn \in MnRW1 \cup MnMulDiv -> SrcR(a)
      [] ins.mn \in MnShift -> SrcR(a)                           \* the count register cl is implicit (ImplReads)
      [] ins.mn = "imul" -> IF Len(ins.ops) = 1 THEN SrcR(a) ELSE IF Len(ins.ops) = 2 THEN SrcR(a) \cup SrcR(b) ELSE Addr(a) \cup SrcR(b)
      [] ins.mn \in {"push", "call", "jmp"} -> SrcR(a)
      [] ins.mn = "pop" -> Addr(a)
      [] ins.mn \in {SetMn[k] : k \in 1..16} -> Addr(a)
      [] OTHER -> {}
ExplWrites(ins) ==
    LET a == Op(ins, 1)  b == Op(ins, 2) IN
    CASE ins.mn \in MnRW2 \cup MnW1R2 \cup MnRW1 \cup MnShift \cup {SetMn[k] : k \in 1..16} \cup {"pop"} -> DstW(a)
      [] ins.mn = "xchg" -> DstW(a) \cup DstW(b)
      [] ins.mn = "imul" -> IF Len(ins.ops) = 1 THEN {} ELSE DstW(a)
      [] OTHER -> {}
\* fixed registers the instruction names implicitly (SDM instruction pages)
ImplReads(ins) ==
    CASE ins.mn \in {"mul"} \/ OneOpImul(ins) -> {0}
      [] ins.mn \in {"div", "idiv"} -> IF ins.osz = 8 THEN {0} ELSE {0, 2}
      [] ins.mn \in {"cbw", "cwde", "cdqe", "cwd", "cdq", "cqo"} -> {0}
      [] ins.mn \in MnShift -> IF Op(ins, 2) = Reg(1, 8) THEN {1} ELSE {}
      [] ins.mn = "movsb" -> IF ins.rep # 0 THEN {1, 6, 7} ELSE {6, 7}
      [] ins.mn = "stosb" -> IF ins.rep # 0 THEN {0, 1, 7} ELSE {0, 7}
      [] ins.mn = "cpuid" -> {0, 1}
      [] ins.mn = "leave" -> {5}
      [] OTHER -> {}
ImplWrites(ins) ==
    CASE ins.mn \in {"mul", "div", "idiv"} \/ OneOpImul(ins) -> IF ins.osz = 8 THEN {0} ELSE {0, 2}
      [] ins.mn \in {"cbw", "cwde", "cdqe"} -> {0}
      [] ins.mn \in {"cwd", "cdq", "cqo"} -> {2}
      [] ins.mn = "movsb" -> IF ins.rep # 0 THEN {1, 6, 7} ELSE {6, 7}
      [] ins.mn = "stosb" -> IF ins.rep # 0 THEN {1, 7} ELSE {7}
      [] ins.mn = "syscall" -> {1, 11}                          \* rcx <- rip, r11 <- rflags
      [] ins.mn = "cpuid" -> {0, 1, 2, 3}
      [] ins.mn = "leave" -> {5}
      [] OTHER -> {}
\* the stack pointer as fixed implicit state of the stack instructions
StackRegs(ins) == IF ins.mn \in MnStack THEN {4} ELSE {}
Reads(ins) == ExplReads(ins) \cup ImplReads(ins) \cup StackRegs(ins)
Writes(ins) == ExplWrites(ins) \cup ImplWrites(ins) \cup StackRegs(ins)

\* ------------------------------------------------------------------ printed assembly lines
(* A printed operand (harness/x64gen.py: tokenize, purely lexical):          *)
(*   [k = "reg", name]   [k = "mem", regs = <<names>>, disp = 16 limbs]      *)
(*   [k = "abs", addr]   [k = "abslab"]   [k = "imm", v]   [k = "lab"]       *)
(*   [k = "x"] (a glyph outside the syntax)                                  *)
(* r = the record: place (address of the instruction, small integer), sym16  *)
(* (value of the label, 16 limbs).                                           *)
CanonMn(s) ==
    CASE s = "jz" -> "je" [] s \in {"jnz"} -> "jne" [] s \in {"jc", "jnae"} -> "jb" [] s \in {"jnb", "jnc"} -> "jae"
      [] s = "jna" -> "jbe" [] s = "jnbe" -> "ja" [] s = "jnge" -> "jl" [] s = "jnl" -> "jge" [] s = "jng" -> "jle"
      [] s = "jnle" -> "jg" [] s = "jpe" -> "jp" [] s = "jpo" -> "jnp" [] s = "sal" -> "shl"
      [] s = "jmpshort" -> "jmp"                               \* ppci's name of the rel8 form of jmp
      [] OTHER -> s
\* the printed integer P (16 limbs) designates the word w: equal modulo 2^(8 Len(w)) and inside [-2^(8n-1), 2^(8n))
Designates(P, w) ==
    LET n == Len(w) IN
    /\ \A j \in 1..n : P[j] = w[j]
    /\ \/ \A j \in (n + 1)..16 : P[j] = 0
       \/ (\A j \in (n + 1)..16 : P[j] = 255) /\ w[n] >= 128
\* branch target = address of the next instruction + displacement (modulo 2^64)
RelTarget(place, len, d) == WAdd(WAdd(IntBytes(place, 8), IntBytes(len, 8)), IntBytes(d, 8))
Num64(name) == LET o == RegByName(name) IN IF o.k = "reg" /\ o.sz = 64 THEN o.n ELSE -2
KnownOperand(p) ==
    CASE p.k = "reg" -> RegByName(p.name) # NoReg
      [] p.k = "mem" -> Len(p.regs) \in 1..2 /\ \A j \in 1..Len(p.regs) : p.regs[j] = "rip" \/ Num64(p.regs[j]) >= 0
      [] p.k \in {"abs", "abslab", "imm", "lab"} -> TRUE
      [] OTHER -> FALSE
OperandAgrees(d, p, r, len) ==
    CASE p.k = "reg" -> d = RegByName(p.name)
      [] p.k = "mem" ->
            /\ d.k = "mem"
            /\ IF p.regs[1] = "rip" THEN Len(p.regs) = 1 /\ d.base = RIP /\ d.idx = None
               ELSE /\ d.base = Num64(p.regs[1])
                    /\ IF Len(p.regs) = 1 THEN d.idx = None ELSE d.idx = Num64(p.regs[2]) /\ d.sc = 1
            /\ Designates(p.disp, IntBytes(d.disp, 8))           \* effective addresses are computed modulo 2^64
      [] p.k = "abs" -> d.k = "mem" /\ d.base = None /\ d.idx = None /\ Designates(p.addr, IntBytes(d.disp, 8))
      [] p.k = "abslab" -> d.k = "mem" /\ d.base = None /\ d.idx = None /\ Designates(r.sym16, IntBytes(d.disp, 8))
      [] p.k = "imm" -> (d.k = "imm" /\ Designates(p.v, d.w)) \/ (d = One /\ Designates(p.v, <<1>>))
      \* a label designates its address: as the target of a relative operand or as an immediate
      [] p.k = "lab" -> \/ d.k = "rel" /\ Designates(r.sym16, RelTarget(r.place, len, d.d))
                        \/ d.k = "imm" /\ Designates(r.sym16, d.w)
      [] OTHER -> FALSE
\* the implicit count of the shift-by-one forms need not be printed
Shown(dops, n) == IF Len(dops) = n + 1 /\ dops[n + 1] = One THEN SubSeq(dops, 1, n) ELSE dops
Agrees(d, r) ==
    /\ d.st = "ok"
    /\ d.len = Len(r.out.bytes)
    /\ d.mn = CanonMn(r.mn)
    /\ d.rep = (IF d.mn \in {"rep", "repne"} THEN d.rep ELSE 0)
    /\ (r.mn = "jmpshort" => d.len = 2)
    /\ LET ds == Shown(d.ops, Len(r.ops)) IN
       Len(ds) = Len(r.ops) /\ \A j \in 1..Len(ds) : OperandAgrees(ds[j], r.ops[j], r, d.len)
\* operand width where the printed line leaves it open (memory operand, no register): the width of the instruction class
SizeAgrees(d, r) == r.msz = 0 \/ \A j \in 1..Len(d.ops) : d.ops[j].k = "mem" => d.ops[j].sz \in {0, r.msz}
=============================================================================
