----------------------------- MODULE SRec_Trace -----------------------------
(* Idiom T/E: every S-record file ppci wrote for an object is read back by  *)
(* the specification's streaming reader, one record per state.  The harness *)
(* only splits the text into lines (sequences of character codes).          *)
(* Files[i] = [key, lines, base [hi, lo] (address of the code section),     *)
(*             code (its bytes), hgiven (a header argument was passed),     *)
(*             header (its bytes), written [ok, exc], small (BOOLEAN)]      *)
(* Each clause of the property is an invariant of its own; the verdicts on  *)
(* the whole file are taken in separate judgement states (ph = 1..3).       *)
EXTENDS SRec, Json, IOUtils
Files == JsonDeserialize(IOEnv.TRACE_FILE)
NChunks == 16
NJudge == 4
Exp == [k \in 1..Len(Files) |-> ExpOf(<<Files[k].base.hi, Files[k].base.lo>>, Files[k].code)]
VARIABLES chunk, i, l, ph, cur, rd
vars == <<chunk, i, l, ph, cur, rd>>

Init == chunk = 0 /\ i = 0 /\ l = 0 /\ ph = 0 /\ cur = NoParse /\ rd = RdInit
PickChunk == chunk = 0 /\ chunk' \in 1..NChunks /\ UNCHANGED <<i, l, ph, cur, rd>>
PickFile == /\ chunk > 0 /\ i = 0
            /\ i' \in {k \in 1..Len(Files) : k % NChunks = chunk - 1}
            /\ cur' = (IF Len(Files[i'].lines) > 0 THEN Parse(Files[i'].lines[1]) ELSE NoParse)
            /\ UNCHANGED <<chunk, l, ph, rd>>
Lines == Files[i].lines
Reading == i > 0 /\ ph = 0 /\ l < Len(Lines)
Adv(nrd) == /\ rd' = nrd /\ l' = l + 1
            /\ cur' = (IF l + 2 <= Len(Lines) THEN Parse(Lines[l + 2]) ELSE NoParse)
            /\ UNCHANGED <<chunk, i, ph>>
ReadAfterTerm == Reading /\ rd.term /\ Adv(RdAfterTerm(rd))
ReadBad       == Reading /\ ~rd.term /\ ~WellFormed(cur) /\ Adv(RdBad(rd))
Good(T)       == Reading /\ ~rd.term /\ WellFormed(cur) /\ cur.typ \in T
ReadHeader    == Good({0}) /\ Adv(RdHeader(rd, cur))
ReadData      == Good(DataTypes) /\ Adv(RdData(rd, cur, Exp[i]))
ReadCount     == Good(CountTypes) /\ Adv(RdCount(rd, cur))
ReadTerm      == Good(TermTypes) /\ Adv(RdTerm(rd, cur))
Judge == /\ i > 0 /\ l = Len(Lines) /\ ph < NJudge
         /\ ph' = ph + 1 /\ rd' = [rd EXCEPT !.ev = "judge"]
         /\ UNCHANGED <<chunk, i, l, cur>>
Next == \/ PickChunk \/ PickFile \/ Judge
        \/ ReadAfterTerm \/ ReadBad \/ ReadHeader \/ ReadData \/ ReadCount \/ ReadTerm

AtStart == i > 0 /\ l = 0 /\ ph = 0
\* the harness handed over a case of the property's domain (a failure is a harness fault)
Domain == AtStart => /\ IsByteSeq(Files[i].code)
                     /\ Files[i].base.hi \in 0..(H3 - 1) /\ Files[i].base.lo \in 0..(LoMod - 1)
                     /\ AddrLe(AddrPlus(<<Files[i].base.hi, Files[i].base.lo>>, Len(Files[i].code), LoMod), Top)
\* write_srecord completed; refusing a header text that does not fit into one
\* record is not a written file (no file, no claim)
Written == AtStart => Files[i].written.ok \/ (Files[i].hgiven /\ Len(Files[i].header) > MaxData(0))
\* per record
RecordWellFormed == rd.ev # "bad"          \* syntax, type, count, checksum
DataIsCode       == rd.ev # "foreign"      \* a data record carries the object's code bytes at the denoted addresses
                                           \* (header text or anything else must not be in a data record)
EachByteOnce     == rd.ev # "dup"          \* no address written twice
CountRecordRight == rd.ev # "count"        \* an S5/S6 record states the number of data records before it
NothingAfterTermination == rd.ev # "after"
\* per file
Final(k) == i > 0 /\ ph = k /\ Files[i].written.ok
Terminated  == Final(1) => rd.term
AllCovered  == Final(2) => CoveredExactly(rd, Exp[i])
\* the header text handed to the writer is what the file's S0 records carry
HeaderCarried == (Final(4) /\ Files[i].hgiven) => rd.hdr = Files[i].header
\* second opinion: a file the streaming reader found to be an exact image of the code must
\* decode to it with the declarative decoder as well (cell sets; small files only)
DecodesToCode == (Final(3) /\ Files[i].small /\ Clean(rd) /\ CoveredExactly(rd, Exp[i])) =>
                     LET P == Parsed(Lines)
                     IN DecodesExactly(P, Exp[i]) /\ DecodedRegions(P) = Exp[i]
=============================================================================
