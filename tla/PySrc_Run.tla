------------------------------ MODULE PySrc_Run ------------------------------
(* Batch driver for PySrc.tla: TLC executes every (case, argument vector) and  *)
(* writes the observation to <OBS_DIR>/<i>_<av>.json.  The driver              *)
(* (engines/c36.py) hands these observations to PySrc_IR.tla, where TLC        *)
(* compares them with the execution (under IR.tla) of the IR that              *)
(* ppci.lang.python.python_to_ir produced for the same program, and to the     *)
(* CPython reference guard.  `acts` (history variable of PySrc.tla) tells      *)
(* which actions of the specification the behaviour took.                      *)
EXTENDS PySrc
VARIABLE done
ObsPath == IOEnv.OBS_DIR \o "/" \o ToString(i) \o "_" \o ToString(av) \o ".json"
RInit == Init /\ done = FALSE
Emit == /\ Finished /\ ~done
        /\ done' = TRUE
        /\ JsonSerialize(ObsPath, [i |-> i, av |-> av, steps |-> steps, acts |-> acts, obs |-> Obs])
        /\ UNCHANGED vars
RNext == (Next /\ UNCHANGED done) \/ Emit
=============================================================================
