------------------------------- MODULE Src_IR -------------------------------
(* The judgement of property C01:  Src (C abstract machine)  is refined by  IR.  *)
(* A case is an IR.tla case (mods = <<projection of api.c_to_ir(source)>>) whose  *)
(* field  obs  is the sequence, indexed by argument vector, of the observations   *)
(* that TLC computed with Src.tla (module Src_Run) for the abstract program the   *)
(* C source was rendered from.  TLC executes the IR under IR.tla and checks, for   *)
(* every execution that the C standard fully defines (Src status "ok"), that the   *)
(* IR execution is itself defined and yields the same return value, the same      *)
(* bytes of every scalar / array / struct member of every global, and the same    *)
(* sequence of external calls with the same arguments.                            *)
EXTENDS IR

HasObs == Finished /\ ph = 1 /\ "obs" \in DOMAIN C
SrcObs == C.obs[av]
\* executions the model cannot follow (floats, more memory or call depth than IR.tla provides) give no verdict;
\* the step budget of a case is 100 x the number of Src transitions + 2000 instructions, so exhausting it
\* means that the IR does not terminate where the C program does
Judged == HasObs /\ SrcObs.status = "ok" /\ status # "outofmodel" /\ ~(status = "fuel" /\ why # "step budget")

\* bytes of n cells at offset off of the global called name (<<>> when there is no such global / range)
MemberBytes(name, off, n) ==
    LET S == {k \in VarIdx : M.globals[k].name = name} IN
    IF S = {} THEN <<>>
    ELSE LET k == CHOOSE k \in S : TRUE IN
         IF off + n <= M.globals[k].size THEN Cells(gaddr[k] + off, n) ELSE <<>>

\* a program whose behaviour the standard defines must not be translated into IR that traps, uses an
\* undefined value, accesses memory out of bounds, is malformed or runs forever
DefinedStaysDefined == Judged => status = "ok"
SrcSameReturn  == (Judged /\ status = "ok") => ret = SrcObs.ret
SrcSameGlobals == (Judged /\ status = "ok") =>
                  \A j \in 1..Len(SrcObs.globals) :
                     LET g == SrcObs.globals[j] IN MemberBytes(g.name, g.off, Len(g.bytes)) = g.bytes
SrcSameCalls   == (Judged /\ status = "ok") => calls = SrcObs.calls
=============================================================================
