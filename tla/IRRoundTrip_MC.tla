--------------------------- MODULE IRRoundTrip_MC ---------------------------
(* Idiom M for IRRoundTrip: a lossy serialisation channel.  `a` is a module   *)
(* that was written, `b` what the reader returned, `ta` / `tb` the printed    *)
(* forms.  Every action is one way a writer/reader pair can lose or corrupt   *)
(* information (the ways ppci's pairs do, or could after a realistic edit).   *)
(* Checked exhaustively for all sequences of at most MaxLoss losses:          *)
(*   Complete   the clauses of IRRoundTrip together are exactly equality of   *)
(*              the two projections and of the two texts;                     *)
(*   Localised  a single loss is blamed on exactly the clause(s) named for it *)
(*              (e.g. a lost initial value fails SameInitialValues only);     *)
(*   DiagSound  the reported position is the first position that differs;     *)
(*   TextLaw    FirstDiff on texts is 0 iff equal, else the least difference. *)
EXTENDS IRRoundTrip

MaxLoss == 2

IConst(n)      == [k |-> "Const", ty |-> "i32", cv |-> [cls |-> "int", neg |-> FALSE, mag |-> <<n>>]]
IStore(ad, v)  == [k |-> "Store", ty |-> "", a |-> ad, b |-> v]
ILoad(ad)      == [k |-> "Load", ty |-> "i32", a |-> ad]
IBinop(o, x, y) == [k |-> "Binop", ty |-> "i32", op |-> o, a |-> x, b |-> y]
IJump(t)       == [k |-> "Jump", ty |-> "", t |-> t]
IRet(x)        == [k |-> "Return", ty |-> "", a |-> x]

Base ==
  [name |-> "m",
   externals |-> << [k |-> "function", name |-> "x", ret |-> "i32", args |-> <<"i32", "ptr">>] >>,
   variables |-> << [name |-> "g", binding |-> "global", size |-> 4, align |-> 4] >>,
   inits |-> << [has |-> TRUE, parts |-> << [k |-> "bytes", b |-> <<1, 2>>, name |-> ""],
                                            [k |-> "ref:ptr", b |-> <<>>, name |-> "f"] >>] >>,
   funcs |-> << [sig |-> [name |-> "f", binding |-> "global", kind |-> "function", ret |-> "i32", ptys |-> <<"i32">>],
                 pnames |-> <<"p0">>, entry |-> 1, bnames |-> <<"b1", "b2">>,
                 blocks |-> << <<IConst(7), IStore(-2, 2), IJump(2)>>,
                               <<ILoad(-2), IBinop("-", 1, 3), IRet(4)>> >>,
                 vol |-> << <<FALSE, FALSE, FALSE>>, <<TRUE, FALSE, FALSE>> >>,
                 vnames |-> << <<"c", "", "">>, <<"ld", "d", "">> >>,
                 dangling |-> <<>>] >>]
BaseText == << <<109, 111, 100>>, <<105, 51, 50, 32, 99>>, <<125>> >>

VARIABLES a, b, ta, tb, hist
vars == <<a, b, ta, tb, hist>>

Init == a = Base /\ b = Base /\ ta = BaseText /\ tb = BaseText /\ hist = <<>>

Loss(name, newb) == /\ Len(hist) < MaxLoss
                    /\ newb # b
                    /\ b' = newb /\ hist' = Append(hist, name) /\ UNCHANGED <<a, ta, tb>>

HasF == Len(b.funcs) >= 1
HasIns(bl, k) == HasF /\ bl <= Len(b.funcs[1].blocks) /\ k <= Len(b.funcs[1].blocks[bl])
Positions == {p \in (1..2) \X (1..3) : HasIns(p[1], p[2])}
IsKind(bl, k, kind) == HasIns(bl, k) /\ b.funcs[1].blocks[bl][k].k = kind

LoseInitialValue   == b.inits[1].has /\ Loss("LoseInitialValue", [b EXCEPT !.inits[1] = [has |-> FALSE, parts |-> <<>>]])
CorruptInitialByte == b.inits[1].has /\ Loss("CorruptInitialByte", [b EXCEPT !.inits[1].parts[1].b[2] = 3])
RetargetInitRef    == b.inits[1].has /\ Loss("RetargetInitRef", [b EXCEPT !.inits[1].parts[2].name = "g"])
LoseVolatile       == \E p \in Positions : b.funcs[1].vol[p[1]][p[2]] /\
                         Loss("LoseVolatile", [b EXCEPT !.funcs[1].vol[p[1]][p[2]] = FALSE])
GainVolatile       == \E p \in Positions : ~b.funcs[1].vol[p[1]][p[2]] /\ b.funcs[1].blocks[p[1]][p[2]].k \in {"Load", "Store"} /\
                         Loss("GainVolatile", [b EXCEPT !.funcs[1].vol[p[1]][p[2]] = TRUE])
RenameValue        == \E p \in Positions : b.funcs[1].vnames[p[1]][p[2]] # "" /\
                         Loss("RenameValue", [b EXCEPT !.funcs[1].vnames[p[1]][p[2]] = "renamed"])
RenameBlock        == HasF /\ \E k \in 1..2 : Loss("RenameBlock", [b EXCEPT !.funcs[1].bnames[k] = "renamed"])
RenameParameter    == HasF /\ Loss("RenameParameter", [b EXCEPT !.funcs[1].pnames[1] = "renamed"])
ChangeConstant     == IsKind(1, 1, "Const") /\ Loss("ChangeConstant", [b EXCEPT !.funcs[1].blocks[1][1].cv.mag = <<8>>])
NegateConstant     == IsKind(1, 1, "Const") /\ Loss("NegateConstant", [b EXCEPT !.funcs[1].blocks[1][1].cv.neg = TRUE])
ConstantBecomesFloat == IsKind(1, 1, "Const") /\ Loss("ConstantBecomesFloat", [b EXCEPT !.funcs[1].blocks[1][1].cv.cls = "float"])
ChangeOperator     == IsKind(2, 2, "Binop") /\ Loss("ChangeOperator", [b EXCEPT !.funcs[1].blocks[2][2].op = "+"])
SwapOperands       == IsKind(2, 2, "Binop") /\ Loss("SwapOperands", [b EXCEPT !.funcs[1].blocks[2][2] = IBinop(@.op, @.b, @.a)])
ChangeType         == IsKind(2, 1, "Load") /\ Loss("ChangeType", [b EXCEPT !.funcs[1].blocks[2][1].ty = "u32"])
RetargetJump       == IsKind(1, 3, "Jump") /\ Loss("RetargetJump", [b EXCEPT !.funcs[1].blocks[1][3].t = 1])
DropInstruction    == IsKind(1, 3, "Jump") /\ Loss("DropInstruction",
                           [b EXCEPT !.funcs[1].blocks[1] = SubSeq(@, 2, 3), !.funcs[1].vol[1] = SubSeq(@, 2, 3),
                                     !.funcs[1].vnames[1] = SubSeq(@, 2, 3)])
ChangeEntry        == HasF /\ Loss("ChangeEntry", [b EXCEPT !.funcs[1].entry = 2])
DropExternal       == Len(b.externals) >= 1 /\ Loss("DropExternal", [b EXCEPT !.externals = <<>>])
ChangeExternalType == Len(b.externals) >= 1 /\ Loss("ChangeExternalType", [b EXCEPT !.externals[1].args[2] = "i64"])
ChangeVariableSize == Len(b.variables) >= 1 /\ Loss("ChangeVariableSize", [b EXCEPT !.variables[1].size = 8])
ChangeAlignment    == Len(b.variables) >= 1 /\ Loss("ChangeAlignment", [b EXCEPT !.variables[1].align = 1])
ChangeVarBinding   == Len(b.variables) >= 1 /\ Loss("ChangeVarBinding", [b EXCEPT !.variables[1].binding = "local"])
ChangeReturnType   == HasF /\ Loss("ChangeReturnType", [b EXCEPT !.funcs[1].sig.ret = "u8"])
ChangeFnBinding    == HasF /\ Loss("ChangeFnBinding", [b EXCEPT !.funcs[1].sig.binding = "local"])
FunctionBecomesProcedure == HasF /\ Loss("FunctionBecomesProcedure", [b EXCEPT !.funcs[1].sig.kind = "procedure", !.funcs[1].sig.ret = ""])
DropFunction       == HasF /\ Loss("DropFunction", [b EXCEPT !.funcs = <<>>])
RenameModule       == b.name = "m" /\ Loss("RenameModule", [b EXCEPT !.name = "other"])
LeavePlaceholder   == HasF /\ Loss("LeavePlaceholder", [b EXCEPT !.funcs[1].dangling = <<"Undefined i32:x">>])
EditText           == /\ Len(hist) < MaxLoss
                      /\ \E ln \in 1..Len(tb) : tb' = [tb EXCEPT ![ln] = Append(@, 59)]
                      /\ hist' = Append(hist, "EditText") /\ UNCHANGED <<a, b, ta>>
DropTextLine       == /\ Len(hist) < MaxLoss /\ Len(tb) > 0
                      /\ tb' = SubSeq(tb, 1, Len(tb) - 1)
                      /\ hist' = Append(hist, "DropTextLine") /\ UNCHANGED <<a, b, ta>>

Next == \/ LoseInitialValue \/ CorruptInitialByte \/ RetargetInitRef \/ LoseVolatile \/ GainVolatile
        \/ RenameValue \/ RenameBlock \/ RenameParameter \/ ChangeConstant \/ NegateConstant
        \/ ConstantBecomesFloat \/ ChangeOperator \/ SwapOperands \/ ChangeType \/ RetargetJump
        \/ DropInstruction \/ ChangeEntry \/ DropExternal \/ ChangeExternalType \/ ChangeVariableSize
        \/ ChangeAlignment \/ ChangeVarBinding \/ ChangeReturnType \/ ChangeFnBinding
        \/ FunctionBecomesProcedure \/ DropFunction \/ RenameModule \/ LeavePlaceholder
        \/ EditText \/ DropTextLine

(* ---- what is checked --------------------------------------------------------- *)
Rec == [id |-> "mc", fmt |-> "text", outcome |-> "ok", a |-> a, b |-> b, ta |-> ta, tb |-> tb]
Failed == {c \in {Clauses[k] : k \in 1..NClauses} : ~Holds(c, Rec)}

Expected(loss) ==
    CASE loss \in {"LoseInitialValue", "CorruptInitialByte", "RetargetInitRef"} -> {"SameInitialValues"}
      [] loss \in {"LoseVolatile", "GainVolatile"} -> {"SameVolatility"}
      [] loss \in {"RenameValue", "RenameBlock", "RenameParameter"} -> {"SameNames"}
      [] loss \in {"ChangeConstant", "NegateConstant", "ConstantBecomesFloat", "ChangeOperator", "SwapOperands",
                   "ChangeType", "RetargetJump"} -> {"SameInstructions"}
      [] loss = "DropInstruction" -> {"SameInstructions", "SameBlocks", "SameVolatility", "SameNames"}
      [] loss = "ChangeEntry" -> {"SameBlocks"}
      [] loss \in {"DropExternal", "ChangeExternalType"} -> {"SameExternals"}
      [] loss \in {"ChangeVariableSize", "ChangeAlignment", "ChangeVarBinding"} -> {"SameVariables"}
      [] loss \in {"ChangeReturnType", "ChangeFnBinding", "FunctionBecomesProcedure"} -> {"SameSignatures"}
      [] loss = "DropFunction" -> {"SameSignatures", "SameBlocks", "SameInstructions", "SameVolatility", "SameNames",
                                   "NoDanglingValues"}
      [] loss = "RenameModule" -> {"SameModuleName"}
      [] loss = "LeavePlaceholder" -> {"NoDanglingValues"}
      [] loss \in {"EditText", "DropTextLine"} -> {"SameText"}

Differ(s, t, k) == k > Len(s) \/ k > Len(t) \/ s[k] # t[k]

TypeOK == Len(hist) <= MaxLoss /\ Failed \subseteq {Clauses[k] : k \in 2..NClauses}

Complete == (Failed = {}) <=> (b = a /\ tb = ta)

Localised == Len(hist) = 1 => Failed = Expected(hist[1])

\* the position reported for a failing structural clause is the first differing one
DiagSound ==
    \A c \in StructuralClauses :
        LET w == Where(c, a, b)
            pa == Plane(c, a)
            pb == Plane(c, b)
        IN IF SameOn(c, a, b) THEN w = <<0, 0, 0>>
           ELSE /\ w[1] >= 1
                /\ \A f \in 1..(w[1] - 1) : pa[f] = pb[f]
                /\ Differ(pa, pb, w[1])
                /\ (w[2] > 0 => /\ \A bl \in 1..(w[2] - 1) : pa[w[1]][bl] = pb[w[1]][bl]
                                /\ Differ(pa[w[1]], pb[w[1]], w[2]))
                /\ (w[3] > 0 => /\ \A k \in 1..(w[3] - 1) : pa[w[1]][w[2]][k] = pb[w[1]][w[2]][k]
                                /\ Differ(pa[w[1]][w[2]], pb[w[1]][w[2]], w[3]))

TextLaw == LET d == FirstDiff(ta, tb) IN
           /\ (d = 0) <=> (ta = tb)
           /\ d > 0 => /\ \A k \in 1..(d - 1) : ta[k] = tb[k]
                       /\ Differ(ta, tb, d)
=============================================================================
