-------------------------------- MODULE IRPy --------------------------------
(* C24: the Python code ppci generates from an IR module (ir_to_python)       *)
(* computes exactly what the IR semantics prescribe.                           *)
(*                                                                             *)
(* Trace validation: a case is an IR.tla case (mods = <<the projected          *)
(* module>>, fn, argv, ext, fuel) plus                                         *)
(*    py : Seq(observation)   one per argument vector, written down by         *)
(*                            harness/c24_runner.py from a real execution of   *)
(*                            the generated Python in a subprocess:            *)
(*      [outcome : "ok" | "error:<class>" | "error:load:<class>",              *)
(*       ret : PV, globals : Seq([name, bytes]), calls : Seq([name, args : Seq(PV)])]  *)
(* TLC executes fn(argv[av]) on the module with the IR machine of IR.tla       *)
(* (same stub table for external calls) and, whenever that execution is fully  *)
(* defined (status "ok"), the recorded Python observation must coincide:       *)
(*   PyCompletes    - the generated code loaded and returned normally          *)
(*   PyReturnExact  - the returned Python int is *in the range of* the         *)
(*                    function's return type and is the IR result word         *)
(*                    (fixed-width wrap-around: an unwrapped int is rejected)  *)
(*   PyGlobalsExact - final bytes of every global variable                     *)
(*   PyCallsExact   - the sequence of external calls and their arguments       *)
(* Undefined IR executions (poison, division by zero, MIN / -1, shift >= width,*)
(* out-of-bounds access), out-of-model ones (floats) and executions that       *)
(* exhaust the step budget are not judged; the Done* actions classify every    *)
(* execution so that the harness can count them from TLC's action coverage.    *)
EXTENDS IR, PyVal

VARIABLE judged          \* 0 while the IR machine runs, 1 once the execution has been classified
pvars == <<chunk, i, av, ph, stack, mem, calls, status, why, ret, steps, obs0, gaddr, judged>>

PyInit == Init /\ judged = 0
\* (written out one by one: TLC reports coverage per action definition, which is how the harness counts them)
DoneDefined    == Finished /\ judged = 0 /\ status = "ok" /\ judged' = 1 /\ UNCHANGED vars
DoneUndefined  == Finished /\ judged = 0 /\ status = "undefined" /\ judged' = 1 /\ UNCHANGED vars
DoneOutOfModel == Finished /\ judged = 0 /\ status = "outofmodel" /\ judged' = 1 /\ UNCHANGED vars
DoneFuel       == Finished /\ judged = 0 /\ status = "fuel" /\ judged' = 1 /\ UNCHANGED vars
DoneStuck      == Finished /\ judged = 0 /\ status = "stuck" /\ judged' = 1 /\ UNCHANGED vars
PyNext == \/ (PickChunk /\ UNCHANGED judged) \/ (PickCase /\ UNCHANGED judged)
          \/ (Step /\ UNCHANGED judged) \/ (Exhaust /\ UNCHANGED judged)
          \/ DoneDefined \/ DoneUndefined \/ DoneOutOfModel \/ DoneFuel \/ DoneStuck

Py == C.py[av]                               \* what the generated Python did on this argument vector
MainFn == M.funcs[FnIndex(C.fn, M)]
Judged == i > 0 /\ judged = 1 /\ status = "ok"

PyCompletes == Judged => Py.outcome = "ok"

PyReturnExact ==
    (Judged /\ Py.outcome = "ok") =>
        IF MainFn.ret = "" THEN PyIsNone(Py.ret)               \* a procedure returns nothing
        ELSE PyIsWord(Py.ret, ret, Signed(MainFn.ret))

PyGlobalOf(n) == LET S == {j \in 1..Len(Py.globals) : Py.globals[j].name = n} IN
                 IF S = {} THEN <<-1>> ELSE Py.globals[CHOOSE j \in S : TRUE].bytes
\* cells the IR leaves indeterminate (a poison value was stored) are not compared
BytesAgree(pyb, irb) == Len(pyb) = Len(irb) /\ \A j \in 1..Len(irb) : irb[j] >= 0 => pyb[j] = irb[j]
PyGlobalsExact ==
    (Judged /\ Py.outcome = "ok") =>
        \A k \in VarIdx : BytesAgree(PyGlobalOf(M.globals[k].name), GlobalBytes(k))

\* declared parameter types of an external function (signedness of the arguments it receives)
XfnArgs(n) == LET S == {k \in 1..Len(M.globals) : M.globals[k].k = "xfn" /\ M.globals[k].name = n} IN
              IF S = {} THEN <<>> ELSE M.globals[CHOOSE k \in S : TRUE].args
PyCallIs(pc, ic) ==
    /\ pc.name = ic.name
    /\ Len(pc.args) = Len(ic.args)
    /\ LET tys == XfnArgs(ic.name) IN
       \A k \in 1..Len(ic.args) :
           PyIsWord(pc.args[k], ic.args[k], k <= Len(tys) /\ Signed(tys[k]))
PyCallsExact ==
    (Judged /\ Py.outcome = "ok") =>
        /\ Len(Py.calls) = Len(calls)
        /\ \A j \in 1..Len(calls) : PyCallIs(Py.calls[j], calls[j])

\* the IR machine itself must not get stuck on a module ppci's verifier accepts (model gap otherwise)
NeverStuck == (i > 0 /\ judged = 1) => status # "stuck"
=============================================================================
