---------------------------- MODULE Leb128_Eval ----------------------------
(* Idiom E for C20: one state per recorded call of ppci/utils/leb128.py;    *)
(* the invariants are the clauses of the definition (Leb128.tla).           *)
(* Two-level fan-out (chunk, then record) so all workers share the work.    *)
EXTENDS Leb128, Json, IOUtils, TLC
Recs == JsonDeserialize(IOEnv.TRACE_FILE)
NChunks == 64
VARIABLES chunk, i
vars == <<chunk, i>>
Init == chunk = 0 /\ i = 0
PickChunk == chunk = 0 /\ chunk' \in 1..NChunks /\ i' = 0
PickRec == chunk > 0 /\ i = 0 /\ chunk' = chunk
           /\ i' \in {k \in 1..Len(Recs) : k % NChunks = chunk - 1}
Next == PickChunk \/ PickRec
\* one invariant per clause of the property
CanonicalEncoding == (i > 0 /\ IsEncodeRec(Recs[i])) => EncodeOk(Recs[i])
DecodesToOriginal == (i > 0 /\ IsEncodeRec(Recs[i])) => RoundTripOk(Recs[i])
DecoderAgrees     == (i > 0 /\ IsDecodeRec(Recs[i])) => DecodeOk(Recs[i])
=============================================================================
