------------------------------ MODULE Mos6502 ------------------------------
(* The MOS Technology 6502 instruction set ("MCS6500 Microcomputer Family    *)
(* Programming Manual", MOS Technology 1976, appendix B "instruction         *)
(* addressing modes and related execution times" and appendix C "summary of  *)
(* the instruction set"; the same matrix is the table of the Rockwell /      *)
(* Synertek data sheets): 56 instructions, 13 addressing modes, 151          *)
(* documented operation codes, transcribed from the opcode matrix            *)
(* independently of ppci.                                                    *)
(*                                                                           *)
(*   OpTable       the opcode matrix: <<mnemonic, mode, opcode byte>>          *)
(*   Decode(b)     instruction bytes -> record (operands little-endian)       *)
(*   Encode(i)     the reference encoder (inverse; laws in Mos6502_MC)        *)
(*   Asm(mn, ops, pc)  meaning of a printed line (the usual notation and the  *)
(*                 spelling of ppci: "zeropage N" for a zero-page address)     *)
(*   WF(i)         records the encoder accepts                                *)
(*   Reads(i) / Writes(i)   architectural register sets A X Y S P PC          *)
(*   MRanges       operand ranges per printed form (boundary generation)      *)
EXTENDS Integers, Sequences, FiniteSets, TLC

P2(n) == 2 ^ n
Bits(x, lo, n) == (x \div P2(lo)) % P2(n)
SignExt(v, n) == IF v >= P2(n - 1) THEN v - P2(n) ELSE v
Pattern(v, n) == IF v < 0 THEN v + P2(n) ELSE v
W8(v) == ((v % 256) + 256) % 256
W16(v) == ((v % 65536) + 65536) % 65536

(* Addressing modes (appendix B, the 13 columns):                            *)
(*  imp implied          acc accumulator      imm #immediate                 *)
(*  zp  zero page        zpx zero page,X      zpy zero page,Y                *)
(*  abs absolute         abx absolute,X       aby absolute,Y                 *)
(*  ind (indirect)       izx (indirect,X)     izy (indirect),Y               *)
(*  rel relative (branches)                                                  *)
Modes == {"imp", "acc", "imm", "zp", "zpx", "zpy", "abs", "abx", "aby", "ind", "izx", "izy", "rel"}
\* number of operand bytes per mode
OperandLen(m) == CASE m \in {"imp", "acc"} -> 0
                   [] m \in {"imm", "zp", "zpx", "zpy", "izx", "izy", "rel"} -> 1
                   [] m \in {"abs", "abx", "aby", "ind"} -> 2

(* The opcode matrix, row by row as in appendix C (alphabetical).            *)
OpTable == {
    <<"adc", "imm", \h69>>, <<"adc", "zp", \h65>>, <<"adc", "zpx", \h75>>, <<"adc", "abs", \h6D>>,
    <<"adc", "abx", \h7D>>, <<"adc", "aby", \h79>>, <<"adc", "izx", \h61>>, <<"adc", "izy", \h71>>,
    <<"and", "imm", \h29>>, <<"and", "zp", \h25>>, <<"and", "zpx", \h35>>, <<"and", "abs", \h2D>>,
    <<"and", "abx", \h3D>>, <<"and", "aby", \h39>>, <<"and", "izx", \h21>>, <<"and", "izy", \h31>>,
    <<"asl", "acc", \h0A>>, <<"asl", "zp", \h06>>, <<"asl", "zpx", \h16>>, <<"asl", "abs", \h0E>>, <<"asl", "abx", \h1E>>,
    <<"bcc", "rel", \h90>>, <<"bcs", "rel", \hB0>>, <<"beq", "rel", \hF0>>,
    <<"bit", "zp", \h24>>, <<"bit", "abs", \h2C>>,
    <<"bmi", "rel", \h30>>, <<"bne", "rel", \hD0>>, <<"bpl", "rel", \h10>>,
    <<"brk", "imp", \h00>>,
    <<"bvc", "rel", \h50>>, <<"bvs", "rel", \h70>>,
    <<"clc", "imp", \h18>>, <<"cld", "imp", \hD8>>, <<"cli", "imp", \h58>>, <<"clv", "imp", \hB8>>,
    <<"cmp", "imm", \hC9>>, <<"cmp", "zp", \hC5>>, <<"cmp", "zpx", \hD5>>, <<"cmp", "abs", \hCD>>,
    <<"cmp", "abx", \hDD>>, <<"cmp", "aby", \hD9>>, <<"cmp", "izx", \hC1>>, <<"cmp", "izy", \hD1>>,
    <<"cpx", "imm", \hE0>>, <<"cpx", "zp", \hE4>>, <<"cpx", "abs", \hEC>>,
    <<"cpy", "imm", \hC0>>, <<"cpy", "zp", \hC4>>, <<"cpy", "abs", \hCC>>,
    <<"dec", "zp", \hC6>>, <<"dec", "zpx", \hD6>>, <<"dec", "abs", \hCE>>, <<"dec", "abx", \hDE>>,
    <<"dex", "imp", \hCA>>, <<"dey", "imp", \h88>>,
    <<"eor", "imm", \h49>>, <<"eor", "zp", \h45>>, <<"eor", "zpx", \h55>>, <<"eor", "abs", \h4D>>,
    <<"eor", "abx", \h5D>>, <<"eor", "aby", \h59>>, <<"eor", "izx", \h41>>, <<"eor", "izy", \h51>>,
    <<"inc", "zp", \hE6>>, <<"inc", "zpx", \hF6>>, <<"inc", "abs", \hEE>>, <<"inc", "abx", \hFE>>,
    <<"inx", "imp", \hE8>>, <<"iny", "imp", \hC8>>,
    <<"jmp", "abs", \h4C>>, <<"jmp", "ind", \h6C>>,
    <<"jsr", "abs", \h20>>,
    <<"lda", "imm", \hA9>>, <<"lda", "zp", \hA5>>, <<"lda", "zpx", \hB5>>, <<"lda", "abs", \hAD>>,
    <<"lda", "abx", \hBD>>, <<"lda", "aby", \hB9>>, <<"lda", "izx", \hA1>>, <<"lda", "izy", \hB1>>,
    <<"ldx", "imm", \hA2>>, <<"ldx", "zp", \hA6>>, <<"ldx", "zpy", \hB6>>, <<"ldx", "abs", \hAE>>, <<"ldx", "aby", \hBE>>,
    <<"ldy", "imm", \hA0>>, <<"ldy", "zp", \hA4>>, <<"ldy", "zpx", \hB4>>, <<"ldy", "abs", \hAC>>, <<"ldy", "abx", \hBC>>,
    <<"lsr", "acc", \h4A>>, <<"lsr", "zp", \h46>>, <<"lsr", "zpx", \h56>>, <<"lsr", "abs", \h4E>>, <<"lsr", "abx", \h5E>>,
    <<"nop", "imp", \hEA>>,
    <<"ora", "imm", \h09>>, <<"ora", "zp", \h05>>, <<"ora", "zpx", \h15>>, <<"ora", "abs", \h0D>>,
    <<"ora", "abx", \h1D>>, <<"ora", "aby", \h19>>, <<"ora", "izx", \h01>>, <<"ora", "izy", \h11>>,
    <<"pha", "imp", \h48>>, <<"php", "imp", \h08>>, <<"pla", "imp", \h68>>, <<"plp", "imp", \h28>>,
    <<"rol", "acc", \h2A>>, <<"rol", "zp", \h26>>, <<"rol", "zpx", \h36>>, <<"rol", "abs", \h2E>>, <<"rol", "abx", \h3E>>,
    <<"ror", "acc", \h6A>>, <<"ror", "zp", \h66>>, <<"ror", "zpx", \h76>>, <<"ror", "abs", \h6E>>, <<"ror", "abx", \h7E>>,
    <<"rti", "imp", \h40>>, <<"rts", "imp", \h60>>,
    <<"sbc", "imm", \hE9>>, <<"sbc", "zp", \hE5>>, <<"sbc", "zpx", \hF5>>, <<"sbc", "abs", \hED>>,
    <<"sbc", "abx", \hFD>>, <<"sbc", "aby", \hF9>>, <<"sbc", "izx", \hE1>>, <<"sbc", "izy", \hF1>>,
    <<"sec", "imp", \h38>>, <<"sed", "imp", \hF8>>, <<"sei", "imp", \h78>>,
    <<"sta", "zp", \h85>>, <<"sta", "zpx", \h95>>, <<"sta", "abs", \h8D>>,
    <<"sta", "abx", \h9D>>, <<"sta", "aby", \h99>>, <<"sta", "izx", \h81>>, <<"sta", "izy", \h91>>,
    <<"stx", "zp", \h86>>, <<"stx", "zpy", \h96>>, <<"stx", "abs", \h8E>>,
    <<"sty", "zp", \h84>>, <<"sty", "zpx", \h94>>, <<"sty", "abs", \h8C>>,
    <<"tax", "imp", \hAA>>, <<"tay", "imp", \hA8>>, <<"tsx", "imp", \hBA>>,
    <<"txa", "imp", \h8A>>, <<"txs", "imp", \h9A>>, <<"tya", "imp", \h98>>}

Mnemonics == {e[1] : e \in OpTable}
Entries(op) == {e \in OpTable : e[3] = op}                    \* the meanings of an opcode byte (law: at most one)
Forms(mn) == {e \in OpTable : e[1] = mn}
HasForm(mn, m) == \E e \in OpTable : e[1] = mn /\ e[2] = m
OpcodeOf(mn, m) == (CHOOSE e \in OpTable : e[1] = mn /\ e[2] = m)[3]
Branches == {"bcc", "bcs", "beq", "bmi", "bne", "bpl", "bvc", "bvs"}
Shifts == {"asl", "lsr", "rol", "ror"}

(* The decoded instruction.                                                  *)
(*  mn    mnemonic      mode  addressing mode                                *)
(*  v     operand: 8-bit pattern (imm zp zpx zpy izx izy), 16-bit pattern     *)
(*        (abs abx aby ind), signed displacement from the address of the      *)
(*        next instruction (rel), 0 (imp acc)                                 *)
(*  len   length in bytes                                                    *)
I0 == [mn |-> "", mode |-> "", v |-> 0, len |-> 0]
NotInsn == {"undefined", "truncated", "toolong", "none", "noform", "range"}
Bad(k, len) == [I0 EXCEPT !.mn = k, !.len = len]
Valid(i) == i.mn \notin NotInsn
Core(i) == [i EXCEPT !.len = 0]
NoAsm == Bad("none", 0)                                       \* the line is outside the modelled assembly syntax
NoForm == Bad("noform", 0)                                    \* the instruction has no such addressing mode

Decode(b) ==
    IF Len(b) = 0 THEN Bad("undefined", 0)
    ELSE LET es == Entries(b[1]) IN
         IF es = {} THEN Bad("undefined", Len(b))             \* one of the 105 undocumented operation codes
         ELSE LET e == CHOOSE x \in es : TRUE  n == OperandLen(e[2]) IN
              IF Len(b) < 1 + n THEN Bad("truncated", Len(b))
              ELSE IF Len(b) > 1 + n THEN Bad("toolong", Len(b))
              ELSE [mn |-> e[1], mode |-> e[2], len |-> 1 + n,
                    v |-> CASE n = 0 -> 0
                            [] n = 1 -> IF e[2] = "rel" THEN SignExt(b[2], 8) ELSE b[2]
                            [] n = 2 -> b[2] + 256 * b[3]]    \* low byte first
LengthOf(op) == IF Entries(op) = {} THEN 0 ELSE 1 + OperandLen((CHOOSE x \in Entries(op) : TRUE)[2])

WF(i) ==
    /\ i.mn \in Mnemonics /\ i.mode \in Modes /\ HasForm(i.mn, i.mode)
    /\ i.len = 1 + OperandLen(i.mode)
    /\ CASE OperandLen(i.mode) = 0 -> i.v = 0
         [] i.mode = "rel" -> i.v \in -128..127
         [] OperandLen(i.mode) = 1 -> i.v \in 0..255
         [] OTHER -> i.v \in 0..65535
Encode(i) ==
    <<OpcodeOf(i.mn, i.mode)>> \o
    (CASE OperandLen(i.mode) = 0 -> <<>>
       [] i.mode = "rel" -> <<Pattern(i.v, 8)>>
       [] OperandLen(i.mode) = 1 -> <<i.v>>
       [] OTHER -> <<i.v % 256, i.v \div 256>>)
\* address a branch at address pc goes to
Target(i, pc) == W16(pc + 2 + i.v)

-----------------------------------------------------------------------------
(* Architectural register sets: A X Y, S (stack pointer), P (status), PC     *)
IdxRegs(m) == CASE m \in {"zpx", "abx", "izx"} -> {"X"} [] m \in {"zpy", "aby", "izy"} -> {"Y"} [] OTHER -> {}
Regs == {"A", "X", "Y", "S", "P", "PC"}
Reads(i) ==
    IdxRegs(i.mode) \cup
    (CASE i.mn \in {"adc", "sbc"} -> {"A", "P"}
       [] i.mn \in {"and", "ora", "eor", "cmp", "bit", "sta", "pha", "tax", "tay"} -> {"A"}
       [] i.mn \in {"rol", "ror"} -> {"P"} \cup (IF i.mode = "acc" THEN {"A"} ELSE {})
       [] i.mn \in {"asl", "lsr"} -> IF i.mode = "acc" THEN {"A"} ELSE {}
       [] i.mn \in Branches -> {"P", "PC"}
       [] i.mn \in {"cpx", "stx", "dex", "inx", "txa", "txs"} -> {"X"}
       [] i.mn \in {"cpy", "sty", "dey", "iny", "tya"} -> {"Y"}
       [] i.mn = "tsx" -> {"S"}
       [] i.mn = "php" -> {"P", "S"}
       [] i.mn \in {"pla", "plp", "rti", "rts"} -> {"S"}
       [] i.mn = "jsr" -> {"S", "PC"}
       [] i.mn = "brk" -> {"S", "PC", "P"}
       [] OTHER -> {}) \cup (IF i.mn = "pha" THEN {"S"} ELSE {})
Writes(i) ==
    CASE i.mn \in {"adc", "sbc", "and", "ora", "eor", "lda"} -> {"A", "P"}
      [] i.mn \in {"asl", "lsr", "rol", "ror"} -> {"P"} \cup (IF i.mode = "acc" THEN {"A"} ELSE {})
      [] i.mn \in {"cmp", "cpx", "cpy", "bit", "inc", "dec", "clc", "cld", "cli", "clv", "sec", "sed", "sei"} -> {"P"}
      [] i.mn \in Branches \cup {"jmp"} -> {"PC"}
      [] i.mn \in {"ldx", "dex", "inx", "tax", "tsx"} -> {"X", "P"}
      [] i.mn \in {"ldy", "dey", "iny", "tay"} -> {"Y", "P"}
      [] i.mn \in {"txa", "tya"} -> {"A", "P"}
      [] i.mn = "txs" -> {"S"}
      [] i.mn \in {"pha", "php"} -> {"S"}
      [] i.mn = "pla" -> {"A", "S", "P"}
      [] i.mn = "plp" -> {"S", "P"}
      [] i.mn = "jsr" -> {"S", "PC"}
      [] i.mn = "rts" -> {"S", "PC"}
      [] i.mn = "rti" -> {"S", "PC", "P"}
      [] i.mn = "brk" -> {"S", "PC", "P"}
      [] OTHER -> {}                                          \* sta stx sty nop

-----------------------------------------------------------------------------
(* Operand tokens of a printed line: <<kind, number, text>>, kind in          *)
(*  i integer  l label (number = its address)  w word (text = the word in     *)
(*  lower case: x y a zeropage)  # ( ) ,  x unknown glyph                      *)
RECURSIVE PatR(_, _)
PatR(ops, k) == IF k > Len(ops) THEN ""
                ELSE (IF ops[k][1] = "w" THEN "<" \o ops[k][3] \o ">" ELSE ops[k][1]) \o PatR(ops, k + 1)
Pat(ops) == PatR(ops, 1)
Num(ops, k) == ops[k][2]
InRange(v, lo, hi) == lo <= v /\ v <= hi
OutOfField == -99999

\* <<mode, operand>> a printed operand denotes; "bad": not a notation of the model; "range": a value no field holds
Operand(mn, ops, pc) ==
    LET p == Pat(ops)
        B8(k) == IF InRange(Num(ops, k), -128, 255) THEN W8(Num(ops, k)) ELSE OutOfField
        B16(k) == IF InRange(Num(ops, k), -32768, 65535) THEN W16(Num(ops, k)) ELSE OutOfField IN
    CASE p = "" -> IF mn \in Shifts THEN <<"acc", 0>> ELSE <<"imp", 0>>       \* "asl" alone: the accumulator
      [] p = "<a>" -> <<"acc", 0>>
      [] p = "#i" -> <<"imm", B8(2)>>
      [] p = "<zeropage>i" -> <<"zp", B8(2)>>
      [] p = "<zeropage>i,<x>" -> <<"zpx", B8(2)>>
      [] p = "<zeropage>i,<y>" -> <<"zpy", B8(2)>>
      [] p \in {"i", "l"} /\ mn \in Branches ->
            \* a label is the address branched to; a bare integer is the displacement byte itself (ppci's Relative)
            (IF ops[1][1] = "l"
             THEN (LET d == Num(ops, 1) - (pc + 2) IN IF InRange(d, -128, 127) THEN <<"rel", d>> ELSE <<"range", 0>>)
             ELSE (IF InRange(Num(ops, 1), -128, 255) THEN <<"rel", SignExt(W8(Num(ops, 1)), 8)>> ELSE <<"range", 0>>))
      [] p \in {"i", "l"} -> <<"abs", B16(1)>>
      [] p \in {"i,<x>", "l,<x>"} -> <<"abx", B16(1)>>
      [] p \in {"i,<y>", "l,<y>"} -> <<"aby", B16(1)>>
      [] p = "(i,<x>)" -> <<"izx", B8(2)>>
      [] p = "(i),<y>" -> <<"izy", B8(2)>>
      [] p \in {"(i)", "(l)"} -> <<"ind", B16(2)>>
      [] p \in {"(i,<y>)", "(i),<x>"} -> <<"nomode", 0>>                     \* indexed indirect is by X, indirect indexed by Y only
      [] OTHER -> <<"bad", 0>>
Asm(mn, ops, pc) ==
    IF mn \notin Mnemonics THEN NoAsm
    ELSE LET o == Operand(mn, ops, pc) IN
         IF o[1] = "bad" THEN NoAsm
         ELSE IF o[1] = "range" \/ o[2] = OutOfField THEN Bad("range", 0)
         ELSE IF ~HasForm(mn, o[1]) THEN NoForm
         ELSE [mn |-> mn, mode |-> o[1], v |-> o[2], len |-> 1 + OperandLen(o[1])]

-----------------------------------------------------------------------------
(* Operand ranges of the printed forms: <<what, lo, hi, alignment>>          *)
(*  b8   immediates, zero-page addresses: an 8-bit pattern written signed or  *)
(*       unsigned      w16  absolute addresses                                *)
(*  rel  branch distance from the address of the next instruction            *)
MRanges == {<<"b8", -128, 255, 1>>, <<"w16", -32768, 65535, 1>>, <<"rel", -128, 127, 1>>}
=============================================================================
