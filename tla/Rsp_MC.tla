------------------------------ MODULE Rsp_MC ------------------------------
(* Idiom M: exhaustive exploration of Rsp.tla for small constants.          *)
(* The cfg text (constants, invariants) is written by engines/c35.py.       *)
EXTENDS Rsp, TLC
CONSTANTS Alphabet, MaxLen, NotifAlphabet, MaxDepth,
          LCalls, LPeer, LNotif, LNack, LLost, LSpur, LCorrupt
MCLim == [calls |-> LCalls, peer |-> LPeer, notif |-> LNotif, nack |-> LNack, lost |-> LLost,
          spur |-> LSpur, corrupt |-> LCorrupt]

SeqsUpTo(A, n) == UNION {[1..k -> A] : k \in 0..n}
MCPayloads == SeqsUpTo(Alphabet, MaxLen)
MCNotifPayloads == SeqsUpTo(NotifAlphabet, 1) \ {<<>>}
MCClients == {1, 2}
OneClient == {1}

Bounded == TLCGet("level") <= MaxDepth
\* the model's state without the history of the last action
View == <<flags, txlog, peerPos, toClient, rxStream, ref, dec, ackq, ackIn, rxPend, rxAlive, delivered, cl, peerLog, cnt>>

\* ---- framing generator (idiom G, exhaustive): the line is preloaded with one or two
\* packed packets (and a trailing ack); the only action is RxByte, so the reachable
\* states are chains, one per line content, dumped and replayed into the real decoder.
Line2 == {Pack(p) : p \in MCPayloads}
         \cup {Pack(p) \o <<43>> \o Pack(q) : p \in MCPayloads, q \in {t \in MCPayloads : Len(t) <= 1}}
FrInit == \E line \in Line2 : InitLine(line)
FrNext == RxByte
=============================================================================
