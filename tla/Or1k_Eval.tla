----------------------------- MODULE Or1k_Eval -----------------------------
(* Idiom E for the Or1k part of C08 (and C07 where an engine uses it): the  *)
(* clauses that judge one record observed on the real ppci code              *)
(* (harness/riscgen.py).  The state machine that walks the records of a      *)
(* batch is Risc3_Eval.tla (one TLC run for the three instruction sets).     *)
(*                                                                           *)
(* t = "enc": mn, ops = the text ppci printed, tokenised; sym, pc = address  *)
(*     of the label operand / of the instruction; out = [ok, exc, bytes]:    *)
(*     what encode() (+ the instruction's own relocation; a macro: the       *)
(*     encodings of its rendering) or the assembler + linker produced        *)
(* t = "rw":  bytes, uses / defs / clob = numbers of the general-purpose     *)
(*     registers ppci declares as read / written / clobbered                 *)
EXTENDS Or1k
SetOf(q) == {q[k] : k \in 1..Len(q)}
AsmOf(r) == Asm(r.mn, r.ops, r.sym, r.pc)
\* not a verdict (note): the printed line is outside the modelled assembly syntax
SyntaxKnownR(r) == AsmOf(r) # NoAsm
\* not a verdict (note, C10's question): an immediate / displacement outside the instruction's range was accepted
InRangeR(r) == \E a \in {AsmOf(r)} : a # NoAsm => ImmWF(a)
\* C08: whatever ppci accepts and emits decodes to the operation and operands it prints
AgreesR(r) == r.out.ok => \E a \in {AsmOf(r)} : \E d \in {Decode(r.out.bytes)} :
    (a # NoAsm /\ ImmWF(a)) => Core(d) = Core(a)
\* an instance ppci built and printed, with every operand in range, is encoded (no exception, some bytes)
EncodesR(r) == \E a \in {AsmOf(r)} : (a # NoAsm /\ ImmWF(a)) => (r.out.ok /\ Len(r.out.bytes) > 0)
\* spec validation only: text = the reference disassembler's output ("invalid": it rejects the bytes)
RefInvalidR(r) == ~Valid(Decode(r.out.bytes))
RefAgreesR(r) == \E a \in {AsmOf(r)} : \E d \in {Decode(r.out.bytes)} :
    (a # NoAsm /\ d.mn # "unsupported") => Core(d) = Core(a)
\* C07: the registers the emitted instruction reads / writes are declared
DecodableR(r) == Valid(Decode(r.bytes))
StaticWritesR(r) == \E d \in {Decode(r.bytes)} : Valid(d) => (Writes(d) \ LinkW(d)) \subseteq (SetOf(r.defs) \cup SetOf(r.clob))
LinkWriteR(r) == \E d \in {Decode(r.bytes)} : Valid(d) => LinkW(d) \subseteq (SetOf(r.defs) \cup SetOf(r.clob))
StaticReadsR(r) == \E d \in {Decode(r.bytes)} : Valid(d) => Reads(d) \subseteq SetOf(r.uses)
=============================================================================
