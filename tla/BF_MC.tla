------------------------------- MODULE BF_MC -------------------------------
(* Idiom M for extension property X02 (Brainfuck half): the specification   *)
(* BF.tla model-checked by itself.  TLC enumerates *every* program of        *)
(* length <= MaxLen over the eight commands and one comment character, on a  *)
(* tape of TapeN cells (programs with `,` with three input streams), runs    *)
(* each to the end and checks                                                *)
(*   BracketLaws    the stack scan agrees with the nesting-depth definition: *)
(*                  balanced iff every prefix has depth >= 0 and the total   *)
(*                  is 0; the partner function is an involution that maps    *)
(*                  every [ to the first later ] closing its depth (hence a  *)
(*                  bijection between the [ and the ] positions), pairs do   *)
(*                  not cross, non-brackets have no partner                  *)
(*   Rejected       status "rejected" exactly for unbalanced programs        *)
(*   Deterministic  exactly one action is enabled in every running state     *)
(*   LoopLaw        (action property) a [ continues after its partner iff    *)
(*                  the cell is 0, a ] continues after its partner iff the   *)
(*                  cell is not 0; neither changes tape, pointer or output   *)
(*   CellLaw / MoveLaw / IoLaw  (action properties) effect of the others     *)
(*   Periodic       a "diverges" verdict names a non-empty loop body         *)
(*   ExpectMet      hand-derived outcomes of the micro programs in           *)
(*                  TRACE_FILE ([src, inp, tape, fuel, status, out])         *)
EXTENDS BF, TLC, Json, IOUtils
CONSTANTS MaxLen, TapeN, Fuel
Micro == JsonDeserialize(IOEnv.TRACE_FILE)
VARIABLES k,              \* 0: enumerated program, > 0: micro program k
          first           \* fan-out: -1 = not chosen, 0 = the empty program / micro programs, else first character
Alphabet == Commands \cup {120}
Programs == UNION {[1..n -> Alphabet] : n \in 0..MaxLen}
Inputs(p) == IF \E j \in 1..Len(p) : p[j] = Comma THEN {<<>>, <<7>>, <<0, 255>>} ELSE {<<>>}

Tails == UNION {[1..n -> Alphabet] : n \in 0..(MaxLen - 1)}
Loaded == m # Idle
MInit == m = Idle /\ k = 0 /\ first = -1
PickFirst == first = -1 /\ first' \in Alphabet \cup {0} /\ UNCHANGED <<m, k>>
LoadProgram == /\ first > 0 /\ ~Loaded /\ UNCHANGED <<first, k>>
               /\ m' \in UNION {{Fresh(<<first>> \o q, in, TapeN, Fuel) : in \in Inputs(<<first>> \o q)} : q \in Tails}
LoadEmpty   == first = 0 /\ ~Loaded /\ m' = Fresh(<<>>, <<>>, TapeN, Fuel) /\ UNCHANGED <<first, k>>
LoadMicro   == /\ first = 0 /\ ~Loaded /\ k' \in 1..Len(Micro) /\ UNCHANGED first
               /\ m' = Fresh(Micro[k'].src, Micro[k'].inp, Micro[k'].tape, Micro[k'].fuel)
AIncCell   == Loaded /\ IncCell   /\ UNCHANGED <<k, first>>
ADecCell   == Loaded /\ DecCell   /\ UNCHANGED <<k, first>>
AMoveRight == Loaded /\ MoveRight /\ UNCHANGED <<k, first>>
AMoveLeft  == Loaded /\ MoveLeft  /\ UNCHANGED <<k, first>>
AOutput    == Loaded /\ Output    /\ UNCHANGED <<k, first>>
AInput     == Loaded /\ Input     /\ UNCHANGED <<k, first>>
ALoopOpen  == Loaded /\ LoopOpen  /\ UNCHANGED <<k, first>>
ALoopClose == Loaded /\ LoopClose /\ UNCHANGED <<k, first>>
AComment   == Loaded /\ Comment   /\ UNCHANGED <<k, first>>
AHalt      == Loaded /\ Halt      /\ UNCHANGED <<k, first>>
AOutOfFuel == Loaded /\ OutOfFuel /\ UNCHANGED <<k, first>>
MNext == PickFirst \/ LoadProgram \/ LoadEmpty \/ LoadMicro
         \/ AIncCell \/ ADecCell \/ AMoveRight \/ AMoveLeft \/ AOutput \/ AInput
         \/ ALoopOpen \/ ALoopClose \/ AComment \/ AHalt \/ AOutOfFuel

BracketLaws ==
    (Loaded /\ m.last = "load") =>
    LET p == m.prog  mt == m.mt IN
    /\ Balanced(p) = BalancedByDepth(p)
    /\ Balanced(p) =>
       /\ \A j \in 1..Len(p) :
            /\ p[j] = Open => mt[j] = CloseByDepth(p, j) /\ mt[j] > j /\ p[mt[j]] = Close /\ mt[mt[j]] = j
            /\ p[j] = Close => mt[j] \in 1..(j - 1) /\ p[mt[j]] = Open /\ mt[mt[j]] = j
            /\ p[j] \notin {Open, Close} => mt[j] = 0
       /\ \A a, b \in 1..Len(p) : (p[a] = Open /\ p[b] = Open /\ a < b) => (mt[b] < mt[a] \/ b > mt[a])
       /\ Cardinality({j \in 1..Len(p) : p[j] = Open}) = Cardinality({mt[j] : j \in {x \in 1..Len(p) : p[x] = Open}})
Rejected == Loaded => (m.status = "rejected") = ~BalancedByDepth(m.prog)
NEnabled == LET b(x) == IF x THEN 1 ELSE 0 IN
            b(ENABLED IncCell) + b(ENABLED DecCell) + b(ENABLED MoveRight) + b(ENABLED MoveLeft) + b(ENABLED Output)
            + b(ENABLED Input) + b(ENABLED LoopOpen) + b(ENABLED LoopClose) + b(ENABLED Comment) + b(ENABLED Halt)
            + b(ENABLED OutOfFuel)
Deterministic == Loaded => IF Running THEN NEnabled = 1 ELSE NEnabled = 0
Periodic == (Loaded /\ m.status = "diverges") => m.prog[m.pc] = Close /\ Cell # 0 /\ m.cyc0 <= Len(m.out)
ExpectMet == (Loaded /\ k > 0 /\ Finished) => m.status = Micro[k].status /\ m.out = Micro[k].out

Stepped(name) == Loaded /\ m.status = "run" /\ m'.last = name /\ m'.steps = m.steps + 1
Same(fields) == \A f \in fields : m'[f] = m[f]
LoopLaw ==
    /\ Stepped("LoopOpen") =>
         /\ (m'.pc = CloseByDepth(m.prog, m.pc) + 1) = (Cell = 0)
         /\ Cell # 0 => m'.pc = m.pc + 1
         /\ Same({"tape", "ptr", "out", "nin"})
    /\ Stepped("LoopClose") =>
         /\ Cell = 0 => m'.pc = m.pc + 1
         /\ Cell # 0 => m'.pc >= 2 /\ m.prog[m'.pc - 1] = Open /\ CloseByDepth(m.prog, m'.pc - 1) = m.pc
         /\ Same({"tape", "ptr", "out", "nin"})
CellLaw ==
    /\ Stepped("IncCell") => /\ m'.tape[m.ptr + 1] = (IF Cell = 255 THEN 0 ELSE Cell + 1)
                             /\ \A j \in 1..m.tlen : j # m.ptr + 1 => m'.tape[j] = m.tape[j]
                             /\ Same({"ptr", "out", "nin"}) /\ m'.pc = m.pc + 1
    /\ Stepped("DecCell") => /\ m'.tape[m.ptr + 1] = (IF Cell = 0 THEN 255 ELSE Cell - 1)
                             /\ \A j \in 1..m.tlen : j # m.ptr + 1 => m'.tape[j] = m.tape[j]
                             /\ Same({"ptr", "out", "nin"}) /\ m'.pc = m.pc + 1
MoveLaw ==
    /\ Stepped("MoveRight") => m'.ptr = m.ptr + 1 /\ Same({"tape", "out", "nin"}) /\ m'.pc = m.pc + 1
    /\ Stepped("MoveLeft")  => m'.ptr = m.ptr - 1 /\ Same({"tape", "out", "nin"}) /\ m'.pc = m.pc + 1
    /\ Stepped("Comment")   => Same({"ptr", "tape", "out", "nin"}) /\ m'.pc = m.pc + 1
IoLaw ==
    /\ Stepped("Output") => m'.out = m.out \o <<Cell>> /\ Same({"tape", "ptr", "nin"}) /\ m'.pc = m.pc + 1
    /\ Stepped("Input")  => /\ m'.nin = m.nin + 1 /\ m'.tape[m.ptr + 1] = m.inp[m'.nin]
                            /\ Same({"ptr", "out"}) /\ m'.pc = m.pc + 1
    /\ Loaded => \E j \in 0..Len(m'.out) : SubSeq(m'.out, 1, j) = m.out        \* output is only ever appended to
PLoop == [][LoopLaw]_m
PCell == [][CellLaw]_m
PMove == [][MoveLaw]_m
PIo   == [][IoLaw]_m
=============================================================================
