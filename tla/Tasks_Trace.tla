---------------------------- MODULE Tasks_Trace ----------------------------
(* Idiom T for property C34: histories recorded from the real               *)
(* ppci.build.tasks.TaskRunner.run (stub tasks that log their target) are   *)
(* replayed against the declarative specification Tasks.tla.                *)
(*                                                                          *)
(* Targets are numbered (cfg: Target = {1,..,5}; target k is the k-th       *)
(* letter of "ABCDE" in the driver and in reports).  TRACE_FILE is a JSON   *)
(* array with one entry per project:                                        *)
(*    { "deps": [[2,3],[4],[4],[]],       deps[k] = dependencies of k       *)
(*      "runs": [ [request, events, outcome], ... ] }                       *)
(*         request  [1]            the requested targets                    *)
(*         events   [4,2,3,1]      targets in the order their tasks ran     *)
(*         outcome  "done"         run() returned                           *)
(*                  "loop"         TaskError reporting a dependency loop    *)
(*                  "error"        any other exception                      *)
(* One behaviour per recorded run: PickChunk, PickGraph, PickRun (fan-out in *)
(* three levels: the workers share the runs, and TLC's reconstruction of an *)
(* error trace stays cheap), then one step per event.  Each step is the     *)
(* action Start(t) / Loop / Finish of Tasks.tla on the same variables, so a *)
(* history is accepted iff the specification can follow it to its end.      *)
(* TLC stops at the first deadlock even with -continue, therefore "the      *)
(* specification can take the next event" is stated as the invariant        *)
(* Follows (with ENABLED) instead of through deadlock checking; every       *)
(* refused history is then reported in one run.  The state of a violation   *)
(* carries g, i (which run), l (which event) and -- in `why` -- the guard   *)
(* of Tasks.tla that refuses the event.  The invariants of Tasks.tla are    *)
(* checked in every state as well.                                          *)
EXTENDS Tasks, Json, IOUtils, TLC

Recs == JsonDeserialize(IOEnv.TRACE_FILE)

ChunkSize == 20
NChunks == (Len(Recs) + ChunkSize - 1) \div ChunkSize

VARIABLES c,               \* chunk of ChunkSize consecutive projects (0: none yet)
          g,               \* index of the project (0: none yet)
          i,               \* index of the run of that project (0: none yet)
          l,               \* position of the next event; Len(events)+1 = the outcome
          why              \* "" or the guard of Tasks.tla that refuses the next event

tvars == <<c, g, i, l, why>>

DepsOf(rec) == [t \in Target |-> IF t <= Len(rec.deps) THEN Range(rec.deps[t]) ELSE {}]
Run     == Recs[g].runs[i]
Request == Run[1]
Events  == Run[2]
Outcome == Run[3]
AtEvent   == i > 0 /\ l <= Len(Events)
AtOutcome == i > 0 /\ l = Len(Events) + 1
AtEnd     == i > 0 /\ l = Len(Events) + 2

----------------------------------------------------------------------------
(* Diagnosis: which conjunct of the specification's action refuses the next *)
(* event ("" = the action is enabled).  Only used to name the failing       *)
(* clause in reports and violation keys (DiagnosisSound ties it to the      *)
(* enabledness of the specification's actions).                             *)
(* The suffixes name the situation in terms of Tasks.tla's vocabulary:      *)
(*   multipath      some target is reachable from a requested target along  *)
(*                  two paths (what a DFS that never pops reports as loop)  *)
(*   partial-order  "is a transitive dependency of" is not a strict weak    *)
(*                  order on the needed targets (a comparison sort need not *)
(*                  produce a dependency order)                             *)
WhyStart(t) ==
    IF t \notin Target THEN "UnknownTarget"
    ELSE IF t \notin Needed THEN "OnlyNeeded"
    ELSE IF t \in Range(executed) THEN "ExactlyOnce"
    ELSE IF ~(deps[t] \subseteq Range(executed))
         THEN (IF StrictWeak(deps, Needed) THEN "DepsFirst/weak-order"
                                           ELSE "DepsFirst/partial-order")
    ELSE ""
WhyLoop ==
    IF Cyclic THEN ""
    ELSE IF \E r \in requested : MultiPath(deps, r) THEN "LoopIff/spurious-loop/multipath"
    ELSE "LoopIff/spurious-loop/tree"
WhyDone ==
    IF Cyclic THEN "LoopIff/loop-not-reported"
    ELSE IF Range(executed) # Needed THEN "Completed"
    ELSE ""
Verdict ==
    IF i = 0 \/ AtEnd THEN ""
    ELSE IF AtEvent THEN WhyStart(Events[l])
    ELSE IF Outcome = "loop" THEN WhyLoop
    ELSE IF Outcome = "done" THEN WhyDone
    ELSE "Outcome/exception"

----------------------------------------------------------------------------
TInit == /\ c = 0 /\ g = 0 /\ i = 0 /\ l = 0 /\ why = ""
         /\ deps = [t \in Target |-> {}] /\ requested = {}
         /\ executed = <<>> /\ result = "running"

PickChunk == /\ c = 0
             /\ c' \in 1..NChunks
             /\ UNCHANGED <<g, i, l, why, vars>>

PickGraph == /\ c > 0 /\ g = 0
             /\ g' \in {k \in ((c - 1) * ChunkSize + 1)..(c * ChunkSize) : k <= Len(Recs)}
             /\ deps' = DepsOf(Recs[g'])
             /\ UNCHANGED <<c, i, l, why, requested, executed, result>>

PickRun == /\ g > 0 /\ i = 0
           /\ i' \in 1..Len(Recs[g].runs)
           /\ l' = 1
           /\ requested' = Range(Recs[g].runs[i'][1])
           /\ UNCHANGED <<c, g, deps, executed, result>>
           /\ why' = Verdict'                  \* (last: needs the other primed variables)

\* event "the tasks of target t ran"  =  Start(t) of the specification
TraceStart == /\ AtEvent
              /\ Start(Events[l])
              /\ l' = l + 1
              /\ UNCHANGED <<c, g, i>>
              /\ why' = Verdict'

\* outcome "dependency loop reported"  =  Loop
TraceLoop == /\ AtOutcome /\ Outcome = "loop"
             /\ Loop
             /\ l' = l + 1
             /\ UNCHANGED <<c, g, i>>
             /\ why' = Verdict'

\* outcome "run() returned normally"  =  Finish
TraceDone == /\ AtOutcome /\ Outcome = "done"
             /\ Finish
             /\ l' = l + 1
             /\ UNCHANGED <<c, g, i>>
             /\ why' = Verdict'

\* (an outcome "error" -- any other exception -- matches no action)

TraceEvent == TraceStart \/ TraceLoop \/ TraceDone

TNext == PickChunk \/ PickGraph \/ PickRun \/ TraceStart \/ TraceLoop \/ TraceDone

\* ACCEPTANCE: until the end of the history the specification can take the next event
Follows == i > 0 /\ ~AtEnd => ENABLED TraceEvent
\* the diagnosis names a guard only when the specification refuses the event (the
\* converse -- a refused event always has a diagnosis -- is checked by the harness on
\* every violation of Follows)
DiagnosisSound == i > 0 /\ ~AtEnd /\ why # "" => ~ENABLED TraceEvent
\* a history that was followed to its end has an outcome allowed by the specification
EndsProperly == AtEnd => result \in {"done", "loop"} /\ result = Outcome
=============================================================================
