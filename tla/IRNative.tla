------------------------------ MODULE IRNative ------------------------------
(* Properties C04 / C05 (x86-64 part): the machine code ppci generates for an   *)
(* IR module, executed by the host CPU, behaves as the IR prescribes.            *)
(*                                                                               *)
(* Trace validation.  A case is an IR.tla case (mods = <<projected module>>, fn, *)
(* argv, ext, fuel) plus                                                         *)
(*    nat : Seq(Seq(observation))   indexed by argument vector, then by          *)
(*                                  *variant* (optimisation level x link path):  *)
(*                                  what a real execution of that artefact did,  *)
(*                                  written down by harness/native.py from the   *)
(*                                  output and exit status of the process:       *)
(*      [outcome : "ok" | "error:<signal or failure>",                           *)
(*       ret     : word of the IR return type (<<>> for a procedure),            *)
(*       exit    : exit status of the process (driver: low byte of the result),  *)
(*       globals : Seq([name, bytes]),  calls : Seq([name, args : Seq(word)])]   *)
(* TLC executes fn(argv[av]) under the IR machine of IR.tla (same stub table for *)
(* the external functions) and, when that execution is fully defined (status     *)
(* "ok"), every recorded native observation of that vector must coincide:        *)
(*   NativeCompletes  the process ran to completion (no signal, link succeeded)  *)
(*   NativeReturn     returned word = IR result, bit for bit, at the type width  *)
(*   NativeExit       exit status = low byte of the result (0 for a procedure)   *)
(*   NativeGlobals    final bytes of every global variable of the module         *)
(*   NativeCalls      the sequence of external calls with their argument words   *)
(* Undefined IR executions (poison use, division by zero, MIN / -1, shift >=     *)
(* width, out-of-bounds access), out-of-model ones (floats) and executions that  *)
(* exhaust the step budget are not judged; the Done* actions classify every      *)
(* execution so that the harness can count them from TLC's action coverage.      *)
EXTENDS IR

VARIABLE vr      \* 0 while the IR machine runs; -1 = classified, not judged; k > 0 = variant k under judgement
nvars == <<chunk, i, av, ph, stack, mem, calls, status, why, ret, steps, obs0, gaddr, vr>>

NInit == Init /\ vr = 0

NVariants == Len(C.nat[av])
\* one state per (execution, variant): the error state then names the variant that disagrees
PickVariant    == Finished /\ vr = 0 /\ status = "ok" /\ NVariants > 0
                  /\ vr' \in 1..NVariants /\ UNCHANGED vars
DoneNoVariant  == Finished /\ vr = 0 /\ status = "ok" /\ NVariants = 0 /\ vr' = -1 /\ UNCHANGED vars
DoneUndefined  == Finished /\ vr = 0 /\ status = "undefined" /\ vr' = -1 /\ UNCHANGED vars
DoneOutOfModel == Finished /\ vr = 0 /\ status = "outofmodel" /\ vr' = -1 /\ UNCHANGED vars
DoneFuel       == Finished /\ vr = 0 /\ status = "fuel" /\ vr' = -1 /\ UNCHANGED vars
DoneStuck      == Finished /\ vr = 0 /\ status = "stuck" /\ vr' = -1 /\ UNCHANGED vars

NNext == \/ (PickChunk /\ UNCHANGED vr) \/ (PickCase /\ UNCHANGED vr)
         \/ (Step /\ UNCHANGED vr) \/ (Exhaust /\ UNCHANGED vr)
         \/ PickVariant \/ DoneNoVariant \/ DoneUndefined \/ DoneOutOfModel \/ DoneFuel \/ DoneStuck

NObs == C.nat[av][vr]
MainFn == M.funcs[FnIndex(C.fn, M)]
Judged == i > 0 /\ vr > 0 /\ status = "ok"
Ran == Judged /\ NObs.outcome = "ok"

NativeCompletes == Judged => NObs.outcome = "ok"

NativeReturn == Ran => NObs.ret = ret            \* ret = <<>> for a procedure

ExpectedExit == IF ret = <<>> THEN 0 ELSE ret[1]
NativeExit == Ran => NObs.exit = ExpectedExit

NatGlobalOf(n) == LET S == {j \in 1..Len(NObs.globals) : NObs.globals[j].name = n} IN
                  IF S = {} THEN <<-1>> ELSE NObs.globals[CHOOSE j \in S : TRUE].bytes
\* cells the IR leaves indeterminate (a poison value was stored) are not compared
BytesAgree(nb, irb) == Len(nb) = Len(irb) /\ \A j \in 1..Len(irb) : irb[j] >= 0 => nb[j] = irb[j]
\* only the globals the driver reports (those with external linkage) can be compared
Reported(k) == \E j \in 1..Len(NObs.globals) : NObs.globals[j].name = M.globals[k].name
NativeGlobals ==
    Ran => /\ \A k \in VarIdx : Reported(k) => BytesAgree(NatGlobalOf(M.globals[k].name), GlobalBytes(k))
           /\ \A j \in 1..Len(NObs.globals) : \E k \in VarIdx : M.globals[k].name = NObs.globals[j].name

NativeCalls == Ran => NObs.calls = calls

\* the IR machine itself must not get stuck on a module ppci's verifier accepts (model gap otherwise)
NeverStuck == (i > 0 /\ vr # 0) => status # "stuck"
=============================================================================
