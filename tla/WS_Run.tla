------------------------------- MODULE WS_Run -------------------------------
(* Idiom G for extension property X02 (Whitespace half): TLC produces the     *)
(* verdicts and behaviours of WS.tla that the driver replays into             *)
(* ppci.lang.ws.                                                              *)
(*   chunks 0..3 : TLC enumerates every token sequence of length <= GenLen;   *)
(*   chunks 4..  : the token sequences of TRACE_FILE ([toks, inp, fuel]).     *)
(* For each one  [i, toks, inp, ok, unspec, why, ops, obs]  is written to     *)
(* <OBS_DIR>/<g|c>_<i>.json  (ops = the instructions as [op, v]; obs = the    *)
(* observation of the machine run, status "none" for a malformed sequence).   *)
EXTENDS WS, TLC, Json, IOUtils
CONSTANTS GenLen, Fuel
Cases == JsonDeserialize(IOEnv.TRACE_FILE)
GenInput == <<65, 7>>
NChunks == 32
VARIABLES chunk, i, t, gen, done
Tok == <<S, T, L>>
Tails == UNION {[1..n -> 1..3] : n \in 0..(GenLen - 1)}
RECURSIVE Num(_, _)
Num(d, j) == IF j = 0 THEN 0 ELSE 4 * Num(d, j - 1) + d[j]
Loaded == w # Idle
Load(x, in, fuel) == LET P == Parse(x) IN w' = IF P.ok THEN Fresh(P.ins, in, fuel) ELSE [status |-> "malformed", inp |-> in]
RInit == w = Idle /\ chunk = -1 /\ i = 0 /\ t = <<>> /\ gen = FALSE /\ done = FALSE
PickChunk == /\ chunk = -1 /\ UNCHANGED <<w, i, t, gen, done>>
             /\ chunk' \in (IF GenLen > 0 THEN 0..3 ELSE {}) \cup 4..(3 + NChunks)
LoadCase == /\ chunk > 3 /\ ~Loaded /\ UNCHANGED <<chunk, done>> /\ gen' = FALSE
            /\ i' \in {x \in 1..Len(Cases) : x % NChunks = chunk - 4}
            /\ t' = Cases[i'].toks /\ Load(t', Cases[i'].inp, Cases[i'].fuel)
LoadGen == /\ GenLen > 0 /\ chunk \in 0..3 /\ ~Loaded /\ UNCHANGED <<chunk, done>> /\ gen' = TRUE
           /\ \E d \in IF chunk = 0 THEN {<<>>} ELSE {<<chunk>> \o q : q \in Tails} :
                /\ i' = Num(d, Len(d)) /\ t' = [j \in 1..Len(d) |-> Tok[d[j]]] /\ Load(t', GenInput, Fuel)
Run == Loaded /\ w.status # "malformed" /\ Step /\ UNCHANGED <<chunk, i, t, gen, done>>
Ends == w.status = "malformed" \/ Finished
OpRec(x) == [op |-> x.op, v |-> IF Entry(x.op).arg = "num" /\ Len(x.bits) <= MaxBits THEN NumVal(x.bits) ELSE 0]
Emit == /\ Loaded /\ Ends /\ ~done /\ done' = TRUE /\ UNCHANGED <<w, chunk, i, t, gen>>
        /\ LET P == Parse(t) IN
           JsonSerialize(IOEnv.OBS_DIR \o "/" \o (IF gen THEN "g" ELSE "c") \o "_" \o ToString(i) \o ".json",
              [gen |-> gen, i |-> i, toks |-> t, inp |-> w.inp, ok |-> P.ok, unspec |-> P.unspec, why |-> P.why,
               ops |-> [j \in 1..Len(P.ins) |-> OpRec(P.ins[j])], last |-> IF P.ok THEN w.last ELSE "none",
               obs |-> IF P.ok THEN Obs ELSE [status |-> "none", why |-> "", out |-> <<>>, nin |-> 0, steps |-> 0]])
RNext == PickChunk \/ LoadCase \/ LoadGen \/ Run \/ Emit
RTypeOK == (Loaded /\ w.status # "malformed") => TypeOK
=============================================================================
