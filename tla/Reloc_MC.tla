------------------------------ MODULE Reloc_MC ------------------------------
(* Idiom M for Reloc.tla: the definitions are checked against each other on  *)
(* every field pattern of the small fields (<= 13 bits) and on boundary      *)
(* patterns of the large ones:                                               *)
(*  DecodeFits     every pattern a field can hold decodes to an address that *)
(*                 Representable accepts, and FieldOK accepts the pattern    *)
(*                 for exactly that address                                  *)
(*  OnlyOne        no other displacement within +-Window of the decoded one  *)
(*                 is accepted for the same bytes                            *)
(*  RangeCount     (small pc-relative fields) the number of displacements    *)
(*                 Representable accepts in a window around the whole range  *)
(*                 is exactly the number of field patterns                   *)
(*  SplitPair      %hi/%lo: (hi << 12) + SignExtend(lo) = v (mod 2^32)        *)
EXTENDS Reloc, TLC, FiniteSets

CONSTANTS MaxBits,        \* fields up to this many bits are enumerated exhaustively
          Window
Types == {<<"x86_64", "rel32">>, <<"x86_64", "abs32">>, <<"x86_64", "abs64">>, <<"x86_64", "jmp8">>,
          <<"x86_64", "absaddr16">>, <<"x86_64", "absaddr32">>, <<"x86_64", "absaddr64">>,
          <<"riscv", "b_imm12">>, <<"riscv", "b_imm20">>,
          <<"arm", "imm24">>, <<"arm", "ldr_imm12">>, <<"arm", "adr_imm12">>,
          <<"thumb", "lit8">>, <<"thumb", "wrap_new11">>, <<"thumb", "rel8">>, <<"thumb", "bl_imm11">>,
          <<"thumb", "b_imm11_imm6">>}
\* the site bits a pattern occupies (for the Thumb-2 BL the three bits S, J2, J1 as well)
Slots(a, t) == LET pos == ImmPos(a, t) IN
    SelectSeq(pos, LAMBDA p : p >= 0) \o (CASE t = "ldr_imm12" -> <<23>> [] t = "adr_imm12" -> <<23>>
                                            [] t = "bl_imm11" -> <<10, 27, 29>> [] OTHER -> <<>>)
NSlots(a, t) == Len(Slots(a, t))
\* site bytes holding pattern v (a natural number < 2^NSlots, or a boundary pattern given as bits)
BitOfNat(v, k) == (v \div P2(k)) % 2
SiteOfBits(a, t, bits) ==
    LET sl == Slots(a, t)
        bitAt(p) == IF \E k \in 1..Len(sl) : sl[k] = p THEN bits[CHOOSE k \in 1..Len(sl) : sl[k] = p]
                    ELSE IF t = "adr_imm12" /\ p = 22 THEN 1 - bits[13]        \* ADD xor SUB
                    ELSE 0 IN
    Mk([j \in 1..RelSize(t) |-> bitAt(8 * (j - 1)) + 2 * bitAt(8 * (j - 1) + 1) + 4 * bitAt(8 * (j - 1) + 2)
        + 8 * bitAt(8 * (j - 1) + 3) + 16 * bitAt(8 * (j - 1) + 4) + 32 * bitAt(8 * (j - 1) + 5)
        + 64 * bitAt(8 * (j - 1) + 6) + 128 * bitAt(8 * (j - 1) + 7)])
NatBits(v, n) == Mk([k \in 1..n |-> BitOfNat(v, k - 1)])
\* boundary patterns of an n-bit field
Boundary(n) == {Mk([k \in 1..n |-> 0]), Mk([k \in 1..n |-> 1]),
                Mk([k \in 1..n |-> IF k = n THEN 1 ELSE 0]), Mk([k \in 1..n |-> IF k = n THEN 0 ELSE 1]),
                Mk([k \in 1..n |-> IF k = 1 THEN 1 ELSE 0]), Mk([k \in 1..n |-> k % 2]),
                Mk([k \in 1..n |-> IF k >= n - 1 THEN 1 ELSE 0]), Mk([k \in 1..n |-> IF k = n - 1 THEN 1 ELSE 0])}
Patterns(a, t) == IF NSlots(a, t) <= MaxBits THEN {NatBits(v, NSlots(a, t)) : v \in 0..(P2(NSlots(a, t)) - 1)}
                  ELSE Boundary(NSlots(a, t))
Bases == {W(4096), W(4098), W(1048580)}

VARIABLES ty, pat, pw, mode
vars == <<ty, pat, pw, mode>>
Init == ty = <<"", "">> /\ pat = <<>> /\ pw = WZ /\ mode = "idle"
PickType == mode = "idle" /\ ty' \in Types /\ mode' = "type" /\ UNCHANGED <<pat, pw>>
PickPattern == /\ mode = "type" /\ pat' \in Patterns(ty[1], ty[2]) /\ pw' \in Bases /\ mode' = "pattern"
               /\ UNCHANGED ty
Count == mode = "type" /\ mode' = "count" /\ UNCHANGED <<ty, pat, pw>>
Pair == mode = "idle" /\ mode' = "pair" /\ ty' = <<"riscv", "abs32_imm20">> /\ pat' \in Boundary(32) /\ UNCHANGED pw
Next == PickType \/ PickPattern \/ Count \/ Pair

Site == SiteOfBits(ty[1], ty[2], pat)
Addr == Designates(ty[1], ty[2], Site, pw)
DecodeFits == mode = "pattern" =>
    /\ Representable(ty[1], ty[2], Addr, WZ, pw)
    /\ FieldOK(ty[1], ty[2], Site, Addr, WZ, pw)
    /\ Preserved(ty[1], ty[2], WZero(RelSize(ty[2])), Site)      \* the pattern occupies field bits only
OnlyOne == mode = "pattern" =>
    \A e \in (-Window)..Window : e # 0 => ~FieldOK(ty[1], ty[2], Site, WAdd(Addr, W(e)), WZ, pw)
Small == {<<"x86_64", "jmp8">>, <<"riscv", "b_imm12">>, <<"thumb", "lit8">>, <<"thumb", "wrap_new11">>,
          <<"thumb", "rel8">>}
RangeCount == mode = "count" /\ ty \in Small =>
    LET n == NSlots(ty[1], ty[2])
        span == P2(Len(ImmPos(ty[1], ty[2])))
        p == W(1048576)
        b == Base(ty[1], ty[2], p) IN
    Cardinality({d \in (-span - 4)..(span + 4) : Representable(ty[1], ty[2], WAdd(b, W(d)), WZ, p)}) = P2(n)
SplitPair == mode = "pair" =>
    LET v == WOfBitsU(pat)
        hi == WShl(WOfBitsU(Hi20(v)), 12)
        lo == WOfBitsS(Lo12(v)) IN
    LowBits(WAdd(hi, lo), 32) = pat
=============================================================================
