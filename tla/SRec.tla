------------------------------- MODULE SRec -------------------------------
(* Motorola S-records (M68000 Family Programmer's Reference Manual,         *)
(* appendix C) written down as an independent reader:                       *)
(*                                                                          *)
(*   record ::= 'S' type(1 digit) count(1) address(2|3|4) data checksum(1)  *)
(*              count, address, data, checksum as hexadecimal digit pairs;  *)
(*              count = number of bytes that follow it;                     *)
(*              checksum = one's complement of the low byte of the sum of   *)
(*              count, address and data bytes                               *)
(*   S0 header (text, not memory contents)                                  *)
(*   S1 / S2 / S3 data with a 2 / 3 / 4 byte address                        *)
(*   S5 / S6 number of data records so far (2 / 3 byte value)               *)
(*   S9 / S8 / S7 termination with a 2 / 3 / 4 byte start address           *)
(*   S4 is reserved.                                                        *)
(*   Byte i of a data record lives at address + i.                          *)
(*                                                                          *)
(* As in IHex.tla there is a streaming reader (state rd, one Rd.. step per  *)
(* record, compared against the expected code on the fly), a declarative    *)
(* decoder (Decoded...), and a reference encoder that picks the narrowest   *)
(* record type able to hold every address.                                  *)
(*                                                                          *)
(* Addresses are pairs <<hi, lo>>, lo < LoMod.  Real format: LoMod = 65536, *)
(* S1 addresses have hi = 0, S2 hi < H2 = 256, S3 hi < H3 = 65536.  The     *)
(* model scales these down.                                                 *)
EXTENDS IHexText
CONSTANTS LoMod, H2, H3

Top == <<H3, 0>>
DataTypes == {1, 2, 3}
CountTypes == {5, 6}
TermTypes == {7, 8, 9}
AddrSize(t) == CASE t \in {0, 1, 5, 9} -> 2
                 [] t \in {2, 6, 8}    -> 3
                 [] t \in {3, 7}       -> 4
                 [] OTHER              -> 0          \* S4 and non-digits: no such record
HiLimit(t) == CASE AddrSize(t) = 2 -> 1 [] AddrSize(t) = 3 -> H2 [] OTHER -> H3

\* ------------------------------------------------------------ one record
AddrOf(b, asz) == CASE asz = 2 -> <<0, 256 * b[2] + b[3]>>
                    [] asz = 3 -> <<b[2], 256 * b[3] + b[4]>>
                    [] asz = 4 -> <<256 * b[2] + b[3], 256 * b[4] + b[5]>>
LengthOK(b, asz) == asz > 0 /\ Len(b) = b[1] + 1 /\ b[1] >= asz + 1
ChecksumOK(b) == Sum(b) % 256 = 255
KindOK(t, a, d) == /\ a[2] < LoMod /\ a[1] < HiLimit(t)
                   /\ (t \in CountTypes \cup TermTypes => d = <<>>)
                   /\ (t \in DataTypes => AddrLe(AddrPlus(a, Len(d), LoMod), Top))
NoParse == [ok |-> FALSE, typ |-> -1, count |-> 0, addr |-> <<0, 0>>, data |-> <<>>, wf |-> FALSE]
Parse(line) ==
    LET dg == Digits(line, 3) IN
    IF Len(line) >= 4 /\ line[1] = 83 /\ line[2] \in 48..57 /\ AreHexPairs(dg)
    THEN LET b == DigitsToBytes(dg)
             t == line[2] - 48
             asz == AddrSize(t)
         IN IF LengthOK(b, asz)
            THEN LET a == AddrOf(b, asz)
                     d == SubSeq(b, 2 + asz, Len(b) - 1)
                 IN [ok |-> TRUE, typ |-> t, count |-> b[1], addr |-> a, data |-> d,
                     wf |-> ChecksumOK(b) /\ KindOK(t, a, d)]
            ELSE [ok |-> TRUE, typ |-> t, count |-> b[1], addr |-> <<0, 0>>, data |-> <<>>, wf |-> FALSE]
    ELSE NoParse
WellFormed(p) == p.wf
Parsed(lines) == [k \in 1..Len(lines) |-> Parse(lines[k])]
CountValue(p) == p.addr[1] * LoMod + p.addr[2]

\* ------------------------------------------------------ streaming reader
RdInit == [cov |-> <<>>, nrec |-> 0, nhdr |-> 0, hdr |-> <<>>, term |-> FALSE, ttyp |-> 0, entry |-> <<0, 0>>, widest |-> 0,
           nbad |-> 0, nforeign |-> 0, ndup |-> 0, nafter |-> 0, ncount |-> 0, ev |-> "init"]
Ev(n, name) == IF n < 3 THEN name ELSE "more"
RdAfterTerm(rd) == [rd EXCEPT !.nafter = @ + 1, !.ev = Ev(rd.nafter, "after")]
RdBad(rd)       == [rd EXCEPT !.nbad = @ + 1, !.ev = Ev(rd.nbad, "bad")]
\* header text is not memory contents; hdr collects the text of the S0 records
RdHeader(rd, p) == [rd EXCEPT !.nhdr = @ + 1, !.hdr = @ \o p.data, !.ev = "ok"]
\* the longest data field of a record of type t: the count byte (<= 255) also
\* counts the address and the checksum
MaxData(t) == 255 - AddrSize(t) - 1
\* exp: the expected code as a sequence of 0 or 1 regions
RdData(rd, p, exp) ==
    LET r == Reg(p.addr, p.data)
        base == [rd EXCEPT !.nrec = @ + 1, !.widest = IF p.typ > @ THEN p.typ ELSE @]
    IN IF Len(p.data) = 0 THEN [base EXCEPT !.ev = "ok"]
       ELSE IF ~PieceMatches(r, exp, LoMod) THEN [base EXCEPT !.nforeign = @ + 1, !.ev = Ev(rd.nforeign, "foreign")]
       ELSE IF CovOverlaps(rd.cov, A(r), RegEnd(r, LoMod)) THEN [base EXCEPT !.ndup = @ + 1, !.ev = Ev(rd.ndup, "dup")]
       ELSE [base EXCEPT !.cov = CovAdd(rd.cov, A(r), RegEnd(r, LoMod)), !.ev = "ok"]
RdCount(rd, p) == IF CountValue(p) = rd.nrec THEN [rd EXCEPT !.ev = "ok"]
                  ELSE [rd EXCEPT !.ncount = @ + 1, !.ev = Ev(rd.ncount, "count")]
RdTerm(rd, p)  == [rd EXCEPT !.term = TRUE, !.ttyp = p.typ, !.entry = p.addr, !.ev = "ok"]
RdStep(rd, p, exp) ==
    IF rd.term THEN RdAfterTerm(rd)
    ELSE IF ~WellFormed(p) THEN RdBad(rd)
    ELSE CASE p.typ = 0           -> RdHeader(rd, p)
           [] p.typ \in DataTypes  -> RdData(rd, p, exp)
           [] p.typ \in CountTypes -> RdCount(rd, p)
           [] p.typ \in TermTypes  -> RdTerm(rd, p)
RECURSIVE RunFrom(_, _, _, _)
RunFrom(rd, P, k, exp) == IF k > Len(P) THEN rd ELSE RunFrom(RdStep(rd, P[k], exp), P, k + 1, exp)
RunP(P, exp) == RunFrom(RdInit, P, 1, exp)

Clean(rd) == rd.nbad = 0 /\ rd.nforeign = 0 /\ rd.ndup = 0 /\ rd.nafter = 0 /\ rd.ncount = 0
CoveredExactly(rd, exp) == rd.cov = CovOfRegions(exp, LoMod)
\* the file is a conforming image of the code
Accepts(rd, exp) == Clean(rd) /\ rd.term /\ CoveredExactly(rd, exp)
\* the expected code of an object: nothing, or one region
ExpOf(base, code) == IF code = <<>> THEN <<>> ELSE <<Reg(base, code)>>

\* --------------------------------------------------- declarative decoder
SetMin(S) == CHOOSE j \in S : \A m \in S : j <= m
TermAt(P) == LET S == {k \in 1..Len(P) : WellFormed(P[k]) /\ P[k].typ \in TermTypes}
             IN IF S = {} THEN Len(P) + 1 ELSE SetMin(S)
DataLines(P) == {k \in 1..(TermAt(P) - 1) : WellFormed(P[k]) /\ P[k].typ \in DataTypes}
DecodedCells(P) == UNION {CellsOfRegion(Reg(P[k].addr, P[k].data), LoMod) : k \in DataLines(P)}
DecodedBytes(P) == LET D == DataLines(P) IN Sum([k \in 1..Len(P) |-> IF k \in D THEN Len(P[k].data) ELSE 0])
DecodesExactly(P, exp) == DecodedCells(P) = Cells(exp, LoMod) /\ DecodedBytes(P) = Bytes(exp)
AllWellFormed(P) == \A k \in 1..Len(P) : WellFormed(P[k])
CountsOK(P) == \A k \in 1..(TermAt(P) - 1) :
                   (WellFormed(P[k]) /\ P[k].typ \in CountTypes) =>
                       CountValue(P[k]) = Cardinality({j \in 1..(k - 1) : WellFormed(P[j]) /\ P[j].typ \in DataTypes})
DeclAccepts(P, exp) == AllWellFormed(P) /\ TermAt(P) = Len(P) /\ CountsOK(P) /\ DecodesExactly(P, exp)
RECURSIVE PiecesFrom(_, _, _)
PiecesFrom(P, D, k) == IF k > Len(P) THEN <<>>
                       ELSE (IF k \in D /\ P[k].data # <<>> THEN <<Reg(P[k].addr, P[k].data)>> ELSE <<>>) \o PiecesFrom(P, D, k + 1)
DecodedRegions(P) == Merge(PiecesFrom(P, DataLines(P), 1), LoMod)
\* header text of the file: the data of its S0 records
HeaderTexts(P) == {P[k].data : k \in {j \in 1..Len(P) : WellFormed(P[j]) /\ P[j].typ = 0}}

\* ----------------------------------------------------- reference encoder
\* narrowest data record type whose address field holds every address below `e`
TypeFor(e) == IF AddrLe(e, <<1, 0>>) THEN 1 ELSE IF AddrLe(e, <<H2, 0>>) THEN 2 ELSE 3
TermFor(t) == 10 - t                              \* S1 -> S9, S2 -> S8, S3 -> S7
AddrBytes(t, a) == CASE AddrSize(t) = 2 -> <<a[2] \div 256, a[2] % 256>>
                     [] AddrSize(t) = 3 -> <<a[1], a[2] \div 256, a[2] % 256>>
                     [] AddrSize(t) = 4 -> <<a[1] \div 256, a[1] % 256, a[2] \div 256, a[2] % 256>>
SLine(t, a, d, upper) == LET body == <<AddrSize(t) + Len(d) + 1>> \o AddrBytes(t, a) \o d
                         IN <<83, 48 + t>> \o HexOfBytes(body \o <<255 - (Sum(body) % 256)>>, upper)
RECURSIVE EncData(_, _, _, _, _)
EncData(t, a, d, ch, upper) ==
    IF d = <<>> THEN <<>>
    ELSE LET n == IF ch < Len(d) THEN ch ELSE Len(d)
         IN <<SLine(t, a, SubSeq(d, 1, n), upper)>> \o EncData(t, AddrPlus(a, n, LoMod), SubSeq(d, n + 1, Len(d)), ch, upper)
\* the record count goes into an S5 record if it fits, else into an S6 record
CountLine(n, upper) == IF n < LoMod THEN <<SLine(5, <<0, n>>, <<>>, upper)>>
                       ELSE IF n \div LoMod < H2 THEN <<SLine(6, <<n \div LoMod, n % LoMod>>, <<>>, upper)>>
                       ELSE <<>>
\* opt = [ch, hdr (bytes of an S0 record, <<>> = none), cnt (emit S5), wide (use S3/S7 regardless), upper]
Encode(base, code, opt) ==
    LET t == IF opt.wide THEN 3 ELSE TypeFor(AddrPlus(base, Len(code), LoMod))
        body == EncData(t, base, code, opt.ch, opt.upper)
    IN (IF opt.hdr # <<>> THEN <<SLine(0, <<0, 0>>, opt.hdr, opt.upper)>> ELSE <<>>)
       \o body
       \o (IF opt.cnt THEN CountLine(Len(body), opt.upper) ELSE <<>>)
       \o <<SLine(TermFor(t), <<0, 0>>, <<>>, opt.upper)>>
=============================================================================
