------------------------------- MODULE Dis_Ref -------------------------------
(* X18, the clause that needs an architecture reference: the text printed by *)
(* the decoded instruction means the decoded bytes.  One state per record    *)
(* observed on the real ppci code: orig = the text of the encoded instance,  *)
(* dec = the text of what its class's decode returned, both tokenised by     *)
(* harness/riscgen.py and both with the same bytes.  The reference decoders  *)
(* and assembly readers are Mips.tla / Or1k.tla / MicroBlaze.tla (through    *)
(* their *_Eval modules, as in Risc3_Eval.tla).                              *)
(*                                                                           *)
(* The clause is relative: only where the reference reads the encoded        *)
(* instance's own text as an in-range statement with exactly the meaning of  *)
(* the bytes (what C08 asks of the encoder) is the decoded text asked to be  *)
(* one too.                                                                  *)
EXTENDS Integers, Sequences, TLC, Json, IOUtils

Recs == JsonDeserialize(IOEnv.TRACE_FILE)
Mi == INSTANCE Mips_Eval
Or == INSTANCE Or1k_Eval
Mb == INSTANCE MicroBlaze_Eval

ChunkLen == 16
NChunks == (Len(Recs) + ChunkLen - 1) \div ChunkLen
VARIABLES chunk, i
vars == <<chunk, i>>
Init == chunk = 0 /\ i = 0
PickChunk == chunk = 0 /\ chunk' \in 1..NChunks /\ i' = 0
PickRec == chunk > 0 /\ i = 0 /\ chunk' = chunk
           /\ i' \in ((chunk - 1) * ChunkLen + 1)..(IF chunk * ChunkLen < Len(Recs) THEN chunk * ChunkLen ELSE Len(Recs))
Next == PickChunk \/ PickRec

\* r's text is an in-range statement of the architecture's assembly whose meaning is the bytes
MiMeans(r) == \E a \in {Mi!AsmOf(r)} : a # Mi!NoAsm /\ Mi!ImmWF(a) /\ Mi!Core(Mi!Decode(r.out.bytes)) = Mi!Core(a)
OrMeans(r) == \E a \in {Or!AsmOf(r)} : a # Or!NoAsm /\ Or!ImmWF(a) /\ Or!Core(Or!Decode(r.out.bytes)) = Or!Core(a)
MbMeans(r) == \E a \in {Mb!AsmOf(r)} : a # Mb!NoAsm /\ Mb!ImmWF(a) /\ Mb!Core(Mb!Decode(r.out.bytes)) = Mb!Core(a)
Means(r) == CASE r.isa = "mips" -> MiMeans(r) [] r.isa = "or1k" -> OrMeans(r) [] r.isa = "microblaze" -> MbMeans(r)

DecodedMeansBytes == i > 0 => (Means(Recs[i].orig) => Means(Recs[i].dec))
=============================================================================
