--------------------------- MODULE Determinism_MC ---------------------------
(* Idiom M: the history invariant of Determinism.tla is the right one.        *)
(* A compiler is ANY function Comp : Keys x Envs -> Digests (chosen in Init:  *)
(* all of them are explored); processes compile keys in environments in any   *)
(* order and append to the history.  Checked in every reachable state:        *)
(*   Sound     if Comp does not depend on the environment, the incremental    *)
(*             invariant of the trace machine never fails;                    *)
(*   Agrees    the incremental invariant (first digest per key) holds along   *)
(*             the whole history iff the history has one digest per key;      *)
(*   Complete  once every (key, env) pair has been compiled, one digest per   *)
(*             key holds iff Comp is environment independent.                 *)
EXTENDS Determinism, FiniteSets

CONSTANTS Keys, Envs, Digests, MaxLen

VARIABLES comp, hist, seen, okSoFar
Init == /\ comp \in [Keys \X Envs -> Digests] /\ hist = <<>> /\ seen = [k \in {} |-> ""] /\ okSoFar = TRUE
Compile(k, e) ==
    LET ev == [key |-> k, env |-> e, digest |-> comp[<<k, e>>]] IN
    /\ Len(hist) < MaxLen
    /\ hist' = Append(hist, ev)
    /\ seen' = Record(seen, ev)
    /\ okSoFar' = (okSoFar /\ First(Record(seen, ev), k) = ev.digest)
    /\ UNCHANGED comp
Next == \E k \in Keys : \E e \in Envs : Compile(k, e)

EnvIndependent == \A k \in Keys : \A e1 \in Envs : \A e2 \in Envs : comp[<<k, e1>>] = comp[<<k, e2>>]
Covered == \A k \in Keys : \A e \in Envs : \E a \in 1..Len(hist) : hist[a].key = k /\ hist[a].env = e

Sound    == EnvIndependent => okSoFar
Agrees   == okSoFar <=> OneDigestPerKey(hist)
Complete == Covered => (OneDigestPerKey(hist) <=> EnvIndependent)
=============================================================================
