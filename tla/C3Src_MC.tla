------------------------------ MODULE C3Src_MC ------------------------------
(* Idiom M for C3Src.tla: the specification checked by itself.                  *)
(*                                                                             *)
(* (1) Laws of the definitions, exhaustively over all 64 pairs of integer types *)
(*     and a boundary set of values per type (state variable `lw`):             *)
(*     the common type and the implicit-conversion relation against the         *)
(*     documented examples and their structural properties; implicit            *)
(*     conversions against an exact 9-byte embedding (they never change the     *)
(*     value, except signed -> unsigned which is modulo 2^N); casts against     *)
(*     integer arithmetic; + - * / % << >> comparisons and unary minus on 8 /   *)
(*     16-bit common types against TLC integer arithmetic wrapped to the type;  *)
(*     32-bit against 64-bit arithmetic (results are the wide results modulo    *)
(*     2^32); algebraic laws of 64-bit arithmetic.                              *)
(* (2) Hand-written micro programs (TRACE_FILE, written by engines/c37.py)      *)
(*     whose outcomes were derived by hand from the rules D1-D9 of C3Src.tla    *)
(*     (and confirmed with gcc -fwrapv on the C rendering): every behaviour     *)
(*     must end with the expected status / value / globals; in every running    *)
(*     state exactly one action of C3Src is enabled (determinism and progress); *)
(*     no execution gets stuck.                                                 *)
EXTENDS C3Src

CONSTANT NV          \* number of boundary values per type used for the laws (<= 13; the first 4 are 0, 1, -1 / max, min / top bit)
VARIABLE lw          \* <<>> or a law instance [ta, tb, x, y]

(* ---- boundary values ----------------------------------------------------------- *)
Narrow == {"i8", "u8", "i16", "u16"}
Lo(t) == CASE t = "i8" -> -128 [] t = "i16" -> -32768 [] t = "i32" -> -2147483647 - 1 [] OTHER -> 0
Hi(t) == CASE t = "i8" -> 127 [] t = "u8" -> 255 [] t = "i16" -> 32767 [] t = "u16" -> 65535 [] t = "i32" -> 2147483647
Ints(t) == CASE t = "i8" -> <<0, 1, -1, -128, 127, 7, 100, 2, 126, -2, -7, -127, 64>>
             [] t = "u8" -> <<0, 1, 255, 128, 127, 7, 31, 2, 100, 129, 200, 254, 32>>
             [] t = "i16" -> <<0, 1, -1, -32768, 32767, 7, 255, 2, 256, 32766, -2, -32767, 181>>
             [] t = "u16" -> <<0, 1, 65535, 32768, 46341, 7, 31, 2, 255, 256, 32767, 65534, 32>>
             [] t = "i32" -> <<0, 1, -1, -2147483647 - 1, 2147483647, 46341, 7, 2, 65536, 46340, 2147483646, -2, -2147483647>>
FromInt(v, n) == IF v >= 0 THEN WFromNat(v, n) ELSE WNot(WFromNat(-(v + 1), n))     \* also for -2^31
W4(b) == <<b[1], b[2], b[3], b[4]>>
BV(t) == IF t \in Narrow \cup {"i32"} THEN [k \in 1..13 |-> FromInt(Ints(t)[k], Size(t))]
         ELSE IF t = "u32" THEN <<WZero(4), WOne(4), WOnes(4), <<0, 0, 0, 128>>, WFromNat(65536, 4), WFromNat(7, 4), WFromNat(31, 4),
                                  WFromNat(2, 4), WFromNat(65535, 4), WFromNat(2147483647, 4), <<1, 0, 0, 128>>,
                                  <<254, 255, 255, 255>>, WFromNat(32, 4)>>
         ELSE IF t = "i64" THEN <<WZero(8), WOne(8), FromInt(-1, 8), <<0, 0, 0, 0, 0, 0, 0, 128>>,
                                  <<255, 255, 255, 255, 255, 255, 255, 127>>, <<0, 0, 0, 128, 0, 0, 0, 0>>, FromInt(-2147483647 - 1, 8),
                                  WFromNat(2, 8), FromInt(-2, 8), WFromNat(2147483647, 8), <<0, 0, 0, 0, 1, 0, 0, 0>>,
                                  <<1, 0, 0, 0, 0, 0, 0, 128>>, WFromNat(63, 8)>>
         ELSE <<WZero(8), WOne(8), WOnes(8), <<0, 0, 0, 0, 0, 0, 0, 128>>, <<0, 0, 0, 0, 1, 0, 0, 0>>, WFromNat(7, 8),
                <<0, 0, 0, 128, 0, 0, 0, 0>>, WFromNat(2, 8), WFromNat(2147483647, 8), <<255, 255, 255, 255, 0, 0, 0, 0>>,
                <<255, 255, 255, 255, 255, 255, 255, 127>>, <<254, 255, 255, 255, 255, 255, 255, 255>>, WFromNat(64, 8)>>

HasLaw == lw # <<>>
ta == lw.ta
tb == lw.tb
X == BV(ta)[lw.x]
Y == BV(tb)[lw.y]
xi == Ints(ta)[lw.x]            \* only for ta \in Narrow \cup {"i32"}
yi == Ints(tb)[lw.y]
VX == IV(ta, X)
VY == IV(tb, Y)

Mod(a, m) == ((a % m) + m) % m
Abs(a) == IF a < 0 THEN -a ELSE a
TDiv(a, b) == IF (a >= 0) = (b >= 0) THEN Abs(a) \div Abs(b) ELSE -(Abs(a) \div Abs(b))
TRem(a, b) == a - b * TDiv(a, b)
\* two's complement wrap-around of the integer n into the 8 / 16-bit type t
Range(t) == IF Size(t) = 1 THEN 256 ELSE 65536
Wrap(n, t) == LET m == Mod(n, Range(t)) IN IF IsSigned(t) /\ m >= Range(t) \div 2 THEN m - Range(t) ELSE m
NV_(t, n) == IV(t, FromInt(Wrap(n, t), Size(t)))

(* ---- typing (D2, D3) --------------------------------------------------------------- *)
CT == CommonType(ta, tb)
Allowed == CT # "none" /\ CanCoerce(ta, CT) /\ CanCoerce(tb, CT)
LawTyping == HasLaw =>
    /\ CT = CommonType(tb, ta)
    /\ CT \in IntTypes
    /\ Size(CT) = MaxN(Size(ta), Size(tb))
    /\ IsSigned(CT) <=> (IsSigned(ta) \/ IsSigned(tb))
    /\ (ta = tb => CT = ta /\ Allowed)
    /\ CanCoerce(ta, ta)
    \* an allowed implicit conversion never loses a value, except signed -> unsigned
    /\ (CanCoerce(ta, tb) /\ ~(IsSigned(ta) /\ ~IsSigned(tb)) =>
          /\ Size(ta) <= Size(tb)
          /\ (~IsSigned(ta) /\ IsSigned(tb) => Size(ta) < Size(tb)))
    /\ (IsSigned(ta) /\ ~IsSigned(tb) => CanCoerce(ta, tb))
    \* the operands of an allowed binary operation are converted without loss
    /\ (Allowed => ~(IsSigned(ta) /\ ~IsSigned(CT)) /\ ~(IsSigned(tb) /\ ~IsSigned(CT)))
\* the examples documented in Context.get_common_type / TypeChecker.do_coerce
LawExamples ==
    /\ CommonType("u8", "u8") = "u8" /\ CommonType("u8", "i32") = "i32" /\ CommonType("i8", "u16") = "i16"
    /\ CommonType("u32", "i8") = "i32" /\ CommonType("u64", "i8") = "i64" /\ CommonType("bool", "bool") = "bool"
    /\ CommonType("bool", "i32") = "none"
    /\ CanCoerce("u8", "i16") /\ ~CanCoerce("u8", "i8") /\ ~CanCoerce("u32", "i32") /\ CanCoerce("u16", "i32")
    /\ ~CanCoerce("i32", "i16") /\ CanCoerce("i8", "u64") /\ ~CanCoerce("u16", "u8") /\ CanCoerce("i32", "u8")
    /\ CanCoerce("bool", "bool") /\ ~CanCoerce("bool", "i32") /\ ~CanCoerce("i32", "bool") /\ CanCoerce("u32", "i64")

(* ---- conversions (D4) ---------------------------------------------------------------- *)
Embed(t, w) == WResize(w, 9, IsSigned(t))      \* exact value of any 64-bit-or-smaller integer as a 9-byte signed word
LawCoerce == HasLaw =>
    LET c == Coerce(VX, tb) IN
    /\ c.st = "ok" <=> CanCoerce(ta, tb)
    /\ (c.st # "ok" => c.st = "stuck")
    /\ (c.st = "ok" => c.v.ty = tb /\ Len(c.v.w) = Size(tb))
    /\ (c.st = "ok" /\ ~(IsSigned(ta) /\ ~IsSigned(tb)) => Embed(tb, c.v.w) = Embed(ta, X))          \* value preserved
    /\ (c.st = "ok" /\ IsSigned(ta) /\ ~IsSigned(tb) =>
          c.v.w = SubSeq(WResize(X, 8, TRUE), 1, Size(tb)))                                           \* modulo 2^N
LawCast == HasLaw =>
    LET c == CastTo(VX, tb) IN
    /\ c.st = "ok" /\ c.v.ty = tb /\ Len(c.v.w) = Size(tb)
    /\ (Size(tb) <= Size(ta) => c.v.w = SubSeq(X, 1, Size(tb)))                  \* modulo 2^N = low bytes
    /\ (Size(tb) >= Size(ta) => Embed(ta, SubSeq(c.v.w, 1, Size(ta))) = Embed(ta, X)
                                /\ c.v.w = SubSeq(Embed(ta, X), 1, Size(tb)))     \* sign / zero extension by the source type
    /\ (CanCoerce(ta, tb) => Coerce(VX, tb) = c)                                  \* an implicit conversion is the cast
LawCastInt == (HasLaw /\ ta \in Narrow \cup {"i32"} /\ tb \in Narrow) =>
    CastTo(VX, tb) = OkV(NV_(tb, xi))

(* ---- operators on 8 / 16-bit common types against integer arithmetic (D2, D5) -------- *)
NarrowPair == HasLaw /\ ta \in Narrow /\ tb \in Narrow
R(op) == Arith(op, VX, VY)
MulFits == xi = 0 \/ yi = 0 \/ Abs(xi) <= 2147483647 \div Abs(yi)
LawArithInt == (NarrowPair /\ Allowed) =>
    LET t == CT  bits == 8 * Size(CT) IN
    /\ R("+") = OkV(NV_(t, xi + yi))
    /\ R("-") = OkV(NV_(t, xi - yi))
    /\ (MulFits => R("*") = OkV(NV_(t, xi * yi)))       \* 65535 * 65535 does not fit TLC's integers
    /\ (yi = 0 => R("/").st = "undefined" /\ R("%").st = "undefined")
    /\ (yi # 0 /\ ~(IsSigned(t) /\ xi = Lo(t) /\ yi = -1) =>
            R("/") = OkV(NV_(t, TDiv(xi, yi))) /\ R("%") = OkV(NV_(t, TRem(xi, yi))))
    /\ (IsSigned(t) /\ xi = Lo(t) /\ yi = -1 => R("/").st = "undefined" /\ R("%").st = "undefined")
    /\ R("<") = OkV(BoolV(xi < yi)) /\ R("<=") = OkV(BoolV(xi <= yi))
    /\ R(">") = OkV(BoolV(xi > yi)) /\ R(">=") = OkV(BoolV(xi >= yi))
    /\ R("==") = OkV(BoolV(xi = yi)) /\ R("!=") = OkV(BoolV(xi # yi))
    /\ IF yi < 0 \/ yi >= bits THEN R("<<").st = "undefined" /\ R(">>").st = "undefined"
       ELSE /\ R("<<") = OkV(NV_(t, xi * P2(yi)))
            /\ IF xi < 0 THEN R(">>").st = "impldef" ELSE R(">>") = OkV(NV_(t, xi \div P2(yi)))
LawNotAllowed == (HasLaw /\ ~Allowed) => \A op \in ArithOps \cup CmpOps : Arith(op, VX, VY).st = "stuck"
LawUnary == HasLaw =>
    /\ Unary("-", VX) = OkV(IV(ta, WSub(WZero(Size(ta)), X)))
    /\ Unary("+", VX) = OkV(VX)
    /\ Unary("not", VX).st = "stuck"
    /\ (ta \in Narrow => Unary("-", VX) = OkV(NV_(ta, -xi)))

(* ---- 32-bit arithmetic against 64-bit arithmetic ---------------------------------- *)
Ext(t, w) == WResize(w, 8, IsSigned(t))
Wide(t) == IF IsSigned(t) THEN "i64" ELSE "u64"
LawWidth == (HasLaw /\ ta = tb /\ ta \in {"i32", "u32"}) =>
    \A op \in {"+", "-", "*", "/", "%", "&", "|", "^"} :
       LET r == Arith(op, VX, VY)
           rw == Arith(op, IV(Wide(ta), Ext(ta, X)), IV(Wide(ta), Ext(ta, Y)))
       IN IF op \in {"/", "%"} /\ WIsZero(Y) THEN r.st = "undefined" /\ rw.st = "undefined"
          ELSE IF op \in {"/", "%"} /\ ta = "i32" /\ WIsMin(X) /\ WIsMinusOne(Y) THEN r.st = "undefined" /\ rw.st = "ok"
          ELSE /\ rw.st = "ok" /\ r.st = "ok"
               /\ r.v = IV(ta, W4(rw.v.w))                       \* the 64-bit result reduced modulo 2^32
LawCmpWidth == (HasLaw /\ Allowed) =>
    \* the comparison of the exact values decides
    \A op \in CmpOps : Arith(op, VX, VY) = OkV(BoolV(CmpVal(op, Embed(ta, X), Embed(tb, Y), TRUE)))

(* ---- algebraic laws of 64-bit arithmetic --------------------------------------------- *)
Law64 == (HasLaw /\ ta = tb /\ ta \in {"i64", "u64"}) =>
    LET sg == IsSigned(ta) IN
    /\ Arith("+", VX, VY) = Arith("+", VY, VX) /\ Arith("*", VX, VY) = Arith("*", VY, VX)
    /\ Arith("-", Arith("+", VX, VY).v, VY) = OkV(VX)
    /\ Arith("*", VX, IV(ta, WOne(8))) = OkV(VX)
    /\ Arith("-", VX, VX) = OkV(IV(ta, WZero(8)))
    /\ (Arith("/", VX, VY).st = "ok" =>
           LET q == Arith("/", VX, VY).v.w  m == Arith("%", VX, VY).v.w IN
           /\ WAdd(WMul(q, Y), m) = X                                   \* (a/b)*b + a%b = a
           /\ (sg => WIsZero(m) \/ IsNegW(m) = IsNegW(X))                \* truncation toward zero
           /\ (sg => WLtU(WAbs(m), WAbs(Y)))
           /\ (~sg => WLtU(m, Y)))
    /\ (Arith("/", VX, VY).st # "ok" <=> (WIsZero(Y) \/ (sg /\ WIsMin(X) /\ WIsMinusOne(Y))))

(* ---- micro programs ---------------------------------------------------------------- *)
Exp == C.expect[av]
ExpectMet == (Finished /\ lw = <<>>) =>
    /\ status = Exp.status
    /\ (status = "ok" =>
          /\ ret = Exp.ret
          /\ \A j \in 1..Len(Exp.globals) :
               \E k \in 1..Len(Obs.globals) : Obs.globals[k] = Exp.globals[j])

ActionsEnabled ==
    {<<1, ENABLED Decl>>, <<2, ENABLED DeclArr>>, <<3, ENABLED Assign>>, <<4, ENABLED CallStmt>>, <<5, ENABLED If>>,
     <<6, ENABLED While>>, <<7, ENABLED For>>, <<8, ENABLED LoopTest>>, <<9, ENABLED Switch>>, <<10, ENABLED Return>>,
     <<11, ENABLED BlockEnd>>, <<12, ENABLED Unknown>>, <<13, ENABLED OutOfFuel>>}
Deterministic == Running => Cardinality({p \in ActionsEnabled : p[2]}) = 1

(* ---- driver --------------------------------------------------------------------------- *)
\* `acts`: the actions of C3Src.tla taken by the behaviour, written to <OBS_DIR>/<i>_<av>.json at its end
\* (read by the driver: every action must be taken by some micro program)
VARIABLES acts, done
ObsPath == IOEnv.OBS_DIR \o "/" \o ToString(i) \o "_" \o ToString(av) \o ".json"
MInit == Init /\ lw = <<>> /\ acts = {} /\ done = FALSE
PickLaw == /\ chunk = 0 /\ lw = <<>>
           /\ lw' \in [ta : IntTypes, tb : IntTypes, x : 1..NV, y : 1..NV]
           /\ chunk' = -1
           /\ UNCHANGED <<i, av, stack, mem, nfr, status, why, ret, steps, acts, done>>
T(name, A) == A /\ UNCHANGED <<chunk, i, av, lw, done>> /\ acts' = acts \cup {name}
Emit == /\ Finished /\ ~done /\ lw = <<>>
        /\ done' = TRUE
        /\ JsonSerialize(ObsPath, [i |-> i, av |-> av, acts |-> acts])
        /\ UNCHANGED vars /\ UNCHANGED <<lw, acts>>
MNext == \/ ((PickChunk \/ PickCase) /\ UNCHANGED <<lw, acts, done>>)
         \/ PickLaw
         \/ T("Decl", Decl) \/ T("DeclArr", DeclArr) \/ T("Assign", Assign) \/ T("CallStmt", CallStmt)
         \/ T("If", If) \/ T("While", While) \/ T("For", For) \/ T("LoopTest", LoopTest) \/ T("Switch", Switch)
         \/ T("Return", Return) \/ T("BlockEnd", BlockEnd) \/ T("Unknown", Unknown) \/ T("OutOfFuel", OutOfFuel)
         \/ Emit
=============================================================================
