-------------------------------- MODULE Wasm --------------------------------
(* Small-step operational semantics of integer WebAssembly as a TLA+ state    *)
(* machine, written from the WebAssembly core specification (execution        *)
(* chapter: numerics, instructions, modules/instantiation), independent of    *)
(* ppci.  One named action per instruction group.                             *)
(*                                                                            *)
(* A *case* is  [id, mods : Seq(module index), calls : Seq([fn, args]),       *)
(*               ext : Seq([name, rets : Seq(word)]), fuel : Nat,             *)
(*               obs : Seq(observation) (optional)]                           *)
(* The machine instantiates mods[1] (globals, table and element segments,     *)
(* memory and data segments, start function), then invokes the exported       *)
(* functions calls[1], calls[2], ... one after the other ON THE SAME          *)
(* INSTANCE, then does the same with mods[2], ...                             *)
(* After instantiation (call index 0) and after each call the observation is  *)
(*    Obs = [status (ok | trap), results, every global, non-zero memory       *)
(*           cells, memory size in pages, calls of imported functions].       *)
(* Properties:                                                                *)
(*   ObsPreserved   every later module yields, call by call, the observation  *)
(*                  of mods[1] (round trips: C21);                            *)
(*   Impl*          the recorded observation of a real engine executing the   *)
(*                  same module (ppci python / native target: C22; node on    *)
(*                  ppci's binary: C21) coincides with the specification's.   *)
(*                                                                            *)
(* Values are byte-limb words (Words.tla): i32 = 4 limbs, i64 = 8 limbs.      *)
(* A module is the JSON projection of harness/project_wasm.py (or the         *)
(* abstract module of harness/wasmgen.py, same schema); indices are the       *)
(* 0-based indices of the binary format.                                      *)
(* Floating point is outside the model: status "outofmodel".                  *)
EXTENDS Words, FiniteSets, TLC, Json, IOUtils

\* TRACE_FILE = [mods : Seq(module), cases : Seq(case)]; a case names its modules by index into mods
Input == JsonDeserialize(IOEnv.TRACE_FILE)
Cases == Input.cases
ModOf(c, p) == Input.mods[c.mods[p]]
NChunks == 64
PageSize == 65536
ModelMaxPages == 16      \* the model follows memories up to 1 MiB
HardMaxPages == 65536
MaxDepth == 48           \* call depth followed by the model

VARIABLES chunk,   \* fan-out helper
          i,       \* case under execution (0 = none yet)
          ph,      \* module of the case under execution
          ci,      \* call index: 0 = instantiation (+ start function), k = calls[k]
          stack,   \* activation frames, top = last
          mem,     \* linear memory: function  address -> byte  on the touched cells (others are 0)
          pages,   \* current size of the memory in pages (-1: module has no memory)
          glob,    \* values of the globals
          tab,     \* table 0: function index or -1 (null)
          calls,   \* calls of imported functions made during the current call
          status,  \* "idle" | "run" | "ok" | "trap" | "outofmodel" | "fuel" | "stuck" | "end"
          why,     \* trap message / reason
          ret,     \* results of the outermost activation
          steps,   \* instructions executed in the current call
          olog     \* observations of mods[1], one per call index (only when there are several mods)

vars == <<chunk, i, ph, ci, stack, mem, pages, glob, tab, calls, status, why, ret, steps, olog>>

C == Cases[i]
M == ModOf(C, ph)

IntT == {"i32", "i64"}
FloatT == {"f32", "f64"}
Width(t) == IF t \in {"i32", "f32"} THEN 4 ELSE 8
I32(n) == WFromInt(n, 4)
Bool32(b) == IF b THEN WOne(4) ELSE WZero(4)

(* ---- index spaces ------------------------------------------------------------- *)
FuncImports(m) == SelectSeq(m.imports, LAMBDA x : x.kind = "func")
NFI(m) == Len(FuncImports(m))
FTypeIdx(m, x) == IF x < NFI(m) THEN FuncImports(m)[x + 1].type ELSE m.funcs[x - NFI(m) + 1].type
FType(m, x) == m.types[FTypeIdx(m, x) + 1]
NFuncs(m) == NFI(m) + Len(m.funcs)
ExportIdx(m, kind, name) ==
    LET S == {k \in 1..Len(m.exports) : m.exports[k].kind = kind /\ m.exports[k].name = name}
    IN IF S = {} THEN -1 ELSE m.exports[CHOOSE k \in S : TRUE].idx

(* ---- block structure ------------------------------------------------------------ *)
\* from position k inside a block at nesting depth d: <<position of the block's else (0 if none),
\* position of its end>>
RECURSIVE Scan(_, _, _, _)
Scan(body, k, d, els) ==
    IF k > Len(body) THEN <<els, Len(body) + 1>>
    ELSE LET o == body[k].op IN
         IF o \in {"block", "loop", "if"} THEN Scan(body, k + 1, d + 1, els)
         ELSE IF o = "end" THEN (IF d = 0 THEN <<els, k>> ELSE Scan(body, k + 1, d - 1, els))
         ELSE IF o = "else" /\ d = 0 THEN Scan(body, k + 1, d, k)
         ELSE Scan(body, k + 1, d, els)

BtParams(m, bt) == IF bt.k = "idx" THEN m.types[bt.x + 1].params ELSE <<>>
BtResults(m, bt) == IF bt.k = "idx" THEN m.types[bt.x + 1].results
                    ELSE IF bt.k = "val" THEN <<bt.ty>> ELSE <<>>

(* ---- numerics ------------------------------------------------------------------------ *)
BinNames == {"add", "sub", "mul", "div_s", "div_u", "rem_s", "rem_u", "and", "or", "xor",
             "shl", "shr_s", "shr_u", "rotl", "rotr"}
CmpNames == {"eq", "ne", "lt_s", "lt_u", "gt_s", "gt_u", "le_s", "le_u", "ge_s", "ge_u"}
UnNames == {"clz", "ctz", "popcnt"}
ExtNames == {"extend8_s", "extend16_s", "extend32_s"}
LoadNames == {"load", "load8_s", "load8_u", "load16_s", "load16_u", "load32_s", "load32_u"}
StoreNames == {"store", "store8", "store16", "store32"}

\* shift / rotate count: the operand modulo the bit width (32 and 64 divide 256: the low limb decides)
ShAmt(b) == b[1] % (8 * Len(b))

RECURSIVE ClzR(_, _)
ClzR(x, k) == IF k < 0 THEN 0 ELSE IF Bit(x, k) = 1 THEN 0 ELSE 1 + ClzR(x, k - 1)
RECURSIVE CtzR(_, _)
CtzR(x, k) == IF k >= 8 * Len(x) THEN 0 ELSE IF Bit(x, k) = 1 THEN 0 ELSE 1 + CtzR(x, k + 1)
RECURSIVE PopR(_, _)
PopR(x, k) == IF k >= 8 * Len(x) THEN 0 ELSE Bit(x, k) + PopR(x, k + 1)
Clz(x) == ClzR(x, 8 * Len(x) - 1)
Ctz(x) == CtzR(x, 0)
Popcnt(x) == PopR(x, 0)

BinTrap(o, a, b) ==
    IF o \in {"div_s", "div_u", "rem_s", "rem_u"} /\ WIsZero(b) THEN "integer divide by zero"
    ELSE IF o = "div_s" /\ WIsMin(a) /\ WIsMinusOne(b) THEN "integer overflow"
    ELSE ""
BinVal(o, a, b) ==
    CASE o = "add" -> WAdd(a, b)
      [] o = "sub" -> WSub(a, b)
      [] o = "mul" -> WMul(a, b)
      [] o = "div_s" -> WDivS(a, b)
      [] o = "div_u" -> WDivModU(a, b)[1]
      [] o = "rem_s" -> WRemS(a, b)
      [] o = "rem_u" -> WDivModU(a, b)[2]
      [] o = "and" -> WAnd(a, b)
      [] o = "or" -> WOr(a, b)
      [] o = "xor" -> WXor(a, b)
      [] o = "shl" -> WShl(a, ShAmt(b))
      [] o = "shr_s" -> WShrA(a, ShAmt(b))
      [] o = "shr_u" -> WShrL(a, ShAmt(b))
      [] o = "rotl" -> WRol(a, ShAmt(b))
      [] o = "rotr" -> WRor(a, ShAmt(b))
CmpVal(o, a, b) ==
    CASE o = "eq" -> a = b
      [] o = "ne" -> a # b
      [] o = "lt_s" -> WLtS(a, b)
      [] o = "lt_u" -> WLtU(a, b)
      [] o = "gt_s" -> WLtS(b, a)
      [] o = "gt_u" -> WLtU(b, a)
      [] o = "le_s" -> ~WLtS(b, a)
      [] o = "le_u" -> ~WLtU(b, a)
      [] o = "ge_s" -> ~WLtS(a, b)
      [] o = "ge_u" -> ~WLtU(a, b)
UnVal(o, a) ==
    WFromNat(CASE o = "clz" -> Clz(a) [] o = "ctz" -> Ctz(a) [] o = "popcnt" -> Popcnt(a), Len(a))
ExtVal(o, a) ==
    LET n == CASE o = "extend8_s" -> 1 [] o = "extend16_s" -> 2 [] o = "extend32_s" -> 4
    IN WResize(SubSeq(a, 1, n), Len(a), TRUE)

\* memory access: number of bytes and signedness of the extension
AccBytes(t, o) == CASE o \in {"load", "store"} -> Width(t)
                    [] o \in {"load8_s", "load8_u", "store8"} -> 1
                    [] o \in {"load16_s", "load16_u", "store16"} -> 2
                    [] o \in {"load32_s", "load32_u", "store32"} -> 4
AccSigned(o) == o \in {"load8_s", "load16_s", "load32_s"}

(* ---- memory ----------------------------------------------------------------------------- *)
MemAt(mm, a) == IF a \in DOMAIN mm THEN mm[a] ELSE 0
ReadMem(mm, a, n) == Mk([j \in 1..n |-> MemAt(mm, a + j - 1)])
WriteMem(mm, a, bytes) ==
    IF Len(bytes) = 0 THEN mm
    ELSE [x \in (DOMAIN mm) \cup (a..(a + Len(bytes) - 1)) |->
             IF x >= a /\ x < a + Len(bytes) THEN bytes[x - a + 1] ELSE mm[x]]
\* effective address = base + offset as unbounded naturals (computed on 8 limbs); it is inside the
\* memory when ea + n <= pages * 64Ki
EffAddr(base, off) == WAdd(WResize(base, 8, FALSE), WResize(off, 8, FALSE))
InBounds(ea, n, pg) == WFitsNat(ea) /\ pg >= 0 /\ WToNat(ea) <= pg * PageSize - n

(* ---- instantiation -------------------------------------------------------------------------- *)
\* constant expression of a global initialiser / segment offset: a single t.const
IsConstExpr(e) == Len(e) = 1 /\ e[1].op \in {"i32.const", "i64.const"}
ConstVal(e) == e[1].v

RECURSIVE InitTab(_, _, _)
InitTab(m, k, acc) ==       \* acc = <<table, ok>>
    IF k > Len(m.elems) \/ ~acc[2] THEN acc
    ELSE LET e == m.elems[k] IN
         IF e.mode # "active" THEN InitTab(m, k + 1, acc)
         ELSE LET ow == ConstVal(e.offset)  n == Len(e.refs) IN
              IF ~WFitsNat(ow) \/ WToNat(ow) > Len(acc[1]) - n THEN <<acc[1], FALSE>>
              ELSE LET o == WToNat(ow) IN
                   InitTab(m, k + 1,
                           <<Mk([j \in 1..Len(acc[1]) |-> IF j > o /\ j <= o + n THEN e.refs[j - o] ELSE acc[1][j]]),
                             TRUE>>)

RECURSIVE InitMem(_, _, _, _)
InitMem(m, k, pg, acc) ==   \* acc = <<memory, ok>>
    IF k > Len(m.datas) \/ ~acc[2] THEN acc
    ELSE LET d == m.datas[k] IN
         IF d.mode # "active" THEN InitMem(m, k + 1, pg, acc)
         ELSE LET ea == WResize(ConstVal(d.offset), 8, FALSE) IN
              IF ~InBounds(ea, Len(d.bytes), pg) THEN <<acc[1], FALSE>>
              ELSE InitMem(m, k + 1, pg, <<WriteMem(acc[1], WToNat(ea), d.bytes), TRUE>>)

Supported(m) ==
    /\ \A k \in 1..Len(m.imports) : m.imports[k].kind = "func"
    /\ Len(m.mems) <= 1 /\ Len(m.tables) <= 1
    /\ \A k \in 1..Len(m.globals) : m.globals[k].ty \in IntT /\ IsConstExpr(m.globals[k].init)
    /\ \A k \in 1..Len(m.elems) : m.elems[k].mode = "active" => (m.elems[k].table = 0 /\ IsConstExpr(m.elems[k].offset))
    /\ \A k \in 1..Len(m.datas) : m.datas[k].mode = "active" => (m.datas[k].mem = 0 /\ IsConstExpr(m.datas[k].offset))
    /\ Len(m.mems) = 1 => m.mems[1].min <= ModelMaxPages

NewFrame(m, x, args) ==
    LET F == m.funcs[x - NFI(m) + 1] IN
    [f |-> x, pc |-> 1, vs |-> <<>>, lbl |-> <<>>,
     loc |-> args \o Mk([k \in 1..Len(F.locals) |-> WZero(Width(F.locals[k]))])]

\* results of the k-th call of the imported function `name` (zero when the stub table is shorter)
ExtRet(name, k, n) ==
    LET S == {j \in 1..Len(C.ext) : C.ext[j].name = name} IN
    IF S = {} THEN WZero(n)
    ELSE LET rets == C.ext[CHOOSE j \in S : TRUE].rets IN
         IF k <= Len(rets) THEN WResize(rets[k], n, FALSE) ELSE WZero(n)
CountCalls(name) == Cardinality({j \in 1..Len(calls) : calls[j].name = name})

\* begin the invocation of function x of module m with the given argument words
Invoke(m, x, args) ==
    LET T == FType(m, x) IN
    IF Len(args) # Len(T.params) \/ \E k \in 1..Len(args) : Len(args[k]) # Width(T.params[k])
    THEN status' = "stuck" /\ why' = "argument mismatch" /\ stack' = <<>>
    ELSE IF \E k \in 1..Len(T.params) : T.params[k] \in FloatT
    THEN status' = "outofmodel" /\ why' = "float parameter" /\ stack' = <<>>
    ELSE IF x < NFI(m)
    THEN status' = "outofmodel" /\ why' = "export of an import" /\ stack' = <<>>
    ELSE status' = "run" /\ why' = "" /\ stack' = <<NewFrame(m, x, args)>>

Instantiate(c, p) ==
    LET m == ModOf(c, p) IN
    /\ calls' = <<>> /\ ret' = <<>> /\ steps' = 0
    /\ IF ~Supported(m)
       THEN /\ status' = "outofmodel" /\ why' = "module outside the modelled feature set"
            /\ stack' = <<>> /\ mem' = <<>> /\ pages' = -1 /\ glob' = <<>> /\ tab' = <<>>
       ELSE LET g0 == Mk([k \in 1..Len(m.globals) |-> ConstVal(m.globals[k].init)])
                t0 == IF Len(m.tables) = 1 THEN Mk([k \in 1..m.tables[1].min |-> -1]) ELSE <<>>
                tr == InitTab(m, 1, <<t0, TRUE>>)
                pg == IF Len(m.mems) = 1 THEN m.mems[1].min ELSE -1
                mr == InitMem(m, 1, pg, <<<<>>, TRUE>>)
            IN /\ glob' = g0 /\ tab' = tr[1] /\ pages' = pg /\ mem' = mr[1]
               /\ IF ~tr[2] THEN status' = "trap" /\ why' = "out of bounds table access" /\ stack' = <<>>
                  ELSE IF ~mr[2] THEN status' = "trap" /\ why' = "out of bounds memory access" /\ stack' = <<>>
                  ELSE IF m.start >= 0 THEN Invoke(m, m.start, <<>>)
                  ELSE status' = "ok" /\ why' = "" /\ stack' = <<>>

(* ---- current instruction ----------------------------------------------------------------------- *)
Top == stack[Len(stack)]
F == M.funcs[Top.f - NFI(M) + 1]
Body == F.body
Running == i > 0 /\ status = "run" /\ steps < C.fuel
Keep == UNCHANGED <<chunk, i, ph, ci, olog>>      \* instructions do not touch the batch driver
HasIns == Top.pc <= Len(Body)
I == Body[Top.pc]
Is(ops) == Running /\ HasIns /\ I.op \in ops
IsTO(ts, os) == Running /\ HasIns /\ I.t \in ts /\ I.o \in os
VS == Top.vs
NV == Len(Top.vs)
V(k) == Top.vs[NV - k]            \* k-th value from the top (0 = top)

Halt(st, reason) ==
    /\ status' = st /\ why' = reason
    /\ steps' = steps + 1
    /\ UNCHANGED <<stack, mem, pages, glob, tab, calls, ret>>
Trap(reason) == Halt("trap", reason)
Stuck(reason) == Halt("stuck", reason)

\* replace the top n values by `pushed`, go to the next instruction
Step(n, pushed) ==
    /\ stack' = [stack EXCEPT ![Len(stack)] = [@ EXCEPT !.pc = @ + 1, !.vs = SubSeq(@, 1, Len(@) - n) \o pushed]]
    /\ steps' = steps + 1
    /\ UNCHANGED <<status, why, ret>>
Pure(n, pushed) == Step(n, pushed) /\ UNCHANGED <<mem, pages, glob, tab, calls>>
OfWidth(k, t) == Len(V(k)) = Width(t)

(* ---- numeric instructions ---------------------------------------------------------------------------- *)
Const ==
    /\ Is({"i32.const", "i64.const"})
    /\ Pure(0, <<I.v>>)
    /\ Keep

Binary ==
    /\ IsTO(IntT, BinNames)
    /\ IF NV < 2 \/ ~OfWidth(0, I.t) \/ ~OfWidth(1, I.t) THEN Stuck("operand stack")
       ELSE LET a == V(1)  b == V(0)  tr == BinTrap(I.o, a, b) IN
            IF tr # "" THEN Trap(tr) ELSE Pure(2, <<BinVal(I.o, a, b)>>)
    /\ Keep

Compare ==
    /\ IsTO(IntT, CmpNames)
    /\ IF NV < 2 \/ ~OfWidth(0, I.t) \/ ~OfWidth(1, I.t) THEN Stuck("operand stack")
       ELSE Pure(2, <<Bool32(CmpVal(I.o, V(1), V(0)))>>)
    /\ Keep

Unary ==
    /\ IsTO(IntT, UnNames \cup ExtNames \cup {"eqz"})
    /\ IF NV < 1 \/ ~OfWidth(0, I.t) \/ (I.t = "i32" /\ I.o = "extend32_s") THEN Stuck("operand stack")
       ELSE Pure(1, <<IF I.o = "eqz" THEN Bool32(WIsZero(V(0)))
                      ELSE IF I.o \in UnNames THEN UnVal(I.o, V(0))
                      ELSE ExtVal(I.o, V(0))>>)
    /\ Keep

Convert ==
    /\ Is({"i32.wrap_i64", "i64.extend_i32_s", "i64.extend_i32_u"})
    /\ LET src == IF I.op = "i32.wrap_i64" THEN 8 ELSE 4 IN
       IF NV < 1 \/ Len(V(0)) # src THEN Stuck("operand stack")
       ELSE Pure(1, <<CASE I.op = "i32.wrap_i64" -> SubSeq(V(0), 1, 4)
                        [] I.op = "i64.extend_i32_s" -> WResize(V(0), 8, TRUE)
                        [] I.op = "i64.extend_i32_u" -> WResize(V(0), 8, FALSE)>>)
    /\ Keep

(* ---- parametric and variable instructions ---------------------------------------------------------------- *)
Drop ==
    /\ Is({"drop"})
    /\ IF NV < 1 THEN Stuck("operand stack") ELSE Pure(1, <<>>)
    /\ Keep

Select ==
    /\ Is({"select"})
    /\ IF NV < 3 \/ Len(V(0)) # 4 \/ Len(V(1)) # Len(V(2)) THEN Stuck("operand stack")
       ELSE Pure(3, <<IF WIsZero(V(0)) THEN V(1) ELSE V(2)>>)
    /\ Keep

LocalGet ==
    /\ Is({"local.get"})
    /\ IF I.x >= Len(Top.loc) THEN Stuck("local index") ELSE Pure(0, <<Top.loc[I.x + 1]>>)
    /\ Keep

LocalSet ==
    /\ Is({"local.set", "local.tee"})
    /\ IF NV < 1 \/ I.x >= Len(Top.loc) \/ Len(Top.loc[I.x + 1]) # Len(V(0)) THEN Stuck("local index / type")
       ELSE /\ stack' = [stack EXCEPT ![Len(stack)] =
                            [@ EXCEPT !.pc = @ + 1,
                                      !.loc = [@ EXCEPT ![I.x + 1] = V(0)],
                                      !.vs = IF I.op = "local.set" THEN SubSeq(@, 1, Len(@) - 1) ELSE @]]
            /\ steps' = steps + 1
            /\ UNCHANGED <<status, why, ret, mem, pages, glob, tab, calls>>
    /\ Keep

GlobalGet ==
    /\ Is({"global.get"})
    /\ IF I.x >= Len(glob) THEN Stuck("global index") ELSE Pure(0, <<glob[I.x + 1]>>)
    /\ Keep

GlobalSet ==
    /\ Is({"global.set"})
    /\ IF NV < 1 \/ I.x >= Len(glob) \/ Len(glob[I.x + 1]) # Len(V(0)) \/ ~M.globals[I.x + 1].mut
       THEN Stuck("global index / type / mutability")
       ELSE /\ glob' = [glob EXCEPT ![I.x + 1] = V(0)]
            /\ Step(1, <<>>) /\ UNCHANGED <<mem, pages, tab, calls>>
    /\ Keep

(* ---- memory instructions ------------------------------------------------------------------------------------- *)
Load ==
    /\ IsTO(IntT, LoadNames)
    /\ IF NV < 1 \/ Len(V(0)) # 4 \/ (I.t = "i32" /\ I.o \in {"load32_s", "load32_u"}) THEN Stuck("operand stack")
       ELSE LET n == AccBytes(I.t, I.o)  ea == EffAddr(V(0), I.off) IN
            IF ~InBounds(ea, n, pages) THEN Trap("out of bounds memory access")
            ELSE Pure(1, <<WResize(ReadMem(mem, WToNat(ea), n), Width(I.t), AccSigned(I.o))>>)
    /\ Keep

Store ==
    /\ IsTO(IntT, StoreNames)
    /\ IF NV < 2 \/ Len(V(1)) # 4 \/ ~OfWidth(0, I.t) \/ (I.t = "i32" /\ I.o = "store32") THEN Stuck("operand stack")
       ELSE LET n == AccBytes(I.t, I.o)  ea == EffAddr(V(1), I.off) IN
            IF ~InBounds(ea, n, pages) THEN Trap("out of bounds memory access")
            ELSE /\ mem' = WriteMem(mem, WToNat(ea), SubSeq(V(0), 1, n))
                 /\ Step(2, <<>>) /\ UNCHANGED <<pages, glob, tab, calls>>
    /\ Keep

MemorySize ==
    /\ Is({"memory.size"})
    /\ IF pages < 0 THEN Stuck("no memory") ELSE Pure(0, <<I32(pages)>>)
    /\ Keep

\* memory.grow may fail for lack of resources in any engine; small growth inside the declared maximum is
\* taken to succeed, growth beyond what the model follows is out of the model
MemoryGrow ==
    /\ Is({"memory.grow"})
    /\ IF NV < 1 \/ Len(V(0)) # 4 \/ pages < 0 THEN Stuck("operand stack")
       ELSE LET lim == IF M.mems[1].max >= 0 THEN M.mems[1].max ELSE HardMaxPages
                d == V(0) IN
            IF ~WFitsNat(d) \/ WToNat(d) > HardMaxPages \/ pages + WToNat(d) > lim
            THEN Pure(1, <<I32(-1)>>)
            ELSE IF pages + WToNat(d) > ModelMaxPages THEN Halt("outofmodel", "memory larger than the model follows")
            ELSE /\ pages' = pages + WToNat(d)
                 /\ Step(1, <<I32(pages)>>) /\ UNCHANGED <<mem, glob, tab, calls>>
    /\ Keep

(* ---- control instructions -------------------------------------------------------------------------------------- *)
Nop == Is({"nop"}) /\ Pure(0, <<>>) /\ Keep
Unreachable == Is({"unreachable"}) /\ Trap("unreachable") /\ Keep

PushLabel(L, pc2, drop) ==
    /\ stack' = [stack EXCEPT ![Len(stack)] =
                    [@ EXCEPT !.pc = pc2, !.lbl = Append(@, L), !.vs = SubSeq(@, 1, Len(@) - drop)]]
    /\ steps' = steps + 1
    /\ UNCHANGED <<status, why, ret, mem, pages, glob, tab, calls>>

Block ==
    /\ Is({"block"})
    /\ LET se == Scan(Body, Top.pc + 1, 0, 0)  m == Len(BtParams(M, I.bt))  n == Len(BtResults(M, I.bt)) IN
       IF NV < m THEN Stuck("operand stack")
       ELSE PushLabel([cont |-> se[2] + 1, ar |-> n, h |-> NV - m, end |-> se[2]], Top.pc + 1, 0)
    /\ Keep

Loop ==
    /\ Is({"loop"})
    /\ LET se == Scan(Body, Top.pc + 1, 0, 0)  m == Len(BtParams(M, I.bt)) IN
       IF NV < m THEN Stuck("operand stack")
       ELSE PushLabel([cont |-> Top.pc, ar |-> m, h |-> NV - m, end |-> se[2]], Top.pc + 1, 0)
    /\ Keep

If ==
    /\ Is({"if"})
    /\ LET se == Scan(Body, Top.pc + 1, 0, 0)  m == Len(BtParams(M, I.bt))  n == Len(BtResults(M, I.bt)) IN
       IF NV < m + 1 \/ Len(V(0)) # 4 THEN Stuck("operand stack")
       ELSE LET L == [cont |-> se[2] + 1, ar |-> n, h |-> NV - 1 - m, end |-> se[2]] IN
            IF ~WIsZero(V(0)) THEN PushLabel(L, Top.pc + 1, 1)
            ELSE IF se[1] # 0 THEN PushLabel(L, se[1] + 1, 1)
            ELSE /\ stack' = [stack EXCEPT ![Len(stack)] = [@ EXCEPT !.pc = se[2] + 1, !.vs = SubSeq(@, 1, Len(@) - 1)]]
                 /\ steps' = steps + 1
                 /\ UNCHANGED <<status, why, ret, mem, pages, glob, tab, calls>>
    /\ Keep

\* `else` reached at the end of the then-branch: continue at the block's end
Else ==
    /\ Is({"else"})
    /\ IF Len(Top.lbl) = 0 THEN Stuck("else outside a block")
       ELSE /\ stack' = [stack EXCEPT ![Len(stack)] = [@ EXCEPT !.pc = Top.lbl[Len(Top.lbl)].end]]
            /\ steps' = steps + 1
            /\ UNCHANGED <<status, why, ret, mem, pages, glob, tab, calls>>
    /\ Keep

\* leave the function: its results are the top values of the operand stack
FuncReturn ==
    LET n == Len(FType(M, Top.f).results) IN
    IF NV < n THEN Stuck("operand stack at return")
    ELSE LET res == SubSeq(VS, NV - n + 1, NV) IN
         IF \E k \in 1..n : Len(res[k]) # Width(FType(M, Top.f).results[k]) THEN Stuck("result type")
         ELSE IF Len(stack) = 1
         THEN /\ status' = "ok" /\ why' = "" /\ ret' = res /\ stack' = <<>>
              /\ steps' = steps + 1
              /\ UNCHANGED <<mem, pages, glob, tab, calls>>
         ELSE /\ stack' = Mk([k \in 1..(Len(stack) - 1) |->
                                IF k < Len(stack) - 1 THEN stack[k]
                                ELSE [stack[k] EXCEPT !.pc = @ + 1, !.vs = @ \o res]])
              /\ steps' = steps + 1
              /\ UNCHANGED <<status, why, ret, mem, pages, glob, tab, calls>>

End ==
    /\ Is({"end"})
    /\ IF Len(Top.lbl) = 0 THEN FuncReturn
       ELSE /\ stack' = [stack EXCEPT ![Len(stack)] = [@ EXCEPT !.pc = @ + 1, !.lbl = SubSeq(@, 1, Len(@) - 1)]]
            /\ steps' = steps + 1
            /\ UNCHANGED <<status, why, ret, mem, pages, glob, tab, calls>>
    /\ Keep

\* the body has been executed to its end
FuncEnd == Running /\ ~HasIns /\ FuncReturn /\ Keep

\* branch to the l-th enclosing label (l = number of labels: the function itself), after dropping `drop` operands
Branch(l, drop) ==
    LET nl == Len(Top.lbl) IN
    IF l > nl THEN Stuck("label index")
    ELSE IF l = nl THEN
         (IF drop = 0 THEN FuncReturn
          ELSE LET n == Len(FType(M, Top.f).results) IN
               \* results lie below the dropped operands
               IF NV - drop < n THEN Stuck("operand stack at return")
               ELSE LET res == SubSeq(VS, NV - drop - n + 1, NV - drop) IN
                    IF Len(stack) = 1
                    THEN /\ status' = "ok" /\ why' = "" /\ ret' = res /\ stack' = <<>>
                         /\ steps' = steps + 1
                         /\ UNCHANGED <<mem, pages, glob, tab, calls>>
                    ELSE /\ stack' = Mk([k \in 1..(Len(stack) - 1) |->
                                           IF k < Len(stack) - 1 THEN stack[k]
                                           ELSE [stack[k] EXCEPT !.pc = @ + 1, !.vs = @ \o res]])
                         /\ steps' = steps + 1
                         /\ UNCHANGED <<status, why, ret, mem, pages, glob, tab, calls>>)
    ELSE LET L == Top.lbl[nl - l]  top == NV - drop IN
         IF top - L.ar < L.h THEN Stuck("operand stack at branch")
         ELSE /\ stack' = [stack EXCEPT ![Len(stack)] =
                             [@ EXCEPT !.pc = L.cont,
                                       !.lbl = SubSeq(@, 1, nl - l - 1),
                                       !.vs = SubSeq(VS, 1, L.h) \o SubSeq(VS, top - L.ar + 1, top)]]
              /\ steps' = steps + 1
              /\ UNCHANGED <<status, why, ret, mem, pages, glob, tab, calls>>

Br == Is({"br"}) /\ Branch(I.l, 0) /\ Keep

BrIf ==
    /\ Is({"br_if"})
    /\ IF NV < 1 \/ Len(V(0)) # 4 THEN Stuck("operand stack")
       ELSE IF WIsZero(V(0)) THEN Pure(1, <<>>) ELSE Branch(I.l, 1)
    /\ Keep

BrTable ==
    /\ Is({"br_table"})
    /\ IF NV < 1 \/ Len(V(0)) # 4 THEN Stuck("operand stack")
       ELSE LET k == V(0) IN
            Branch(IF WFitsNat(k) /\ WToNat(k) < Len(I.ls) THEN I.ls[WToNat(k) + 1] ELSE I.d, 1)
    /\ Keep

Return == Is({"return"}) /\ Branch(Len(Top.lbl), 0) /\ Keep

\* call function x with the top operands as arguments
DoCall(x, drop) ==
    IF x < 0 \/ x >= NFuncs(M) THEN Stuck("function index")
    ELSE LET T == FType(M, x)  n == Len(T.params)  top == NV - drop IN
         IF top < n THEN Stuck("operand stack at call")
         ELSE LET args == SubSeq(VS, top - n + 1, top) IN
              IF \E k \in 1..n : Len(args[k]) # Width(T.params[k]) THEN Stuck("argument type")
              ELSE IF \E k \in 1..n : T.params[k] \in FloatT THEN Halt("outofmodel", "float")
              ELSE IF x < NFI(M)
              THEN LET nm == FuncImports(M)[x + 1].name IN
                   IF \E k \in 1..Len(T.results) : T.results[k] \in FloatT THEN Halt("outofmodel", "float")
                   ELSE /\ calls' = Append(calls, [name |-> nm, args |-> args])
                        /\ stack' = [stack EXCEPT ![Len(stack)] =
                                        [@ EXCEPT !.pc = @ + 1,
                                                  !.vs = SubSeq(VS, 1, top - n) \o
                                                         [k \in 1..Len(T.results) |->
                                                            ExtRet(nm, CountCalls(nm) + 1, Width(T.results[k]))]]]
                        /\ steps' = steps + 1
                        /\ UNCHANGED <<status, why, ret, mem, pages, glob, tab>>
              ELSE IF Len(stack) >= MaxDepth THEN Halt("fuel", "call depth")
              ELSE /\ stack' = Append([stack EXCEPT ![Len(stack)] = [@ EXCEPT !.vs = SubSeq(VS, 1, top - n)]],
                                      NewFrame(M, x, args))
                   /\ steps' = steps + 1
                   /\ UNCHANGED <<status, why, ret, mem, pages, glob, tab, calls>>

Call == Is({"call"}) /\ DoCall(I.x, 0) /\ Keep

CallIndirect ==
    /\ Is({"call_indirect"})
    /\ IF NV < 1 \/ Len(V(0)) # 4 \/ I.table # 0 THEN Stuck("operand stack / table index")
       ELSE LET k == V(0) IN
            IF ~WFitsNat(k) \/ WToNat(k) >= Len(tab) THEN Trap("undefined element")
            ELSE LET x == tab[WToNat(k) + 1] IN
                 IF x < 0 THEN Trap("uninitialized element")
                 ELSE IF x >= NFuncs(M) THEN Stuck("function index in table")
                 ELSE LET T == FType(M, x)  E == M.types[I.type + 1] IN
                      IF T.params # E.params \/ T.results # E.results THEN Trap("indirect call type mismatch")
                      ELSE DoCall(x, 1)
    /\ Keep

KnownOps == {"i32.const", "i64.const", "i32.wrap_i64", "i64.extend_i32_s", "i64.extend_i32_u", "drop", "select",
             "local.get", "local.set", "local.tee", "global.get", "global.set", "memory.size", "memory.grow",
             "nop", "unreachable", "block", "loop", "if", "else", "end", "br", "br_if", "br_table", "return",
             "call", "call_indirect"}
IntOps == BinNames \cup CmpNames \cup UnNames \cup ExtNames \cup LoadNames \cup StoreNames \cup {"eqz"}
Modelled(ins) == ins.op \in KnownOps \/ (ins.t \in IntT /\ ins.o \in IntOps)
\* floating point (and anything else the model does not know) ends the execution without a verdict
NotModelled == Running /\ HasIns /\ ~Modelled(I) /\ Halt("outofmodel", I.op) /\ Keep

OutOfFuel == i > 0 /\ status = "run" /\ steps >= C.fuel

\* one instruction of the running activation
Exec == \/ Const \/ Binary \/ Compare \/ Unary \/ Convert \/ Drop \/ Select
        \/ LocalGet \/ LocalSet \/ GlobalGet \/ GlobalSet \/ Load \/ Store \/ MemorySize \/ MemoryGrow
        \/ Nop \/ Unreachable \/ Block \/ Loop \/ If \/ Else \/ End \/ FuncEnd
        \/ Br \/ BrIf \/ BrTable \/ Return \/ Call \/ CallIndirect \/ NotModelled

Exhaust == /\ OutOfFuel
           /\ status' = "fuel" /\ why' = "step budget"
           /\ UNCHANGED <<chunk, i, ph, ci, olog, stack, mem, pages, glob, tab, calls, ret, steps>>

(* ---- observation ---------------------------------------------------------------------------------------------------- *)
NonZero(mm) == {<<a, mm[a]>> : a \in {x \in DOMAIN mm : mm[x] # 0}}
Obs == [status |-> status, ret |-> ret, glob |-> glob, mem |-> NonZero(mem), pages |-> pages, calls |-> calls]
Finished == i > 0 /\ status \in {"ok", "trap", "outofmodel", "fuel", "stuck"}
Verdict == status \in {"ok", "trap"}       \* the specification defines the outcome

(* ---- the implementation's observation (trace validation) -------------------------------------------------------------- *)
\* obs[ci + 1] = [outcome : "value" | "trap" | anything else (crash, foreign exception, ...),
\*                ret : Seq(word), state : BOOLEAN (globals and memory could be read afterwards),
\*                glob : Seq([name, v]) (exported globals), mem : Seq(<<address, byte>>) (non-zero cells),
\*                pages : Nat, hascalls : BOOLEAN, calls : Seq([name, args])]
HasObs == "obs" \in DOMAIN C /\ ph = 1 /\ ci + 1 <= Len(C.obs)
O == C.obs[ci + 1]
ImplNonZero == {<<O.mem[k][1], O.mem[k][2]>> : k \in 1..Len(O.mem)}
GlobalOfExport(name) == LET x == ExportIdx(M, "global", name) IN IF x < 0 \/ x >= Len(glob) THEN <<>> ELSE glob[x + 1]

OutcomeOK == (status = "ok" => O.outcome = "value") /\ (status = "trap" => O.outcome = "trap")
ResultOK == status = "ok" => O.ret = ret
GlobalsOK == O.state => \A k \in 1..Len(O.glob) : GlobalOfExport(O.glob[k].name) = O.glob[k].v
MemoryOK == (O.state /\ pages >= 0) => (O.pages = pages /\ ImplNonZero = NonZero(mem))
CallsOK == O.hascalls => O.calls = calls
ImplAgrees == OutcomeOK /\ ResultOK /\ GlobalsOK /\ MemoryOK /\ CallsOK

Judged == Finished /\ Verdict /\ HasObs
ImplOutcome == Judged => OutcomeOK
ImplResult  == (Judged /\ OutcomeOK) => ResultOK
ImplGlobals == (Judged /\ OutcomeOK) => GlobalsOK
ImplMemory  == (Judged /\ OutcomeOK) => MemoryOK
ImplCalls   == (Judged /\ OutcomeOK) => CallsOK

(* ---- batch driver ---------------------------------------------------------------------------------------------------------- *)
Init == /\ chunk = 0 /\ i = 0 /\ ph = 0 /\ ci = 0 /\ stack = <<>> /\ mem = <<>> /\ pages = -1 /\ glob = <<>>
        /\ tab = <<>> /\ calls = <<>> /\ status = "idle" /\ why = "" /\ ret = <<>> /\ steps = 0 /\ olog = <<>>
PickChunk == /\ chunk = 0 /\ chunk' \in 1..NChunks
             /\ UNCHANGED <<i, ph, ci, stack, mem, pages, glob, tab, calls, status, why, ret, steps, olog>>
PickCase == /\ chunk > 0 /\ i = 0
            /\ i' \in {k \in 1..Len(Cases) : k % NChunks = chunk - 1}
            /\ ph' = 1 /\ ci' = 0 /\ olog' = <<>>
            /\ Instantiate(Cases[i'], 1)
            /\ UNCHANGED chunk

\* what follows the current call: the next call on the same instance, the next module, or the end.  A call
\* sequence is abandoned when the specification has no verdict (its state is unknown afterwards), when
\* instantiation failed, or when a recorded implementation observation disagrees (everything later would
\* only repeat that disagreement).
Continue == /\ Verdict
            /\ ~(ci = 0 /\ status = "trap")
            /\ (HasObs => ImplAgrees)
            /\ (ph > 1 => (ci + 1 <= Len(olog) /\ olog[ci + 1] = Obs))
MoreCalls == /\ ci < Len(C.calls)
             /\ (("obs" \in DOMAIN C /\ ph = 1) => ci + 2 <= Len(C.obs))
             /\ (ph > 1 => ci + 2 <= Len(olog))
Log == IF Len(C.mods) > 1 /\ ph = 1 THEN Append(olog, Obs) ELSE olog

NextCall ==
    /\ Finished /\ Continue /\ MoreCalls
    /\ LET x == ExportIdx(M, "func", C.calls[ci + 1].fn) IN
       /\ ci' = ci + 1 /\ olog' = Log
       /\ calls' = <<>> /\ ret' = <<>> /\ steps' = 0
       /\ IF x < 0 THEN status' = "stuck" /\ why' = "no such export" /\ stack' = <<>>
          ELSE Invoke(M, x, C.calls[ci + 1].args)
       /\ UNCHANGED <<chunk, i, ph, mem, pages, glob, tab>>

NextModule ==
    /\ Finished /\ ph < Len(C.mods)
    /\ ~(Continue /\ MoreCalls)
    /\ (ph = 1 => Verdict)
    /\ ph' = ph + 1 /\ ci' = 0 /\ olog' = Log
    /\ Instantiate(C, ph + 1)
    /\ UNCHANGED <<chunk, i>>

Next == PickChunk \/ PickCase \/ Exec \/ Exhaust \/ NextCall \/ NextModule

(* ---- properties --------------------------------------------------------------------------------------------------------------- *)
\* every later module behaves, call by call, as the first one
ObsPreserved ==
    (Finished /\ ph > 1 /\ ci + 1 <= Len(olog)) => olog[ci + 1] = Obs

\* sanity of the semantics on validated modules
NeverStuck == status # "stuck"
TypeOK == /\ status \in {"idle", "run", "ok", "trap", "outofmodel", "fuel", "stuck", "end"}
          /\ (status = "run" => Len(stack) >= 1)
          /\ \A k \in 1..Len(stack) : \A j \in 1..Len(stack[k].vs) : Len(stack[k].vs[j]) \in {4, 8}
          /\ \A k \in 1..Len(glob) : Len(glob[k]) \in {4, 8}
          /\ \A a \in DOMAIN mem : mem[a] \in Byte
=============================================================================
