------------------------------ MODULE IRPy_Eval ------------------------------
(* C24, float -> integer clause (idiom E).  One record per execution of a      *)
(* generated Python function whose IR body is  `return cast <iN> x`  with x a   *)
(* float parameter (or a float constant):                                       *)
(*    [key, ty : target type, q : <<num, den>> the exact (dyadic) input value,  *)
(*     obs : [outcome, ret : PV]]                                               *)
(* Required: the result is the input with its fractional part discarded         *)
(* (truncation toward zero), as a word of the target type.  A truncated value   *)
(* outside the target range is undefined in C/IR and not judged.                *)
EXTENDS PyVal, Rat, Json, IOUtils, TLC
Recs == JsonDeserialize(IOEnv.TRACE_FILE)
NChunks == 16
VARIABLES chunk, i, cls
vars == <<chunk, i, cls>>
Init == chunk = 0 /\ i = 0 /\ cls = ""
PickChunk == chunk = 0 /\ chunk' \in 1..NChunks /\ i' = 0 /\ cls' = ""
PickRec == chunk > 0 /\ i = 0 /\ chunk' = chunk /\ cls' = ""
           /\ i' \in {k \in 1..Len(Recs) : k % NChunks = chunk - 1}

R == Recs[i]
Q == <<R.q[1], R.q[2]>>
Defined(r) == IntFits(TruncZ(<<r.q[1], r.q[2]>>), SzP(r.ty, 4), Signed(r.ty))
\* classification (counted from the action coverage)
EvalDefined == i > 0 /\ cls = "" /\ Defined(R) /\ cls' = "defined" /\ UNCHANGED <<chunk, i>>
EvalOutOfRange == i > 0 /\ cls = "" /\ ~Defined(R) /\ cls' = "outofrange" /\ UNCHANGED <<chunk, i>>
Next == PickChunk \/ PickRec \/ EvalDefined \/ EvalOutOfRange

Allowed(r) ==
    LET q == <<r.q[1], r.q[2]>>  t == TruncZ(q)  n == SzP(r.ty, 4) IN
    /\ r.obs.outcome = "ok"
    /\ PyIsWord(r.obs.ret, WFromInt(t, n), Signed(r.ty))
TruncatesTowardZero == (i > 0 /\ cls = "defined") => Allowed(R)
=============================================================================
