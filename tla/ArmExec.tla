------------------------------- MODULE ArmExec -------------------------------
(* Small-step semantics of the A32 and Thumb instructions that Arm32.DecodeA  *)
(* and Thumb.Decode accept, transcribed from the operation pseudo-code of the *)
(* ARM Architecture Reference Manual (ARMv7-A/R: A2.2.1 AddWithCarry, A8.4.3  *)
(* Shift_C, A8.3 conditional execution, chapter A8 instruction descriptions). *)
(*                                                                           *)
(* State [pc, x, f, mem]: pc and x[r + 1] (r0..r14) are 4-byte words         *)
(* (Words.tla), f = <<N, Z, C, V>>, mem a total byte memory = background     *)
(* pattern + log of written bytes (the representation of RV32.tla).          *)
(* The instruction-set state never changes: isa = "arm" | "thumb" is a       *)
(* parameter; an interworking branch (bx, blx, pop {pc}, ldr pc) to an       *)
(* address of the other state ends "fault".  Unaligned data accesses are     *)
(* performed byte-wise.  Little-endian.                                      *)
(*   Step(s, i, isa) -> [st, pc, x, f, mem], st = "ok" | "fault" |            *)
(*                      "undefined" | "outofmodel" (system instructions,     *)
(*                      UNPREDICTABLE uses, instructions outside the model)  *)
EXTENDS Thumb, Arm32

W4(v) == IF v = MinInt THEN <<0, 0, 0, 128>> ELSE WFromInt(v, 4)      \* (TLC: -MinInt overflows)
-----------------------------------------------------------------------------
(* memory *)
Background(salt, a) == (a[1] * 7 + a[2] * 13 + a[3] * 31 + a[4] * 3 + salt + (a[1] \div 4) * 64) % 256
RECURSIVE Lookup(_, _, _)
Lookup(ov, a, k) == IF k = 0 THEN -1 ELSE IF ov[k][1] = a THEN ov[k][2] ELSE Lookup(ov, a, k - 1)
MemByte(m, a) == LET v == Lookup(m.ov, a, Len(m.ov)) IN IF v >= 0 THEN v ELSE Background(m.salt, a)
MemPut(m, a, v) == [m EXCEPT !.ov = Append(m.ov, <<a, v>>)]
RECURSIVE LoadBytes(_, _, _), StoreBytes(_, _, _, _)
LoadBytes(m, a, n) == IF n = 0 THEN << >> ELSE <<MemByte(m, a)>> \o LoadBytes(m, WAdd(a, WOne(4)), n - 1)
StoreBytes(m, a, w, k) == IF k > Len(w) THEN m ELSE StoreBytes(MemPut(m, a, w[k]), WAdd(a, WOne(4)), w, k + 1)

-----------------------------------------------------------------------------
(* A8.3: condition field against the flags <<N, Z, C, V>> *)
CondHolds(c, f) ==
    CASE c = 0 -> f[2] = 1                      [] c = 1 -> f[2] = 0          \* EQ NE
      [] c = 2 -> f[3] = 1                      [] c = 3 -> f[3] = 0          \* CS CC
      [] c = 4 -> f[1] = 1                      [] c = 5 -> f[1] = 0          \* MI PL
      [] c = 6 -> f[4] = 1                      [] c = 7 -> f[4] = 0          \* VS VC
      [] c = 8 -> f[3] = 1 /\ f[2] = 0          [] c = 9 -> f[3] = 0 \/ f[2] = 1      \* HI LS
      [] c = 10 -> f[1] = f[4]                  [] c = 11 -> f[1] # f[4]      \* GE LT
      [] c = 12 -> f[2] = 0 /\ f[1] = f[4]      [] c = 13 -> f[2] = 1 \/ f[1] # f[4]  \* GT LE
      [] OTHER -> TRUE                                                        \* AL

(* A2.2.1 AddWithCarry: [r, c, v] *)
AddC(x, y, cin) ==
    LET s5 == WAddC(x \o <<0>>, y \o <<0>>, cin)  res == <<s5[1], s5[2], s5[3], s5[4]>> IN
    [r |-> res, c |-> s5[5], v |-> IF SignBit(x) = SignBit(y) /\ SignBit(res) # SignBit(x) THEN 1 ELSE 0]

(* A8.4.3 Shift_C: <<result, carry out>> for any amount 0..255; "" = no shift *)
ShiftC(v, type, n, cin) ==
    CASE type = "" \/ (n = 0 /\ type # "rrx") -> <<v, cin>>
      [] type = "lsl" -> IF n < 32 THEN <<WShl(v, n), Bit(v, 32 - n)>> ELSE <<WZero(4), IF n = 32 THEN Bit(v, 0) ELSE 0>>
      [] type = "lsr" -> IF n < 32 THEN <<WShrL(v, n), Bit(v, n - 1)>> ELSE <<WZero(4), IF n = 32 THEN Bit(v, 31) ELSE 0>>
      [] type = "asr" -> IF n < 32 THEN <<WShrA(v, n), Bit(v, n - 1)>>
                         ELSE <<IF IsNegW(v) THEN WOnes(4) ELSE WZero(4), Bit(v, 31)>>
      [] type = "ror" -> IF n % 32 = 0 THEN <<v, Bit(v, 31)>> ELSE LET r == WRor(v, n % 32) IN <<r, Bit(r, 31)>>
      [] type = "rrx" -> LET r == WShrL(v, 1) IN <<Mk([r EXCEPT ![4] = @ + 128 * cin]), Bit(v, 0)>>

NZ(w) == <<SignBit(w), IF WIsZero(w) THEN 1 ELSE 0>>
Clz(w) == IF WIsZero(w) THEN 32 ELSE 31 - (CHOOSE k \in 0..31 : Bit(w, k) = 1 /\ \A j \in (k + 1)..31 : Bit(w, j) = 0)
\* A8: SDIV / UDIV (no trap on division by zero: the result is zero)
SDiv(a, b) == IF WIsZero(b) THEN WZero(4) ELSE IF WIsMin(a) /\ WIsMinusOne(b) THEN a ELSE WDivS(a, b)
UDiv(a, b) == IF WIsZero(b) THEN WZero(4) ELSE WDivModU(a, b)[1]

RECURSIVE Ascending(_)
Ascending(S) == IF S = {} THEN <<>> ELSE LET lo == CHOOSE x \in S : \A y \in S : x <= y IN <<lo>> \o Ascending(S \ {lo})
Arith == {"add", "adc", "sub", "sbc", "rsb", "rsc", "cmp", "cmn"}
Logical == {"and", "eor", "orr", "bic", "mov", "mvn", "tst", "teq"}
Hints == {"nop", "yield", "wfe", "wfi", "sev", "hint"}
System == {"it", "cps", "setend", "bkpt", "svc", "udf", "mcr", "mrc"}

Step(s, i, isa) ==
    LET thumb == isa = "thumb"
        pcv == WAdd(s.pc, W4(IF thumb THEN 4 ELSE 8))                   \* what reading r15 yields
        pca == Mk([pcv EXCEPT ![1] = @ - (@ % 4)])                      \* Align(PC, 4)
        next == WAdd(s.pc, W4(i.len))
        link == IF thumb THEN Mk([next EXCEPT ![1] = @ + 1]) ELSE next   \* bit 0: return to Thumb state
        R(k) == IF k = PC THEN pcv ELSE s.x[k + 1]
        cf == s.f[3]
        Res(st, pc, x, f, mem) == [st |-> st, pc |-> pc, x |-> x, f |-> f, mem |-> mem]
        Stop(st) == Res(st, s.pc, s.x, s.f, s.mem)
        Set(x, k, w) == Mk([x EXCEPT ![k + 1] = w])
        \* simple branch (BranchWritePC) / interworking branch (BXWritePC)
        Even(w) == Mk([w EXCEPT ![1] = @ - (@ % (IF thumb THEN 2 ELSE 4))])
        Bx(w, x, mem) == IF thumb THEN (IF w[1] % 2 = 1 THEN Res("ok", Even(w), x, s.f, mem) ELSE Stop("fault"))
                         ELSE (IF w[1] % 4 = 0 THEN Res("ok", w, x, s.f, mem) ELSE Stop("fault"))
        \* a data-processing result: to rd, or to the pc (ALUWritePC)
        Put(rd, w, f) == IF rd = PC THEN (IF i.s THEN Stop("outofmodel")
                                          ELSE IF thumb THEN Res("ok", Even(w), s.x, f, s.mem) ELSE Bx(w, s.x, s.mem))
                         ELSE Res("ok", next, Set(s.x, rd, w), f, s.mem)
        \* second operand of a data-processing instruction: <<value, shifter carry out>>
        Op2 == IF i.rm = NoReg THEN <<W4(i.imm), IF i.rot # 0 THEN (IF i.imm < 0 THEN 1 ELSE 0) ELSE cf>>
               ELSE IF i.rs # NoReg THEN ShiftC(R(i.rm), i.st, R(i.rs)[1], cf)
               ELSE ShiftC(R(i.rm), i.st, i.sa, cf)
        m == i.mn
    IN
    IF ~Valid(i) THEN Stop(IF m = "undefined" THEN "undefined" ELSE "outofmodel")
    ELSE IF m \in System THEN Stop("outofmodel")
    ELSE IF ~CondHolds(i.cond, s.f) \/ m \in Hints THEN Res("ok", next, s.x, s.f, s.mem)
    ELSE IF m \in Arith THEN
        LET a == IF i.rn = NoReg THEN WZero(4) ELSE R(i.rn)  b == Op2[1]
            r == (CASE m \in {"add", "cmn"} -> AddC(a, b, 0)          [] m = "adc" -> AddC(a, b, cf)
                    [] m \in {"sub", "cmp"} -> AddC(a, WNot(b), 1)    [] m = "sbc" -> AddC(a, WNot(b), cf)
                    [] m = "rsb" -> AddC(WNot(a), b, 1)               [] m = "rsc" -> AddC(WNot(a), b, cf))
            f == IF i.s THEN NZ(r.r) \o <<r.c, r.v>> ELSE s.f IN
        IF m \in Compares THEN Res("ok", next, s.x, f, s.mem) ELSE Put(i.rd, r.r, f)
    ELSE IF m \in Logical THEN
        LET a == IF i.rn = NoReg THEN WZero(4) ELSE R(i.rn)  o == Op2  b == o[1]
            r == (CASE m \in {"and", "tst"} -> WAnd(a, b)   [] m \in {"eor", "teq"} -> WXor(a, b)   [] m = "orr" -> WOr(a, b)
                    [] m = "bic" -> WAnd(a, WNot(b))        [] m = "mov" -> b                       [] m = "mvn" -> WNot(b))
            f == IF i.s THEN NZ(r) \o <<o[2], s.f[4]>> ELSE s.f IN
        IF m \in Compares THEN Res("ok", next, s.x, f, s.mem) ELSE Put(i.rd, r, f)
    ELSE IF m \in {"lsl", "lsr", "asr", "ror"} THEN                          \* the 16-bit Thumb shifts
        LET o == IF i.rn = NoReg THEN ShiftC(R(i.rm), m, i.imm, cf) ELSE ShiftC(R(i.rn), m, R(i.rm)[1], cf)
            f == IF i.s THEN NZ(o[1]) \o <<o[2], s.f[4]>> ELSE s.f IN
        Put(i.rd, o[1], f)
    ELSE IF m = "adr" THEN Put(i.rd, WAdd(pca, W4(i.imm)), s.f)
    ELSE IF m \in {"mul", "mla", "mls"} THEN
        LET p == WMul(R(i.rn), R(i.rm))
            r == IF m = "mul" THEN p ELSE IF m = "mla" THEN WAdd(p, R(i.ra)) ELSE WSub(R(i.ra), p) IN
        IF i.rd = PC THEN Stop("outofmodel") ELSE Res("ok", next, Set(s.x, i.rd, r), IF i.s THEN NZ(r) \o <<s.f[3], s.f[4]>> ELSE s.f, s.mem)
    ELSE IF m \in {"sdiv", "udiv"} THEN
        IF i.rd = PC THEN Stop("outofmodel")
        ELSE Res("ok", next, Set(s.x, i.rd, IF m = "sdiv" THEN SDiv(R(i.rn), R(i.rm)) ELSE UDiv(R(i.rn), R(i.rm))), s.f, s.mem)
    ELSE IF m \in {"movw", "movt"} THEN
        IF i.rd = PC THEN Stop("outofmodel")
        ELSE Res("ok", next, Set(s.x, i.rd, IF m = "movw" THEN W4(i.imm)
                                            ELSE <<R(i.rd)[1], R(i.rd)[2], i.imm % 256, i.imm \div 256>>), s.f, s.mem)
    ELSE IF m = "clz" THEN Put(i.rd, W4(Clz(R(i.rm))), s.f)
    ELSE IF m \in {"sxth", "sxtb", "uxth", "uxtb"} THEN
        LET v == R(i.rm) IN
        Put(i.rd, (CASE m = "sxth" -> WResize(<<v[1], v[2]>>, 4, TRUE) [] m = "sxtb" -> WResize(<<v[1]>>, 4, TRUE)
                     [] m = "uxth" -> <<v[1], v[2], 0, 0>> [] m = "uxtb" -> <<v[1], 0, 0, 0>>), s.f)
    ELSE IF m \in {"rev", "rev16", "revsh"} THEN
        LET v == R(i.rm) IN
        Put(i.rd, (CASE m = "rev" -> <<v[4], v[3], v[2], v[1]>> [] m = "rev16" -> <<v[2], v[1], v[4], v[3]>>
                     [] m = "revsh" -> WResize(<<v[2], v[1]>>, 4, TRUE)), s.f)
    ELSE IF m \in {"cbz", "cbnz"} THEN
        Res("ok", IF WIsZero(R(i.rn)) = (m = "cbz") THEN WAdd(pcv, W4(i.imm)) ELSE next, s.x, s.f, s.mem)
    ELSE IF m = "b" THEN Res("ok", WAdd(pcv, W4(i.imm)), s.x, s.f, s.mem)
    ELSE IF m = "bl" THEN Res("ok", WAdd(pcv, W4(i.imm)), Set(s.x, LR, link), s.f, s.mem)
    ELSE IF m = "bx" THEN Bx(R(i.rm), s.x, s.mem)
    ELSE IF m = "blx" THEN (IF i.rm = NoReg THEN Stop("outofmodel")            \* blx label: changes the instruction set
                            ELSE Bx(R(i.rm), Set(s.x, LR, link), s.mem))
    ELSE IF m \in Loads \cup Stores THEN
        LET base == IF i.rn = PC THEN pca ELSE R(i.rn)
            offs == IF i.rm # NoReg THEN (LET o == ShiftC(R(i.rm), i.st, i.sa, cf)[1] IN IF i.sub THEN WSub(base, o) ELSE WAdd(base, o))
                    ELSE WAdd(base, W4(i.imm))
            addr == IF i.am = "post" THEN base ELSE offs
            wb == i.am \in {"pre", "post"}
            x1 == IF wb THEN Set(s.x, i.rn, offs) ELSE s.x
            n == (CASE m \in {"ldr", "str"} -> 4 [] m \in {"ldrh", "ldrsh", "strh"} -> 2 [] OTHER -> 1) IN
        IF m \in {"ldrd", "strd"} \/ (wb /\ (i.rn = PC \/ i.rn = i.rd)) \/ i.rm = PC THEN Stop("outofmodel")
        ELSE IF m \in Stores THEN
            (IF i.rd = PC THEN Stop("outofmodel")
             ELSE Res("ok", next, x1, s.f, StoreBytes(s.mem, addr, SubSeq(R(i.rd), 1, n), 1)))
        ELSE LET v == WResize(LoadBytes(s.mem, addr, n), 4, m \in {"ldrsb", "ldrsh"}) IN
             IF i.rd = PC THEN (IF m = "ldr" THEN Bx(v, x1, s.mem) ELSE Stop("outofmodel"))
             ELSE Res("ok", next, Set(x1, i.rd, v), s.f, s.mem)
    ELSE IF m \in {"push", "pop", "ldm", "stm"} THEN
        LET cnt == Cardinality(i.list)
            regs == Ascending(i.list)
            mode == (CASE m = "push" -> "db!" [] m = "pop" -> "ia!" [] OTHER -> i.am)
            base == R(i.rn)
            up == mode \in {"ia", "ia!", "ib", "ib!"}
            low == (CASE mode \in {"ia", "ia!"} -> base                         [] mode \in {"ib", "ib!"} -> WAdd(base, W4(4))
                      [] mode \in {"da", "da!"} -> WSub(base, W4(4 * cnt - 4))  [] OTHER -> WSub(base, W4(4 * cnt)))
            final == IF up THEN WAdd(base, W4(4 * cnt)) ELSE WSub(base, W4(4 * cnt))
            wb == mode \in {"ia!", "ib!", "da!", "db!"}
            At(k) == WAdd(low, W4(4 * (k - 1)))
            load == m \in {"pop", "ldm"} IN
        IF i.rn = PC \/ cnt = 0 \/ (~load /\ PC \in i.list) \/ (wb /\ i.rn \in i.list /\ (load \/ regs[1] # i.rn))
        THEN Stop("outofmodel")
        ELSE IF load THEN
            LET RECURSIVE Fill(_, _)
                Fill(x, k) == IF k > cnt THEN x
                              ELSE Fill(IF regs[k] = PC THEN x ELSE Set(x, regs[k], LoadBytes(s.mem, At(k), 4)), k + 1)
                x1 == Fill(s.x, 1)
                x2 == IF wb THEN Set(x1, i.rn, final) ELSE x1 IN
            IF PC \in i.list THEN Bx(LoadBytes(s.mem, At(cnt), 4), x2, s.mem) ELSE Res("ok", next, x2, s.f, s.mem)
        ELSE
            LET RECURSIVE Spill(_, _)
                Spill(mem, k) == IF k > cnt THEN mem ELSE Spill(StoreBytes(mem, At(k), R(regs[k]), 1), k + 1) IN
            Res("ok", next, IF wb THEN Set(s.x, i.rn, final) ELSE s.x, s.f, Spill(s.mem, 1))
    ELSE Stop("outofmodel")

-----------------------------------------------------------------------------
(* machine states for the checks (deterministic families indexed by small integers) *)
RandWord(seed, r) == Mk([k \in 1..4 |-> (r * 37 + seed * 11 + k * 101 + r * r * 7 + seed * k * 3) % 256])
SeedState(seed, f) == [pc |-> <<(seed * 4) % 256, 16, 64, 0>>, x |-> Mk([k \in 1..15 |-> RandWord(seed, k)]), f |-> f,
                       mem |-> [salt |-> seed, ov |-> << >>]]
SeedFlags == << <<0, 0, 0, 0>>, <<1, 0, 1, 0>>, <<0, 1, 1, 1>>, <<1, 0, 0, 1>>, <<0, 0, 1, 0>>, <<0, 1, 0, 0>> >>
\* change every register outside `keep`
Perturb(s, keep) == [s EXCEPT !.x = Mk([k \in 1..15 |-> IF (k - 1) \in keep THEN s.x[k] ELSE WNot(s.x[k])])]
=============================================================================
