-------------------------------- MODULE MzExe --------------------------------
(* The MZ (DOS) header and the PE32+ image behind it, written from the        *)
(* Microsoft "PE Format" document (MS-DOS stub, signature, COFF file header,  *)
(* optional header (PE32+), data directories, section table, .idata           *)
(* section).  Offsets 0-based; all numbers little-endian.                     *)
(*                                                                            *)
(* MZ header (IMAGE_DOS_HEADER, 64 bytes): e_magic "MZ" @0, e_cblp @2, e_cp   *)
(* @4, e_crlc @6, e_cparhdr @8 (header size in 16-byte paragraphs), ...,      *)
(* e_lfarlc @24, ..., e_lfanew @60 (4 bytes: file offset of "PE\0\0").        *)
(* COFF header (20 bytes, after the signature): Machine @0, NumberOfSections  *)
(* @2, TimeDateStamp @4, PointerToSymbolTable @8, NumberOfSymbols @12,        *)
(* SizeOfOptionalHeader @16, Characteristics @18.                             *)
(* Optional header PE32+ (magic 20B): SizeOfCode @4, SizeOfInitializedData @8,*)
(* AddressOfEntryPoint @16, BaseOfCode @20, ImageBase @24 (8), Section-       *)
(* Alignment @32, FileAlignment @36, SizeOfImage @56, SizeOfHeaders @60,      *)
(* Subsystem @68, NumberOfRvaAndSizes @108, data directories from @112        *)
(* (8 bytes each: RVA, size).  Section header (40 bytes): Name @0 (8),        *)
(* VirtualSize @8, VirtualAddress @12, SizeOfRawData @16, PointerToRawData    *)
(* @20, Characteristics @36.                                                  *)
(* The reader is total; a part that cannot be located reads as empty / FCap   *)
(* and the clause about it fails.                                             *)
EXTENDS FmtBytes

PeSig == <<80, 69, 0, 0>>
PE32Plus == 523                                   \* 0x20B
PeMachineOf == [x86_64 |-> 34404, i386 |-> 332, riscv |-> 20530]   \* 8664, 14C, 5032
IMAGE_FILE_EXECUTABLE_IMAGE == 2
IMAGE_FILE_DLL == 8192
\* section characteristics, as the byte limbs (LSB first) that must be set
ScnCode == <<32, 0, 0, 0>>      ScnInitData == <<64, 0, 0, 0>>
ScnExec == <<0, 0, 0, 32>>      ScnRead == <<0, 0, 0, 64>>      ScnWrite == <<0, 0, 0, 128>>
HasFlags(wd, fl) == WAnd(wd, fl) = fl
DirImport == 1   DirIat == 12

MzNoHeader == [ok |-> FALSE, magic |-> <<>>, cparhdr |-> 0, crlc |-> 0, lfarlc |-> 0, lfanew |-> FCap]
MzHeader(F) == IF Len(F) < 64 THEN MzNoHeader
               ELSE [ok |-> TRUE, magic |-> SubSeq(F, 1, 2), cparhdr |-> FNumLE(F, 8, 2), crlc |-> FNumLE(F, 6, 2),
                     lfarlc |-> FNumLE(F, 24, 2), lfanew |-> FNumLE(F, 60, 4)]

PeSectionAt(F, p) ==
    [name |-> FBytes(F, p, 8), vsize |-> FNumLE(F, p + 8, 4), va |-> FNumLE(F, p + 12, 4),
     rawsize |-> FNumLE(F, p + 16, 4), rawptr |-> FNumLE(F, p + 20, 4), chars |-> FRawLE(F, p + 36, 4)]

PeNone == [ok |-> FALSE, sig |-> <<>>, co |-> 0, op |-> 0, st |-> 0, machine |-> 0, nsec |-> 0, symptr |-> 0,
           nsyms |-> 0, optsize |-> 0, chars |-> 0, magic |-> 0, sizeofcode |-> 0, sizeofinit |-> 0, entry |-> 0,
           baseofcode |-> 0, imagebase |-> WZero(8), salign |-> 0, falign |-> 0, sizeofimage |-> 0,
           sizeofheaders |-> 0, subsystem |-> 0, nrva |-> 0, dirs |-> <<>>, secs |-> <<>>]
PeRead(F) ==
    LET M == MzHeader(F)
        lf == M.lfanew
    IN IF ~M.ok \/ ~FIn(F, lf, 24) THEN PeNone
       ELSE LET co == lf + 4
                op == co + 20
                optsize == FNumLE(F, co + 16, 2)
                nsec == FNumLE(F, co + 2, 2)
                st == op + optsize
                nrva == IF FIn(F, op, 112) THEN FNumLE(F, op + 108, 4) ELSE 0
                ndirs == IF nrva <= 16 /\ FIn(F, op + 112, 8 * nrva) THEN nrva ELSE 0
                nsecs == IF nsec <= 96 /\ FIn(F, st, 40 * nsec) THEN nsec ELSE 0
            IN IF ~FIn(F, op, 112) THEN [PeNone EXCEPT !.sig = FBytes(F, lf, 4)]
               ELSE [ok |-> TRUE, sig |-> FBytes(F, lf, 4), co |-> co, op |-> op, st |-> st,
                     machine |-> FNumLE(F, co, 2), nsec |-> nsec, symptr |-> FNumLE(F, co + 8, 4),
                     nsyms |-> FNumLE(F, co + 12, 4), optsize |-> optsize, chars |-> FNumLE(F, co + 18, 2),
                     magic |-> FNumLE(F, op, 2), sizeofcode |-> FNumLE(F, op + 4, 4),
                     sizeofinit |-> FNumLE(F, op + 8, 4), entry |-> FNumLE(F, op + 16, 4),
                     baseofcode |-> FNumLE(F, op + 20, 4), imagebase |-> FRawLE(F, op + 24, 8),
                     salign |-> FNumLE(F, op + 32, 4), falign |-> FNumLE(F, op + 36, 4),
                     sizeofimage |-> FNumLE(F, op + 56, 4), sizeofheaders |-> FNumLE(F, op + 60, 4),
                     subsystem |-> FNumLE(F, op + 68, 2), nrva |-> nrva,
                     dirs |-> Mk([k \in 1..ndirs |-> [rva |-> FNumLE(F, op + 112 + 8 * (k - 1), 4),
                                                      size |-> FNumLE(F, op + 116 + 8 * (k - 1), 4)]]),
                     secs |-> Mk([k \in 1..nsecs |-> PeSectionAt(F, st + 40 * (k - 1))])]

\* ------------------------------------------------------------- addresses --
\* the section whose initialized raw data holds the cnt bytes at RVA rva (0 = none)
PeSecOfRva(P, rva, cnt) ==
    LET S == {k \in 1..Len(P.secs) : /\ P.secs[k].va <= rva /\ rva + cnt <= P.secs[k].va + P.secs[k].rawsize
                                     /\ rva < FCap /\ cnt < FCap}
    IN IF S = {} THEN 0 ELSE CHOOSE k \in S : \A o \in S : k <= o
\* file offset of RVA rva, FCap when it is not inside raw data
PeOff(P, rva, cnt) == LET k == PeSecOfRva(P, rva, cnt) IN
    IF k = 0 THEN FCap ELSE rva - P.secs[k].va + P.secs[k].rawptr
PeSecNamed(P, nm) == LET S == {k \in 1..Len(P.secs) : P.secs[k].name = nm} IN
    IF S = {} THEN 0 ELSE CHOOSE k \in S : \A o \in S : k <= o
PeName(cs) == Mk([k \in 1..8 |-> IF k <= Len(cs) THEN cs[k] ELSE 0])
NmText == PeName(<<46, 116, 101, 120, 116>>)        \* .text
NmData == PeName(<<46, 100, 97, 116, 97>>)          \* .data
NmIdata == PeName(<<46, 105, 100, 97, 116, 97>>)    \* .idata

\* ---------------------------------------------------------- import tables --
\* 8-byte lookup entries from file offset p until the null entry: the hint/name RVAs (bit 63 clear)
RECURSIVE PeThunks(_, _, _, _)
PeThunks(F, p, acc, fuel) ==
    IF fuel = 0 \/ ~FIn(F, p, 8) THEN [ok |-> FALSE, list |-> acc]
    ELSE IF FAllZero(F, p, 8) THEN [ok |-> TRUE, list |-> acc]
    ELSE LET wd == FRawLE(F, p, 8) IN
         IF wd[8] >= 128 \/ wd[5] # 0 \/ wd[6] # 0 \/ wd[7] # 0 \/ wd[8] # 0 \/ wd[4] >= 128
         THEN [ok |-> FALSE, list |-> acc]          \* ordinal import or reserved bits set: not what is written here
         ELSE PeThunks(F, p + 8, Append(acc, FNum(<<wd[1], wd[2], wd[3], wd[4]>>)), fuel - 1)
\* names behind hint/name RVAs (2-byte hint, NUL-terminated name, RVA even)
PeHintNames(F, P, rvas) ==
    Mk([k \in 1..Len(rvas) |->
        LET o == PeOff(P, rvas[k], 3) IN
        IF o = FCap \/ rvas[k] % 2 # 0 THEN [ok |-> FALSE, s |-> <<>>] ELSE FCStr(F, o + 2, 256)])
\* import descriptors (20 bytes: ILT RVA @0, time @4, forwarder chain @8, name RVA @12, IAT RVA @16) until null
RECURSIVE PeDescriptors(_, _, _, _, _)
PeDescriptors(F, P, p, acc, fuel) ==
    IF fuel = 0 \/ ~FIn(F, p, 20) THEN [ok |-> FALSE, list |-> acc]
    ELSE IF FAllZero(F, p, 20) THEN [ok |-> TRUE, list |-> acc]
    ELSE LET ilt == FNumLE(F, p, 4)
             nmr == FNumLE(F, p + 12, 4)
             iat == FNumLE(F, p + 16, 4)
             no == PeOff(P, nmr, 1)
             lo == PeOff(P, ilt, 8)
             ao == PeOff(P, iat, 8)
             L == IF lo = FCap THEN [ok |-> FALSE, list |-> <<>>] ELSE PeThunks(F, lo, <<>>, 64)
             A == IF ao = FCap THEN [ok |-> FALSE, list |-> <<>>] ELSE PeThunks(F, ao, <<>>, 64)
             d == [dll |-> IF no = FCap THEN [ok |-> FALSE, s |-> <<>>] ELSE FCStr(F, no, 256),
                   lookup |-> L, address |-> A, names |-> PeHintNames(F, P, L.list),
                   iat |-> iat, iatlen |-> 8 * (Len(A.list) + 1)]
         IN PeDescriptors(F, P, p + 20, Append(acc, d), fuel - 1)
PeImports(F, P) ==
    IF Len(P.dirs) < 2 \/ P.dirs[DirImport + 1].size = 0 THEN [ok |-> TRUE, list |-> <<>>]
    ELSE LET o == PeOff(P, P.dirs[DirImport + 1].rva, P.dirs[DirImport + 1].size) IN
         IF o = FCap THEN [ok |-> FALSE, list |-> <<>>] ELSE PeDescriptors(F, P, o, <<>>, 32)
\* well-formed import data; imp = expected <<[dll |-> codes, names |-> <<codes...>>]...>>
PeImportsAre(F, P, imp) ==
    LET I == PeImports(F, P) IN
    /\ I.ok /\ Len(I.list) = Len(imp)
    /\ \A k \in 1..Len(imp) : LET d == I.list[k] IN
          /\ d.dll.ok /\ d.dll.s = imp[k].dll
          /\ d.lookup.ok /\ d.address.ok /\ d.address.list = d.lookup.list   \* IAT = ILT until bound
          /\ Len(d.names) = Len(imp[k].names)
          /\ \A j \in 1..Len(d.names) : d.names[j].ok /\ d.names[j].s = imp[k].names[j]
          \* the address table lies inside the IAT directory
          /\ Len(P.dirs) > DirIat /\ P.dirs[DirIat + 1].rva <= d.iat
          /\ d.iat + d.iatlen <= P.dirs[DirIat + 1].rva + P.dirs[DirIat + 1].size

\* ---------------------------------------------------------------- clauses --
PeSectionsRawOk(F, P) == \A k \in 1..Len(P.secs) : LET s == P.secs[k] IN
    /\ s.rawptr % P.falign = 0 /\ s.rawsize % P.falign = 0 /\ FIn(F, s.rawptr, s.rawsize)
    /\ s.rawsize > 0 => s.rawptr >= P.sizeofheaders
    /\ \A j \in 1..(k - 1) : LET t == P.secs[j] IN t.rawptr + t.rawsize <= s.rawptr \/ s.rawptr + s.rawsize <= t.rawptr
PeSectionsVirtualOk(P) == \A k \in 1..Len(P.secs) : LET s == P.secs[k] IN
    /\ s.va % P.salign = 0 /\ s.va < FCap /\ s.vsize < FCap
    /\ k = 1 => s.va >= FRoundUp(P.sizeofheaders, P.salign)
    /\ k > 1 => s.va = FRoundUp(P.secs[k - 1].va + P.secs[k - 1].vsize, P.salign)       \* ascending and adjacent
PeSectionHolds(F, P, nm, data, flags) ==
    LET k == PeSecNamed(P, nm) IN
    /\ k > 0
    /\ LET s == P.secs[k] IN
       /\ s.vsize = Len(data) /\ s.rawsize >= Len(data) /\ FIn(F, s.rawptr, s.rawsize)
       /\ FBytes(F, s.rawptr, Len(data)) = data
       /\ FAllZero(F, s.rawptr + Len(data), s.rawsize - Len(data))
       /\ \A j \in 1..Len(flags) : HasFlags(s.chars, flags[j])
PeCodeSecs(P) == {k \in 1..Len(P.secs) : HasFlags(P.secs[k].chars, ScnCode)}
RECURSIVE PeSum(_, _, _)
PeSum(P, S, raw) == IF S = {} THEN 0 ELSE LET k == CHOOSE o \in S : TRUE IN
    (IF raw THEN P.secs[k].rawsize ELSE P.secs[k].vsize) + PeSum(P, S \ {k}, raw)

\* c = [arch, code, data (bytes), entry_off (offset of the entry symbol in the code section), imports]
MzFailures(F, c) ==
    LET M == MzHeader(F)
        P == PeRead(F)
    IN Fails("MzMagic", M.ok /\ M.magic = <<77, 90>>)
       \cup Fails("MzHeaderSize", M.ok /\ M.cparhdr * 16 >= 64 /\ M.cparhdr * 16 <= M.lfanew
                                  /\ (M.crlc > 0 => M.lfarlc >= 28))
       \cup Fails("MzNewHeader", M.ok /\ M.lfanew >= 64 /\ FIn(F, M.lfanew, 24))
       \cup
       IF ~P.ok THEN {"PeSignature"}
       ELSE Fails("PeSignature", P.sig = PeSig)
            \cup Fails("PeMachine", c.arch \in DOMAIN PeMachineOf /\ P.machine = PeMachineOf[c.arch])
            \cup Fails("PeOptionalHeader", P.magic = PE32Plus /\ P.optsize = 112 + 8 * P.nrva /\ P.nrva = 16
                                           /\ Len(P.dirs) = 16)
            \cup Fails("PeCharacteristics", (P.chars \div IMAGE_FILE_EXECUTABLE_IMAGE) % 2 = 1
                                            /\ (P.chars \div IMAGE_FILE_DLL) % 2 = 0)
            \cup Fails("PeAlignment", /\ FIsPow2(P.falign) /\ P.falign >= 512 /\ P.falign <= 65536
                                      /\ FIsPow2(P.salign) /\ P.salign >= P.falign
                                      /\ P.imagebase[1] = 0 /\ P.imagebase[2] = 0)       \* multiple of 64 K
            \cup Fails("PeSectionTable", P.nsec >= 1 /\ Len(P.secs) = P.nsec /\ P.st + 40 * P.nsec <= P.sizeofheaders)
            \cup Fails("PeSizeOfHeaders", P.falign > 0 /\ P.sizeofheaders = FRoundUp(P.st + 40 * P.nsec, P.falign)
                                          /\ P.sizeofheaders <= Len(F))
            \cup Fails("PeSectionRaw", P.falign > 0 /\ PeSectionsRawOk(F, P))
            \cup Fails("PeSectionVirtual", P.salign > 0 /\ PeSectionsVirtualOk(P))
            \cup Fails("PeSizeOfImage", P.salign > 0 /\ Len(P.secs) > 0 /\
                            P.sizeofimage = FRoundUp(P.secs[Len(P.secs)].va + P.secs[Len(P.secs)].vsize, P.salign))
            \cup Fails("PeText", PeSectionHolds(F, P, NmText, c.code, <<ScnCode, ScnExec, ScnRead>>))
            \cup Fails("PeData", PeSectionHolds(F, P, NmData, c.data, <<ScnInitData, ScnRead, ScnWrite>>))
            \cup Fails("PeEntry", LET k == PeSecNamed(P, NmText) IN
                            k > 0 /\ P.entry = P.secs[k].va + c.entry_off /\ P.baseofcode = P.secs[k].va)
            \cup Fails("PeSizeOfCode", PeSum(P, PeCodeSecs(P), FALSE) <= P.sizeofcode
                                       /\ P.sizeofcode <= PeSum(P, PeCodeSecs(P), TRUE))
            \cup Fails("PeDirectories", \A k \in 1..Len(P.dirs) :
                            P.dirs[k].size > 0 => PeSecOfRva(P, P.dirs[k].rva, P.dirs[k].size) > 0)
            \cup Fails("PeImports", PeImportsAre(F, P, c.imports))
MzClauses == {"MzMagic", "MzHeaderSize", "MzNewHeader", "PeSignature", "PeMachine", "PeOptionalHeader",
              "PeCharacteristics", "PeAlignment", "PeSectionTable", "PeSizeOfHeaders", "PeSectionRaw",
              "PeSectionVirtual", "PeSizeOfImage", "PeText", "PeData", "PeEntry", "PeSizeOfCode",
              "PeDirectories", "PeImports"}

\* read back through ppci's own header classes: rb = [ok, exc, accepted (read_exe ran through),
\*   dos = [magic, cparhdr, lfanew], coff = [machine, nsec, optsize, chars],
\*   opt = [magic, entry, imagebase, salign, falign, sizeofimage, sizeofheaders, nrva] (limbs, LSB first),
\*   secs = <<[name, vsize, va, rawsize, rawptr, chars]...>>]
MzReadBackOk(F, rb) ==
    LET P == PeRead(F) IN
    /\ rb.ok /\ rb.accepted /\ P.ok
    /\ rb.dos = [magic |-> FRawLE(F, 0, 2), cparhdr |-> FRawLE(F, 8, 2), lfanew |-> FRawLE(F, 60, 4)]
    /\ rb.coff = [machine |-> FRawLE(F, P.co, 2), nsec |-> FRawLE(F, P.co + 2, 2),
                  optsize |-> FRawLE(F, P.co + 16, 2), chars |-> FRawLE(F, P.co + 18, 2)]
    /\ rb.opt = [magic |-> FRawLE(F, P.op, 2), entry |-> FRawLE(F, P.op + 16, 4),
                 imagebase |-> FRawLE(F, P.op + 24, 8), salign |-> FRawLE(F, P.op + 32, 4),
                 falign |-> FRawLE(F, P.op + 36, 4), sizeofimage |-> FRawLE(F, P.op + 56, 4),
                 sizeofheaders |-> FRawLE(F, P.op + 60, 4), nrva |-> FRawLE(F, P.op + 108, 4)]
    /\ Len(rb.secs) = Len(P.secs)
    /\ \A k \in 1..Len(P.secs) : LET p == P.st + 40 * (k - 1) IN
          rb.secs[k] = [name |-> FBytes(F, p, 8), vsize |-> FRawLE(F, p + 8, 4), va |-> FRawLE(F, p + 12, 4),
                        rawsize |-> FRawLE(F, p + 16, 4), rawptr |-> FRawLE(F, p + 20, 4),
                        chars |-> FRawLE(F, p + 36, 4)]
=============================================================================
