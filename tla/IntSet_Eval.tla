---------------------------- MODULE IntSet_Eval ----------------------------
(* Idiom E for C33: one state per recorded call of ppci.utils.integer_set;  *)
(* the invariants are the clauses of the property, judged by IntSet.tla.    *)
(* Two-level fan-out (chunk, then record) so all workers share the work.    *)
EXTENDS IntSet, Json, IOUtils, TLC
Recs == JsonDeserialize(IOEnv.TRACE_FILE)
NChunks == 64
VARIABLES chunk, i
vars == <<chunk, i>>
Init == chunk = 0 /\ i = 0
PickChunk == chunk = 0 /\ chunk' \in 1..NChunks /\ i' = 0
PickRec == chunk > 0 /\ i = 0 /\ chunk' = chunk
           /\ i' \in {k \in 1..Len(Recs) : k % NChunks = chunk - 1}
Next == PickChunk \/ PickRec
Judge(fs) == (i > 0 /\ Recs[i].f \in fs) => Allowed(Recs[i])
\* one invariant per clause of the property
SetAlgebra    == Judge(BinOps)
CanonicalForm == Judge({"construct", "merge"})
Membership    == Judge({"contains"})
CardinalityOk == Judge({"cardinality", "bool"})
Iteration     == Judge({"iter"})
EqualSetsCompareEqual == Judge({"eq"})
=============================================================================
