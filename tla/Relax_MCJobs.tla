--------------------------- MODULE Relax_MCJobs ---------------------------
(* The universes of link jobs explored by Relax_MC (idiom M of property C13). *)
(* Object 1 has a section "code" made of items                                *)
(*    "Jt" "Jf"  j sym      (4 bytes, relocation cb_imm11)   target t / f     *)
(*    "Lt" "Lf"  jal ra,sym (4 bytes, cbl_imm11)                              *)
(*    "Xt"       jal x5,sym (4 bytes, cbl_imm11: must not become c.jal)       *)
(*    "Zt"       jal x0,sym (4 bytes, cbl_imm11: must not become c.jal)       *)
(*    "Rt"       jal ra,sym (4 bytes, cb_imm11:  must not become c.j)         *)
(*    "Bt"       jal x0,sym (4 bytes, b_imm20: not relaxable)                 *)
(*    "N"  c.nop (2 bytes)      "W"  addi x0,x0,0 (4 bytes)                   *)
(* a section "far" (4 bytes) with the global f at offset 2, and a section     *)
(* "data" (4 bytes, alignment 4) holding an absaddr32 reference to the probe  *)
(* symbol p.  t (global) sits at an item boundary of "code", p (local) at any *)
(* byte of it: at, inside and after the instructions that shrink.  Object 2   *)
(* (optional) contributes to "code" behind object 1: a filler with the global *)
(* u, or a jump to t.  Layouts: none / one image (code, data, symbol, far) /  *)
(* two images (code | far, data) / code between two other sections.           *)
(* The instruction bytes are real RV32 encodings (Relax.tla decodes them).    *)
EXTENDS Integers, Sequences, FiniteSets, SequencesExt

CONSTANTS Items,      \* item kinds usable in object 1's code
          CodeLens,   \* numbers of items
          Seconds,    \* subset of {"none", "nop", "jump"}
          LayoutIds,  \* subset of 1..4
          FullProduct \* TRUE: every t position x every p position; FALSE: each swept with the other fixed

Size(k) == IF k = "N" THEN 2 ELSE 4
Bytes(k) == CASE k \in {"Jt", "Jf", "Bt", "Zt"} -> <<111, 0, 0, 0>>      \* 0000006f  jal x0, 0
              [] k \in {"Lt", "Lf", "Rt"} -> <<239, 0, 0, 0>>           \* 000000ef  jal x1, 0
              [] k = "Xt" -> <<239, 2, 0, 0>>                           \* 000002ef  jal x5, 0
              [] k = "N" -> <<1, 0>>                                    \* 0001      c.nop
              [] k = "W" -> <<19, 0, 0, 0>>                             \* 00000013  addi x0, x0, 0
RelType(k) == CASE k \in {"Jt", "Jf", "Rt"} -> "cb_imm11" [] k \in {"Lt", "Lf", "Xt", "Zt"} -> "cbl_imm11"
                [] k = "Bt" -> "b_imm20" [] OTHER -> ""
Target(k) == IF k \in {"Jf", "Lf"} THEN 11 ELSE 10                      \* symbol ids: t = 10, f = 11, p = 12

RECURSIVE CodeBytes(_, _), Offsets(_, _, _)
CodeBytes(items, k) == IF k > Len(items) THEN <<>> ELSE Bytes(items[k]) \o CodeBytes(items, k + 1)
Offsets(items, k, at) == IF k > Len(items) THEN <<at>> ELSE <<at>> \o Offsets(items, k + 1, at + Size(items[k]))
\* item boundaries 0 .. size (Len(items) + 1 of them)
Bounds(items) == Offsets(items, 1, 0)

S(n, al, data) == [name |-> n, size |-> Len(data), align |-> al, data |-> data]
Y(id, n, b, def, sec, val) == [id |-> id, name |-> n, binding |-> b, def |-> def, sec |-> sec, value |-> val,
                               typ |-> "object", size |-> 0]
R(t, sym, sec, off, size, ctl) == [type |-> t, sym |-> sym, sec |-> sec, off |-> off, add |-> 0, size |-> size, ctl |-> ctl]
O(secs, syms, rels) == [secs |-> secs, syms |-> syms, rels |-> rels, entry |-> -1]
I(k, n, al) == [k |-> k, name |-> n, al |-> al]
M(n, loc, size, ins) == [name |-> n, loc |-> loc, size |-> size, ins |-> ins]
NoLayout == [on |-> FALSE, entry |-> "", mems |-> <<>>]
L(mems) == [on |-> TRUE, entry |-> "", mems |-> mems]

ItemRels(items) == LET b == Bounds(items)
                       withrel == SelectSeq([k \in 1..Len(items) |-> k], LAMBDA k : RelType(items[k]) # "") IN
    [j \in 1..Len(withrel) |-> R(RelType(items[withrel[j]]), Target(items[withrel[j]]), "code", b[withrel[j]], 4, TRUE)]

Obj1(items, tpos, ppos) ==
    O(<<S("code", 2, CodeBytes(items, 1)), S("far", 2, <<1, 0, 1, 0>>), S("data", 4, <<0, 0, 0, 0>>)>>,
      <<Y(10, "t", "global", TRUE, "code", tpos), Y(11, "f", "global", TRUE, "far", 2),
        Y(12, "p", "local", TRUE, "code", ppos)>>,
      ItemRels(items) \o <<R("absaddr32", 12, "data", 0, 4, FALSE)>>)
Obj2(kind) ==
    IF kind = "nop" THEN O(<<S("code", 2, <<1, 0>>)>>, <<Y(5, "u", "global", TRUE, "code", 2)>>, <<>>)
    ELSE O(<<S("code", 2, <<111, 0, 0, 0>>)>>,
           <<Y(5, "u", "global", TRUE, "code", 4), Y(6, "t", "global", FALSE, "", 0)>>,
           <<R("cb_imm11", 6, "code", 0, 4, TRUE)>>)
Inputs(items, tpos, ppos, second) ==
    IF second = "none" THEN <<Obj1(items, tpos, ppos)>> ELSE <<Obj1(items, tpos, ppos), Obj2(second)>>

Layout(id) ==
    CASE id = 1 -> NoLayout
      [] id = 2 -> L(<<M("m", 4, 96, <<I("section", "code", 0), I("section", "data", 0), I("symbol", "e", 0),
                                       I("section", "far", 0)>>)>>)
      [] id = 3 -> L(<<M("rom", 0, 32, <<I("section", "code", 0)>>),
                       M("ram", 16, 32, <<I("section", "far", 0), I("align", "", 8), I("section", "data", 0)>>)>>)
      [] id = 4 -> L(<<M("m", 8, 96, <<I("section", "far", 0), I("section", "code", 0), I("symbol", "e", 0),
                                       I("section", "data", 0)>>)>>)
Opt == [partial |-> FALSE, entry |-> "", extra |-> <<>>]

ItemSeqs == UNION {[1..n -> Items] : n \in CodeLens}
SizeOf(items) == Bounds(items)[Len(items) + 1]
Positions(items) ==
    LET b == Bounds(items)
        bs == {b[k] : k \in 1..Len(b)}
        all == 0..SizeOf(items) IN
    IF FullProduct THEN bs \X all
    ELSE {<<tp, 0>> : tp \in bs} \cup {<<SizeOf(items), pp>> : pp \in all}
RJobsOf(items) == {[inp |-> Inputs(items, pos[1], pos[2], sec), lay |-> Layout(l), opt |-> Opt] :
                      pos \in Positions(items), sec \in Seconds, l \in LayoutIds}
MCJobs == SetToSeq(UNION {RJobsOf(items) : items \in ItemSeqs})
=============================================================================
