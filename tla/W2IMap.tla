------------------------------- MODULE W2IMap -------------------------------
(* X03: the address map between WebAssembly's linear memory and the flat      *)
(* memory of ppci IR, as the runtime of translated code sets it up: the       *)
(* memory of `pg` pages lies at address `base` (kept in the IR variable       *)
(* wasm_mem0_address, moved by every successful memory.grow), an IR access at *)
(* address a is the linear-memory access at offset a - base.                  *)
(* XlatAddr is the address computation wasm2ppci.get_memory_address emits:    *)
(*    ptr(base operand) + ptr(constant offset) + load(wasm_mem0_address)      *)
(* in pointer arithmetic of pb bytes (pb = 4: the python target, wraps at     *)
(* 2^32; pb = 8: the native target, the i32 operand is sign-extended).        *)
EXTENDS Words

PageSize == 65536
LinBase0 == 16777216        \* 0x01000000: first address of the linear memory
RelocStep == 2097152        \* 0x00200000 > ModelMaxPages * PageSize: every grow moves the memory this far

InLin(a, n, base, pg) == pg >= 0 /\ base > 0 /\ n > 0 /\ a >= base /\ (a - base) + n <= pg * PageSize
LinOff(a, base) == a - base
BaseAfterGrow(k) == LinBase0 + RelocStep * k

XlatAddr(pb, cell, basew, offw) ==
    WAdd(cell, WAdd(WResize(basew, pb, TRUE), WResize(offw, pb, FALSE)))
=============================================================================
