------------------------------- MODULE Reloop -------------------------------
(* X05 -- the structured program found by ppci/graph/relooper.py has the    *)
(* control-flow behaviour of the control-flow graph it was made from.       *)
(*                                                                           *)
(* Two machines run in lock step, driven by the same decision oracle:       *)
(*  (a) the CFG walk: `cur` is the block the walk stands at (0 = the exit   *)
(*      node); a block without successors is a return block;                *)
(*  (b) a small-step interpreter of the shape tree with an explicit control *)
(*      stack `ctl` of frames <<node, pos>>, one action per shape kind:     *)
(*        basic   run the block, fall to what follows                       *)
(*        seq     run the parts in order (a part may be absent = 0)         *)
(*        if      run the block, then the arm picked by the decision        *)
(*        multi   run the block, then the arm picked by the decision (n-way) *)
(*        loop    block { loop { body } }: `continue` restarts the body,    *)
(*                `break` leaves it, and *falling off the end of the body   *)
(*                leaves the loop* -- this is how ppci2wasm.do_shape emits  *)
(*                a LoopShape (wasm `loop ... end` does not repeat itself)  *)
(*        break l / cont l   leave / restart the (l+1)-th enclosing loop    *)
(*      A block that ends in return/exit ends the program at once (the       *)
(*      block itself carries the `return` instruction).                      *)
(* A step in which the interpreter runs a block is the only visible step:   *)
(* the block must be the one the walk stands at, then one decision d is     *)
(* picked and both machines move.  All other interpreter steps are silent.  *)
(* Because the product state (cur, ctl) is finite, TLC visits every         *)
(* reachable product state, i.e. decides the agreement for EVERY sequence   *)
(* of branch decisions of any length, not for a sample of them.             *)
(*                                                                           *)
(* A case is a record                                                        *)
(*   [key, g |-> [n, entry, succ], out |-> [ok, exc], t |-> [root, nodes]]  *)
(*   g.succ[b] = <<>> (return) | <<t>> (jump) | <<yes, no>> (cjump) | n-way *)
(*   t.nodes[k] = [k |-> kind, b |-> block or level, kids |-> <<index..>>]   *)
(*   (index 0 = absent shape, python None); kids of "if" are <<yes, no>>    *)
EXTENDS Integers, Sequences, FiniteSets, TLC

VARIABLES chunk,          \* fan-out over the cases (0 = not yet chosen), see ENGINE_GUIDE
          i,              \* index of the case under evaluation (0 = none yet)
          cs,             \* the case itself (bound once, when it is picked)
          st,             \* idle | chk-* | run | done | end | mismatch | stuck | refused | illformed
          cur,            \* (a) block the CFG walk stands at, 0 = exit node
          ctl,            \* (b) control stack of the interpreter, top = last
          blk,            \* last block run by the interpreter (diagnostics)
          quiet           \* number of silent interpreter steps since the last block

mvars == <<st, cur, ctl, blk, quiet>>

C == cs
G == C.g
T == C.t
NNodes == Len(T.nodes)
Node(k) == T.nodes[k]
Kinds == {"basic", "seq", "if", "multi", "loop", "break", "cont"}
IsNode(k) == k \in 1..NNodes
Kind(k) == IF IsNode(k) THEN Node(k).k ELSE "absent"
Kids(k) == Node(k).kids
Blocks == 1..G.n
Succ(b) == G.succ[b]
Rng(s) == {s[x] : x \in 1..Len(s)}

\* ---------------------------------------------------------------------------
\* static part: the shape tree is a tree, and the clauses of the property that
\* do not depend on decisions
\* ---------------------------------------------------------------------------
Parents(k) == {p \in 1..NNodes : k \in Rng(Kids(p))}
\* a tree laid out in pre-order: every node but the root has exactly one parent,
\* which comes before it, and is named exactly once by that parent
IsTree ==
    /\ T.root \in 0..NNodes
    /\ (NNodes > 0 => T.root = 1)
    /\ \A k \in 1..NNodes :
         /\ Node(k).k \in Kinds
         /\ \A x \in 1..Len(Kids(k)) : Kids(k)[x] = 0 \/ (Kids(k)[x] \in (k + 1)..NNodes)
         /\ \A x \in 1..Len(Kids(k)) : \A y \in 1..Len(Kids(k)) :
               (x # y /\ Kids(k)[x] # 0) => Kids(k)[x] # Kids(k)[y]
         /\ (k # T.root => Cardinality(Parents(k)) = 1)
         /\ (Node(k).k = "if" => Len(Kids(k)) = 2)
         /\ (Node(k).k = "loop" => Len(Kids(k)) = 1)
         /\ (Node(k).k \in {"basic", "break", "cont"} => Kids(k) = <<>>)

RECURSIVE LoopsAbove(_)
LoopsAbove(k) == IF k = T.root \/ Parents(k) = {} THEN 0
                 ELSE LET p == CHOOSE q \in Parents(k) : TRUE
                      IN LoopsAbove(p) + (IF Node(p).k = "loop" THEN 1 ELSE 0)

\* break / continue name an enclosing loop
TargetsEnclosing ==
    \A k \in 1..NNodes : Node(k).k \in {"break", "cont"} =>
        (Node(k).b >= 0 /\ Node(k).b < LoopsAbove(k))

\* blocks reachable from the entry = the nodes of the CFG
RECURSIVE ReachFrom(_, _)
ReachFrom(S, fuel) ==
    LET S2 == S \cup UNION {Rng(Succ(b)) : b \in S}
    IN IF fuel = 0 \/ S2 = S THEN S ELSE ReachFrom(S2, fuel - 1)
CfgBlocks == ReachFrom({G.entry}, G.n)
TreeBlocks == {Node(k).b : k \in {x \in 1..NNodes : Node(x).k \in {"basic", "if", "multi"}}}

\* every block of the CFG occurs in the shape tree, and nothing else does
CoversAll == CfgBlocks \subseteq TreeBlocks
OnlyCfgBlocks == TreeBlocks \subseteq CfgBlocks

\* ---------------------------------------------------------------------------
\* the documented base classes of relooper.py ("straight line code", "an if
\* statement with two outgoing control flow paths", "a start of a loop") in
\* their plainest form; these must be structured, not refused
\* ---------------------------------------------------------------------------
IsChain == \A b \in CfgBlocks : Len(Succ(b)) <= 1 /\ (Succ(b) # <<>> => Succ(b)[1] > b)
\* entry: cjump to two different blocks that both jump to one block that returns
IsDiamond ==
    /\ Len(Succ(G.entry)) = 2
    /\ LET y == Succ(G.entry)[1]
           n == Succ(G.entry)[2]
       IN /\ y # n /\ y # G.entry /\ n # G.entry
          /\ Len(Succ(y)) = 1 /\ Len(Succ(n)) = 1 /\ Succ(y) = Succ(n)
          /\ LET m == Succ(y)[1] IN m \notin {G.entry, y, n} /\ Succ(m) = <<>>
\* entry jumps to a header that either runs a one-block body jumping back or leaves
\* to a block that returns (while loop), either way round
IsWhile ==
    /\ Len(Succ(G.entry)) = 1
    /\ LET h == Succ(G.entry)[1]
       IN /\ h # G.entry /\ Len(Succ(h)) = 2
          /\ \E x \in 1..2 :
               LET body == Succ(h)[x]
                   out == Succ(h)[3 - x]
               IN /\ Cardinality({G.entry, h, body, out}) = 4
                  /\ Succ(body) = <<h>> /\ Succ(out) = <<>>
MustBeStructured == IsChain \/ IsDiamond \/ IsWhile
Refusals == {"ValueError", "NotImplementedError"}

\* ---------------------------------------------------------------------------
\* the two machines
\* ---------------------------------------------------------------------------
Top == ctl[Len(ctl)]
Pop(s) == SubSeq(s, 1, Len(s) - 1)
Enter(s, k) == IF k = 0 THEN s ELSE Append(s, <<k, 0>>)
\* a run between two blocks enters or leaves every shape at most once (the stack with
\* which a shape is entered is fixed by its place in the tree, silent steps are
\* deterministic, so entering a shape twice without running a block repeats for ever);
\* the interpreter is not stepped beyond that bound
QuietBound == 3 * NNodes + 3
Running(kind) == st = "run" /\ ctl # <<>> /\ Kind(Top[1]) = kind /\ quiet <= QuietBound
Silent == quiet' = quiet + 1 /\ UNCHANGED <<chunk, i, cs, st, cur, blk>>
Stop(how) == st' = how /\ ctl' = <<>> /\ UNCHANGED <<chunk, i, cs, cur, blk, quiet>>

\* positions of the loop frames on the control stack; the l-th from the top (l = 0: innermost)
LoopFrames == {p \in 1..Len(ctl) : Kind(ctl[p][1]) = "loop"}
LoopFrame(l) == {p \in LoopFrames : Cardinality({q \in LoopFrames : q > p}) = l}

\* visible step: the interpreter runs block b; the walk must stand at b; then a
\* decision d picks the successor for the walk and `after(d)` the interpreter's stack
Visit(b, canGo(_), after(_)) ==
    /\ blk' = b /\ quiet' = 0 /\ UNCHANGED <<chunk, i, cs>>
    /\ IF b # cur \/ b \notin Blocks
       THEN st' = "mismatch" /\ ctl' = <<>> /\ UNCHANGED cur
       ELSE IF Succ(b) = <<>>
       THEN st' = "done" /\ cur' = 0 /\ ctl' = <<>>          \* return
       ELSE \E d \in 1..Len(Succ(b)) :
               /\ cur' = Succ(b)[d]
               /\ IF canGo(d) THEN st' = st /\ ctl' = after(d)
                             ELSE st' = "stuck" /\ ctl' = <<>>

ExecBasic == /\ Running("basic")
             /\ LET always(d) == TRUE
                    rest(d) == Pop(ctl)
                IN Visit(Node(Top[1]).b, always, rest)

\* a decision for which the shape has no arm cannot be followed
HasArm(d) == d <= Len(Kids(Top[1]))
Arm(d) == Enter(Pop(ctl), Kids(Top[1])[d])
ExecIf == Running("if") /\ Visit(Node(Top[1]).b, HasArm, Arm)
ExecMulti == Running("multi") /\ Visit(Node(Top[1]).b, HasArm, Arm)

SeqEnter == /\ Running("seq") /\ Top[2] < Len(Kids(Top[1])) /\ Kids(Top[1])[Top[2] + 1] # 0
            /\ ctl' = Append(Append(Pop(ctl), <<Top[1], Top[2] + 1>>), <<Kids(Top[1])[Top[2] + 1], 0>>)
            /\ Silent
SeqSkipAbsent == /\ Running("seq") /\ Top[2] < Len(Kids(Top[1])) /\ Kids(Top[1])[Top[2] + 1] = 0
                 /\ ctl' = Append(Pop(ctl), <<Top[1], Top[2] + 1>>)
                 /\ UNCHANGED <<chunk, i, cs, st, cur, blk, quiet>>     \* not counted: pos strictly grows
SeqLeave == /\ Running("seq") /\ Top[2] >= Len(Kids(Top[1]))
            /\ ctl' = Pop(ctl) /\ Silent

LoopEnter == /\ Running("loop") /\ Top[2] = 0
             /\ ctl' = Enter(Append(Pop(ctl), <<Top[1], 1>>), Kids(Top[1])[1])
             /\ Silent
\* the body ran to its end without break or continue: the loop is left
LoopFallOut == /\ Running("loop") /\ Top[2] # 0
               /\ ctl' = Pop(ctl) /\ Silent

DoBreak == /\ Running("break")
           /\ LET F == LoopFrame(Node(Top[1]).b)
              IN IF F = {} THEN Stop("stuck")
                 ELSE LET p == CHOOSE q \in F : TRUE
                      IN ctl' = SubSeq(ctl, 1, p - 1) /\ Silent
DoContinue == /\ Running("cont")
              /\ LET F == LoopFrame(Node(Top[1]).b)
                 IN IF F = {} THEN Stop("stuck")
                    ELSE LET p == CHOOSE q \in F : TRUE
                         IN ctl' = Enter(SubSeq(ctl, 1, p), Kids(ctl[p][1])[1]) /\ Silent

\* the structured program ran off its end without a return
FallOffEnd == /\ st = "run" /\ ctl = <<>>
              /\ st' = "end" /\ UNCHANGED <<chunk, i, cs, cur, ctl, blk, quiet>>

\* Before the machines start, the case passes through one state per static clause (TLC
\* reports one violated invariant per state, so each clause gets a state of its own).
Phases == <<"chk-outcome", "chk-wf", "chk-targets", "chk-covers", "chk-foreign">>
Check == /\ \E k \in 1..(Len(Phases) - 1) :
              /\ st = Phases[k]
              /\ st' = (IF ~C.out.ok THEN "refused" ELSE IF k >= 2 /\ ~IsTree THEN "illformed" ELSE Phases[k + 1])
         /\ UNCHANGED <<chunk, i, cs, cur, ctl, blk, quiet>>
\* the interpreter is only started on a tree
Begin == /\ st = Phases[Len(Phases)]
         /\ st' = "run" /\ cur' = G.entry /\ ctl' = Enter(<<>>, T.root)
         /\ UNCHANGED <<chunk, i, cs, blk, quiet>>

Step == \/ Check \/ Begin \/ ExecBasic \/ ExecIf \/ ExecMulti
        \/ SeqEnter \/ SeqSkipAbsent \/ SeqLeave
        \/ LoopEnter \/ LoopFallOut \/ DoBreak \/ DoContinue
        \/ FallOffEnd

\* picking the case out of a sequence (hand written for M, recorded for T): two-level
\* fan-out so that the workers share the cases
NChunks == 128
NoCase == [x \in {} |-> 0]
Init == chunk = 0 /\ i = 0 /\ cs = NoCase /\ st = "idle" /\ cur = 0 /\ ctl = <<>> /\ blk = 0 /\ quiet = 0
PickChunk == /\ chunk = 0 /\ chunk' \in 1..NChunks /\ UNCHANGED <<i, cs, st, cur, ctl, blk, quiet>>
\* (the action that binds a case is written out in Reloop_MC / Reloop_Trace over their own
\* case sequence: an action with the sequence as parameter would have TLC print the whole
\* sequence in every error trace)
PickGuard == chunk > 0 /\ i = 0
InChunk(len) == {x \in 1..len : x % NChunks = chunk - 1}
Picked == st' = Phases[1] /\ UNCHANGED <<chunk, cur, ctl, blk, quiet>>
\* what an error trace shows (the case itself is known to the harness through i)
ShownT == [i |-> i, st |-> st, cur |-> cur, ctl |-> ctl, blk |-> blk, quiet |-> quiet]

\* ---------------------------------------------------------------------------
\* the clauses of the property
\* ---------------------------------------------------------------------------
\* the structured program runs exactly the blocks the walk visits, in that order
TraceAgree == st # "mismatch"
\* ... and ends where the walk ends (only a return block ends the walk)
EndsAgree == st = "end" => cur = 0
\* it is a program of the known shapes, break/continue find their loop
Structured == st # "stuck"
\* the next block is reached after finitely many silent steps
Progress == i > 0 => quiet <= QuietBound
\* static clauses, judged once per case
WellFormed == st = "chk-wf" => IsTree
Targets == st = "chk-targets" => TargetsEnclosing
Covers == st = "chk-covers" => CoversAll
NoForeignBlock == st = "chk-foreign" => OnlyCfgBlocks
\* the only outcomes besides a tree are the two documented refusals, and the plain
\* documented classes are never refused
Outcome == (st = "chk-outcome" /\ ~C.out.ok) => (C.out.exc \in Refusals /\ ~MustBeStructured)

\* a law of the specification itself (holds on every case, right or wrong): a tree that
\* passes the static clauses and has an arm for every successor can always be run
ArmsComplete == \A k \in 1..NNodes :
    (Node(k).k \in {"if", "multi"} /\ Node(k).b \in Blocks) => Len(Kids(k)) >= Len(Succ(Node(k).b))
StaticImpliesRunnable == st = "stuck" => ~(IsTree /\ TargetsEnclosing /\ ArmsComplete)

TypeOK == /\ st \in {"idle", "run", "done", "end", "mismatch", "stuck", "refused", "illformed"} \cup Rng(Phases)
          /\ quiet \in Nat /\ cur \in Nat /\ blk \in Nat
=============================================================================
