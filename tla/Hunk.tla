-------------------------------- MODULE Hunk --------------------------------
(* The AmigaDOS hunk *load file*, written from the AmigaDOS Technical         *)
(* Reference Manual (Binary file structure, "load files") as summarised on    *)
(* http://amiga-dev.wikidot.com/file-format:hunk .  Everything is a sequence  *)
(* of big-endian longwords:                                                   *)
(*                                                                            *)
(*   HUNK_HEADER (3F3)                                                        *)
(*     resident library names: { N, N longwords of text } ... terminated by 0 *)
(*     table size   = highest hunk number + 1                                 *)
(*     first hunk F, last hunk L                                              *)
(*     L - F + 1 hunk sizes in longwords (bits 31/30 = memory flags)          *)
(*   then, per hunk F..L, blocks up to and including HUNK_END (3F2):          *)
(*     HUNK_CODE (3E9) / HUNK_DATA (3EA): N, N longwords                      *)
(*     HUNK_BSS (3EB): N                                                      *)
(*     HUNK_RELOC32 (3EC): { count, hunk number, count offsets } ... 0        *)
(*     HUNK_SYMBOL (3F0): { N, N longwords of name, value } ... 0             *)
(*     HUNK_DEBUG (3F1) / HUNK_NAME (3E8): N, N longwords                     *)
(* The reader below is total: HkRead(F) is defined for every byte sequence.   *)
EXTENDS FmtBytes

HUNK_NAME == 1000   HUNK_CODE == 1001   HUNK_DATA == 1002   HUNK_BSS == 1003   HUNK_RELOC32 == 1004
HUNK_SYMBOL == 1008   HUNK_DEBUG == 1009   HUNK_END == 1010   HUNK_HEADER == 1011

\* longword number q (0-based) of the file
HkLongs(F) == Len(F) \div 4
HkLong(F, q) == IF q >= 0 /\ q < HkLongs(F) THEN FNumBE(F, 4 * q, 4) ELSE FCap
\* sizes carry memory flags in the two upper bits
HkSizeOf(F, q) == IF q >= 0 /\ q < HkLongs(F)
                  THEN LET wd == FRawBE(F, 4 * q, 4) IN FNum(<<wd[1], wd[2], wd[3], wd[4] % 64>>) ELSE FCap

\* skip the list { N, N longwords } ... 0 ; result = position after the terminating 0, or FCap
RECURSIVE HkSkipNames(_, _, _)
HkSkipNames(F, q, cnt) ==
    LET nl == HkLong(F, q) IN
    IF nl = FCap THEN [pos |-> FCap, cnt |-> cnt]
    ELSE IF nl = 0 THEN [pos |-> q + 1, cnt |-> cnt]
    ELSE HkSkipNames(F, q + 1 + nl, cnt + 1)
RECURSIVE HkSkipReloc(_, _)
HkSkipReloc(F, q) ==
    LET nl == HkLong(F, q) IN
    IF nl = FCap THEN FCap ELSE IF nl = 0 THEN q + 1 ELSE HkSkipReloc(F, q + 2 + nl)
RECURSIVE HkSkipSymbols(_, _)
HkSkipSymbols(F, q) ==
    LET nl == HkSizeOf(F, q) IN      \* upper byte = symbol type
    IF nl = FCap THEN FCap ELSE IF HkLong(F, q) = 0 THEN q + 1 ELSE HkSkipSymbols(F, q + 2 + nl)

\* the blocks of one hunk from longword q on: result [pos (after HUNK_END) | FCap, blocks]
RECURSIVE HkBlocks(_, _, _)
HkBlocks(F, q, acc) ==
    LET id == HkSizeOf(F, q)
        nl == HkSizeOf(F, q + 1)
    IN IF id = FCap THEN [pos |-> FCap, blocks |-> acc]
       ELSE IF id = HUNK_END THEN [pos |-> q + 1, blocks |-> acc]
       ELSE IF id \in {HUNK_CODE, HUNK_DATA}
            THEN IF nl = FCap \/ q + 2 + nl > HkLongs(F) THEN [pos |-> FCap, blocks |-> acc]
                 ELSE HkBlocks(F, q + 2 + nl,
                               Append(acc, [id |-> id, longs |-> nl, bytes |-> FBytes(F, 4 * (q + 2), 4 * nl)]))
       ELSE IF id = HUNK_BSS
            THEN IF nl = FCap THEN [pos |-> FCap, blocks |-> acc]
                 ELSE HkBlocks(F, q + 2, Append(acc, [id |-> id, longs |-> nl, bytes |-> <<>>]))
       ELSE IF id \in {HUNK_DEBUG, HUNK_NAME}
            THEN IF nl = FCap THEN [pos |-> FCap, blocks |-> acc] ELSE HkBlocks(F, q + 2 + nl, acc)
       ELSE IF id = HUNK_RELOC32
            THEN LET e == HkSkipReloc(F, q + 1) IN
                 IF e = FCap THEN [pos |-> FCap, blocks |-> acc] ELSE HkBlocks(F, e, acc)
       ELSE IF id = HUNK_SYMBOL
            THEN LET e == HkSkipSymbols(F, q + 1) IN
                 IF e = FCap THEN [pos |-> FCap, blocks |-> acc] ELSE HkBlocks(F, e, acc)
       ELSE [pos |-> FCap, blocks |-> acc]

\* hunks cnt of them from longword q: result [pos | FCap, hunks = sequence of block sequences]
RECURSIVE HkHunks(_, _, _, _)
HkHunks(F, q, cnt, acc) ==
    IF cnt = 0 THEN [pos |-> q, hunks |-> acc]
    ELSE LET b == HkBlocks(F, q, <<>>) IN
         IF b.pos = FCap THEN [pos |-> FCap, hunks |-> Append(acc, b.blocks)]
         ELSE HkHunks(F, b.pos, cnt - 1, Append(acc, b.blocks))

HkNoFile == [ok |-> FALSE, aligned |-> FALSE, header |-> FALSE, libs |-> 0, tabsize |-> 0, first |-> 0,
             last |-> 0, sizes |-> <<>>, hunks |-> <<>>, endpos |-> FCap]
HkRead(F) ==
    IF Len(F) >= FCap THEN HkNoFile
    ELSE IF HkLong(F, 0) # HUNK_HEADER THEN [HkNoFile EXCEPT !.aligned = Len(F) % 4 = 0]
    ELSE LET nm == HkSkipNames(F, 1, 0)
             q == nm.pos
             ts == HkLong(F, q)
             fi == HkLong(F, q + 1)
             la == HkLong(F, q + 2)
             cnt == IF fi <= la /\ la < 65536 THEN la - fi + 1 ELSE 0
             tableok == q # FCap /\ ts # FCap /\ fi # FCap /\ la # FCap /\ cnt > 0 /\ q + 3 + cnt <= HkLongs(F)
         IN IF ~tableok THEN [HkNoFile EXCEPT !.aligned = Len(F) % 4 = 0, !.header = TRUE]
            ELSE LET hs == HkHunks(F, q + 3 + cnt, cnt, <<>>) IN
                 [ok |-> hs.pos # FCap, aligned |-> Len(F) % 4 = 0, header |-> TRUE, libs |-> nm.cnt,
                  tabsize |-> ts, first |-> fi, last |-> la,
                  sizes |-> Mk([k \in 1..cnt |-> HkSizeOf(F, q + 2 + k)]),
                  hunks |-> hs.hunks, endpos |-> hs.pos]

\* longwords a hunk occupies when loaded = the largest of its code / data / bss blocks
HkLoaded(blocks) == IF blocks = <<>> THEN 0
                    ELSE LET S == {blocks[k].longs : k \in 1..Len(blocks)} IN CHOOSE m \in S : \A o \in S : o <= m
\* well-formedness of the whole file (what the loader relies on)
HkWF(F, R) ==
    Fails("HkAligned", R.aligned)                                   \* whole longwords
    \cup Fails("HkHeader", R.header)                                \* starts with a readable HUNK_HEADER
    \cup Fails("HkTable", R.header /\ R.first <= R.last /\ R.tabsize = R.last + 1
                          /\ Len(R.sizes) = R.last - R.first + 1)
    \cup Fails("HkBlocks", R.ok /\ Len(R.hunks) = Len(R.sizes))     \* every announced hunk present, each ended by HUNK_END
    \cup Fails("HkSizes", R.ok /\ Len(R.hunks) = Len(R.sizes)
                          /\ \A k \in 1..Len(R.hunks) : HkLoaded(R.hunks[k]) <= R.sizes[k])
    \cup Fails("HkEnd", R.ok /\ R.endpos = HkLongs(F))              \* nothing after the last HUNK_END

\* data padded with zero bytes to whole longwords
HkPadded(data) == Mk([k \in 1..(4 * ((Len(data) + 3) \div 4)) |-> IF k <= Len(data) THEN data[k] ELSE 0])
\* reference encoder for a file with one code hunk
HkBE4(num) == <<0, (num \div 65536) % 256, (num \div 256) % 256, num % 256>>
HkEncode(data) == LET pd == HkPadded(data) nl == Len(pd) \div 4 IN
    HkBE4(HUNK_HEADER) \o HkBE4(0) \o HkBE4(1) \o HkBE4(0) \o HkBE4(0) \o HkBE4(nl)
    \o HkBE4(HUNK_CODE) \o HkBE4(nl) \o pd \o HkBE4(HUNK_END)

\* the clauses for a file F written for the code bytes `data`; rb = what ppci's own reader did with F
\*   rb = [ok, exc, code = sequence of the byte sequences its read_code returned, pos = bytes consumed]
HkFailures(F, data, rb) ==
    LET R == HkRead(F) IN
    HkWF(F, R)
    \cup Fails("HkContent", R.ok /\ Len(R.hunks) = 1 /\ Len(R.hunks[1]) = 1 /\ R.hunks[1][1].id = HUNK_CODE
                            /\ R.hunks[1][1].bytes = HkPadded(data))
    \cup Fails("HkReadBack", rb.ok /\ rb.code = <<HkPadded(data)>> /\ rb.pos = Len(F))
HkClauses == {"HkAligned", "HkHeader", "HkTable", "HkBlocks", "HkSizes", "HkEnd", "HkContent", "HkReadBack"}
=============================================================================
