------------------------------- MODULE BF_IR -------------------------------
(* The judgement of extension property X02 (Brainfuck half):                 *)
(*     BF (the abstract machine of the language)  is refined by  IR.         *)
(* A case is an IR.tla case, mods = <<projection of bf_to_ir(src, march)>>,   *)
(* fn = "main", no arguments, plus                                            *)
(*    obs  = the observation TLC computed for `src` with BF.tla (BF_Run),     *)
(*    tape = the number of cells the BF execution had.                        *)
(* Representation (the refinement mapping): `.` is a call of the external     *)
(* procedure bsp_putc with the cell value as its one (byte-sized) argument;   *)
(* any other external routine the module calls is an input routine, answered  *)
(* in order from the stub table (ext), so inputs are delivered in the order   *)
(* the machine reads them.  Only observable behaviour is compared: the        *)
(* sequence of calls and termination.                                         *)
(*                                                                            *)
(* Tape-length abstraction: ppci's tape has 30000 cells (checked on the       *)
(* emitted module by BF_Diag.tla, record kind "shape"); IR.tla cannot hold    *)
(* that much memory, so the driver rewrites the size of the global `data`     *)
(* and the one constant 30000 (the bound of the initialisation loop) to       *)
(* `tape`; BF.tla ran with the same number of cells, and executions that      *)
(* leave it are "undefined" (not judged).                                     *)
(*                                                                            *)
(* Step budget: an IR execution may take 8 instructions per BF command plus   *)
(* 8 per cell (initialisation) plus 100; BudgetAdequate checks that the       *)
(* driver granted at least that, so exhausting it means the IR does not       *)
(* terminate where the machine does.                                          *)
EXTENDS IR

B == C.obs
HasObs == Finished /\ ph = 1 /\ "obs" \in DOMAIN C
Judged == HasObs /\ B.status \in {"ok", "diverges"}
BudgetAdequate == i > 0 /\ "obs" \in DOMAIN C => C.fuel >= 8 * B.steps + 8 * C.tape + 100

IsOut(cl) == cl.name = "bsp_putc"
OutIdx == {j \in 1..Len(calls) : IsOut(calls[j])}
InIdx  == {j \in 1..Len(calls) : ~IsOut(calls[j])}
\* the n-th output call (in call order)
RECURSIVE NthOut(_, _)
NthOut(n, from) == IF IsOut(calls[from]) THEN (IF n = 1 THEN from ELSE NthOut(n - 1, from + 1)) ELSE NthOut(n, from + 1)
Writes(cl, b) == /\ Len(cl.args) = 1 /\ cl.args[1] # Poison /\ Len(cl.args[1]) >= 1
                 /\ cl.args[1][1] = b /\ \A x \in 2..Len(cl.args[1]) : cl.args[1][x] = 0
PeriodLen == Len(B.out) - B.cyc0
\* n-th output byte of a periodic execution (BF.tla: out[1..cyc0], then out[cyc0+1..] for ever)
OutAt(o, n) == IF n <= Len(o.out) THEN o.out[n] ELSE o.out[o.cyc0 + 1 + ((n - o.cyc0 - 1) % (Len(o.out) - o.cyc0))]

\* a Brainfuck program must not become IR that traps, reads undefined values, leaves its memory or is malformed
StaysDefined == Judged => status \in {"ok", "fuel"} /\ (status = "fuel" => why = "step budget")
\* terminates iff the machine does
Terminates   == (Judged /\ B.status = "ok") => status # "fuel"
Diverges     == (Judged /\ B.status = "diverges") => status # "ok"
\* exactly the machine's output
SameOutput   == (Judged /\ B.status = "ok" /\ status = "ok") =>
                   /\ Cardinality(OutIdx) = Len(B.out)
                   /\ \A n \in 1..Len(B.out) : Writes(calls[NthOut(n, 1)], B.out[n])
\* a periodic execution: whatever has been written when the budget ends is a prefix of the infinite output
OutputPrefix == (Judged /\ B.status = "diverges" /\ status = "fuel") =>
                   \A n \in 1..Cardinality(OutIdx) :
                      /\ (n > Len(B.out) => PeriodLen > 0)
                      /\ Writes(calls[NthOut(n, 1)], OutAt(B, n))
\* inputs: as many reads as the machine made (the stub table delivers them in order)
SameInputs   == (Judged /\ B.status = "ok" /\ status = "ok") => Cardinality(InIdx) = B.nin
=============================================================================
