------------------------------- MODULE PyVal -------------------------------
(* Values observed in an execution of generated Python, as the C24 runner    *)
(* (harness/c24_runner.py) writes them down:                                 *)
(*    [kind : "int" | "none" | "float" | "bool" | "other",                   *)
(*     neg : BOOLEAN, mag : little-endian bytes of the absolute value]       *)
(* A Python int is unbounded.  The property demands *fixed-width* results,   *)
(* so a recorded int designates a machine word of n bytes only if it lies in *)
(* the range of the n-byte type of the given signedness; the runner never    *)
(* masks, so an int the generated code failed to wrap is seen here.          *)
EXTENDS IROps

\* number of significant magnitude bytes (robust against trailing zero bytes)
ZLen(z) == LET S == {j \in 1..Len(z.mag) : z.mag[j] # 0} IN
           IF S = {} THEN 0 ELSE CHOOSE j \in S : \A k \in S : k <= j
ZIsZero(z) == ZLen(z) = 0

\* -2^(8n-1) <= v < 2^(8n-1)  (signed)     0 <= v < 2^(8n)  (unsigned)
ZFits(z, n, signed) ==
    LET L == ZLen(z) IN
    IF ZIsZero(z) THEN TRUE
    ELSE IF ~signed THEN ~z.neg /\ L <= n
    ELSE IF ~z.neg THEN L < n \/ (L = n /\ z.mag[n] < 128)
    ELSE L < n \/ (L = n /\ (z.mag[n] < 128 \/ (z.mag[n] = 128 /\ \A j \in 1..(n - 1) : z.mag[j] = 0)))

ZPad(z, n) == Mk([j \in 1..n |-> IF j <= Len(z.mag) THEN z.mag[j] ELSE 0])
\* two's-complement word of an in-range integer
ZWord(z, n) == IF z.neg THEN WNeg(ZPad(z, n)) ELSE ZPad(z, n)

\* the recorded Python value v is exactly the machine word w of a type with the given signedness
PyIsWord(v, w, signed) ==
    /\ v.kind = "int"
    /\ ZFits(v, Len(w), signed)
    /\ ZWord(v, Len(w)) = w
PyIsNone(v) == v.kind = "none"

\* small TLC integer -> recorded value (used by the model-checked laws and the float clause)
RECURSIVE MagOf(_)
MagOf(m) == IF m = 0 THEN <<>> ELSE <<m % 256>> \o MagOf(m \div 256)
ZOfInt(v) == [kind |-> "int", neg |-> v < 0, mag |-> MagOf(IF v < 0 THEN -v ELSE v)]
IntFits(v, n, signed) ==       \* n <= 3, or any n for |v| < 2^23
    IF n >= 4 THEN signed \/ v >= 0
    ELSE IF signed THEN -(2 ^ (8 * n - 1)) <= v /\ v < 2 ^ (8 * n - 1)
    ELSE 0 <= v /\ v < 2 ^ (8 * n)
=============================================================================
