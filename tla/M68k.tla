--------------------------------- MODULE M68k ---------------------------------
(* The MC68000 instruction set, transcribed from the M68000 Family            *)
(* Programmer's Reference Manual (M68000PM/AD): section 2 (addressing modes:  *)
(* effective address field mode / register, extension words, brief extension *)
(* word format), section 3.2 (addressing categories data / memory / control / *)
(* alterable), section 4 (instruction descriptions: instruction format,       *)
(* size field, opmode field, legal effective addressing modes) and section 8  *)
(* (operation code map, bits 15-12).  Of the MC68020 additions only the       *)
(* 32-bit branch displacement (8-bit displacement field $FF) is modelled.     *)
(* Written independently of ppci.                                             *)
(*                                                                           *)
(*   Decode(b)      instruction bytes (big-endian words) -> record             *)
(*   LineOf(op)     operation code map: the lines an operation word is in      *)
(*   Encode(i)      the reference encoder (inverse; laws in M68k_MC)           *)
(*   Asm(mn, ops, sym, pc)   meaning of a printed line: "addl (8, A3), D2",    *)
(*                  "move.l #5, (A0)", "bne label"                             *)
(*   Legal / WF / Norm   legal addressing modes, operand ranges, canonical     *)
(*                  reading of sized immediates                               *)
(*   Reads / Writes    registers read / written (D0-D7 = 0..7, A0-A7 = 8..15) *)
EXTENDS Integers, Sequences, FiniteSets, TLC

P2(n) == 2 ^ n                                        \* n <= 30
Bits(x, lo, n) == (x \div P2(lo)) % P2(n)             \* field x<lo+n-1:lo>
Bit(x, k) == (x \div P2(k)) % 2
SignExt(v, n) == IF v >= P2(n - 1) THEN v - P2(n) ELSE v     \* n-bit pattern -> signed value
Mod(v, m) == ((v % m) + m) % m                        \* non-negative remainder, whatever % does for v < 0
Pattern(v, n) == Mod(v, P2(n))                        \* signed value -> n-bit pattern
S16(x) == SignExt(x, 16)
S8(x) == SignExt(x, 8)

(* An operand.  k: dn an (register direct), ind post pre ((An) (An)+ -(An)), *)
(* d16 ((d16,An)), idx ((d8,An,Xn)), absw absl ((xxx).W (xxx).L), pcd pcx      *)
(* ((d16,PC) (d8,PC,Xn)), imm (#data), q (quick data 1..8), disp (branch       *)
(* displacement from the address of the instruction + 2), list (MOVEM mask,   *)
(* bit n = register n in the order D0..D7 A0..A7), ccr sr usp.                  *)
(* r: register number 0..7; x: index register of idx / pcx (0..7 Dn, 8..15 An, *)
(* + 16 when the index is long); v: displacement / value.  32-bit values are  *)
(* kept in their signed two's-complement reading; the displacement of pcd /   *)
(* pcx is relative to the address of the extension word.                      *)
Op(k, r, x, v) == [k |-> k, r |-> r, x |-> x, v |-> v]
NoOp == Op("none", 0, 0, 0)
BadOp == Op("bad", 0, 0, 0)
(* The decoded instruction: mn mnemonic without size suffix, sz "b" "w" "l" or *)
(* "" (unsized), src / dst operands (a single operand is dst), enc the chosen *)
(* encoding among equivalent ones (branch displacement size), len bytes.      *)
MI0 == [mn |-> "", sz |-> "", src |-> NoOp, dst |-> NoOp, enc |-> "", len |-> 0]
NotInsn == {"unsupported", "illegalmode", "length", "none", "unassigned"}
Bad(k, len) == [MI0 EXCEPT !.mn = k, !.len = len]
Valid(i) == i.mn \notin NotInsn
NoAsm == Bad("none", 0)
M(mn, sz, src, dst, n) == [MI0 EXCEPT !.mn = mn, !.sz = sz, !.src = src, !.dst = dst, !.len = 2 + 2 * n]
Dn(r) == Op("dn", r, 0, 0)
An(r) == Op("an", r, 0, 0)
Imm(v) == Op("imm", 0, 0, v)

CC == <<"t", "f", "hi", "ls", "cc", "cs", "ne", "eq", "vc", "vs", "pl", "mi", "ge", "lt", "gt", "le">>
BccNames == {"bra", "bsr"} \cup {"b" \o CC[k] : k \in 3..16}
DbccNames == {"db" \o CC[k] : k \in 1..16}
SccNames == {"s" \o CC[k] : k \in 1..16}
CondIndex(mn, prefix) == CHOOSE k \in 1..16 : mn = prefix \o CC[k]
ShiftNames == {"asr", "asl", "lsr", "lsl", "roxr", "roxl", "ror", "rol"}
BitNames == <<"btst", "bchg", "bclr", "bset">>
ImmNames == <<"ori", "andi", "subi", "addi", "?", "eori", "cmpi">>
\* what C08 compares: operation and operands.  ADDI / ADDQ are ADD with an immediate source, etc.
Generic(mn) ==
    CASE mn \in {"addi", "addq"} -> "add" [] mn \in {"subi", "subq"} -> "sub" [] mn = "ori" -> "or" [] mn = "andi" -> "and"
      [] mn = "eori" -> "eor" [] mn = "cmpi" -> "cmp" [] OTHER -> mn
Core(i) == [i EXCEPT !.mn = Generic(i.mn), !.enc = "", !.len = 0,
                     !.src = IF i.src.k = "q" /\ i.mn \in {"addq", "subq"} THEN Imm(i.src.v) ELSE i.src]

-----------------------------------------------------------------------------
(* Addressing categories (table 2-4 / section 3.2)                            *)
AllK == {"dn", "an", "ind", "post", "pre", "d16", "idx", "absw", "absl", "pcd", "pcx", "imm"}
DataK == AllK \ {"an"}
MemK == AllK \ {"dn", "an"}
CtlK == {"ind", "d16", "idx", "absw", "absl", "pcd", "pcx"}
AltK == {"dn", "an", "ind", "post", "pre", "d16", "idx", "absw", "absl"}
DataAlt == AltK \ {"an"}
MemAlt == AltK \ {"dn", "an"}
CtlAlt == CtlK \cap AltK
Sizes == {"b", "w", "l"}

\* legal operand kinds of every instruction (the "effective address" tables of section 4)
Legal(i) ==
    LET m == i.mn  s == i.src.k  d == i.dst.k  z == i.sz IN
    CASE m \in {"add", "sub"} -> z \in Sizes /\ ((d = "dn" /\ s \in AllK /\ (s = "an" => z # "b")) \/ (s = "dn" /\ d \in MemAlt))
      [] m = "cmp" -> z \in Sizes /\ d = "dn" /\ s \in AllK /\ (s = "an" => z # "b")
      [] m \in {"and", "or"} -> z \in Sizes /\ ((d = "dn" /\ s \in DataK) \/ (s = "dn" /\ d \in MemAlt))
      [] m = "eor" -> z \in Sizes /\ s = "dn" /\ d \in DataAlt
      [] m \in {"adda", "suba", "cmpa", "movea"} -> z \in {"w", "l"} /\ d = "an" /\ s \in AllK
      [] m \in {"ori", "andi", "eori"} -> s = "imm" /\ ((z \in Sizes /\ d \in DataAlt) \/ (z = "b" /\ d = "ccr") \/ (z = "w" /\ d = "sr"))
      [] m \in {"addi", "subi", "cmpi"} -> z \in Sizes /\ s = "imm" /\ d \in DataAlt
      [] m \in {"addq", "subq"} -> z \in Sizes /\ s = "q" /\ d \in AltK /\ (d = "an" => z # "b")
      [] m = "move" -> \/ z \in Sizes /\ s \in AllK /\ (s = "an" => z # "b") /\ d \in DataAlt
                       \/ z = "w" /\ s \in DataK /\ d \in {"ccr", "sr"}
                       \/ z = "w" /\ s = "sr" /\ d \in DataAlt
                       \/ z = "l" /\ ((s = "an" /\ d = "usp") \/ (s = "usp" /\ d = "an"))
      [] m = "moveq" -> z = "" /\ s = "imm" /\ d = "dn"
      [] m = "lea" -> z = "" /\ s \in CtlK /\ d = "an"
      [] m \in {"chk", "mulu", "muls", "divu", "divs"} -> z = "w" /\ s \in DataK /\ d = "dn"
      [] m \in {"negx", "clr", "neg", "not", "tst"} -> z \in Sizes /\ s = "none" /\ d \in DataAlt
      [] m \in {"nbcd", "tas"} \cup SccNames -> z = "" /\ s = "none" /\ d \in DataAlt
      [] m \in {"pea", "jsr", "jmp"} -> z = "" /\ s = "none" /\ d \in CtlK
      [] m = "swap" -> z = "" /\ s = "none" /\ d = "dn"
      [] m = "ext" -> z \in {"w", "l"} /\ s = "none" /\ d = "dn"
      [] m = "unlk" -> z = "" /\ s = "none" /\ d = "an"
      [] m = "link" -> z = "" /\ s = "an" /\ d = "imm"
      [] m \in {"trap", "stop"} -> z = "" /\ s = "none" /\ d = "imm"
      [] m \in {"nop", "rts", "rte", "rtr", "reset", "trapv", "illegal"} -> z = "" /\ s = "none" /\ d = "none"
      [] m \in BccNames -> z = "" /\ s = "none" /\ d = "disp"
      [] m \in DbccNames -> z = "" /\ s = "dn" /\ d = "disp"
      [] m \in {"abcd", "sbcd"} -> z = "" /\ ((s = "dn" /\ d = "dn") \/ (s = "pre" /\ d = "pre"))
      [] m \in {"addx", "subx"} -> z \in Sizes /\ ((s = "dn" /\ d = "dn") \/ (s = "pre" /\ d = "pre"))
      [] m = "cmpm" -> z \in Sizes /\ s = "post" /\ d = "post"
      [] m = "exg" -> z = "" /\ ((s = "dn" /\ d \in {"dn", "an"}) \/ (s = "an" /\ d = "an"))
      [] m \in ShiftNames -> (z \in Sizes /\ s \in {"q", "dn"} /\ d = "dn") \/ (z = "w" /\ s = "none" /\ d \in MemAlt)
      [] m = "btst" -> z = "" /\ ((s = "dn" /\ d \in DataK) \/ (s = "imm" /\ d \in DataK \ {"imm"}))
      [] m \in {"bchg", "bclr", "bset"} -> z = "" /\ s \in {"dn", "imm"} /\ d \in DataAlt
      [] m = "movem" -> z \in {"w", "l"} /\ ((s = "list" /\ d \in CtlAlt \cup {"pre"}) \/ (d = "list" /\ s \in CtlK \cup {"post"}))
      [] m = "movep" -> z \in {"w", "l"} /\ ((s = "dn" /\ d = "d16") \/ (s = "d16" /\ d = "dn"))
      [] OTHER -> FALSE

\* size of the immediate operand of an instruction ("" = the operand is not in extension words)
ImmSize(i) ==
    CASE i.mn \in {"moveq", "trap"} -> ""
      [] i.mn \in {"btst", "bchg", "bclr", "bset"} -> "b"
      [] i.mn \in {"stop", "link"} -> "w"
      [] OTHER -> i.sz
\* value ranges of an operand (o) whose immediate, if any, has size z
OpWF(o, z, i) ==
    /\ o.r \in 0..7
    /\ CASE o.k \in {"d16", "pcd"} -> o.v \in -32768..32767 /\ o.x = 0
         [] o.k \in {"idx", "pcx"} -> o.v \in -128..127 /\ o.x \in 0..31
         [] o.k = "absw" -> o.v \in -32768..65535 /\ o.x = 0
         [] o.k = "absl" -> o.x = 0
         [] o.k = "imm" -> (CASE i.mn = "moveq" -> o.v \in -128..127
                              [] i.mn = "trap" -> o.v \in 0..15
                              [] i.mn = "link" -> o.v \in -32768..32767
                              [] z = "b" -> o.v \in -128..255
                              [] z = "w" -> o.v \in -32768..65535
                              [] OTHER -> TRUE)
         [] o.k = "q" -> o.v \in 1..8
         [] o.k = "list" -> o.v \in 0..65535
         [] o.k = "disp" -> (i.mn \in DbccNames => o.v \in -32768..32767)
         [] OTHER -> o.v = 0 /\ o.x = 0
WF(i) == Legal(i) /\ OpWF(i.src, ImmSize(i), i) /\ OpWF(i.dst, ImmSize(i), i)
\* canonical reading: a byte / word immediate is its bit pattern, (xxx).W its sign-extended address
NormOp(o, z, i) ==
    CASE o.k = "imm" /\ i.mn \notin {"moveq", "trap", "link"} /\ z = "b" -> [o EXCEPT !.v = Mod(o.v, 256)]
      [] o.k = "imm" /\ i.mn \notin {"moveq", "trap", "link"} /\ z = "w" -> [o EXCEPT !.v = Mod(o.v, 65536)]
      [] o.k = "absw" -> [o EXCEPT !.v = S16(Mod(o.v, 65536))]
      [] OTHER -> o
Norm(i) == [i EXCEPT !.src = NormOp(i.src, ImmSize(i), i), !.dst = NormOp(i.dst, ImmSize(i), i)]

-----------------------------------------------------------------------------
(* Decoding.  ws: the 16-bit words of the instruction, ws[1] the operation     *)
(* word; a missing extension word reads as 0 and the final length check      *)
(* rejects the truncated instruction.                                         *)
Xw(ws, k) == IF k <= Len(ws) THEN ws[k] ELSE 0
Long(ws, k) == S16(Xw(ws, k)) * 65536 + Xw(ws, k + 1)
SzOf(c) == <<"b", "w", "l">>[c + 1]
ImmAt(z, ws, k) == Imm(CASE z = "b" -> Xw(ws, k) % 256 [] z = "w" -> Xw(ws, k) [] OTHER -> Long(ws, k))
ImmWords(z) == IF z = "l" THEN 2 ELSE 1
Rev16(m) == LET b(k) == Bit(m, k) IN
    b(15) + 2 * b(14) + 4 * b(13) + 8 * b(12) + 16 * b(11) + 32 * b(10) + 64 * b(9) + 128 * b(8) + 256 * b(7) + 512 * b(6)
    + 1024 * b(5) + 2048 * b(4) + 4096 * b(3) + 8192 * b(2) + 16384 * b(1) + 32768 * b(0)
\* effective address field mode m / register r; extension words from ws[k]: [op, n words]
EA(m, r, z, ws, k) ==
    CASE m = 0 -> [op |-> Dn(r), n |-> 0]
      [] m = 1 -> [op |-> An(r), n |-> 0]
      [] m = 2 -> [op |-> Op("ind", r, 0, 0), n |-> 0]
      [] m = 3 -> [op |-> Op("post", r, 0, 0), n |-> 0]
      [] m = 4 -> [op |-> Op("pre", r, 0, 0), n |-> 0]
      [] m = 5 -> [op |-> Op("d16", r, 0, S16(Xw(ws, k))), n |-> 1]
      [] m = 6 -> LET e == Xw(ws, k) IN                                        \* brief extension word: D/A reg W/L 00 0 disp8
                  IF Bit(e, 8) = 1 \/ Bits(e, 9, 2) # 0 THEN [op |-> BadOp, n |-> 1]
                  ELSE [op |-> Op("idx", r, Bits(e, 12, 4) + 16 * Bit(e, 11), S8(Bits(e, 0, 8))), n |-> 1]
      [] m = 7 /\ r = 0 -> [op |-> Op("absw", 0, 0, S16(Xw(ws, k))), n |-> 1]
      [] m = 7 /\ r = 1 -> [op |-> Op("absl", 0, 0, Long(ws, k)), n |-> 2]
      [] m = 7 /\ r = 2 -> [op |-> Op("pcd", 0, 0, S16(Xw(ws, k))), n |-> 1]
      [] m = 7 /\ r = 3 -> LET e == Xw(ws, k) IN
                  IF Bit(e, 8) = 1 \/ Bits(e, 9, 2) # 0 THEN [op |-> BadOp, n |-> 1]
                  ELSE [op |-> Op("pcx", 0, Bits(e, 12, 4) + 16 * Bit(e, 11), S8(Bits(e, 0, 8))), n |-> 1]
      [] m = 7 /\ r = 4 -> IF z = "" THEN [op |-> BadOp, n |-> 0] ELSE [op |-> ImmAt(z, ws, k), n |-> ImmWords(z)]
      [] OTHER -> [op |-> BadOp, n |-> 0]

Rg(op) == Bits(op, 9, 3)
Opm(op) == Bits(op, 6, 3)
Szc(op) == Bits(op, 6, 2)
Md(op) == Bits(op, 3, 3)
Rn(op) == Bits(op, 0, 3)
Ea2(ws, z) == EA(Md(ws[1]), Rn(ws[1]), z, ws, 2)      \* the effective address field of the operation word
Uns == Bad("unsupported", 2)
EaDn(mn, z, ws) == LET e == Ea2(ws, z) IN M(mn, z, e.op, Dn(Rg(ws[1])), e.n)
DnEa(mn, z, ws) == LET e == Ea2(ws, z) IN M(mn, z, Dn(Rg(ws[1])), e.op, e.n)
EaAn(mn, z, ws) == LET e == Ea2(ws, z) IN M(mn, z, e.op, An(Rg(ws[1])), e.n)
Unary(mn, z, ws) == LET e == Ea2(ws, z) IN M(mn, z, NoOp, e.op, e.n)

DecLine0(ws) ==                                                              \* 0000: bit manipulation / MOVEP / immediate
    LET op == ws[1] IN
    IF Bit(op, 8) = 1 THEN
        IF Md(op) = 1 THEN                                                    \* MOVEP: 0000 ddd 1 dir sz 001 aaa
            LET z == IF Bit(op, 6) = 0 THEN "w" ELSE "l"  mem == Op("d16", Rn(op), 0, S16(Xw(ws, 2))) IN
            IF Bit(op, 7) = 0 THEN M("movep", z, mem, Dn(Rg(op)), 1) ELSE M("movep", z, Dn(Rg(op)), mem, 1)
        ELSE LET e == Ea2(ws, "b") IN M(BitNames[Szc(op) + 1], "", Dn(Rg(op)), e.op, e.n)     \* bit number in Dn
    ELSE LET k == Rg(op) IN
        CASE k = 4 -> LET e == EA(Md(op), Rn(op), "b", ws, 3) IN                                 \* bit number in an extension word
                      M(BitNames[Szc(op) + 1], "", Imm(Xw(ws, 2) % 256), e.op, 1 + e.n)
          [] k = 7 \/ Szc(op) = 3 -> Uns                                      \* MOVES; CMP2 / CHK2 / CAS (MC68020)
          [] OTHER -> LET z == SzOf(Szc(op))  mn == ImmNames[k + 1]  n1 == ImmWords(z) IN
                      IF Md(op) = 7 /\ Rn(op) = 4
                      THEN M(mn, z, ImmAt(z, ws, 2), Op(IF z = "b" THEN "ccr" ELSE "sr", 0, 0, 0), 1)   \* to CCR / to SR
                      ELSE LET e == EA(Md(op), Rn(op), z, ws, 2 + n1) IN M(mn, z, ImmAt(z, ws, 2), e.op, n1 + e.n)

DecMove(ws) ==                                                               \* 00 size dst-reg dst-mode src-mode src-reg
    LET op == ws[1]  z == <<"b", "l", "w">>[Bits(op, 12, 2)]
        se == Ea2(ws, z)  de == EA(Opm(op), Rg(op), z, ws, 2 + se.n) IN
    IF Opm(op) = 1 THEN M("movea", z, se.op, An(Rg(op)), se.n) ELSE M("move", z, se.op, de.op, se.n + de.n)

DecMisc4E(ws) ==                                                             \* 0100 1110 01xx xxxx
    LET op == ws[1]  low == Bits(op, 0, 6) IN
    CASE low \in 0..15 -> M("trap", "", NoOp, Imm(low), 0)
      [] low \in 16..23 -> M("link", "", An(Rn(op)), Imm(S16(Xw(ws, 2))), 1)
      [] low \in 24..31 -> M("unlk", "", NoOp, An(Rn(op)), 0)
      [] low \in 32..39 -> M("move", "l", An(Rn(op)), Op("usp", 0, 0, 0), 0)
      [] low \in 40..47 -> M("move", "l", Op("usp", 0, 0, 0), An(Rn(op)), 0)
      [] low = 48 -> M("reset", "", NoOp, NoOp, 0)
      [] low = 49 -> M("nop", "", NoOp, NoOp, 0)
      [] low = 50 -> M("stop", "", NoOp, Imm(Xw(ws, 2)), 1)
      [] low = 51 -> M("rte", "", NoOp, NoOp, 0)
      [] low = 53 -> M("rts", "", NoOp, NoOp, 0)
      [] low = 54 -> M("trapv", "", NoOp, NoOp, 0)
      [] low = 55 -> M("rtr", "", NoOp, NoOp, 0)
      [] OTHER -> Uns                                                         \* RTD, MOVEC (MC68010)

DecLine4(ws) ==                                                              \* 0100: miscellaneous
    LET op == ws[1]  top == Bits(op, 8, 4)  c == Szc(op) IN
    IF Bit(op, 8) = 1 THEN
        CASE c = 3 -> EaAn("lea", "", ws)                                      \* 0100 aaa 111 ea
          [] c = 2 -> EaDn("chk", "w", ws)                                     \* 0100 ddd 110 ea
          [] OTHER -> Uns
    ELSE
        CASE top = 0 -> IF c = 3 THEN LET e == Ea2(ws, "w") IN M("move", "w", Op("sr", 0, 0, 0), e.op, e.n)
                        ELSE Unary("negx", SzOf(c), ws)
          [] top = 2 -> IF c = 3 THEN Uns ELSE Unary("clr", SzOf(c), ws)
          [] top = 4 -> IF c = 3 THEN LET e == Ea2(ws, "w") IN M("move", "w", e.op, Op("ccr", 0, 0, 0), e.n)
                        ELSE Unary("neg", SzOf(c), ws)
          [] top = 6 -> IF c = 3 THEN LET e == Ea2(ws, "w") IN M("move", "w", e.op, Op("sr", 0, 0, 0), e.n)
                        ELSE Unary("not", SzOf(c), ws)
          [] top = 8 -> (CASE c = 0 -> Unary("nbcd", "", ws)
                           [] c = 1 -> IF Md(op) = 0 THEN M("swap", "", NoOp, Dn(Rn(op)), 0)
                                       ELSE IF Md(op) = 1 THEN Uns ELSE Unary("pea", "", ws)
                           [] OTHER -> LET z == IF c = 2 THEN "w" ELSE "l" IN
                                       IF Md(op) = 0 THEN M("ext", z, NoOp, Dn(Rn(op)), 0)
                                       ELSE LET e == EA(Md(op), Rn(op), z, ws, 3)  mask == Xw(ws, 2) IN    \* MOVEM registers to memory
                                            M("movem", z, Op("list", 0, 0, IF Md(op) = 4 THEN Rev16(mask) ELSE mask), e.op, 1 + e.n))
          [] top = 10 -> IF c = 3 THEN (IF op = 19196 THEN M("illegal", "", NoOp, NoOp, 0) ELSE Unary("tas", "", ws))   \* $4AFC
                         ELSE Unary("tst", SzOf(c), ws)
          [] top = 12 -> IF c \in {2, 3} THEN LET z == IF c = 2 THEN "w" ELSE "l"  e == EA(Md(op), Rn(op), z, ws, 3) IN
                                              M("movem", z, e.op, Op("list", 0, 0, Xw(ws, 2)), 1 + e.n)      \* MOVEM memory to registers
                         ELSE Uns
          [] top = 14 -> (CASE c = 2 -> Unary("jsr", "", ws) [] c = 3 -> Unary("jmp", "", ws) [] c = 1 -> DecMisc4E(ws) [] OTHER -> Uns)
          [] OTHER -> Uns

DecLine5(ws) ==                                                              \* 0101: ADDQ / SUBQ / Scc / DBcc
    LET op == ws[1]  c == Szc(op) IN
    IF c # 3 THEN LET e == Ea2(ws, SzOf(c)) IN
                  M(IF Bit(op, 8) = 0 THEN "addq" ELSE "subq", SzOf(c), Op("q", 0, 0, IF Rg(op) = 0 THEN 8 ELSE Rg(op)), e.op, e.n)
    ELSE IF Md(op) = 1 THEN M("db" \o CC[Bits(op, 8, 4) + 1], "", Dn(Rn(op)), Op("disp", 0, 0, S16(Xw(ws, 2))), 1)
    ELSE Unary("s" \o CC[Bits(op, 8, 4) + 1], "", ws)

DecBcc(ws) ==                                                                \* 0110 cond disp8: BRA / BSR / Bcc
    LET op == ws[1]  c == Bits(op, 8, 4)  d8 == Bits(op, 0, 8)
        mn == IF c = 0 THEN "bra" ELSE IF c = 1 THEN "bsr" ELSE "b" \o CC[c + 1] IN
    CASE d8 = 0 -> [M(mn, "", NoOp, Op("disp", 0, 0, S16(Xw(ws, 2))), 1) EXCEPT !.enc = "w"]
      [] d8 = 255 -> [M(mn, "", NoOp, Op("disp", 0, 0, Long(ws, 2)), 2) EXCEPT !.enc = "l"]      \* MC68020 and later
      [] OTHER -> [M(mn, "", NoOp, Op("disp", 0, 0, S8(d8)), 0) EXCEPT !.enc = "b"]

DecArith(ws, line) ==                                                        \* 1000 OR, 1001 SUB, 1011 CMP / EOR, 1100 AND, 1101 ADD
    LET op == ws[1]  o == Opm(op)  m == Md(op)  z == SzOf(o % 4)
        base == CASE line = 8 -> "or" [] line = 9 -> "sub" [] line = 11 -> "cmp" [] line = 12 -> "and" [] line = 13 -> "add"
        pair(mn, zz) == IF m = 0 THEN M(mn, zz, Dn(Rn(op)), Dn(Rg(op)), 0)
                        ELSE M(mn, zz, Op("pre", Rn(op), 0, 0), Op("pre", Rg(op), 0, 0), 0) IN
    CASE o \in {3, 7} -> (CASE line = 8 -> EaDn(IF o = 3 THEN "divu" ELSE "divs", "w", ws)
                            [] line = 12 -> EaDn(IF o = 3 THEN "mulu" ELSE "muls", "w", ws)
                            [] OTHER -> EaAn(base \o "a", IF o = 3 THEN "w" ELSE "l", ws))       \* SUBA CMPA ADDA
      [] o \in {0, 1, 2} -> EaDn(base, z, ws)
      [] line = 11 -> IF m = 1 THEN M("cmpm", z, Op("post", Rn(op), 0, 0), Op("post", Rg(op), 0, 0), 0) ELSE DnEa("eor", z, ws)
      [] m \in {0, 1} /\ line \in {9, 13} -> pair(base \o "x", z)                                   \* SUBX ADDX
      [] m \in {0, 1} /\ line = 8 -> IF o = 4 THEN pair("sbcd", "") ELSE Uns                       \* PACK / UNPK (MC68020)
      [] m \in {0, 1} /\ line = 12 ->
            (CASE o = 4 -> pair("abcd", "")
               [] o = 5 /\ m = 0 -> M("exg", "", Dn(Rg(op)), Dn(Rn(op)), 0)
               [] o = 5 /\ m = 1 -> M("exg", "", An(Rg(op)), An(Rn(op)), 0)
               [] o = 6 /\ m = 1 -> M("exg", "", Dn(Rg(op)), An(Rn(op)), 0)
               [] OTHER -> Bad("illegalmode", 2))
      [] OTHER -> DnEa(base, z, ws)

ShName(ty, dr) == <<"as", "ls", "rox", "ro">>[ty + 1] \o (IF dr = 0 THEN "r" ELSE "l")
DecShift(ws) ==                                                              \* 1110: shift / rotate
    LET op == ws[1] IN
    IF Szc(op) = 3 THEN (IF Bit(op, 11) = 1 THEN Uns                           \* bit field (MC68020)
                         ELSE Unary(ShName(Bits(op, 9, 2), Bit(op, 8)), "w", ws))
    ELSE M(ShName(Bits(op, 3, 2), Bit(op, 8)), SzOf(Szc(op)),
           IF Bit(op, 5) = 0 THEN Op("q", 0, 0, IF Rg(op) = 0 THEN 8 ELSE Rg(op)) ELSE Dn(Rg(op)), Dn(Rn(op)), 0)

\* operation code map (section 8): bits 15-12 of the operation word
Lines == {"bit-movep-imm", "move.b", "move.l", "move.w", "misc", "addq-subq-scc-dbcc", "bcc-bsr-bra", "moveq", "or-div-sbcd",
          "sub-subx", "a-line", "cmp-eor", "and-mul-abcd-exg", "add-addx", "shift-rotate", "f-line"}
LineMatch(l, op) ==
    LET t == Bits(op, 12, 4) IN
    CASE l = "bit-movep-imm" -> t = 0 [] l = "move.b" -> t = 1 [] l = "move.l" -> t = 2 [] l = "move.w" -> t = 3 [] l = "misc" -> t = 4
      [] l = "addq-subq-scc-dbcc" -> t = 5 [] l = "bcc-bsr-bra" -> t = 6 [] l = "moveq" -> t = 7 [] l = "or-div-sbcd" -> t = 8
      [] l = "sub-subx" -> t = 9 [] l = "a-line" -> t = 10 [] l = "cmp-eor" -> t = 11 [] l = "and-mul-abcd-exg" -> t = 12
      [] l = "add-addx" -> t = 13 [] l = "shift-rotate" -> t = 14 [] l = "f-line" -> t = 15
LineOf(op) == {l \in Lines : LineMatch(l, op)}
DecWords(ws) ==
    LET op == ws[1]  l == CHOOSE x \in LineOf(op) : TRUE IN
    CASE l = "bit-movep-imm" -> DecLine0(ws)
      [] l \in {"move.b", "move.l", "move.w"} -> DecMove(ws)
      [] l = "misc" -> DecLine4(ws)
      [] l = "addq-subq-scc-dbcc" -> DecLine5(ws)
      [] l = "bcc-bsr-bra" -> DecBcc(ws)
      [] l = "moveq" -> IF Bit(op, 8) = 1 THEN Uns ELSE M("moveq", "", Imm(S8(Bits(op, 0, 8))), Dn(Rg(op)), 0)
      [] l = "or-div-sbcd" -> DecArith(ws, 8)
      [] l = "sub-subx" -> DecArith(ws, 9)
      [] l = "cmp-eor" -> DecArith(ws, 11)
      [] l = "and-mul-abcd-exg" -> DecArith(ws, 12)
      [] l = "add-addx" -> DecArith(ws, 13)
      [] l = "shift-rotate" -> DecShift(ws)
      [] OTHER -> Bad("unassigned", 2)                                        \* A-line, F-line (coprocessor)
Check(d, nbytes) ==
    IF ~Valid(d) THEN d
    ELSE IF d.src.k = "bad" \/ d.dst.k = "bad" \/ ~Legal(d) THEN Bad("illegalmode", d.len)
    ELSE IF d.len # nbytes THEN Bad("length", nbytes)
    ELSE d
Words(b) == [k \in 1..(Len(b) \div 2) |-> 256 * b[2 * k - 1] + b[2 * k]]
Decode(b) == IF Len(b) < 2 \/ Len(b) % 2 = 1 THEN Bad("length", Len(b))
             ELSE \* bind the decoded record once
                  LET d == DecWords(Words(b)) IN Check(d, Len(b))

-----------------------------------------------------------------------------
(* The reference encoder: record -> words, from the instruction formats       *)
Hi16(v) == LET lo == Mod(v, 65536) IN Mod((v - lo) \div 65536, 65536)
LongWords(v) == <<Hi16(v), Mod(v, 65536)>>
ImmExt(z, v) == IF z = "l" THEN LongWords(v) ELSE IF z = "b" THEN <<Mod(v, 256)>> ELSE <<Mod(v, 65536)>>
Brief(o) == (o.x % 16) * 4096 + (o.x \div 16) * 2048 + Pattern(o.v, 8)
\* [m, r, ext] of an operand
EncEA(o, z) ==
    CASE o.k = "dn" -> [m |-> 0, r |-> o.r, ext |-> <<>>]
      [] o.k = "an" -> [m |-> 1, r |-> o.r, ext |-> <<>>]
      [] o.k = "ind" -> [m |-> 2, r |-> o.r, ext |-> <<>>]
      [] o.k = "post" -> [m |-> 3, r |-> o.r, ext |-> <<>>]
      [] o.k = "pre" -> [m |-> 4, r |-> o.r, ext |-> <<>>]
      [] o.k = "d16" -> [m |-> 5, r |-> o.r, ext |-> <<Pattern(o.v, 16)>>]
      [] o.k = "idx" -> [m |-> 6, r |-> o.r, ext |-> <<Brief(o)>>]
      [] o.k = "absw" -> [m |-> 7, r |-> 0, ext |-> <<Pattern(o.v, 16)>>]
      [] o.k = "absl" -> [m |-> 7, r |-> 1, ext |-> LongWords(o.v)]
      [] o.k = "pcd" -> [m |-> 7, r |-> 2, ext |-> <<Pattern(o.v, 16)>>]
      [] o.k = "pcx" -> [m |-> 7, r |-> 3, ext |-> <<Brief(o)>>]
      [] o.k = "imm" -> [m |-> 7, r |-> 4, ext |-> ImmExt(z, o.v)]
Fld(e) == 8 * e.m + e.r
SzC(z) == CASE z = "b" -> 0 [] z = "w" -> 1 [] z = "l" -> 2
LineNo(base) == CASE base = "or" -> 8 [] base = "sub" -> 9 [] base = "cmp" -> 11 [] base = "eor" -> 11 [] base = "and" -> 12 [] base = "add" -> 13
IndexOf(seq, x) == CHOOSE k \in 1..Len(seq) : seq[k] = x
ShTy(mn) == CASE mn \in {"asr", "asl"} -> 0 [] mn \in {"lsr", "lsl"} -> 1 [] mn \in {"roxr", "roxl"} -> 2 [] mn \in {"ror", "rol"} -> 3
ShDr(mn) == IF mn \in {"asl", "lsl", "roxl", "rol"} THEN 1 ELSE 0
UnaryOp(mn) == CASE mn = "negx" -> 64 [] mn = "clr" -> 66 [] mn = "neg" -> 68 [] mn = "not" -> 70 [] mn = "tst" -> 74       \* $40 $42 $44 $46 $4A
EncWords(i) ==
    LET m == i.mn  z == i.sz  s == i.src  d == i.dst
        se == EncEA(s, z)  de == EncEA(d, z) IN
    CASE m \in {"add", "sub", "cmp", "and", "or"} /\ d.k = "dn" ->
            <<LineNo(m) * 4096 + d.r * 512 + SzC(z) * 64 + Fld(se)>> \o se.ext
      [] m \in {"add", "sub", "and", "or", "eor"} /\ ~(m # "eor" /\ d.k = "dn") ->
            <<LineNo(m) * 4096 + s.r * 512 + (4 + SzC(z)) * 64 + Fld(de)>> \o de.ext
      [] m \in {"adda", "suba", "cmpa"} ->
            <<LineNo(CASE m = "adda" -> "add" [] m = "suba" -> "sub" [] m = "cmpa" -> "cmp") * 4096 + d.r * 512
              + (IF z = "w" THEN 3 ELSE 7) * 64 + Fld(se)>> \o se.ext
      [] m \in {"ori", "andi", "subi", "addi", "eori", "cmpi"} ->
            <<(IndexOf(ImmNames, m) - 1) * 512 + SzC(z) * 64 + (IF d.k \in {"ccr", "sr"} THEN 60 ELSE Fld(de))>>
            \o ImmExt(z, s.v) \o (IF d.k \in {"ccr", "sr"} THEN <<>> ELSE de.ext)
      [] m \in {"addq", "subq"} -> <<5 * 4096 + (s.v % 8) * 512 + (IF m = "subq" THEN 256 ELSE 0) + SzC(z) * 64 + Fld(de)>> \o de.ext
      [] m = "movea" -> <<(CASE z = "w" -> 3 [] z = "l" -> 2) * 4096 + d.r * 512 + 64 + Fld(se)>> \o se.ext
      [] m = "move" /\ d.k = "ccr" -> LET e == EncEA(s, "w") IN <<17600 + Fld(e)>> \o e.ext                \* $44C0
      [] m = "move" /\ d.k = "sr" -> LET e == EncEA(s, "w") IN <<18112 + Fld(e)>> \o e.ext                 \* $46C0
      [] m = "move" /\ s.k = "sr" -> <<16576 + Fld(de)>> \o de.ext                                          \* $40C0
      [] m = "move" /\ d.k = "usp" -> <<20064 + s.r>>                                                       \* $4E60
      [] m = "move" /\ s.k = "usp" -> <<20072 + d.r>>                                                       \* $4E68
      [] m = "move" /\ d.k \notin {"ccr", "sr", "usp"} /\ s.k \notin {"sr", "usp"} ->
            <<(CASE z = "b" -> 1 [] z = "w" -> 3 [] z = "l" -> 2) * 4096 + de.r * 512 + de.m * 64 + Fld(se)>> \o se.ext \o de.ext
      [] m = "moveq" -> <<7 * 4096 + d.r * 512 + Pattern(s.v, 8)>>
      [] m = "lea" -> <<4 * 4096 + d.r * 512 + 7 * 64 + Fld(se)>> \o se.ext
      [] m = "chk" -> <<4 * 4096 + d.r * 512 + 6 * 64 + Fld(se)>> \o se.ext
      [] m \in {"divu", "divs"} -> <<8 * 4096 + d.r * 512 + (IF m = "divu" THEN 3 ELSE 7) * 64 + Fld(se)>> \o se.ext
      [] m \in {"mulu", "muls"} -> <<12 * 4096 + d.r * 512 + (IF m = "mulu" THEN 3 ELSE 7) * 64 + Fld(se)>> \o se.ext
      [] m \in {"negx", "clr", "neg", "not", "tst"} -> <<UnaryOp(m) * 256 + SzC(z) * 64 + Fld(de)>> \o de.ext
      [] m = "nbcd" -> <<18432 + Fld(de)>> \o de.ext                                                        \* $4800
      [] m = "pea" -> <<18496 + Fld(de)>> \o de.ext                                                         \* $4840
      [] m = "swap" -> <<18496 + d.r>>
      [] m = "ext" -> <<18432 + (IF z = "w" THEN 2 ELSE 3) * 64 + d.r>>
      [] m = "tas" -> <<19136 + Fld(de)>> \o de.ext                                                         \* $4AC0
      [] m = "illegal" -> <<19196>>
      [] m = "jsr" -> <<20096 + Fld(de)>> \o de.ext                                                         \* $4E80
      [] m = "jmp" -> <<20160 + Fld(de)>> \o de.ext                                                         \* $4EC0
      [] m = "trap" -> <<20032 + d.v>>                                                                      \* $4E40
      [] m = "link" -> <<20048 + s.r, Pattern(d.v, 16)>>                                                    \* $4E50
      [] m = "unlk" -> <<20056 + d.r>>                                                                      \* $4E58
      [] m = "reset" -> <<20080>> [] m = "nop" -> <<20081>> [] m = "stop" -> <<20082, Mod(d.v, 65536)>> [] m = "rte" -> <<20083>>
      [] m = "rts" -> <<20085>> [] m = "trapv" -> <<20086>> [] m = "rtr" -> <<20087>>
      [] m \in SccNames -> <<5 * 4096 + (CondIndex(m, "s") - 1) * 256 + 192 + Fld(de)>> \o de.ext
      [] m \in DbccNames -> <<5 * 4096 + (CondIndex(m, "db") - 1) * 256 + 192 + 8 + s.r, Pattern(d.v, 16)>>
      [] m \in BccNames ->
            LET c == IF m = "bra" THEN 0 ELSE IF m = "bsr" THEN 1 ELSE CondIndex(m, "b") - 1 IN
            (CASE i.enc = "b" -> <<6 * 4096 + c * 256 + Pattern(d.v, 8)>>
               [] i.enc = "w" -> <<6 * 4096 + c * 256, Pattern(d.v, 16)>>
               [] i.enc = "l" -> <<6 * 4096 + c * 256 + 255>> \o LongWords(d.v))
      [] m \in {"abcd", "sbcd", "addx", "subx"} ->
            <<(CASE m = "abcd" -> 12 [] m = "sbcd" -> 8 [] m = "addx" -> 13 [] m = "subx" -> 9) * 4096 + d.r * 512 + 256
              + (IF z = "" THEN 0 ELSE SzC(z)) * 64 + (IF s.k = "pre" THEN 8 ELSE 0) + s.r>>
      [] m = "cmpm" -> <<11 * 4096 + d.r * 512 + 256 + SzC(z) * 64 + 8 + s.r>>
      [] m = "exg" -> <<12 * 4096 + s.r * 512 + 256 + (IF s.k = "dn" /\ d.k = "dn" THEN 64 ELSE IF s.k = "an" THEN 72 ELSE 136) + d.r>>
      [] m \in ShiftNames /\ s.k = "none" -> <<14 * 4096 + ShTy(m) * 512 + ShDr(m) * 256 + 192 + Fld(de)>> \o de.ext
      [] m \in ShiftNames /\ s.k # "none" ->
            <<14 * 4096 + (IF s.k = "q" THEN s.v % 8 ELSE s.r) * 512 + ShDr(m) * 256 + SzC(z) * 64 + (IF s.k = "dn" THEN 32 ELSE 0)
              + ShTy(m) * 8 + d.r>>
      [] m \in {"btst", "bchg", "bclr", "bset"} ->
            LET e == EncEA(d, "b")  t == IndexOf(BitNames, m) - 1 IN
            IF s.k = "dn" THEN <<s.r * 512 + 256 + t * 64 + Fld(e)>> \o e.ext
            ELSE <<2048 + t * 64 + Fld(e), Mod(s.v, 256)>> \o e.ext
      [] m = "movem" /\ s.k = "list" -> <<18560 + (IF z = "l" THEN 64 ELSE 0) + Fld(de), IF d.k = "pre" THEN Rev16(s.v) ELSE s.v>> \o de.ext   \* $4880
      [] m = "movem" /\ d.k = "list" -> <<19584 + (IF z = "l" THEN 64 ELSE 0) + Fld(se), d.v>> \o se.ext    \* $4C80
      [] m = "movep" -> IF s.k = "dn" THEN <<s.r * 512 + 256 + 128 + (IF z = "l" THEN 64 ELSE 0) + 8 + d.r, Pattern(d.v, 16)>>
                        ELSE <<d.r * 512 + 256 + (IF z = "l" THEN 64 ELSE 0) + 8 + s.r, Pattern(s.v, 16)>>
RECURSIVE WordBytes(_, _)
WordBytes(ws, k) == IF k > Len(ws) THEN <<>> ELSE <<ws[k] \div 256, ws[k] % 256>> \o WordBytes(ws, k + 1)
Encode(i) == WordBytes(EncWords(i), 1)
\* smallest branch encoding that holds the displacement (0 and -1 are not byte displacements)
Complete(i) ==
    IF i.mn \in BccNames /\ i.enc = ""
    THEN [i EXCEPT !.enc = IF i.dst.v \in -128..127 /\ i.dst.v \notin {0, -1} THEN "b" ELSE IF i.dst.v \in -32768..32767 THEN "w" ELSE "l"]
    ELSE i
EncWF(i) == WF(i) /\ Norm(i) = i
            /\ (i.mn \in BccNames => ((i.enc = "b" /\ i.dst.v \in -128..127 /\ i.dst.v \notin {0, -1})
                                      \/ (i.enc = "w" /\ i.dst.v \in -32768..32767) \/ i.enc = "l"))
            /\ (i.mn \notin BccNames => i.enc = "")
            /\ (i.mn \in DbccNames => i.dst.v \in -32768..32767)
            /\ (i.mn \in {"btst", "bchg", "bclr", "bset"} /\ i.src.k = "imm" => i.src.v \in 0..255)
            /\ (i.mn = "stop" => i.dst.v \in 0..65535)

-----------------------------------------------------------------------------
(* Meaning of a printed line.  Operand tokens <<kind, number, text>>: d a data *)
(* / address register, i integer, l label, "(" ")" "," "#" "+" "-" glyphs,    *)
(* s size suffix of an absolute address (text w | l), p the program counter,  *)
(* x anything else.  The mnemonic carries the size as a suffix letter with or *)
(* without a dot (addl, add.l).                                                *)
SizedBases == {"add", "sub", "cmp", "and", "or", "eor", "adda", "suba", "cmpa", "movea", "move", "addi", "subi", "cmpi", "ori", "andi",
               "eori", "addq", "subq", "negx", "clr", "neg", "not", "tst", "ext", "addx", "subx", "cmpm", "movem", "movep",
               "chk", "mulu", "muls", "divu", "divs"} \cup ShiftNames
UnsizedBases == {"moveq", "lea", "pea", "jsr", "jmp", "swap", "unlk", "link", "trap", "stop", "nop", "rts", "rte", "rtr", "reset",
                 "trapv", "illegal", "nbcd", "tas", "abcd", "sbcd", "exg", "btst", "bchg", "bclr", "bset"}
                \cup BccNames \cup DbccNames \cup SccNames
\* <<spelling, base, size>>
Spellings == {<<b \o z, b, z>> : b \in SizedBases, z \in Sizes} \cup {<<b \o "." \o z, b, z>> : b \in SizedBases, z \in Sizes}
             \cup {<<b, b, "">> : b \in UnsizedBases \cup ShiftNames}
             \cup {<<"moveq.l", "moveq", "">>, <<"lea.l", "lea", "">>, <<"dbra", "dbf", "">>}
             \cup {<<b, b, "w">> : b \in {"mulu", "muls", "divu", "divs", "chk"}}      \* word operations when no size is written
MnParses(mn) == {x \in Spellings : x[1] = mn}
\* one operand starting at token k: [op, next] (op.k = "bad": not an operand)
ParseOp(ops, k) ==
    LET n == Len(ops)
        K(j) == IF j <= n THEN ops[j][1] ELSE "$"
        V(j) == ops[j][2] IN
    CASE K(k) = "d" -> [op |-> Dn(V(k)), next |-> k + 1]
      [] K(k) = "a" -> [op |-> An(V(k)), next |-> k + 1]
      [] K(k) = "#" /\ K(k + 1) = "i" -> [op |-> Imm(V(k + 1)), next |-> k + 2]
      [] K(k) = "l" -> [op |-> Op("lab", 0, 0, 0), next |-> k + 1]
      [] K(k) = "-" /\ K(k + 1) = "(" /\ K(k + 2) = "a" /\ K(k + 3) = ")" -> [op |-> Op("pre", V(k + 2), 0, 0), next |-> k + 4]
      [] K(k) = "(" /\ K(k + 1) = "a" /\ K(k + 2) = ")" /\ K(k + 3) = "+" -> [op |-> Op("post", V(k + 1), 0, 0), next |-> k + 4]
      [] K(k) = "(" /\ K(k + 1) = "a" /\ K(k + 2) = ")" /\ K(k + 3) # "+" -> [op |-> Op("ind", V(k + 1), 0, 0), next |-> k + 3]
      [] K(k) = "(" /\ K(k + 1) = "i" /\ K(k + 2) = "," /\ K(k + 3) = "a" /\ K(k + 4) = ")" ->
            [op |-> Op("d16", V(k + 3), 0, V(k + 1)), next |-> k + 5]
      [] K(k) = "(" /\ K(k + 1) = "i" /\ K(k + 2) = "," /\ K(k + 3) = "p" /\ K(k + 4) = ")" ->
            [op |-> Op("pcd", 0, 0, V(k + 1)), next |-> k + 5]
      [] K(k) = "(" /\ K(k + 1) = "i" /\ K(k + 2) = "," /\ K(k + 3) = "a" /\ K(k + 4) = "," /\ K(k + 5) \in {"d", "a"} /\ K(k + 6) = ")" ->
            [op |-> Op("idx", V(k + 3), (IF K(k + 5) = "a" THEN 8 ELSE 0) + V(k + 5) + (IF ops[k + 5][3] = "l" THEN 16 ELSE 0), V(k + 1)),
             next |-> k + 7]
      [] K(k) = "(" /\ K(k + 1) = "i" /\ K(k + 2) = ")" /\ K(k + 3) = "s" ->
            [op |-> Op(IF ops[k + 3][3] = "w" THEN "absw" ELSE "absl", 0, 0, V(k + 1)), next |-> k + 4]
      [] K(k) = "i" -> [op |-> Op("num", 0, 0, V(k)), next |-> k + 1]         \* a bare number: absolute address / displacement
      [] OTHER -> [op |-> BadOp, next |-> k]
Asm(mn0, ops, sym, pc) ==
    IF Cardinality(MnParses(mn0)) # 1 THEN NoAsm
    ELSE LET sp == CHOOSE x \in MnParses(mn0) : TRUE
             mn == sp[2]  z == sp[3]  n == Len(ops)
             p1 == ParseOp(ops, 1)
             two == n > 0 /\ p1.op.k # "bad" /\ p1.next <= n /\ ops[p1.next][1] = ","
             p2 == IF two THEN ParseOp(ops, p1.next + 1) ELSE [op |-> NoOp, next |-> p1.next]
             okshape == IF n = 0 THEN TRUE ELSE p1.op.k # "bad" /\ p2.op.k # "bad" /\ p2.next = n + 1
             \* a label operand: branch target (displacement from pc + 2) or (d16,PC) (from the extension word at pc + 2)
             Lab(o, branch) == IF o.k = "lab" THEN (IF branch THEN Op("disp", 0, 0, sym - (pc + 2)) ELSE Op("pcd", 0, 0, sym - (pc + 2))) ELSE o
             branchy == mn \in BccNames \cup DbccNames
             a == Lab(IF n = 0 THEN NoOp ELSE p1.op, branchy)
             b == Lab(p2.op, branchy)
             single == n > 0 /\ ~two
             src == IF single THEN NoOp ELSE a
             dst == IF single THEN a ELSE b
             \* generic spellings: the destination selects ADDA / MOVEA / CMPA / SUBA
             mn2 == IF mn \in {"add", "sub", "cmp", "move"} /\ dst.k = "an" THEN mn \o "a"
                    \* an immediate source to anything but a data register is ADDI / SUBI / CMPI / ANDI / ORI; EOR has only EORI
                    ELSE IF mn \in {"add", "sub", "cmp", "and", "or"} /\ src.k = "imm" /\ dst.k # "dn" THEN mn \o "i"
                    ELSE IF mn = "eor" /\ src.k = "imm" THEN "eori"
                    ELSE mn
             z2 == IF mn \in ShiftNames /\ z = "" THEN "w" ELSE z                   \* memory shifts are word sized
             \* quick forms take their data from the instruction word
             src2 == IF mn2 \in {"addq", "subq"} \cup ShiftNames /\ src.k = "imm" THEN Op("q", 0, 0, src.v) ELSE src IN
         IF ~okshape \/ src.k = "num" \/ dst.k = "num" THEN NoAsm
         ELSE [MI0 EXCEPT !.mn = mn2, !.sz = z2, !.src = src2, !.dst = dst]

-----------------------------------------------------------------------------
(* Registers read / written by an instruction (section 4, "Operation").       *)
(* D0-D7 = 0..7, A0-A7 = 8..15.  A partial (byte / word) write of a data      *)
(* register counts as a write; the condition codes and the program counter    *)
(* are not in these sets.                                                      *)
AddrRegs(o) ==                                         \* registers used to form the address of an operand
    CASE o.k \in {"ind", "post", "pre", "d16"} -> {8 + o.r}
      [] o.k = "idx" -> {8 + o.r, o.x % 16}
      [] o.k = "pcx" -> {o.x % 16}
      [] OTHER -> {}
AddrUpd(o) == IF o.k \in {"post", "pre"} THEN {8 + o.r} ELSE {}
Direct(o) == CASE o.k = "dn" -> {o.r} [] o.k = "an" -> {8 + o.r} [] OTHER -> {}
ListRegs(o) == IF o.k = "list" THEN {r \in 0..15 : Bit(o.v, r) = 1} ELSE {}
SPReg == 15
ReadsDst(mn) == mn \in {"add", "sub", "and", "or", "eor", "adda", "suba", "addi", "subi", "andi", "ori", "eori", "addq", "subq", "cmp",
                        "cmpa", "cmpi", "cmpm", "tst", "neg", "negx", "not", "nbcd", "tas", "chk", "mulu", "muls", "divu", "divs",
                        "addx", "subx", "abcd", "sbcd", "swap", "ext", "exg", "btst", "bchg", "bclr", "bset", "jsr", "jmp",
                        "unlk"} \cup ShiftNames \cup DbccNames
WritesDst(mn) == mn \notin {"cmp", "cmpa", "cmpi", "cmpm", "tst", "chk", "btst", "jsr", "jmp", "pea", "trap", "stop", "link"}
                              \cup BccNames \cup DbccNames
Reads(i) ==
    Direct(i.src) \cup AddrRegs(i.src) \cup AddrRegs(i.dst) \cup ListRegs(i.src)
    \cup (IF ReadsDst(i.mn) THEN Direct(i.dst) ELSE {})
    \cup (IF i.mn \in DbccNames THEN {i.src.r} ELSE {})
    \cup (IF i.mn \in {"jsr", "bsr", "rts", "rtr", "rte", "pea", "link", "unlk"} THEN {SPReg} ELSE {})
Writes(i) ==
    AddrUpd(i.src) \cup AddrUpd(i.dst) \cup ListRegs(i.dst)
    \cup (IF WritesDst(i.mn) THEN Direct(i.dst) ELSE {})
    \cup (IF i.mn \in DbccNames \cup {"exg", "link"} THEN Direct(i.src) ELSE {})
    \cup (IF i.mn \in {"jsr", "bsr", "rts", "rtr", "rte", "pea", "link", "unlk"} THEN {SPReg} ELSE {})
\* the stack pointer A7 is fixed implicit state of the subroutine instructions
ImplicitR(i) == {SPReg}
ImplicitW(i) == {SPReg}

-----------------------------------------------------------------------------
(* Operand ranges of the printed forms, for the boundary generation (idiom G) *)
(* <<what, lo, hi, step>>                                                      *)
MRanges == {<<"imm.b", -128, 255, 1>>, <<"imm.w", -32768, 65535, 1>>, <<"imm.l", -2147483647, 2147483647, 1>>,
            <<"d16", -32768, 32767, 1>>, <<"absw", -32768, 65535, 1>>, <<"moveq", -128, 127, 1>>,
            <<"pcd", -32768, 32767, 1>>, <<"branch", -2147483646, 2147483646, 2>>}
=============================================================================
