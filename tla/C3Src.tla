-------------------------------- MODULE C3Src --------------------------------
(* Small-step semantics of the C3 language that ppci defines (docs/reference/ *)
(* lang/c3.rst, ppci/lang/c3), for the abstract programs of harness/c3gen.py. *)
(*                                                                           *)
(* Sources of the rules, and the decisions taken where they are silent       *)
(* (property C37: "fixed-width integer arithmetic of the declared types,     *)
(* short-circuit conditions, loops, switch and calls, as computed by an      *)
(* equivalent C program under a conforming C compiler"):                     *)
(*  D1  Types.  int8_t .. uint64_t are what their names say; `byte` is an    *)
(*      unsigned 8-bit integer; `int` is a signed integer of the target's    *)
(*      int size - 32 bits on both targets of this check (x86_64, arm), the  *)
(*      driver verifies that; `bool` is a type of its own (no arithmetic, no *)
(*      conversion from or to integers), stored in an int-sized cell as 0/1. *)
(*  D2  The type of a binary arithmetic / comparison expression is the       *)
(*      "greatest common type" documented in Context.get_common_type:        *)
(*      equal types -> that type (byte + byte -> byte); otherwise signed if  *)
(*      either operand is signed, with the larger of the two widths          *)
(*      (byte + int -> int).  Both operands are converted to it.  There are  *)
(*      NO integer promotions: arithmetic is done in the common type and     *)
(*      wraps around at its width (two's complement for signed types).       *)
(*  D3  Implicit conversion (assignment, initialisation, argument, return,   *)
(*      operand, array index -> int) is allowed for: same type; unsigned ->  *)
(*      wider-or-equal unsigned; signed -> wider-or-equal signed; unsigned   *)
(*      of n bits -> signed of more than n + 1 bits; signed -> any unsigned  *)
(*      (TypeChecker.do_coerce).  Everything else needs cast<T>(e).  A       *)
(*      program that needs another implicit conversion is not in the         *)
(*      language (status "stuck": a generator bug, never a verdict).         *)
(*  D4  A conversion keeps the value when the target can represent it and    *)
(*      otherwise reduces it modulo 2^width (C 6.3.1.3p1-2; for signed       *)
(*      targets this is the two's complement wrap-around of "fixed-width     *)
(*      arithmetic of the declared types", C 6.3.1.3p3 as every conforming   *)
(*      compiler for these targets defines it).                              *)
(*  D5  / and % truncate toward zero (C 6.5.5p6).  Undefined, hence no       *)
(*      verdict: division by zero, MIN / -1, MIN % -1, shift by a negative   *)
(*      amount or by >= the width of the common type, array index out of     *)
(*      bounds, use of an uninitialised local, null / dangling pointer.      *)
(*      >> of a negative signed value is implementation-defined in C: no     *)
(*      verdict ("impldef").  << of a signed value wraps like *.             *)
(*  D6  `and` / `or` evaluate the right operand only when needed; `not`,     *)
(*      comparisons and bool literals yield bool; conditions must be bool.   *)
(*  D7  Evaluation order of the operands of a binary operator, of the        *)
(*      arguments of a call, of the elements of an array initialiser and of  *)
(*      the two sides of an assignment is not documented; in C it is         *)
(*      unspecified.  An execution whose result could depend on it (two such *)
(*      evaluations interfere through a call) gives no verdict ("unspec").   *)
(*  D8  switch: the expression has type int, the first case whose constant   *)
(*      equals it is executed, else `default` (mandatory); no fall-through   *)
(*      (the language has no `break`).  for (init; c; step) body is          *)
(*      init; while (c) { body; step } (docs: "works like in C"; the         *)
(*      language has no `continue`).  All `var`s of a function live in one   *)
(*      function scope.  Globals without initialiser are zero (C 6.7.9p10).  *)
(*  D9  Constant expressions (const definitions, global initialisers, case   *)
(*      labels) are evaluated with the same typed arithmetic as run-time     *)
(*      expressions (C 6.6p11: "the semantic rules for the evaluation of a   *)
(*      constant expression are the same as for nonconstant expressions").   *)
(*      sizeof(T[n]) = n * sizeof(T), of type int (C 6.5.3.4).               *)
(*  Out of the model (never generated): floats, strings, structs, pointer    *)
(*  arithmetic and comparison (ppci adds the integer unscaled, unlike C),    *)
(*  pointers to pointers, functions returning pointers, casts from / to      *)
(*  bool or pointers, other uses of sizeof, multiple modules, externals.     *)
(*                                                                           *)
(* A *case* is [id, prog, fn, argv : Seq(Seq(word)), fuel].  The machine     *)
(* runs prog.fn(argv[av]) and yields                                         *)
(*   Obs = [status, why, ret (word of the return type, <<>> for void),       *)
(*          globals (Seq([name, off, bytes]) for every non-pointer global)]. *)
(* status: ok | undefined | impldef | unspec | fuel | stuck.                 *)
(*                                                                           *)
(* Expressions are evaluated by the recursive operator Eval; statements are  *)
(* executed small-step, one named action per statement kind, over a          *)
(* continuation stack.  All objects (globals and the locals of every live    *)
(* activation) live in one store `mem`, keyed <<frame id, name>> (frame id 0 *)
(* = globals), so that pointers to locals can be passed down the call chain. *)
(* A call of a function met inside an expression suspends the statement:     *)
(* the callee runs in a new frame, its outcome is appended to the caller's   *)
(* `pend` list and the statement is evaluated again from the store in which  *)
(* it began (`snap`), replaying completed calls from `pend` (as in Src.tla). *)
EXTENDS Words, FiniteSets, TLC, Json, IOUtils

Cases == JsonDeserialize(IOEnv.TRACE_FILE)     \* sequence of cases
NChunks == 64
MaxDepth == 12

VARIABLES chunk,   \* fan-out helper (0 = not chosen yet)
          i,       \* case under execution (0 = none yet)
          av,      \* argument vector of the case under execution
          stack,   \* activation frames, top = last
          mem,     \* the store: <<frame id, name>> -> object
          nfr,     \* frame ids handed out so far
          status,  \* "idle" | "run" | "ok" | "undefined" | "impldef" | "unspec" | "fuel" | "stuck"
          why,     \* reason for a non-ok status
          ret,     \* returned word of the outermost activation
          steps    \* transitions taken

vars == <<chunk, i, av, stack, mem, nfr, status, why, ret, steps>>

(* ======================= types (D1 - D3) ==================================== *)
IntTypes == {"i8", "u8", "i16", "u16", "i32", "u32", "i64", "u64"}
IntT == "i32"                     \* `int`
BoolT == "bool"
Size(t) == CASE t \in {"i8", "u8"} -> 1 [] t \in {"i16", "u16"} -> 2
             [] t \in {"i32", "u32", "bool"} -> 4 [] t \in {"i64", "u64"} -> 8 [] OTHER -> 0
IsSigned(t) == t \in {"i8", "i16", "i32", "i64"}
MkInt(sg, n) == CASE n = 1 -> (IF sg THEN "i8" ELSE "u8") [] n = 2 -> (IF sg THEN "i16" ELSE "u16")
                  [] n = 4 -> (IF sg THEN "i32" ELSE "u32") [] n = 8 -> (IF sg THEN "i64" ELSE "u64")
                  [] OTHER -> "none"
MaxN(a, b) == IF a >= b THEN a ELSE b
\* D2: Context.get_common_type
CommonType(t1, t2) ==
    IF t1 = t2 /\ t1 \in IntTypes \cup {BoolT} THEN t1
    ELSE IF t1 \in IntTypes /\ t2 \in IntTypes
         THEN MkInt(IsSigned(t1) \/ IsSigned(t2), MaxN(Size(t1), Size(t2)))
         ELSE "none"
\* D3: TypeChecker.do_coerce
CanCoerce(f, t) ==
    \/ f = t /\ f \in IntTypes \cup {BoolT}
    \/ /\ f \in IntTypes /\ t \in IntTypes
       /\ \/ ~IsSigned(f) /\ ~IsSigned(t) /\ Size(f) <= Size(t)
          \/ IsSigned(f) /\ IsSigned(t) /\ Size(f) <= Size(t)
          \/ ~IsSigned(f) /\ IsSigned(t) /\ 8 * Size(f) < 8 * Size(t) - 1
          \/ IsSigned(f) /\ ~IsSigned(t)

(* ======================= values, objects, results =========================== *)
IV(t, w) == [ty |-> t, w |-> w]                                  \* integer / bool value; w = <<>>: uninitialised
PV(ety, key, j) == [ty |-> "ptr", ety |-> ety, key |-> key, j |-> j]   \* pointer to object key (j = 0) / its element j
NullKey == <<-1, "">>
UninitKey == <<-2, "">>
VoidV == [ty |-> "void", w |-> <<>>]
IsInt(v) == v.ty \in IntTypes
BoolV(b) == IV(BoolT, IF b THEN WOne(4) ELSE WZero(4))

Scal(t, w) == [k |-> "s", ty |-> t, w |-> w]
Arr(t, el) == [k |-> "a", ty |-> t, el |-> el]
PtrO(ety, key, j) == [k |-> "p", ty |-> ety, key |-> key, j |-> j]

\* effects of an evaluation: objects read / written (D7)
NoFx == [r |-> {}, w |-> {}]
Rd(key) == [r |-> {key}, w |-> {}]
Wr(key) == [r |-> {}, w |-> {key}]
Join(f, g) == [r |-> f.r \cup g.r, w |-> f.w \cup g.w]
Conflict(f, g) == \/ f.w \cap (g.r \cup g.w) # {}
                  \/ g.w \cap (f.r \cup f.w) # {}

\* results of Eval: st = "ok" (v, S, fx) | "call" (f, objs, S) | a final status (why)
Ok(v, S, fx) == [st |-> "ok", v |-> v, S |-> S, fx |-> fx]
Bad(st, reason) == [st |-> st, why |-> reason]
NeedCall(fi, objs, S) == [st |-> "call", f |-> fi, args |-> objs, S |-> S]
OkV(v) == [st |-> "ok", v |-> v]

(* ======================= conversions (D3, D4) ================================ *)
ConvW(w, from, to) == WResize(w, Size(to), IsSigned(from))
\* explicit cast<T>(e) between integer types
CastTo(v, to) ==
    IF ~IsInt(v) \/ to \notin IntTypes THEN Bad("stuck", "cast from / to a non-integer type")
    ELSE OkV(IV(to, ConvW(v.w, v.ty, to)))
\* implicit conversion to an integer / bool type
Coerce(v, to) ==
    IF v.ty \notin IntTypes \cup {BoolT} \/ ~CanCoerce(v.ty, to) THEN Bad("stuck", "no implicit conversion")
    ELSE OkV(IV(to, ConvW(v.w, v.ty, to)))
\* implicit conversion to a declared type d = [ty, ptr]
CoerceD(v, d) ==
    IF d.ptr THEN (IF v.ty = "ptr" /\ v.ety = d.ty THEN OkV(v) ELSE Bad("stuck", "pointer type mismatch"))
    ELSE Coerce(v, d.ty)

\* small mathematical value of an integer value: [ok, n], ok iff |value| < 2^31
SmallInt(v) ==
    IF IsSigned(v.ty) /\ IsNegW(v.w)
    THEN LET m == WNeg(v.w) IN
         IF WFitsNat(m) THEN [ok |-> TRUE, n |-> -WToNat(m)] ELSE [ok |-> FALSE, n |-> 0]
    ELSE IF WFitsNat(v.w) THEN [ok |-> TRUE, n |-> WToNat(v.w)] ELSE [ok |-> FALSE, n |-> 0]

(* ======================= operators (D2, D5) =================================== *)
CmpOps == {"<", "<=", ">", ">=", "==", "!="}
ArithOps == {"+", "-", "*", "/", "%", "&", "|", "^", "<<", ">>"}
CmpVal(op, a, b, sg) ==
    CASE op = "==" -> a = b
      [] op = "!=" -> a # b
      [] op = "<"  -> WLt(a, b, sg)
      [] op = ">"  -> WLt(b, a, sg)
      [] op = "<=" -> ~WLt(b, a, sg)
      [] op = ">=" -> ~WLt(a, b, sg)

\* binary operators other than `and` / `or` on two integer / bool values
Arith(op, va, vb) ==
    LET t == CommonType(va.ty, vb.ty) IN
    IF t = "none" \/ ~CanCoerce(va.ty, t) \/ ~CanCoerce(vb.ty, t) THEN Bad("stuck", "operand types do not commute")
    ELSE LET a == ConvW(va.w, va.ty, t)
             b == ConvW(vb.w, vb.ty, t)
             sg == IsSigned(t)
         IN IF op \in CmpOps THEN OkV(BoolV(CmpVal(op, a, b, sg)))
            ELSE IF t = BoolT THEN Bad("stuck", "arithmetic on bool")
            ELSE CASE op = "+" -> OkV(IV(t, WAdd(a, b)))
                   [] op = "-" -> OkV(IV(t, WSub(a, b)))
                   [] op = "*" -> OkV(IV(t, WMul(a, b)))
                   [] op \in {"/", "%"} ->
                         IF WIsZero(b) THEN Bad("undefined", "division by zero")
                         ELSE IF sg /\ WIsMin(a) /\ WIsMinusOne(b) THEN Bad("undefined", "quotient not representable")
                         ELSE OkV(IV(t, IF op = "/" THEN WDiv(a, b, sg) ELSE WRem(a, b, sg)))
                   [] op = "&" -> OkV(IV(t, WAnd(a, b)))
                   [] op = "|" -> OkV(IV(t, WOr(a, b)))
                   [] op = "^" -> OkV(IV(t, WXor(a, b)))
                   [] op \in {"<<", ">>"} ->
                         IF (sg /\ IsNegW(b)) \/ ~WFitsNat(b) \/ WToNat(b) >= 8 * Len(a)
                         THEN Bad("undefined", "shift amount negative or >= width")
                         ELSE IF op = "<<" THEN OkV(IV(t, WShl(a, WToNat(b))))
                         ELSE IF sg /\ IsNegW(a) THEN Bad("impldef", "right shift of a negative value")
                         ELSE OkV(IV(t, WShrL(a, WToNat(b))))
                   [] OTHER -> Bad("stuck", "unknown binary operator")

Unary(op, va) ==
    CASE op = "not" -> IF va.ty = BoolT THEN OkV(BoolV(WIsZero(va.w))) ELSE Bad("stuck", "not of a non-bool")
      [] op = "-" -> IF IsInt(va) THEN OkV(IV(va.ty, WNeg(va.w))) ELSE Bad("stuck", "unary - of a non-integer")
      [] op = "+" -> IF IsInt(va) THEN OkV(va) ELSE Bad("stuck", "unary + of a non-integer")
      [] OTHER -> Bad("stuck", "unknown unary operator")

BaseOp(op) == CASE op = "+=" -> "+" [] op = "-=" -> "-" [] op = "*=" -> "*" [] op = "&=" -> "&" [] op = "|=" -> "|"
                [] OTHER -> "?"

(* ======================= program lookup ===================================== *)
IdxByName(seq, name) == LET S == {k \in 1..Len(seq) : seq[k].n = name} IN IF S = {} THEN 0 ELSE CHOOSE k \in S : TRUE
FnIdx(name, P) == IdxByName(P.funcs, name)
ConstIdx(name, P) == IdxByName(P.consts, name)
\* a name designates a local of the current activation, else a global (function scope inside module scope)
Lookup(n, X, S) == IF <<X.fid, n>> \in DOMAIN S.m THEN <<X.fid, n>>
                   ELSE IF <<0, n>> \in DOMAIN S.m THEN <<0, n>> ELSE <<-3, n>>
DeclT(d) == [ty |-> d.ty, ptr |-> d.ptr]

(* ======================= expressions ========================================= *)
\* X = [fid, prog, pend] context;  S = [m, np] threaded state (store, replayed calls)
RECURSIVE Eval(_, _, _), LVal(_, _, _), EvalArgs(_, _, _, _, _, _), ConstVal(_, _, _), ConstExpr(_, _, _)

OkL(loc, cur, lty, S, fx) == [st |-> "ok", loc |-> loc, cur |-> cur, lty |-> lty, S |-> S, fx |-> fx]
ObjCur(o, j) == CASE o.k = "s" -> IV(o.ty, o.w)
                  [] o.k = "a" -> IV(o.ty, o.el[j])
                  [] o.k = "p" -> PV(o.ty, o.key, o.j)
ObjT(o) == [ty |-> o.ty, ptr |-> o.k = "p"]

\* const definitions: the value of the defining expression converted to the declared type (D9)
ConstVal(ci, X, S) ==
    LET c == X.prog.consts[ci]
        r == Eval(c.e, [X EXCEPT !.fid = 0, !.pend = <<>>], [m |-> <<>>, np |-> 0])
    IN IF r.st # "ok" THEN (IF r.st = "call" THEN Bad("stuck", "call in a constant expression") ELSE r)
       ELSE LET z == Coerce(r.v, c.ty) IN IF z.st # "ok" THEN z ELSE Ok(z.v, S, NoFx)

\* designate an object: variable, array element a[e], *p
LVal(lv, X, S) ==
    CASE lv.k = "var" ->
           LET key == Lookup(lv.n, X, S) IN
           IF key[1] < 0 THEN Bad("stuck", "unknown variable")
           ELSE LET o == S.m[key] IN
                IF o.k = "a" THEN Bad("stuck", "array used as a simple variable")
                ELSE OkL([key |-> key, j |-> 0], ObjCur(o, 0), ObjT(o), S, NoFx)
      [] lv.k = "idx" ->
           LET key == Lookup(lv.a, X, S) IN
           IF key[1] < 0 THEN Bad("stuck", "unknown array")
           ELSE IF S.m[key].k # "a" THEN Bad("stuck", "not an array")
           ELSE LET r == Eval(lv.e, X, S) IN
                IF r.st # "ok" THEN r
                ELSE LET c == Coerce(r.v, IntT) IN                 \* the index is converted to int
                     IF c.st # "ok" THEN c
                     ELSE LET o == r.S.m[key]
                              ix == SmallInt(c.v)
                          IN IF ~ix.ok \/ ix.n < 0 \/ ix.n >= Len(o.el) THEN Bad("undefined", "array index out of bounds")
                             ELSE OkL([key |-> key, j |-> ix.n + 1], ObjCur(o, ix.n + 1), [ty |-> o.ty, ptr |-> FALSE], r.S, r.fx)
      [] lv.k = "deref" ->
           LET r == Eval(lv.e, X, S) IN
           IF r.st # "ok" THEN r
           ELSE IF r.v.ty # "ptr" THEN Bad("stuck", "dereference of a non-pointer")
           ELSE LET p == r.v IN
                IF p.key \notin DOMAIN r.S.m THEN Bad("undefined", "null, uninitialised or dangling pointer")
                ELSE LET o == r.S.m[p.key] IN
                     IF p.j = 0 /\ o.k = "s" /\ o.ty = p.ety
                     THEN OkL([key |-> p.key, j |-> 0], ObjCur(o, 0), ObjT(o), r.S, r.fx)
                     ELSE IF p.j > 0 /\ o.k = "a" /\ o.ty = p.ety /\ p.j <= Len(o.el)
                     THEN OkL([key |-> p.key, j |-> p.j], ObjCur(o, p.j), [ty |-> o.ty, ptr |-> FALSE], r.S, r.fx)
                     ELSE Bad("stuck", "pointer does not point to an object of its type")
      [] OTHER -> Bad("stuck", "not an lvalue")

\* arguments / initialiser elements are evaluated left to right here; interference between two of them
\* makes the result depend on the unspecified order (D7)
EvalArgs(args, j, X, S, vals, fx) ==
    IF j > Len(args) THEN [st |-> "ok", vals |-> vals, S |-> S, fx |-> fx]
    ELSE LET r == Eval(args[j], X, S) IN
         IF r.st # "ok" THEN r
         ELSE IF Conflict(fx, r.fx) THEN Bad("unspec", "arguments interfere")
         ELSE EvalArgs(args, j + 1, X, r.S, Append(vals, r.v), Join(fx, r.fx))

\* argument passing = implicit conversion to the parameter type
RECURSIVE PassArgs(_, _, _, _)
PassArgs(params, vals, j, objs) ==
    IF j > Len(params) THEN [st |-> "ok", objs |-> objs]
    ELSE LET c == CoerceD(vals[j], DeclT(params[j])) IN
         IF c.st # "ok" THEN c
         ELSE PassArgs(params, vals, j + 1,
                       Append(objs, IF params[j].ptr THEN PtrO(c.v.ety, c.v.key, c.v.j) ELSE Scal(c.v.ty, c.v.w)))

EvalCall(e, X, S) ==
    LET fi == FnIdx(e.f, X.prog) IN
    IF fi = 0 THEN Bad("stuck", "unknown function")
    ELSE LET ra == EvalArgs(e.args, 1, X, S, <<>>, NoFx) IN
         IF ra.st # "ok" THEN ra
         ELSE LET Fd == X.prog.funcs[fi] IN
              IF Len(Fd.params) # Len(ra.vals) THEN Bad("stuck", "wrong number of arguments")
              ELSE LET pa == PassArgs(Fd.params, ra.vals, 1, <<>>) IN
                   IF pa.st # "ok" THEN pa
                   ELSE IF ra.S.np < Len(X.pend)
                   THEN LET p == X.pend[ra.S.np + 1] IN       \* this call has completed: replay its outcome
                        Ok(p.v, [m |-> p.m, np |-> ra.S.np + 1], Join(ra.fx, p.fx))
                   ELSE NeedCall(fi, pa.objs, ra.S)

EvalBin(e, X, S) ==
    LET ra == Eval(e.a, X, S) IN
    IF ra.st # "ok" THEN ra
    ELSE IF e.op \in {"and", "or"}                 \* D6: short circuit
    THEN IF ra.v.ty # BoolT THEN Bad("stuck", "operand of and / or is not bool")
         ELSE LET az == WIsZero(ra.v.w) IN
              IF e.op = "and" /\ az THEN Ok(BoolV(FALSE), ra.S, ra.fx)
              ELSE IF e.op = "or" /\ ~az THEN Ok(BoolV(TRUE), ra.S, ra.fx)
              ELSE LET rb == Eval(e.b, X, ra.S) IN
                   IF rb.st # "ok" THEN rb
                   ELSE IF rb.v.ty # BoolT THEN Bad("stuck", "operand of and / or is not bool")
                   ELSE Ok(BoolV(~WIsZero(rb.v.w)), rb.S, Join(ra.fx, rb.fx))
    ELSE LET rb == Eval(e.b, X, ra.S) IN
         IF rb.st # "ok" THEN rb
         ELSE IF ra.v.ty \notin IntTypes \cup {BoolT} \/ rb.v.ty \notin IntTypes \cup {BoolT}
         THEN Bad("stuck", "pointer or void operand")
         ELSE IF Conflict(ra.fx, rb.fx) THEN Bad("unspec", "operands interfere")
         ELSE LET z == Arith(e.op, ra.v, rb.v) IN
              IF z.st # "ok" THEN z ELSE Ok(z.v, rb.S, Join(ra.fx, rb.fx))

Eval(e, X, S) ==
    CASE e.k = "lit" -> Ok(IV(IntT, e.w), S, NoFx)                  \* integer literals have type int
      [] e.k = "blit" -> Ok(BoolV(e.v), S, NoFx)
      [] e.k = "var" /\ Lookup(e.n, X, S)[1] < 0 ->                  \* not a variable: a constant of the module
           LET ci == ConstIdx(e.n, X.prog) IN
           IF ci = 0 THEN Bad("stuck", "unknown identifier") ELSE ConstVal(ci, X, S)
      [] e.k \in {"var", "idx", "deref"} ->
           LET l == LVal(e, X, S) IN
           IF l.st # "ok" THEN l
           ELSE IF (l.cur.ty = "ptr" /\ l.cur.key = UninitKey) \/ (l.cur.ty # "ptr" /\ l.cur.w = <<>>)
           THEN Bad("undefined", "use of an uninitialised variable")
           ELSE Ok(l.cur, l.S, Join(l.fx, Rd(l.loc.key)))
      [] e.k = "addr" ->
           LET l == LVal(e.lv, X, S) IN
           IF l.st # "ok" THEN l
           ELSE IF l.lty.ptr THEN Bad("stuck", "pointer to pointer")
           ELSE Ok(PV(l.lty.ty, l.loc.key, l.loc.j), l.S, l.fx)
      [] e.k = "un" ->
           LET r == Eval(e.a, X, S) IN
           IF r.st # "ok" THEN r
           ELSE LET z == Unary(e.op, r.v) IN IF z.st # "ok" THEN z ELSE Ok(z.v, r.S, r.fx)
      [] e.k = "bin" -> EvalBin(e, X, S)
      [] e.k = "cast" ->
           LET r == Eval(e.a, X, S) IN
           IF r.st # "ok" THEN r
           ELSE LET z == CastTo(r.v, e.ty) IN IF z.st # "ok" THEN z ELSE Ok(z.v, r.S, r.fx)
      [] e.k = "call" -> EvalCall(e, X, S)
      [] e.k = "sizeof" ->        \* sizeof(T[n]), n a constant expression: n * sizeof(T), of type int (as in C, 6.5.3.4p4)
           LET c == ConstExpr(e.n, X.prog, IntT) IN
           IF c.st # "ok" THEN c
           ELSE LET sz == SmallInt(c.v) IN
                IF ~sz.ok \/ sz.n < 1 \/ sz.n > 4096 \/ e.ty \notin IntTypes THEN Bad("stuck", "array size")
                ELSE Ok(IV(IntT, WFromNat(sz.n * Size(e.ty), 4)), S, NoFx)
      [] OTHER -> Bad("stuck", "unknown expression kind")

(* ======================= stores, initial values, observation ================== *)
StoreAt(loc, v, m) ==
    LET o == m[loc.key] IN
    CASE o.k = "s" -> [m EXCEPT ![loc.key] = [@ EXCEPT !.w = v.w]]
      [] o.k = "a" -> [m EXCEPT ![loc.key] = [@ EXCEPT !.el = [@ EXCEPT ![loc.j] = v.w]]]
      [] o.k = "p" -> [m EXCEPT ![loc.key] = [@ EXCEPT !.key = v.key, !.j = v.j]]
DropFrame(m, fid) == [k \in {q \in DOMAIN m : q[1] # fid} |-> m[k]]

\* X for constant expressions
CX(P) == [fid |-> 0, prog |-> P, pend |-> <<>>]
S00 == [m |-> <<>>, np |-> 0]
ConstExpr(e, P, ty) ==
    LET r == Eval(e, CX(P), S00) IN
    IF r.st # "ok" THEN (IF r.st = "call" THEN Bad("stuck", "call in a constant expression") ELSE r)
    ELSE Coerce(r.v, ty)
\* number of elements of a global array: a number, or a constant expression (var T[e] a;)
GLen(g, P) ==
    IF g.lenx.k = "none" THEN [st |-> "ok", n |-> g.len]
    ELSE LET c == ConstExpr(g.lenx, P, IntT) IN
         IF c.st # "ok" THEN c
         ELSE LET sz == SmallInt(c.v) IN
              IF ~sz.ok \/ sz.n < 1 \/ sz.n > 64 THEN Bad("stuck", "array size") ELSE [st |-> "ok", n |-> sz.n]
RECURSIVE InitElems(_, _, _, _, _)
InitElems(g, P, n, j, acc) ==
    IF j > n THEN [st |-> "ok", el |-> acc]
    ELSE IF Len(g.init) = 0 THEN InitElems(g, P, n, j + 1, Append(acc, WZero(Size(g.ty))))
    ELSE LET c == ConstExpr(g.init[j], P, g.ty) IN
         IF c.st # "ok" THEN c ELSE InitElems(g, P, n, j + 1, Append(acc, c.v.w))
InitObj(g, P) ==
    IF g.ptr THEN [st |-> "ok", o |-> PtrO(g.ty, NullKey, 0)]
    ELSE IF g.len = 0 /\ g.lenx.k = "none"
    THEN IF Len(g.init) = 0 THEN [st |-> "ok", o |-> Scal(g.ty, WZero(Size(g.ty)))]
         ELSE LET c == ConstExpr(g.init[1], P, g.ty) IN IF c.st # "ok" THEN c ELSE [st |-> "ok", o |-> Scal(g.ty, c.v.w)]
    ELSE LET gl == GLen(g, P) IN
         IF gl.st # "ok" THEN gl
         ELSE IF Len(g.init) \notin {0, gl.n} THEN Bad("stuck", "wrong number of initial values")
         ELSE LET r == InitElems(g, P, gl.n, 1, <<>>) IN IF r.st # "ok" THEN r ELSE [st |-> "ok", o |-> Arr(g.ty, r.el)]
RECURSIVE InitGlobals(_, _, _)
InitGlobals(P, k, acc) ==
    IF k > Len(P.globals) THEN [st |-> "ok", m |-> acc]
    ELSE LET r == InitObj(P.globals[k], P) IN
         IF r.st # "ok" THEN r ELSE InitGlobals(P, k + 1, (<<0, P.globals[k].n>> :> r.o) @@ acc)

RECURSIVE Flat(_, _)
Flat(el, j) == IF j > Len(el) THEN <<>> ELSE el[j] \o Flat(el, j + 1)
ObjObs(n, o) == CASE o.k = "s" -> <<[name |-> n, off |-> 0, bytes |-> o.w]>>
                  [] o.k = "a" -> <<[name |-> n, off |-> 0, bytes |-> Flat(o.el, 1)]>>
                  [] OTHER -> <<>>                      \* addresses are not observable
RECURSIVE GlobObs(_, _, _)
GlobObs(G, k, m) == IF k > Len(G) THEN <<>> ELSE ObjObs(G[k].n, m[<<0, G[k].n>>]) \o GlobObs(G, k + 1, m)

(* ======================= the machine ========================================= *)
(* Every action is  <guard on the item on top of the continuation> /\ Apply(<outcome>):              *)
(*   [t |-> "commit", S, k, fx]       the statement (or loop test) is complete                        *)
(*   [t |-> "call", f, args, S]       it met a call of a function that has not run yet                *)
(*   [t |-> "ret", v, S, fx]          return statement with the converted value                       *)
(*   [t |-> "halt", st, why]          the execution ends with a non-ok status                         *)
C == Cases[i]
Prog == C.prog
Running == i > 0 /\ status = "run"
Top == stack[Len(stack)]
Fn == Prog.funcs[Top.f]
K == Top.k
It == K[Len(K)]                                   \* item on top of the continuation stack
HasFuel == steps < C.fuel
AtItem(kind) == Running /\ HasFuel /\ Len(K) > 0 /\ It.k = kind
AtStmt == AtItem("blk") /\ It.ix <= Len(It.ss)
St == It.ss[It.ix]                                \* statement to execute
Is(kind) == AtStmt /\ St.k = kind
KAdv == [K EXCEPT ![Len(K)] = [@ EXCEPT !.ix = @ + 1]]
KPop == SubSeq(K, 1, Len(K) - 1)
Blk(ss) == [k |-> "blk", ss |-> ss, ix |-> 1]

\* evaluation of the current statement starts from the store in which the statement began
S0 == [m |-> IF Top.pend = <<>> THEN mem ELSE Top.snap, np |-> 0]
X0 == [fid |-> Top.fid, prog |-> Prog, pend |-> Top.pend]

CommitO(S, k2, fx) == [t |-> "commit", S |-> S, k |-> k2, fx |-> fx]
HaltO(st, reason) == [t |-> "halt", st |-> st, why |-> reason]
DivertO(r) == IF r.st = "call" THEN [t |-> "call", f |-> r.f, args |-> r.args, S |-> r.S] ELSE HaltO(r.st, r.why)

RECURSIVE BindR(_, _, _, _, _)
BindR(params, objs, j, fid, m) ==
    IF j > Len(params) THEN m ELSE BindR(params, objs, j + 1, fid, (<<fid, params[j].n>> :> objs[j]) @@ m)
NewFrame(fi, Fd, fid) == [f |-> fi, fid |-> fid, k |-> <<Blk(Fd.body)>>, pend |-> <<>>, snap |-> <<>>, fx |-> NoFx]

Halt(st, reason) ==
    /\ status' = st /\ why' = reason /\ steps' = steps + 1
    /\ UNCHANGED <<stack, mem, nfr, ret>>

Apply(o) ==
    CASE o.t = "halt" -> Halt(o.st, o.why)
      [] o.t = "commit" ->
           IF o.S.np # Len(Top.pend) THEN Halt("stuck", "replay consumed a different number of calls")
           ELSE /\ stack' = [stack EXCEPT ![Len(stack)] =
                                [@ EXCEPT !.k = o.k, !.pend = <<>>, !.snap = <<>>, !.fx = Join(@, o.fx)]]
                /\ mem' = o.S.m /\ steps' = steps + 1
                /\ UNCHANGED <<status, why, ret, nfr>>
      [] o.t = "call" ->           \* suspend the statement, remember where it started, run the callee
           IF Len(stack) >= MaxDepth THEN Halt("fuel", "call depth")
           ELSE /\ stack' = Append([stack EXCEPT ![Len(stack)] =
                                       [@ EXCEPT !.snap = IF Top.pend = <<>> THEN mem ELSE @]],
                                   NewFrame(o.f, Prog.funcs[o.f], nfr + 1))
                /\ mem' = BindR(Prog.funcs[o.f].params, o.args, 1, nfr + 1, o.S.m)
                /\ nfr' = nfr + 1 /\ steps' = steps + 1
                /\ UNCHANGED <<status, why, ret>>
      [] o.t = "ret" ->
           IF o.S.np # Len(Top.pend) THEN Halt("stuck", "replay consumed a different number of calls")
           ELSE LET m2 == DropFrame(o.S.m, Top.fid) IN          \* the locals of the activation die
                IF Len(stack) = 1
                THEN /\ status' = "ok" /\ why' = "" /\ ret' = o.v.w /\ stack' = <<>>
                     /\ mem' = m2 /\ steps' = steps + 1 /\ UNCHANGED nfr
                ELSE LET n == Len(stack) - 1 IN          \* the caller evaluates its statement again, replaying this call
                     /\ stack' = [SubSeq(stack, 1, n) EXCEPT ![n] =
                                     [@ EXCEPT !.pend = Append(@, [v |-> o.v, m |-> m2, fx |-> Join(Top.fx, o.fx)])]]
                     /\ mem' = m2 /\ steps' = steps + 1
                     /\ UNCHANGED <<status, why, ret, nfr>>

Truth(v) == ~WIsZero(v.w)

(* ---- declarations -------------------------------------------------------------------- *)
\* var T n;  var T n = e;  var T* n = e;   (the variable is created when the declaration is executed;
\* without initialiser its value is indeterminate)
DeclO ==
    LET key == <<Top.fid, St.n>> IN
    IF St.e.k = "none"
    THEN CommitO([S0 EXCEPT !.m = (key :> IF St.ptr THEN PtrO(St.ty, UninitKey, 0) ELSE Scal(St.ty, <<>>)) @@ @], KAdv, NoFx)
    ELSE LET r == Eval(St.e, X0, S0) IN
         IF r.st # "ok" THEN DivertO(r)
         ELSE LET c == CoerceD(r.v, DeclT(St)) IN
              IF c.st # "ok" THEN HaltO(c.st, c.why)
              ELSE CommitO([r.S EXCEPT !.m = (key :> IF St.ptr THEN PtrO(c.v.ety, c.v.key, c.v.j) ELSE Scal(St.ty, c.v.w)) @@ @],
                           KAdv, r.fx)
Decl == Is("decl") /\ \E o \in {DeclO} : Apply(o)

\* var T[n] a;  var T[n] a = {e1, .., en};
RECURSIVE CoerceAll(_, _, _, _)
CoerceAll(vals, ty, j, acc) ==
    IF j > Len(vals) THEN [st |-> "ok", el |-> acc]
    ELSE LET c == Coerce(vals[j], ty) IN IF c.st # "ok" THEN c ELSE CoerceAll(vals, ty, j + 1, Append(acc, c.v.w))
DeclArrO ==
    LET key == <<Top.fid, St.n>> IN
    IF Len(St.init) = 0
    THEN CommitO([S0 EXCEPT !.m = (key :> Arr(St.ty, [j \in 1..St.len |-> <<>>])) @@ @], KAdv, NoFx)
    ELSE IF Len(St.init) # St.len THEN HaltO("stuck", "wrong number of initial values")
    ELSE LET r == EvalArgs(St.init, 1, X0, S0, <<>>, NoFx) IN
         IF r.st # "ok" THEN DivertO(r)
         ELSE LET c == CoerceAll(r.vals, St.ty, 1, <<>>) IN
              IF c.st # "ok" THEN HaltO(c.st, c.why)
              ELSE CommitO([r.S EXCEPT !.m = (key :> Arr(St.ty, c.el)) @@ @], KAdv, r.fx)
DeclArr == Is("declarr") /\ \E o \in {DeclArrO} : Apply(o)

(* ---- assignment: lhs = e,  lhs op= e  (the right side is converted to the type of the left side, --- *)
(* ---- the operation is done in that type)  and call statements ------------------------------------- *)
AssignO ==
    LET l == LVal(St.lhs, X0, S0) IN
    IF l.st # "ok" THEN DivertO(l)
    ELSE LET r == Eval(St.e, X0, l.S) IN
         IF r.st # "ok" THEN DivertO(r)
         ELSE LET lfx == IF St.op = "=" THEN l.fx ELSE Join(l.fx, Rd(l.loc.key)) IN
              IF Conflict(lfx, r.fx) THEN HaltO("unspec", "the two sides of the assignment interfere")
              ELSE LET c == CoerceD(r.v, l.lty) IN
                   IF c.st # "ok" THEN HaltO(c.st, c.why)
                   ELSE LET z == IF St.op = "=" THEN OkV(c.v)
                                 ELSE IF l.lty.ptr THEN Bad("stuck", "compound assignment to a pointer")
                                 ELSE IF l.cur.w = <<>> THEN Bad("undefined", "use of an uninitialised variable")
                                 ELSE Arith(BaseOp(St.op), l.cur, c.v)
                        IN IF z.st # "ok" THEN HaltO(z.st, z.why)
                           ELSE CommitO([r.S EXCEPT !.m = StoreAt(l.loc, z.v, @)], KAdv,
                                        Join(Join(lfx, r.fx), Wr(l.loc.key)))
Assign == Is("asg") /\ \E o \in {AssignO} : Apply(o)

CallStmtO ==
    LET r == EvalCall(St, X0, S0) IN
    IF r.st # "ok" THEN DivertO(r)
    ELSE IF r.v.ty # "void" THEN HaltO("stuck", "only void functions can be called as a statement")
    ELSE CommitO(r.S, KAdv, r.fx)
CallStmt == Is("call") /\ \E o \in {CallStmtO} : Apply(o)

(* ---- selection and iteration ----------------------------------------------------------------------- *)
IfO ==
    LET r == Eval(St.c, X0, S0) IN
    IF r.st # "ok" THEN DivertO(r)
    ELSE IF r.v.ty # BoolT THEN HaltO("stuck", "condition is not bool")
    ELSE CommitO(r.S, Append(KAdv, Blk(IF Truth(r.v) THEN St.t ELSE St.f)), r.fx)
If == Is("if") /\ \E o \in {IfO} : Apply(o)

Loop(c, b) == [k |-> "loop", c |-> c, b |-> b]
While == Is("while") /\ Apply(CommitO(S0, Append(KAdv, Loop(St.c, St.b)), NoFx))
\* for (init; c; step) body  =  init; while (c) { body; step }   (D8)
For == Is("for") /\ Apply(CommitO(S0, Append(Append(KAdv, Loop(St.c, St.b \o <<St.step>>)), Blk(<<St.init>>)), NoFx))
\* the loop marker is on top: the body has finished; evaluate the condition
LoopTestO ==
    LET r == Eval(It.c, X0, S0) IN
    IF r.st # "ok" THEN DivertO(r)
    ELSE IF r.v.ty # BoolT THEN HaltO("stuck", "condition is not bool")
    ELSE CommitO(r.S, IF Truth(r.v) THEN Append(K, Blk(It.b)) ELSE KPop, r.fx)
LoopTest == AtItem("loop") /\ \E o \in {LoopTestO} : Apply(o)

\* switch (e) { case c1: {..} .. default: {..} }: first matching case, else default; no fall-through (D8)
RECURSIVE MatchCase(_, _, _, _)
MatchCase(cases, w, j, dflt) ==      \* returns [st, j]
    IF j > Len(cases) THEN [st |-> "ok", j |-> dflt]
    ELSE IF cases[j].v.k = "none" THEN MatchCase(cases, w, j + 1, j)
    ELSE LET c == ConstExpr(cases[j].v, Prog, IntT) IN
         IF c.st # "ok" THEN c
         ELSE IF c.v.w = w THEN [st |-> "ok", j |-> j] ELSE MatchCase(cases, w, j + 1, dflt)
SwitchO ==
    LET r == Eval(St.e, X0, S0) IN
    IF r.st # "ok" THEN DivertO(r)
    ELSE IF r.v.ty # IntT THEN HaltO("stuck", "switch expression is not int")
    ELSE LET mc == MatchCase(St.cases, r.v.w, 1, 0) IN
         IF mc.st # "ok" THEN HaltO(mc.st, mc.why)
         ELSE IF mc.j = 0 THEN HaltO("stuck", "switch without default")
         ELSE CommitO(r.S, Append(KAdv, Blk(St.cases[mc.j].b)), r.fx)
Switch == Is("switch") /\ \E o \in {SwitchO} : Apply(o)

(* ---- return: the value is converted to the return type ---------------------------------------------- *)
ReturnO ==
    IF St.e.k = "none"
    THEN IF Fn.ret = "void" THEN [t |-> "ret", v |-> VoidV, S |-> S0, fx |-> NoFx]
         ELSE HaltO("stuck", "return without a value in a non-void function")
    ELSE IF Fn.ret = "void" THEN HaltO("stuck", "return with a value in a void function")
    ELSE LET r == Eval(St.e, X0, S0) IN
         IF r.st # "ok" THEN DivertO(r)
         ELSE LET c == Coerce(r.v, Fn.ret) IN
              IF c.st # "ok" THEN HaltO(c.st, c.why)
              ELSE [t |-> "ret", v |-> c.v, S |-> r.S, fx |-> r.fx]
Return == Is("ret") /\ \E o \in {ReturnO} : Apply(o)

\* end of a statement list; the end of the body of a void function returns; the C3 compiler rejects
\* non-void functions whose end can be reached
BlockEnd ==
    /\ AtItem("blk") /\ It.ix > Len(It.ss)
    /\ Apply(IF Len(K) > 1 THEN CommitO(S0, KPop, NoFx)
             ELSE IF Fn.ret = "void" THEN [t |-> "ret", v |-> VoidV, S |-> S0, fx |-> NoFx]
             ELSE HaltO("stuck", "control reaches the end of a non-void function"))

StmtKinds == {"decl", "declarr", "asg", "call", "if", "while", "for", "switch", "ret"}
Unknown ==
    /\ Running /\ HasFuel
    /\ \/ Len(K) = 0
       \/ Len(K) > 0 /\ It.k \notin {"blk", "loop"}
       \/ AtStmt /\ St.k \notin StmtKinds
    /\ Halt("stuck", "unknown statement or continuation item")

OutOfFuel == Running /\ ~HasFuel /\ Halt("fuel", "step budget")

Step == /\ \/ Decl \/ DeclArr \/ Assign \/ CallStmt \/ If \/ While \/ For \/ LoopTest \/ Switch \/ Return \/ BlockEnd
           \/ Unknown \/ OutOfFuel
        /\ UNCHANGED <<chunk, i, av>>

(* ---- start of a case ----------------------------------------------------------------------- *)
RECURSIVE MainArgs(_, _, _, _)
MainArgs(params, words, j, objs) ==
    IF j > Len(params) THEN [st |-> "ok", objs |-> objs]
    ELSE IF params[j].ptr \/ Len(words[j]) # Size(params[j].ty) THEN Bad("stuck", "argument does not match the parameter")
    ELSE MainArgs(params, words, j + 1, Append(objs, Scal(params[j].ty, words[j])))

StartCase(c, a) ==
    LET P == c.prog
        fi == FnIdx(c.fn, P)
        g0 == InitGlobals(P, 1, <<>>)
    IN /\ ret' = <<>> /\ steps' = 0 /\ nfr' = 1
       /\ IF fi = 0 \/ g0.st # "ok"
          THEN /\ status' = IF fi = 0 THEN "stuck" ELSE g0.st
               /\ why' = IF fi = 0 THEN "no such function" ELSE g0.why
               /\ stack' = <<>> /\ mem' = <<>>
          ELSE LET Fd == P.funcs[fi] IN
               IF Len(Fd.params) # Len(c.argv[a]) THEN /\ status' = "stuck" /\ why' = "arity" /\ stack' = <<>> /\ mem' = <<>>
               ELSE LET pa == MainArgs(Fd.params, c.argv[a], 1, <<>>) IN
                    IF pa.st # "ok" THEN /\ status' = "stuck" /\ why' = pa.why /\ stack' = <<>> /\ mem' = <<>>
                    ELSE /\ status' = "run" /\ why' = ""
                         /\ mem' = BindR(Fd.params, pa.objs, 1, 1, g0.m)
                         /\ stack' = <<NewFrame(fi, Fd, 1)>>

Init == /\ chunk = 0 /\ i = 0 /\ av = 0 /\ stack = <<>> /\ mem = <<>> /\ nfr = 0
        /\ status = "idle" /\ why = "" /\ ret = <<>> /\ steps = 0
PickChunk == /\ chunk = 0 /\ chunk' \in 1..NChunks
             /\ UNCHANGED <<i, av, stack, mem, nfr, status, why, ret, steps>>
PickCase == /\ chunk > 0 /\ i = 0
            /\ i' \in {k \in 1..Len(Cases) : k % NChunks = chunk - 1}
            /\ av' \in 1..Len(Cases[i'].argv)
            /\ StartCase(Cases[i'], av')
            /\ UNCHANGED chunk
Next == PickChunk \/ PickCase \/ Step

(* ---- observation ------------------------------------------------------------------------------ *)
Finished == i > 0 /\ status \notin {"run", "idle"}
Obs == [status |-> status, why |-> why,
        ret |-> ret,
        globals |-> IF status = "ok" THEN GlobObs(Prog.globals, 1, mem) ELSE <<>>]

TypeOK == /\ status \in {"idle", "run", "ok", "undefined", "impldef", "unspec", "fuel", "stuck"}
          /\ (status = "run" => Len(stack) >= 1)
          /\ (status = "ok" => Len(ret) \in {0, 1, 2, 4, 8})
          /\ (status = "ok" => \A k \in DOMAIN mem : k[1] = 0)        \* only the globals survive
NeverStuck == status # "stuck"
=============================================================================
