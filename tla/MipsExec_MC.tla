---------------------------- MODULE MipsExec_MC ----------------------------
(* Idiom M for MipsExec.tla (the execution half of the MIPS model; the       *)
(* decoder half is Mips_MC.tla -- a separate module because Words.tla and    *)
(* RiscCommon.tla both define P2 / Bit).  Laws, checked on small domains:    *)
(*  family "ds"   delay slot ordering: a taken branch / jump at P changes    *)
(*        npc only; the instruction at P + 4 runs before the target; a       *)
(*        branch that is not taken continues at P + 8; a "likely" branch     *)
(*        that is not taken skips P + 4; a branch in a delay slot is out of  *)
(*        the model; links are P + 8                                         *)
(*  family "ld"   sign / zero extension and byte order of the loads against  *)
(*        integer values; alignment traps                                    *)
(*  family "md"   HI / LO of mult / multu / div / divu against integer       *)
(*        arithmetic on boundary values (+ known answers at the 32-bit edge) *)
(*  family "ov"   add / addi / sub trap exactly on signed overflow           *)
(*  family "rw"   for sampled instruction words x two register files: the    *)
(*        registers Exec changes are within Mips!Writes (ties the static     *)
(*        C07 sets to the dynamic semantics) and the result depends only on  *)
(*        the registers in Mips!Reads                                        *)
EXTENDS MipsExec, TLC
CONSTANT Deep
VARIABLES fam, pick
None == [k |-> "none"]

P == 4096
JunkA(r) == <<(r * 37 + 11) % 256, 165, (r * 5 + 3) % 256, 90>>
JunkB(r) == <<(r * 91 + 7) % 256, (r * 3) % 256, 60, 195>>
Regs(junk(_), fix) == Mk([k \in 1..32 |-> IF k = 1 THEN WZero(4) ELSE IF (k - 1) \in DOMAIN fix THEN fix[k - 1] ELSE junk(k - 1)])
Mem0 == [salt |-> 7, ov |-> <<>>]
St(x, pc, npc) == [pc |-> W4(pc), npc |-> W4(npc), x |-> x, hi |-> JunkA(33), lo |-> JunkA(34), mem |-> Mem0]
AsState(t) == [pc |-> t.pc, npc |-> t.npc, x |-> t.x, hi |-> t.hi, lo |-> t.lo, mem |-> t.mem]
Ln(mn, ops, sym, pc) == M!Asm(mn, ops, sym, pc)
Rg(r) == <<"r", r, "">>
Im(v) == <<"i", v, "">>
Lb == <<"l", 0, "L">>
Inc8 == Ln("addiu", <<Rg(8), Rg(8), Im(1)>>, 0, 0)                  \* the instruction in the delay slot

\* ---- picks
BranchLines == {<<"beq", <<Rg(0), Rg(0), Lb>>, TRUE>>, <<"bne", <<Rg(0), Rg(0), Lb>>, FALSE>>, <<"bgez", <<Rg(0), Lb>>, TRUE>>,
                <<"bltz", <<Rg(0), Lb>>, FALSE>>, <<"blez", <<Rg(0), Lb>>, TRUE>>, <<"bgtz", <<Rg(0), Lb>>, FALSE>>,
                <<"beql", <<Rg(0), Rg(0), Lb>>, TRUE>>, <<"bnel", <<Rg(0), Rg(0), Lb>>, FALSE>>, <<"bgezal", <<Rg(0), Lb>>, TRUE>>,
                <<"bltzal", <<Rg(0), Lb>>, FALSE>>, <<"bltzl", <<Rg(0), Lb>>, FALSE>>, <<"bgezall", <<Rg(0), Lb>>, TRUE>>,
                <<"j", <<Lb>>, TRUE>>, <<"jal", <<Lb>>, TRUE>>}
Targets == {P + 64, P - 32, P + 4, P + 8, 8192}
ByteVals == {0, 1, 127, 128, 200, 255}
HalfVals == {0, 1, 255, 256, 32767, 32768, 33023, 65535}
SmallInts == {-46340, -32768, -255, -2, -1, 0, 1, 2, 3, 255, 32767, 46340}
DivInts == SmallInts \cup {2147483647, -2147483647, 65536, -65537, 1000000007}
Edge == {<<"multu", WOnes(4), WOnes(4), <<254, 255, 255, 255>>, WOne(4)>>,
         <<"mult", WOnes(4), WOnes(4), WZero(4), WOne(4)>>,
         <<"mult", <<0, 0, 0, 128>>, <<0, 0, 0, 128>>, <<0, 0, 0, 64>>, WZero(4)>>,
         <<"multu", <<0, 0, 0, 128>>, <<2, 0, 0, 0>>, WOne(4), WZero(4)>>,
         <<"mult", <<0, 0, 0, 128>>, <<2, 0, 0, 0>>, WOnes(4), WZero(4)>>,
         <<"divu", WOnes(4), <<2, 0, 0, 0>>, WOne(4), <<255, 255, 255, 127>>>>,
         <<"div", <<0, 0, 0, 128>>, WOnes(4), WZero(4), <<0, 0, 0, 128>>>>}
MaxW == <<255, 255, 255, 127>>
MinW == <<0, 0, 0, 128>>
OvfTab == {<<"add", MaxW, W4(1), TRUE>>, <<"add", MaxW, W4(0), FALSE>>, <<"add", MinW, W4(-1), TRUE>>,
           <<"add", MinW, W4(1), FALSE>>, <<"add", W4(-1), W4(1), FALSE>>, <<"add", W4(1073741824), W4(1073741824), TRUE>>,
           <<"add", W4(1073741823), W4(1073741824), FALSE>>, <<"sub", MinW, W4(1), TRUE>>, <<"sub", MaxW, W4(-1), TRUE>>,
           <<"sub", W4(0), MinW, TRUE>>, <<"sub", W4(-1), MinW, FALSE>>, <<"sub", W4(5), W4(7), FALSE>>,
           <<"addu", MaxW, W4(1), FALSE>>, <<"subu", MinW, W4(1), FALSE>>}
\* sampled instruction words <<hi, lo>>
RwHi == {op * 1024 + r : op \in 0..63, r \in (IF Deep THEN {0, 166, 1023, 8 * 32 + 9, 29 * 32 + 31, 5} ELSE {166, 8 * 32 + 9})}
        \cup {1 * 1024 + 9 * 32 + b : b \in 0..31}
RwLo(hi) == IF (hi \div 1024) \in {0, 28} THEN {c * 2048 + d * 64 + f : c \in {0, 10, 31}, d \in {0, 3}, f \in 0..63}
            ELSE {0, 4, 8, 65532, 32768, 4660}

Init == fam = "none" /\ pick = None
PickFam == fam = "none" /\ fam' \in {"ds", "ld", "md", "ov", "rw"} /\ pick' = None
PickDs == fam = "ds" /\ pick = None /\ UNCHANGED fam /\ \E b \in BranchLines, t \in Targets : pick' = [k |-> "ds", b |-> b, t |-> t]
PickDsR == fam = "ds" /\ pick = None /\ UNCHANGED fam /\ \E j \in {"jr", "jalr"}, r \in {9, 31}, t \in Targets : pick' = [k |-> "dsr", j |-> j, r |-> r, t |-> t]
PickLdB == fam = "ld" /\ pick = None /\ UNCHANGED fam /\ \E v \in ByteVals, o \in 0..3 : pick' = [k |-> "ldb", v |-> v, o |-> o]
PickLdH == fam = "ld" /\ pick = None /\ UNCHANGED fam /\ \E v \in HalfVals, o \in 0..3 : pick' = [k |-> "ldh", v |-> v, o |-> o]
PickMd == fam = "md" /\ pick = None /\ UNCHANGED fam /\ \E a \in DivInts, b \in DivInts : pick' = [k |-> "md", a |-> a, b |-> b]
PickMdE == fam = "md" /\ pick = None /\ UNCHANGED fam /\ \E e \in Edge : pick' = [k |-> "mde", e |-> e]
PickOv == fam = "ov" /\ pick = None /\ UNCHANGED fam /\ \E e \in OvfTab : pick' = [k |-> "ov", e |-> e]
PickRwHi == fam = "rw" /\ pick = None /\ UNCHANGED fam /\ \E h \in RwHi : pick' = [k |-> "rw-", hi |-> h]
PickRw == fam = "rw" /\ pick.k = "rw-" /\ UNCHANGED fam /\ \E l \in RwLo(pick.hi) : pick' = [k |-> "rw", w |-> <<pick.hi, l>>]
Next == PickFam \/ PickDs \/ PickDsR \/ PickLdB \/ PickLdH \/ PickMd \/ PickMdE \/ PickOv \/ PickRwHi \/ PickRw

-----------------------------------------------------------------------------
X0 == Regs(JunkA, <<>>)
Two(s, d1, d2) == LET t1 == Exec(s, d1) IN <<t1, IF t1.st = "ok" THEN Exec(AsState(t1), d2) ELSE t1>>
LawDelaySlot ==
    /\ pick.k = "ds" =>
        LET b == pick.b  d == Ln(b[1], b[2], pick.t, P)  s == St(X0, P, P + 4)  r == Two(s, d, Inc8)
            link == b[1] \in {"jal", "bgezal", "bltzal", "bgezall"}
            likely == b[1] \in Likely  taken == b[3] IN
        /\ M!WF(d)
        /\ r[1].st = "ok"
        /\ r[1].npc = (IF taken THEN W4(pick.t) ELSE IF likely THEN W4(P + 12) ELSE W4(P + 8))   \* the branch changes npc only
        /\ r[1].pc = (IF ~taken /\ likely THEN W4(P + 8) ELSE W4(P + 4))           \* likely, not taken: slot nullified
        /\ (~(~taken /\ likely) => (r[1].npc = (IF taken THEN W4(pick.t) ELSE W4(P + 8))
                                   /\ r[2].st = "ok" /\ r[2].pc = r[1].npc                \* then the delay slot, then the target
                                   /\ Reg(AsState(r[2]), 8) = WAdd(Reg(s, 8), WOne(4))))
        /\ Reg(AsState(r[1]), 31) = (IF link THEN W4(P + 8) ELSE Reg(s, 31))
        /\ \A q \in 1..30 : Reg(AsState(r[1]), q) = Reg(s, q)
        /\ Exec(St(X0, P, pick.t), d).st = "outofmodel" \/ pick.t = P + 4          \* a branch in a delay slot
    /\ pick.k = "dsr" =>
        LET d == IF pick.j = "jr" THEN Ln("jr", <<Rg(pick.r)>>, 0, 0) ELSE Ln("jalr", <<Rg(10), Rg(pick.r)>>, 0, 0)
            s == St(Regs(JunkA, (pick.r :> W4(pick.t))), P, P + 4)  r == Two(s, d, Inc8) IN
        /\ r[1].st = "ok" /\ r[1].pc = W4(P + 4) /\ r[1].npc = W4(pick.t)
        /\ r[2].st = "ok" /\ r[2].pc = W4(pick.t) /\ r[2].npc = W4(pick.t + 4)
        /\ (pick.j = "jalr" => Reg(AsState(r[1]), 10) = W4(P + 8))
        /\ Exec(St(Regs(JunkA, (pick.r :> W4(pick.t + 2))), P, P + 4), d).st = "trap"   \* misaligned target
LawLink == pick.k = "ds" /\ pick.b[1] = "jal" =>
    LET d == Ln("jal", <<Lb>>, pick.t, P)  t == Exec(St(X0, P, P + 4), d) IN Reg(AsState(t), 31) = W4(P + 8) /\ M!LinkW(d) = {31}

SignedOf(v, bits) == IF v >= 2 ^ (bits - 1) THEN v - 2 ^ bits ELSE v
LawLoadExtension ==
    /\ pick.k = "ldb" =>
        LET base == 32768  s0 == St(Regs(JunkA, (9 :> W4(base))), P, P + 4)
            s == [s0 EXCEPT !.mem = StoreBytes(s0.mem, W4(base + pick.o), <<pick.v>>, 1)]
            lb == Exec(s, Ln("lb", <<Rg(10), Im(pick.o), <<"(", 0, "">>, Rg(9), <<")", 0, "">>>>, 0, 0))
            lbu == Exec(s, Ln("lbu", <<Rg(10), Im(pick.o), <<"(", 0, "">>, Rg(9), <<")", 0, "">>>>, 0, 0)) IN
        /\ Reg(AsState(lb), 10) = W4(SignedOf(pick.v, 8)) /\ Reg(AsState(lbu), 10) = W4(pick.v)
        \* sb then lw: little-endian byte order
        /\ LET w == Exec([s0 EXCEPT !.mem = StoreBytes(s0.mem, W4(base), WZero(4), 1)],
                         Ln("sb", <<Rg(8), Im(pick.o), <<"(", 0, "">>, Rg(9), <<")", 0, "">>>>, 0, 0)) IN
           LoadBytes(w.mem, W4(base), 4)[pick.o + 1] = Reg(s0, 8)[1]
    /\ pick.k = "ldh" =>
        LET base == 32768  s0 == St(Regs(JunkA, (9 :> W4(base))), P, P + 4)
            s == [s0 EXCEPT !.mem = StoreBytes(s0.mem, W4(base + pick.o), <<pick.v % 256, pick.v \div 256>>, 1)]
            lh == Exec(s, Ln("lh", <<Rg(10), Im(pick.o), <<"(", 0, "">>, Rg(9), <<")", 0, "">>>>, 0, 0))
            lhu == Exec(s, Ln("lhu", <<Rg(10), Im(pick.o), <<"(", 0, "">>, Rg(9), <<")", 0, "">>>>, 0, 0))
            lw == Exec(s, Ln("lw", <<Rg(10), Im(pick.o), <<"(", 0, "">>, Rg(9), <<")", 0, "">>>>, 0, 0)) IN
        /\ IF pick.o % 2 = 0 THEN Reg(AsState(lh), 10) = W4(SignedOf(pick.v, 16)) /\ Reg(AsState(lhu), 10) = W4(pick.v)
           ELSE lh.st = "trap" /\ lhu.st = "trap"
        /\ (lw.st = "trap") = (pick.o # 0)

TruncDiv(a, b) == LET q == (IF a < 0 THEN -a ELSE a) \div (IF b < 0 THEN -b ELSE b) IN IF (a < 0) # (b < 0) THEN -q ELSE q
Fits(a, b) == (IF a < 0 THEN -a ELSE a) <= 46340 /\ (IF b < 0 THEN -b ELSE b) <= 46340
LawHiLo ==
    /\ pick.k = "md" =>
        LET a == pick.a  b == pick.b  s == St(Regs(JunkA, (9 :> W4(a)) @@ (10 :> W4(b))), P, P + 4)
            ops == <<Rg(9), Rg(10)>> IN
        /\ Fits(a, b) => LET t == Exec(s, Ln("mult", ops, 0, 0)) IN
              t.lo = W4(a * b) /\ t.hi = (IF a * b < 0 THEN WOnes(4) ELSE WZero(4)) /\ t.x = s.x
        /\ (Fits(a, b) /\ a >= 0 /\ b >= 0) => LET t == Exec(s, Ln("multu", ops, 0, 0)) IN t.lo = W4(a * b) /\ t.hi = WZero(4)
        /\ (Fits(a, b)) => Reg(AsState(Exec(s, Ln("mul", <<Rg(11), Rg(9), Rg(10)>>, 0, 0))), 11) = W4(a * b)
        /\ IF b = 0 THEN Exec(s, Ln("div", ops, 0, 0)).st = "outofmodel" /\ Exec(s, Ln("divu", ops, 0, 0)).st = "outofmodel"
           ELSE LET t == Exec(s, Ln("div", ops, 0, 0))  q == TruncDiv(a, b) IN
                /\ t.lo = W4(q) /\ t.hi = W4(a - q * b) /\ t.x = s.x
                /\ (a >= 0 /\ b > 0) => LET u == Exec(s, Ln("divu", ops, 0, 0)) IN u.lo = W4(a \div b) /\ u.hi = W4(a % b)
        /\ LET t == Exec([s EXCEPT !.hi = W4(a), !.lo = W4(b)], Ln("mfhi", <<Rg(12)>>, 0, 0)) IN Reg(AsState(t), 12) = W4(a)
        /\ LET t == Exec([s EXCEPT !.hi = W4(a), !.lo = W4(b)], Ln("mflo", <<Rg(12)>>, 0, 0)) IN Reg(AsState(t), 12) = W4(b)
    /\ pick.k = "mde" =>
        LET e == pick.e  s == St(Regs(JunkA, (9 :> e[2]) @@ (10 :> e[3])), P, P + 4)  t == Exec(s, Ln(e[1], <<Rg(9), Rg(10)>>, 0, 0)) IN
        t.st = "ok" /\ t.hi = e[4] /\ t.lo = e[5]
LawOverflow == pick.k = "ov" =>
    LET e == pick.e  s == St(Regs(JunkA, (9 :> e[2]) @@ (10 :> e[3])), P, P + 4)
        t == Exec(s, Ln(e[1], <<Rg(11), Rg(9), Rg(10)>>, 0, 0))
        small == {v \in {-1, 0, 1} : W4(v) = e[3]} IN
    /\ (t.st = "trap") = e[4]
    /\ e[4] => (t.x = s.x /\ t.pc = s.pc)
    /\ (e[1] = "add" /\ small # {}) =>
          (Exec(s, Ln("addi", <<Rg(11), Rg(9), Im(CHOOSE v \in small : TRUE)>>, 0, 0)).st = "trap") = e[4]

\* ---- static register sets against the dynamic semantics
Changed(s, t) == {r \in 0..31 : Reg(AsState(t), r) # Reg(s, r)}
AgreeOn(S, x1, x2) == \A r \in S : x1[r + 1] = x2[r + 1]
LawWritesOnly == pick.k = "rw" =>
    LET d == M!DecodeW(pick.w)  s == St(Regs(JunkA, (9 :> W4(32768))), P, P + 4)  t == Exec(s, d) IN
    /\ (t.st = "outofmodel") = ~Modelled(d) \/ (d.mn \in {"div", "divu"})
    /\ Modelled(d) => Changed(s, t) \subseteq M!Writes(d)
    /\ t.st # "ok" => (t.x = s.x /\ t.mem = s.mem /\ t.pc = s.pc)
LawReadsOnly == pick.k = "rw" =>
    LET d == M!DecodeW(pick.w)
        keep == (M!Reads(d) \cup (IF d.mn \in {"movz", "movn"} THEN {d.rd} ELSE {}))
        xa == Regs(JunkA, (9 :> W4(32768)))
        xb == Mk([k \in 1..32 |-> IF (k - 1) \in keep \cup {0} THEN xa[k] ELSE JunkB(k - 1)])
        ta == Exec(St(xa, P, P + 4), d)  tb == Exec(St(xb, P, P + 4), d) IN
    Modelled(d) =>
        /\ ta.st = tb.st /\ ta.pc = tb.pc /\ ta.npc = tb.npc /\ ta.hi = tb.hi /\ ta.lo = tb.lo /\ ta.mem = tb.mem
        /\ (ta.st = "ok" => AgreeOn(M!Writes(d), ta.x, tb.x))
=============================================================================
