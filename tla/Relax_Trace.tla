---------------------------- MODULE Relax_Trace ----------------------------
(* Idiom T of property C13: links of riscv:rvc objects performed by the real  *)
(* ppci linker, recorded phase by phase (harness/objgen.py: link_recorder),   *)
(* are validated against Linker.tla + Relax.tla.  Everything up to            *)
(* check_undefined_symbols is Linker_Trace's business (re-used unchanged).    *)
(*                                                                            *)
(*   relax event   the observed object must be RelaxWith(K, addrs, ord) of    *)
(*                 the object before, for the K / addrs / ord read off the    *)
(*                 observation (which relocation entries became bc_imm11,     *)
(*                 where the sections are, where the new entries stand);      *)
(*                 the clauses of the property (Relax.tla's invariants and    *)
(*                 the placement invariants of Linker.tla) judge the choice   *)
(*   reloc events  the patched instruction of every control transfer          *)
(*                 (cb / cbl / bc_imm11 / b_imm20 / b_imm12 / bc_imm8) must   *)
(*                 decode (RV32.tla) to the *same* base instruction as the    *)
(*                 input instruction at that site - same operation, same      *)
(*                 registers, so `jal x5` may not become c.jal - with the     *)
(*                 displacement S - P of the relaxed layout, and with the     *)
(*                 same Exec effect (link register!); absolute and            *)
(*                 %hi/%lo references are judged by Reloc.tla (S, P of the    *)
(*                 relaxed layout)                                            *)
(*   failures      a link that fails in do_relaxations, or at a relocation    *)
(*                 whose value fits its field, is refused: the unrelaxed link *)
(*                 of the same job succeeds (all generated displacements fit  *)
(*                 the long forms)                                            *)
EXTENDS Linker_Trace, Relax, SequencesExt

-----------------------------------------------------------------------------
(* parameters of the relaxation, read off the observed object *)
ObsAddrs(o) == MkT([i \in 1..Len(dst.secs) |->
    LET j == ObsSecIdx(o, dst.secs[i].name) IN IF j = 0 THEN dst.secs[i].addr ELSE o.sections[j].address])
\* relaxable entries of one section by increasing offset; an entry was shrunk iff the observation has a short
\* entry against the same symbol at the offset the entry has once the holes in front of it are gone
CandSeq(d, n) == SetToSortSeq({r \in Candidates(d) : d.rels[r].sec = n}, LAMBDA a, b : d.rels[a].off < d.rels[b].off)
HasShortAt(o, e, off) == \E j \in 1..Len(o.relocations) :
    LET t == o.relocations[j] IN t.type = ShortType(e.type) /\ t.sec = e.sec /\ t.off = off /\ t.sym = e.sym
RECURSIVE ObsKSec(_, _, _, _, _)
ObsKSec(d, o, order, k, ks) ==
    IF k > Len(order) THEN ks
    ELSE LET e == d.rels[order[k]]
             off == e.off - HoleSize * Cardinality(ks) IN
         ObsKSec(d, o, order, k + 1, IF HasShortAt(o, e, off) THEN ks \cup {order[k]} ELSE ks)
ObsK(d, o) == UNION {ObsKSec(d, o, CandSeq(d, d.secs[i].name), 1, {}) : i \in 1..Len(d.secs)}
ObsOrd(d, o, ks, addrs) == IF RelsMatch(RelaxResult(d, ks, addrs, "append"), o) THEN "append" ELSE "inplace"

T_Relax ==
    /\ IsEv("relax") /\ ph = "relax"
    /\ \E kk \in {ObsK(dst, Ev.state)} : \E a \in {ObsAddrs(Ev.state)} : \E od \in {ObsOrd(dst, Ev.state, kk, a)} :
          /\ RelaxWith(kk, a, od)
          /\ Matches(dst', Ev.state)
    /\ obs' = Ev.state.sections
    /\ Consume /\ UNCHANGED <<chunk, bad, why, spur>>

-----------------------------------------------------------------------------
(* relocation events *)
ArchR == "riscv"
TransferTypes == {"cb_imm11", "cbl_imm11", "bc_imm11", "b_imm20", "b_imm12", "bc_imm8"}
RelocModelled(t) == t \notin TransferTypes /\ Modelled(ArchR, t)
FitsR(r) == LET t == dst.rels[r].type IN
    IF t \in TransferTypes THEN InReach(dst, r)
    ELSE IF RelocModelled(t) THEN Representable(ArchR, t, RS(r), RA(r), RP(r))
    ELSE TRUE
\* the instruction the input object has at this site (provenance of the first byte of the field)
OrigInsn(r) ==
    LET e == dst.rels[r]
        T == SecOf(dst.secs, e.sec).data
        t0 == Origin(T[e.off + 1])
        raw == inp[t0[1]].secs[t0[2]].data
        n == RV!InsnLen(<<raw[t0[3] + 1]>>) IN
    RV!Expand(RV!Decode(MkT([k \in 1..n |-> raw[t0[3] + k]])))
SiteFromInput(r) == LET e == dst.rels[r] IN
    e.off + e.size <= Len(SecOf(dst.secs, e.sec).data) /\ Origin(SecOf(dst.secs, e.sec).data[e.off + 1])[1] > 0
TransferOK(r, after) ==
    /\ SiteFromInput(r)
    /\ LET new == RV!Expand(RV!Decode(SiteBytes(after, r)))
           old == OrigInsn(r) IN
       /\ new.mn = old.mn /\ new.mn \in {"jal", "beq", "bne", "blt", "bge", "bltu", "bgeu"}
       /\ new.rd = old.rd /\ new.rs1 = old.rs1 /\ new.rs2 = old.rs2
       /\ new.imm = RelDisp(dst, r)
       /\ new.len = dst.rels[r].size
\* ... and executing it (RV32.tla Exec) has the effect of executing the input instruction with that target: same next
\* pc, same memory, every register alike except that the link register of the input instruction (if it links) holds
\* the address behind the instruction, which is 2 or 4 bytes long.  So c.jal for `jal x0` (ra clobbered) or c.j for
\* `jal ra` (nothing linked) is refused whatever the target.
ExecEffectOK(r, after) ==
    LET newi == RV!Decode(SiteBytes(after, r))
        old == [OrigInsn(r) EXCEPT !.imm = RelDisp(dst, r)]
        pc == RV!W4(RelP(dst, r))
        s == [RV!BaseState(3, 0) EXCEPT !.pc = pc] IN
    \E tn \in {RV!Exec(s, newi)} : \E to \in {RV!Exec(s, old)} :
        /\ tn.st = "ok" /\ to.st = "ok"
        /\ tn.pc = to.pc /\ tn.mem = to.mem
        /\ \A k \in 2..32 :
              \/ tn.x[k] = to.x[k]
              \/ /\ k - 1 = old.rd
                 /\ tn.x[k] = RV!WAdd(pc, RV!W4(newi.len)) /\ to.x[k] = RV!WAdd(pc, RV!W4(old.len))
\* a shrunk site holds the compressed instruction the shrink rule of Relax.tla names for its relocation type
ShortFormOK(r, after) ==
    LET m == pre.map[r] IN
    (pre.on /\ m \in pre.K) => RV!Decode(SiteBytes(after, r)).mn = ShortInsn(Before.rels[m].type)
ValueOKR(r, before, after) ==
    LET t == dst.rels[r].type IN
    IF t \in TransferTypes THEN TransferOK(r, after) /\ ExecEffectOK(r, after) /\ ShortFormOK(r, after)
    ELSE IF RelocModelled(t)
         THEN PatchOKW(ArchR, t, SiteBytes(before, r), SiteBytes(after, r), RS(r), RA(r), RP(r))
         ELSE TRUE

\* reloc events carry the section bytes as differences (engines/c13.py compact_relocs, a lossless re-encoding of
\* the recorder's before / after): bdiff = before vs the bytes last observed, adiff = after vs before,
\* each a sequence of <<position, byte>>; malformed = the section changed its length
ApplyDiff(data, diff) ==
    IF Len(diff) = 0 THEN data
    ELSE MkT([p \in 1..Len(data) |->
                 LET S == {k \in 1..Len(diff) : diff[k][1] = p} IN
                 IF S = {} THEN data[p] ELSE diff[CHOOSE k \in S : \A j \in S : j <= k][2]])
DiffInSite(r, diff) == \A k \in 1..Len(diff) : diff[k][1] \in Site(r)
T_RelocateR ==
    /\ IsEv("reloc") /\ ph = "relocate" /\ Ev.r = nxt /\ Ev.sec = dst.rels[nxt].sec
    /\ ~Ev.malformed
    /\ Len(Ev.bdiff) = 0                       \* nothing changed between two relocations
    /\ DiffInSite(nxt, Ev.adiff)               \* only bytes of the field change
    /\ FitsR(nxt)
    /\ \E before \in {ObsData(Ev.sec)} : \E after \in {ApplyDiff(before, Ev.adiff)} :
          /\ ValueOKR(nxt, before, after)
          /\ obs' = MkT([j \in 1..Len(obs) |-> IF obs[j].name = Ev.sec THEN [obs[j] EXCEPT !.data = after] ELSE obs[j]])
    /\ Relocate(nxt)
    /\ Consume /\ UNCHANGED <<chunk, bad, why, spur>>
\* the link may fail at a relocation only if the value does not fit the field
T_RelocateFailsR ==
    /\ HasEv /\ Ev.ev = "fail" /\ Ev.phase = "reloc" /\ ph = "relocate"
    /\ ~FitsR(nxt)
    /\ RelocateFails(nxt)
    /\ Consume /\ KeepT

EvStepR ==
    \/ /\ \/ T_Start
          \/ T_InjectSections \/ T_InjectNew \/ T_MergeGlobal \/ T_DuplicateGlobal \/ T_InjectRelocs \/ T_DuplicateEntry
          \/ T_PlaceSection \/ T_PlaceSectionData \/ T_DefineSymbol \/ T_DefineSymbolTwice \/ T_AlignTo
          \/ T_CloseMemory \/ T_MemoryOverflow \/ T_EmptyLayout
          \/ T_CheckUndefined \/ T_UndefinedFound
          \/ T_RelocateR \/ T_RelocateFailsR \/ T_End
       /\ UNCHANGED pre
    \/ T_Relax

-----------------------------------------------------------------------------
(* diagnosis of a refused event *)
DiagR ==
    IF ph = "relax" THEN
        (IF IsEv("relax")
         THEN LET kk == ObsK(dst, Ev.state)
                  a == ObsAddrs(Ev.state) IN
              "do_relaxations: the observed object is not the relaxation of the object before (shrunk entries "
              \o ToString(kk) \o "): it differs in " \o Mismatch(RelaxResult(dst, kk, a, ObsOrd(dst, Ev.state, kk, a)), Ev.state)
         ELSE IF HasEv /\ Ev.ev = "fail" THEN "do_relaxations failed (" \o Ev.exc \o "): the unrelaxed link succeeds"
         ELSE Expect(dst, "do_relaxations"))
    ELSE IF ph = "relocate" THEN
        (IF HasEv /\ Ev.ev = "fail" /\ Ev.phase = "reloc"
         THEN "relocation " \o dst.rels[nxt].type \o " failed (" \o Ev.exc \o ") although its value fits the field"
         ELSE IF ~IsEv("reloc") THEN Expect(dst, "relocation")
         ELSE IF Ev.r # nxt \/ Ev.sec # dst.rels[nxt].sec THEN "relocations applied in another order / section"
         ELSE IF Ev.malformed THEN "the section changed its length during a relocation"
         ELSE IF Len(Ev.bdiff) # 0 THEN "section bytes changed between relocations"
         ELSE IF ~DiffInSite(nxt, Ev.adiff) THEN "bytes outside the relocation site changed"
         ELSE IF ~FitsR(nxt) THEN "relocation " \o dst.rels[nxt].type \o ": value not representable after relaxation, but output was produced"
         ELSE IF dst.rels[nxt].type \in TransferTypes
              THEN "relocation " \o dst.rels[nxt].type \o ": the patched instruction is not the input instruction with target S"
         ELSE "relocation " \o dst.rels[nxt].type \o ": patched field does not designate S + A")
    ELSE Diag

-----------------------------------------------------------------------------
\* what an error trace shows (cfg: ALIAS Shown): TLC's pretty printer needs seconds per state for kilobyte sections
\* unreach: for the transfers that left their range, whether the target lies in the section of the jump
Unreach == IF JustRelaxed
           THEN {IF SameSection(Before, pre.map[k]) THEN "same" ELSE "cross" :
                    k \in {j \in 1..Len(dst.rels) : InReach(Before, pre.map[j]) /\ ~InReach(dst, j)}}
           ELSE {}
Shown == [job |-> job, l |-> l, ph |-> ph, nxt |-> nxt, bad |-> bad, why |-> why, shrunk |-> pre.K, unreach |-> Unreach,
          secs |-> MkT([k \in 1..Len(dst.secs) |-> <<dst.secs[k].name, dst.secs[k].addr, dst.secs[k].align, Len(dst.secs[k].data)>>])]
RInit == TInit /\ pre = NoPre
WorkingR == job > 0 /\ ~bad /\ ~(l = Len(Events) + 1 /\ Finished)
StepR   == WorkingR /\ EvStepR
RejectR == /\ WorkingR /\ ~ENABLED EvStepR
           /\ bad' = TRUE /\ why' = DiagR
           /\ UNCHANGED <<chunk, l, obs, spur, pre>> /\ UNCHANGED vars
RNext == ((PickChunk \/ PickTrace) /\ UNCHANGED pre) \/ StepR \/ RejectR

-----------------------------------------------------------------------------
\* the harness handed over a job of the property's domain (a failure is a harness fault)
RelSizeR(t) == IF RvcRelSize(t) > 0 THEN RvcRelSize(t) ELSE RelSize(t)
DomainR ==
    /\ (job > 0 /\ l = 1 /\ ph = "start" =>
          /\ \A o \in 1..Len(inp) :
               /\ \A k \in 1..Len(inp[o].rels) : inp[o].rels[k].size = RelSizeR(inp[o].rels[k].type)
               /\ \A k \in 1..Len(inp[o].secs) : inp[o].secs[k].size = Len(inp[o].secs[k].data)
          /\ ~(opt.partial /\ lay.on))
    /\ (job > 0 /\ ph = "relax" => RelaxDomain(dst))
OnR(Inv) == job > 0 /\ ph # "idle" => Inv
I_SymbolsKeepTarget == OnR(SymbolsKeepTarget)
I_RelocsKeepSite    == OnR(RelocsKeepSite)
I_ContentKept       == OnR(ContentKept)
I_OrderKept         == OnR(OrderKept)
I_ShiftConsistent   == OnR(ShiftConsistent)
I_StaysInRange      == OnR(StaysInRange)
I_LinkRegisterKept  == OnR(LinkRegisterKept)
I_OnlyRelaxable     == OnR(OnlyRelaxable)
\* the placement clauses of Linker.tla, judged on the relaxed object (before the phase they are C12's business; a
\* state invariant would be reported again in every later state of the trace)
R_Placement         == OnR(JustRelaxed => Placement)
R_NoOverlap         == OnR(JustRelaxed => NoOverlap)
R_Inside            == OnR(JustRelaxed => Inside)
\* informative: the real linker did what the transcription (Design*) says
I_AsTranscribed     == OnR(AsTranscribed)
=============================================================================
