----------------------------- MODULE Rsp_Trace -----------------------------
(* Idiom T: traces recorded from the real RspHandler / decoder() /          *)
(* transport.TCP (harness/rsp_replay.py) are validated against Rsp.tla.     *)
(* TRACE_FILE is a JSON array of traces                                     *)
(*   {"id": str, "flags": [str], "events": [event]}                         *)
(* one event per atomic action of the specification (DESIGN A.6, the        *)
(* tx / ack_put / deliver observations grouped under the action that made   *)
(* them):                                                                   *)
(*   {"ev":"call","c":n,"payload":[u8]}          thread c enters sendpkt    *)
(*   {"ev":"acquire","c":n,"tx":[[u8]]}          lock taken, first transmit *)
(*   {"ev":"ack_get","c":n,"v":"+"|"-","tx":[[u8]],"out":"done|wait|failed"} *)
(*   {"ev":"timeout","c":n}                      queue.Empty leaves sendpkt *)
(*   {"ev":"peer","bytes":[u8]}                  bytes put on the line      *)
(*   {"ev":"peer_pack","payload":[u8],"bytes":[u8]}  output of the real     *)
(*                                               rsp_pack put on the line   *)
(*   {"ev":"rx","byte":u8,"msg":{"k":..},"tx":[[u8]],"deliver":[[u8]],      *)
(*    "blocked":bool,"dead":bool}                one on_byte call           *)
(*   {"ev":"put_done"}  {"ev":"put_timeout","dead":bool}                    *)
(* A trace is accepted iff the specification can take every event in order  *)
(* (invariant NotRejected) and all invariants hold in every state.  `flags`   *)
(* of the trace chooses RspIdeal ([]) or an as-built variant.               *)
EXTENDS Rsp, Json, IOUtils, TLC

Traces == JsonDeserialize(IOEnv.TRACE_FILE)
NChunks == 64
VARIABLES chunk, i, l, bad
tvars == <<chunk, i, l, bad>>
noFlags == <<txlog, peerPos, toClient, rxStream, ref, dec, ackq, ackIn, rxPend, rxAlive,
             delivered, cl, peerLog, cnt, act>>

TraceLim == [calls |-> 1000000, peer |-> 0, notif |-> 0, nack |-> 0, lost |-> 0, spur |-> 0, corrupt |-> 0]
TraceClients == 1..4
FlagSet(t) == {t.flags[k] : k \in 1..Len(t.flags)}

TInit == chunk = 0 /\ i = 0 /\ l = 0 /\ bad = FALSE /\ Init
PickChunk == /\ chunk = 0 /\ chunk' \in 1..NChunks /\ UNCHANGED <<i, l, bad>> /\ UNCHANGED vars
PickTrace == /\ chunk > 0 /\ i = 0
             /\ i' \in {k \in 1..Len(Traces) : k % NChunks = chunk - 1}
             /\ l' = 1 /\ flags' = FlagSet(Traces[i']) /\ UNCHANGED <<chunk, bad>> /\ UNCHANGED noFlags

Ev == Traces[i].events[l]
NewTx  == SubSeq(txlog', Len(txlog) + 1, Len(txlog'))
NewDel == SubSeq(delivered', Len(delivered) + 1, Len(delivered'))

\* the environment step of a trace: bytes appear on the line
TracePeer(bs) == /\ PeerBytes(bs) /\ act' = [a |-> "Peer"]
                 /\ UNCHANGED <<flags, txlog, cl, peerPos, peerLog, cnt>> /\ UNCHANGED rxVars

\* the peer sends the bytes the real rsp_pack produced for payload p: they must be Pack(p)
TracePeerPack(p, bs) == /\ bs = Pack(p) /\ PeerBytes(bs)
                        /\ peerLog' = Append(peerLog, [p |-> p, good |-> TRUE])
                        /\ act' = [a |-> "PeerSend", p |-> p]
                        /\ UNCHANGED <<flags, txlog, cl, peerPos, cnt>> /\ UNCHANGED rxVars

\* a trace marked strict must follow its flags exactly (used to detect "LastAckIgnored");
\* otherwise both outcomes of the last acknowledged retransmission are accepted
Lenient == IF Traces[i].strict THEN {{}} ELSE {{}, {"LastAckIgnored"}}
\* a framed notification is dropped by the receiver: indistinguishable from no message
Obs(m) == IF m.k = "notif" THEN NoMsg ELSE m

EvStep ==
    \/ Ev.ev = "call"    /\ Call(Ev.c, Ev.payload)
    \/ Ev.ev = "acquire" /\ Acquire(Ev.c) /\ NewTx = Ev.tx
    \/ Ev.ev = "ack_get" /\ (\E lf \in Lenient : SenderGetF(flags \cup lf, Ev.c))
                         /\ Head(ackq) = Ev.v /\ NewTx = Ev.tx /\ cl'[Ev.c].st = Ev.out
    \/ Ev.ev = "timeout" /\ SenderTimeout(Ev.c)
    \/ Ev.ev = "peer"    /\ TracePeer(Ev.bytes)
    \/ Ev.ev = "peer_pack" /\ TracePeerPack(Ev.payload, Ev.bytes)
    \/ Ev.ev = "rx"      /\ RxByte /\ Head(toClient) = Ev.byte /\ Obs(act'.msg) = Obs(Ev.msg)
                         /\ NewTx = Ev.tx /\ NewDel = Ev.deliver
                         /\ (rxPend' # "") = Ev.blocked /\ Ev.dead = FALSE
    \* what the caller of GdbDebugDriver._send_command got back: the message delivered last
    \/ Ev.ev = "client_result" /\ delivered # <<>> /\ Ev.payload = delivered[Len(delivered)]
                               /\ act' = [a |-> "ClientResult"] /\ UNCHANGED <<flags, txlog, cl, cnt>>
                               /\ UNCHANGED rxVars /\ UNCHANGED peerVars
    \/ Ev.ev = "put_done"    /\ RxPutComplete
    \/ Ev.ev = "put_timeout" /\ RxPutTimeout /\ rxAlive' = ~Ev.dead

\* An event the specification cannot take marks the trace as rejected (TLC stops a worker at a
\* dead-lock even with -continue, so rejection is reported through the invariant NotRejected;
\* the state in which it fails carries i, l = the refused event, and the model state before it).
Step == /\ i > 0 /\ l <= Len(Traces[i].events) /\ ~bad
        /\ EvStep /\ l' = l + 1 /\ UNCHANGED <<chunk, i, bad>>
Reject == /\ i > 0 /\ l <= Len(Traces[i].events) /\ ~bad
          /\ ~ENABLED EvStep
          /\ bad' = TRUE /\ UNCHANGED <<chunk, i, l>> /\ UNCHANGED vars
Done == /\ i > 0 /\ (bad \/ l = Len(Traces[i].events) + 1) /\ UNCHANGED tvars /\ UNCHANGED vars
NotRejected == ~bad
\* a chunk without traces just stops
EmptyChunk == /\ chunk > 0 /\ i = 0 /\ \A k \in 1..Len(Traces) : k % NChunks # chunk - 1
              /\ UNCHANGED tvars /\ UNCHANGED vars
TNext == PickChunk \/ PickTrace \/ Step \/ Reject \/ Done \/ EmptyChunk
=============================================================================
