------------------------------ MODULE RV32_Dis ------------------------------
(* Spec validation only (DESIGN 3.10): writes RV32.Decode of every byte      *)
(* string of TRACE_FILE to OUT_FILE, so that the harness can compare the     *)
(* specification with llvm-mc on the same bytes.  Never decides a property.  *)
EXTENDS RV32, Json, IOUtils, TLC
Bs == JsonDeserialize(IOEnv.TRACE_FILE)
ASSUME JsonSerialize(IOEnv.OUT_FILE, [k \in 1..Len(Bs) |-> Decode(Bs[k])])
VARIABLE x
Init == x = 0
Next == UNCHANGED x
=============================================================================
