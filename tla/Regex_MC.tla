----------------------------- MODULE Regex_MC -----------------------------
(* Idiom M for C31: the design of ppci/lang/tools/regex as a state machine,   *)
(* model-checked for every AST of size <= MaxSize over {a, b, .} and every    *)
(* string over {a, b} of length <= MaxLen.                                    *)
(*                                                                            *)
(*   compile  (compiler.py: compile)  worklist construction of the DFA whose  *)
(*            states are the derivatives of `re`:  Expand*, Seal              *)
(*   walk     running the transition table over `inp`:  Choose, WalkStep*,     *)
(*            WalkEnd                                                         *)
(*   scan     (scanner.py: scan) the maximal-munch loop over the same table:  *)
(*            ScanAdvance / ScanEmit / ScanFail / ScanDone                    *)
(*                                                                            *)
(* Theorems (invariants): the table is a total deterministic automaton whose  *)
(* state i is the derivative of `re` by the witness word wit[i]; walking it   *)
(* accepts exactly Matches(re, inp); the scanner emits exactly the            *)
(* denotational longest-match tokenisation; Parse(Show(re)) = re.             *)
EXTENDS Regex, TLC
CONSTANTS MaxSize, MaxLen, ParseSize

cA == 97
cB == 98
cOther == 99                      \* stands for every character other than a, b
InChars == {cA, cB}               \* alphabet of the input strings
DChars == <<cA, cB, cOther>>      \* one representative per derivative class
Leaves == {Sym(cA), Sym(cB), AnyChar}

RECURSIVE AstsOver(_, _)
AstsOver(L, n) ==                 \* the ASTs with exactly n nodes over the leaves L
    IF n = 1 THEN L
    ELSE {Star(x) : x \in AstsOver(L, n - 1)} \cup {Plus(x) : x \in AstsOver(L, n - 1)} \cup {Opt(x) : x \in AstsOver(L, n - 1)}
         \cup UNION {UNION {{Cat(x, y), Alt(x, y)} : x \in AstsOver(L, k), y \in AstsOver(L, n - 1 - k)} : k \in 1..(n - 2)}
Asts == UNION {AstsOver(Leaves, n) : n \in 1..MaxSize}
Inputs == Strs(InChars, MaxLen)

VARIABLES re,        \* the expression
          phase,     \* "compile" | "sealed" | "walk" | "scan" | "done"
          states,    \* DFA state number -> derivative (state 1 = re)
          wit,       \* state number -> a word w with DerivW(re, w) = states[i]
          todo,      \* stack of state numbers still to expand
          trans,     \* set of <<from, char, to>>
          err,       \* number of the error state (0 until sealed)
          inp, cur, pos, verdict,
          sc,        \* scanner registers [st, off, start, acc, end]
          out,       \* tokens emitted, as [at, len]
          sres       \* "" | "done" | "nomatch" | "undefined"
vars == <<re, phase, states, wit, todo, trans, err, inp, cur, pos, verdict, sc, out, sres>>

IndexOf(seq, x) == IF \E i \in 1..Len(seq) : seq[i] = x THEN CHOOSE i \in 1..Len(seq) : seq[i] = x ELSE 0
Delta(i, c) == (CHOOSE t \in trans : t[1] = i /\ t[2] = c)[3]
Accepting(i) == Nullable(states[i])
SC0 == [st |-> 1, off |-> 0, start |-> 0, acc |-> FALSE, end |-> 0]

Init == /\ re \in Asts
        /\ phase = "compile" /\ states = <<re>> /\ wit = <<<<>>>> /\ todo = <<1>> /\ trans = {}
        /\ err = 0 /\ inp = <<>> /\ cur = 0 /\ pos = 0 /\ verdict = FALSE
        /\ sc = SC0 /\ out = <<>> /\ sres = ""

\* expansion of state i over the characters DChars[k..]; S = [states, wit, todo, trans]
RECURSIVE ExpandFrom(_, _, _)
ExpandFrom(i, k, S) ==
    IF k > Len(DChars) THEN S
    ELSE LET c == DChars[k]
             d == Deriv(S.states[i], c)
             j == IndexOf(S.states, d)
             n == Len(S.states) + 1
         IN IF j = 0
            THEN ExpandFrom(i, k + 1, [states |-> Append(S.states, d), wit |-> Append(S.wit, Append(S.wit[i], c)),
                                       todo |-> Append(S.todo, n), trans |-> S.trans \cup {<<i, c, n>>}])
            ELSE ExpandFrom(i, k + 1, [S EXCEPT !.trans = @ \cup {<<i, c, j>>}])

\* compile: `state = stack.pop()` and the loop over its derivative classes
Expand == /\ phase = "compile" /\ todo # <<>>
          /\ LET i == todo[Len(todo)]
                 S == ExpandFrom(i, 1, [states |-> states, wit |-> wit,
                                        todo |-> SubSeq(todo, 1, Len(todo) - 1), trans |-> trans])
             IN states' = S.states /\ wit' = S.wit /\ todo' = S.todo /\ trans' = S.trans
          /\ UNCHANGED <<re, phase, err, inp, cur, pos, verdict, sc, out, sres>>

\* compile: `error = state_numbers[expr.null]`.  The scanner needs the error
\* state even when no word leads to it (e.g. `.*`): it is added then.
Seal == /\ phase = "compile" /\ todo = <<>>
        /\ LET j == IndexOf(states, Null) IN
           IF j # 0 THEN err' = j /\ UNCHANGED <<states, wit, trans>>
           ELSE /\ err' = Len(states) + 1
                /\ states' = Append(states, Null)
                /\ wit' = Append(wit, <<>>)          \* unreachable: no witness word
                /\ trans' = trans \cup {<<Len(states) + 1, DChars[k], Len(states) + 1>> : k \in 1..Len(DChars)}
        /\ phase' = "sealed"
        /\ UNCHANGED <<re, todo, inp, cur, pos, verdict, sc, out, sres>>

Choose == /\ phase = "sealed" /\ inp' \in Inputs /\ cur' = 1 /\ pos' = 0 /\ phase' = "walk"
          /\ UNCHANGED <<re, states, wit, todo, trans, err, verdict, sc, out, sres>>

WalkStep == /\ phase = "walk" /\ pos < Len(inp)
            /\ cur' = Delta(cur, inp[pos + 1]) /\ pos' = pos + 1
            /\ UNCHANGED <<re, phase, states, wit, todo, trans, err, inp, verdict, sc, out, sres>>

\* a token rule that matches the empty string has no longest-match tokenisation
WalkEnd == /\ phase = "walk" /\ pos = Len(inp)
           /\ verdict' = Accepting(cur)
           /\ IF Accepting(1) THEN phase' = "done" /\ sres' = "undefined"
                              ELSE phase' = "scan" /\ sres' = ""
           /\ UNCHANGED <<re, states, wit, todo, trans, err, inp, cur, pos, sc, out>>

\* one iteration of the `while True` loop of scanner.scan, up to the test
\* `state == error_state`
Iter == LET a    == Accepting(sc.st)
            more == sc.off < Len(inp)
        IN [acc |-> sc.acc \/ a,
            end |-> IF a THEN sc.off ELSE sc.end,
            st  |-> IF more THEN Delta(sc.st, inp[sc.off + 1]) ELSE err,
            off |-> IF more THEN sc.off + 1 ELSE sc.off]
ScanAdvance == /\ phase = "scan" /\ Iter.st # err
               /\ sc' = [sc EXCEPT !.st = Iter.st, !.off = Iter.off, !.acc = Iter.acc, !.end = Iter.end]
               /\ UNCHANGED <<re, phase, states, wit, todo, trans, err, inp, cur, pos, verdict, out, sres>>
ScanEmit == /\ phase = "scan" /\ Iter.st = err /\ Iter.acc
            /\ out' = Append(out, [at |-> sc.start, len |-> Iter.end - sc.start])
            /\ sc' = [st |-> 1, off |-> Iter.end, start |-> Iter.end, acc |-> FALSE, end |-> Iter.end]
            /\ UNCHANGED <<re, phase, states, wit, todo, trans, err, inp, cur, pos, verdict, sres>>
ScanFail == /\ phase = "scan" /\ Iter.st = err /\ ~Iter.acc /\ Iter.off > sc.start
            /\ sres' = "nomatch" /\ phase' = "done"
            /\ UNCHANGED <<re, states, wit, todo, trans, err, inp, cur, pos, verdict, sc, out>>
ScanDone == /\ phase = "scan" /\ Iter.st = err /\ ~Iter.acc /\ Iter.off = sc.start
            /\ sres' = "done" /\ phase' = "done"
            /\ UNCHANGED <<re, states, wit, todo, trans, err, inp, cur, pos, verdict, sc, out>>

Next == Expand \/ Seal \/ Choose \/ WalkStep \/ WalkEnd \/ ScanAdvance \/ ScanEmit \/ ScanFail \/ ScanDone

(* ------------------------------ invariants ------------------------------ *)
NStates == Len(states)
\* compile
StatesDistinct == \A i, j \in 1..NStates : states[i] = states[j] => i = j
StatesAreDerivatives == \A i \in 1..NStates : i = err \/ DerivW(re, wit[i]) = states[i]
TransSound == \A t \in trans : states[t[3]] = Deriv(states[t[1]], t[2])
TransDeterministic == \A t, u \in trans : t[1] = u[1] /\ t[2] = u[2] => t[3] = u[3]
Sealed == phase # "compile"
TableTotal == Sealed => \A i \in 1..NStates : \A k \in 1..Len(DChars) : \E t \in trans : t[1] = i /\ t[2] = DChars[k]
ErrorState == Sealed => /\ err \in 1..NStates /\ states[err] = Null
                        /\ \A t \in trans : t[1] = err => t[3] = err        \* absorbing
                        /\ ~Accepting(err)
\* the empty language has one representation: every other state accepts something
OnlyErrorIsDead == Sealed => \A i \in 1..NStates : i = err \/ states[i] # Null
\* laws of the definitions, on every state of the automaton (phase "sealed": once per expression)
LawNullable == phase = "sealed" => \A i \in 1..NStates : Nullable(states[i]) = Matches(states[i], <<>>)
LawDeriv == phase = "sealed" =>
              \A i \in 1..NStates : \A k \in 1..Len(DChars) : \A s \in Strs(InChars, MaxLen - 1) :
                 Matches(Deriv(states[i], DChars[k]), s) = Matches(states[i], <<DChars[k]>> \o s)
LawAccepts == phase = "sealed" => \A s \in Inputs : Accepts(re, s) = Matches(re, s)
LawParse == phase = "sealed" => LET t == Show(re, 0) IN ParseRegex(t) = Ok(re, Len(t) + 1)
\* the same law for larger trees (precedence of | against concatenation needs 5 nodes) and for
\* leaves that need an escape or are classes: the parser reads back exactly the tree that was printed
ParseLeaves == {Sym(cA), Sym(cB), AnyChar, Sym(cStar), Sym(cDash), Cls({cA, cB, cStar}), Cls({cDash, cRBr, cBsl})}
ASSUME \A n \in 1..ParseSize : \A r \in AstsOver(ParseLeaves, n) :
          LET t == Show(r, 0) IN ParseRegex(t) = Ok(r, Len(t) + 1)
\* escapes at every position of a class (single item, start / end / both ends of a range) and of
\* every metacharacter outside a class
ClassOf(t) == ParseRegex(<<cLBr>> \o t \o <<cRBr>>)
IsCls(p, S) == p.ok /\ p.ast = Cls(S)
ASSUME /\ IsCls(ClassOf(<<cPlus, cDash, cBsl, cDash>>), 43..45)                 \* [+-\-]
       /\ IsCls(ClassOf(<<cBsl, cPlus, cDash, cBsl, cDot>>), 43..46)            \* [\+-\.]
       /\ IsCls(ClassOf(<<cBsl, cPlus, cDash, cDot>>), 43..46)                  \* [\+-.]
       /\ IsCls(ClassOf(<<cPlus, cDash, cDot>>), 43..46)                        \* [+-.]
       /\ IsCls(ClassOf(<<cLPar, cDash, cBsl, cRPar>>), {40, 41})               \* [(-\)]
       /\ IsCls(ClassOf(<<cBsl, cLBr, cDash, cBsl, cRBr>>), 91..93)             \* [\[-\]]
       /\ IsCls(ClassOf(<<cBsl, cBsl, cDash, cBsl, cCaret>>), 92..94)           \* [\\-\^]
       /\ IsCls(ClassOf(<<cBsl, cDash, cDash, 48>>), 45..48)                    \* [\--0]
       /\ IsCls(ClassOf(<<cA, cBsl, cDash, 99>>), {cA, cDash, 99})              \* [a\-c]
       /\ IsCls(ClassOf(<<cBsl, cCaret, cA>>), {cCaret, cA})                    \* [\^a]
       /\ IsCls(ClassOf(<<cPlus, cDash, cBsl, cDash, cDot>>), 43..46)           \* [+-\-.]   range, then a member
       /\ ~ClassOf(<<cPlus, cDash, cBsl>>).ok                                   \* [+-\]  the escape swallows ']'
       /\ ~ClassOf(<<cCaret, cBsl, cDash>>).ok                                  \* [^\-]  negation: no demand
ASSUME \A c \in Special : ParseRegex(<<cBsl, c>>) = Ok(Sym(c), 3) /\ ParseRegex(<<cA, cBsl, c, cB>>).ok
\* texts outside the supported syntax are recognised as such (no demand), not mis-read
ASSUME \A t \in {<<cA, cStar, cStar>>, <<cLBr, cCaret, cA, cRBr>>, <<cLPar, cA>>, <<cA, cRPar>>, <<cA, cBar>>,
                 <<cBar, cA>>, <<cLPar, cRPar>>, <<cBsl, 100>>, <<cA, cBsl>>, <<cLBr, cRBr>>, <<cLBr, cA, cDash, cRBr>>,
                 <<cLBr, cB, cDash, cA, cRBr>>, <<cStar>>, <<cA, cLBrace, 50, cRBrace>>, <<cCaret, cA>>, <<cA, cDollar>>} :
          ~ParseRegex(t).ok
\* walk
WalkInv == phase = "walk" =>
             /\ states[cur] = DerivW(re, Seg(inp, 1, pos))
             /\ Matches(states[cur], Seg(inp, pos + 1, Len(inp))) = Matches(re, inp)
Theorem == phase \in {"scan", "done"} => verdict = Matches(re, inp)
\* scan
Rules == OneRule(re)
Spec0 == Tokens(Rules, inp, 0)
IsPrefix(a, b) == Len(a) <= Len(b) /\ Seg(b, 1, Len(a)) = a
ScanInv == phase = "scan" =>
             /\ sc.start <= sc.off /\ sc.off <= Len(inp)
             /\ IsPrefix(out, Spec0.toks)                      \* every token emitted is the longest match
             /\ sc.start = (IF out = <<>> THEN 0 ELSE out[Len(out)].at + out[Len(out)].len)
             /\ sc.st = IndexOf(states, DerivW(re, Seg(inp, sc.start + 1, sc.off)))
             /\ sc.acc => sc.end > sc.start /\ Matches(re, Seg(inp, sc.start + 1, sc.end))
ScanResult == phase = "done" /\ sres # "undefined" =>
                /\ ScanDefined(Rules)
                /\ out = Spec0.toks
                /\ (sres = "done") = Spec0.ok
ScanUndefined == sres = "undefined" => ~ScanDefined(Rules)
=============================================================================
