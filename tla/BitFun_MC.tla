----------------------------- MODULE BitFun_MC -----------------------------
(* Idiom M: the bit-string definitions of BitSeq/BitFun agree with the      *)
(* arithmetic definitions on every bit pattern of width <= MaxW.            *)
EXTENDS BitFun, TLC
CONSTANT MaxW
VARIABLES w, b, phase
Init == w \in 1..MaxW /\ b \in BV(w) /\ phase = "pattern"
\* second family of states: small integers n for the ZInt laws
Next == phase = "pattern" /\ phase' = "done" /\ UNCHANGED <<w, b>>
v == Val(b)
M == Pow2(w)
Mod(a, m) == ((a % m) + m) % m
BitLen(n) == IF n = 0 THEN 0 ELSE CHOOSE k \in 1..31 : Pow2(k - 1) <= n /\ n < Pow2(k)

LawRot == \A c \in 0..(2 * w) :
            LET cc == c % w IN
            /\ Val(RotL(b, c)) = ((v * Pow2(cc)) % M) + (v \div Pow2(w - cc))
            /\ Val(RotR(b, c)) = (v \div Pow2(cc)) + ((v * Pow2(w - cc)) % M)
            /\ RotR(RotL(b, c), c) = b
LawRev == Rev(Rev(b)) = b /\ \A k \in 0..(w - 1) : (Val(Rev(b)) \div Pow2(k)) % 2 = (v \div Pow2(w - 1 - k)) % 2
LawCount == /\ Clz(b) = w - BitLen(v)
            /\ Ctz(b) = (IF v = 0 THEN w ELSE CHOOSE k \in 0..(w - 1) : v % Pow2(k + 1) = Pow2(k))
            /\ Pop(b) = Cardinality({k \in 0..(w - 1) : (v \div Pow2(k)) % 2 = 1})
LawSigned == /\ ZVal(BVToSignedZ(b)) = (IF v >= Pow2(w - 1) THEN v - M ELSE v)
             /\ ZVal(BVToUnsignedZ(b)) = v
             /\ IsZInt(BVToSignedZ(b)) /\ IsZInt(BVToUnsignedZ(b))
LawArith == \A a \in BV(w) :
              /\ Val(Add(a, b)) = (Val(a) + v) % M
              /\ Val(Sub(a, b)) = Mod(Val(a) - v, M)
              /\ LtU(a, b) <=> Val(a) < v
LawNeg == Val(Neg(b)) = Mod(-v, M) /\ Val(Not(b)) = M - 1 - v /\ Val(Inc(b)) = (v + 1) % M
LawShift == \A n \in 0..w :
              /\ Val(Shl(b, n)) = (v * Pow2(n)) % M
              /\ Val(ShrL(b, n)) = v \div Pow2(n)
              /\ ZVal(BVToSignedZ(ShrA(b, n))) =
                   LET s == ZVal(BVToSignedZ(b)) IN (s - Mod(s, Pow2(n))) \div Pow2(n)
LawExt == \A w2 \in w..(w + 3) :
              /\ Val(ZExt(b, w2)) = v
              /\ ZVal(BVToSignedZ(SExt(b, w2))) = ZVal(BVToSignedZ(b))
\* ZInt laws on small integers (independent of b): checked in states with v used as n
LawZ == \A n \in {v, -v, v - M, v + M, -v - M} :
          /\ IsZInt(ZOfInt(n)) /\ ZVal(ZOfInt(n)) = n
          /\ Val(ZToUnsigned(ZOfInt(n), w)) = Mod(n, M)
          /\ ZFitsSigned(ZOfInt(n), w) <=> (-(Pow2(w - 1)) <= n /\ n < Pow2(w - 1))
          /\ ZFitsUnsigned(ZOfInt(n), w) <=> (0 <= n /\ n < M)
LawBytes == LET p == PadTo8(b) IN
              /\ Len(p) % 8 = 0 /\ Val(p) = v
              /\ \A k \in 1..(Len(p) \div 8) : BytesLE(p)[k] = (v \div Pow2(8 * (k - 1))) % 256
              /\ BytesBE(p) = [k \in 1..(Len(p) \div 8) |-> BytesLE(p)[(Len(p) \div 8) + 1 - k]]
\* ARM modified-immediate: definition by rotation agrees with the decoder
ASSUME \A rot \in 0..15 : \A x \in {0, 1, 128, 255, 165} :
          LET d == ArmImmDecode(rot, NatBits(x, 8)) IN
          /\ ArmImmRepresentable(d)
          /\ RotL(d, 2 * rot) = ZExt(NatBits(x, 8), 32)
ASSUME ~ArmImmRepresentable(NatBits(257, 32)) /\ ~ArmImmRepresentable(Ones(32))
ASSUME \A a \in 0..9 : \A m \in 1..5 : AlignUp(a, m) % m = 0 /\ AlignUp(a, m) >= a /\ AlignUp(a, m) < a + m
=============================================================================
