------------------------------- MODULE WS_Eval -------------------------------
(* Idiom E for extension property X02 (Whitespace half): what ppci.lang.ws     *)
(* did with a token sequence, judged against WS.tla.                           *)
(*  kind "parse": [toks, got : [ok, exc, ins : Seq([cls, v])]]                 *)
(*       WhitespaceParser must accept exactly the well-formed sequences        *)
(*       (Parse(toks).ok), produce one instruction object per instruction, of  *)
(*       the class that stands for it (table Class; instructions for which     *)
(*       ppci has no class yet may be of any class) with the pushed number,    *)
(*       and reject every other sequence with a CompilerError;                 *)
(*  kind "run":   [toks, obs, got : [ok, exc, text]]  obs = the observation    *)
(*       TLC computed with WS.tla (WS_Run) for the same tokens and inputs;     *)
(*       when the machine run ends "ok" the front-end's execution of the       *)
(*       program must write exactly the text of the machine's output events;   *)
(*  kind "ir":    [toks, got : [module]]  a well-formed program must yield an  *)
(*       IR module (the property is about the IR the front-end produces).      *)
(* Sequences that WS.tla leaves open (unspec) and machine runs that end in an  *)
(* error / outside the model give no verdict.                                  *)
EXTENDS WS, TLC, Json, IOUtils
Recs == JsonDeserialize(IOEnv.TRACE_FILE)
NChunks == 16
VARIABLES chunk, i
Class == [push |-> "Push", add |-> "Add", sub |-> "Substract", mul |-> "Multiply", div |-> "Division", mod |-> "Modulo",
          outchar |-> "OutputCharacter", outnum |-> "OutputNumber", end |-> "EndProgram"]
InsOK(x, g) == /\ x.op \in DOMAIN Class => g.cls = Class[x.op]
               /\ x.op = "push" => g.v = NumVal(x.bits)
Allowed(r) ==
    LET P == Parse(r.toks) IN
    IF P.unspec THEN TRUE
    ELSE CASE r.kind = "parse" ->
                 IF P.ok THEN /\ r.got.ok /\ Len(r.got.ins) = Len(P.ins)
                              /\ \A j \in 1..Len(P.ins) : InsOK(P.ins[j], r.got.ins[j])
                 ELSE ~r.got.ok /\ r.got.exc = "CompilerError"
           [] r.kind = "run" ->
                 (P.ok /\ r.obs.status = "ok" /\ Printable(r.obs.out)) =>
                     r.got.ok /\ r.got.text = Text(r.obs.out, Len(r.obs.out))
           [] r.kind = "ir" -> P.ok => r.got.module
           [] OTHER -> FALSE
Init == chunk = 0 /\ i = 0 /\ w = Idle
PickChunk == chunk = 0 /\ chunk' \in 1..NChunks /\ UNCHANGED <<i, w>>
PickRec == chunk > 0 /\ i = 0 /\ i' \in {k \in 1..Len(Recs) : k % NChunks = chunk - 1} /\ UNCHANGED <<chunk, w>>
Next == PickChunk \/ PickRec
Conforms == i > 0 => Allowed(Recs[i])
=============================================================================
