------------------------------- MODULE IHex -------------------------------
(* Intel HEX (Intel "Hexadecimal Object File Format Specification", rev. A, *)
(* 1988) written down as an independent reader:                             *)
(*                                                                          *)
(*   record  ::= ':' count(1) offset(2) type(1) data(count) checksum(1)     *)
(*               every byte as two hexadecimal digits;                      *)
(*               sum of all bytes = 0 (mod 256)                             *)
(*   type 00 data, 01 end of file, 02 extended segment address,             *)
(*        03 start segment address, 04 extended linear address,             *)
(*        05 start linear address                                           *)
(*   byte i of a data record lives at                                       *)
(*        (ULBA * 2^16 + offset + i) mod 2^32         after a 04 record     *)
(*        USBA * 16 + ((offset + i) mod 2^16)         after a 02 record     *)
(*     so under linear addressing a record may run across a 64 KiB boundary *)
(*     without wrapping.                                                    *)
(*                                                                          *)
(* Two formulations of "what a file means" are given and compared by the    *)
(* model (IHex_MC):                                                         *)
(*   - a streaming reader (state rd, one Rd.. step per record) that checks   *)
(*     each record against the expected memory regions and keeps a cover of *)
(*     the bytes written so far;                                            *)
(*   - a declarative decoder (Decoded...) giving  the memory map as a set of   *)
(*     cells, the address context of a line being the latest extended       *)
(*     address record before it.                                            *)
(* plus a reference encoder (Encode).                                       *)
(*                                                                          *)
(* LoMod / HiMod are 2^16 / 2^16 for the real format; the model scales the  *)
(* address space down (e.g. 2 "segments" of 8 bytes) with the same rules.   *)
EXTENDS IHexText
CONSTANTS LoMod, HiMod

DATA == 0
EOFR == 1
EXTSEG == 2
STARTSEG == 3
EXTLIN == 4
STARTLIN == 5
Top == <<HiMod, 0>>                      \* one past the last address

\* ------------------------------------------------------------ one record
Word(d, k) == 256 * d[k] + d[k + 1]
LengthOK(p) == Len(p.bytes) = p.count + 5
ChecksumOK(p) == Sum(p.bytes) % 256 = 0
KindOK(p) == CASE p.typ = DATA     -> p.off < LoMod
               [] p.typ = EOFR     -> p.count = 0 /\ p.off = 0
               [] p.typ = EXTSEG   -> p.count = 2 /\ p.off = 0
               [] p.typ = STARTSEG -> p.count = 4 /\ p.off = 0
               [] p.typ = EXTLIN   -> p.count = 2 /\ p.off = 0 /\ Word(p.data, 1) < HiMod
               [] p.typ = STARTLIN -> p.count = 4 /\ p.off = 0 /\ Word(p.data, 1) < HiMod /\ Word(p.data, 3) < LoMod
               [] OTHER            -> FALSE
\* a parsed line: the fields and the verdict wf (well-formed record)
NoParse == [ok |-> FALSE, count |-> 0, off |-> 0, typ |-> -1, data |-> <<>>, wf |-> FALSE]
Parse(line) ==
    LET dg == Digits(line, 2) IN
    IF Len(line) >= 11 /\ line[1] = 58 /\ AreHexPairs(dg)
    THEN LET b == DigitsToBytes(dg)
             p == [count |-> b[1], off |-> 256 * b[2] + b[3], typ |-> b[4],
                   data |-> SubSeq(b, 5, Len(b) - 1), bytes |-> b]
         IN [ok |-> TRUE, count |-> p.count, off |-> p.off, typ |-> p.typ, data |-> p.data,
             wf |-> LengthOK(p) /\ ChecksumOK(p) /\ KindOK(p)]
    ELSE NoParse
WellFormed(p) == p.wf

\* ----------------------------------------------------- addressing rules
LinCtx(u) == [mode |-> "lin", upper |-> u]
SegCtx(u) == [mode |-> "seg", upper |-> u]
Ctx0 == LinCtx(0)
SegAddr(u, o) == LET x == u * 16 + o IN <<x \div LoMod, x % LoMod>>
\* the regions (0, 1 or 2 of them) a well-formed data record denotes
Pieces(ctx, p) ==
    LET n == p.count IN
    IF n = 0 THEN <<>>
    ELSE IF ctx.mode = "lin"
    THEN LET s == <<ctx.upper, p.off>>
             e == AddrPlus(s, n, LoMod)
         IN IF AddrLe(e, Top) THEN <<Reg(s, p.data)>>
            ELSE LET n1 == AddrDiff(Top, s, LoMod)          \* wraps modulo the address space
                 IN <<Reg(s, SubSeq(p.data, 1, n1)), Reg(<<0, 0>>, SubSeq(p.data, n1 + 1, n))>>
    ELSE IF p.off + n <= 65536 THEN <<Reg(SegAddr(ctx.upper, p.off), p.data)>>
         ELSE LET n1 == 65536 - p.off                       \* the offset wraps inside the segment
              IN <<Reg(SegAddr(ctx.upper, p.off), SubSeq(p.data, 1, n1)),
                   Reg(SegAddr(ctx.upper, 0), SubSeq(p.data, n1 + 1, n))>>

Parsed(lines) == [k \in 1..Len(lines) |-> Parse(lines[k])]

\* ------------------------------------------------------ streaming reader
NoStart == [has |-> FALSE, hi |-> 0, lo |-> 0]
RdInit == [ctx |-> Ctx0, cov |-> <<>>, start |-> NoStart, eof |-> FALSE, ndata |-> 0,
           nbad |-> 0, nforeign |-> 0, ndup |-> 0, nafter |-> 0, ev |-> "init"]
\* only the first three offences of a kind are events of their own (keeps the number of
\* reported states small when every record of a long file is wrong)
Ev(n, name) == IF n < 3 THEN name ELSE "more"

RdAfterEof(rd) == [rd EXCEPT !.nafter = @ + 1, !.ev = Ev(rd.nafter, "after")]
RdBad(rd)      == [rd EXCEPT !.nbad = @ + 1, !.ev = Ev(rd.nbad, "bad")]
CovAddAll(cov, ps) == IF Len(ps) = 0 THEN cov
                      ELSE IF Len(ps) = 1 THEN CovAdd(cov, A(ps[1]), RegEnd(ps[1], LoMod))
                      ELSE CovAdd(CovAdd(cov, A(ps[1]), RegEnd(ps[1], LoMod)), A(ps[2]), RegEnd(ps[2], LoMod))
\* exp: the expected regions in canonical form
RdData(rd, p, exp) ==
    LET ps == Pieces(rd.ctx, p)
        match == \A k \in 1..Len(ps) : PieceMatches(ps[k], exp, LoMod)
        over == \/ \E k \in 1..Len(ps) : CovOverlaps(rd.cov, A(ps[k]), RegEnd(ps[k], LoMod))
                \/ (Len(ps) = 2 /\ RegOverlap(ps[1], ps[2], LoMod))
    IN IF ~match THEN [rd EXCEPT !.nforeign = @ + 1, !.ev = Ev(rd.nforeign, "foreign")]
       ELSE IF over THEN [rd EXCEPT !.ndup = @ + 1, !.ev = Ev(rd.ndup, "dup")]
       ELSE [rd EXCEPT !.cov = CovAddAll(rd.cov, ps), !.ndata = @ + 1, !.ev = "ok"]
RdEof(rd)         == [rd EXCEPT !.eof = TRUE, !.ev = "ok"]
RdExtLin(rd, p)   == [rd EXCEPT !.ctx = LinCtx(Word(p.data, 1)), !.ev = "ok"]
RdExtSeg(rd, p)   == [rd EXCEPT !.ctx = SegCtx(Word(p.data, 1)), !.ev = "ok"]
RdStartLin(rd, p) == [rd EXCEPT !.start = [has |-> TRUE, hi |-> Word(p.data, 1), lo |-> Word(p.data, 3)], !.ev = "ok"]
RdStartSeg(rd, p) == [rd EXCEPT !.ev = "ok"]              \* CS:IP of an 8086 image: not a linear start address
RdStep(rd, p, exp) ==
    IF rd.eof THEN RdAfterEof(rd)
    ELSE IF ~WellFormed(p) THEN RdBad(rd)
    ELSE CASE p.typ = DATA     -> RdData(rd, p, exp)
           [] p.typ = EOFR     -> RdEof(rd)
           [] p.typ = EXTLIN   -> RdExtLin(rd, p)
           [] p.typ = EXTSEG   -> RdExtSeg(rd, p)
           [] p.typ = STARTLIN -> RdStartLin(rd, p)
           [] p.typ = STARTSEG -> RdStartSeg(rd, p)
\* the whole file at once; P is the sequence of parsed lines
RECURSIVE RunFrom(_, _, _, _)
RunFrom(rd, P, k, exp) == IF k > Len(P) THEN rd ELSE RunFrom(RdStep(rd, P[k], exp), P, k + 1, exp)
RunP(P, exp) == RunFrom(RdInit, P, 1, exp)

\* verdicts on the final reader state
Clean(rd) == rd.nbad = 0 /\ rd.nforeign = 0 /\ rd.ndup = 0 /\ rd.nafter = 0
CoveredExactly(rd, exp) == rd.cov = CovOfRegions(exp, LoMod)
StartIs(st, s) == IF s.hi = 0 /\ s.lo = 0 THEN (~st.has \/ (st.hi = 0 /\ st.lo = 0))
                  ELSE st.has /\ st.hi = s.hi /\ st.lo = s.lo
\* the file is a conforming image of (regions, start)
Accepts(rd, exp, s) == Clean(rd) /\ rd.eof /\ CoveredExactly(rd, exp) /\ StartIs(rd.start, s)

\* --------------------------------------------------- declarative decoder
SetMax(S) == CHOOSE j \in S : \A m \in S : m <= j
SetMin(S) == CHOOSE j \in S : \A m \in S : j <= m
EofAt(P) == LET S == {k \in 1..Len(P) : WellFormed(P[k]) /\ P[k].typ = EOFR}
            IN IF S = {} THEN Len(P) + 1 ELSE SetMin(S)
CtxAt(P, k) == LET S == {j \in 1..(k - 1) : WellFormed(P[j]) /\ P[j].typ \in {EXTLIN, EXTSEG}}
               IN IF S = {} THEN Ctx0
                  ELSE LET j == SetMax(S) IN
                       IF P[j].typ = EXTLIN THEN LinCtx(Word(P[j].data, 1)) ELSE SegCtx(Word(P[j].data, 1))
DataLines(P) == {k \in 1..(EofAt(P) - 1) : WellFormed(P[k]) /\ P[k].typ = DATA}
DecodedCells(P) == UNION {Cells(Pieces(CtxAt(P, k), P[k]), LoMod) : k \in DataLines(P)}
DecodedBytes(P) == LET D == DataLines(P) IN Sum([k \in 1..Len(P) |-> IF k \in D THEN P[k].count ELSE 0])
DecodedStart(P) == LET S == {k \in 1..(EofAt(P) - 1) : WellFormed(P[k]) /\ P[k].typ = STARTLIN}
                   IN IF S = {} THEN NoStart
                      ELSE LET d == P[SetMax(S)].data IN [has |-> TRUE, hi |-> Word(d, 1), lo |-> Word(d, 3)]
\* every cell of the regions is written, nothing else is, and no address twice
DecodesExactly(P, regs) == DecodedCells(P) = Cells(regs, LoMod) /\ DecodedBytes(P) = Bytes(regs)
AllWellFormed(P) == \A k \in 1..Len(P) : WellFormed(P[k])
DeclAccepts(P, regs, s) == /\ AllWellFormed(P) /\ EofAt(P) = Len(P)
                           /\ DecodesExactly(P, regs) /\ StartIs(DecodedStart(P), s)
\* decoded data as canonical regions (pieces of the data records, in file
\* order, merged); meaningful when no address is written twice
RECURSIVE PiecesFrom(_, _, _)
PiecesFrom(P, D, k) == IF k > Len(P) THEN <<>>
                       ELSE (IF k \in D THEN Pieces(CtxAt(P, k), P[k]) ELSE <<>>) \o PiecesFrom(P, D, k + 1)
DecodedRegions(P) == Merge(PiecesFrom(P, DataLines(P), 1), LoMod)

\* ----------------------------------------------------- reference encoder
Min2(a, b) == IF a < b THEN a ELSE b
Line(body, upper) == <<58>> \o HexOfBytes(body \o <<(256 - (Sum(body) % 256)) % 256>>, upper)
RecLine(off, typ, data, upper) == Line(<<Len(data), off \div 256, off % 256, typ>> \o data, upper)
ExtLinLine(hi, upper) == RecLine(0, EXTLIN, <<hi \div 256, hi % 256>>, upper)
StartLine(s, upper) == RecLine(0, STARTLIN, <<s.hi \div 256, s.hi % 256, s.lo \div 256, s.lo % 256>>, upper)
EofLine(upper) == RecLine(0, EOFR, <<>>, upper)
\* cut one region into records of at most ch bytes; split: a record never
\* crosses a LoMod boundary (otherwise it may, as the linear rule allows)
RECURSIVE ChunkRegion(_, _, _, _)
ChunkRegion(a, d, ch, split) ==
    IF d = <<>> THEN <<>>
    ELSE LET n == IF split THEN Min2(Min2(ch, Len(d)), LoMod - a[2]) ELSE Min2(ch, Len(d))
         IN <<Reg(a, SubSeq(d, 1, n))>> \o ChunkRegion(AddrPlus(a, n, LoMod), SubSeq(d, n + 1, Len(d)), ch, split)
RECURSIVE ChunkAll(_, _, _, _)
ChunkAll(mr, k, ch, split) == IF k > Len(mr) THEN <<>>
                              ELSE ChunkRegion(A(mr[k]), mr[k].data, ch, split) \o ChunkAll(mr, k + 1, ch, split)
\* opt = [ch, split, lazy, upper, force05]; lazy: no 04 record while the upper
\* half is still the default 0
RECURSIVE EncChunks(_, _, _)
EncChunks(cs, k, opt) ==
    IF k > Len(cs) THEN <<>>
    ELSE LET need == IF k = 1 THEN ~(opt.lazy /\ cs[1].hi = 0) ELSE cs[k].hi # cs[k - 1].hi
         IN (IF need THEN <<ExtLinLine(cs[k].hi, opt.upper)>> ELSE <<>>)
            \o <<RecLine(cs[k].lo, DATA, cs[k].data, opt.upper)>> \o EncChunks(cs, k + 1, opt)
Encode(regs, s, opt) ==
    EncChunks(ChunkAll(Merge(regs, LoMod), 1, opt.ch, opt.split), 1, opt)
    \o (IF opt.force05 \/ s.hi # 0 \/ s.lo # 0 THEN <<StartLine(s, opt.upper)>> ELSE <<>>)
    \o <<EofLine(opt.upper)>>
=============================================================================
