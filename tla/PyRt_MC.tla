------------------------------- MODULE PyRt_MC -------------------------------
(* Idiom M: the integer-level lowering (PyRt.tla) refines the word-level IR    *)
(* semantics (IROps.tla / Words.tla) - exhaustively for the 8-bit types, on     *)
(* boundary operands for the 16-bit types; laws of the recorded-value decoding  *)
(* (PyVal.tla) and of truncation (Rat.tla).                                     *)
EXTENDS PyVal, PyRt, TLC

CONSTANT Full          \* TRUE: every second operand of the 8-bit types; FALSE: boundary second operands

VARIABLES kind,        \* "idle" | "binop" | "unop" | "cast" | "cond" | "val" | "rat"
          op, ty, ty2, a, b,
          ph           \* 0 idle, 1 shape chosen, 2 operands chosen (laws are evaluated here)
vars == <<kind, op, ty, ty2, a, b, ph>>

Bits(t) == 8 * SzP(t, 4)
Lo(t) == IF Signed(t) THEN -Pow2(Bits(t) - 1) ELSE 0
Hi(t) == IF Signed(t) THEN Pow2(Bits(t) - 1) - 1 ELSE Pow2(Bits(t)) - 1
Bnd(t) == {v \in {Lo(t), Lo(t) + 1, -129, -128, -127, -8, -7, -2, -1, 0, 1, 2, 3, 7, 8, 9, 15, 16, 127, 128, 129,
                  255, 256, 257, Hi(t) \div 2, Hi(t) - 1, Hi(t)} : Lo(t) <= v /\ v <= Hi(t)}
Small == {"i8", "u8"}
Types == {"i8", "u8", "i16", "u16"}
ValsA(t) == IF t \in Small THEN Lo(t)..Hi(t) ELSE Bnd(t)
BndB(t) == {v \in {Lo(t), -7, -1, 0, 2, Hi(t)} : Lo(t) <= v /\ v <= Hi(t)}
ValsB(t) == IF Full THEN (IF t \in Small THEN Lo(t)..Hi(t) ELSE Bnd(t)) ELSE BndB(t)
Ops == {"+", "-", "*", "/", "%", "&", "|", "^", "<<", ">>", "rol", "ror"}
\* products / shifted values of the unsigned 16-bit type exceed TLC's 32-bit integers
OpsOf(t) == IF t = "u16" THEN Ops \ {"*", "<<", "rol", "ror"} ELSE IF t = "i16" THEN Ops \ {"rol", "ror"} ELSE Ops
Conds == {"==", "!=", "<", ">", "<=", ">="}

W(v, t) == WFromInt(v, SzP(t, 4))
IntOf(w, t) == IF Signed(t) /\ IsNegW(w) THEN WToNat(w) - Pow2(8 * Len(w)) ELSE WToNat(w)

Init == kind = "idle" /\ op = "" /\ ty = "" /\ ty2 = "" /\ a = 0 /\ b = 0 /\ ph = 0
\* two-level fan-out (shape first, operands second) so that all workers share the work
Shape(k, o, t, t2) == kind = "idle" /\ kind' = k /\ op' = o /\ ty' = t /\ ty2' = t2 /\ a' = 0 /\ b' = 0 /\ ph' = 1
PickBinop == \E t \in Types : \E o \in OpsOf(t) : Shape("binop", o, t, "")
PickUnop  == \E t \in Types : \E o \in {"-", "~"} : Shape("unop", o, t, "")
PickCast  == \E t \in Types : \E t2 \in Types : Shape("cast", "", t, t2)
PickCond  == \E t \in Types : \E o \in Conds : Shape("cond", o, t, "")
PickVal   == \E t \in Types : Shape("val", "", t, "")
PickRat   == \E t \in {"i8", "u8"} : Shape("rat", "", t, "")
ValRange == (IF Full THEN -700..700 ELSE -300..300) \cup (32768 - 300..32768 + 300) \cup (65536 - 300..65536 + 300)
            \cup (-32768 - 300..-32768 + 300) \cup (-65536 - 300..-65536 + 300)
Operands == /\ ph = 1 /\ ph' = 2
            /\ a' \in CASE kind = "val" -> ValRange
                        [] kind = "rat" -> (IF Full THEN -1100..1100 ELSE -300..300)
                        [] kind = "cond" -> (IF Full THEN ValsA(ty) ELSE Bnd(ty))
                        [] OTHER -> ValsA(ty)
            /\ b' \in CASE kind = "binop" -> ValsB(ty)
                        [] kind = "cond" -> (IF Full THEN Bnd(ty) ELSE BndB(ty))
                        [] kind = "rat" -> {1, 2, 4, 8} [] OTHER -> {0}
            /\ UNCHANGED <<kind, op, ty, ty2>>
Next == PickBinop \/ PickUnop \/ PickCast \/ PickCond \/ PickVal \/ PickRat \/ Operands

(* ---- the lowering refines the IR operator semantics ------------------------- *)
LawBinop == (ph = 2 /\ kind = "binop") =>
    (BinopDefined(op, W(a, ty), W(b, ty), ty) =>
        PyBinop(op, a, b, Bits(ty), Signed(ty)) = IntOf(BinopVal(op, W(a, ty), W(b, ty), ty), ty))
LawUnop == (ph = 2 /\ kind = "unop") =>
    PyUnop(op, a, Bits(ty), Signed(ty)) = IntOf(UnopVal(op, W(a, ty)), ty)
LawCast == (ph = 2 /\ kind = "cast") =>
    PyCastInt(a, Bits(ty2), Signed(ty2)) = IntOf(CastVal(W(a, ty), ty, ty2, 4), ty2)
LawCond == (ph = 2 /\ kind = "cond") =>
    PyCond(op, a, b) = CondVal(op, W(a, ty), W(b, ty), ty)
\* truncating division is not Python's floor division (why rt.idiv / rt.irem exist at all)
LawDivDiffers == (ph = 2 /\ kind = "binop" /\ op = "/" /\ b # 0 /\ Signed(ty)) =>
    ((IDiv(a, b) # FloorDiv(a, b)) <=> (Abs(a) % Abs(b) # 0 /\ ((a < 0) # (b < 0))))
\* the result of every lowered operator is canonical: a later comparison / store sees an in-range int
LawCanonical == (ph = 2 /\ kind = "binop") =>
    ((op \in {"/", "%"} => b # 0) =>
        LET r == PyBinop(op, a, b, Bits(ty), Signed(ty)) IN Lo(ty) <= r /\ r <= Hi(ty))

(* ---- decoding of recorded Python values --------------------------------------- *)
\* an integer designates a word of the type iff it is in range, and then it is the two's-complement word
LawVal == (ph = 2 /\ kind = "val") =>
    LET z == ZOfInt(a)  n == SzP(ty, 4) IN
    /\ ZFits(z, n, Signed(ty)) <=> (Lo(ty) <= a /\ a <= Hi(ty))
    /\ ZFits(z, n, Signed(ty)) <=> IntFits(a, n, Signed(ty))
    /\ ZFits(z, n, Signed(ty)) => (ZWord(z, n) = W(a, ty) /\ PyIsWord(z, W(a, ty), Signed(ty)))
    /\ ~ZFits(z, n, Signed(ty)) => ~PyIsWord(z, W(a, ty), Signed(ty))      \* an unwrapped int is never accepted

(* ---- truncation toward zero ------------------------------------------------------ *)
LawRat == (ph = 2 /\ kind = "rat") =>
    LET q == <<a, b>>  t == TruncZ(q) IN
    /\ IsTruncOf(t, q)
    /\ \A u \in (t - 1)..(t + 1) : IsTruncOf(u, q) => u = t           \* uniqueness
    /\ t = (IF a >= 0 THEN Floor(q) ELSE Ceil(q))
    /\ (IsIntegral(q) => t = RoundHalfEven(q))
    /\ (RoundHalfEven(q) # t => ~IsIntegral(q))
    /\ (IntFits(t, 1, Signed(ty)) => PyCastFloat(q, 8, Signed(ty)) = t)
=============================================================================
