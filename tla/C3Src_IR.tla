------------------------------ MODULE C3Src_IR ------------------------------
(* The judgement of property C37:  C3Src (the C3 abstract machine)  is refined by  IR.   *)
(* A case is an IR.tla case (mods = <<projection of api.c3_to_ir(source, march)>>)        *)
(* whose field  obs  is the sequence, indexed by argument vector, of the observations     *)
(* that TLC computed with C3Src.tla (module C3Src_Run) for the abstract program the C3    *)
(* source was rendered from (global names carry the prefix "<module>_" that the front-end *)
(* gives them).  TLC executes the IR under IR.tla and checks, for every execution that    *)
(* C3 semantics fully define (C3Src status "ok"), that the IR execution is itself defined *)
(* and yields the same return value and the same bytes of every non-pointer global.       *)
(* The programs contain no floating point and no inline assembly, so an IR execution that *)
(* IR.tla cannot follow for such a reason ("outofmodel", e.g. a non-integral constant of  *)
(* integer type) is a wrong translation as well; only the step budget gives no verdict.   *)
EXTENDS IR

HasObs == Finished /\ ph = 1 /\ "obs" \in DOMAIN C
SrcObs == C.obs[av]
Judged == HasObs /\ SrcObs.status = "ok" /\ status # "fuel"

MemberBytes(name, off, n) ==
    LET S == {k \in VarIdx : M.globals[k].name = name} IN
    IF S = {} THEN <<>>
    ELSE LET k == CHOOSE k \in S : TRUE IN
         IF off + n <= M.globals[k].size THEN Cells(gaddr[k] + off, n) ELSE <<>>

\* a program whose behaviour C3 defines must not be translated into IR that traps, uses an
\* undefined value, accesses memory out of bounds, is malformed or is not integer code
DefinedStaysDefined == Judged => status = "ok"
\* a void function leaves through `exit` (no value); otherwise the returned word must be the prescribed one
SrcSameReturn  == (Judged /\ status = "ok") => ret = SrcObs.ret
SrcSameGlobals == (Judged /\ status = "ok") =>
                  \A j \in 1..Len(SrcObs.globals) :
                     LET g == SrcObs.globals[j] IN MemberBytes(g.name, g.off, Len(g.bytes)) = g.bytes
=============================================================================
