------------------------------ MODULE RV32_Gen ------------------------------
(* Idiom G: the boundary product of C10 (and the operand values used for     *)
(* C08 / C07 instances) is enumerated from RV32.FieldRange by TLC and        *)
(* written as JSON; the Python harness replays it into ppci.                 *)
EXTENDS RV32, Json, IOUtils, TLC, SequencesExt
\* immediate / displacement operand of a printed (surface) mnemonic
SurfaceRange(m0) == LET m == Spelling(m0) IN
    IF m \in {"bgt", "ble", "bgtu", "bleu"} THEN FieldRange("beq")
    ELSE IF m = "j" THEN FieldRange("jal")
    ELSE IF m \in {"csrwi", "csrsi", "csrci", "csrrwi", "csrrsi", "csrrci"} THEN UimmRange
    ELSE FieldRange(m)
Surface == Mn32 \cup Mn16 \cup {"bgt", "ble", "bgtu", "bleu", "j", "csrwi", "csrsi", "csrci", "c.bneqz", "bneq"}
Labelled(fr) == LET lo == FMin(fr)  hi == FMax(fr)  a == fr.align  top == P2(fr.bits)  half == P2(fr.bits - 1) IN
    << <<"min-a", lo - a>>, <<"min-1", lo - 1>>, <<"min", lo>>, <<"min+1", lo + 1>>, <<"min+a", lo + a>>,
       <<"-a", -a>>, <<"-1", -1>>, <<"0", 0>>, <<"1", 1>>, <<"a", a>>,
       <<"max-a", hi - a>>, <<"max-1", hi - 1>>, <<"max", hi>>, <<"max+1", hi + 1>>, <<"max+a", hi + a>>,
       <<"half-a", half - a>>, <<"half", half>>, <<"half+a", half + a>>,
       <<"top-a", top - a>>, <<"top-1", top - 1>>, <<"top", top>>, <<"top+a", top + a>>,
       <<"2top-a", 2 * top - a>>, <<"-top", -top>>, <<"-top-a", -top - a>>, <<"-2top", -2 * top>> >>
\* why a value is not representable: misaligned, reserved zero, or outside the range -- "lo" / "hi": still
\* inside [-2^bits, 2^bits) (the values a sign-less bits-wide field helper lets through), "ll" / "hh": beyond
Category(fr, v) == IF Representable(fr, v) THEN "in"
                   ELSE IF v % fr.align # 0 THEN "mis"
                   ELSE IF v < -P2(fr.bits) THEN "ll"
                   ELSE IF v < FMin(fr) THEN "lo"
                   ELSE IF v >= P2(fr.bits) THEN "hh"
                   ELSE IF v > FMax(fr) THEN "hi"
                   ELSE "nz"
Row(m) == LET fr == SurfaceRange(m)  lab == Labelled(fr) IN
    [mn |-> m, kind |-> fr.kind, bits |-> fr.bits, align |-> fr.align, nz |-> fr.nz,
     vals |-> IF fr.kind = "n" THEN << >>
              ELSE [k \in 1..Len(lab) |->
                       [label |-> lab[k][1], v |-> lab[k][2], inside |-> Representable(fr, lab[k][2]),
                        cat |-> Category(fr, lab[k][2])]]]
Table == {Row(m) : m \in Surface}
WriteTable == JsonSerialize(IOEnv.OUT_FILE, SetToSeq(Table))
=============================================================================
