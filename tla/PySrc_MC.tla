------------------------------- MODULE PySrc_MC -------------------------------
(* Model check of the specification PySrc.tla itself (idiom M):                 *)
(*  * laws of the integer definitions: exhaustively over all pairs of 1-byte    *)
(*    words against TLC's integer arithmetic (the definitions are width         *)
(*    generic), and over all pairs of 8-byte boundary words against             *)
(*    independent formulations (sign rules, truncating division of Words.tla,   *)
(*    the defining identity of // and % in the language reference);             *)
(*  * hand-written micro programs whose outcome is derived from the language    *)
(*    reference (field `expect` of the case; law = ""), explored exhaustively,   *)
(*    together with the directed probes of the engine (law = "none": no          *)
(*    expectation, the observation is only written out): every                   *)
(*    action of the statement machine is taken, exactly one action is enabled   *)
(*    in every running state, no configuration is stuck;                        *)
(*  * the law of range(): for ALL small (start, stop, step) the number of       *)
(*    iterations, the sum of the items and the value the target keeps after     *)
(*    the loop equal the closed forms of the range() documentation.             *)
EXTENDS PySrc_Run
CONSTANT NV,           \* how many of the 8-byte boundary values take part
         Y1Lo, Y1Hi     \* 1-byte laws: second operand within distance Y1Lo of 0 / 128 / 256 or all if Y1Hi = 256
VARIABLE lw            \* law instance under evaluation (<<>> = none)

(* ---- 1-byte words against integer arithmetic ------------------------------------------ *)
Is1 == lw # <<>> /\ lw.kind = "b1"
X1 == <<lw.x>>
Y1 == <<lw.y>>
SV(b) == IF b >= 128 THEN b - 256 ELSE b
xi == SV(lw.x)
yi == SV(lw.y)
In8(v) == v >= -128 /\ v <= 127
W1(v) == <<(v + 256) % 256>>
Expect1(r, v) == IF In8(v) THEN r = Val(W1(v)) ELSE r.st = "outofmodel"
Abs(v) == IF v < 0 THEN -v ELSE v
\* q is the floor of x / y  iff  q*y <= x < (q+1)*y  (y > 0)  resp.  q*y >= x > (q+1)*y  (y < 0)
IsFloor(q, x, y) == IF y > 0 THEN q * y <= x /\ x < (q + 1) * y ELSE q * y >= x /\ x > (q + 1) * y
LawArith1 == Is1 =>
    /\ Expect1(PyAdd(X1, Y1), xi + yi)
    /\ Expect1(PySub(X1, Y1), xi - yi)
    /\ Expect1(PyMul(X1, Y1), xi * yi)
    /\ Expect1(PyNeg(X1), -xi)
LawDiv1 == Is1 =>
    LET q == PyFloorDiv(X1, Y1)  m == PyMod(X1, Y1) IN
    IF yi = 0 THEN q.st = "undefined" /\ m.st = "undefined"
    ELSE /\ m.st = "ok"
         /\ LET mi == SV(m.w[1]) IN
            /\ (mi = 0 \/ (mi < 0) = (yi < 0))                  \* sign of the second operand, or zero
            /\ Abs(mi) < Abs(yi)
            /\ IF xi = -128 /\ yi = -1 THEN q.st = "outofmodel" /\ mi = 0      \* 128 is not a 1-byte value
               ELSE /\ q.st = "ok"
                    /\ IsFloor(SV(q.w[1]), xi, yi)
                    /\ xi = SV(q.w[1]) * yi + mi                 \* x == (x//y)*y + (x%y)
LawCmp1 == Is1 =>
    /\ Cmp("<", X1, Y1) = (xi < yi) /\ Cmp("<=", X1, Y1) = (xi <= yi)
    /\ Cmp(">", X1, Y1) = (xi > yi) /\ Cmp(">=", X1, Y1) = (xi >= yi)
    /\ Cmp("==", X1, Y1) = (xi = yi) /\ Cmp("!=", X1, Y1) = (xi # yi)

(* ---- 8-byte boundary words against independent formulations ------------------------------ *)
Pow(k) == Mk([j \in 1..8 |-> IF j = (k \div 8) + 1 THEN P2(k % 8) ELSE 0])      \* 2^k, k <= 63
Max8 == Mk([j \in 1..8 |-> IF j = 8 THEN 127 ELSE 255])
Min8 == Pow(63)
I8(v) == WFromInt(v, 8)
B8 == << I8(0), I8(1), I8(-1), I8(2), I8(-2), I8(7), I8(-7), I8(3), I8(-3), Max8, Min8,
         WSub(Max8, I8(1)), WAdd(Min8, I8(1)), Pow(31), WNeg(Pow(31)), Pow(32), Pow(62), WNeg(Pow(62)),
         WAdd(Pow(62), I8(1)), I8(2147483647), I8(-2147483647), WAdd(Pow(31), Pow(30)), Pow(33), WNeg(Pow(33)),
         WSub(Pow(62), I8(1)), WAdd(Pow(61), Pow(60)), WNeg(WAdd(Pow(32), I8(5))), I8(1000003), I8(-1000003),
         WAdd(Min8, I8(7)) >>
Is8 == lw # <<>> /\ lw.kind = "b8"
X8 == B8[lw.x]
Y8 == B8[lw.y]
LawOvf8 == Is8 =>
    LET a == PyAdd(X8, Y8)  s == PySub(X8, Y8)  p == PyMul(X8, Y8)  n == PyNeg(X8) IN
    \* in twice the width nothing overflows: the result is exact iff it is the sign extension of its low half
    /\ a = Exact(WAdd(Wide(X8), Wide(Y8)), 8, "+")
    /\ s = Exact(WSub(Wide(X8), Wide(Y8)), 8, "-")
    /\ n = Exact(WNeg(Wide(X8)), 8, "unary -")
    /\ (a.st # "ok" => a.st = "outofmodel")
    \* the product fits iff dividing the wrapped product by one factor gives back the other
    /\ p.st = "ok" <=> (WIsZero(Y8) \/ (~(WIsMin(X8) /\ WIsMinusOne(Y8)) /\ ~(WIsMin(Y8) /\ WIsMinusOne(X8))
                                        /\ WDivS(WMul(X8, Y8), Y8) = X8))
    /\ (p.st = "ok" => p.w = WMul(X8, Y8))
LawDiv8 == Is8 =>
    LET q == PyFloorDiv(X8, Y8)  m == PyMod(X8, Y8) IN
    IF WIsZero(Y8) THEN q.st = "undefined" /\ m.st = "undefined"
    ELSE /\ m.st = "ok"
         /\ (WIsZero(m.w) \/ IsNegW(m.w) = IsNegW(Y8))
         /\ WLtU(WAbs(m.w), WAbs(Y8))
         /\ IF WIsMin(X8) /\ WIsMinusOne(Y8) THEN q.st = "outofmodel" /\ WIsZero(m.w)
            ELSE /\ q.st = "ok"
                 /\ WAdd(WMul(q.w, Y8), m.w) = X8                           \* the defining identity, modulo 2^64
                 \* relation to truncating division: one less when the division is inexact and the signs differ
                 /\ LET t == WDivS(X8, Y8)  r == WRemS(X8, Y8) IN
                    IF ~WIsZero(r) /\ IsNegW(X8) # IsNegW(Y8)
                    THEN q.w = WSub(t, I8(1)) /\ m.w = WAdd(r, Y8)
                    ELSE q.w = t /\ m.w = r
LawCmp8 == Is8 =>
    \* the order of the values is the order of their difference from zero when that difference is exact
    /\ (PySub(X8, Y8).st = "ok" =>
          /\ Cmp("<", X8, Y8) = IsNegW(PySub(X8, Y8).w)
          /\ Cmp("==", X8, Y8) = WIsZero(PySub(X8, Y8).w))
    /\ Cmp("<=", X8, Y8) = (Cmp("<", X8, Y8) \/ Cmp("==", X8, Y8))
    /\ Cmp(">", X8, Y8) = Cmp("<", Y8, X8) /\ Cmp(">=", X8, Y8) = Cmp("<=", Y8, X8)
    /\ Cmp("!=", X8, Y8) = ~Cmp("==", X8, Y8)

(* ---- micro programs --------------------------------------------------------------------- *)
Exp == C.expect[av]
ExpectMet == (Finished /\ lw = <<>> /\ C.law = "") =>
    /\ status = Exp.status
    /\ (status = "ok" => ret = Exp.ret)

\* range(): "For a positive step, the contents of a range r are determined by the formula r[i] = start + step*i
\* where i >= 0 and r[i] < stop.  For a negative step ... r[i] > stop."  (library reference, class range)
SmallInt(w) == IF IsNegW(w) THEN -WToNat(WNeg(w)) ELSE WToNat(w)
Ra == SmallInt(C.argv[av][1])
Rb == SmallInt(C.argv[av][2])
Rc == SmallInt(C.argv[av][3])
RangeN == IF Rc > 0 THEN (IF Rb > Ra THEN (Rb - Ra + Rc - 1) \div Rc ELSE 0)
          ELSE (IF Ra > Rb THEN (Ra - Rb - Rc - 1) \div (-Rc) ELSE 0)
RangeExpected ==
    CASE C.law = "range-count" -> RangeN
      [] C.law = "range-sum" -> RangeN * Ra + Rc * ((RangeN * (RangeN - 1)) \div 2)
      [] C.law = "range-last" -> IF RangeN = 0 THEN 77 ELSE Ra + (RangeN - 1) * Rc
      [] OTHER -> 0
RangeLaw == (Finished /\ lw = <<>> /\ C.law \in {"range-count", "range-sum", "range-last"}) =>
    IF Rc = 0 THEN status = "undefined"
    ELSE status = "ok" /\ ret = I8(RangeExpected)

ActionsEnabled ==
    {<<1, ENABLED CallStep(Need)>>, <<2, ENABLED Raise(Need)>>, <<3, ENABLED Assign(Need)>>, <<4, ENABLED AugAssign(Need)>>,
     <<5, ENABLED TupleAssign(Need)>>, <<6, ENABLED ExprStmt(Need)>>, <<7, ENABLED Pass>>, <<8, ENABLED If(Need)>>,
     <<9, ENABLED WhileEnter>>, <<10, ENABLED WhileTest(Need)>>, <<11, ENABLED ForEnter(Need)>>, <<12, ENABLED ForNext>>,
     <<13, ENABLED Break>>, <<14, ENABLED Continue>>, <<15, ENABLED Return(Need)>>, <<16, ENABLED BlockEnd>>,
     <<17, ENABLED Unknown>>}
Deterministic == (Running /\ ~OutOfFuel) => Cardinality({p \in ActionsEnabled : p[2]}) = 1

(* ---- driver ----------------------------------------------------------------------------- *)
Y1Set == IF Y1Hi = 256 THEN 0..255
         ELSE (0..Y1Lo) \cup ((128 - Y1Lo)..(128 + Y1Lo)) \cup ((255 - Y1Lo)..255)
MInit == RInit /\ lw = <<>>
PickLaw == /\ chunk = 0 /\ lw = <<>>
           /\ lw' \in [kind : {"b1"}, x : 0..255, y : Y1Set] \cup [kind : {"b8"}, x : 1..NV, y : 1..NV]
           /\ chunk' = -1
           /\ UNCHANGED <<i, av, stack, status, why, ret, steps, acts, done>>
MNext == (RNext /\ UNCHANGED lw) \/ PickLaw
=============================================================================
