-------------------------------- MODULE Thumb --------------------------------
(* The 16-bit Thumb instruction set (ARMv6-M / ARMv7-M "Thumb-1" encodings,  *)
(* ARM Architecture Reference Manual chapter A6.2 "16-bit Thumb instruction  *)
(* encoding" with tables A6-1 .. A6-8) and the 32-bit encodings ppci emits:  *)
(* BL (T1), B.W (T4), B<c>.W (T3), BLX (T2), SDIV / UDIV (T1), transcribed    *)
(* from the manual's encoding diagrams, independently of ppci.               *)
(*                                                                           *)
(*   Decode(b)      instruction bytes (little-endian halfwords) -> record     *)
(*   Matches16(h)   the formats of table A6-1 a halfword belongs to           *)
(*   Encode(i)      the reference encoder (inverse, laws in Thumb_MC)         *)
(*   AsmT(mn, ops, sym, pc)   meaning of a printed line: pre-UAL and UAL      *)
(*                  spellings (ppci prints "add R1, R2, R3" for ADDS)         *)
(*   TRanges        operand ranges per printed form (boundary generation)     *)
EXTENDS ArmCommon

T(mn, enc) == [I0 EXCEPT !.mn = mn, !.enc = enc, !.len = 2]
Hw(b, k) == b[2 * k - 1] + 256 * b[2 * k]

-----------------------------------------------------------------------------
(* Table A6-1: the top-level formats, by opcode bits 15:10                   *)
Fmt16 == {"shift_imm", "addsub", "imm8", "dp", "special", "ldr_lit", "ldst_reg", "ldst_w", "ldst_b", "ldst_h",
          "ldst_sp", "adr_addsp", "misc", "ldm_stm", "bcond", "b", "prefix32"}
Match16(f, h) ==
    CASE f = "shift_imm" -> Bits(h, 13, 3) = 0 /\ Bits(h, 11, 2) # 3        \* 000 op(2) imm5 Rm Rd
      [] f = "addsub"    -> Bits(h, 11, 5) = 3                              \* 00011 I op Rm/imm3 Rn Rd
      [] f = "imm8"      -> Bits(h, 13, 3) = 1                              \* 001 op(2) Rdn imm8
      [] f = "dp"        -> Bits(h, 10, 6) = 16                             \* 010000 op(4) Rm Rdn
      [] f = "special"   -> Bits(h, 10, 6) = 17                             \* 010001 op(2) ...
      [] f = "ldr_lit"   -> Bits(h, 11, 5) = 9                              \* 01001 Rt imm8
      [] f = "ldst_reg"  -> Bits(h, 12, 4) = 5                              \* 0101 opB(3) Rm Rn Rt
      [] f = "ldst_w"    -> Bits(h, 12, 4) = 6                              \* 0110 L imm5 Rn Rt
      [] f = "ldst_b"    -> Bits(h, 12, 4) = 7                              \* 0111 L imm5 Rn Rt
      [] f = "ldst_h"    -> Bits(h, 12, 4) = 8                              \* 1000 L imm5 Rn Rt
      [] f = "ldst_sp"   -> Bits(h, 12, 4) = 9                              \* 1001 L Rt imm8
      [] f = "adr_addsp" -> Bits(h, 12, 4) = 10                             \* 1010 SP Rd imm8
      [] f = "misc"      -> Bits(h, 12, 4) = 11                             \* 1011 ...  (table A6-5)
      [] f = "ldm_stm"   -> Bits(h, 12, 4) = 12                             \* 1100 L Rn list
      [] f = "bcond"     -> Bits(h, 12, 4) = 13                             \* 1101 cond imm8 (udf, svc)
      [] f = "b"         -> Bits(h, 11, 5) = 28                             \* 11100 imm11
      [] f = "prefix32"  -> Bits(h, 11, 5) \in {29, 30, 31}                 \* first halfword of a 32-bit insn
Matches16(h) == {f \in Fmt16 : Match16(f, h)}

ShiftMn == <<"lsl", "lsr", "asr">>
Imm8Mn == <<"mov", "cmp", "add", "sub">>
DpMn == <<"and", "eor", "lsl", "lsr", "asr", "adc", "sbc", "ror", "tst", "rsb", "cmp", "cmn", "orr", "mul", "bic", "mvn">>
LdstRegMn == <<"str", "strh", "strb", "ldrsb", "ldr", "ldrh", "ldrb", "ldrsh">>
ExtMn == <<"sxth", "sxtb", "uxth", "uxtb">>
HintMn == <<"nop", "yield", "wfe", "wfi", "sev">>
IndexOf(seq, x) == CHOOSE k \in 1..Len(seq) : seq[k] = x

DecMisc(h) ==                                                               \* table A6-5
    LET op == Bits(h, 8, 4) IN
    CASE op = 0 -> [T(IF IBit(h, 7) = 0 THEN "add" ELSE "sub", "addsub_sp") EXCEPT
                        !.rd = SP, !.rn = SP, !.imm = 4 * Bits(h, 0, 7), !.impl = {SP}]
      [] op \in {1, 3, 9, 11} ->                                            \* 1011 op 0 i 1 imm5 Rn
            [T(IF IBit(h, 11) = 0 THEN "cbz" ELSE "cbnz", "cbz") EXCEPT
                        !.rn = Bits(h, 0, 3), !.imm = 2 * (32 * IBit(h, 9) + Bits(h, 3, 5))]
      [] op = 2 -> [T(ExtMn[Bits(h, 6, 2) + 1], "extend") EXCEPT !.rd = Bits(h, 0, 3), !.rm = Bits(h, 3, 3)]
      [] op \in {4, 5} -> LET l == RegSet(Bits(h, 0, 8), 8) \cup (IF IBit(h, 8) = 1 THEN {LR} ELSE {}) IN
            IF l = {} THEN Bad("unpredictable", 2)
            ELSE [T("push", "push") EXCEPT !.rn = SP, !.list = l, !.impl = {SP}]
      [] op \in {12, 13} -> LET l == RegSet(Bits(h, 0, 8), 8) \cup (IF IBit(h, 8) = 1 THEN {PC} ELSE {}) IN
            IF l = {} THEN Bad("unpredictable", 2)
            ELSE [T("pop", "pop") EXCEPT !.rn = SP, !.list = l, !.impl = {SP}]
      [] op = 6 -> IF Bits(h, 5, 3) = 3 THEN (IF IBit(h, 3) = 1 THEN Bad("unpredictable", 2)       \* 1011 0110 011 im (0) A I F
                                              ELSE [T("cps", "cps") EXCEPT !.imm = Bits(h, 0, 5)])
                   ELSE IF Bits(h, 5, 3) = 2 /\ IBit(h, 4) = 1 /\ Bits(h, 0, 3) = 0
                        THEN [T("setend", "setend") EXCEPT !.imm = IBit(h, 3)]
                   ELSE Bad("undefined", 2)
      [] op = 10 -> IF Bits(h, 6, 2) = 2 THEN Bad("undefined", 2)
                    ELSE [T(<<"rev", "rev16", "?", "revsh">>[Bits(h, 6, 2) + 1], "rev") EXCEPT
                              !.rd = Bits(h, 0, 3), !.rm = Bits(h, 3, 3)]
      [] op = 14 -> [T("bkpt", "bkpt") EXCEPT !.imm = Bits(h, 0, 8)]
      [] op = 15 -> IF Bits(h, 0, 4) # 0
                    THEN [T("it", "it") EXCEPT !.imm = Bits(h, 0, 8)]       \* firstcond : mask
                    ELSE IF Bits(h, 4, 4) < 5 THEN T(HintMn[Bits(h, 4, 4) + 1], "hint")
                    ELSE [T("hint", "hint") EXCEPT !.imm = Bits(h, 4, 4)]   \* unallocated hint: executes as nop
      [] OTHER -> Bad("undefined", 2)                                       \* 0111, 1000

DecSpecial(h) ==                                                            \* table A6-4
    LET op == Bits(h, 8, 2)  rm == Bits(h, 3, 4)  rdn == 8 * IBit(h, 7) + Bits(h, 0, 3) IN
    CASE op = 0 -> [T("add", "special") EXCEPT !.rd = rdn, !.rn = rdn, !.rm = rm]
      [] op = 1 -> IF (rdn < 8 /\ rm < 8) \/ rdn = PC \/ rm = PC THEN Bad("unpredictable", 2)
                   ELSE [T("cmp", "special") EXCEPT !.s = TRUE, !.rn = rdn, !.rm = rm]
      [] op = 2 -> [T("mov", "special") EXCEPT !.rd = rdn, !.rm = rm]
      [] op = 3 -> IF Bits(h, 0, 3) # 0 \/ (IBit(h, 7) = 1 /\ rm = PC) THEN Bad("unpredictable", 2)
                   ELSE [T(IF IBit(h, 7) = 0 THEN "bx" ELSE "blx", "special") EXCEPT !.rm = rm]

DecDp(h) ==                                                                 \* table A6-3
    LET op == Bits(h, 6, 4)  m == DpMn[op + 1]  r3 == Bits(h, 3, 3)  r0 == Bits(h, 0, 3) IN
    CASE m \in {"tst", "cmp", "cmn"} -> [T(m, "dp") EXCEPT !.s = TRUE, !.rn = r0, !.rm = r3]
      [] m = "rsb" -> [T(m, "dp") EXCEPT !.s = TRUE, !.rd = r0, !.rn = r3]            \* RSBS Rd, Rn, #0
      [] m = "mul" -> [T(m, "dp") EXCEPT !.s = TRUE, !.rd = r0, !.rn = r3, !.rm = r0]  \* MULS Rdm, Rn, Rdm
      [] m = "mvn" -> [T(m, "dp") EXCEPT !.s = TRUE, !.rd = r0, !.rm = r3]
      [] OTHER -> [T(m, "dp") EXCEPT !.s = TRUE, !.rd = r0, !.rn = r0, !.rm = r3]       \* <op>S Rdn, Rm

Dec16(f, h) ==
    CASE f = "shift_imm" ->
            LET op == Bits(h, 11, 2)  imm5 == Bits(h, 6, 5) IN
            IF op = 0 /\ imm5 = 0                                           \* MOVS Rd, Rm (encoding T2)
            THEN [T("mov", f) EXCEPT !.s = TRUE, !.rd = Bits(h, 0, 3), !.rm = Bits(h, 3, 3)]
            ELSE [T(ShiftMn[op + 1], f) EXCEPT !.s = TRUE, !.rd = Bits(h, 0, 3), !.rm = Bits(h, 3, 3),
                                              !.imm = IF imm5 = 0 THEN 32 ELSE imm5]
      [] f = "addsub" ->
            LET m == IF IBit(h, 9) = 0 THEN "add" ELSE "sub" IN
            IF IBit(h, 10) = 0
            THEN [T(m, f) EXCEPT !.s = TRUE, !.rd = Bits(h, 0, 3), !.rn = Bits(h, 3, 3), !.rm = Bits(h, 6, 3)]
            ELSE [T(m, f) EXCEPT !.s = TRUE, !.rd = Bits(h, 0, 3), !.rn = Bits(h, 3, 3), !.imm = Bits(h, 6, 3)]
      [] f = "imm8" ->
            (LET m == Imm8Mn[Bits(h, 11, 2) + 1]  r == Bits(h, 8, 3)  v == Bits(h, 0, 8) IN
             CASE m = "mov" -> [T(m, f) EXCEPT !.s = TRUE, !.rd = r, !.imm = v]
               [] m = "cmp" -> [T(m, f) EXCEPT !.s = TRUE, !.rn = r, !.imm = v]
               [] OTHER -> [T(m, f) EXCEPT !.s = TRUE, !.rd = r, !.rn = r, !.imm = v])
      [] f = "dp" -> DecDp(h)
      [] f = "special" -> DecSpecial(h)
      [] f = "ldr_lit" -> [T("ldr", f) EXCEPT !.rd = Bits(h, 8, 3), !.rn = PC, !.imm = 4 * Bits(h, 0, 8),
                                              !.am = "off", !.impl = {PC}]
      [] f = "ldst_reg" -> [T(LdstRegMn[Bits(h, 9, 3) + 1], f) EXCEPT
                                !.rd = Bits(h, 0, 3), !.rn = Bits(h, 3, 3), !.rm = Bits(h, 6, 3), !.am = "off"]
      [] f = "ldst_w" -> [T(IF IBit(h, 11) = 0 THEN "str" ELSE "ldr", f) EXCEPT
                                !.rd = Bits(h, 0, 3), !.rn = Bits(h, 3, 3), !.imm = 4 * Bits(h, 6, 5), !.am = "off"]
      [] f = "ldst_b" -> [T(IF IBit(h, 11) = 0 THEN "strb" ELSE "ldrb", f) EXCEPT
                                !.rd = Bits(h, 0, 3), !.rn = Bits(h, 3, 3), !.imm = Bits(h, 6, 5), !.am = "off"]
      [] f = "ldst_h" -> [T(IF IBit(h, 11) = 0 THEN "strh" ELSE "ldrh", f) EXCEPT
                                !.rd = Bits(h, 0, 3), !.rn = Bits(h, 3, 3), !.imm = 2 * Bits(h, 6, 5), !.am = "off"]
      [] f = "ldst_sp" -> [T(IF IBit(h, 11) = 0 THEN "str" ELSE "ldr", f) EXCEPT
                                !.rd = Bits(h, 8, 3), !.rn = SP, !.imm = 4 * Bits(h, 0, 8), !.am = "off", !.impl = {SP}]
      [] f = "adr_addsp" ->
            IF IBit(h, 11) = 0
            THEN [T("adr", f) EXCEPT !.rd = Bits(h, 8, 3), !.rn = PC, !.imm = 4 * Bits(h, 0, 8), !.impl = {PC}]
            ELSE [T("add", f) EXCEPT !.rd = Bits(h, 8, 3), !.rn = SP, !.imm = 4 * Bits(h, 0, 8), !.impl = {SP}]
      [] f = "misc" -> DecMisc(h)
      [] f = "ldm_stm" ->
            LET l == RegSet(Bits(h, 0, 8), 8)  rn == Bits(h, 8, 3) IN
            IF l = {} THEN Bad("unpredictable", 2)
            ELSE IF IBit(h, 11) = 0 THEN [T("stm", f) EXCEPT !.rn = rn, !.list = l, !.am = "ia!"]
            ELSE [T("ldm", f) EXCEPT !.rn = rn, !.list = l, !.am = IF rn \in l THEN "ia" ELSE "ia!"]
      [] f = "bcond" ->
            LET c == Bits(h, 8, 4) IN
            IF c = 14 THEN [T("udf", f) EXCEPT !.imm = Bits(h, 0, 8)]
            ELSE IF c = 15 THEN [T("svc", f) EXCEPT !.imm = Bits(h, 0, 8)]
            ELSE [T("b", f) EXCEPT !.cond = c, !.imm = 2 * SignExt(Bits(h, 0, 8), 8)]
      [] f = "b" -> [T("b", f) EXCEPT !.imm = 2 * SignExt(Bits(h, 0, 11), 11)]
      [] f = "prefix32" -> Bad("prefix32", 2)
Decode16(h) == LET m == Matches16(h) IN
               IF m = {} THEN Bad("undefined", 2) ELSE Dec16(CHOOSE f \in m : TRUE, h)

-----------------------------------------------------------------------------
(* 32-bit encodings (A6.3): only the ones ppci emits are modelled            *)
T4(mn, enc) == [I0 EXCEPT !.mn = mn, !.enc = enc, !.len = 4]
BranchImm25(h1, h2) ==                                \* SignExtend(S:I1:I2:imm10:imm11:'0'), I = NOT(J EOR S)
    LET sg == IBit(h1, 10)  i1 == 1 - XorBit(IBit(h2, 13), sg)  i2 == 1 - XorBit(IBit(h2, 11), sg) IN
    SignExt(sg * P2(24) + i1 * P2(23) + i2 * P2(22) + Bits(h1, 0, 10) * P2(12) + Bits(h2, 0, 11) * 2, 25)
BranchImm21(h1, h2) ==                                \* SignExtend(S:J2:J1:imm6:imm11:'0')
    SignExt(IBit(h1, 10) * P2(20) + IBit(h2, 11) * P2(19) + IBit(h2, 13) * P2(18) + Bits(h1, 0, 6) * P2(12)
            + Bits(h2, 0, 11) * 2, 21)
Decode32(h1, h2) ==
    IF Bits(h1, 11, 5) = 30 /\ IBit(h2, 15) = 1 THEN                        \* branches and miscellaneous control
       (LET k == 2 * IBit(h2, 14) + IBit(h2, 12) IN
        CASE k = 3 -> [T4("bl", "T1") EXCEPT !.imm = BranchImm25(h1, h2)]
          [] k = 1 -> [T4("b", "T4") EXCEPT !.imm = BranchImm25(h1, h2)]
          [] k = 2 -> IF IBit(h2, 0) = 1 THEN Bad("undefined", 4)
                      ELSE [T4("blx", "T2") EXCEPT !.imm = BranchImm25(h1, h2)]
          [] k = 0 -> IF Bits(h1, 6, 4) >= 14 THEN Bad("unsupported", 4)    \* msr, hints, barriers ...
                      ELSE [T4("b", "T3") EXCEPT !.cond = Bits(h1, 6, 4), !.imm = BranchImm21(h1, h2)])
    ELSE IF Bits(h1, 4, 12) \in {4025, 4027} /\ Bits(h2, 4, 4) = 15 THEN   \* 11111 0111 0x1 Rn | 1111 Rd 1111 Rm
        (IF Bits(h2, 12, 4) # 15 THEN Bad("unpredictable", 4)
         ELSE [T4(IF Bits(h1, 4, 12) = 4025 THEN "sdiv" ELSE "udiv", "T1") EXCEPT
                   !.rd = Bits(h2, 8, 4), !.rn = Bits(h1, 0, 4), !.rm = Bits(h2, 0, 4)])
    ELSE Bad("unsupported", 4)

Decode(b) ==
    IF Len(b) = 2 THEN Decode16(Hw(b, 1))
    ELSE IF Len(b) = 4 THEN (IF Bits(Hw(b, 1), 11, 5) \in {29, 30, 31} THEN Decode32(Hw(b, 1), Hw(b, 2))
                             ELSE Bad("undefined", 4))                      \* two 16-bit instructions, not one
    ELSE Bad("undefined", Len(b))

-----------------------------------------------------------------------------
(* The reference encoder: record -> halfword(s), from the same diagrams      *)
Enc16(i) ==
    LET f == i.enc IN
    CASE f = "shift_imm" -> IF i.mn = "mov" THEN 8 * i.rm + i.rd
                            ELSE (IndexOf(ShiftMn, i.mn) - 1) * P2(11) + (i.imm % 32) * 64 + 8 * i.rm + i.rd
      [] f = "addsub" -> 3 * P2(11) + (IF i.rm = NoReg THEN P2(10) + 64 * i.imm ELSE 64 * i.rm)
                         + (IF i.mn = "sub" THEN P2(9) ELSE 0) + 8 * i.rn + i.rd
      [] f = "imm8" -> P2(13) + (IndexOf(Imm8Mn, i.mn) - 1) * P2(11) + (IF i.mn = "cmp" THEN i.rn ELSE i.rd) * 256 + i.imm
      [] f = "dp" -> 16 * P2(10) + (IndexOf(DpMn, i.mn) - 1) * 64
                     + (CASE i.mn \in {"tst", "cmp", "cmn"} -> 8 * i.rm + i.rn
                          [] i.mn \in {"rsb", "mul"} -> 8 * i.rn + i.rd
                          [] OTHER -> 8 * i.rm + i.rd)
      [] f = "special" ->
            17 * P2(10) + (CASE i.mn = "add" -> 0 * 256 + (i.rd \div 8) * 128 + 8 * i.rm + (i.rd % 8)
                             [] i.mn = "cmp" -> 1 * 256 + (i.rn \div 8) * 128 + 8 * i.rm + (i.rn % 8)
                             [] i.mn = "mov" -> 2 * 256 + (i.rd \div 8) * 128 + 8 * i.rm + (i.rd % 8)
                             [] i.mn = "bx"  -> 3 * 256 + 8 * i.rm
                             [] i.mn = "blx" -> 3 * 256 + 128 + 8 * i.rm)
      [] f = "ldr_lit" -> 9 * P2(11) + 256 * i.rd + i.imm \div 4
      [] f = "ldst_reg" -> 5 * P2(12) + (IndexOf(LdstRegMn, i.mn) - 1) * P2(9) + 64 * i.rm + 8 * i.rn + i.rd
      [] f = "ldst_w" -> 6 * P2(12) + (IF i.mn = "ldr" THEN P2(11) ELSE 0) + 64 * (i.imm \div 4) + 8 * i.rn + i.rd
      [] f = "ldst_b" -> 7 * P2(12) + (IF i.mn = "ldrb" THEN P2(11) ELSE 0) + 64 * i.imm + 8 * i.rn + i.rd
      [] f = "ldst_h" -> 8 * P2(12) + (IF i.mn = "ldrh" THEN P2(11) ELSE 0) + 64 * (i.imm \div 2) + 8 * i.rn + i.rd
      [] f = "ldst_sp" -> 9 * P2(12) + (IF i.mn = "ldr" THEN P2(11) ELSE 0) + 256 * i.rd + i.imm \div 4
      [] f = "adr_addsp" -> 10 * P2(12) + (IF i.mn = "add" THEN P2(11) ELSE 0) + 256 * i.rd + i.imm \div 4
      [] f = "addsub_sp" -> 11 * P2(12) + (IF i.mn = "sub" THEN 128 ELSE 0) + i.imm \div 4
      [] f = "cbz" -> 11 * P2(12) + (IF i.mn = "cbnz" THEN P2(11) ELSE 0) + 256 + ((i.imm \div 2) \div 32) * 512
                      + ((i.imm \div 2) % 32) * 8 + i.rn
      [] f = "extend" -> 11 * P2(12) + 2 * 256 + (IndexOf(ExtMn, i.mn) - 1) * 64 + 8 * i.rm + i.rd
      [] f = "push" -> 11 * P2(12) + 4 * 256 + (IF LR \in i.list THEN 256 ELSE 0) + SetBits(i.list \ {LR})
      [] f = "pop" -> 11 * P2(12) + 12 * 256 + (IF PC \in i.list THEN 256 ELSE 0) + SetBits(i.list \ {PC})
      [] f = "cps" -> 11 * P2(12) + 6 * 256 + 3 * 32 + i.imm
      [] f = "setend" -> 11 * P2(12) + 6 * 256 + 2 * 32 + 16 + 8 * i.imm
      [] f = "rev" -> 11 * P2(12) + 10 * 256 + (IndexOf(<<"rev", "rev16", "?", "revsh">>, i.mn) - 1) * 64 + 8 * i.rm + i.rd
      [] f = "bkpt" -> 11 * P2(12) + 14 * 256 + i.imm
      [] f = "it" -> 11 * P2(12) + 15 * 256 + i.imm
      [] f = "hint" -> 11 * P2(12) + 15 * 256 + 16 * (IF i.mn = "hint" THEN i.imm ELSE IndexOf(HintMn, i.mn) - 1)
      [] f = "ldm_stm" -> 12 * P2(12) + (IF i.mn = "ldm" THEN P2(11) ELSE 0) + 256 * i.rn + SetBits(i.list)
      [] f = "bcond" -> 13 * P2(12) + (CASE i.mn = "udf" -> 14 * 256 + i.imm
                                         [] i.mn = "svc" -> 15 * 256 + i.imm
                                         [] OTHER -> 256 * i.cond + Pattern(i.imm \div 2, 8))
      [] f = "b" -> 28 * P2(11) + Pattern(i.imm \div 2, 11)
Enc32(i) ==                                           \* <<first halfword, second halfword>>
    LET v25 == Pattern(i.imm, 25)  sg == IBit(v25, 24)
        j1 == 1 - XorBit(IBit(v25, 23), sg)  j2 == 1 - XorBit(IBit(v25, 22), sg)
        hi25 == 30 * P2(11) + sg * P2(10) + Bits(v25, 12, 10)
        lo25 == j1 * P2(13) + j2 * P2(11) + Bits(v25, 1, 11)
        v21 == Pattern(i.imm, 21) IN
    CASE i.mn = "bl" -> <<hi25, 3 * P2(14) + P2(12) + lo25>>
      [] i.mn = "blx" /\ i.rm = NoReg -> <<hi25, 3 * P2(14) + lo25>>
      [] i.mn = "b" /\ i.enc = "T4" -> <<hi25, P2(15) + P2(12) + lo25>>
      [] i.mn = "b" /\ i.enc = "T3" -> <<30 * P2(11) + IBit(v21, 20) * P2(10) + i.cond * 64 + Bits(v21, 12, 6),
                                        P2(15) + IBit(v21, 18) * P2(13) + IBit(v21, 19) * P2(11) + Bits(v21, 1, 11)>>
      [] i.mn \in {"sdiv", "udiv"} -> <<(IF i.mn = "sdiv" THEN 4025 ELSE 4027) * 16 + i.rn, 15 * P2(12) + 256 * i.rd + 15 * 16 + i.rm>>
HwBytes(h) == <<h % 256, h \div 256>>
Encode(i) == IF i.len = 2 THEN HwBytes(Enc16(i)) ELSE LET p == Enc32(i) IN HwBytes(p[1]) \o HwBytes(p[2])

-----------------------------------------------------------------------------
(* Meaning of a printed line.  sym / pc: address of the label operand and    *)
(* of the instruction.  Low-register forms of the 16-bit set update the      *)
(* flags whether or not the mnemonic carries the UAL "s".                    *)
Low(r) == r \in 0..7
DpTwo == {"and", "eor", "lsl", "lsr", "asr", "adc", "sbc", "ror", "orr", "bic"}
StripS(mn) == IF \E m \in DpTwo \cup {"mov", "add", "sub", "rsb", "neg", "mul", "mvn"} : mn = m \o "s"
              THEN CHOOSE m \in DpTwo \cup {"mov", "add", "sub", "rsb", "neg", "mul", "mvn"} : mn = m \o "s" ELSE mn
HasS(mn) == StripS(mn) # mn
\* conditional branches: "b<c>" (16-bit T1) and ppci's "b<c>w" (32-bit T3)
CondBranches == {<<"b" \o cs[1], cs[2], 2>> : cs \in {c \in CondSuffixes : c[2] < 14}}
                \cup {<<"b" \o cs[1] \o "w", cs[2], 4>> : cs \in {c \in CondSuffixes : c[2] < 14}}
                \cup {<<"b" \o cs[1] \o ".w", cs[2], 4>> : cs \in {c \in CondSuffixes : c[2] < 14}}
RegList(ops, from, to) == {ops[k][2] : k \in from..to}
AsmT(mn0, ops0, sym, pc) ==
    LET ops == IF Pat(ops0) = "r[r]" THEN <<ops0[1], ops0[2], ops0[3], <<"i", 0, "">>, ops0[4]>> ELSE ops0   \* [Rn] = [Rn, 0]
        mn == StripS(mn0)  p == Pat(ops)  n == Len(ops)
        R1 == Num(ops, 1)  R2 == Num(ops, 2)  R3 == Num(ops, 3)
        lit == sym - Align4(pc + 4)                     \* literal offset from Align(PC, 4)
        disp == sym - (pc + 4) IN
    CASE mn = "mov" /\ p = "ri" -> [T(mn, "imm8") EXCEPT !.s = TRUE, !.rd = R1, !.imm = R2]
      [] mn = "mov" /\ p = "rr" -> IF HasS(mn0) THEN [T(mn, "shift_imm") EXCEPT !.s = TRUE, !.rd = R1, !.rm = R2]
                                    ELSE [T(mn, "special") EXCEPT !.rd = R1, !.rm = R2]
      [] mn \in {"add", "sub"} /\ p = "rri" ->
            IF R1 = SP /\ R2 = SP THEN [T(mn, "addsub_sp") EXCEPT !.rd = SP, !.rn = SP, !.imm = R3]
            ELSE IF R2 = SP /\ mn = "add" THEN [T(mn, "adr_addsp") EXCEPT !.rd = R1, !.rn = SP, !.imm = R3]
            ELSE [T(mn, IF R3 <= 7 \/ R1 # R2 THEN "addsub" ELSE "imm8") EXCEPT !.s = TRUE, !.rd = R1, !.rn = R2, !.imm = R3]
      [] mn = "add" /\ p = "rrr" /\ ~HasS(mn0) /\ R2 = SP /\ R1 = R3 ->             \* ADD Rdm, SP, Rdm (SP plus register, T1)
            [T(mn, "special") EXCEPT !.rd = R1, !.rn = R1, !.rm = SP]
      [] mn \in {"add", "sub"} /\ p = "rrr" /\ ~(mn = "add" /\ ~HasS(mn0) /\ R2 = SP /\ R1 = R3) ->
            [T(mn, "addsub") EXCEPT !.s = TRUE, !.rd = R1, !.rn = R2, !.rm = R3]
      [] mn \in {"add", "sub"} /\ p = "ri" ->
            IF R1 = SP THEN [T(mn, "addsub_sp") EXCEPT !.rd = SP, !.rn = SP, !.imm = R2]
            ELSE [T(mn, "imm8") EXCEPT !.s = TRUE, !.rd = R1, !.rn = R1, !.imm = R2]
      [] mn = "add" /\ p = "rr" -> IF HasS(mn0) THEN [T(mn, "addsub") EXCEPT !.s = TRUE, !.rd = R1, !.rn = R1, !.rm = R2]
                                    ELSE [T(mn, "special") EXCEPT !.rd = R1, !.rn = R1, !.rm = R2]
      [] mn = "sub" /\ p = "rr" -> [T(mn, "addsub") EXCEPT !.s = TRUE, !.rd = R1, !.rn = R1, !.rm = R2]
      [] mn = "cmp" /\ p = "ri" -> [T(mn, "imm8") EXCEPT !.s = TRUE, !.rn = R1, !.imm = R2]
      [] mn = "cmp" /\ p = "rr" -> [T(mn, IF Low(R1) /\ Low(R2) THEN "dp" ELSE "special") EXCEPT !.s = TRUE, !.rn = R1, !.rm = R2]
      [] mn \in {"tst", "cmn"} /\ p = "rr" -> [T(mn, "dp") EXCEPT !.s = TRUE, !.rn = R1, !.rm = R2]
      [] mn \in DpTwo /\ p = "rr" -> [T(mn, "dp") EXCEPT !.s = TRUE, !.rd = R1, !.rn = R1, !.rm = R2]
      [] mn \in DpTwo /\ p = "rrr" /\ R1 = R2 -> [T(mn, "dp") EXCEPT !.s = TRUE, !.rd = R1, !.rn = R1, !.rm = R3]
      [] mn \in {"lsl", "lsr", "asr"} /\ p = "rri" ->
            IF mn = "lsl" /\ R3 = 0 THEN [T("mov", "shift_imm") EXCEPT !.s = TRUE, !.rd = R1, !.rm = R2]
            ELSE [T(mn, "shift_imm") EXCEPT !.s = TRUE, !.rd = R1, !.rm = R2, !.imm = R3]
      [] mn = "mvn" /\ p = "rr" -> [T(mn, "dp") EXCEPT !.s = TRUE, !.rd = R1, !.rm = R2]
      [] mn \in {"rsb", "neg"} /\ p = "rr" -> [T("rsb", "dp") EXCEPT !.s = TRUE, !.rd = R1, !.rn = R2]
      [] mn = "rsb" /\ p = "rri" /\ R3 = 0 -> [T("rsb", "dp") EXCEPT !.s = TRUE, !.rd = R1, !.rn = R2]
      \* MUL Rd, Rm: Rd := Rm * Rd (the first operand is the destination); MULS Rdm, Rn, Rdm
      [] mn = "mul" /\ p = "rr" -> [T(mn, "dp") EXCEPT !.s = TRUE, !.rd = R1, !.rn = R2, !.rm = R1]
      [] mn = "mul" /\ p = "rrr" /\ R1 = R3 -> [T(mn, "dp") EXCEPT !.s = TRUE, !.rd = R1, !.rn = R2, !.rm = R1]
      [] mn \in {"sdiv", "udiv"} /\ p = "rrr" -> [T4(mn, "T1") EXCEPT !.rd = R1, !.rn = R2, !.rm = R3]
      [] mn \in {"ldr", "str"} /\ p = "r[ri]" ->
            LET b == Num(ops, 3)  v == Num(ops, 4) IN
            IF b = SP THEN [T(mn, "ldst_sp") EXCEPT !.rd = R1, !.rn = SP, !.imm = v, !.am = "off"]
            ELSE IF b = PC /\ mn = "ldr" THEN [T(mn, "ldr_lit") EXCEPT !.rd = R1, !.rn = PC, !.imm = v, !.am = "off"]
            ELSE [T(mn, "ldst_w") EXCEPT !.rd = R1, !.rn = b, !.imm = v, !.am = "off"]
      [] mn \in {"ldrb", "strb"} /\ p = "r[ri]" ->
            [T(mn, "ldst_b") EXCEPT !.rd = R1, !.rn = Num(ops, 3), !.imm = Num(ops, 4), !.am = "off"]
      [] mn \in {"ldrh", "strh"} /\ p = "r[ri]" ->
            [T(mn, "ldst_h") EXCEPT !.rd = R1, !.rn = Num(ops, 3), !.imm = Num(ops, 4), !.am = "off"]
      [] mn \in {"ldr", "str", "ldrb", "strb", "ldrh", "strh", "ldrsb", "ldrsh"} /\ p = "r[rr]" ->
            [T(mn, "ldst_reg") EXCEPT !.rd = R1, !.rn = Num(ops, 3), !.rm = Num(ops, 4), !.am = "off"]
      [] mn = "ldr" /\ p = "rl" -> [T(mn, "ldr_lit") EXCEPT !.rd = R1, !.rn = PC, !.imm = lit, !.am = "off"]
      [] mn = "adr" /\ p = "rl" -> [T(mn, "adr_addsp") EXCEPT !.rd = R1, !.rn = PC, !.imm = lit]
      [] mn = "b" /\ p = "l" -> [T(mn, "b") EXCEPT !.imm = disp]
      [] mn \in {"bw", "b.w"} /\ p = "l" -> [T4("b", "T4") EXCEPT !.imm = disp]
      [] mn = "bl" /\ p = "l" -> [T4(mn, "T1") EXCEPT !.imm = disp]
      [] mn \in {"bx", "blx"} /\ p = "r" -> [T(mn, "special") EXCEPT !.rm = R1]
      [] p = "l" /\ (\E cb \in CondBranches : cb[1] = mn) ->
            LET cb == CHOOSE x \in CondBranches : x[1] = mn IN
            IF cb[3] = 2 THEN [T("b", "bcond") EXCEPT !.cond = cb[2], !.imm = disp]
            ELSE [T4("b", "T3") EXCEPT !.cond = cb[2], !.imm = disp]
      [] mn \in {"push", "pop"} /\ n >= 3 /\ ops[1][1] = "{" /\ ops[n][1] = "}" /\ AllKind(ops, 2, n - 1, "r") ->
            [T(mn, mn) EXCEPT !.rn = SP, !.list = RegList(ops, 2, n - 1)]
      [] mn \in {"nop", "yield", "wfe", "wfi", "sev"} /\ n = 0 -> T(mn, "hint")
      [] mn \in {"sxth", "sxtb", "uxth", "uxtb"} /\ p = "rr" -> [T(mn, "extend") EXCEPT !.rd = R1, !.rm = R2]
      [] mn \in {"rev", "rev16", "revsh"} /\ p = "rr" -> [T(mn, "rev") EXCEPT !.rd = R1, !.rm = R2]
      [] mn \in {"cbz", "cbnz"} /\ p = "rl" -> [T(mn, "cbz") EXCEPT !.rn = R1, !.imm = disp]
      [] mn \in {"stm", "stmia", "ldm", "ldmia"} /\ n >= 5 /\ ops[2][1] = "!" /\ ops[3][1] = "{" /\ ops[n][1] = "}"
              /\ AllKind(ops, 4, n - 1, "r") ->
            [T(IF mn \in {"stm", "stmia"} THEN "stm" ELSE "ldm", "ldm_stm") EXCEPT !.rn = R1, !.list = RegList(ops, 4, n - 1), !.am = "ia!"]
      [] mn \in {"ldm", "ldmia"} /\ n >= 4 /\ ops[2][1] = "{" /\ ops[n][1] = "}" /\ AllKind(ops, 3, n - 1, "r") ->
            [T("ldm", "ldm_stm") EXCEPT !.rn = R1, !.list = RegList(ops, 3, n - 1), !.am = "ia"]
      [] mn = "hint" /\ p = "i" -> [T(mn, "hint") EXCEPT !.imm = R1]
      [] mn \in {"bkpt", "svc", "udf"} /\ p = "i" -> [T(mn, IF mn = "bkpt" THEN "bkpt" ELSE "bcond") EXCEPT !.imm = R1]
      [] OTHER -> NoAsm

-----------------------------------------------------------------------------
(* Operand ranges of the printed forms (pattern: r register operand, S the   *)
(* literal "sp", i integer, l label = displacement from the PC value):       *)
(* <<mnemonics, pattern, lo, hi, alignment>>                                 *)
CondMn2 == {cb[1] : cb \in {x \in CondBranches : x[3] = 2}}
CondMn4 == {cb[1] : cb \in {x \in CondBranches : x[3] = 4}}
TRanges == {
    <<{"mov", "cmp"}, "ri", 0, 255, 1>>, <<{"add", "sub"}, "rri", 0, 7, 1>>, <<{"add", "sub"}, "SSi", 0, 508, 4>>,
    <<{"ldr", "str"}, "r[ri]", 0, 124, 4>>, <<{"ldrb", "strb"}, "r[ri]", 0, 31, 1>>, <<{"ldrh", "strh"}, "r[ri]", 0, 62, 2>>,
    <<{"ldr", "str"}, "r[Si]", 0, 1020, 4>>, <<{"bkpt", "svc"}, "i", 0, 255, 1>>, <<{"lsl"}, "rri", 0, 31, 1>>,
    <<{"lsr", "asr"}, "rri", 1, 32, 1>>,
    <<{"ldr", "adr"}, "rl", 0, 1020, 4>>, <<{"b"}, "l", -2048, 2046, 2>>, <<CondMn2, "l", -256, 254, 2>>,
    <<{"bl", "bw"}, "l", -16777216, 16777214, 2>>, <<CondMn4, "l", -1048576, 1048574, 2>> }
=============================================================================
