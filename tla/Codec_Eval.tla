----------------------------- MODULE Codec_Eval -----------------------------
(* Idiom E: one state per observed instruction instance (TRACE_FILE = JSON   *)
(* array of records [key, direct, asm]); `bad` names the failing clauses.    *)
EXTENDS Codec, Json, IOUtils, TLC
Recs == JsonDeserialize(IOEnv.TRACE_FILE)
NChunks == 64
VARIABLES chunk, i, bad
vars == <<chunk, i, bad>>
Init == chunk = 0 /\ i = 0 /\ bad = {}
PickChunk == chunk = 0 /\ chunk' \in 1..NChunks /\ UNCHANGED <<i, bad>>
PickRec == /\ chunk > 0 /\ i = 0 /\ chunk' = chunk
           /\ i' \in {k \in 1..Len(Recs) : k % NChunks = chunk - 1}
           /\ bad' = Failing(Recs[i'])
Next == PickChunk \/ PickRec
AsmAccepts   == "rejected" \notin bad
BytesEqual   == "bytes" \notin bad
RelocsEqual  == "relocs" \notin bad
=============================================================================
