------------------------------- MODULE Wasm_MC -------------------------------
(* Idiom M for Wasm.tla: the semantics itself is model-checked over the cases  *)
(* of Wasm_MCGen.tla (law functions, small programs, every trap; all argument  *)
(* tuples over a boundary domain; each call on a fresh instance, on the module *)
(* and on a nop-prefixed equivalent).                                          *)
(* Invariants: TypeOK, NeverStuck, Deterministic (exactly one instruction      *)
(* action enabled in a running state), StackDiscipline (operand-stack heights  *)
(* at block ends and function ends), LawResults / LawStatus / LawInit (the     *)
(* expectations stated in Wasm_MCGen), ObsPreserved (the nop-prefixed module   *)
(* behaves identically).                                                       *)
EXTENDS Wasm


(* ---- invariants of the semantics itself --------------------------------------------------- *)
B2N(b) == IF b THEN 1 ELSE 0
EnabledCount ==
    B2N(ENABLED Const) + B2N(ENABLED Binary) + B2N(ENABLED Compare) + B2N(ENABLED Unary) + B2N(ENABLED Convert)
    + B2N(ENABLED Drop) + B2N(ENABLED Select) + B2N(ENABLED LocalGet) + B2N(ENABLED LocalSet) + B2N(ENABLED GlobalGet)
    + B2N(ENABLED GlobalSet) + B2N(ENABLED Load) + B2N(ENABLED Store) + B2N(ENABLED MemorySize) + B2N(ENABLED MemoryGrow)
    + B2N(ENABLED Nop) + B2N(ENABLED Unreachable) + B2N(ENABLED Block) + B2N(ENABLED Loop) + B2N(ENABLED If)
    + B2N(ENABLED Else) + B2N(ENABLED End) + B2N(ENABLED FuncEnd) + B2N(ENABLED Br) + B2N(ENABLED BrIf)
    + B2N(ENABLED BrTable) + B2N(ENABLED Return) + B2N(ENABLED Call) + B2N(ENABLED CallIndirect)
    + B2N(ENABLED NotModelled)
Deterministic == Running => EnabledCount = 1

\* validated code: at the end of a block exactly its results lie above the height recorded at its entry, and at
\* the end of a function body exactly its results are on the stack
StackDiscipline ==
    Running =>
        /\ (HasIns /\ I.op = "end" /\ Len(Top.lbl) > 0) =>
               LET L == Top.lbl[Len(Top.lbl)] IN
               NV = L.h + (IF L.cont < Top.pc THEN Len(BtResults(M, Body[L.cont].bt)) ELSE L.ar)
        /\ ~HasIns => (NV = Len(FType(M, Top.f).results) /\ Len(Top.lbl) = 0)

Exp == C.calls[ci].exp
LawStatus == (Finished /\ ci > 0) => status = Exp.status
LawResults == (Finished /\ ci > 0 /\ status = "ok") => ret = Exp.ret
LawInit == (Finished /\ ci = 0) => (status = "ok" /\ glob[2] = I32(7) /\ MemAt(mem, 100) = 7 /\ MemAt(mem, 65535) = 9
                                    /\ tab = <<15, 16, 17, -1, -1>> /\ pages = 1)
=============================================================================
