------------------------------- MODULE Wasm_MC -------------------------------
(* Idiom M for Wasm.tla: the semantics itself is model-checked over the cases  *)
(* of Wasm_MCGen.tla (law functions, small programs, every trap; all argument  *)
(* tuples over a boundary domain; each call on a fresh instance, on the module *)
(* and on a nop-prefixed equivalent).                                          *)
(* Invariants: TypeOK, NeverStuck, Deterministic (exactly one instruction      *)
(* action enabled in a running state), StackDiscipline (operand-stack heights  *)
(* at block ends and function ends), LawResults / LawStatus / LawInit (the     *)
(* expectations stated in Wasm_MCGen), ObsPreserved (the nop-prefixed module   *)
(* behaves identically).                                                       *)
EXTENDS Json, IOUtils, TLC, Naturals, Sequences

JsonCases == JsonDeserialize(IOEnv.TRACE_FILE)
VARIABLES chunk, i, ph, ci, stack, mem, pages, glob, tab, calls, status, why, ret, steps, olog
INSTANCE Wasm WITH Cases <- JsonCases


(* ---- invariants of the semantics itself --------------------------------------------------- *)
B2N(b) == IF b THEN 1 ELSE 0
Rest == UNCHANGED <<chunk, i, ph, ci, olog>>
EnabledCount ==
    B2N(ENABLED (Const /\ Rest)) + B2N(ENABLED (Binary /\ Rest)) + B2N(ENABLED (Compare /\ Rest)) + B2N(ENABLED (Unary /\ Rest)) + B2N(ENABLED (Convert /\ Rest))
    + B2N(ENABLED (Drop /\ Rest)) + B2N(ENABLED (Select /\ Rest)) + B2N(ENABLED (LocalGet /\ Rest)) + B2N(ENABLED (LocalSet /\ Rest)) + B2N(ENABLED (GlobalGet /\ Rest))
    + B2N(ENABLED (GlobalSet /\ Rest)) + B2N(ENABLED (Load /\ Rest)) + B2N(ENABLED (Store /\ Rest)) + B2N(ENABLED (MemorySize /\ Rest)) + B2N(ENABLED (MemoryGrow /\ Rest))
    + B2N(ENABLED (Nop /\ Rest)) + B2N(ENABLED (Unreachable /\ Rest)) + B2N(ENABLED (Block /\ Rest)) + B2N(ENABLED (Loop /\ Rest)) + B2N(ENABLED (If /\ Rest))
    + B2N(ENABLED (Else /\ Rest)) + B2N(ENABLED (End /\ Rest)) + B2N(ENABLED (FuncEnd /\ Rest)) + B2N(ENABLED (Br /\ Rest)) + B2N(ENABLED (BrIf /\ Rest))
    + B2N(ENABLED (BrTable /\ Rest)) + B2N(ENABLED (Return /\ Rest)) + B2N(ENABLED (Call /\ Rest)) + B2N(ENABLED (CallIndirect /\ Rest))
    + B2N(ENABLED (NotModelled /\ Rest))
Deterministic == Running => EnabledCount = 1

\* validated code: at the end of a block exactly its results lie above the height recorded at its entry, and at
\* the end of a function body exactly its results are on the stack
StackDiscipline ==
    Running =>
        /\ (HasIns /\ I.op = "end" /\ Len(Top.lbl) > 0) =>
               LET L == Top.lbl[Len(Top.lbl)] IN
               NV = L.h + (IF L.cont < Top.pc THEN Len(BtResults(M, Body[L.cont].bt)) ELSE L.ar)
        /\ ~HasIns => (NV = Len(FType(M, Top.f).results) /\ Len(Top.lbl) = 0)

Exp == C.calls[ci].exp
LawStatus == (Finished /\ ci > 0) => status = Exp.status
LawResults == (Finished /\ ci > 0 /\ status = "ok") => ret = Exp.ret
LawInit == (Finished /\ ci = 0) => (status = "ok" /\ glob[2] = I32(7) /\ MemAt(mem, 100) = 7 /\ MemAt(mem, 65535) = 9
                                    /\ tab = <<15, 16, 17, -1, -1>> /\ pages = 1)
=============================================================================
