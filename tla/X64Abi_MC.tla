------------------------------ MODULE X64Abi_MC ------------------------------
(* Idiom M: the sequential assignment machine of X64Abi.tla explored over every   *)
(* signature of 0..MaxParams parameters over {INTEGER, SSE} (2^(MaxParams+1) - 1   *)
(* states: 8191 for MaxParams = 12); invariants = the clauses of psABI 3.2.3 and   *)
(* agreement of the machine with the closed form LocOf used by the Eval module.   *)
EXTENDS X64Abi
CONSTANT MaxParams

MInit == AInit
MNext == Len(sig) < MaxParams /\ Assign

N == Len(sig)
IntPos == {k \in 1..N : sig[k] = "INTEGER"}
SsePos == {k \in 1..N : sig[k] = "SSE"}
MemPos == {k \in 1..N : locs[k].k = "mem"}
Rank(S, k) == Cardinality({j \in S : j <= k})          \* position of k among the members of S

TypeOK == /\ Len(locs) = N /\ \A k \in 1..N : sig[k] \in Classes
          /\ nint \in 0..Len(IntRegs) /\ nsse \in 0..Len(SseRegs) /\ nmem \in 0..MaxParams

\* (1) = (2): the machine computes the closed form
MachineIsClosedForm == /\ \A k \in 1..N : locs[k] = LocOf(sig, k)
                       /\ nmem = MemSlots(sig)

\* counters = number of registers handed out
CountersAgree == /\ nint = Cardinality({k \in IntPos : locs[k].k = "reg"})
                 /\ nsse = Cardinality({k \in SsePos : locs[k].k = "reg"})
                 /\ nmem = Cardinality(MemPos)

\* no two parameters share a location
Injective == \A j, k \in 1..N : j # k => locs[j] # locs[k]

\* the j-th INTEGER argument (j <= 6) is in the j-th INTEGER register, likewise SSE (j <= 8)
RegistersInOrder ==
    /\ \A k \in IntPos : Rank(IntPos, k) <= Len(IntRegs) => locs[k] = Reg(IntRegs[Rank(IntPos, k)])
    /\ \A k \in SsePos : Rank(SsePos, k) <= Len(SseRegs) => locs[k] = Reg(SseRegs[Rank(SsePos, k)])

\* an argument is in memory exactly when the registers of its class are exhausted by earlier arguments
MemoryOnlyWhenExhausted ==
    /\ \A k \in IntPos : (locs[k].k = "mem") <=> Rank(IntPos, k) > Len(IntRegs)
    /\ \A k \in SsePos : (locs[k].k = "mem") <=> Rank(SsePos, k) > Len(SseRegs)

\* memory arguments occupy consecutive eightbytes in argument order, the first one at 8(%rsp) / 16(%rbp)
MemoryContiguous ==
    /\ \A k \in MemPos : locs[k].slot = Rank(MemPos, k) - 1
    /\ \A k \in MemPos : EntryRspOffset(locs[k].slot) = 8 * Rank(MemPos, k)
                         /\ FrameRbpOffset(locs[k].slot) = 8 + 8 * Rank(MemPos, k)

\* the argument area keeps the call site 16-byte aligned and wastes less than one alignment unit
ArgAreaAligned == /\ ArgAreaBytes(sig) % 16 = 0
                  /\ ArgAreaBytes(sig) >= 8 * nmem /\ ArgAreaBytes(sig) < 8 * nmem + 16

\* the rule is total and deterministic: for each class exactly one of the two actions is enabled
Deterministic == /\ (nint < Len(IntRegs)) # (nint = Len(IntRegs))
                 /\ (nsse < Len(SseRegs)) # (nsse = Len(SseRegs))
                 /\ (N < MaxParams => ((ENABLED AssignIntReg) # (ENABLED AssignIntMem))
                                      /\ ((ENABLED AssignSseReg) # (ENABLED AssignSseMem)))

\* return value and preserved registers
ReturnRule == RetLoc("INTEGER") = Reg("rax") /\ RetLoc("SSE") = Reg("xmm0")
              /\ \A j \in 1..Len(IntRegs) : \A q \in 1..Len(CalleeSaved) : IntRegs[j] # CalleeSaved[q]
=============================================================================
