------------------------------ MODULE Arm_Run ------------------------------
(* Batch driver of ArmExec.tla for linked images (property C05, arm and      *)
(* thumb part): image loader + call wrapper + observation; the shape of      *)
(* RV32_Run.tla.                                                             *)
(*                                                                           *)
(* TRACE_FILE = JSON array of cases                                          *)
(*   id, isa ("arm" | "thumb")                                               *)
(*   imgs   Seq([segs : Seq([addr, bytes]), entry, globals : Seq([name,      *)
(*               addr, size])])                                              *)
(*   calls  Seq([regs : Seq(<<register, word>>), stk : Seq(<<offset from sp, *)
(*               word>>)])                                                   *)
(*   sp, ra stack pointer at the call, return address (a sentinel outside    *)
(*          every segment; lr = ra, with bit 0 set in Thumb state)           *)
(*   keep   registers the calling convention says the callee preserves       *)
(*   fuel   instruction budget        expect (optional) driver self-check    *)
(* For every (case, call): load image 1, all registers junk, flags 0, then   *)
(* sp, lr, arguments; execute Decode / Step from `entry` until pc = ra;      *)
(* observe status ("ok" | "fuel" | "fault" | "undefined" | "outofmodel"),    *)
(* r0, the final bytes of every global, sp / keep registers restored.        *)
EXTENDS ArmExec, Json, IOUtils

Cases == JsonDeserialize(IOEnv.TRACE_FILE)
CONSTANTS NChunks, Burst

VARIABLES chunk, ci, av, im, m, status, steps, first
vars == <<chunk, ci, av, im, m, status, steps, first>>

C == Cases[ci]
Img == C.imgs[im]
Call == C.calls[av]

-----------------------------------------------------------------------------
SegCells(seg) == Mk([k \in 1..Len(seg.bytes) |-> <<W4(seg.addr + k - 1), seg.bytes[k]>>])
RECURSIVE AllCells(_, _)
AllCells(segs, k) == IF k > Len(segs) THEN <<>> ELSE SegCells(segs[k]) \o AllCells(segs, k + 1)
FetchAt(img, a, n) ==
    LET S == {k \in 1..Len(img.segs) : img.segs[k].addr <= a /\ a + n <= img.segs[k].addr + Len(img.segs[k].bytes)} IN
    IF S = {} THEN <<>>
    ELSE LET seg == img.segs[CHOOSE k \in S : TRUE] IN Mk([j \in 1..n |-> seg.bytes[a - seg.addr + j]])
PcInt(w) == IF w[4] # 0 THEN -1 ELSE w[1] + 256 * w[2] + 65536 * w[3]

Junk(r) == <<(r * 37 + 11) % 256, 165, (r * 5 + 3) % 256, 90>>
RECURSIVE SetRegs(_, _, _)
SetRegs(x, regs, k) == IF k > Len(regs) THEN x ELSE SetRegs(Mk([x EXCEPT ![regs[k][1] + 1] = regs[k][2]]), regs, k + 1)
RECURSIVE PutWords(_, _, _, _)
PutWords(mem, base, ws, k) ==
    IF k > Len(ws) THEN mem ELSE PutWords(StoreBytes(mem, W4(base + ws[k][1]), ws[k][2], 1), base, ws, k + 1)
X0(c, call) == SetRegs(Mk([k \in 1..15 |-> Junk(k)]),
                       <<<<SP, W4(c.sp)>>, <<LR, W4(c.ra + (IF c.isa = "thumb" THEN 1 ELSE 0))>>>> \o call.regs, 1)
Load(c, call, img) ==
    [pc |-> W4(img.entry), x |-> X0(c, call), f |-> <<0, 0, 0, 0>>,
     mem |-> PutWords([salt |-> 7, ov |-> AllCells(img.segs, 1)], c.sp, call.stk, 1)]

-----------------------------------------------------------------------------
Step1(c, img, s) ==
    LET a == PcInt(s.pc)  thumb == c.isa = "thumb" IN
    IF a < 0 \/ a % (IF thumb THEN 2 ELSE 4) # 0 THEN [st |-> "fault", s |-> s]
    ELSE LET h == FetchAt(img, a, IF thumb THEN 2 ELSE 4) IN
         IF h = <<>> THEN [st |-> "fault", s |-> s]
         ELSE LET b == IF thumb /\ Bits(Hw(h, 1), 11, 5) \in {29, 30, 31} THEN FetchAt(img, a, 4) ELSE h IN
              IF b = <<>> THEN [st |-> "fault", s |-> s]
              ELSE CHOOSE r \in {IF t.st = "ok" THEN [st |-> "run", s |-> [pc |-> t.pc, x |-> t.x, f |-> t.f, mem |-> t.mem]]
                                 ELSE [st |-> t.st, s |-> s]
                                 : t \in {Step(s, IF thumb THEN Decode(b) ELSE DecodeA(b), c.isa)}} : TRUE
RECURSIVE RunK(_, _, _, _, _)
RunK(c, img, s, n, k) ==
    IF PcInt(s.pc) = c.ra THEN [st |-> "ok", s |-> s, n |-> n]
    ELSE IF k = 0 THEN [st |-> "run", s |-> s, n |-> n]
    ELSE CHOOSE r \in {IF t.st = "run" THEN RunK(c, img, t.s, n + 1, k - 1) ELSE [st |-> t.st, s |-> t.s, n |-> n]
                       : t \in {Step1(c, img, s)}} : TRUE

Running == ci > 0 /\ status = "run"
Finished == ci > 0 /\ status \notin {"run", "idle"}
Min(a, b) == IF a <= b THEN a ELSE b
Exec_ ==
    /\ Running /\ steps < C.fuel
    /\ \E r \in {RunK(C, Img, m, 0, Min(Burst, C.fuel - steps))} :
          /\ m' = r.s /\ status' = r.st /\ steps' = steps + r.n
    /\ UNCHANGED <<chunk, ci, av, im, first>>
Exhaust == /\ Running /\ steps >= C.fuel
           /\ status' = (IF PcInt(m.pc) = C.ra THEN "ok" ELSE "fuel")
           /\ UNCHANGED <<chunk, ci, av, im, m, steps, first>>

-----------------------------------------------------------------------------
GlobalBytes(g) == LoadBytes(m.mem, W4(g.addr), g.size)
Obs == [status |-> status,
        r0 |-> IF status = "ok" THEN m.x[1] ELSE <<>>,
        globals |-> IF status = "ok" THEN Mk([k \in 1..Len(Img.globals) |-> [name |-> Img.globals[k].name,
                                                                             bytes |-> GlobalBytes(Img.globals[k])]])
                    ELSE <<>>,
        kept |-> IF status = "ok"
                 THEN m.x[SP + 1] = W4(C.sp) /\ \A k \in 1..Len(C.keep) : m.x[C.keep[k] + 1] = X0(C, Call)[C.keep[k] + 1]
                 ELSE TRUE]

NextImage ==
    /\ Finished /\ im < Len(C.imgs)
    /\ first' = IF im = 1 THEN Obs ELSE first
    /\ im' = im + 1
    /\ m' = Load(C, Call, C.imgs[im + 1]) /\ status' = "run" /\ steps' = 0
    /\ UNCHANGED <<chunk, ci, av>>

NoMachine == [pc |-> WZero(4), x |-> <<>>, f |-> <<0, 0, 0, 0>>, mem |-> [salt |-> 0, ov |-> <<>>]]
NoObs == [status |-> "idle", r0 |-> <<>>, globals |-> <<>>, kept |-> TRUE]
Init == chunk = 0 /\ ci = 0 /\ av = 0 /\ im = 0 /\ m = NoMachine /\ status = "idle" /\ steps = 0 /\ first = NoObs
PickChunk == /\ chunk = 0 /\ chunk' \in 1..NChunks
             /\ UNCHANGED <<ci, av, im, m, status, steps, first>>
PickCase == /\ chunk > 0 /\ ci = 0
            /\ ci' \in {k \in 1..Len(Cases) : k % NChunks = chunk - 1}
            /\ av' \in 1..Len(Cases[ci'].calls)
            /\ im' = 1
            /\ m' = Load(Cases[ci'], Cases[ci'].calls[av'], Cases[ci'].imgs[1])
            /\ status' = "run" /\ steps' = 0
            /\ UNCHANGED <<chunk, first>>
Next == PickChunk \/ PickCase \/ Exec_ \/ Exhaust \/ NextImage
EmitObs == Finished /\ PrintT(<<"OBS", ci, av, im, Obs, steps>>) /\ FALSE /\ UNCHANGED vars
NextEmit == Next \/ EmitObs

Shown == [ci |-> ci, av |-> av, im |-> im, status |-> status, steps |-> steps, pc |-> m.pc,
          r0 |-> IF Len(m.x) = 15 THEN m.x[1] ELSE <<>>, first |-> first]
-----------------------------------------------------------------------------
SameGlobals(a, b) == Len(a) = Len(b) /\ \A k \in 1..Len(a) : a[k] = b[k]
ConventionKept == Finished => Obs.kept
AsExpected ==
    (Finished /\ "expect" \in DOMAIN C) =>
        /\ status = C.expect.status
        /\ (status = "ok" => Obs.r0 = C.expect.r0[av] /\ SameGlobals(Obs.globals, C.expect.globals[av]))
TypeOK == status \in {"idle", "run", "ok", "fuel", "fault", "undefined", "outofmodel"}
=============================================================================
