-------------------------------- MODULE Cpp --------------------------------
(* A conforming C pre-processor for translation units without #include:      *)
(*                                                                           *)
(*  * macro replacement (ISO C 6.10.3) written as the published reference   *)
(*    algorithm -- Dave Prosser's hide-set algorithm (X3J11/86-196):         *)
(*    Exp = expand, Subst = subst, HsAdd = hsadd, Glue = glue,               *)
(*    Stringize = stringize -- with the place-marker rules of 6.10.3.3       *)
(*    written out (Prosser's pseudo code treats empty ## operands by cases), *)
(*  * the conditional-inclusion machine (6.10.1): a stack of if-sections,   *)
(*    each "active" (its current group is processed), "waiting" (no group   *)
(*    taken yet: skipping, the next #elif / #else is examined), "done"      *)
(*    (a group has been taken: everything up to #endif is skipped) or       *)
(*    "dead" (opened inside a skipped group),                               *)
(*  * #if expressions (6.10.1p4, 6.6): every operand has type intmax_t or   *)
(*    uintmax_t (64 bits, Words.tla byte limbs), usual arithmetic           *)
(*    conversions, truncating / and %, `defined`, remaining identifiers = 0.*)
(*                                                                           *)
(* Input: the lexed translation unit, a sequence of lines, each a sequence  *)
(* of pre-processing tokens [k, t, ws]: kind ("id" "num" "punct" "str"      *)
(* "chr"), spelling as character codes, preceded-by-white-space flag (the   *)
(* first token of a line is preceded by the new-line).                      *)
(* Inside the machine a token also carries its hide set hs (set of macro    *)
(* names) and syn (TRUE when the text of the standard does not fix whether  *)
(* white space precedes the token: some seams of a substitution).  The      *)
(* result of the machine is the token sequence (kinds and spellings); tags  *)
(* record which special rules were needed (they only label findings).       *)
(*                                                                           *)
(* Every operator returns a status: "ok", or why the unit has no defined    *)
(* result: "invalid" (constraint violation: a diagnostic is all that is     *)
(* required), "undef" (undefined behaviour), "impldef", "unspec" (the       *)
(* standard allows more than one result), "outofmodel" (variadic macros,    *)
(* #include, #line, ... not modelled).  Only "ok" units are judged.         *)
EXTENDS Naturals, Integers, Sequences, FiniteSets, Words

\* ---- spellings ------------------------------------------------------------
N_define  == <<100, 101, 102, 105, 110, 101>>
N_undef   == <<117, 110, 100, 101, 102>>
N_if      == <<105, 102>>
N_ifdef   == <<105, 102, 100, 101, 102>>
N_ifndef  == <<105, 102, 110, 100, 101, 102>>
N_elif    == <<101, 108, 105, 102>>
N_else    == <<101, 108, 115, 101>>
N_endif   == <<101, 110, 100, 105, 102>>
N_defined == <<100, 101, 102, 105, 110, 101, 100>>
N_VA_ARGS == <<95, 95, 86, 65, 95, 65, 82, 71, 83, 95, 95>>
LP == <<40>>   RP == <<41>>   COMMA == <<44>>   HASH == <<35>>   HASHHASH == <<35, 35>>
ELLIPSIS == <<46, 46, 46>>
\* the punctuators of 6.4.6 (without digraphs)
Puncts == {<<91>>, <<93>>, <<40>>, <<41>>, <<123>>, <<125>>, <<46>>, <<45, 62>>, <<43, 43>>, <<45, 45>>,
           <<38>>, <<42>>, <<43>>, <<45>>, <<126>>, <<33>>, <<47>>, <<37>>, <<60, 60>>, <<62, 62>>, <<60>>,
           <<62>>, <<60, 61>>, <<62, 61>>, <<61, 61>>, <<33, 61>>, <<94>>, <<124>>, <<38, 38>>, <<124, 124>>,
           <<63>>, <<58>>, <<59>>, <<46, 46, 46>>, <<61>>, <<42, 61>>, <<47, 61>>, <<37, 61>>, <<43, 61>>,
           <<45, 61>>, <<60, 60, 61>>, <<62, 62, 61>>, <<38, 61>>, <<94, 61>>, <<124, 61>>, <<44>>, <<35>>,
           <<35, 35>>}

IsDigit(c) == c \in 48..57
IsAlpha(c) == c \in 65..90 \/ c \in 97..122 \/ c = 95
IsIdent(t) == Len(t) > 0 /\ IsAlpha(t[1]) /\ \A j \in 2..Len(t) : IsAlpha(t[j]) \/ IsDigit(t[j])
\* pp-number (6.4.8)
IsPPNum(t) == /\ Len(t) > 0
              /\ IsDigit(t[1]) \/ (Len(t) > 1 /\ t[1] = 46 /\ IsDigit(t[2]))
              /\ \A j \in 2..Len(t) : \/ IsAlpha(t[j]) \/ IsDigit(t[j]) \/ t[j] = 46
                                      \/ (t[j] \in {43, 45} /\ t[j - 1] \in {101, 69, 112, 80})
Classify(t) == IF IsIdent(t) THEN "id" ELSE IF IsPPNum(t) THEN "num" ELSE IF t \in Puncts THEN "punct" ELSE "bad"

\* ---- tokens and results ------------------------------------------------
Tok(k, t, ws) == [k |-> k, t |-> t, hs |-> {}, ws |-> ws, syn |-> FALSE]
IsP(tok, s) == tok.k = "punct" /\ tok.t = s
IsId(tok, s) == tok.k = "id" /\ tok.t = s
Proj(ts) == Mk([j \in 1..Len(ts) |-> [k |-> ts[j].k, t |-> ts[j].t]])   \* what is compared: kinds and spellings
Ok(ts, tg) == [st |-> "ok", toks |-> ts, tags |-> tg]
Bad(st, tg) == [st |-> st, toks |-> <<>>, tags |-> tg]
Front(s) == SubSeq(s, 1, Len(s) - 1)
Last(s) == s[Len(s)]
\* White space at the seams of a replacement (only # can observe it).  An invocation is replaced by
\* the replacement list (6.10.3p7: white space around the list is not part of it), so the white
\* space in front of the macro name N stays in front of the first token of the result and the token
\* after the invocation keeps its own (6.10.3.5 EXAMPLE 4: xstr(INCFILE(2).h) is "vers2.h").
\* Not fixed by the text (syn = TRUE): white space in front of an argument's first token when the
\* parameter had none, and white space around a replacement that is empty.
MarkFirst(ts, N) == IF ts = <<>> THEN ts ELSE <<[ts[1] EXCEPT !.ws = N.ws, !.syn = N.syn]>> \o Tail(ts)
MarkFirstArg(ts, P) == IF ts = <<>> THEN ts
                       ELSE <<[ts[1] EXCEPT !.ws = P.ws, !.syn = P.syn \/ (~P.ws /\ (ts[1].ws \/ ts[1].syn))]>> \o Tail(ts)
AfterEmpty(ts, N) == IF ts = <<>> THEN ts
                     ELSE <<[ts[1] EXCEPT !.syn = @ \/ (~ts[1].ws /\ (N.ws \/ N.syn))]>> \o Tail(ts)
NoTok == [k |-> "none", t |-> <<>>, hs |-> {}, ws |-> FALSE, syn |-> FALSE]

\* ---- macro table: sequence of definitions with distinct names ----------------
\* def = [name, fl (function-like), params (spellings), body (tokens)]
DefIdx(ms, n) == LET S == {j \in 1..Len(ms) : ms[j].name = n} IN IF S = {} THEN 0 ELSE CHOOSE j \in S : TRUE
Defined(ms, n) == DefIdx(ms, n) > 0
Def(ms, n) == ms[DefIdx(ms, n)]
Remove(ms, n) == SelectSeq(ms, LAMBDA d : d.name # n)
ParamIdx(d, tok) == IF tok.k # "id" THEN 0
                    ELSE LET S == {j \in 1..Len(d.params) : d.params[j] = tok.t} IN
                         IF S = {} THEN 0 ELSE CHOOSE j \in S : TRUE

\* ---- hsadd ---------------------------------------------------------------
HsAdd(HS, ts) == Mk([j \in 1..Len(ts) |-> [ts[j] EXCEPT !.hs = @ \cup HS]])
\* The hide set of the result of a function-like invocation is built from the hide sets of
\* the macro name and of the closing parenthesis.  Prosser intersects them ("inter": a macro stays
\* hidden only if the whole invocation lies inside its replacement).  When the name is the end of
\* one replacement and the arguments come from text outside it, the standard leaves it unspecified
\* whether the invocation counts as nested in that replacement (6.10.3.4p4, its example f(2)(9),
\* DR 268): under the "nested" reading everything hidden in the name stays hidden, whatever the
\* parenthesis carries.  Both readings are computed; a unit on which they differ has status
\* "unspec" and is not judged -- an implementation may follow either.
Meet(mode, a, b) == IF mode = "inter" THEN a \cap b ELSE a
\* a pasted token: hidden in both operands / in either operand
MeetGlue(mode, a, b) == IF mode = "inter" THEN a \cap b ELSE a \cup b

\* ---- stringize (6.10.3.2) --------------------------------------------------
Esc(tok) == IF tok.k \in {"str", "chr"}
            THEN LET RECURSIVE E(_, _)
                     E(j, acc) == IF j > Len(tok.t) THEN acc
                                  ELSE E(j + 1, IF tok.t[j] \in {34, 92} THEN acc \o <<92, tok.t[j]>> ELSE Append(acc, tok.t[j]))
                 IN E(1, <<>>)
            ELSE tok.t
RECURSIVE StrBody(_, _, _)
StrBody(a, j, acc) == IF j > Len(a) THEN acc
                      ELSE StrBody(a, j + 1, acc \o (IF j > 1 /\ a[j].ws THEN <<32>> ELSE <<>>) \o Esc(a[j]))
Stringize(a, hashtok) ==
    IF \E j \in 2..Len(a) : a[j].syn
    THEN Bad("unspec", {"stringize-seam-whitespace"})   \* white space at a substitution seam: not fixed by the standard's text
    ELSE [st |-> "ok", tags |-> {"stringize"} \cup (IF \E j \in 2..Len(a) : ~a[j].ws THEN {"stringize-adjacent"} ELSE {})
                                      \cup (IF a = <<>> THEN {"stringize-empty"} ELSE {})
                                      \cup (IF \E j \in 1..Len(a) : a[j].k \in {"str", "chr"} THEN {"stringize-escape"} ELSE {}),
          tok |-> [k |-> "str", t |-> <<34>> \o StrBody(a, 1, <<>>) \o <<34>>, hs |-> {}, ws |-> hashtok.ws, syn |-> hashtok.syn]]

\* ---- 64-bit values and integer constants (used by #if, and to recognise numbers) ----
W8(n) == WFromNat(n, 8)
S16(x) == WResize(x, 16, TRUE)
U16(x) == WResize(x, 16, FALSE)
Low8(x) == SubSeq(x, 1, 8)
FitsS(x16) == x16 = S16(Low8(x16))
FitsU(x16) == x16 = U16(Low8(x16))
Val(u, w, tg) == [st |-> "ok", u |-> u, w |-> w, tags |-> tg]
NoVal(st, why) == [st |-> st, u |-> FALSE, w |-> W8(0), tags |-> {why}]
Truth(b) == IF b THEN W8(1) ELSE W8(0)

\* ---- integer constants (6.4.4.1) ------------------------------------------
Lower(c) == IF c \in 65..90 THEN c + 32 ELSE c
DigitVal(c) == IF IsDigit(c) THEN c - 48 ELSE IF Lower(c) \in 97..102 THEN Lower(c) - 87 ELSE 99
SuffixOK(s) == LET l == Mk([j \in 1..Len(s) |-> Lower(s[j])]) IN
               /\ l \in {<<>>, <<117>>, <<108>>, <<117, 108>>, <<108, 117>>, <<108, 108>>, <<117, 108, 108>>, <<108, 108, 117>>}
               /\ \A j \in 1..(Len(s) - 1) : (Lower(s[j]) = 108 /\ Lower(s[j + 1]) = 108) => s[j] = s[j + 1]
RECURSIVE NumAcc(_, _, _, _)
\* accumulate digits in a 9-byte word; returns <<word, index of first non-digit, overflowed>>
NumAcc(t, j, base, acc) ==
    IF j > Len(t) \/ DigitVal(t[j]) >= base THEN <<acc, j, FALSE>>
    ELSE LET n == WAdd(WMul(acc, WFromNat(base, 9)), WFromNat(DigitVal(t[j]), 9)) IN
         IF n[9] # 0 THEN <<n, j, TRUE>> ELSE NumAcc(t, j + 1, base, n)
ParseInt(t) ==
    LET hex == Len(t) > 2 /\ t[1] = 48 /\ Lower(t[2]) = 120
        bin == Len(t) > 1 /\ t[1] = 48 /\ Lower(t[2]) = 98
        base == IF hex THEN 16 ELSE IF t[1] = 48 THEN 8 ELSE 10
        r == NumAcc(t, IF hex THEN 3 ELSE 1, base, WZero(9))
        suf == SubSeq(t, r[2], Len(t))
        w == SubSeq(r[1], 1, 8)
        uns == \E j \in 1..Len(suf) : Lower(suf[j]) = 117
    IN IF bin THEN NoVal("outofmodel", "binary-literal")
       ELSE IF (hex /\ r[2] = 3) \/ ~SuffixOK(suf) THEN NoVal("invalid", "not-an-integer-constant")
       ELSE IF r[3] THEN NoVal("invalid", "integer-constant-too-large")
       ELSE IF uns THEN Val(TRUE, w, {})
       ELSE IF ~IsNegW(w) THEN Val(FALSE, w, {})
       ELSE IF base = 10 THEN NoVal("undef", "decimal-constant-without-type")
       ELSE Val(TRUE, w, {"if-literal-unsigned-by-value"})

\* a pp-number that is an integer constant; any other pp-number (12ab, 3v) is still one token (6.4.8)
IsNumber(t) == ParseInt(t).st = "ok"

\* ---- glue (6.10.3.3) -------------------------------------------------------
Glue(L, R, mode) ==
    IF L.k = "pm" THEN [st |-> "ok", tags |-> {"paste-placemarker"}, tok |-> [R EXCEPT !.ws = L.ws, !.syn = TRUE]]
    ELSE IF R.k = "pm" THEN [st |-> "ok", tags |-> {"paste-placemarker"}, tok |-> L]
    ELSE IF L.k \in {"str", "chr"} \/ R.k \in {"str", "chr"} THEN Bad("outofmodel", {"paste-literal"})
    ELSE LET t == L.t \o R.t
             k == Classify(t)
         IN IF k = "bad" THEN Bad("undef", {"paste-invalid-token"})
            ELSE [st |-> "ok", tags |-> {"paste"} \cup (IF k = "num" /\ ~IsNumber(t) THEN {"paste-odd-pp-number"} ELSE {}),
                  tok |-> [k |-> k, t |-> t, hs |-> MeetGlue(mode, L.hs, R.hs), ws |-> L.ws, syn |-> L.syn]]

\* left-to-right evaluation of the ## operators (items of kind "paste") of a replacement list
RECURSIVE PastePass(_, _, _, _, _)
PastePass(items, j, acc, tg, mode) ==
    IF j > Len(items) THEN Ok(acc, tg)
    ELSE IF items[j].k = "paste"
         THEN LET g == Glue(Last(acc), items[j + 1], mode) IN
              IF g.st # "ok" THEN Bad(g.st, g.tags)
              ELSE PastePass(items, j + 2, Append(Front(acc), g.tok), tg \cup g.tags, mode)
         ELSE PastePass(items, j + 1, Append(acc, items[j]), tg, mode)

\* ---- arguments of a function-like invocation; ts[1] is the "(" ------------------
RECURSIVE Gather(_, _, _, _, _)
Gather(ts, j, depth, cur, args) ==
    IF j > Len(ts) THEN [ok |-> FALSE]
    ELSE LET T == ts[j] IN
         IF IsP(T, LP) THEN Gather(ts, j + 1, depth + 1, Append(cur, T), args)
         ELSE IF IsP(T, RP)
              THEN IF depth = 0 THEN [ok |-> TRUE, args |-> Append(args, cur), rp |-> T, next |-> j + 1]
                   ELSE Gather(ts, j + 1, depth - 1, Append(cur, T), args)
         ELSE IF IsP(T, COMMA) /\ depth = 0 THEN Gather(ts, j + 1, 0, <<>>, Append(args, cur))
         ELSE Gather(ts, j + 1, depth, Append(cur, T), args)
GatherArgs(ts) == Gather(ts, 2, 0, <<>>, <<>>)
\* f() supplies one empty argument to a one-parameter macro and none to a zero-parameter macro
ArgsFit(d, args) == IF Len(d.params) = 0 THEN args = << <<>> >> ELSE Len(args) = Len(d.params)

\* well-formedness of a replacement list (constraints of 6.10.3.2p1, 6.10.3.3p1)
BodyStatus(d) ==
    LET b == d.body IN
    IF \E j \in 1..Len(b) : IsId(b[j], N_VA_ARGS) THEN "outofmodel"
    ELSE IF b # <<>> /\ (IsP(b[1], HASHHASH) \/ IsP(Last(b), HASHHASH)) THEN "invalid"
    ELSE IF d.fl /\ \E j \in 1..Len(b) : IsP(b[j], HASH) /\ (j = Len(b) \/ ParamIdx(d, b[j + 1]) = 0) THEN "invalid"
    ELSE "ok"
IsHashOp(d, j) == d.fl /\ IsP(d.body[j], HASH)

Fuel == 300
RECURSIVE Exp(_, _, _, _, _, _, _), Sub1(_, _, _, _, _, _, _, _, _)

\* ---- subst: replacement list of d with arguments args (raw), then ## ; result not yet hs-added
\* items built by Sub1: body tokens, stringized arguments, arguments (fully macro-expanded
\* unless operand of # or ##; an empty ## operand becomes a place marker), ## operators as "paste"
\* pe: the parameter just replaced by nothing (else NoTok)
Sub1(ms, mode, d, args, j, acc, tg, fuel, pe) ==
    LET b == d.body IN
    IF j > Len(b) THEN Ok(acc, tg)
    ELSE LET B == b[j]
             pi == ParamIdx(d, B)
         IN
         IF IsHashOp(d, j)
         THEN IF (j > 1 /\ IsP(b[j - 1], HASHHASH)) \/ (j + 2 <= Len(b) /\ IsP(b[j + 2], HASHHASH))
              THEN Bad("unspec", {"hash-hashhash-order"})            \* 6.10.3.2p2: order of # and ## unspecified
              ELSE LET s == Stringize(args[ParamIdx(d, b[j + 1])], B) IN
                   IF s.st # "ok" THEN Bad(s.st, s.tags)
                   ELSE Sub1(ms, mode, d, args, j + 2, acc \o AfterEmpty(<<s.tok>>, pe), tg \cup s.tags, fuel, NoTok)
         ELSE IF IsP(B, HASHHASH)
         THEN IF IsP(b[j + 1], HASHHASH) THEN Bad("unspec", {"hashhash-hashhash"})
              ELSE Sub1(ms, mode, d, args, j + 1, Append(acc, [B EXCEPT !.k = "paste"]), tg, fuel, NoTok)
         ELSE IF pi > 0
         THEN LET a == args[pi]
                  byPaste == (j > 1 /\ IsP(b[j - 1], HASHHASH)) \/ (j < Len(b) /\ IsP(b[j + 1], HASHHASH))
              IN IF byPaste
                 THEN Sub1(ms, mode, d, args, j + 1,
                           acc \o (IF a = <<>> THEN <<[k |-> "pm", t |-> <<>>, hs |-> {}, ws |-> B.ws, syn |-> TRUE]>>
                                   ELSE MarkFirstArg(a, B)),
                           tg \cup {"arg-paste-operand"} \cup (IF a = <<>> THEN {"arg-empty"} ELSE {}), fuel, NoTok)
                 ELSE LET e == Exp(ms, mode, a, <<>>, {}, fuel - 1, "arg") IN
                      IF e.st # "ok" THEN e
                      ELSE Sub1(ms, mode, d, args, j + 1, acc \o AfterEmpty(MarkFirstArg(e.toks, B), pe),
                                tg \cup e.tags \cup (IF a = <<>> THEN {"arg-empty"} ELSE {}), fuel,
                                IF e.toks = <<>> THEN (IF pe.ws \/ pe.syn THEN pe ELSE B) ELSE NoTok)
         ELSE Sub1(ms, mode, d, args, j + 1, acc \o AfterEmpty(<<B>>, pe), tg, fuel, NoTok)

Subst(ms, mode, d, args, HS, fuel) ==
    LET s == Sub1(ms, mode, d, args, 1, <<>>, {}, fuel, NoTok) IN
    IF s.st # "ok" THEN s
    ELSE LET p == PastePass(s.toks, 1, <<>>, s.tags, mode) IN
         IF p.st # "ok" THEN p
         ELSE Ok(HsAdd(HS, SelectSeq(p.toks, LAMBDA x : x.k # "pm")), p.tags)

\* ---- expand --------------------------------------------------------------
\* Exp(ms, mode, ts, acc, tg, fuel, ctx): acc = tokens already final, ts = tokens still to scan
Exp(ms, mode, ts, acc, tg, fuel, ctx) ==
    IF ts = <<>> THEN Ok(acc, tg)
    ELSE IF fuel <= 0 THEN Bad("fuel", tg)
    ELSE LET T == ts[1]
             rest == Tail(ts)
         IN
         IF T.k # "id" \/ ~Defined(ms, T.t) THEN Exp(ms, mode, rest, Append(acc, T), tg, fuel, ctx)
         ELSE IF T.t \in T.hs
              THEN Exp(ms, mode, rest, Append(acc, T), tg \cup {"hidden-" \o ctx}, fuel, ctx)
         ELSE LET d == Def(ms, T.t) IN
              IF ~d.fl
              THEN LET r == Subst(ms, mode, d, <<>>, T.hs \cup {T.t}, fuel) IN
                   IF r.st # "ok" THEN r
                   ELSE Exp(ms, mode, MarkFirst(r.toks, T) \o (IF r.toks = <<>> THEN AfterEmpty(rest, T) ELSE rest), acc,
                            tg \cup r.tags \cup {"object-like"} \cup (IF r.toks = <<>> THEN {"empty-expansion"} ELSE {})
                               \cup (IF r.toks # <<>> /\ IsP(r.toks[1], HASH) THEN {"expansion-starts-with-hash"} ELSE {})
                               \cup (IF r.toks = <<>> /\ rest = <<>> THEN {"empty-expansion-at-end"} ELSE {}),
                            fuel - 1, ctx)
              ELSE IF rest = <<>> \/ ~IsP(rest[1], LP)
                   THEN Exp(ms, mode, rest, Append(acc, T),
                            tg \cup {"fn-name-without-paren"} \cup (IF rest = <<>> THEN {"fn-name-ends-" \o ctx} ELSE {})
                               \cup (IF rest # <<>> /\ rest[1].k = "id" /\ Defined(ms, rest[1].t) /\ rest[1].t \notin rest[1].hs
                                     THEN {"fn-name-then-macro"} ELSE {}),
                            fuel, ctx)
              ELSE LET ga == GatherArgs(rest) IN
                   IF ~ga.ok THEN Bad("invalid", {"unterminated-invocation"})
                   ELSE IF ~ArgsFit(d, ga.args) THEN Bad("invalid", {"argument-count"})
                   ELSE LET HS == Meet(mode, T.hs, ga.rp.hs) \cup {T.t}
                            r == Subst(ms, mode, d, ga.args, HS, fuel)
                            after == SubSeq(rest, ga.next, Len(rest))
                        IN IF r.st # "ok" THEN r
                           ELSE Exp(ms, mode, MarkFirst(r.toks, T) \o (IF r.toks = <<>> THEN AfterEmpty(after, T) ELSE after), acc,
                                    tg \cup r.tags \cup {"function-like"}
                                       \cup (IF T.hs # ga.rp.hs THEN {"paren-from-other-context"} ELSE {})
                                       \cup (IF r.toks = <<>> THEN {"empty-expansion"} ELSE {})
                                       \cup (IF r.toks # <<>> /\ IsP(r.toks[1], HASH) THEN {"expansion-starts-with-hash"} ELSE {})
                                       \cup (IF r.toks = <<>> /\ after = <<>> THEN {"empty-expansion-at-end"} ELSE {})
                                       \cup (IF \E x \in 1..Len(ga.args) : \E y \in 1..Len(ga.args[x]) :
                                                  IsP(ga.args[x][y], HASHHASH) \/ IsP(ga.args[x][y], HASH)
                                             THEN {"arg-contains-hash"} ELSE {})
                                       \cup (IF \E x \in 1..Len(ga.args) : \E y \in 1..Len(ga.args[x]) :
                                                  IsP(ga.args[x][y], COMMA) THEN {"arg-protected-comma"} ELSE {}),
                                    fuel - 1, ctx)

\* complete macro replacement of a token sequence under both readings of the hide-set rule
Expand(ms, ts) ==
    LET e1 == Exp(ms, "inter", ts, <<>>, {}, Fuel, "text")
        e2 == Exp(ms, "nested", ts, <<>>, {}, Fuel, "text")
    IN IF e1.st # "ok" THEN e1
       ELSE IF e2.st # "ok" \/ Proj(e2.toks) # Proj(e1.toks) THEN Bad("unspec", {"nested-replacement-unspecified"})
       ELSE e1

\* =========================================================================
\* #if expressions
\* =========================================================================
\* ---- parser: precedence climbing over the macro-expanded tokens -----------
OpOf(tok) == IF tok.k # "punct" THEN "" ELSE
    CASE tok.t = <<42>> -> "*" [] tok.t = <<47>> -> "/" [] tok.t = <<37>> -> "%"
      [] tok.t = <<43>> -> "+" [] tok.t = <<45>> -> "-"
      [] tok.t = <<60, 60>> -> "<<" [] tok.t = <<62, 62>> -> ">>"
      [] tok.t = <<60>> -> "<" [] tok.t = <<62>> -> ">" [] tok.t = <<60, 61>> -> "<=" [] tok.t = <<62, 61>> -> ">="
      [] tok.t = <<61, 61>> -> "==" [] tok.t = <<33, 61>> -> "!="
      [] tok.t = <<38>> -> "&" [] tok.t = <<94>> -> "^" [] tok.t = <<124>> -> "|"
      [] tok.t = <<38, 38>> -> "&&" [] tok.t = <<124, 124>> -> "||"
      [] tok.t = <<63>> -> "?" [] tok.t = <<58>> -> ":" [] tok.t = <<40>> -> "(" [] tok.t = <<41>> -> ")"
      [] tok.t = <<33>> -> "!" [] tok.t = <<126>> -> "~"
      [] OTHER -> ""
Prec(op) == CASE op \in {"*", "/", "%"} -> 10 [] op \in {"+", "-"} -> 9 [] op \in {"<<", ">>"} -> 8
              [] op \in {"<", ">", "<=", ">="} -> 7 [] op \in {"==", "!="} -> 6 [] op = "&" -> 5
              [] op = "^" -> 4 [] op = "|" -> 3 [] op = "&&" -> 2 [] op = "||" -> 1 [] OTHER -> 0
PFail == [ok |-> FALSE, p |-> 0, ast |-> [op |-> "none"]]
POk(ast, p) == [ok |-> TRUE, p |-> p, ast |-> ast]
OpAt(ts, p) == IF p <= Len(ts) THEN OpOf(ts[p]) ELSE ""
RECURSIVE PCond(_, _), PBin(_, _, _), PBinLoop(_, _, _), PUnary(_, _)
PUnary(ts, p) ==
    IF p > Len(ts) THEN PFail
    ELSE LET T == ts[p]  op == OpOf(T) IN
         IF op \in {"!", "~", "-", "+"}
         THEN LET a == PUnary(ts, p + 1) IN IF a.ok THEN POk([op |-> "un", f |-> op, a |-> a.ast], a.p) ELSE PFail
         ELSE IF op = "("
         THEN LET a == PCond(ts, p + 1) IN
              IF a.ok /\ OpAt(ts, a.p) = ")" THEN POk(a.ast, a.p + 1) ELSE PFail
         ELSE IF T.k = "num" THEN POk([op |-> "num", t |-> T.t], p + 1)
         ELSE IF T.k = "id" THEN POk([op |-> "zero"], p + 1)       \* 6.10.1p4: remaining identifiers are replaced with 0
         ELSE PFail
PBinLoop(ts, lhs, minp) ==      \* lhs = parse result; absorb operators of precedence >= minp
    LET op == OpAt(ts, lhs.p) IN
    IF ~lhs.ok THEN PFail
    ELSE IF Prec(op) = 0 \/ Prec(op) < minp THEN lhs
    ELSE LET r == PBin(ts, lhs.p + 1, Prec(op) + 1) IN
         IF ~r.ok THEN PFail
         ELSE PBinLoop(ts, POk([op |-> "bin", f |-> op, a |-> lhs.ast, b |-> r.ast], r.p), minp)
PBin(ts, p, minp) == PBinLoop(ts, PUnary(ts, p), minp)
PCond(ts, p) ==
    LET c == PBin(ts, p, 1) IN
    IF ~c.ok \/ OpAt(ts, c.p) # "?" THEN c
    ELSE LET a == PCond(ts, c.p + 1) IN
         IF ~a.ok \/ OpAt(ts, a.p) # ":" THEN PFail
         ELSE LET b == PCond(ts, a.p + 1) IN
              IF ~b.ok THEN PFail ELSE POk([op |-> "cond", c |-> c.ast, a |-> a.ast, b |-> b.ast], b.p)

\* ---- types: every operand is intmax_t or uintmax_t; u = "is unsigned" -----
RECURSIVE TypeU(_)
TypeU(e) == CASE e.op = "num" -> LET v == ParseInt(e.t) IN v.u
              [] e.op = "zero" -> FALSE
              [] e.op = "un" -> IF e.f = "!" THEN FALSE ELSE TypeU(e.a)
              [] e.op = "bin" -> IF e.f \in {"&&", "||", "<", ">", "<=", ">=", "==", "!="} THEN FALSE
                                 ELSE IF e.f \in {"<<", ">>"} THEN TypeU(e.a)
                                 ELSE TypeU(e.a) \/ TypeU(e.b)
              [] e.op = "cond" -> TypeU(e.a) \/ TypeU(e.b)

\* every constant of the expression must be an integer constant, evaluated or not (6.6p6)
RECURSIVE LitStatus(_)
LitStatus(e) == CASE e.op = "num" -> ParseInt(e.t).st
                  [] e.op = "zero" -> "ok"
                  [] e.op = "un" -> LitStatus(e.a)
                  [] e.op = "bin" -> IF LitStatus(e.a) # "ok" THEN LitStatus(e.a) ELSE LitStatus(e.b)
                  [] e.op = "cond" -> IF LitStatus(e.c) # "ok" THEN LitStatus(e.c)
                                      ELSE IF LitStatus(e.a) # "ok" THEN LitStatus(e.a) ELSE LitStatus(e.b)

\* ---- evaluation (6.5, 6.6) ----------------------------------------------
ShiftCountOK(b) == ~(~b.u /\ IsNegW(b.w)) /\ b.w[1] < 64 /\ \A j \in 2..8 : b.w[j] = 0
Arith(f, a, b) ==
    LET u == a.u \/ b.u
        tg == a.tags \cup b.tags
        \* a signed operand with a negative value converted to uintmax_t changes value
        conv == IF u /\ ((~a.u /\ IsNegW(a.w)) \/ (~b.u /\ IsNegW(b.w))) THEN {"if-negative-to-unsigned"} ELSE {}
    IN
    CASE f \in {"+", "-", "*"} ->
           LET x == IF u THEN U16(a.w) ELSE S16(a.w)
               y == IF u THEN U16(b.w) ELSE S16(b.w)
               r == IF f = "+" THEN WAdd(x, y) ELSE IF f = "-" THEN WSub(x, y) ELSE WMul(x, y)
           IN IF u THEN Val(TRUE, Low8(r), tg \cup conv \cup (IF FitsU(r) THEN {} ELSE {"if-unsigned-wraps"}))
              ELSE IF FitsS(r) THEN Val(FALSE, Low8(r), tg) ELSE NoVal("undef", "signed-overflow")
      [] f \in {"/", "%"} ->
           IF WIsZero(b.w) THEN NoVal("invalid", "division-by-zero")
           ELSE IF u THEN Val(TRUE, IF f = "/" THEN WDiv(a.w, b.w, FALSE) ELSE WRem(a.w, b.w, FALSE), tg \cup conv)
           ELSE IF WIsMin(a.w) /\ WIsMinusOne(b.w) THEN NoVal("undef", "signed-overflow")
           ELSE Val(FALSE, IF f = "/" THEN WDivS(a.w, b.w) ELSE WRemS(a.w, b.w),
                    tg \cup (IF IsNegW(a.w) # IsNegW(b.w) /\ ~WIsZero(WRemS(a.w, b.w))
                             THEN {"if-division-truncates-toward-zero"} ELSE {}))
      [] f = "<<" ->
           IF ~ShiftCountOK(b) THEN NoVal("undef", "shift-count")
           ELSE IF a.u THEN Val(TRUE, WShl(a.w, b.w[1]), tg \cup (IF FitsU(WShl(U16(a.w), b.w[1])) THEN {} ELSE {"if-unsigned-wraps"}))
           ELSE IF IsNegW(a.w) THEN NoVal("undef", "shift-of-negative")
           ELSE LET r == WShl(S16(a.w), b.w[1]) IN
                IF FitsS(r) THEN Val(FALSE, Low8(r), tg) ELSE NoVal("undef", "signed-overflow")
      [] f = ">>" ->
           IF ~ShiftCountOK(b) THEN NoVal("undef", "shift-count")
           ELSE IF ~a.u /\ IsNegW(a.w) THEN NoVal("impldef", "right-shift-of-negative")
           ELSE Val(a.u, WShrL(a.w, b.w[1]), tg)
      [] f \in {"<", ">", "<=", ">="} ->
           LET lt == WLt(a.w, b.w, ~u)  gt == WLt(b.w, a.w, ~u) IN
           Val(FALSE, Truth(CASE f = "<" -> lt [] f = ">" -> gt [] f = "<=" -> ~gt [] f = ">=" -> ~lt), tg \cup conv)
      [] f = "==" -> Val(FALSE, Truth(a.w = b.w), tg \cup conv)
      [] f = "!=" -> Val(FALSE, Truth(a.w # b.w), tg \cup conv)
      [] f = "&" -> Val(u, WAnd(a.w, b.w), tg \cup conv)
      [] f = "^" -> Val(u, WXor(a.w, b.w), tg \cup conv)
      [] f = "|" -> Val(u, WOr(a.w, b.w), tg \cup conv)
Unary(f, a) ==
    CASE f = "+" -> a
      [] f = "!" -> Val(FALSE, Truth(WIsZero(a.w)), a.tags)
      [] f = "~" -> Val(a.u, WNot(a.w), a.tags \cup (IF a.u THEN {"if-unsigned-wraps"} ELSE {}))
      [] f = "-" -> IF a.u THEN Val(TRUE, WNeg(a.w), a.tags \cup (IF WIsZero(a.w) THEN {} ELSE {"if-unsigned-wraps"}))
                    ELSE IF WIsMin(a.w) THEN NoVal("undef", "signed-overflow")
                    ELSE Val(FALSE, WNeg(a.w), a.tags)
RECURSIVE Ev(_)
Ev(e) ==
    CASE e.op = "num" -> ParseInt(e.t)
      [] e.op = "zero" -> Val(FALSE, W8(0), {})
      [] e.op = "un" -> LET a == Ev(e.a) IN IF a.st # "ok" THEN a ELSE Unary(e.f, a)
      [] e.op = "bin" ->
           LET a == Ev(e.a) IN
           IF a.st # "ok" THEN a
           ELSE IF e.f = "&&" /\ WIsZero(a.w) THEN Val(FALSE, W8(0), a.tags)       \* right operand not evaluated
           ELSE IF e.f = "||" /\ ~WIsZero(a.w) THEN Val(FALSE, W8(1), a.tags)
           ELSE LET b == Ev(e.b) IN
                IF b.st # "ok" THEN b
                ELSE IF e.f \in {"&&", "||"} THEN Val(FALSE, Truth(~WIsZero(b.w)), a.tags \cup b.tags)
                ELSE Arith(e.f, a, b)
      [] e.op = "cond" ->
           LET c == Ev(e.c) IN
           IF c.st # "ok" THEN c
           ELSE LET r == IF WIsZero(c.w) THEN Ev(e.b) ELSE Ev(e.a)
                    u == TypeU(e.a) \/ TypeU(e.b)
                IN IF r.st # "ok" THEN r
                   ELSE Val(u, r.w, c.tags \cup r.tags \cup (IF u /\ ~r.u /\ IsNegW(r.w) THEN {"if-negative-to-unsigned"} ELSE {}))

\* `defined X` / `defined ( X )` are evaluated before macro replacement
RECURSIVE DefinedPass(_, _, _, _)
DefinedPass(ms, ts, j, acc) ==
    IF j > Len(ts) THEN Ok(acc, {})
    ELSE IF ~IsId(ts[j], N_defined) THEN DefinedPass(ms, ts, j + 1, Append(acc, ts[j]))
    ELSE LET one(n) == [k |-> "num", t |-> IF Defined(ms, n) THEN <<49>> ELSE <<48>>, hs |-> {}, ws |-> TRUE, syn |-> FALSE] IN
         IF j + 1 <= Len(ts) /\ ts[j + 1].k = "id" THEN DefinedPass(ms, ts, j + 2, Append(acc, one(ts[j + 1].t)))
         ELSE IF j + 3 <= Len(ts) /\ IsP(ts[j + 1], LP) /\ ts[j + 2].k = "id" /\ IsP(ts[j + 3], RP)
              THEN DefinedPass(ms, ts, j + 4, Append(acc, one(ts[j + 2].t)))
         ELSE Bad("invalid", {"defined-without-identifier"})

\* value of a controlling expression: [st, v (BOOLEAN), tags]
IfValueMode(ms, mode, ts) ==
    LET dp == DefinedPass(ms, ts, 1, <<>>) IN
    IF dp.st # "ok" THEN [st |-> dp.st, v |-> FALSE, tags |-> dp.tags]
    ELSE LET e == Exp(ms, mode, dp.toks, <<>>, {}, Fuel, "if") IN
         IF e.st # "ok" THEN [st |-> e.st, v |-> FALSE, tags |-> e.tags]
         ELSE IF \E j \in 1..Len(e.toks) : IsId(e.toks[j], N_defined) THEN [st |-> "undef", v |-> FALSE, tags |-> {"defined-produced-by-macro"}]
         ELSE LET p == PCond(e.toks, 1) IN
              IF ~p.ok \/ p.p # Len(e.toks) + 1 THEN [st |-> "invalid", v |-> FALSE, tags |-> {"if-syntax"}]
              ELSE IF LitStatus(p.ast) # "ok" THEN [st |-> LitStatus(p.ast), v |-> FALSE, tags |-> {"if-constant"}]
              ELSE LET r == Ev(p.ast) IN
                   [st |-> r.st, v |-> ~WIsZero(r.w),
                    tags |-> r.tags \cup (e.tags \ {"hidden-if"}) \cup (IF dp.toks # ts THEN {"if-defined"} ELSE {})]
IfValue(ms, ts) ==
    LET a == IfValueMode(ms, "inter", ts)
        b == IfValueMode(ms, "nested", ts)
    IN IF a.st # "ok" THEN a
       ELSE IF b.st # "ok" \/ b.v # a.v THEN [st |-> "unspec", v |-> FALSE, tags |-> {"nested-replacement-unspecified"}]
       ELSE a

\* =========================================================================
\* The translation-unit machine: one step per source line
\* =========================================================================
\* state: ms macro table, cs conditional stack, pend text tokens not yet replaced (an
\* invocation may extend over several text lines), out result tokens, status, tags
\* cs entry: [s |-> "active" | "waiting" | "done" | "dead", els (an #else was seen), n (groups taken)]
S0 == [ms |-> <<>>, cs |-> <<>>, pend |-> <<>>, out |-> <<>>, status |-> "ok", tags |-> {}]
Live(cs) == \A j \in 1..Len(cs) : cs[j].s = "active"
Fail(S, st, tg) == [S EXCEPT !.status = st, !.tags = @ \cup tg]

IsDirective(line) == Len(line) > 0 /\ IsP(line[1], HASH)
CondNames == {N_if, N_ifdef, N_ifndef, N_elif, N_else, N_endif}
\* which rule applies to a line in state S
LineKind(S, line) ==
    IF ~IsDirective(line) THEN (IF Live(S.cs) THEN "text" ELSE "skip")
    ELSE IF Len(line) = 1 THEN (IF Live(S.cs) THEN "null" ELSE "skip")
    ELSE LET n == IF line[2].k = "id" THEN line[2].t ELSE <<>> IN
         CASE n = N_if -> "if" [] n = N_ifdef -> "ifdef" [] n = N_ifndef -> "ifndef"
           [] n = N_elif -> "elif" [] n = N_else -> "else" [] n = N_endif -> "endif"
           [] OTHER -> IF ~Live(S.cs) THEN "skip"
                       ELSE IF n = N_define THEN "define" ELSE IF n = N_undef THEN "undef" ELSE "other"

\* replace the pending text; a function-like macro name left at the very end of a text block
\* that is followed by a directive could still meet its "(" after the directive: unspecified
Flush(S, atEnd) ==
    IF S.pend = <<>> THEN S
    ELSE LET e == Expand(S.ms, S.pend) IN
         IF e.st # "ok" THEN Fail(S, e.st, e.tags)
         ELSE LET o == e.toks
                  dangling == /\ ~atEnd /\ o # <<>> /\ Last(o).k = "id" /\ Defined(S.ms, Last(o).t)
                              /\ Def(S.ms, Last(o).t).fl /\ Last(o).t \notin Last(o).hs
              IN IF dangling THEN Fail(S, "unspec", {"invocation-across-directive"})
                 ELSE [S EXCEPT !.out = @ \o o, !.pend = <<>>, !.tags = @ \cup e.tags]

DoText(S, line) == [S EXCEPT !.pend = @ \o line]
DoSkip(S, line) == IF IsDirective(line) /\ Len(line) = 1
                   THEN [S EXCEPT !.tags = @ \cup {"null-directive-in-skipped-group"}] ELSE S
DoNull(S, line) == Flush(S, FALSE)

\* #define
RECURSIVE Params(_, _, _)
\* line[j] is the token after "(" or after a ","; returns [st, params, next]
Params(line, j, acc) ==
    IF j > Len(line) THEN [st |-> "invalid", params |-> acc, next |-> j]
    ELSE IF IsP(line[j], RP) /\ acc = <<>> THEN [st |-> "ok", params |-> acc, next |-> j + 1]
    ELSE IF IsP(line[j], ELLIPSIS) THEN [st |-> "outofmodel", params |-> acc, next |-> j]
    ELSE IF line[j].k # "id" \/ j + 1 > Len(line) THEN [st |-> "invalid", params |-> acc, next |-> j]
    ELSE IF \E x \in 1..Len(acc) : acc[x] = line[j].t THEN [st |-> "invalid", params |-> acc, next |-> j]
    ELSE IF IsP(line[j + 1], RP) THEN [st |-> "ok", params |-> Append(acc, line[j].t), next |-> j + 2]
    ELSE IF IsP(line[j + 1], COMMA) THEN Params(line, j + 2, Append(acc, line[j].t))
    ELSE IF IsP(line[j + 1], ELLIPSIS) THEN [st |-> "outofmodel", params |-> acc, next |-> j]
    ELSE [st |-> "invalid", params |-> acc, next |-> j]
SameDef(a, b) == /\ a.fl = b.fl /\ a.params = b.params /\ Len(a.body) = Len(b.body)
                 /\ \A j \in 1..Len(a.body) : a.body[j].k = b.body[j].k /\ a.body[j].t = b.body[j].t
                                               /\ (j > 1 => a.body[j].ws = b.body[j].ws)
ParseDefine(line) ==      \* [st, def]
    LET nodef == [name |-> <<>>, fl |-> FALSE, params |-> <<>>, body |-> <<>>] IN
    IF Len(line) < 3 \/ line[3].k # "id" \/ line[3].t = N_defined THEN [st |-> "invalid", def |-> nodef]
    ELSE IF Len(line) >= 4 /\ IsP(line[4], LP) /\ ~line[4].ws
    THEN LET p == Params(line, 5, <<>>) IN
         [st |-> p.st, def |-> [name |-> line[3].t, fl |-> TRUE, params |-> p.params,
                                 body |-> IF p.st = "ok" THEN SubSeq(line, p.next, Len(line)) ELSE <<>>]]
    ELSE IF Len(line) >= 4 /\ ~line[4].ws THEN [st |-> "invalid", def |-> nodef]    \* 6.10.3p3: white space after the name
    ELSE [st |-> "ok", def |-> [name |-> line[3].t, fl |-> FALSE, params |-> <<>>, body |-> SubSeq(line, 4, Len(line))]]
DoDefine(S0_, line) ==
    LET S == Flush(S0_, FALSE)
        p == ParseDefine(line)
        d == p.def
    IN IF S.status # "ok" THEN S
       ELSE IF p.st # "ok" THEN Fail(S, p.st, {"define-syntax"})
       ELSE IF BodyStatus(d) # "ok" THEN Fail(S, BodyStatus(d), {"define-replacement-list"})
       ELSE IF Defined(S.ms, d.name)
            THEN IF SameDef(Def(S.ms, d.name), d) THEN [S EXCEPT !.tags = @ \cup {"benign-redefinition"}]
                 ELSE Fail(S, "invalid", {"incompatible-redefinition"})
       ELSE [S EXCEPT !.ms = Append(@, d)]
DoUndef(S0_, line) ==
    LET S == Flush(S0_, FALSE) IN
    IF S.status # "ok" THEN S
    ELSE IF Len(line) # 3 \/ line[3].k # "id" \/ line[3].t = N_defined THEN Fail(S, "invalid", {"undef-syntax"})
    ELSE [S EXCEPT !.ms = Remove(@, line[3].t),
                   !.tags = @ \cup (IF Defined(S.ms, line[3].t) THEN {"undef"} ELSE {})]
DoOther(S, line) == Fail(Flush(S, FALSE), "outofmodel", {"directive-not-modelled"})

\* conditional inclusion
Push(S, s) == [S EXCEPT !.cs = Append(@, [s |-> s, els |-> FALSE, n |-> IF s = "active" THEN 1 ELSE 0])]
OpenGroup(S0_, line, kind) ==
    LET S == Flush(S0_, FALSE) IN
    IF S.status # "ok" THEN S
    ELSE IF ~Live(S.cs) THEN Push(S, "dead")
    ELSE IF kind = "if"
         THEN LET c == IfValue(S.ms, SubSeq(line, 3, Len(line))) IN
              IF c.st # "ok" THEN Fail(S, c.st, c.tags)
              ELSE Push([S EXCEPT !.tags = @ \cup c.tags \cup {"if"}], IF c.v THEN "active" ELSE "waiting")
         ELSE IF Len(line) # 3 \/ line[3].k # "id" THEN Fail(S, "invalid", {"ifdef-syntax"})
         ELSE LET v == (kind = "ifdef") = Defined(S.ms, line[3].t) IN
              Push([S EXCEPT !.tags = @ \cup {kind}], IF v THEN "active" ELSE "waiting")
DoIf(S, line) == OpenGroup(S, line, "if")
DoIfdef(S, line) == OpenGroup(S, line, "ifdef")
DoIfndef(S, line) == OpenGroup(S, line, "ifndef")
Top(S) == Last(S.cs)
SetTop(S, e) == [S EXCEPT !.cs = Append(Front(@), e)]
DoElif(S0_, line) ==
    LET S == Flush(S0_, FALSE) IN
    IF S.status # "ok" THEN S
    ELSE IF S.cs = <<>> \/ Top(S).els THEN Fail(S, "invalid", {"elif-misplaced"})
    ELSE LET e == Top(S) IN
         IF e.s = "dead" THEN S
         ELSE LET c == IfValue(S.ms, SubSeq(line, 3, Len(line))) IN
              IF e.s = "waiting"
              THEN IF c.st # "ok" THEN Fail(S, c.st, c.tags)
                   ELSE IF c.v THEN SetTop([S EXCEPT !.tags = @ \cup c.tags \cup {"elif"}], [e EXCEPT !.s = "active", !.n = @ + 1])
                   ELSE [S EXCEPT !.tags = @ \cup c.tags \cup {"elif"}]
              \* a group was already taken: the expression is not evaluated; whether a malformed
              \* one must still be diagnosed differs between C11 and C23, so such a unit is not judged
              ELSE IF c.st # "ok" THEN Fail(S, "unspec", {"unevaluated-elif-not-valid"})
              ELSE SetTop([S EXCEPT !.tags = @ \cup {"elif-after-taken-group"}], [e EXCEPT !.s = "done"])
DoElse(S0_, line) ==
    LET S == Flush(S0_, FALSE) IN
    IF S.status # "ok" THEN S
    ELSE IF S.cs = <<>> \/ Top(S).els \/ Len(line) # 2 THEN Fail(S, "invalid", {"else-misplaced"})
    ELSE LET e == Top(S) IN
         SetTop([S EXCEPT !.tags = @ \cup {"else"}],
                CASE e.s = "waiting" -> [e EXCEPT !.s = "active", !.els = TRUE, !.n = @ + 1]
                  [] e.s = "active" -> [e EXCEPT !.s = "done", !.els = TRUE]
                  [] OTHER -> [e EXCEPT !.els = TRUE])
DoEndif(S0_, line) ==
    LET S == Flush(S0_, FALSE) IN
    IF S.status # "ok" THEN S
    ELSE IF S.cs = <<>> \/ Len(line) # 2 THEN Fail(S, "invalid", {"endif-misplaced"})
    ELSE [S EXCEPT !.cs = Front(@)]

StepKind(S, line, kind) ==
    IF S.status # "ok" THEN S
    ELSE CASE kind = "text" -> DoText(S, line) [] kind = "skip" -> DoSkip(S, line) [] kind = "null" -> DoNull(S, line)
           [] kind = "define" -> DoDefine(S, line) [] kind = "undef" -> DoUndef(S, line) [] kind = "other" -> DoOther(S, line)
           [] kind = "if" -> DoIf(S, line) [] kind = "ifdef" -> DoIfdef(S, line) [] kind = "ifndef" -> DoIfndef(S, line)
           [] kind = "elif" -> DoElif(S, line) [] kind = "else" -> DoElse(S, line) [] kind = "endif" -> DoEndif(S, line)
Step(S, line) == StepKind(S, line, LineKind(S, line))
Finish(S0_) ==
    LET S == Flush(S0_, TRUE) IN
    IF S.status # "ok" THEN S
    ELSE IF S.cs # <<>> THEN Fail(S, "invalid", {"unterminated-if-section"})
    ELSE S
RECURSIVE RunFrom(_, _, _)
RunFrom(S, lines, j) == IF j > Len(lines) THEN Finish(S) ELSE RunFrom(Step(S, lines[j]), lines, j + 1)
Run(lines) == RunFrom(S0, lines, 1)
=============================================================================
