------------------------------ MODULE BF_Diag ------------------------------
(* Idiom E for extension property X02 (Brainfuck half): what the front-end    *)
(* *did* with a program, judged against the language definition of BF.tla.    *)
(*  kind "accept": [src : char codes, outcome : [ok, exc]]                    *)
(*       a program is a Brainfuck program iff its brackets match; such a      *)
(*       program must be translated, any other must be rejected with a        *)
(*       CompilerError (never an internal error);                             *)
(*  kind "shape":  [datasize, bounds, outs] of an emitted module: the tape is *)
(*       the global `data` of 30000 byte cells (as ppci documents), the only  *)
(*       large constant is the bound 30000 of the initialisation loop (this   *)
(*       is what the tape-length abstraction of BF_IR.tla rewrites), and the  *)
(*       only external routine is bsp_putc.                                   *)
EXTENDS BF, TLC, Json, IOUtils
Recs == JsonDeserialize(IOEnv.TRACE_FILE)
NChunks == 16
TapeDoc == 30000
VARIABLES chunk, i
Allowed(r) ==
    CASE r.kind = "accept" -> IF Balanced(r.src) THEN r.outcome.ok
                              ELSE ~r.outcome.ok /\ r.outcome.exc = "CompilerError"
      [] r.kind = "shape"  -> r.datasize = TapeDoc /\ r.bounds = <<TapeDoc>> /\ r.externals = <<"bsp_putc">>
      [] OTHER -> FALSE
Init == chunk = 0 /\ i = 0 /\ m = Idle
PickChunk == chunk = 0 /\ chunk' \in 1..NChunks /\ UNCHANGED <<i, m>>
PickRec == chunk > 0 /\ i = 0 /\ i' \in {k \in 1..Len(Recs) : k % NChunks = chunk - 1} /\ UNCHANGED <<chunk, m>>
Next == PickChunk \/ PickRec
Conforms == i > 0 => Allowed(Recs[i])
=============================================================================
