------------------------------ MODULE Thumb_Dis ------------------------------
(* Spec validation only: writes Thumb.Decode / Arm32.DecodeA of every byte   *)
(* string of TRACE_FILE ([isa, bytes] pairs) to OUT_FILE, so that the        *)
(* harness can compare the specification with llvm-mc on the same bytes.     *)
(* Never decides a property.                                                 *)
EXTENDS Thumb, Arm32, Json, IOUtils, SequencesExt
Bs == JsonDeserialize(IOEnv.TRACE_FILE)
Flat(d) == [d EXCEPT !.list = SetToSeq(d.list), !.impl = SetToSeq(d.impl)]
ASSUME JsonSerialize(IOEnv.OUT_FILE, [k \in 1..Len(Bs) |->
            Flat(IF Bs[k][1] = "thumb" THEN Decode(Bs[k][2]) ELSE DecodeA(Bs[k][2]))])
VARIABLE x
Init == x = 0
Next == UNCHANGED x
=============================================================================
