----------------------------- MODULE LinkerJobs -----------------------------
(* Source of the link jobs of Linker.tla: trace variant.  TRACE_FILE is a    *)
(* JSON array of recorded links {id, inp, lay, opt, events} (Linker_Trace).  *)
(* For model checking, engines/c12.py supplies instead                       *)
(*     EXTENDS LinkerJobs_MC    Jobs == MCJobs                                *)
EXTENDS Json, IOUtils
Jobs == JsonDeserialize(IOEnv.TRACE_FILE)
=============================================================================
